(* C09 - Schema evolution keeps old and new code interoperable: the BUILDER-side clauses.
   Statements only; proofs in Verifier/Evolution2*.v.  (The verifier-only clause is Properties_C09.v.)

   Notation.  FS = Format/Schema.v (format-side schema), Sp = Format/Spec.v (the binary format as a checking decoder,
   the abstract reader of C03), EM = Builder/EmitModel.v (the create layer of builder.c), BS = Builder/Script.v
   (well-typed build scripts), E2 = Verifier/Evolution2.v, E2D = Verifier/Evolution2Dec.v.

   A = the OLD schema, B = the NEW schema, [E2.extends A B = true] (decidable): every table of A is a table of B at the
   same index with A's field descriptors (id, required flag, kind) as an order-preserving sub-list; every field B adds is
   NOT required; every union of A is a union of B in which each code A lists means the same member; B may have more
   tables, unions, fields, members.  Deprecation (B dropping a non-required field of A, so that neither schema extends
   the other) is covered through a common extension M of both (section 5): M keeps every field either version has.

   "Built with S's code" = a build script that is well typed over S ([BS.wt_script S]) and - for the A-to-B direction -
   TIGHT ([E2.wt_script_tight S]): every add call of a table of type t names a vtable slot of S's table t.  [BS.wt_script]
   alone lets a table carry add calls for slots the schema does not know (harmless for one schema); the A-to-B direction
   is FALSE without tightness (C09_tightness_needed).

   "Read by the reader" = [Sp.decode_root]: a table value is the list of its PRESENT fields; a field that is not in
   the list is what the generated accessors report as absent / schema default (that link is the generated-reader
   correspondence of checks/c03.py and checks/c09.py, not a theorem here).

   Hypotheses inherited from C02_build_verifies (all about the schema whose verifier theorem is used, i.e. B):
   schema_wf (to_vschema B), schema_in_fragment B (no nested-buffer fields), members_nonempty B, root_ok R,
   script_bytes sc, levels_needed B n <= VERIFIER_MAX_LEVELS, n <= fuel, header_room (struct roots only),
   VMem.small st (total size < 2^31), addr aligned to the alignment the builder reports.
   The decoder clauses (the theorems named ..._decodes_...) need none of these. *)
From Flatcc.Format Require Schema Spec.
From Flatcc.Builder Require EmitModel VMem Script Example.
From Flatcc.Verifier Require Import Schema VerifierModel VerifierProofsBase CompleteBase CompleteTable Complete
  CompleteBuild CompleteBytes Evolution Evolution2Build Evolution2Example.
From Flatcc.Verifier Require Evolution2 Evolution2Dec Evolution2Scripts.
Local Open Scope Z_scope.

(* ------------------------------------------------------------------ 1. the relation *)
(* the format-side relation gives the verifier-side relation of Properties_C09.v on the translated schemas *)
Theorem C09_extends_restricts : forall A B,
  E2.extends A B = true -> restricts (to_vschema A) (to_vschema B) = true.
Proof. exact extends_restricts. Qed.
Print Assumptions C09_extends_restricts.

(* what the boolean means, table by table and union by union *)
Theorem C09_extends_table : forall A B t fa, E2.extends A B = true -> FS.table_fields A t = Some fa ->
  exists fb, FS.table_fields B t = Some fb /\ E2.fsub fa fb (E2.new_fields fa fb).
Proof. exact E2.extends_table. Qed.
Print Assumptions C09_extends_table.

Theorem C09_extends_member : forall A B u c m, E2.extends A B = true ->
  FS.union_member A u c = Some m -> FS.union_member B u c = Some m.
Proof. exact E2.extends_member. Qed.
Print Assumptions C09_extends_member.

Theorem C09_new_fields_optional : forall fa fb nw g, E2.fsub fa fb nw -> In g nw -> FS.frequired g = false.
Proof. exact E2.fsub_new_optional. Qed.
Print Assumptions C09_new_fields_optional.

(* ------------------------------------------------------------------ 2. typing is monotone *)
(* A script typed over A whose tables add none of the slots B introduces is typed over B with the SAME root, value,
   size-prefix flag and depth (Sp.value does not mention the schema: the new fields are simply not in the value). *)
Theorem C09_wt_script_mono : forall A B, E2.extends A B = true ->
  forall sc R v ws n, E2.wt_script_p (E2.avoids A B) A sc R v ws n -> BS.wt_script B sc R v ws n.
Proof. exact E2.wt_script_mono. Qed.
Print Assumptions C09_wt_script_mono.

(* tight scripts avoid the new slots when no two fields of a table of B share a slot (a union owns id and id - 1) *)
Theorem C09_tight_avoids : forall A B, E2.extends A B = true -> E2.ids_distinct B = true ->
  forall t adds, E2.tight A t adds -> E2.avoids A B t adds.
Proof. exact E2.tight_avoids. Qed.
Print Assumptions C09_tight_avoids.

Theorem C09_wt_script_tight_mono : forall A B, E2.extends A B = true ->
  forall sc R v ws n, E2.ids_distinct B = true -> E2.wt_script_tight A sc R v ws n -> BS.wt_script B sc R v ws n.
Proof. exact E2.wt_script_tight_mono. Qed.
Print Assumptions C09_wt_script_tight_mono.

(* tight typing is typing *)
Theorem C09_tight_is_typed : forall P Sc sc R v ws n, E2.wt_script_p P Sc sc R v ws n -> BS.wt_script Sc sc R v ws n.
Proof. exact E2.wt_script_p_forget. Qed.
Print Assumptions C09_tight_is_typed.

(* ------------------------------------------------------------------ 3. every buffer built with A's code ... *)
(* ... is accepted by B's verifier, at every address aligned to the alignment the builder reports *)
Theorem C09_new_verifier_accepts_old_builds : forall A B, E2.extends A B = true ->
  forall sc R v ws n regs ems st addr fuel,
  E2.ids_distinct B = true ->
  E2.wt_script_tight A sc R v ws n ->
  EM.run EM.init_state [] sc = Some (regs, ems, st) -> VMem.small st ->
  schema_wf (to_vschema B) = true -> schema_in_fragment B = true -> members_nonempty B = true -> root_ok R ->
  script_bytes sc = true ->
  levels_needed B n <= VERIFIER_MAX_LEVELS -> (n <= fuel)%nat ->
  header_room R ws (EM.lenZ (EM.buffer_bytes st)) ->
  addr mod EM.buffer_alignment st = 0 ->
  verify_root (of_list (EM.buffer_bytes st)) addr (to_vschema B) fuel (to_vroot R) (to_variant ws) = VOk.
Proof. exact new_verifier_accepts_old_builds. Qed.
Print Assumptions C09_new_verifier_accepts_old_builds.

(* ... every read of B's generated reader over it is in bounds and aligned *)
Theorem C09_new_reader_safe_on_old_builds : forall A B, E2.extends A B = true ->
  forall sc R v ws n regs ems st addr fuel ra,
  E2.ids_distinct B = true ->
  E2.wt_script_tight A sc R v ws n ->
  EM.run EM.init_state [] sc = Some (regs, ems, st) -> VMem.small st ->
  schema_wf (to_vschema B) = true -> schema_in_fragment B = true -> members_nonempty B = true -> root_ok R ->
  script_bytes sc = true ->
  levels_needed B n <= VERIFIER_MAX_LEVELS -> (n <= fuel)%nat ->
  header_room R ws (EM.lenZ (EM.buffer_bytes st)) ->
  addr mod EM.buffer_alignment st = 0 ->
  ra_ok (to_vschema B) ra = true -> root_aligned ra addr (to_vroot R) ->
  walk_root (of_list (EM.buffer_bytes st)) addr (to_vschema B) fuel (to_vroot R) ws = WOk.
Proof. exact new_reader_safe_on_old_builds. Qed.
Print Assumptions C09_new_reader_safe_on_old_builds.

(* ... and is read under B as exactly the value that was built, which is also what A reads: "the new fields at their
   defaults" = the new ids are not among the present fields *)
Theorem C09_old_build_decodes_under_new : forall A B, E2.extends A B = true ->
  forall sc R v ws n regs ems st,
  E2.ids_distinct B = true ->
  E2.wt_script_tight A sc R v ws n ->
  EM.run EM.init_state [] sc = Some (regs, ems, st) -> VMem.small st ->
  Sp.decode_root n B R ws (EM.buffer_bytes st) = Some v /\ Sp.decode_root n A R ws (EM.buffer_bytes st) = Some v.
Proof. exact old_build_decodes_under_new. Qed.
Print Assumptions C09_old_build_decodes_under_new.

Theorem C09_old_build_new_fields_absent : forall A B, E2.extends A B = true ->
  forall sc t v ws n regs ems st,
  E2.ids_distinct B = true ->
  E2.wt_script_tight A sc (FS.RTable t) v ws n ->
  EM.run EM.init_state [] sc = Some (regs, ems, st) -> VMem.small st ->
  Sp.decode_root n B (FS.RTable t) ws (EM.buffer_bytes st) = Some v /\
  exists fa fs, FS.table_fields A t = Some fa /\ v = Sp.VTable fs /\
                forall k x, FS.assocZ k fs = Some x -> In k (map FS.fid fa).
Proof. exact old_build_new_fields_absent. Qed.
Print Assumptions C09_old_build_new_fields_absent.

(* ------------------------------------------------------------------ 4. every buffer built with B's code ... *)
(* ... is accepted by A's verifier (no tightness needed: whatever B's script adds, A ignores or checks as B does) *)
Theorem C09_old_verifier_accepts_new_builds : forall A B, E2.extends A B = true ->
  forall sc R v ws n regs ems st addr fuel,
  BS.wt_script B sc R v ws n ->
  EM.run EM.init_state [] sc = Some (regs, ems, st) -> VMem.small st ->
  schema_wf (to_vschema B) = true -> schema_in_fragment B = true -> members_nonempty B = true -> root_ok R ->
  script_bytes sc = true ->
  levels_needed B n <= VERIFIER_MAX_LEVELS -> (n <= fuel)%nat ->
  header_room R ws (EM.lenZ (EM.buffer_bytes st)) ->
  addr mod EM.buffer_alignment st = 0 ->
  verify_root (of_list (EM.buffer_bytes st)) addr (to_vschema A) fuel (to_vroot R) (to_variant ws) = VOk.
Proof. exact old_verifier_accepts_new_builds. Qed.
Print Assumptions C09_old_verifier_accepts_new_builds.

(* ... every read of A's generated reader over it is in bounds and aligned *)
Theorem C09_old_reader_safe_on_new_builds : forall A B, E2.extends A B = true ->
  forall sc R v ws n regs ems st addr fuel ra,
  BS.wt_script B sc R v ws n ->
  EM.run EM.init_state [] sc = Some (regs, ems, st) -> VMem.small st ->
  schema_wf (to_vschema B) = true -> schema_in_fragment B = true -> members_nonempty B = true -> root_ok R ->
  script_bytes sc = true ->
  levels_needed B n <= VERIFIER_MAX_LEVELS -> (n <= fuel)%nat ->
  header_room R ws (EM.lenZ (EM.buffer_bytes st)) ->
  addr mod EM.buffer_alignment st = 0 ->
  schema_wf (to_vschema A) = true -> ra_ok (to_vschema A) ra = true -> root_aligned ra addr (to_vroot R) ->
  walk_root (of_list (EM.buffer_bytes st)) addr (to_vschema A) fuel (to_vroot R) ws = WOk.
Proof. exact old_reader_safe_on_new_builds. Qed.
Print Assumptions C09_old_reader_safe_on_new_builds.

(* ... and is read under A as the built value RESTRICTED to A ([E2D.rv_root]): fields A does not list dropped, a union
   member (single or in a union vector) whose type code A does not list read as [Sp.VUnknown] and not followed, all
   shared fields equal.  For ANY byte list that decodes under B, built or not: *)
Theorem C09_decode_restricts : forall A B, E2.extends A B = true -> E2D.tables_closed A = true -> E2.fids_distinct B = true ->
  forall n R ws l v, E2D.root_in A R ->
  Sp.decode_root n B R ws l = Some v -> Sp.decode_root n A R ws l = Some (E2D.rv_root A n R v).
Proof. exact E2D.decode_root_res. Qed.
Print Assumptions C09_decode_restricts.

Theorem C09_new_build_decodes_under_old : forall A B, E2.extends A B = true ->
  forall sc R v ws n regs ems st,
  E2D.tables_closed A = true -> E2.fids_distinct B = true -> E2D.root_in A R ->
  BS.wt_script B sc R v ws n ->
  EM.run EM.init_state [] sc = Some (regs, ems, st) -> VMem.small st ->
  Sp.decode_root n A R ws (EM.buffer_bytes st) = Some (E2D.rv_root A n R v).
Proof. exact new_build_decodes_under_old. Qed.
Print Assumptions C09_new_build_decodes_under_old.

(* ------------------------------------------------------------------ 5. deprecation: two versions with a common extension *)
(* M extends both A and B (for "B = A with non-required fields deprecated and new fields appended": M = B with the
   deprecated fields kept).  Every tight build over A is accepted by B's verifier and read under B as the built value
   restricted to B.  The schema hypotheses are about M. *)
Theorem C09_verifier_accepts_builds_via_common_extension : forall A B M,
  E2.extends A M = true -> E2.extends B M = true ->
  forall sc R v ws n regs ems st addr fuel,
  E2.ids_distinct M = true ->
  E2.wt_script_tight A sc R v ws n ->
  EM.run EM.init_state [] sc = Some (regs, ems, st) -> VMem.small st ->
  schema_wf (to_vschema M) = true -> schema_in_fragment M = true -> members_nonempty M = true -> root_ok R ->
  script_bytes sc = true ->
  levels_needed M n <= VERIFIER_MAX_LEVELS -> (n <= fuel)%nat ->
  header_room R ws (EM.lenZ (EM.buffer_bytes st)) ->
  addr mod EM.buffer_alignment st = 0 ->
  verify_root (of_list (EM.buffer_bytes st)) addr (to_vschema B) fuel (to_vroot R) (to_variant ws) = VOk.
Proof. exact verifier_accepts_builds_via_common_extension. Qed.
Print Assumptions C09_verifier_accepts_builds_via_common_extension.

Theorem C09_build_decodes_via_common_extension : forall A B M,
  E2.extends A M = true -> E2.extends B M = true ->
  forall sc R v ws n regs ems st,
  E2.ids_distinct M = true -> E2.fids_distinct M = true -> E2D.tables_closed B = true -> E2D.root_in B R ->
  E2.wt_script_tight A sc R v ws n ->
  EM.run EM.init_state [] sc = Some (regs, ems, st) -> VMem.small st ->
  Sp.decode_root n B R ws (EM.buffer_bytes st) = Some (E2D.rv_root B n R v).
Proof. exact build_decodes_via_common_extension. Qed.
Print Assumptions C09_build_decodes_via_common_extension.

(* ------------------------------------------------------------------ 6. satisfiable, and tightness is needed *)
Module X := Flatcc.Verifier.Evolution2Scripts.

(* version 1 = Builder/Example.v's schema; version 2 appends a scalar field, a union member, a table, a table field and
   a second union field.  Builder/Example.v's script (tight over version 1) seen by version 2: *)
Theorem C09_example_old_build_under_new : exists regs ems st,
  EM.run EM.init_state [] Example.ex_script = Some (regs, ems, st) /\ VMem.small st /\
  E2.extends X.evA X.evB = true /\ E2.ids_distinct X.evB = true /\
  E2.wt_script_tight X.evA Example.ex_script (FS.RTable 1) Example.ex_value true 2 /\
  schema_wf (to_vschema X.evB) = true /\ schema_in_fragment X.evB = true /\ members_nonempty X.evB = true /\
  script_bytes Example.ex_script = true /\ levels_needed X.evB 2 = 3 /\ EM.buffer_alignment st = 16 /\
  ra_ok (to_vschema X.evB) (fun _ => 16) = true /\
  verify_root (of_list (EM.buffer_bytes st)) 0 (to_vschema X.evB) 2 (RTable 1) WithSize = VOk /\
  walk_root (of_list (EM.buffer_bytes st)) 0 (to_vschema X.evB) 2 (RTable 1) true = WOk /\
  Sp.decode_root 2 X.evB (FS.RTable 1) true (EM.buffer_bytes st) = Some Example.ex_value /\
  Sp.decode_root 2 X.evA (FS.RTable 1) true (EM.buffer_bytes st) = Some Example.ex_value.
Proof. exact ev_old_build_under_new. Qed.
Print Assumptions C09_example_old_build_under_new.

(* a version-2 script that uses every addition (new scalar, new union member in the OLD union field, new table, new
   table field, new union field) seen by version 1 *)
Theorem C09_example_new_build_under_old : exists regs ems st,
  EM.run EM.init_state [] X.ev_new_script = Some (regs, ems, st) /\ VMem.small st /\
  E2.extends X.evA X.evB = true /\ E2D.tables_closed X.evA = true /\ E2.fids_distinct X.evB = true /\
  BS.wt_script X.evB X.ev_new_script (FS.RTable 1) X.ev_new_value false 2 /\
  schema_wf (to_vschema X.evB) = true /\ schema_in_fragment X.evB = true /\ members_nonempty X.evB = true /\
  script_bytes X.ev_new_script = true /\ levels_needed X.evB 2 = 3 /\ EM.buffer_alignment st = 8 /\
  schema_wf (to_vschema X.evA) = true /\ ra_ok (to_vschema X.evA) (fun _ => 8) = true /\
  verify_root (of_list (EM.buffer_bytes st)) 0 (to_vschema X.evA) 2 (RTable 1) Plain = VOk /\
  walk_root (of_list (EM.buffer_bytes st)) 0 (to_vschema X.evA) 2 (RTable 1) false = WOk /\
  Sp.decode_root 2 X.evB (FS.RTable 1) false (EM.buffer_bytes st) = Some X.ev_new_value /\
  Sp.decode_root 2 X.evA (FS.RTable 1) false (EM.buffer_bytes st) = Some X.ev_new_value_restricted.
Proof. exact ev_new_build_under_old. Qed.
Print Assumptions C09_example_new_build_under_old.

(* the same verdicts computed on the emitted bytes, independently of the theorems *)
Theorem C09_example_computed :
  EM.lenZ X.ev_old_bytes = 112 /\ EM.lenZ X.ev_new_bytes = 112 /\
  verify_root (of_list X.ev_old_bytes) 0 (to_vschema X.evB) (Z.to_nat VERIFIER_MAX_LEVELS) (RTable 1) WithSize = VOk /\
  verify_root (of_list X.ev_new_bytes) 0 (to_vschema X.evA) (Z.to_nat VERIFIER_MAX_LEVELS) (RTable 1) Plain = VOk /\
  Sp.decode_root 2 X.evB (FS.RTable 1) true X.ev_old_bytes = Some Example.ex_value /\
  Sp.decode_root 2 X.evA (FS.RTable 1) false X.ev_new_bytes = Some X.ev_new_value_restricted.
Proof. exact ev_computed. Qed.
Print Assumptions C09_example_computed.

(* version 2' = version 2 with T0.s deprecated; Builder/Example.v's script (version-1 code, writes T0.s) seen by it *)
Theorem C09_example_old_build_under_deprecating : exists regs ems st,
  EM.run EM.init_state [] Example.ex_script = Some (regs, ems, st) /\ VMem.small st /\
  E2.extends X.evA X.evB = true /\ E2.extends X.evD X.evB = true /\ E2.extends X.evA X.evD = false /\
  E2D.tables_closed X.evD = true /\
  verify_root (of_list (EM.buffer_bytes st)) 0 (to_vschema X.evD) 2 (RTable 1) WithSize = VOk /\
  Sp.decode_root 2 X.evD (FS.RTable 1) true (EM.buffer_bytes st) = Some X.ev_old_value_deprecated.
Proof. exact ev_old_build_under_deprecating. Qed.
Print Assumptions C09_example_old_build_under_deprecating.

(* [BS.wt_script A] without tightness does not suffice for section 3: A = { a:int }, B = { a:int; s:string }, a script
   that adds vtable slot 1 with inline bytes is well typed over A and accepted by A; B's verifier and decoder refuse. *)
Theorem C09_tightness_needed : exists A B sc v regs ems st,
  E2.extends A B = true /\ E2.ids_distinct B = true /\
  BS.wt_script A sc (FS.RTable 0) v false 1 /\
  EM.run EM.init_state [] sc = Some (regs, ems, st) /\ VMem.small st /\
  schema_wf (to_vschema B) = true /\ schema_in_fragment B = true /\ members_nonempty B = true /\ script_bytes sc = true /\
  verify_root (of_list (EM.buffer_bytes st)) 0 (to_vschema A) 100 (RTable 0) Plain = VOk /\
  verify_root (of_list (EM.buffer_bytes st)) 0 (to_vschema B) 100 (RTable 0) Plain = VErr E_string_header_out_of_range_or_unaligned /\
  Sp.decode_root 1 B (FS.RTable 0) false (EM.buffer_bytes st) = None.
Proof. exact tightness_needed. Qed.
Print Assumptions C09_tightness_needed.

(* NOT proved here (decided by checks/c09.py on every run):
   - a deprecated slot being REUSED by a later field of another kind (no common extension with distinct slots exists;
     flatcc's schema compiler refuses to reuse an id as well);
   - nested-buffer fields in the verifier clauses (inherited from C02_build_verifies); the decoder clauses cover them;
   - union vectors and nested buffers in BUILT buffers (Builder/Script.v has no typing rule for them); C09_decode_restricts
     covers them for every byte list that decodes under B;
   - the generated C reader returning the schema default for a field that is not in the decoded list, and A's JSON
     printer on B-built buffers. *)
