(* C18, second half - "cloning a table from a verified buffer into a buffer under construction yields content that reads
   equal to the source, and the result verifies; with a reference map, objects reached by several paths are emitted once".
   Only statements, each closed by [exact] of a lemma of Refmap/CloneContent.v.  The model of the generated clone code
   is Refmap/CloneModel.v (reads through the accessor-value model Verifier/ReaderValue.v, emits create-level commands
   of Builder/EmitModel.v).

   Chain of the argument:
     source decodes (Format/Spec.v, the independent decoder; = what the generated reader returns, C03_reader_agrees_with_decode)
       ==> the script [clone_root_script] emits is well typed FOR THAT VALUE            C18_clone_well_typed  (new, induction over the clone)
       ==> the finished copy decodes / reads back to exactly that value                 C18_clone_content     (C03_build_decode_union_vectors)
       ==> the copy is accepted by the verifier model                                   C18_clone_verifies    (C02_verify_complete_partial)
   and, for the memo: entries are never lost or replaced, a visited object is memoized under its key, a second visit
   returns the same register and emits nothing                                          C18_clone_shares_concrete, C18_clone_memo_grows.

   Fragment of the proofs ([clone_schema_ok]): table roots; scalars / inline structs, strings, scalar and struct vectors,
   string vectors, tables, table vectors, unions with table / struct / string members, NONE.  The MODEL also covers union
   vectors and nested buffers (cloned as aligned byte vectors); for these the typing proof is missing:
     C18_clone_well_typed_partial   would be the name of the statement with [kind_okP] admitting FUnionVec;
                                    missing: the lemma for uvec_clone against Spec.dec_uvec (typing rule XT_unionvec
                                    exists, Builder side proved); nested buffers additionally need "a byte vector with
                                    the content of a buffer is a nested buffer" (Spec decode antitone in the alignment
                                    references), which Builder/Nested*.v does not have either.
   Hypotheses:
     clone_schema_ok Sc            ids_ok (ids fit voffset_t arithmetic, union ids >= 1); per table: field sizes <= 65535,
                                   alignments powers of two <= 256, element sizes >= 1, maxcount * esize <= 2^32 - 1,
                                   ids < 32765, vtable slots of different fields distinct, at most 16382 fields, the sum of
                                   (size + alignment) over all fields + 4 <= 65535 (the 16-bit table size); struct union
                                   members: size >= 0, alignment a power of two.
     m_map M = []                  the reference map is empty at the start (installed or not: [m_on M] is arbitrary).
     decode_root n .. src = Some v the source is well formed (wf) and decodes to v;
     no_unknown v                  no union member with a type code the schema does not list: the clone code DROPS such a
                                   member (U_clone: default: NONE), so the content would differ - see findings.
     strict = true                 the ghost type tag of a memo hit must agree; else the model is [None].  This is the
                                   documented limit of the C code ("clone cannot be used to make a buffer with overlapping
                                   data safe ... it would be necessary to remember the type as well"); without a reference
                                   map there is never a hit.  C18_clone_memo_type_confusion shows the limit is real.
     run .. = Some, small st       the builder model runs (no emitter failure) below 2^31 bytes.
   For acceptance by the verifier additionally the hypotheses of C02_verify_complete_partial and [script_bytes sc]
   (the data of the emitted commands are bytes; follows from "src is a byte list" - not proved here, decidable on the
   script). *)
From Flatcc.Format Require Import Schema Spec.
From Flatcc.Verifier Require Import ReaderValue ReaderValueProofs.
From Flatcc.Builder Require Import EmitModel VMem Buffer NestedBase NestedScript Example.
From Flatcc.Refmap Require Import CloneModel CloneContent.
Local Open Scope Z_scope.

(* (a) the emitted script is well typed for the value the source decodes to *)
Theorem C18_clone_well_typed : forall Sc cl ba0 id0 id fl M kc n tix ws src base v sc r M',
  clone_schema_ok Sc -> m_map M = [] ->
  decode_root n Sc (RTable tix) ws src = Some v -> no_unknown v = true ->
  balign_ok ba0 -> in_u32 id -> 0 <= fl < 65536 ->
  clone_root_script true Sc (mem_of_list src) base cl ba0 id0 id fl M kc tix ws = Some (sc, r, M') ->
  xwt_script Sc sc (RTable tix) v (negb (Z.land fl 2 =? 0)) (vheight v) [].
Proof. exact clone_well_typed. Qed.
Print Assumptions C18_clone_well_typed.

(* (b) content: the finished copy decodes to exactly the value of the source, for every depth bound that admits it *)
Theorem C18_clone_content : forall Sc cl ba0 id0 id fl M kc n tix ws src base v sc r M' regs ems st,
  clone_schema_ok Sc -> m_map M = [] ->
  decode_root n Sc (RTable tix) ws src = Some v -> no_unknown v = true ->
  balign_ok ba0 -> in_u32 id -> 0 <= fl < 65536 ->
  clone_root_script true Sc (mem_of_list src) base cl ba0 id0 id fl M kc tix ws = Some (sc, r, M') ->
  run init_state [] sc = Some (regs, ems, st) -> small st ->
  forall n', (vheight v <= n')%nat ->
  decode_root n' Sc (RTable tix) (negb (Z.land fl 2 =? 0)) (buffer_bytes st) = Some v.
Proof. exact clone_content. Qed.
Print Assumptions C18_clone_content.

(* ... in terms of what the generated READER returns on both buffers (every accessor of every field, ReaderValue.v) *)
Theorem C18_clone_reads_equal : forall Sc dflt cl ba0 id0 id fl M kc n tix ws src base v sc r M' regs ems st,
  clone_schema_ok Sc -> m_map M = [] ->
  decode_root n Sc (RTable tix) ws src = Some v -> no_unknown v = true ->
  balign_ok ba0 -> in_u32 id -> 0 <= fl < 65536 ->
  clone_root_script true Sc (mem_of_list src) base cl ba0 id0 id fl M kc tix ws = Some (sc, r, M') ->
  run init_state [] sc = Some (regs, ems, st) -> small st ->
  forall n', (vheight v <= n')%nat ->
  read_root_list n' Sc dflt (RTable tix) (negb (Z.land fl 2 =? 0)) (buffer_bytes st) = Some v /\
  read_root_list n Sc dflt (RTable tix) ws src = Some v.
Proof. exact clone_reads_equal. Qed.
Print Assumptions C18_clone_reads_equal.

(* (c) the copy is accepted by the verifier model, at every address aligned to the alignment the builder reports *)
Theorem C18_clone_verifies : forall Sc cl ba0 id0 id fl M kc n tix ws src base v sc r M' regs ems st addr fuel,
  clone_schema_ok Sc -> m_map M = [] ->
  decode_root n Sc (RTable tix) ws src = Some v -> no_unknown v = true ->
  balign_ok ba0 -> in_u32 id -> 0 <= fl < 65536 ->
  clone_root_script true Sc (mem_of_list src) base cl ba0 id0 id fl M kc tix ws = Some (sc, r, M') ->
  run init_state [] sc = Some (regs, ems, st) -> small st ->
  Flatcc.Verifier.Schema.schema_wf (Flatcc.Verifier.CompleteBase.to_vschema Sc) = true ->
  Flatcc.Verifier.CompleteTable.schema_in_fragment Sc = true ->
  Flatcc.Verifier.CompleteTable.members_nonempty Sc = true ->
  Flatcc.Verifier.CompleteBytes.script_bytes sc = true ->
  Flatcc.Verifier.Complete.levels_needed Sc (vheight v) <= Flatcc.Generated.Consts.VERIFIER_MAX_LEVELS ->
  (vheight v <= fuel)%nat ->
  addr mod buffer_alignment st = 0 ->
  Flatcc.Verifier.VerifierModel.verify_root (of_list (buffer_bytes st)) addr (Flatcc.Verifier.CompleteBase.to_vschema Sc) fuel
    (Flatcc.Verifier.CompleteBase.to_vroot (RTable tix))
    (Flatcc.Verifier.Complete.to_variant (negb (Z.land fl 2 =? 0))) = Flatcc.Verifier.VerifierModel.VOk.
Proof. exact CloneVerify.clone_verifies. Qed.
Print Assumptions C18_clone_verifies.

(* C02_build_verifies for the extended typing (union vectors): used above, of independent interest *)
Theorem C18_xbuild_verifies : forall Sc sc R v ws n N regs ems st addr fuel,
  xwt_script Sc sc R v ws n N -> run init_state [] sc = Some (regs, ems, st) -> small st ->
  Flatcc.Verifier.Schema.schema_wf (Flatcc.Verifier.CompleteBase.to_vschema Sc) = true ->
  Flatcc.Verifier.CompleteTable.schema_in_fragment Sc = true ->
  Flatcc.Verifier.CompleteTable.members_nonempty Sc = true -> Flatcc.Verifier.Complete.root_ok R ->
  Flatcc.Verifier.CompleteBytes.script_bytes sc = true ->
  Flatcc.Verifier.Complete.levels_needed Sc n <= Flatcc.Generated.Consts.VERIFIER_MAX_LEVELS -> (n <= fuel)%nat ->
  Flatcc.Verifier.Complete.header_room R ws (lenZ (buffer_bytes st)) ->
  addr mod buffer_alignment st = 0 ->
  Flatcc.Verifier.VerifierModel.verify_root (of_list (buffer_bytes st)) addr (Flatcc.Verifier.CompleteBase.to_vschema Sc) fuel
    (Flatcc.Verifier.CompleteBase.to_vroot R) (Flatcc.Verifier.Complete.to_variant ws) = Flatcc.Verifier.VerifierModel.VOk.
Proof. exact CloneVerify.xbuild_verifies. Qed.
Print Assumptions C18_xbuild_verifies.

(* (d) sharing.  The first visit of a source table (any state s, any depth budget, reference map installed) returns
   register r in state s1; in every later state s2 of the traversal (later states only extend the memo: next theorem) a
   second visit - another path to the same source position - returns r, emits no command and leaves the state as it is. *)
Theorem C18_clone_shares_concrete : forall Sc m base n1 tix s t s1 r,
  m_on (c_memo s1) = true ->
  table_clone true Sc m base n1 tix s t = Some (s1, r) ->
  forall s2, mext s1 s2 ->
  forall n2, table_clone true Sc m base (S n2) tix s2 t = Some (s2, r).
Proof. exact clone_shares_concrete. Qed.
Print Assumptions C18_clone_shares_concrete.

(* no clone call loses or replaces a memo entry (strict or not, reference map installed or not) *)
Theorem C18_clone_memo_grows : forall strict Sc m base n tix s t s' r,
  table_clone strict Sc m base n tix s t = Some (s', r) ->
  forall k x, mfind (c_memo s) k = Some x -> mfind (c_memo s') k = Some x.
Proof. exact table_clone_mext. Qed.
Print Assumptions C18_clone_memo_grows.

(* the same for the other memoized objects: a hit returns the stored register and changes nothing *)
Theorem C18_clone_hits : forall strict Sc m s,
  (forall n base tix t r, mfind (c_memo s) t = Some (r, XBase (OTable tix)) -> table_clone strict Sc m base (S n) tix s t = Some (s, r)) /\
  (forall sp r, mfind (c_memo s) sp = Some (r, XBase OString) -> string_clone strict m s sp = Some (s, r)) /\
  (forall es al mc vec r, mfind (c_memo s) (vec - 4) = Some (r, XBase (OVec es al)) -> vec_clone strict m es al mc s vec = Some (s, r)) /\
  (forall size al p r, mfind (c_memo s) p = Some (r, XBase (OStruct size al)) -> struct_clone strict m size al s p = Some (s, r)) /\
  (forall ty f adjust vec r, mfind (c_memo s) (vec - 4) = Some (r, ty) -> offvec_clone strict m ty f adjust s vec = Some (s, r)).
Proof. exact clone_hits. Qed.
Print Assumptions C18_clone_hits.

(* without a reference map nothing is ever found: strictness is irrelevant and the content theorems apply as they are
   (they do not mention m_on) *)
Theorem C18_clone_without_map : forall strict s k ty, m_on (c_memo s) = false -> memo_begin strict s k ty = Some None.
Proof. exact memo_begin_off. Qed.
Print Assumptions C18_clone_without_map.

(* ------------------------------------------------------------------ non-vacuity: Builder/Example.v's buffer as the source
   (112 bytes, size-prefixed; the string "ab" is reached by three paths, the table T0 by two: as child and as union member) *)
Example C18_example_clone :
  clone_schema_ok ex_schema /\
  decode_root 2 ex_schema (RTable 1) true ex_src = Some ex_value /\ no_unknown ex_value = true /\ vheight ex_value = 2%nat /\
  (* with a reference map: five objects, the string and the table T0 are emitted once and referenced several times *)
  clone_script true ex_schema false 0 0 0 0 memo_empty 2 1 true ex_src =
    Some [CSettings false 0 0; CStartBuffer 0 0 0;
          CString [97; 98]; CVector 2 2 2147483647 2 [1; 0; 2; 0];
          CTable [TInline 0 4 4 [42; 0; 0; 0]; TOffset 1 0%nat; TOffset 2 1%nat];
          COffVec [0%nat; 0%nat];
          CTable [TOffset 0 2%nat; TOffset 1 3%nat; TInline 2 1 1 [1]; TOffset 3 2%nat];
          CEndBuffer 4%nat] /\
  (* without: a tree of ten objects *)
  option_map (@length cmd) (clone_script true ex_schema false 0 0 0 0 memo_off 2 1 true ex_src) = Some 13%nat /\
  (* both copies decode to the value of the source (by the theorem and by computation) *)
  (forall M, m_map M = [] -> forall sc r M' regs ems st,
     clone_root_script true ex_schema (mem_of_list ex_src) 0 false 0 0 0 0 M 2 1 true = Some (sc, r, M') ->
     run init_state [] sc = Some (regs, ems, st) -> small st ->
     decode_root 2 ex_schema (RTable 1) false (buffer_bytes st) = Some ex_value) /\
  option_map (decode_root 2 ex_schema (RTable 1) false) (clone_bytes true ex_schema false 0 0 0 0 memo_empty 2 1 true ex_src) = Some (Some ex_value) /\
  option_map (decode_root 2 ex_schema (RTable 1) false) (clone_bytes true ex_schema false 0 0 0 0 memo_off 2 1 true ex_src) = Some (Some ex_value).
Proof. exact example_clone. Qed.
Print Assumptions C18_example_clone.

(* ------------------------------------------------------------------ the limit of the reference map is real
   table T { s : string; v : [ubyte]; }; 36 well-formed bytes in which the vector header lies INSIDE the string
   (string "\1\0\0\0A" at 24, vector [0x41] at 28).  The string pointer (28) equals the vector's key (32 - 4):
   with a reference map the C clone returns the string's reference for the vector (strict = false is the C behaviour),
   the copy is well formed but its v reads [1; 0; 0; 0; 65] instead of [65].  In strict mode the model refuses; without a
   map the copy is right. *)
Example C18_clone_memo_type_confusion :
  decode_root 1 tc_schema (RTable 0) false tc_src = Some tc_value /\ no_unknown tc_value = true /\ clone_schema_ok tc_schema /\
  option_map (decode_root 1 tc_schema (RTable 0) false) (clone_bytes false tc_schema false 0 0 0 0 memo_empty 1 0 false tc_src)
    = Some (Some (VTable [(0, VString [1; 0; 0; 0; 65]); (1, VVec [[1]; [0]; [0]; [0]; [65]])])) /\
  tc_value = VTable [(0, VString [1; 0; 0; 0; 65]); (1, VVec [[65]])] /\
  clone_script true tc_schema false 0 0 0 0 memo_empty 1 0 false tc_src = None /\
  option_map (decode_root 1 tc_schema (RTable 0) false) (clone_bytes false tc_schema false 0 0 0 0 memo_off 1 0 false tc_src)
    = Some (Some tc_value).
Proof. exact memo_type_confusion. Qed.
Print Assumptions C18_clone_memo_type_confusion.
