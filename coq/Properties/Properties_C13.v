(* C13 - Allocation and emit failures are reported, never turned into corruption.

   Claimed level: fault enumeration for the observed clauses (no invalid access / double free / leak, clear releases
   everything: harness/fault_inject.c under ASan+LSan for every k of every scenario) + PROOF of the protocol lemmas
   below on the model of Reset/BuilderState.v (countdowns [fa] / [fe] = number of allocator / emitter calls that still
   succeed; [step true] = behaviour with the defects found by C13 / C14 repaired).  Only `exact` here; lemmas in
   Reset/Faults.v and Reset/ResetProofs.v. *)
From Flatcc.Reset Require Import BuilderState ResetProofs Faults.
From Flatcc.Generated Require Import ResetConsts.
Local Open Scope Z_scope.

(* ---- 1. emit failure.  Started with the next emit call bound to fail (single failure), EVERY API call (reset and
   clear apart) emits nothing and either does not reach the emitter (countdown still armed) or consumes the failure and
   returns 0 - the null reference, the documented failure value of all create_* / end_* calls. *)
Theorem emit_fail_propagates : forall o s, is_reset o = false -> fe s = 0 -> fe_rep s = false ->
  match step true o s with
  | Ret a t e => e = [] /\ ((fe t = 0 /\ fe_rep t = false) \/ (fe t = -1 /\ a = 0))
  | Fault => True
  end.
Proof. intros o s Ho H1 H2. exact (emit_failure_step o Ho s (conj H1 H2)). Qed.
Print Assumptions emit_fail_propagates.

(* ---- 2. allocation failure.  Likewise for the allocator callback: a call that reaches the allocator returns -1 (the
   int-valued start calls) or 0 (null pointer / reference / handle of start_struct, table_add, table_add_offset,
   extend_*, append_string, enter_user_frame, end_table). *)
Theorem alloc_fail_propagates : forall o s, is_reset o = false -> fa s = 0 -> fa_rep s = false ->
  match step true o s with
  | Ret a t _ => (fa t = 0 /\ fa_rep t = false) \/ (fa t = -1 /\ a = alloc_fail_value o)
  | Fault => True
  end.
Proof. intros o s Ho H1 H2. exact (alloc_failure_step o Ho s (conj H1 H2)). Qed.
Print Assumptions alloc_fail_propagates.

(* the same, indexed by the OPERATION during which an allocation fails instead of by a call count (which call needs the
   k-th allocation depends on the allocator's sizing policy, which the property leaves open): after ANY prefix of calls,
   from ANY capacities, if the allocator refuses its next request during call o, then o either did not need the allocator
   or returns its documented failure value.  This is the form the correspondence in checks/c13.py uses (XA:i). *)
Theorem alloc_fail_at_any_op : forall pre o s rs es t, run true pre s = Some (rs, es, t) -> is_reset o = false ->
  forall c : capt,
  match step true o (set_fa 0 (set_fa_rep false (set_caps c t))) with
  | Ret a u _ => (fa u = 0 /\ fa_rep u = false) \/ (fa u = -1 /\ a = alloc_fail_value o)
  | Fault => True
  end.
Proof.
  intros pre o s rs es t _ Ho c.
  apply (alloc_failure_step o Ho (set_fa 0 (set_fa_rep false (set_caps c t)))). split; reflexivity.
Qed.
Print Assumptions alloc_fail_at_any_op.

(* the failing allocator call itself leaves capacities and everything observable unchanged *)
Theorem alloc_fail_no_state_change : forall k req s, fa s = 0 ->
  exists t, alloc_call k req s = Ret false t [] /\ caps t = caps s /\ core t = core s.
Proof. exact alloc_call_fails. Qed.
Print Assumptions alloc_fail_no_state_change.

(* ---- 3. after a failure: custom_reset without buffer reduction never calls the allocator; from EVERY state - in
   particular any state a failed call leaves behind, whatever the countdowns - it succeeds and yields a builder that is
   fresh on everything that can influence later calls; once the countdowns are spent or disarmed the C14 bisimulation
   applies (same bytes as a fresh builder for every call sequence). *)
Theorem failed_state_resets : forall d s,
  exists t, custom_reset true d false s = Ret 0 t [] /\ core t = core (fresh_like d s) /\ fa t = fa s /\ fe t = fe s.
Proof. exact reset_no_reduce_total. Qed.
Print Assumptions failed_state_resets.

Theorem rebuild_after_failure_equals_fresh : forall d s sc, fa s < 0 -> fe s < 0 ->
  exists t, custom_reset true d false s = Ret 0 t [] /\ run_rel (run true sc t) (run true sc (fresh_like d s)).
Proof.
  intros d s sc Hfa Hfe. destruct (reset_spec d false s Hfa Hfe) as (t & E & C & I).
  exists t. split; [exact E|]. apply run_respects; [exact C | exact I | apply Inv_fresh_like].
Qed.
Print Assumptions rebuild_after_failure_equals_fresh.

(* ---- 4. the two other allocating components (small models; the full ones belong to C12 / C18) *)
Theorem emitter_alloc_fail : forall r, er_spare r <= 0 -> advance false r = None.
Proof. exact Faults.emitter_alloc_fail. Qed.
Print Assumptions emitter_alloc_fail.
Theorem refmap_alloc_fail : forall b src ref m, b <> rm_buckets m ->
  rm_resize false b m = (m, -1) /\ rm_insert false true b src ref m = (m, REFMAP_NOT_FOUND).
Proof. exact Faults.refmap_alloc_fail. Qed.
Print Assumptions refmap_alloc_fail.

(* ---- hypotheses are satisfiable: a reachable state in which the third allocator call of end_table (the vtable copy
   buffer vb) is the one that fails *)
Definition before_end_table : option bstate :=
  match run true [OStartBuffer 0 0 0; OStartTable 2; OTableAdd 0 4 4 [1;0;0;0]] st_init with
  | Some (_, _, s) => Some (set_fa 2 (set_fa_rep false s))
  | None => None
  end.
Example alloc_failure_in_end_table :
  match before_end_table with
  | Some s => match step true OEndTable s with Ret a t _ => a = 0 /\ fa t = -1 | Fault => False end
  | None => False
  end.
Proof. vm_compute. split; reflexivity. Qed.

(* ---- what is FALSE of the pinned commit: flatcc_builder_create_cached_vtable returns -1 when the vb allocation fails,
   end_table takes it for a reference and returns a table reference although an allocation failed: the failure is
   swallowed and the emitted table points to a vtable at a garbage offset *)
Theorem cached_vtable_minus_one_refuted :
  match before_end_table with
  | Some s => match step false OEndTable s with Ret a t _ => a <> 0 /\ fa t = -1 | Fault => False end
  | None => False
  end.
Proof. vm_compute. split; congruence. Qed.
Print Assumptions cached_vtable_minus_one_refuted.
