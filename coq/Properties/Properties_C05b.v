(* C05, document layer - the generated parser reads back what the generated printer writes, for whole documents of the
   fragment Json/ParserModel.v covers.  Only statements, each closed by [exact] of a lemma proved in Json/RoundTripProofs.v.

   FULL STATEMENT (properties.jsonl C05): for every verified buffer, the text produced by the generated JSON printer under any
   formatting flags is accepted by the generated parser for the same type and the resulting buffer reads back equal to the
   original (...); printing the reparsed buffer gives the identical text; with default (strict) flags the text is RFC 8259
   JSON whenever the strings are valid UTF-8 and floats are finite.

   PROVED HERE for the MODELS Json/PrinterText.v (generated printer + json_printer.c: field order, absent fields,
   skip_default / force_default, name quoting under `unquote`, indentation and newlines, enum symbols / `noenum`, integers
   through the C19 transcription of pprintint.h, strings through print_string of Json/Codecs.v, the printer's nesting limit)
   and Json/ParserModel.v (generated table parsers + json_parser.c), both tied to the C code byte for byte by
   checks/c05b_util.py, on the fragment: tables with integer scalars of every width, bool, enums printed as numbers,
   strings, vectors of those, tables, vectors of tables, required fields; all printer settings (any indent), all parser flags.
   NOT covered: floats (C19), enum symbols on the parse side (the parser model answers W_OUT: C05_enum_symbol_outside_model),
   bit_flags, unions, union vectors, nested buffers, base64 fields, structs and fixed arrays. *)
From Flatcc.Json Require Import Codecs ParserModel ParserProofs PrinterText RoundTripProofs.
Local Open Scope Z_scope.

(* A well-typed tree (depth within the printer's limit pmax - 1) is printed, and the text consists of bytes. *)
Theorem C05_well_typed_is_printed : forall F PS E,
  pschema_okb PS = true -> rt_schema_okb PS = true -> enums_okb E = true ->
  forall k t lvl v, wt_table F PS E k t v = true ->
  exists tx, print_table F PS E k t lvl v = Some tx /\ Forall (fun x => 0 <= x < 256) tx.
Proof. exact wt_prints. Qed.
Print Assumptions C05_well_typed_is_printed.

(* THE ROUND TRIP.  For every printer setting F (unquote, noenum, skip_default, force_default, any indent), every parser flag
   set [flags], every schema of the fragment and every well-typed value tree v whose printed members need at most maxlvl - 1
   builder frames (one per table, per vector and per string that contains an escape; start_buffer is the first level):
   print_root succeeds, parse_root accepts the whole text (end_loc = its length, no error) and builds
   [reparse_table F PS (force_add in flags) v]: v with exactly the members that were printed, except scalars equal to their
   default when the parser runs without force_add. *)
Theorem C05_document_round_trip : forall F PS E maxlvl pmax root v flags idw,
  pschema_okb PS = true -> rt_schema_okb PS = true -> enums_okb E = true -> 1 <= maxlvl ->
  wt_table F PS E (Z.to_nat (pmax - 1)) root v = true ->
  1 + need_table F PS (Z.to_nat (pmax - 1)) root v <= maxlvl ->
  exists text c sc d,
    print_root F PS E pmax root v = Some text /\
    parse_root sp_int maxlvl PS (of_list text) root flags idw =
      POk c (Z.of_nat (length text)) sc (reparse_table F PS (fa_flag flags) (Z.to_nat (pmax - 1)) root v, d) /\
    cerr c = 0.
Proof. exact document_round_trip. Qed.
Print Assumptions C05_document_round_trip.

(* The hypotheses are satisfiable: the tables Leaf / Rec / Req of gen/c04_schema.fbs, a Req tree with an escaped string with a
   high byte, a vector with INT32_MIN, a sub-table with INT64_MIN and a non-member enum value, an explicit default; unquoted
   names, indent 2, force_default. *)
Example C05_example_hypotheses :
  pschema_okb rt_ps = true /\ rt_schema_okb rt_ps = true /\ enums_okb rt_enums = true /\
  wt_table rt_flags_pretty rt_ps rt_enums (Z.to_nat (100 - 1)) 2 rt_tree = true /\
  1 + need_table rt_flags_pretty rt_ps (Z.to_nat (100 - 1)) 2 rt_tree <= 100.
Proof. exact (conj (proj1 rt_ps_ok) (conj (proj1 (proj2 rt_ps_ok)) (conj (proj2 (proj2 rt_ps_ok)) rt_tree_hyps))). Qed.

Example C05_example_round_trip : exists text c sc d,
  print_root rt_flags_pretty rt_ps rt_enums 100 2 rt_tree = Some text /\
  parse_root sp_int 100 rt_ps (of_list text) 2 0 0 =
    POk c (Z.of_nat (length text)) sc (reparse_table rt_flags_pretty rt_ps (fa_flag 0) (Z.to_nat (100 - 1)) 2 rt_tree, d) /\ cerr c = 0.
Proof. exact example_round_trip. Qed.

(* ------------------------------------------------------------------ what the reparsed tree is *)
(* THE SAME CONTENT: the reparsed tree and the original differ only in scalars equal to their default being present or
   absent - [canon] drops them all, recursively; every accessor reads the same from both.  No typing hypothesis. *)
Theorem C05_reparsed_same_content : forall F PS fa, pschema_okb PS = true ->
  forall k t v, canon PS k t (reparse_table F PS fa k t v) = canon PS k t v.
Proof. exact canon_reparse. Qed.
Print Assumptions C05_reparsed_same_content.

(* THE IDENTICAL TEXT: printing the reparsed tree under the same settings gives the same text, provided skip_default and
   force_default are not set together and the parser keeps explicit defaults (force_add) or the printer has one of the two
   default flags (without any of them a scalar that is present and equal to its default is printed and then lost:
   C05_reprint_without_force_add_refuted). *)
Theorem C05_reprint_identical : forall F PS E fa pmax root v, pschema_okb PS = true ->
  negb (fl_skip_default F && fl_force_default F) && (fa || fl_skip_default F || fl_force_default F) = true ->
  print_root F PS E pmax root (reparse_table F PS fa (Z.to_nat (pmax - 1)) root v) = print_root F PS E pmax root v.
Proof. exact reprint_root. Qed.
Print Assumptions C05_reprint_identical.

(* STRICT OUTPUT IS JSON: with quoted names (unquote off; any indent, any of the other flags) the whole printed document is
   accepted by the RFC 8259 recognizer [rfc8259_document] of Json/PrinterText.v (ws, objects, arrays, numbers without leading
   zeros, true / false / null, strings through [rfc8259_string]) whenever every string of the tree is well-formed UTF-8. *)
Theorem C05_strict_document : forall F PS E,
  fl_unquote F = false -> pschema_okb PS = true -> rt_schema_okb PS = true -> enums_okb E = true ->
  forall pmax root v text,
  wt_table F PS E (Z.to_nat (pmax - 1)) root v = true -> utf8_value v = true ->
  print_root F PS E pmax root v = Some text -> rfc8259_document text = true.
Proof. exact strict_document. Qed.
Print Assumptions C05_strict_document.

(* the recognizer is not vacuous: it rejects unquoted names, leading zeros, trailing commas, trailing text, raw control
   characters; the UTF-8 hypothesis is necessary (a lone 0xC3 byte in a string) *)
Example C05_recognizer_rejects :
  rfc8259_document [123;97;58;49;125] = false /\ rfc8259_document [123;34;97;34;58;48;49;125] = false /\
  rfc8259_document [91;49;44;93] = false /\ rfc8259_document [91;93;32;120] = false /\ rfc8259_document [34;1;34] = false /\
  rfc8259_document [123;34;115;34;58;34;195;34;125] = false /\
  rfc8259_document [123;34;97;34;58;32;91;49;44;32;45;50;46;53;101;43;51;44;32;116;114;117;101;44;32;110;117;108;108;44;32;34;120;92;110;34;93;44;32;34;98;34;58;32;123;125;125;10] = true.
Proof. vm_compute. repeat split. Qed.

(* ------------------------------------------------------------------ the level hypothesis cannot be dropped: a FINDING *)
(* 99 nested tables whose innermost holds an (empty) vector: well typed, printed by the printer (its limit is 99 tables; the
   generated verifier's budget of 100 levels is also enough: 99 tables + 1 vector), but the parser needs builder level 101
   for the vector frame and rejects ITS OWN PRINTER'S TEXT with `runtime`.  Replayed on the C code by checks/c05b_util.py
   (request `deep`); write-up fixes/C05-parser-frame-limit.md. *)
Theorem C05_round_trip_beyond_level_limit_refuted : exists text loc,
  wt_table strictF rt_ps rt_enums 99 1 deep_vec_tree = true /\
  print_root strictF rt_ps rt_enums 100 1 deep_vec_tree = Some text /\
  1 + need_table strictF rt_ps 99 1 deep_vec_tree = 101 /\
  parse_root sp_int 100 rt_ps (of_list text) 1 0 0 = PErr JE_runtime loc.
Proof. exact level_limit_witness. Qed.
Print Assumptions C05_round_trip_beyond_level_limit_refuted.

(* ... and it is sharp: with one table less the hypothesis holds (and the theorem applies) *)
Example C05_level_hypothesis_sharp :
  wt_table strictF rt_ps rt_enums 99 1 (rec_chain 97 [(2, VOffVec [])]) = true /\
  1 + need_table strictF rt_ps 99 1 (rec_chain 97 [(2, VOffVec [])]) = 100.
Proof. exact level_limit_sharp. Qed.

(* the printer's own nesting limit (FLATCC_JSON_PRINT_MAX_LEVELS = 100): 99 nested tables are printed, 100 are not *)
Theorem C05_printer_nesting_limit :
  print_root strictF rt_ps rt_enums 100 1 (rec_chain 99 []) = None /\
  print_root strictF rt_ps rt_enums 100 1 (rec_chain 98 []) <> None.
Proof. exact printer_limit_witness. Qed.
Print Assumptions C05_printer_nesting_limit.

(* ------------------------------------------------------------------ what the statement excludes, by witness *)
(* reprinting is NOT identical for a parser without force_add when a scalar equal to its default is present and neither
   skip_default nor force_default is set: {"n":0} parses to the empty table, which prints {} *)
Theorem C05_reprint_without_force_add_refuted :
  wt_table strictF rt_ps rt_enums 99 0 present_default_tree = true /\
  print_root strictF rt_ps rt_enums 100 0 present_default_tree = Some [123;34;110;34;58;48;125] /\
  print_root strictF rt_ps rt_enums 100 0 (reparse_table strictF rt_ps false 99 0 present_default_tree) = Some [123;125].
Proof. exact reprint_needs_force_add_witness. Qed.
Print Assumptions C05_reprint_without_force_add_refuted.

(* enum symbols are printed by the model (tied byte for byte) but the parser model does not cover symbolic constants *)
Theorem C05_enum_symbol_outside_model :
  print_root strictF rt_ps rt_enums 100 0 (VTable [(2, VBytes [7])]) = Some blue_text /\
  wt_table strictF rt_ps rt_enums 99 0 (VTable [(2, VBytes [7])]) = false /\
  parse_root sp_int 100 rt_ps (of_list blue_text) 0 0 0 = PStop W_OUT.
Proof. exact enum_symbol_outside_model. Qed.
Print Assumptions C05_enum_symbol_outside_model.

(* a bool byte other than 0 / 1 (the verifier does not look at it) prints `true` and reads back as 1 *)
Theorem C05_bool_byte_normalised :
  print_root strictF bool_ps [] 100 0 (VTable [(0, VBytes [2])]) = Some [123;34;98;34;58;116;114;117;101;125] /\
  match parse_root sp_int 100 bool_ps (of_list [123;34;98;34;58;116;114;117;101;125]) 0 0 0 with
  | POk _ p _ (v, _) => (p =? 10) && match v with VTable [(0, VBytes [1])] => true | _ => false end
  | _ => false
  end = true.
Proof. exact bool_byte_not_preserved. Qed.
Print Assumptions C05_bool_byte_normalised.
