(* C17, leaf tie (T5) - the identifier conversions of include/flatcc/flatcc_identifier.h and the four buffer-header
   acceptors of src/runtime/verifier.c, TRANSLATED from the current source on every run (translators/cleaf_to_coq.py,
   family `ident` -> Flatcc.Generated.Leaf_ident), are equal to the hand-written functions of Ident/IdentModel.v that the
   C17 theorems are about, for ALL arguments.  Conventions (Ident/LeafConvI.v): a buffer is [buf_ptr b addr] with size
   [blen b]; a C string is [str_ptr mem addr] - byte k is readable iff no earlier byte is NUL, so `= Some ...` also says
   that the C never reads past the terminator; fid = NULL is ReqNull; an int result r reads as [hres_of bs (Some r)].
   Only statements, each closed by [exact] of a lemma proved in Ident/LeafEquivI.v. *)
From Flatcc.Verifier Require Import LeafTac.
From Flatcc.Ident Require Import IdentModel LeafConvI LeafEquivI LeafEquivIName.
From Flatcc.Generated Require Import Leaf_ident.
Local Open Scope Z_scope.

(* flatbuffers_type_hash_from_string: stops at the first NUL among p[0..2], never reads beyond the terminator *)
Theorem C17_leaf_type_hash_from_string_eq : forall mem a, bytes mem ->
  c_flatbuffers_type_hash_from_string (str_ptr mem a) = Some (type_hash_from_string mem).
Proof. exact c_type_hash_from_string_eq. Qed.
Print Assumptions C17_leaf_type_hash_from_string_eq.

Theorem C17_leaf_read_thash_identifier_eq : forall mem a, bytes mem ->
  c_read_thash_identifier (str_ptr mem a) = Some (type_hash_from_string mem).
Proof. exact c_read_thash_identifier_eq. Qed.
Print Assumptions C17_leaf_read_thash_identifier_eq.

Theorem C17_leaf_type_hash_from_identifier_eq : forall a b c d addr, bytes [a; b; c; d] -> addr <> 0 ->
  c_flatbuffers_type_hash_from_identifier (arr_ptr [a; b; c; d] addr) = Some (type_hash_from_identifier [a; b; c; d]).
Proof. exact c_type_hash_from_identifier_eq. Qed.
Print Assumptions C17_leaf_type_hash_from_identifier_eq.

Theorem C17_leaf_type_hash_from_identifier_null :
  c_flatbuffers_type_hash_from_identifier null_ptr = Some (builder_id_out None).
Proof. exact c_type_hash_from_identifier_null. Qed.
Print Assumptions C17_leaf_type_hash_from_identifier_null.

(* flatbuffers_identifier_from_type_hash: the four chars written, read as bytes, are the little-endian identifier *)
Theorem C17_leaf_identifier_from_type_hash_eq : forall h, in_u32 h ->
  (let '(a, b, c, d) := c_flatbuffers_identifier_from_type_hash h in [u8 a; u8 b; u8 c; u8 d]) = identifier_from_type_hash h.
Proof. exact c_identifier_from_type_hash_eq. Qed.
Print Assumptions C17_leaf_identifier_from_type_hash_eq.

Theorem C17_leaf_verify_buffer_header_eq : forall b addr req faddr,
  wf_buf b -> in_u64 (blen b) -> req_ok req -> faddr <> 0 ->
  hres_of (blen b) (c_flatcc_verify_buffer_header (buf_ptr b addr) (blen b) (fid_ptr req faddr)) = verify_buffer_header addr b req.
Proof. exact c_verify_buffer_header_eq. Qed.
Print Assumptions C17_leaf_verify_buffer_header_eq.

Theorem C17_leaf_verify_buffer_header_with_size_eq : forall b addr req faddr,
  wf_buf b -> in_u64 (blen b) -> req_ok req -> faddr <> 0 ->
  hres2_of (c_flatcc_verify_buffer_header_with_size (buf_ptr b addr) (blen b) (fid_ptr req faddr)) = verify_buffer_header_with_size addr b req.
Proof. exact c_verify_buffer_header_with_size_eq. Qed.
Print Assumptions C17_leaf_verify_buffer_header_with_size_eq.

Theorem C17_leaf_verify_typed_buffer_header_eq : forall b addr h,
  wf_buf b -> in_u64 (blen b) -> in_u32 h ->
  hres_of (blen b) (c_flatcc_verify_typed_buffer_header (buf_ptr b addr) (blen b) h) = verify_buffer_header addr b (ReqHash h).
Proof. exact c_verify_typed_buffer_header_eq. Qed.
Print Assumptions C17_leaf_verify_typed_buffer_header_eq.

Theorem C17_leaf_verify_typed_buffer_header_with_size_eq : forall b addr h,
  wf_buf b -> in_u64 (blen b) -> in_u32 h ->
  hres2_of (c_flatcc_verify_typed_buffer_header_with_size (buf_ptr b addr) (blen b) h) = verify_buffer_header_with_size addr b (ReqHash h).
Proof. exact c_verify_typed_buffer_header_with_size_eq. Qed.
Print Assumptions C17_leaf_verify_typed_buffer_header_with_size_eq.

(* flatbuffers_type_hash_from_name: the FNV-1a loop, translated to a Fixpoint on explicit fuel.  With more fuel than the
   name has characters it returns (no OutOfFuel), is the model's hash, and no read passes the terminator. *)
Theorem C17_leaf_type_hash_from_name_eq : forall mem a fuel, bytes mem -> (length (cstr mem) < fuel)%nat ->
  c_flatbuffers_type_hash_from_name fuel (str_ptr mem a) = Some (Ret (type_hash_from_name mem)).
Proof. exact c_type_hash_from_name_eq. Qed.
Print Assumptions C17_leaf_type_hash_from_name_eq.

Example C17_leaf_name_example :
  c_flatbuffers_type_hash_from_name 8 (str_ptr [77; 111; 110; 115; 116; 101; 114] 64) = Some (Ret (fnv1a32 [77; 111; 110; 115; 116; 101; 114])) /\
  c_flatbuffers_type_hash_from_name 7 (str_ptr [77; 111; 110; 115; 116; 101; 114] 64) = Some OutOfFuel /\
  c_flatbuffers_type_hash_from_name 9 (str_ptr [] 64) = Some (Ret 2166136261).
Proof. exact leafIN_example. Qed.
Print Assumptions C17_leaf_name_example.

Example C17_leaf_example :
  bytes [77; 79; 78; 83] /\ req_ok (ReqString [77; 79; 78; 83]) /\
  c_flatbuffers_type_hash_from_string (str_ptr [77; 79] 64) = Some 20301 /\
  c_flatbuffers_type_hash_from_string (str_ptr [77; 0; 78; 83] 64) = Some 77 /\
  p_rd8 (str_ptr [77; 0; 78; 83] 64) 2 = None /\
  hres_of 8 (c_flatcc_verify_buffer_header (buf_ptr (of_list [4; 0; 0; 0; 77; 79; 78; 83]) 0) 8 (str_ptr [77; 79; 78; 83] 64)) = HOk 8 /\
  hres_of 8 (c_flatcc_verify_buffer_header (buf_ptr (of_list [4; 0; 0; 0; 77; 79; 78; 83]) 0) 8 (str_ptr [77; 79; 78; 84] 64)) = HErr E_identifier_mismatch.
Proof. exact leafI_example. Qed.
Print Assumptions C17_leaf_example.
