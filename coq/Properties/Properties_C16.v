(* C16 - In-place sort orders, find finds, scan scans.
   Only statements, each closed by [exact] of a lemma proved in Sort/*.v.  The model (Sort/SortModel.v) transcribes
   __flatbuffers_heap_sort (sift_down: children of root r are 2r and 2r+1; driver: heapify from size>>1 down to 0,
   then swap slot 0 with the end and sift), __flatbuffers_value_swap, __flatbuffers_uoffset_swap (mod 2^32),
   __flatbuffers_scalar_diff, __flatbuffers_string_n_cmp (strncmp over the common prefix, then the lengths),
   __flatbuffers_find_by_field, __flatbuffers_scan_by_field, __flatbuffers_rscan_by_field and the _ex range clamp.

   Vocabulary:
     total_preorder diff  :=  (forall a b, diff a b < 0 <-> 0 < diff b a) /\
                              (forall a b c, diff a b <= 0 -> diff b c <= 0 -> diff a c <= 0)
     sorted_by key diff d l := forall i <= j < length l, diff (key l[i]) (key l[j]) <= 0
     first_match K rd dk lo hi r := (r = NOT_FOUND /\ no j in [lo,hi) has dk (rd j) = 0) \/
                                    (lo <= r < hi /\ dk (rd r) = 0 /\ no j in [lo,r) has dk (rd j) = 0)
     last_match  K rd dk lo hi r := ... \/ (lo <= r < hi /\ dk (rd r) = 0 /\ no j in (r,hi) has dk (rd j) = 0)
     compatible diff dk   := forall a b, diff a b <= 0 -> (dk b < 0 -> dk a < 0) /\ (dk b <= 0 -> dk a <= 0)
     lrd key d l          := fun i => key (nth (Z.to_nat i) l d)
   [Some] results exclude running out of the loop fuel: every loop of the emitted code terminates.
   All theorems hold for vectors of every length and any element / key type. *)
From Flatcc.Sort Require Import SortModel HeapProofs ListProofs SearchProofs SimProofs SortTheorems.
From Coq Require Import Permutation Sorting.Sorted.
Local Open Scope Z_scope.

(* The sort leaves a permutation of the original elements (for any diff function whatsoever). *)
Theorem C16_sort_perm : forall (E K : Type) (key : E -> K) (diff : K -> K -> Z) (d : E) (l l' : list E),
  heap_sort_list key diff d l = Some l' -> Permutation l l'.
Proof. exact (@sort_perm). Qed.
Print Assumptions C16_sort_perm.

(* ... terminates, keeps the length and leaves the keys in non-decreasing order, whenever diff is a total preorder. *)
Theorem C16_sort_sorted : forall (E K : Type) (key : E -> K) (diff : K -> K -> Z) (d : E) (l : list E),
  total_preorder diff ->
  exists l', heap_sort_list key diff d l = Some l' /\ length l' = length l /\
             sorted_by key diff d l' /\ StronglySorted (fun a b => diff (key a) (key b) <= 0) l'.
Proof. exact (@sort_sorted). Qed.
Print Assumptions C16_sort_sorted.

(* The result does not depend on what a read outside slots 0..len-1 would return: there is no such read. *)
Theorem C16_sort_reads_in_bounds : forall (E K : Type) (key : E -> K) (diff : K -> K -> Z) (d1 d2 : E) (l : list E),
  heap_sort_list key diff d1 l = heap_sort_list key diff d2 l.
Proof. exact (@sort_reads_in_bounds). Qed.
Print Assumptions C16_sort_reads_in_bounds.

(* Frame: for ANY state V the swap macro S writes to (e.g. the whole buffer), the sort only ever applies S to two
   slots inside the vector, so whatever such swaps preserve (e.g. "every byte outside the vector is unchanged",
   "the buffer verifies") is preserved by the sort. *)
Theorem C16_sort_frame : forall (V K : Type) (vlen : V -> nat) (rd : V -> nat -> K) (sw : V -> nat -> nat -> V)
    (diff : K -> K -> Z) (P : V -> Prop) (v v' : V),
  (forall w a b, (a < vlen v)%nat -> (b < vlen v)%nat -> P w -> P (sw w a b)) ->
  P v -> heap_sort V K vlen rd sw diff v = Some v' -> P v'.
Proof. exact sort_frame_swaps. Qed.
Print Assumptions C16_sort_frame.

(* Offset vectors (strings, tables): one __flatbuffers_uoffset_swap exchanges what the two slots refer to ... *)
Theorem C16_uoffset_swap_targets : forall os a b, (a < length os)%nat -> (b < length os)%nat ->
  targets (uoffset_swap os a b) = value_swap 0 (targets os) a b.
Proof. exact uoffset_swap_targets. Qed.
Print Assumptions C16_uoffset_swap_targets.

(* ... so the sort permutes the targets: same multiset, every target still valid, stored words stay uoffsets, *)
Theorem C16_sort_offsets_frame : forall (K : Type) (keyof : Z -> K) (diff : K -> K -> Z) (os os' : list Z)
    (valid : Z -> Prop),
  heap_sort_offsets keyof diff os = Some os' ->
  length os' = length os /\ Permutation (targets os) (targets os') /\
  (Forall in_u32 os -> Forall in_u32 os') /\
  (Forall valid (targets os) -> Forall valid (targets os')).
Proof. exact (@sort_offsets_frame). Qed.
Print Assumptions C16_sort_offsets_frame.

(* ... and the keys found through the slots end up in non-decreasing order. *)
Theorem C16_sort_offsets_sorted : forall (K : Type) (keyof : Z -> K) (diff : K -> K -> Z) (os : list Z),
  total_preorder diff ->
  exists os', heap_sort_offsets keyof diff os = Some os' /\ length os' = length os /\
              sorted_by keyof diff 0 (targets os').
Proof. exact (@sort_offsets_sorted). Qed.
Print Assumptions C16_sort_offsets_sorted.

(* The C accessor reaches a slot's object by pointer arithmetic without reduction mod 2^32 (slot address + stored offset).
   targets_behind os := every target lies at or behind the end of the vector and below 2^32 (true of every verified
   buffer: offsets point forward to objects that do not overlap the vector). Then that reading gives the same run ... *)
Theorem C16_offsets_ptr_agrees : forall (K : Type) (keyof : Z -> K) (diff : K -> K -> Z) (os : list Z),
  Forall in_u32 os -> targets_behind os ->
  heap_sort_offsets_ptr keyof diff os = heap_sort_offsets keyof diff os.
Proof. exact (@sort_offsets_ptr_agrees). Qed.
Print Assumptions C16_offsets_ptr_agrees.

(* ... and after the sort slot i plus its stored offset IS its target (no wrap), which is still behind the vector. *)
Theorem C16_offsets_no_wrap : forall (K : Type) (keyof : Z -> K) (diff : K -> K -> Z) (os os' : list Z),
  Forall in_u32 os -> targets_behind os -> heap_sort_offsets keyof diff os = Some os' ->
  targets_behind os' /\ forall i, (i < length os')%nat -> 4 * Z.of_nat i + nth i os' 0 = nth i (targets os') 0.
Proof. exact (@sort_offsets_no_wrap). Qed.
Print Assumptions C16_offsets_no_wrap.

(* The two diff functions of the generated code are total preorders (integers of any width / sign; doubles without
   NaN are covered through any order-preserving embedding; strings may contain any bytes). *)
Theorem C16_scalar_diff_total_preorder : total_preorder scalar_diff.
Proof. exact scalar_total_preorder. Qed.
Print Assumptions C16_scalar_diff_total_preorder.

Theorem C16_string_diff_total_preorder : total_preorder string_diff.
Proof. exact string_total_preorder. Qed.
Print Assumptions C16_string_diff_total_preorder.

Theorem C16_sort_scalar_keys : forall l : list (Z * Z),
  exists l', heap_sort_list fst scalar_diff (0, 0) l = Some l' /\ Permutation l l' /\
             forall i j, (i <= j)%nat -> (j < length l')%nat -> fst (nth i l' (0, 0)) <= fst (nth j l' (0, 0)).
Proof. exact sort_Z_keys. Qed.
Print Assumptions C16_sort_scalar_keys.

Theorem C16_sort_string_keys : forall l : list (list Z * Z),
  exists l', heap_sort_list fst string_diff ([], 0) l = Some l' /\ Permutation l l' /\
             sorted_by fst string_diff ([], 0) l'.
Proof. exact sort_string_keys. Qed.
Print Assumptions C16_sort_string_keys.

(* find: on a vector sorted by diff, searched with a compatible key diff, the result is the LOWEST matching index,
   or not_found when no element matches. *)
Theorem C16_find_lowest : forall (E K : Type) (key : E -> K) (diff : K -> K -> Z) (dk : K -> Z) (d : E) (l : list E),
  compatible diff dk -> sorted_by key diff d l ->
  exists r, find_list key dk d l = Some r /\ first_match K (lrd key d l) dk 0 (Z.of_nat (length l)) r.
Proof. exact (@find_lowest). Qed.
Print Assumptions C16_find_lowest.

Theorem C16_find_lowest_scalar : forall (l : list (Z * Z)) (k : Z),
  (forall i j, (i <= j)%nat -> (j < length l)%nat -> fst (nth i l (0, 0)) <= fst (nth j l (0, 0))) ->
  exists r, find_list fst (fun x => scalar_diff x k) (0, 0) l = Some r /\
    ((r = NOT_FOUND /\ forall i, (i < length l)%nat -> fst (nth i l (0, 0)) <> k) \/
     (0 <= r < Z.of_nat (length l) /\ fst (nth (Z.to_nat r) l (0, 0)) = k /\
      forall i, (i < Z.to_nat r)%nat -> fst (nth i l (0, 0)) <> k)).
Proof. exact find_lowest_Z. Qed.
Print Assumptions C16_find_lowest_scalar.

Theorem C16_find_lowest_string : forall (l : list (list Z * Z)) (s : list Z),
  sorted_by fst string_diff ([], 0) l ->
  exists r, find_list fst (fun v => string_n_cmp v s) ([], 0) l = Some r /\
            first_match (list Z) (lrd fst ([], 0) l) (fun v => string_n_cmp v s) 0 (Z.of_nat (length l)) r.
Proof. exact find_lowest_string. Qed.
Print Assumptions C16_find_lowest_string.

(* a string without embedded NUL that compares equal to the key IS the key; and strcmp (find without length) agrees with
   the length-aware comparison on NUL-free strings *)
Theorem C16_string_equal_is_same : forall a b : list Z, Forall (fun c => c <> 0) a -> string_n_cmp a b = 0 -> a = b.
Proof. exact string_equal_is_same. Qed.
Print Assumptions C16_string_equal_is_same.

Theorem C16_strcmp_is_string_n_cmp : forall a b : list Z,
  Forall (fun c => 0 < c) a -> Forall (fun c => 0 < c) b -> strcmp a b = string_n_cmp a b.
Proof. exact strcmp_is_string_n_cmp. Qed.
Print Assumptions C16_strcmp_is_string_n_cmp.

(* scan / rscan over ANY (begin, end), sorted or not: the range searched is [begin, min(end, len)); the result is the
   first / last matching index in it, or not_found. *)
Theorem C16_scan_first : forall (E K : Type) (key : E -> K) (dk : K -> Z) (d : E) (l : list E) (b e : Z), 0 <= b ->
  exists r, scan_ex_list key dk d l b e = Some r /\
            first_match K (lrd key d l) dk b (Z.min e (Z.of_nat (length l))) r.
Proof. exact (@scan_first). Qed.
Print Assumptions C16_scan_first.

Theorem C16_rscan_last : forall (E K : Type) (key : E -> K) (dk : K -> Z) (d : E) (l : list E) (b e : Z), 0 <= b ->
  exists r, rscan_ex_list key dk d l b e = Some r /\
            last_match K (lrd key d l) dk b (Z.min e (Z.of_nat (length l))) r.
Proof. exact (@rscan_last). Qed.
Print Assumptions C16_rscan_last.

Theorem C16_scan_whole : forall (E K : Type) (key : E -> K) (dk : K -> Z) (d : E) (l : list E),
  exists r, scan_list key dk d l = Some r /\ first_match K (lrd key d l) dk 0 (Z.of_nat (length l)) r.
Proof. exact (@scan_whole). Qed.
Print Assumptions C16_scan_whole.

Theorem C16_rscan_whole : forall (E K : Type) (key : E -> K) (dk : K -> Z) (d : E) (l : list E),
  exists r, rscan_list key dk d l = Some r /\ last_match K (lrd key d l) dk 0 (Z.of_nat (length l)) r.
Proof. exact (@rscan_whole). Qed.
Print Assumptions C16_rscan_whole.

(* begin >= min(end, len): not_found *)
Theorem C16_scan_empty_range : forall (E K : Type) (key : E -> K) (dk : K -> Z) (d : E) (l : list E) (b e : Z),
  0 <= b -> Z.min e (Z.of_nat (length l)) <= b ->
  scan_ex_list key dk d l b e = Some NOT_FOUND /\ rscan_ex_list key dk d l b e = Some NOT_FOUND.
Proof. exact (@scan_empty_range). Qed.
Print Assumptions C16_scan_empty_range.

(* end = flatbuffers_end means "to the end of the vector" *)
Theorem C16_scan_end_sentinel : forall (E K : Type) (key : E -> K) (dk : K -> Z) (d : E) (l : list E) (b : Z),
  Z.of_nat (length l) <= FB_END ->
  scan_ex_list key dk d l b FB_END = scan_ex_list key dk d l b (Z.of_nat (length l)) /\
  rscan_ex_list key dk d l b FB_END = rscan_ex_list key dk d l b (Z.of_nat (length l)).
Proof. exact (@scan_end_sentinel). Qed.
Print Assumptions C16_scan_end_sentinel.
