(* C12: list toolkit for the page-ring proofs (splitting, guarded page writes/reads). *)
From Flatcc.Emitter Require Export EmitterModel.
Local Open Scope Z_scope.

Lemma zlen_nonneg {A} (l : list A) : 0 <= zlen l.
Proof. unfold zlen; lia. Qed.
Lemma zlen_app {A} (a b : list A) : zlen (a ++ b) = zlen a + zlen b.
Proof. unfold zlen; rewrite app_length; lia. Qed.
Lemma zlen_nil {A} : zlen (@nil A) = 0.
Proof. reflexivity. Qed.
Lemma zlen_cons {A} (x : A) l : zlen (x :: l) = 1 + zlen l.
Proof. unfold zlen; simpl length; lia. Qed.
Lemma zlen_0_nil {A} (l : list A) : zlen l = 0 -> l = [].
Proof. unfold zlen; destruct l; simpl; [reflexivity|lia]. Qed.
Lemma zlen_length {A B} (a : list A) (b : list B) : zlen a = zlen b <-> length a = length b.
Proof. unfold zlen; lia. Qed.
Lemma zlen_to_nat {A} (l : list A) : Z.to_nat (zlen l) = length l.
Proof. unfold zlen; lia. Qed.

(* split a list at a Z index *)
Lemma split_at {A} (l : list A) (n : Z) : 0 <= n <= zlen l ->
  exists a b, l = a ++ b /\ zlen a = n.
Proof.
  intros H. exists (firstn (Z.to_nat n) l), (skipn (Z.to_nat n) l). split.
  - symmetry; apply firstn_skipn.
  - unfold zlen in *. rewrite firstn_length. lia.
Qed.

Lemma app_eq_len {A} (a b c d : list A) : a ++ b = c ++ d -> length a = length c -> a = c /\ b = d.
Proof.
  revert c. induction a as [|x a IH]; intros [|y c] H L; simpl in *; try discriminate.
  - auto.
  - injection H as -> H. injection L as L. destruct (IH _ H L) as [-> ->]. auto.
Qed.

(* l1 ++ r1 = l2 ++ r2 with l2 the shorter prefix *)
Lemma app_prefix_split {A} (l1 r1 l2 r2 : list A) : l1 ++ r1 = l2 ++ r2 -> zlen l2 <= zlen l1 ->
  exists x, l1 = l2 ++ x /\ r2 = x ++ r1.
Proof.
  intros H L. destruct (split_at l1 (zlen l2)) as (a & b & -> & La). { pose proof (zlen_nonneg l2); lia. }
  rewrite <- app_assoc in H. apply zlen_length in La. destruct (app_eq_len _ _ _ _ H La) as [-> <-].
  exists b; auto.
Qed.

(* l1 ++ r1 = l2 ++ r2 with r2 the shorter suffix *)
Lemma app_suffix_split {A} (l1 r1 l2 r2 : list A) : l1 ++ r1 = l2 ++ r2 -> zlen r2 <= zlen r1 ->
  exists y, r1 = y ++ r2 /\ l2 = l1 ++ y.
Proof.
  intros H L.
  assert (Hl : zlen l1 <= zlen l2).
  { assert (E : zlen (l1 ++ r1) = zlen (l2 ++ r2)) by (rewrite H; reflexivity). rewrite !zlen_app in E. lia. }
  symmetry in H. destruct (app_prefix_split _ _ _ _ H Hl) as (x & -> & ->). exists x; auto.
Qed.

Lemma firstn_app_exact {A} (a b : list A) n : n = length a -> firstn n (a ++ b) = a.
Proof. intros ->. rewrite firstn_app, Nat.sub_diag, firstn_all. simpl. apply app_nil_r. Qed.
Lemma skipn_app_exact {A} (a b : list A) n : n = length a -> skipn n (a ++ b) = b.
Proof. intros ->. rewrite skipn_app, Nat.sub_diag, skipn_all. reflexivity. Qed.

Lemma skipn_skipn' {A} (a b : nat) (l : list A) : skipn a (skipn b l) = skipn (b + a) l.
Proof.
  revert l. induction b as [|b IH]; intros l; simpl; [reflexivity|].
  destruct l; [apply skipn_nil|]. apply IH.
Qed.

(* ------------------------------------------------------------------ put / rd *)
Lemma put_mid (x y z c : list Z) i : zlen x = i -> length y = length c ->
  put (x ++ y ++ z) i c = Some (x ++ c ++ z).
Proof.
  intros Hx Hy. unfold put.
  assert (0 <= i) by (subst; apply zlen_nonneg).
  assert (E : (0 <=? i) && (i + zlen c <=? zlen (x ++ y ++ z)) = true).
  { rewrite !zlen_app. apply zlen_length in Hy. pose proof (zlen_nonneg z). lia. }
  rewrite E. f_equal.
  rewrite firstn_app_exact by (unfold zlen in Hx; lia).
  replace (Z.to_nat i + length c)%nat with (length (x ++ y)) by (rewrite app_length; unfold zlen in Hx; lia).
  rewrite (app_assoc x y z), skipn_app_exact by reflexivity. reflexivity.
Qed.

Lemma put_inv d i c d' : put d i c = Some d' ->
  exists x y z, d = x ++ y ++ z /\ zlen x = i /\ length y = length c /\ d' = x ++ c ++ z.
Proof.
  unfold put. destruct ((0 <=? i) && (i + zlen c <=? zlen d)) eqn:E; [|discriminate].
  intros H; some_inj H; subst d'.
  assert (Hi : 0 <= i /\ i + zlen c <= zlen d) by lia. destruct Hi as [Hi Hc].
  pose proof (zlen_nonneg c).
  exists (firstn (Z.to_nat i) d), (firstn (length c) (skipn (Z.to_nat i) d)), (skipn (Z.to_nat i + length c) d).
  repeat split.
  - rewrite <- (firstn_skipn (Z.to_nat i) d) at 1. f_equal.
    rewrite <- (firstn_skipn (length c) (skipn (Z.to_nat i) d)) at 1. f_equal.
    rewrite skipn_skipn'. reflexivity.
  - unfold zlen in *. rewrite firstn_length. lia.
  - rewrite firstn_length, skipn_length. unfold zlen in *. lia.
Qed.

Lemma put_length d i c d' : put d i c = Some d' -> length d' = length d.
Proof.
  intros H. destruct (put_inv _ _ _ _ H) as (x & y & z & -> & _ & L & ->). rewrite !app_length. lia.
Qed.

Lemma rd_mid (x y z : list Z) i n : zlen x = i -> zlen y = n -> rd (x ++ y ++ z) i n = Some y.
Proof.
  intros Hx Hy. unfold rd.
  assert (E : (0 <=? i) && (0 <=? n) && (i + n <=? zlen (x ++ y ++ z)) = true).
  { rewrite !zlen_app. pose proof (zlen_nonneg x). pose proof (zlen_nonneg y). pose proof (zlen_nonneg z). lia. }
  rewrite E. f_equal. rewrite skipn_app_exact by (unfold zlen in Hx; lia).
  apply firstn_app_exact. unfold zlen in Hy; lia.
Qed.
