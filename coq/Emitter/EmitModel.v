(* C12 part B: how src/runtime/builder.c produces emit calls.
   Transcribes the iov_state macros (init_iov, push_iov, push_iov_cond: builder.c:108-120), emit_front (builder.c:640),
   emit_back (builder.c:671) and the iov assembly of every call site of emit_front / emit_back
   (align_buffer_end, embed_buffer, create_buffer, create_struct, create_vtable, create_table, create_vector,
   create_offset_vector_direct, create_string). Paddings, sizes and the emitter's verdict are inputs, so the
   statements hold whatever the alignment arithmetic and the emitter do. No proofs in this file.
   Signed 32-bit arithmetic on flatcc_builder_ref_t is modelled as two's complement wrap (what the compiled code
   does; C leaves the overflow undefined). *)
From Flatcc.Common Require Export Wrap.
From Flatcc.Generated Require Export Consts.
Local Open Scope Z_scope.

Record iov_state := { ilen : Z; icount : Z; ipieces : list Z }.   (* ipieces = iov[0..count-1].iov_len *)

Definition init_iov : iov_state := {| ilen := 0; icount := 0; ipieces := [] |}.

(* push_iov_cond(base, size, cond): if ((size) > 0 && (cond)) { iov.len += size; iov.iov[iov.count++] = ... } *)
Definition push_iov (s : iov_state) (size : Z) (cond : bool) : iov_state :=
  if (0 <? size) && cond
  then {| ilen := u64 (ilen s + size); icount := icount s + 1; ipieces := ipieces s ++ [size] |}
  else s.

Definition build_iov (pushes : list (Z * bool)) : iov_state :=
  fold_left (fun s p => push_iov s (fst p) (snd p)) pushes init_iov.

Record bst := { emit_start : Z; emit_end : Z }.          (* B->emit_start, B->emit_end : int32 *)
Definition bst_init : bst := {| emit_start := 0; emit_end := 0 |}.

(* one call of B->emit(ctx, iov, iov_count, offset, len) *)
Record call := { c_count : Z; c_pieces : list Z; c_offset : Z; c_len : Z }.
Definition call_of (iov : iov_state) (ref : Z) : call :=
  {| c_count := icount iov; c_pieces := ipieces iov; c_offset := ref; c_len := ilen iov |}.

(* the size guard of emit_front as written: (iov->len > 16 && iov->len - 16 > FLATBUFFERS_UOFFSET_MAX) *)
Definition toolarge_c (len : Z) : bool := (16 <? len) && (UOFFSET_MAX <? u64 (len - 16)).
(* the guard after the proposed fix: iov->len > FLATBUFFERS_SOFFSET_MAX *)
Definition SOFFSET_MAX : Z := 2147483647.
Definition toolarge_fixed (len : Z) : bool := SOFFSET_MAX <? len.

(* emit_front: result = (state, the emit call made if any, returned reference; 0 = failure) *)
Definition emit_front (toolarge : Z -> bool) (st : bst) (iov : iov_state) (accept : bool) : bst * option call * Z :=
  let ref := s32 (emit_start st - s32 (ilen iov)) in
  if toolarge (ilen iov) || (emit_start st <=? ref) then (st, None, 0)
  else if accept then ({| emit_start := ref; emit_end := emit_end st |}, Some (call_of iov ref), ref)
  else (st, Some (call_of iov ref), 0).

(* emit_back: B->emit_end is advanced before the checks *)
Definition emit_back (st : bst) (iov : iov_state) (accept : bool) : bst * option call * Z :=
  let ref := emit_end st in
  let e := s32 (ref + s32 (ilen iov)) in
  let st1 := {| emit_start := emit_start st; emit_end := e |} in
  if e <? ref then (st1, None, 0)
  else if accept then (st1, Some (call_of iov ref), s32 (ref + 1))
  else (st1, Some (call_of iov ref), 0).

(* ------------------------------------------------------------------ the call sites *)
Inductive site :=
| S_align_end (end_pad : Z)                                 (* align_buffer_end: only when end_pad != 0 *)
| S_embed_buffer (nested : bool) (size pad : Z)
| S_create_buffer (sized : bool) (id_size header_pad : Z)   (* sized = is_nested || with_size *)
| S_create_struct (size pad : Z)
| S_create_vtable (vt_size vt_pad : Z) (clustered : bool)   (* clustered = is_top_buffer && !disable_vt_clustering; front vtables are padded to voffset alignment *)
| S_create_table (size pad : Z)
| S_create_vector (vec_size vec_pad : Z)
| S_create_offset_vector (vec_size vec_pad : Z)
| S_create_string (len s_pad : Z).

Definition field_size : Z := SIZEOF_uoffset.

Definition site_pushes (s : site) : list (Z * bool) :=
  match s with
  | S_align_end p => [(p, true)]
  | S_embed_buffer nested size pad => [(field_size, nested); (size, true); (pad, true)]
  | S_create_buffer sized id_size hp => [(field_size, sized); (field_size, true); (id_size, true); (hp, true)]
  | S_create_struct size pad => [(size, true); (pad, true)]
  | S_create_vtable vt vp clustered => (vt, true) :: (if clustered then [] else [(vp, true)])
  | S_create_table size pad => [(field_size, true); (size, true); (pad, true)]
  | S_create_vector vs vp => [(field_size, true); (vs, true); (vp, true)]
  | S_create_offset_vector vs vp => [(field_size, true); (vs, true); (vp, true)]
  | S_create_string l sp => [(field_size, true); (l, true); (sp, true)]
  end.

Definition site_back (s : site) : bool :=
  match s with
  | S_align_end _ => true
  | S_create_vtable _ _ clustered => clustered
  | _ => false
  end.

(* one builder-level emission: (state, call if any, success) *)
Definition emit_site (toolarge : Z -> bool) (st : bst) (s : site) (accept : bool) : bst * option call * bool :=
  match s with
  | S_align_end 0 => (st, None, true)            (* if (end_pad) { ... } *)
  | _ =>
    let iov := build_iov (site_pushes s) in
    let r := if site_back s then emit_back st iov accept else emit_front toolarge st iov accept in
    (fst (fst r), snd (fst r), negb (snd r =? 0))
  end.

(* the emit calls of a build history; the history ends at the first failing call (the API call returns its
   failure value, the builder must be reset) *)
Fixpoint run_sites (toolarge : Z -> bool) (st : bst) (h : list (site * bool)) : list call :=
  match h with
  | [] => []
  | (s, accept) :: r =>
    let x := emit_site toolarge st s accept in
    let rest := if snd x then run_sites toolarge (fst (fst x)) r else [] in
    match snd (fst x) with Some c => c :: rest | None => rest end
  end.

(* the state after the calls of [h] (same recursion as run_sites; stays where the first failing call left it) *)
Fixpoint final_sites (toolarge : Z -> bool) (st : bst) (h : list (site * bool)) : bst :=
  match h with
  | [] => st
  | (s, accept) :: r =>
    let x := emit_site toolarge st s accept in
    if snd x then final_sites toolarge (fst (fst x)) r else fst (fst x)
  end.

(* flatcc_builder_custom_reset (hence flatcc_builder_reset), for the default and for custom emitters alike:
   B->emit_start = 0; B->emit_end = 0; *)
Definition bst_reset (st : bst) : bst := {| emit_start := 0; emit_end := 0 |}.

(* build, reset, build again ...: one trace of emit calls per round *)
Fixpoint run_rounds (toolarge : Z -> bool) (st : bst) (rounds : list (list (site * bool))) : list (list call) :=
  match rounds with
  | [] => []
  | h :: r => run_sites toolarge st h :: run_rounds toolarge (bst_reset (final_sites toolarge st h)) r
  end.

(* inventory of the call sites for the source scan in checks/c12.py: (number of push_iov, may go front, may go back) *)
Definition site_inventory : list (Z * bool * bool) :=
  [ (1, false, true); (3, true, false); (4, true, false); (2, true, false); (2, true, true);
    (3, true, false); (3, true, false); (3, true, false); (3, true, false) ].
Definition site_repr : list site :=
  [ S_align_end 1; S_embed_buffer true 1 1; S_create_buffer true 4 1; S_create_struct 1 1; S_create_vtable 4 0 true;
    S_create_table 1 1; S_create_vector 1 1; S_create_offset_vector 1 1; S_create_string 1 1 ].

(* the same sites with the variant that pushes the most pieces (front vtable: vtable + padding) *)
Definition site_repr_max : list site :=
  [ S_align_end 1; S_embed_buffer true 1 1; S_create_buffer true 4 1; S_create_struct 1 1; S_create_vtable 4 0 false;
    S_create_table 1 1; S_create_vector 1 1; S_create_offset_vector 1 1; S_create_string 1 1 ].

(* ------------------------------------------------------------------ the property's shape predicate *)
Definition zsum (l : list Z) : Z := fold_right Z.add 0 l.

Definition call_ok (c : call) : Prop :=
  0 < c_count c <= IOV_COUNT_MAX /\ c_count c = Z.of_nat (length (c_pieces c)) /\
  Forall (fun p => 0 < p) (c_pieces c) /\ zsum (c_pieces c) = c_len c.

(* s = current start (<= 0), e = current end (>= 0) of the virtual range *)
Fixpoint stream_ok (s e : Z) (tr : list call) : Prop :=
  match tr with
  | [] => True
  | c :: r =>
    call_ok c /\
    ((c_offset c < 0 /\ c_offset c + c_len c = s /\ c_offset c < s /\ stream_ok (c_offset c) e r) \/
     (0 <= c_offset c /\ c_offset c = e /\ e < e + c_len c /\ stream_ok s (e + c_len c) r))
  end.

(* sizes a valid builder call can pass: object sizes below 2^62 (so the size_t sum of at most four pieces does not
   wrap); what goes to the back is a vtable (voffset_t size, at least the two header entries) or end padding
   (below a uint16_t alignment) *)
Definition valid_site (s : site) : Prop :=
  Forall (fun p => 0 <= fst p < 2 ^ 62) (site_pushes s) /\
  match s with
  | S_align_end p => p < 65536
  | S_create_vtable vt _ _ => 4 <= vt < 65536
  | _ => True
  end.
