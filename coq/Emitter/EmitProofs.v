(* C12 part B: the emit calls made through emit_front / emit_back form one contiguous, well-formed stream. *)
From Flatcc.Emitter Require Export EmitModel.
From Coq Require Import ZifyBool.
Local Open Scope Z_scope.
Ltac Zify.zify_post_hook ::= Z.div_mod_to_equations.

Lemma zsum_app l x : zsum (l ++ [x]) = zsum l + x.
Proof. unfold zsum. induction l as [|y l IH]; simpl; lia. Qed.

Lemma iov_max_ge4 : 4 <= IOV_COUNT_MAX.
Proof. unfold IOV_COUNT_MAX. lia. Qed.
Lemma field_size_ok : 0 <= field_size < 2 ^ 62.
Proof. unfold field_size, SIZEOF_uoffset. lia. Qed.

(* invariant of an iov_state after at most n pushes *)
Definition J (s : iov_state) (n : Z) : Prop :=
  icount s = Z.of_nat (length (ipieces s)) /\ Forall (fun p => 0 < p) (ipieces s) /\
  zsum (ipieces s) = ilen s /\ 0 <= ilen s <= icount s * 2 ^ 62 /\ icount s <= n.

Lemma push_ok s n sz c : J s n -> 0 <= sz < 2 ^ 62 -> n < 4 -> J (push_iov s sz c) (n + 1).
Proof.
  intros (Hc & Hp & Hs & Hl & Hn) Hsz H4. unfold push_iov.
  destruct ((0 <? sz) && c) eqn:E.
  - unfold J; cbn [icount ipieces ilen]. rewrite app_length, zsum_app. simpl length.
    assert (Hu : u64 (ilen s + sz) = ilen s + sz) by (apply u64_id; unfold in_u64; nia).
    rewrite Hu. repeat split; try lia; try nia.
    apply Forall_app. split; [assumption|]. constructor; [lia|constructor].
  - unfold J. repeat split; try tauto; lia.
Qed.

Lemma build_ok_gen : forall pushes s n, J s n ->
  Forall (fun p => 0 <= fst p < 2 ^ 62) pushes -> n + Z.of_nat (length pushes) <= 4 ->
  J (fold_left (fun s p => push_iov s (fst p) (snd p)) pushes s) (n + Z.of_nat (length pushes)).
Proof.
  induction pushes as [|p r IH]; intros s n Hj Hf Hn; simpl fold_left.
  - simpl. replace (n + 0) with n by lia. exact Hj.
  - simpl length in *. replace (n + Z.of_nat (S (length r))) with ((n + 1) + Z.of_nat (length r)) by lia.
    apply IH; [|exact (Forall_inv_tail Hf)|lia].
    apply push_ok; [exact Hj|exact (Forall_inv Hf)|lia].
Qed.

Lemma build_ok pushes : Forall (fun p => 0 <= fst p < 2 ^ 62) pushes -> Z.of_nat (length pushes) <= 4 ->
  J (build_iov pushes) (Z.of_nat (length pushes)).
Proof.
  intros Hf Hn. unfold build_iov.
  replace (Z.of_nat (length pushes)) with (0 + Z.of_nat (length pushes)) by lia.
  apply build_ok_gen; [|exact Hf|lia].
  unfold J, init_iov; simpl. repeat split; try lia. constructor.
Qed.

Lemma J_call_ok iov n ref : J iov n -> n <= 4 -> 0 < ilen iov -> call_ok (call_of iov ref).
Proof.
  intros (Hc & Hp & Hs & Hl & Hn) H4 Hpos. pose proof iov_max_ge4.
  unfold call_ok, call_of; cbn [c_count c_pieces c_len]. repeat split; try lia; try assumption.
Qed.

(* the builder's range invariant *)
Definition B (st : bst) : Prop := -2147483648 <= emit_start st <= 0 /\ 0 <= emit_end st <= 2147483647.

Definition rejects_above_4g (toolarge : Z -> bool) : Prop := forall len, 4294967296 < len -> toolarge len = true.

Lemma s32_range x : -2147483648 <= s32 x <= 2147483647.
Proof. unfold s32, u32. destruct (x mod 4294967296 <? 2147483648) eqn:E; lia. Qed.

Lemma s32_front st len : -2147483648 <= st <= 0 -> 0 <= len <= 4294967296 ->
  s32 (st - s32 len) < st -> s32 (st - s32 len) + len = st /\ 0 < len.
Proof.
  intros Hs Hl. unfold s32, u32.
  destruct (len mod 4294967296 <? 2147483648) eqn:E1;
  [destruct ((st - len mod 4294967296) mod 4294967296 <? 2147483648) eqn:E2
  |destruct ((st - (len mod 4294967296 - 4294967296)) mod 4294967296 <? 2147483648) eqn:E2]; lia.
Qed.

Lemma emit_front_ok toolarge st iov n accept : rejects_above_4g toolarge -> B st -> J iov n -> n <= 4 ->
  match emit_front toolarge st iov accept with
  | (st', Some c, ret) =>
      call_ok c /\ c_offset c < 0 /\ c_offset c + c_len c = emit_start st /\ c_offset c < emit_start st /\
      (ret <> 0 -> B st' /\ emit_start st' = c_offset c /\ emit_end st' = emit_end st)
  | (st', None, ret) => ret = 0
  end.
Proof.
  intros Hr [Hs He] Hj H4. unfold emit_front.
  destruct (toolarge (ilen iov) || (emit_start st <=? s32 (emit_start st - s32 (ilen iov)))) eqn:E; [reflexivity|].
  apply orb_false_iff in E. destruct E as [Et Ec].
  assert (Hl : 0 <= ilen iov <= 4294967296).
  { destruct Hj as (_ & _ & _ & Hl & _). split; [lia|].
    destruct (Z_lt_le_dec 4294967296 (ilen iov)) as [Hgt|]; [|assumption]. rewrite (Hr _ Hgt) in Et. discriminate. }
  destruct (s32_front (emit_start st) (ilen iov) Hs Hl ltac:(lia)) as [Hsum Hpos].
  set (ref := s32 (emit_start st - s32 (ilen iov))) in *.
  assert (Hrange : -2147483648 <= ref) by (apply s32_range).
  pose proof (J_call_ok iov n ref Hj H4 Hpos) as Hc.
  destruct accept; (split; [exact Hc|]); cbn [call_of c_offset c_len];
    (split; [lia|]); (split; [lia|]); (split; [lia|]); intros Hne; [|lia].
  unfold B; cbn [emit_start emit_end]. lia.
Qed.

Lemma emit_back_ok st iov n accept : B st -> J iov n -> n <= 4 -> 0 < ilen iov < 65536 ->
  match emit_back st iov accept with
  | (st', Some c, ret) =>
      call_ok c /\ 0 <= c_offset c /\ c_offset c = emit_end st /\ 0 < c_len c /\
      (ret <> 0 -> B st' /\ emit_end st' = emit_end st + c_len c /\ emit_start st' = emit_start st)
  | (st', None, ret) => ret = 0
  end.
Proof.
  intros [Hs He] Hj H4 Hl. unfold emit_back.
  assert (H32 : s32 (ilen iov) = ilen iov) by (unfold s32, u32; destruct (_ <? _) eqn:?; lia).
  rewrite H32.
  destruct (s32 (emit_end st + ilen iov) <? emit_end st) eqn:E; [reflexivity|].
  assert (He' : s32 (emit_end st + ilen iov) = emit_end st + ilen iov /\ emit_end st + ilen iov <= 2147483647).
  { revert E. unfold s32, u32. destruct (_ <? 2147483648) eqn:?; lia. }
  destruct He' as [He1 He2]. rewrite He1.
  pose proof (J_call_ok iov n (emit_end st) Hj H4 ltac:(lia)) as Hc.
  destruct accept; (split; [exact Hc|]); cbn [call_of c_offset c_len];
    (split; [lia|]); (split; [lia|]); (split; [lia|]); intros Hne; [|lia].
  unfold B; cbn [emit_start emit_end]. lia.
Qed.

Lemma single_push x : 0 < x < 2 ^ 62 -> ilen (build_iov [(x, true)]) = x.
Proof.
  intros H. unfold build_iov, push_iov, init_iov. simpl fold_left. cbn [fst snd].
  replace ((0 <? x) && true) with true by lia. cbn [ilen]. apply u64_id. unfold in_u64. lia.
Qed.

Lemma site_len s : (length (site_pushes s) <= 4)%nat.
Proof. destruct s; simpl; try lia. destruct clustered; simpl; lia. Qed.

Definition step_post (st st' : bst) (oc : option call) (ok : bool) : Prop :=
  match oc with
  | Some c =>
    call_ok c /\
    ((c_offset c < 0 /\ c_offset c + c_len c = emit_start st /\ c_offset c < emit_start st /\
      (ok = true -> B st' /\ emit_start st' = c_offset c /\ emit_end st' = emit_end st)) \/
     (0 <= c_offset c /\ c_offset c = emit_end st /\ 0 < c_len c /\
      (ok = true -> B st' /\ emit_end st' = emit_end st + c_len c /\ emit_start st' = emit_start st)))
  | None => ok = true -> st' = st
  end.

Lemma emit_site_generic toolarge st s accept : rejects_above_4g toolarge -> B st -> valid_site s ->
  (site_back s = true -> 0 < ilen (build_iov (site_pushes s)) < 65536) ->
  let r := if site_back s then emit_back st (build_iov (site_pushes s)) accept
           else emit_front toolarge st (build_iov (site_pushes s)) accept in
  step_post st (fst (fst r)) (snd (fst r)) (negb (snd r =? 0)).
Proof.
  intros Hr Hb [Hv _] Hback. pose proof (site_len s) as Hn.
  pose proof (build_ok (site_pushes s) Hv ltac:(lia)) as Hj.
  destruct (site_back s).
  - pose proof (emit_back_ok st _ _ accept Hb Hj ltac:(lia) (Hback eq_refl)) as H. cbv zeta.
    destruct (emit_back st (build_iov (site_pushes s)) accept) as [[st' [c|]] ret]; cbn [fst snd step_post].
    + destruct H as (H1 & H2 & H3 & H4 & H5). split; [exact H1|right].
      split; [exact H2|]. split; [exact H3|]. split; [exact H4|]. intros Hok. apply H5. lia.
    + subst ret. simpl. discriminate.
  - pose proof (emit_front_ok toolarge st _ _ accept Hr Hb Hj ltac:(lia)) as H. cbv zeta.
    destruct (emit_front toolarge st (build_iov (site_pushes s)) accept) as [[st' [c|]] ret]; cbn [fst snd step_post].
    + destruct H as (H1 & H2 & H3 & H4 & H5). split; [exact H1|left].
      split; [exact H2|]. split; [exact H3|]. split; [exact H4|]. intros Hok. apply H5. lia.
    + subst ret. simpl. discriminate.
Qed.

Lemma emit_site_ok toolarge st s accept : rejects_above_4g toolarge -> B st -> valid_site s ->
  let x := emit_site toolarge st s accept in step_post st (fst (fst x)) (snd (fst x)) (snd x).
Proof.
  intros Hr Hb Hv.
  assert (G : (site_back s = true -> 0 < ilen (build_iov (site_pushes s)) < 65536) ->
              let r := if site_back s then emit_back st (build_iov (site_pushes s)) accept
                       else emit_front toolarge st (build_iov (site_pushes s)) accept in
              step_post st (fst (fst r)) (snd (fst r)) (negb (snd r =? 0)))
    by (apply emit_site_generic; assumption).
  destruct s as [p| | | |vt vp cl| | | | ]; try (cbn [emit_site]; apply G; cbn [site_back]; discriminate).
  - destruct Hv as [Hv Hp]. pose proof (Forall_inv Hv) as Hp0. cbn [fst] in Hp0.
    destruct p as [|p|p]; [cbn; auto| |lia].
    cbn [emit_site]. apply G. intros _. cbn [site_pushes]. rewrite single_push; lia.
  - destruct Hv as [Hv Hp]. cbn [emit_site]. apply G. cbn [site_back]. intros Hcl. subst cl. cbn [site_pushes].
    rewrite single_push; lia.
Qed.

Lemma run_sites_ok toolarge : rejects_above_4g toolarge -> forall h st, B st -> Forall (fun x => valid_site (fst x)) h ->
  stream_ok (emit_start st) (emit_end st) (run_sites toolarge st h).
Proof.
  intros Hr. induction h as [|[s accept] h IH]; intros st Hb Hv; cbn [run_sites stream_ok]; [exact Logic.I|].
  pose proof (emit_site_ok toolarge st s accept Hr Hb (Forall_inv Hv)) as H. cbv zeta in H.
  destruct (emit_site toolarge st s accept) as [[st' oc] ok]. cbn [fst snd] in *.
  destruct oc as [c|]; cbn [step_post] in H.
  - destruct H as [Hc [(H1 & H2 & H3 & H4)|(H1 & H2 & H3 & H4)]]; cbn [stream_ok]; (split; [exact Hc|]).
    + left. repeat split; try assumption. destruct ok; [|exact Logic.I].
      destruct (H4 eq_refl) as (Hb' & <- & <-). apply IH; [exact Hb'|exact (Forall_inv_tail Hv)].
    + right. repeat split; try assumption; try lia. destruct ok; [|exact Logic.I].
      destruct (H4 eq_refl) as (Hb' & He' & Hs'). rewrite <- He', <- Hs'. apply IH; [exact Hb'|exact (Forall_inv_tail Hv)].
  - destruct ok; [|exact Logic.I]. rewrite (H eq_refl). apply IH; [exact Hb|exact (Forall_inv_tail Hv)].
Qed.

(* ====================================================================== statements *)
Theorem emit_stream_ok : forall toolarge, rejects_above_4g toolarge ->
  forall h, Forall (fun x => valid_site (fst x)) h -> stream_ok 0 0 (run_sites toolarge bst_init h).
Proof.
  intros toolarge Hr h Hv. apply (run_sites_ok toolarge Hr h bst_init); [|exact Hv].
  unfold B, bst_init; simpl; lia.
Qed.

(* with reset and reuse: every round, also after failed or abandoned ones, starts again from zero *)
Theorem emit_stream_ok_rounds : forall toolarge, rejects_above_4g toolarge ->
  forall rounds, Forall (Forall (fun x => valid_site (fst x))) rounds ->
  Forall (stream_ok 0 0) (run_rounds toolarge bst_init rounds).
Proof.
  intros toolarge Hr.
  assert (G : forall rounds st, st = bst_init -> Forall (Forall (fun x => valid_site (fst x))) rounds ->
              Forall (stream_ok 0 0) (run_rounds toolarge st rounds)).
  { induction rounds as [|h r IH]; intros st Hst Hv; cbn [run_rounds]; constructor.
    - subst st. apply emit_stream_ok; [exact Hr|exact (Forall_inv Hv)].
    - apply IH; [reflexivity|exact (Forall_inv_tail Hv)]. }
  intros rounds Hv. apply G; [reflexivity|exact Hv].
Qed.

Lemma fixed_rejects : rejects_above_4g toolarge_fixed.
Proof. intros len H. unfold toolarge_fixed, SOFFSET_MAX. lia. Qed.

(* the guard as written lets lengths 2^32+1 .. 2^32+15 through, and the 32-bit reference is then wrong:
   create_string with len = 2^32 - 1 (= max_string_len) emits offset -4 with length 2^32 + 4 *)
Definition big_string_history : list (site * bool) := [(S_create_string 4294967295 1, true)].

Lemma big_string_valid : Forall (fun x => valid_site (fst x)) big_string_history.
Proof.
  constructor; [|constructor]. split; [|exact Logic.I]. cbn [fst site_pushes].
  pose proof field_size_ok. repeat (constructor; [cbn [fst]; lia|]). constructor.
Qed.

Lemma emit_front_len_wrap_refuted :
  exists h, Forall (fun x => valid_site (fst x)) h /\ ~ stream_ok 0 0 (run_sites toolarge_c bst_init h).
Proof.
  exists big_string_history. split; [exact big_string_valid|].
  vm_compute. intros [_ [(_ & H & _)|(H & _)]]; discriminate || (apply H; reflexivity).
Qed.

(* the inventory used by the source scan agrees with the site model *)
Lemma site_inventory_ok :
  map (fun s => (Z.of_nat (length (site_pushes s)), true)) site_repr_max =
  map (fun x => (fst (fst x), true)) site_inventory /\
  map site_back site_repr = map snd site_inventory /\
  length site_repr = 9%nat.
Proof. vm_compute. repeat split; reflexivity. Qed.
