(* C12 part A: the default emitter's page ring.
   Transcribes src/runtime/emitter.c (advance_front/advance_back, copy_front/copy_back, flatcc_emitter,
   flatcc_emitter_recycle_page, flatcc_emitter_reset, flatcc_emitter_clear, flatcc_emitter_copy_buffer) and
   include/flatcc/flatcc_emitter.h (flatcc_emitter_get_direct_buffer, flatcc_emitter_get_buffer_size).
   No proofs in this file.

   Representation of the circular doubly linked page list:
     pages st  = the pages in use, E->front first, E->back last (following ->next)
     spare st  = the rest of the ring, following ->next from E->back->next up to E->front->prev
   so advance_back takes the head of [spare] (E->back->next) and advance_front takes its last element
   (E->front->prev).  An empty [pages] is E->front == E->back == NULL.
   Cursors are indices into the front / back page: fc = front_cursor - front->page, bc = back_cursor - back->page.
   The page size is an argument [P]; allocation is an oracle [alloc k] for the k-th FLATCC_EMITTER_ALLOC call:
   [None] = allocation failure, [Some junk] = success, the new page holding arbitrary bytes (normalised to P bytes).
   Every write into a page and every read out of a page is guarded: [None] / [DOob] from them IS an access
   outside the page array. *)
From Flatcc.Common Require Export Wrap.
Local Open Scope Z_scope.

Record page := { pdata : list Z; poff : Z }.

Record est := {
  pages : list page; spare : list page;
  fc : Z; fl : Z;          (* front_cursor index, front_left *)
  bc : Z; bl : Z;          (* back_cursor index, back_left *)
  used : Z; cap : Z; avg : Z;  (* used, capacity, used_average *)
  nalloc : nat             (* number of allocator calls so far (ghost: index into the oracle) *)
}.

(* flatcc_emitter_init: memset 0 *)
Definition est_init : est :=
  {| pages := []; spare := []; fc := 0; fl := 0; bc := 0; bl := 0; used := 0; cap := 0; avg := 0; nalloc := O |}.

Definition zlen {A} (l : list A) : Z := Z.of_nat (length l).

(* memcpy(page + i, c, |c|) *)
Definition put (d : list Z) (i : Z) (c : list Z) : option (list Z) :=
  if (0 <=? i) && (i + zlen c <=? zlen d)
  then Some (firstn (Z.to_nat i) d ++ c ++ skipn (Z.to_nat i + length c) d)
  else None.

(* memcpy(out, page + i, n) *)
Definition rd (d : list Z) (i n : Z) : option (list Z) :=
  if (0 <=? i) && (0 <=? n) && (i + n <=? zlen d)
  then Some (firstn (Z.to_nat n) (skipn (Z.to_nat i) d))
  else None.

(* write through front_cursor: into the page E->front *)
Definition put_head (pg : list page) (i : Z) (c : list Z) : option (list page) :=
  match pg with
  | [] => if zlen c =? 0 then Some [] else None       (* memcpy of 0 bytes through the null cursor *)
  | f :: r => match put (pdata f) i c with
              | Some d => Some ({| pdata := d; poff := poff f |} :: r)
              | None => None
              end
  end.

(* write through back_cursor: into the page E->back *)
Fixpoint put_last (pg : list page) (i : Z) (c : list Z) : option (list page) :=
  match pg with
  | [] => if zlen c =? 0 then Some [] else None
  | [b] => match put (pdata b) i c with
           | Some d => Some [{| pdata := d; poff := poff b |}]
           | None => None
           end
  | p :: r => match put_last r i c with Some r' => Some (p :: r') | None => None end
  end.

Fixpoint unsnoc {A} (l : list A) : option (list A * A) :=
  match l with
  | [] => None
  | x :: r => match unsnoc r with
              | None => Some ([], x)
              | Some (i, y) => Some (x :: i, y)
              end
  end.

Fixpoint last_off (pg : list page) (dflt : Z) : Z :=
  match pg with
  | [] => dflt
  | p :: r => last_off r (poff p)
  end.

Section Emitter.
Variable P : Z.
Variable alloc : nat -> option (list Z).

Definition fresh (junk : list Z) : list Z := firstn (Z.to_nat P) (junk ++ repeat 0 (Z.to_nat P)).

(* common tail of advance_front / advance_back when the ring is empty: the first page is shared *)
Definition first_page (st : est) : option est :=
  match alloc (nalloc st) with
  | None => None
  | Some j =>
    Some {| pages := [{| pdata := fresh j; poff := - (P / 2) |}]; spare := spare st;
            fc := P / 2; fl := P / 2; bc := P / 2; bl := P - P / 2;
            used := used st; cap := cap st + P; avg := avg st; nalloc := S (nalloc st) |}
  end.

Definition advance_front (st : est) : option est :=
  match pages st with
  | f :: _ =>
    match unsnoc (spare st) with
    | Some (sp, p) =>        (* E->front->prev != E->back: reuse it *)
      Some {| pages := {| pdata := pdata p; poff := poff f - P |} :: pages st; spare := sp;
              fc := P; fl := P; bc := bc st; bl := bl st;
              used := used st; cap := cap st; avg := avg st; nalloc := nalloc st |}
    | None =>
      match alloc (nalloc st) with
      | None => None
      | Some j =>
        Some {| pages := {| pdata := fresh j; poff := poff f - P |} :: pages st; spare := [];
                fc := P; fl := P; bc := bc st; bl := bl st;
                used := used st; cap := cap st + P; avg := avg st; nalloc := S (nalloc st) |}
      end
    end
  | [] => first_page st
  end.

Definition advance_back (st : est) : option est :=
  match pages st with
  | f :: _ =>
    let lo := last_off (pages st) 0 in
    match spare st with
    | p :: sp =>             (* E->back->next != E->front: reuse it *)
      Some {| pages := pages st ++ [{| pdata := pdata p; poff := lo + P |}]; spare := sp;
              fc := fc st; fl := fl st; bc := 0; bl := P;
              used := used st; cap := cap st; avg := avg st; nalloc := nalloc st |}
    | [] =>
      match alloc (nalloc st) with
      | None => None
      | Some j =>
        Some {| pages := pages st ++ [{| pdata := fresh j; poff := lo + P |}]; spare := [];
                fc := fc st; fl := fl st; bc := 0; bl := P;
                used := used st; cap := cap st + P; avg := avg st; nalloc := S (nalloc st) |}
      end
    end
  | [] => first_page st
  end.

Definition set_front (st : est) (pg : list page) (c l : Z) : est :=
  {| pages := pg; spare := spare st; fc := c; fl := l; bc := bc st; bl := bl st;
     used := used st; cap := cap st; avg := avg st; nalloc := nalloc st |}.
Definition set_back (st : est) (pg : list page) (c l : Z) : est :=
  {| pages := pg; spare := spare st; fc := fc st; fl := fl st; bc := c; bl := l;
     used := used st; cap := cap st; avg := avg st; nalloc := nalloc st |}.
Definition set_used (st : est) (u : Z) : est :=
  {| pages := pages st; spare := spare st; fc := fc st; fl := fl st; bc := bc st; bl := bl st;
     used := u; cap := cap st; avg := avg st; nalloc := nalloc st |}.

(* copy_front: the loop runs while size != 0; every iteration either advances (front_left == 0) or moves
   k >= 1 bytes, and an advance is followed by a move, so 2*size + 1 iterations suffice (fuel). *)
Fixpoint copy_front_f (fuel : nat) (st : est) (data : list Z) : option est :=
  match fuel with
  | O => None
  | S fuel' =>
    let size := zlen data in
    if size =? 0 then Some st else
    if (fl st <? size) && (fl st =? 0) then
      match advance_front st with
      | None => None
      | Some st' => copy_front_f fuel' st' data
      end
    else
      let k := if fl st <? size then fl st else size in
      (* data -= k; memcpy(front_cursor - k, data, k) : the LAST k bytes of what remains *)
      match put_head (pages st) (fc st - k) (skipn (Z.to_nat (size - k)) data) with
      | None => None
      | Some pg => copy_front_f fuel' (set_front st pg (fc st - k) (fl st - k)) (firstn (Z.to_nat (size - k)) data)
      end
  end.
Definition copy_front (st : est) (data : list Z) : option est := copy_front_f (2 * length data + 2) st data.

Fixpoint copy_back_f (fuel : nat) (st : est) (data : list Z) : option est :=
  match fuel with
  | O => None
  | S fuel' =>
    let size := zlen data in
    if size =? 0 then Some st else
    if (bl st <? size) && (bl st =? 0) then
      match advance_back st with
      | None => None
      | Some st' => copy_back_f fuel' st' data
      end
    else
      let k := if bl st <? size then bl st else size in
      match put_last (pages st) (bc st) (firstn (Z.to_nat k) data) with
      | None => None
      | Some pg => copy_back_f fuel' (set_back st pg (bc st + k) (bl st - k)) (skipn (Z.to_nat k) data)
      end
  end.
Definition copy_back (st : est) (data : list Z) : option est := copy_back_f (2 * length data + 2) st data.

Fixpoint copy_front_all (st : est) (riov : list (list Z)) : option est :=
  match riov with
  | [] => Some st
  | d :: r => match copy_front st d with None => None | Some st' => copy_front_all st' r end
  end.
Fixpoint copy_back_all (st : est) (iov : list (list Z)) : option est :=
  match iov with
  | [] => Some st
  | d :: r => match copy_back st d with None => None | Some st' => copy_back_all st' r end
  end.

(* the `copy:` tail of flatcc_emitter: pieces in order from p upwards *)
Fixpoint write_head (pg : list page) (pos : Z) (iov : list (list Z)) : option (list page) :=
  match iov with
  | [] => Some pg
  | c :: r => match put_head pg pos c with None => None | Some pg' => write_head pg' (pos + zlen c) r end
  end.
Fixpoint write_last (pg : list page) (pos : Z) (iov : list (list Z)) : option (list page) :=
  match iov with
  | [] => Some pg
  | c :: r => match put_last pg pos c with None => None | Some pg' => write_last pg' (pos + zlen c) r end
  end.

(* flatcc_emitter(E, iov, iov_count, offset, len); [None] = -1 (or an access outside a page) *)
Definition emitter (st : est) (iov : list (list Z)) (offset len : Z) : option est :=
  let st := set_used st (used st + len) in
  if offset <? 0 then
    if len <=? fl st then
      match write_head (pages st) (fc st - len) iov with
      | None => None
      | Some pg => Some (set_front st pg (fc st - len) (fl st - len))
      end
    else copy_front_all st (rev iov)
  else
    if len <=? bl st then
      match write_last (pages st) (bc st) iov with
      | None => None
      | Some pg => Some (set_back st pg (bc st + len) (bl st - len))
      end
    else copy_back_all st iov.

(* flatcc_emitter_reset.  What the property speaks about: the front page becomes the only page in use, cursors in the
   middle, used = 0.  How many of the other pages stay in the pool is a tuning policy of the implementation (a heuristic
   over used_average and capacity, revised freely) that no observable of the stream depends on: the model takes the
   number [keep] of retained spare pages as an ORACLE input (the check passes what the implementation is observed to do)
   and frees the rest; every theorem holds for every value of it.  A page in use is never among the freed ones (only the
   front page is in use after reset and it is kept); capacity follows the page count; used_average is bookkeeping of the
   policy and is only carried along. *)
Definition reset (keep : nat) (st : est) : est :=
  match pages st with
  | [] => set_used st 0     (* if (!E->front) { E->used = 0; return; } *)
  | f :: rest =>
    let a0 := if avg st =? 0 then used st else avg st in
    let a1 := a0 * 3 / 4 + used st / 4 in
    let pool := firstn keep (rest ++ spare st) in
    {| pages := [{| pdata := pdata f; poff := - (P / 2) |}]; spare := pool;
       fc := P / 2; fl := P / 2; bc := P / 2; bl := P - P / 2;
       used := 0; cap := P * (1 + zlen pool); avg := a1; nalloc := nalloc st |}
  end.
Definition freed_by_reset (keep : nat) (st : est) : nat :=
  match pages st with [] => O | _ :: rest => (length (rest ++ spare st) - keep)%nat end.

(* flatcc_emitter_clear: every page freed, struct zeroed *)
Definition clear (st : est) : est :=
  {| pages := []; spare := []; fc := 0; fl := 0; bc := 0; bl := 0; used := 0; cap := 0; avg := 0; nalloc := nalloc st |}.
Definition freed_by_clear (st : est) : nat := length (pages st ++ spare st).

(* flatcc_emitter_recycle_page(E, p): p = the i-th page of the ring counted from E->front along ->next.
   [None] = the index names no page (the C has no such case: p must be a page of the ring);
   [Some (st, -1)] = refused (front or back page). The page is moved to just before E->front. *)
Fixpoint remove_nth {A} (n : nat) (l : list A) : option (A * list A) :=
  match l, n with
  | [], _ => None
  | x :: r, O => Some (x, r)
  | x :: r, S k => match remove_nth k r with Some (y, r') => Some (y, x :: r') | None => None end
  end.

Definition recycle (st : est) (i : nat) : option (est * Z) :=
  let n := length (pages st) in
  if (i =? 0)%nat || (S i =? n)%nat then (match pages st with [] => None | _ => Some (st, -1) end) else
  if (i <? n)%nat then
    match remove_nth i (pages st) with
    | None => None
    | Some (p, pg) =>
      Some ({| pages := pg; spare := spare st ++ [p]; fc := fc st; fl := fl st; bc := bc st; bl := bl st;
               used := used st; cap := cap st; avg := avg st; nalloc := nalloc st |}, 0)
    end
  else
    match remove_nth (i - n) (spare st) with
    | None => None
    | Some (p, sp) =>
      Some ({| pages := pages st; spare := sp ++ [p]; fc := fc st; fl := fl st; bc := bc st; bl := bl st;
               used := used st; cap := cap st; avg := avg st; nalloc := nalloc st |}, 0)
    end.

(* ------------------------------------------------------------------ copy-out *)
(* the pages after the front page: full pages, then the used part of the back page *)
Fixpoint copy_rest (pg : list page) (back_left : Z) : option (list Z) :=
  match pg with
  | [] => None
  | [b] => rd (pdata b) 0 (P - back_left)
  | p :: r => match rd (pdata p) 0 P, copy_rest r back_left with
              | Some x, Some y => Some (x ++ y)
              | _, _ => None
              end
  end.

Inductive cres :=
| CNull                              (* returns 0, nothing written *)
| CBytes (out : list Z) (ret : Z)    (* bytes written from buf[0] on; returned pointer - buf *)
| COob.                              (* a read outside a page *)

(* flatcc_emitter_copy_buffer as the C source has it: `buf` is advanced while copying and then returned *)
Definition copy_buffer_c (st : est) (size : Z) : cres :=
  if size <? used st then CNull else
  match pages st with
  | [] => CNull
  | [f] => match rd (pdata f) (fc st) (used st) with Some x => CBytes x 0 | None => COob end
  | f :: rest =>
    let len := P - fl st in
    match rd (pdata f) (fc st) len, copy_rest rest (bl st) with
    | Some x, Some y => CBytes (x ++ y) (len + P * (zlen rest - 1))
    | _, _ => COob
    end
  end.

(* what the header documents ("the input buffer is returned"): same bytes, the caller's pointer *)
Definition copy_buffer (st : est) (size : Z) : cres :=
  match copy_buffer_c st size with
  | CBytes x _ => CBytes x 0
  | r => r
  end.

Inductive dres := DNull | DBytes (out : list Z) | DOob.

(* flatcc_emitter_get_direct_buffer: (pointer as the bytes it points at, *size_out) *)
Definition direct_buffer (st : est) : dres * Z :=
  match pages st with
  | [] => (DNull, used st)           (* front == back == NULL: returns the null front_cursor, size = used = 0 *)
  | [f] => (match rd (pdata f) (fc st) (used st) with Some x => DBytes x | None => DOob end, used st)
  | _ => (DNull, 0)
  end.

Definition buffer_size (st : est) : Z := used st.

(* ------------------------------------------------------------------ abstraction *)
(* the emitted byte string in address order: from the front cursor to the back cursor across the pages in use *)
Definition abs (st : est) : list Z :=
  firstn (Z.to_nat (zlen (pages st) * P - fc st - bl st))
         (skipn (Z.to_nat (fc st)) (concat (map pdata (pages st)))).

(* virtual address of the first byte (page_offset of the front page + cursor index) and one past the last *)
Definition start_off (st : est) : Z :=
  match pages st with [] => 0 | f :: _ => poff f + fc st end.
Definition end_off (st : est) : Z :=
  match pages st with [] => 0 | _ => last_off (pages st) 0 + bc st end.

(* ------------------------------------------------------------------ histories *)
Inductive op :=
| Emit (iov : list (list Z)) (offset len : Z)
| Reset (keep : nat)          (* keep = number of spare pages the reset retains (oracle) *)
| RecycleSpare (i : nat).     (* recycle the i-th page after E->back (a page not in use) *)

Definition step (st : est) (o : op) : option est :=
  match o with
  | Emit iov off len => emitter st iov off len
  | Reset k => Some (reset k st)
  | RecycleSpare i => match recycle st (length (pages st) + i) with Some (st', _) => Some st' | None => None end
  end.

Fixpoint run (st : est) (h : list op) : option est :=
  match h with
  | [] => Some st
  | o :: r => match step st o with None => None | Some st' => run st' r end
  end.

End Emitter.

(* the abstract double-ended stream a history describes: (bytes in address order, address of the first byte) *)
Definition spec_step (s : list Z * Z) (o : op) : list Z * Z :=
  match o with
  | Emit iov off len => if off <? 0 then (concat iov ++ fst s, snd s - len) else (fst s ++ concat iov, snd s)
  | Reset _ => ([], 0)
  | RecycleSpare _ => s
  end.
Definition spec (h : list op) : list Z * Z := fold_left spec_step h ([], 0).

(* every emit call states the length of its pieces (C12 part B proves the builder does) *)
Definition wf_op (o : op) : Prop :=
  match o with Emit iov _ len => len = zlen (concat iov) | _ => True end.
