(* C12 part A: refinement of the page ring (Emitter/EmitterModel.v) to a double-ended byte stream. *)
From Flatcc.Emitter Require Export EmitterLists.
From Flatcc.Generated Require Export Consts.
Local Open Scope Z_scope.

(* page_offset of consecutive pages in use differ by the page size *)
Fixpoint chain (P o : Z) (l : list Z) : Prop :=
  match l with [] => True | x :: r => x = o /\ chain P (o + P) r end.

Lemma chain_app P o l x : chain P o (l ++ [x]) <-> chain P o l /\ x = o + P * zlen l.
Proof.
  revert o. induction l as [|y l IH]; intros o; simpl.
  - rewrite zlen_nil. split; [intros [-> _]; split; [auto|lia] | intros [_ ->]; split; [lia|auto]].
  - rewrite IH, zlen_cons. split; intros H; repeat split; try tauto; destruct H as [[? ?] ?] || destruct H as [? [? ?]]; lia.
Qed.


Section Proofs.
Variable P : Z.
Variable alloc : nat -> option (list Z).
Hypothesis HP : 2 <= P.

Definition pages_ok (pg : list page) : Prop := Forall (fun p => zlen (pdata p) = P) pg.
Definition alloc_fails : Prop := exists n, alloc n = None.

Record Inv_core (st : est) (fs bs : list Z) : Prop := {
  ic_pages : pages_ok (pages st);
  ic_spare : pages_ok (spare st);
  ic_fcfl : fc st = fl st;
  ic_cat : exists A B, concat (map pdata (pages st)) = A ++ (fs ++ bs) ++ B /\ zlen A = fc st /\ zlen B = bl st;
  ic_nil : pages st = [] -> bc st = 0 /\ spare st = [];
  ic_cons : pages st <> [] -> bc st = P - bl st /\ fc st <= P /\ bl st <= P;
  ic_chain : exists o, chain P o (map poff (pages st)) /\ o + fc st = - zlen fs;
  ic_cap : cap st = P * (zlen (pages st) + zlen (spare st))
}.

Lemma nil_cat (A s B : list Z) : [] = A ++ s ++ B -> A = [] /\ s = [] /\ B = [].
Proof.
  intros H. symmetry in H. apply app_eq_nil in H. destruct H as [-> H]. apply app_eq_nil in H. tauto.
Qed.

(* ------------------------------------------------------------------ a write below the front cursor *)
Lemma front_write st fs bs c : Inv_core st fs bs -> zlen c <= fl st ->
  exists pg, put_head (pages st) (fc st - zlen c) c = Some pg /\
             Inv_core (set_front st pg (fc st - zlen c) (fl st - zlen c)) (c ++ fs) bs.
Proof.
  intros [Hpg Hsp Hfl (A & B & Hcat & HA & HB) Hnil Hcons (o & Hch & Ho) Hcap] Hk.
  pose proof (zlen_nonneg c) as Hc0.
  destruct (pages st) as [|f rest] eqn:Epg.
  - simpl in Hcat. apply nil_cat in Hcat. destruct Hcat as (-> & Hs & ->).
    apply app_eq_nil in Hs. destruct Hs as [-> ->].
    change (zlen (@nil Z)) with 0 in *. assert (Hc : zlen c = 0) by lia. pose proof (zlen_0_nil _ Hc) as ->.
    exists []. split; [reflexivity|].
    constructor; cbn [set_front pages spare fc fl bc bl cap].
    + constructor.
    + assumption.
    + lia.
    + exists [], []. change (zlen (@nil Z)) with 0. simpl. repeat split; lia.
    + intros _. apply Hnil; reflexivity.
    + intros; congruence.
    + exists o. simpl. change (zlen (@nil Z)) with 0 in *. split; [auto|lia].
    + rewrite Hcap. reflexivity.
  - simpl in Hcat. inversion Hpg as [|? ? Hf Hrest]; subst.
    destruct (Hcons ltac:(discriminate)) as (Hbc & HfcP & HblP).
    destruct (app_prefix_split _ _ _ _ Hcat) as (X & HfX & HX). { lia. }
    destruct (split_at A (fc st - zlen c)) as (A1 & A2 & -> & HA1). { lia. }
    rewrite zlen_app in HA.
    rewrite <- app_assoc in HfX.
    cbn [put_head]. rewrite HfX. rewrite (put_mid A1 A2 X c) by (try apply zlen_length; lia).
    eexists; split; [reflexivity|].
    constructor; cbn [set_front pages spare fc fl bc bl cap].
    + constructor; [|assumption]. cbn [pdata]. rewrite HfX in Hf. rewrite !zlen_app in *. lia.
    + assumption.
    + lia.
    + exists A1, B. cbn [map concat pdata]. repeat split; [|lia|lia].
      rewrite <- !app_assoc. do 2 f_equal. rewrite <- !app_assoc in HX. symmetry; exact HX.
    + intros; discriminate.
    + intros _. repeat split; lia.
    + exists o. cbn [map poff]. split; [exact Hch|]. rewrite zlen_app. lia.
    + rewrite Hcap. rewrite !zlen_cons. reflexivity.
Qed.

Lemma concat_snoc (init : list page) (b : page) :
  concat (map pdata (init ++ [b])) = concat (map pdata init) ++ pdata b.
Proof. rewrite map_app, concat_app. simpl. rewrite app_nil_r. reflexivity. Qed.

Lemma put_last_snoc init b i c :
  put_last (init ++ [b]) i c =
  match put (pdata b) i c with Some d => Some (init ++ [{| pdata := d; poff := poff b |}]) | None => None end.
Proof.
  induction init as [|p r IH].
  - reflexivity.
  - change ((p :: r) ++ [b]) with (p :: (r ++ [b])). cbn [put_last].
    destruct (r ++ [b]) as [|q t] eqn:E. { destruct r; discriminate. }
    rewrite IH. destruct (put (pdata b) i c); reflexivity.
Qed.

(* ------------------------------------------------------------------ a write above the back cursor *)
Lemma back_write st fs bs c : Inv_core st fs bs -> zlen c <= bl st ->
  exists pg, put_last (pages st) (bc st) c = Some pg /\
             Inv_core (set_back st pg (bc st + zlen c) (bl st - zlen c)) fs (bs ++ c).
Proof.
  intros [Hpg Hsp Hfl (A & B & Hcat & HA & HB) Hnil Hcons (o & Hch & Ho) Hcap] Hk.
  pose proof (zlen_nonneg c) as Hc0.
  destruct (pages st) as [|f0 rest0] eqn:Epg.
  - simpl in Hcat. apply nil_cat in Hcat. destruct Hcat as (-> & Hs & ->).
    apply app_eq_nil in Hs. destruct Hs as [-> ->].
    change (zlen (@nil Z)) with 0 in *. assert (Hc : zlen c = 0) by lia. pose proof (zlen_0_nil _ Hc) as ->.
    exists []. split; [reflexivity|].
    constructor; cbn [set_back pages spare fc fl bc bl cap].
    + constructor.
    + assumption.
    + lia.
    + exists [], []. change (zlen (@nil Z)) with 0. simpl. repeat split; lia.
    + intros _. destruct (Hnil eq_refl) as [-> ->]. change (zlen (@nil Z)) with 0. split; [lia|reflexivity].
    + intros; congruence.
    + exists o. simpl. split; [auto|lia].
    + rewrite Hcap. reflexivity.
  - destruct (Hcons ltac:(discriminate)) as (Hbc & HfcP & HblP).
    destruct (@exists_last _ (f0 :: rest0) ltac:(discriminate)) as (init & b & Elast).
    rewrite Elast in *. clear Elast f0 rest0.
    rewrite concat_snoc in Hcat.
    apply Forall_app in Hpg. destruct Hpg as [Hinit Hb]. pose proof (Forall_inv Hb) as Hbl. cbv beta in Hbl.
    rewrite (app_assoc A (fs ++ bs) B) in Hcat.
    destruct (app_suffix_split _ _ _ _ Hcat) as (Y & HbY & HY). { lia. }
    destruct (split_at B (zlen c)) as (B1 & B2 & -> & HB1). { lia. }
    rewrite zlen_app in HB.
    assert (HYl : zlen Y = bc st). { rewrite HbY in Hbl. rewrite !zlen_app in Hbl. lia. }
    rewrite put_last_snoc. rewrite HbY. rewrite (put_mid Y B1 B2 c) by (try apply zlen_length; lia).
    eexists; split; [reflexivity|].
    constructor; cbn [set_back pages spare fc fl bc bl cap].
    + apply Forall_app. split; [assumption|]. constructor; [|constructor]. cbn [pdata].
      rewrite HbY in Hbl. rewrite !zlen_app in *. lia.
    + assumption.
    + assumption.
    + exists A, B2. rewrite concat_snoc. cbn [pdata]. repeat split; [|lia|lia].
      rewrite (app_assoc (concat (map pdata init)) Y), <- HY. rewrite <- !app_assoc. reflexivity.
    + intros H. destruct init; discriminate.
    + intros _. repeat split; lia.
    + exists o. rewrite map_app in *. cbn [map poff] in *. split; [exact Hch|exact Ho].
    + rewrite Hcap. rewrite !zlen_app. reflexivity.
Qed.

(* ------------------------------------------------------------------ page advance *)
Lemma unsnoc_some {A} (l i : list A) y : unsnoc l = Some (i, y) -> l = i ++ [y].
Proof.
  revert i y. induction l as [|x r IH]; intros i y; simpl; [discriminate|].
  destruct (unsnoc r) as [[i' y']|] eqn:E.
  - intros H; some_inj H. injection H as <- <-. rewrite (IH _ _ eq_refl). reflexivity.
  - intros H; some_inj H. injection H as <- <-. destruct r as [|z r]; [reflexivity|].
    simpl in E. destruct (unsnoc r) as [[? ?]|]; discriminate.
Qed.
Lemma unsnoc_none {A} (l : list A) : unsnoc l = None -> l = [].
Proof. destruct l as [|x r]; [reflexivity|]. simpl. destruct (unsnoc r) as [[? ?]|]; discriminate. Qed.

Lemma fresh_len j : zlen (fresh P j) = P.
Proof.
  unfold fresh, zlen. rewrite firstn_length, app_length, repeat_length. lia.
Qed.

Lemma half_split (d : list Z) : zlen d = P ->
  exists a b, d = a ++ b /\ zlen a = P / 2 /\ zlen b = P - P / 2.
Proof.
  intros H. destruct (split_at d (P / 2)) as (a & b & -> & Ha). { lia. }
  exists a, b. rewrite zlen_app in H. repeat split; lia.
Qed.

Lemma last_off_chain pg o d : chain P o (map poff pg) -> pg <> [] ->
  last_off pg d = o + P * (zlen pg - 1).
Proof.
  revert o d. induction pg as [|p r IH]; intros o d H Hn; [congruence|].
  cbn [map chain] in H. destruct H as [Hp Hr]. cbn [last_off].
  destruct r as [|q r].
  - simpl. unfold zlen; simpl. lia.
  - rewrite (IH (o + P) (poff p) Hr ltac:(discriminate)). rewrite !zlen_cons. lia.
Qed.

Lemma first_page_ok st : Inv_core st [] [] -> pages st = [] ->
  match first_page P alloc st with
  | Some st' => Inv_core st' [] [] /\ 0 < fl st' /\ 0 < bl st' /\ used st' = used st
  | None => alloc_fails
  end.
Proof.
  intros [Hpg Hsp Hfl (A & B & Hcat & HA & HB) Hnil Hcons (o & Hch & Ho) Hcap] Epg.
  unfold first_page. destruct (alloc (nalloc st)) as [j|] eqn:Ea; [|exists (nalloc st); exact Ea].
  destruct (Hnil Epg) as [Hbc Hspn].
  destruct (half_split (fresh P j) (fresh_len j)) as (a & b & Hab & Ha & Hb).
  split; [|cbn [fl bl used]; lia].
  constructor; cbn [pages spare fc fl bc bl cap].
  - constructor; [|constructor]. apply fresh_len.
  - assumption.
  - reflexivity.
  - exists a, b. simpl. rewrite app_nil_r. auto.
  - discriminate.
  - intros _. repeat split; lia.
  - exists (- (P / 2)). simpl. change (zlen (@nil Z)) with 0. repeat split; lia.
  - rewrite Hcap, Epg, Hspn. unfold zlen; simpl. lia.
Qed.

Lemma inv_empty_nil st fs bs : Inv_core st fs bs -> pages st = [] -> fs = [] /\ bs = [].
Proof.
  intros [_ _ _ (A & B & Hcat & _) _ _ _ _] E. rewrite E in Hcat. simpl in Hcat.
  apply nil_cat in Hcat. destruct Hcat as (_ & Hs & _). apply app_eq_nil in Hs. exact Hs.
Qed.

Lemma advance_front_ok st fs bs : Inv_core st fs bs -> fl st = 0 ->
  match advance_front P alloc st with
  | Some st' => Inv_core st' fs bs /\ 0 < fl st' /\ used st' = used st
  | None => alloc_fails
  end.
Proof.
  intros I H0. unfold advance_front. destruct (pages st) as [|f rest] eqn:Epg.
  - destruct (inv_empty_nil _ _ _ I Epg) as [-> ->].
    pose proof (first_page_ok st I Epg) as H. destruct (first_page P alloc st); [|exact H]. tauto.
  - destruct I as [Hpg Hsp Hfl (A & B & Hcat & HA & HB) Hnil Hcons (o & Hch & Ho) Hcap].
    rewrite Epg in *.
    destruct (Hcons ltac:(discriminate)) as (Hbc & HfcP & HblP).
    assert (HA0 : A = []) by (apply zlen_0_nil; lia). subst A.
    cbn [map chain poff] in Hch. destruct Hch as [Hf Hch].
    destruct (unsnoc (spare st)) as [[sp p]|] eqn:Eu.
    + apply unsnoc_some in Eu. rewrite Eu in *.
      apply Forall_app in Hsp. destruct Hsp as [Hsp Hp]. pose proof (Forall_inv Hp) as Hpl. cbv beta in Hpl.
      split; [|cbn [fl used]; lia].
      constructor; cbn [pages spare fc fl bc bl cap].
      * constructor; [exact Hpl|assumption].
      * assumption.
      * reflexivity.
      * exists (pdata p), B. cbn [map concat pdata]. simpl in Hcat. rewrite Hcat. auto.
      * discriminate.
      * intros _. repeat split; lia.
      * exists (o - P). cbn [map chain poff]. replace (o - P + P) with o by lia. repeat split; try assumption; lia.
      * rewrite Hcap. rewrite !zlen_app, !zlen_cons. change (zlen (@nil page)) with 0. lia.
    + apply unsnoc_none in Eu. rewrite Eu in *.
      destruct (alloc (nalloc st)) as [j|] eqn:Ea; [|exists (nalloc st); exact Ea].
      split; [|cbn [fl used]; lia].
      constructor; cbn [pages spare fc fl bc bl cap].
      * constructor; [apply fresh_len|assumption].
      * constructor.
      * reflexivity.
      * exists (fresh P j), B. cbn [map concat pdata]. simpl in Hcat. rewrite Hcat. split; [reflexivity|]. split; [apply fresh_len|assumption].
      * discriminate.
      * intros _. repeat split; lia.
      * exists (o - P). cbn [map chain poff]. replace (o - P + P) with o by lia. repeat split; try assumption; lia.
      * rewrite Hcap. rewrite !zlen_cons. change (zlen (@nil page)) with 0. lia.
Qed.

Lemma advance_back_ok st fs bs : Inv_core st fs bs -> bl st = 0 ->
  match advance_back P alloc st with
  | Some st' => Inv_core st' fs bs /\ 0 < bl st' /\ used st' = used st
  | None => alloc_fails
  end.
Proof.
  intros I H0. unfold advance_back. destruct (pages st) as [|f rest] eqn:Epg.
  - destruct (inv_empty_nil _ _ _ I Epg) as [-> ->].
    pose proof (first_page_ok st I Epg) as H. destruct (first_page P alloc st); [|exact H]. tauto.
  - rewrite <- Epg. assert (Hne : pages st <> []) by (rewrite Epg; discriminate). clear Epg f rest.
    destruct I as [Hpg Hsp Hfl (A & B & Hcat & HA & HB) Hnil Hcons (o & Hch & Ho) Hcap].
    destruct (Hcons Hne) as (Hbc & HfcP & HblP).
    assert (HB0 : B = []) by (apply zlen_0_nil; lia). subst B.
    pose proof (last_off_chain (pages st) o 0 Hch Hne) as Hlo.
    destruct (spare st) as [|p sp] eqn:Esp.
    + destruct (alloc (nalloc st)) as [j|] eqn:Ea; [|exists (nalloc st); exact Ea].
      split; [|cbn [bl used]; lia].
      constructor; cbn [pages spare fc fl bc bl cap].
      * apply Forall_app. split; [assumption|]. constructor; [apply fresh_len|constructor].
      * constructor.
      * assumption.
      * exists A, (fresh P j). rewrite concat_snoc. cbn [pdata]. rewrite Hcat. rewrite !app_nil_r.
        split; [rewrite <- !app_assoc; reflexivity|]. split; [assumption|apply fresh_len].
      * intros H. destruct (pages st); discriminate.
      * intros _. repeat split; lia.
      * exists o. rewrite map_app. cbn [map poff]. split; [|assumption].
        apply chain_app. split; [assumption|]. rewrite Hlo. unfold zlen. rewrite map_length. lia.
      * rewrite Hcap. rewrite !zlen_app, !zlen_cons. change (zlen (@nil page)) with 0. lia.
    + pose proof (Forall_inv Hsp) as Hpl. cbv beta in Hpl. apply Forall_inv_tail in Hsp.
      split; [|cbn [bl used]; lia].
      constructor; cbn [pages spare fc fl bc bl cap].
      * apply Forall_app. split; [assumption|]. constructor; [exact Hpl|constructor].
      * assumption.
      * assumption.
      * exists A, (pdata p). rewrite concat_snoc. cbn [pdata]. rewrite Hcat. rewrite !app_nil_r.
        split; [rewrite <- !app_assoc; reflexivity|]. split; assumption.
      * intros H. destruct (pages st); discriminate.
      * intros _. repeat split; lia.
      * exists o. rewrite map_app. cbn [map poff]. split; [|assumption].
        apply chain_app. split; [assumption|]. rewrite Hlo. unfold zlen. rewrite map_length. lia.
      * rewrite Hcap. rewrite !zlen_app, !zlen_cons. change (zlen (@nil page)) with 0. lia.
Qed.

(* ------------------------------------------------------------------ piecewise writes = one write of the concatenation *)
Lemma put_nil d i d' : put d i [] = Some d' -> d' = d.
Proof.
  intros H. destruct (put_inv _ _ _ _ H) as (x & y & z & -> & _ & L & ->).
  destruct y; [reflexivity|discriminate].
Qed.

Lemma put_app d i a b d' : put d i (a ++ b) = Some d' ->
  exists d1, put d i a = Some d1 /\ put d1 (i + zlen a) b = Some d'.
Proof.
  intros H. destruct (put_inv _ _ _ _ H) as (x & y & z & -> & Hx & L & ->).
  destruct (split_at y (zlen a)) as (y1 & y2 & -> & Hy1).
  { pose proof (zlen_nonneg a). unfold zlen in *. rewrite app_length in L. lia. }
  rewrite app_length in L. rewrite app_length in L.
  exists (x ++ a ++ y2 ++ z). split.
  - rewrite <- app_assoc. apply put_mid; [assumption|]. apply zlen_length; assumption.
  - replace (x ++ a ++ y2 ++ z) with ((x ++ a) ++ y2 ++ z) by (rewrite <- app_assoc; reflexivity).
    replace (x ++ (a ++ b) ++ z) with ((x ++ a) ++ b ++ z) by (rewrite <- !app_assoc; reflexivity).
    apply put_mid; [rewrite zlen_app; lia|]. apply zlen_length in Hy1. lia.
Qed.

Lemma put_head_app pg i a b pg' : put_head pg i (a ++ b) = Some pg' ->
  exists pg1, put_head pg i a = Some pg1 /\ put_head pg1 (i + zlen a) b = Some pg'.
Proof.
  destruct pg as [|f r]; cbn [put_head].
  - rewrite zlen_app. pose proof (zlen_nonneg a) as Ha0. pose proof (zlen_nonneg b) as Hb0.
    destruct (zlen a + zlen b =? 0) eqn:E; [|discriminate]. intros H; some_inj H; subst pg'.
    exists []. cbn [put_head]. replace (zlen a =? 0) with true by lia. replace (zlen b =? 0) with true by lia. auto.
  - destruct (put (pdata f) i (a ++ b)) as [d'|] eqn:E; [|discriminate]. intros H; some_inj H; subst pg'.
    destruct (put_app _ _ _ _ _ E) as (d1 & E1 & E2). rewrite E1.
    eexists; split; [reflexivity|]. cbn [put_head pdata poff]. rewrite E2. reflexivity.
Qed.

Lemma page_eta f : {| pdata := pdata f; poff := poff f |} = f.
Proof. destruct f; reflexivity. Qed.

Lemma put_head_nil pg i pg' : put_head pg i [] = Some pg' -> pg' = pg.
Proof.
  destruct pg as [|f r]; cbn [put_head].
  - change (zlen (@nil Z) =? 0) with true. intros H; some_inj H; auto.
  - destruct (put (pdata f) i []) as [d|] eqn:E; [|discriminate]. intros H; some_inj H; subst pg'.
    apply put_nil in E. subst d. rewrite page_eta. reflexivity.
Qed.

Lemma write_head_concat iov : forall pg pos pg',
  put_head pg pos (concat iov) = Some pg' -> write_head pg pos iov = Some pg'.
Proof.
  induction iov as [|c r IH]; intros pg pos pg' H; cbn [concat write_head] in *.
  - apply put_head_nil in H. subst; reflexivity.
  - destruct (put_head_app _ _ _ _ _ H) as (pg1 & H1 & H2). rewrite H1. apply IH; assumption.
Qed.

Lemma list_nil_or_snoc {A} (l : list A) : l = [] \/ exists i b, l = i ++ [b].
Proof.
  destruct l as [|x r]; [left; reflexivity|right].
  destruct (@exists_last _ (x :: r) ltac:(discriminate)) as (i & b & E). exists i, b; exact E.
Qed.

Lemma put_last_app pg i a b pg' : put_last pg i (a ++ b) = Some pg' ->
  exists pg1, put_last pg i a = Some pg1 /\ put_last pg1 (i + zlen a) b = Some pg'.
Proof.
  destruct (list_nil_or_snoc pg) as [->|(init & l & ->)].
  - cbn [put_last]. rewrite zlen_app. pose proof (zlen_nonneg a) as Ha0. pose proof (zlen_nonneg b) as Hb0.
    destruct (zlen a + zlen b =? 0) eqn:E; [|discriminate]. intros H; some_inj H; subst pg'.
    exists []. cbn [put_last]. replace (zlen a =? 0) with true by lia. replace (zlen b =? 0) with true by lia. auto.
  - rewrite !put_last_snoc.
    destruct (put (pdata l) i (a ++ b)) as [d'|] eqn:E; [|discriminate]. intros H; some_inj H; subst pg'.
    destruct (put_app _ _ _ _ _ E) as (d1 & E1 & E2). rewrite E1.
    eexists; split; [reflexivity|]. rewrite put_last_snoc. cbn [pdata poff]. rewrite E2. reflexivity.
Qed.

Lemma put_last_nil pg i pg' : put_last pg i [] = Some pg' -> pg' = pg.
Proof.
  destruct (list_nil_or_snoc pg) as [->|(init & l & ->)].
  - cbn [put_last]. change (zlen (@nil Z) =? 0) with true. intros H; some_inj H; auto.
  - rewrite put_last_snoc. destruct (put (pdata l) i []) as [d|] eqn:E; [|discriminate]. intros H; some_inj H; subst pg'.
    apply put_nil in E. subst d. rewrite page_eta. reflexivity.
Qed.

Lemma write_last_concat iov : forall pg pos pg',
  put_last pg pos (concat iov) = Some pg' -> write_last pg pos iov = Some pg'.
Proof.
  induction iov as [|c r IH]; intros pg pos pg' H; cbn [concat write_last] in *.
  - apply put_last_nil in H. subst; reflexivity.
  - destruct (put_last_app _ _ _ _ _ H) as (pg1 & H1 & H2). rewrite H1. apply IH; assumption.
Qed.

(* ------------------------------------------------------------------ copy_front / copy_back *)
Lemma inv_fl_nonneg st fs bs : Inv_core st fs bs -> 0 <= fl st /\ 0 <= bl st.
Proof.
  intros [_ _ Hfl (A & B & _ & HA & HB) _ _ _ _]. pose proof (zlen_nonneg A). pose proof (zlen_nonneg B). lia.
Qed.

Lemma zlen_skipn (l : list Z) n : 0 <= n <= zlen l -> zlen (skipn (Z.to_nat n) l) = zlen l - n.
Proof. intros H. unfold zlen in *. rewrite skipn_length. lia. Qed.
Lemma zlen_firstn (l : list Z) n : 0 <= n <= zlen l -> zlen (firstn (Z.to_nat n) l) = n.
Proof. intros H. unfold zlen in *. rewrite firstn_length. lia. Qed.

Lemma copy_front_f_ok : forall fuel st data fs bs, Inv_core st fs bs ->
  (2 * length data + (if (fl st =? 0)%Z then 1 else 0) + 1 <= fuel)%nat ->
  match copy_front_f P alloc fuel st data with
  | Some st' => Inv_core st' (data ++ fs) bs /\ used st' = used st
  | None => alloc_fails
  end.
Proof.
  induction fuel as [|fuel IH]; intros st data fs bs I Hf; [lia|].
  cbn [copy_front_f]. pose proof (zlen_nonneg data) as Hd0.
  destruct (zlen data =? 0) eqn:E0.
  - assert (data = []) by (apply zlen_0_nil; lia). subst data. split; [exact I|reflexivity].
  - destruct (inv_fl_nonneg _ _ _ I) as [Hfl0 _].
    destruct ((fl st <? zlen data) && (fl st =? 0)) eqn:E1.
    + assert (Hz : fl st = 0) by lia.
      pose proof (advance_front_ok st fs bs I Hz) as Ha.
      destruct (advance_front P alloc st) as [st1|]; [|exact Ha].
      destruct Ha as (I1 & Hpos & Hu).
      assert (Hb : (2 * length data + (if (fl st1 =? 0)%Z then 1 else 0) + 1 <= fuel)%nat).
      { replace (fl st1 =? 0) with false by lia. replace (fl st =? 0) with true in Hf by lia. lia. }
      pose proof (IH st1 data fs bs I1 Hb) as H. destruct (copy_front_f P alloc fuel st1 data); [|exact H].
      destruct H; split; [assumption|lia].
    + set (k := if fl st <? zlen data then fl st else zlen data).
      assert (Hk : 1 <= k <= zlen data /\ k <= fl st) by (unfold k; destruct (fl st <? zlen data) eqn:?; lia).
      set (chunk := skipn (Z.to_nat (zlen data - k)) data).
      assert (Hcl : zlen chunk = k) by (unfold chunk; rewrite zlen_skipn; lia).
      destruct (front_write st fs bs chunk I ltac:(lia)) as (pg & Hput & I2).
      rewrite Hcl in Hput, I2. rewrite Hput.
      set (data' := firstn (Z.to_nat (zlen data - k)) data) in *.
      assert (Hdl : zlen data' = zlen data - k) by (unfold data'; rewrite zlen_firstn; lia).
      assert (Hb : (2 * length data' + (if (fl (set_front st pg (fc st - k) (fl st - k)) =? 0)%Z then 1 else 0) + 1 <= fuel)%nat).
      { unfold zlen in Hdl, Hk. destruct (fl (set_front st pg (fc st - k) (fl st - k)) =? 0); destruct (fl st =? 0); lia. }
      pose proof (IH _ data' _ bs I2 Hb) as H.
      destruct (copy_front_f P alloc fuel (set_front st pg (fc st - k) (fl st - k)) data'); [|exact H].
      destruct H as [H Hu]. split; [|exact Hu].
      rewrite app_assoc in H. unfold data', chunk in H. rewrite firstn_skipn in H. exact H.
Qed.

Lemma copy_front_ok st data fs bs : Inv_core st fs bs ->
  match copy_front P alloc st data with
  | Some st' => Inv_core st' (data ++ fs) bs /\ used st' = used st
  | None => alloc_fails
  end.
Proof. intros I. apply copy_front_f_ok; [exact I|]. destruct (fl st =? 0); lia. Qed.

Lemma copy_back_f_ok : forall fuel st data fs bs, Inv_core st fs bs ->
  (2 * length data + (if (bl st =? 0)%Z then 1 else 0) + 1 <= fuel)%nat ->
  match copy_back_f P alloc fuel st data with
  | Some st' => Inv_core st' fs (bs ++ data) /\ used st' = used st
  | None => alloc_fails
  end.
Proof.
  induction fuel as [|fuel IH]; intros st data fs bs I Hf; [lia|].
  cbn [copy_back_f]. pose proof (zlen_nonneg data) as Hd0.
  destruct (zlen data =? 0) eqn:E0.
  - assert (data = []) by (apply zlen_0_nil; lia). subst data. rewrite app_nil_r. split; [exact I|reflexivity].
  - destruct (inv_fl_nonneg _ _ _ I) as [_ Hbl0].
    destruct ((bl st <? zlen data) && (bl st =? 0)) eqn:E1.
    + assert (Hz : bl st = 0) by lia.
      pose proof (advance_back_ok st fs bs I Hz) as Ha.
      destruct (advance_back P alloc st) as [st1|]; [|exact Ha].
      destruct Ha as (I1 & Hpos & Hu).
      assert (Hb : (2 * length data + (if (bl st1 =? 0)%Z then 1 else 0) + 1 <= fuel)%nat).
      { replace (bl st1 =? 0) with false by lia. replace (bl st =? 0) with true in Hf by lia. lia. }
      pose proof (IH st1 data fs bs I1 Hb) as H. destruct (copy_back_f P alloc fuel st1 data); [|exact H].
      destruct H; split; [assumption|lia].
    + set (k := if bl st <? zlen data then bl st else zlen data).
      assert (Hk : 1 <= k <= zlen data /\ k <= bl st) by (unfold k; destruct (bl st <? zlen data) eqn:?; lia).
      set (chunk := firstn (Z.to_nat k) data).
      assert (Hcl : zlen chunk = k) by (unfold chunk; rewrite zlen_firstn; lia).
      destruct (back_write st fs bs chunk I ltac:(lia)) as (pg & Hput & I2).
      rewrite Hcl in I2. fold chunk. rewrite Hput.
      set (data' := skipn (Z.to_nat k) data) in *.
      assert (Hdl : zlen data' = zlen data - k) by (unfold data'; rewrite zlen_skipn; lia).
      assert (Hb : (2 * length data' + (if (bl (set_back st pg (bc st + k) (bl st - k)) =? 0)%Z then 1 else 0) + 1 <= fuel)%nat).
      { unfold zlen in Hdl, Hk. destruct (bl (set_back st pg (bc st + k) (bl st - k)) =? 0); destruct (bl st =? 0); lia. }
      pose proof (IH _ data' fs _ I2 Hb) as H.
      destruct (copy_back_f P alloc fuel (set_back st pg (bc st + k) (bl st - k)) data'); [|exact H].
      destruct H as [H Hu]. split; [|exact Hu].
      rewrite <- app_assoc in H. unfold data', chunk in H. rewrite firstn_skipn in H. exact H.
Qed.

Lemma copy_back_ok st data fs bs : Inv_core st fs bs ->
  match copy_back P alloc st data with
  | Some st' => Inv_core st' fs (bs ++ data) /\ used st' = used st
  | None => alloc_fails
  end.
Proof. intros I. apply copy_back_f_ok; [exact I|]. destruct (bl st =? 0); lia. Qed.

Lemma copy_front_all_ok : forall r st fs bs, Inv_core st fs bs ->
  match copy_front_all P alloc st r with
  | Some st' => Inv_core st' (concat (rev r) ++ fs) bs /\ used st' = used st
  | None => alloc_fails
  end.
Proof.
  induction r as [|d r IH]; intros st fs bs I; cbn [copy_front_all].
  - split; [exact I|reflexivity].
  - pose proof (copy_front_ok st d fs bs I) as H. destruct (copy_front P alloc st d) as [st1|]; [|exact H].
    destruct H as [I1 Hu]. pose proof (IH st1 _ bs I1) as H. destruct (copy_front_all P alloc st1 r); [|exact H].
    destruct H as [H Hu2]. split; [|lia].
    cbn [rev]. rewrite concat_app. cbn [concat]. rewrite app_nil_r, <- app_assoc. exact H.
Qed.

Lemma copy_back_all_ok : forall r st fs bs, Inv_core st fs bs ->
  match copy_back_all P alloc st r with
  | Some st' => Inv_core st' fs (bs ++ concat r) /\ used st' = used st
  | None => alloc_fails
  end.
Proof.
  induction r as [|d r IH]; intros st fs bs I; cbn [copy_back_all].
  - cbn [concat]. rewrite app_nil_r. split; [exact I|reflexivity].
  - pose proof (copy_back_ok st d fs bs I) as H. destruct (copy_back P alloc st d) as [st1|]; [|exact H].
    destruct H as [I1 Hu]. pose proof (IH st1 fs _ I1) as H. destruct (copy_back_all P alloc st1 r); [|exact H].
    destruct H as [H Hu2]. split; [|lia].
    cbn [concat]. rewrite app_assoc. exact H.
Qed.

(* ------------------------------------------------------------------ flatcc_emitter *)
Lemma inv_set_used st u fs bs : Inv_core st fs bs -> Inv_core (set_used st u) fs bs.
Proof. intros [? ? ? ? ? ? ? ?]. constructor; cbn [set_used pages spare fc fl bc bl cap]; assumption. Qed.

Lemma emitter_ok st iov off len fs bs : Inv_core st fs bs -> len = zlen (concat iov) ->
  match emitter P alloc st iov off len with
  | Some st' => (if off <? 0 then Inv_core st' (concat iov ++ fs) bs else Inv_core st' fs (bs ++ concat iov))
                /\ used st' = used st + len
  | None => alloc_fails
  end.
Proof.
  intros I ->. unfold emitter.
  pose proof (inv_set_used st (used st + zlen (concat iov)) fs bs I) as I0.
  set (st0 := set_used st (used st + zlen (concat iov))) in *.
  assert (Hu0 : used st0 = used st + zlen (concat iov)) by reflexivity.
  destruct (off <? 0).
  - destruct (zlen (concat iov) <=? fl st0) eqn:E.
    + destruct (front_write st0 fs bs (concat iov) I0 ltac:(lia)) as (pg & Hput & I2).
      rewrite (write_head_concat _ _ _ _ Hput). split; [exact I2|exact Hu0].
    + pose proof (copy_front_all_ok (rev iov) st0 fs bs I0) as H.
      destruct (copy_front_all P alloc st0 (rev iov)); [|exact H].
      rewrite rev_involutive in H. destruct H; split; [assumption|lia].
  - destruct (zlen (concat iov) <=? bl st0) eqn:E.
    + destruct (back_write st0 fs bs (concat iov) I0 ltac:(lia)) as (pg & Hput & I2).
      rewrite (write_last_concat _ _ _ _ Hput). split; [exact I2|exact Hu0].
    + pose proof (copy_back_all_ok iov st0 fs bs I0) as H.
      destruct (copy_back_all P alloc st0 iov); [|exact H].
      destruct H; split; [assumption|lia].
Qed.

(* ------------------------------------------------------------------ reset / recycle *)
Lemma firstn_pages_ok n (l : list page) : pages_ok l -> pages_ok (firstn n l).
Proof.
  revert l. induction n as [|n IH]; intros [|x l] H; simpl; try constructor.
  - exact (Forall_inv H).
  - apply IH. exact (Forall_inv_tail H).
Qed.

Lemma reset_ok keep st fs bs : Inv_core st fs bs ->
  Inv_core (reset P keep st) [] [] /\ (pages st <> [] -> used (reset P keep st) = 0).
Proof.
  intros I. unfold reset. destruct (pages st) as [|f rest] eqn:Epg.
  - destruct (inv_empty_nil _ _ _ I Epg) as [-> ->]. split; [apply inv_set_used; exact I|congruence].
  - split; [|reflexivity].
    destruct I as [Hpg Hsp Hfl (A & B & Hcat & HA & HB) Hnil Hcons (o & Hch & Ho) Hcap].
    rewrite Epg in *.
    pose proof (Forall_inv Hpg) as Hf. cbv beta in Hf. apply Forall_inv_tail in Hpg.
    assert (Hring : pages_ok (rest ++ spare st)) by (apply Forall_app; split; assumption).
    destruct (half_split (pdata f) Hf) as (a & b & Hab & Ha & Hb).
    constructor; cbn [pages spare fc fl bc bl cap].
    + constructor; [exact Hf|constructor].
    + apply firstn_pages_ok. exact Hring.
    + reflexivity.
    + exists a, b. simpl. rewrite app_nil_r. auto.
    + discriminate.
    + intros _. repeat split; lia.
    + exists (- (P / 2)). simpl. change (zlen (@nil Z)) with 0. repeat split; lia.
    + rewrite zlen_cons. change (zlen (@nil page)) with 0. lia.
Qed.

Lemma remove_nth_ok {A} (Q : A -> Prop) : forall i (l : list A) p r, remove_nth i l = Some (p, r) ->
  Forall Q l -> (Q p /\ Forall Q r) /\ zlen l = 1 + zlen r.
Proof.
  induction i as [|i IH]; intros [|x l] p r H F; cbn [remove_nth] in H; try discriminate.
  - some_inj H. injection H as <- <-. split; [split; [exact (Forall_inv F)|exact (Forall_inv_tail F)]|apply zlen_cons].
  - destruct (remove_nth i l) as [[y r']|] eqn:E; [|discriminate]. some_inj H. injection H as <- <-.
    destruct (IH _ _ _ E (Forall_inv_tail F)) as [[Hy Hr] Hl].
    split; [split; [exact Hy|constructor; [exact (Forall_inv F)|exact Hr]]|]. rewrite !zlen_cons. lia.
Qed.

Lemma recycle_spare_ok st i st' r fs bs : Inv_core st fs bs ->
  recycle st (length (pages st) + i) = Some (st', r) -> Inv_core st' fs bs /\ used st' = used st.
Proof.
  intros I. unfold recycle.
  destruct (((length (pages st) + i =? 0)%nat || (S (length (pages st) + i) =? length (pages st))%nat)) eqn:E0.
  - destruct (pages st) eqn:Epg; [discriminate|].
    intros H; some_inj H. injection H as <- <-. split; [exact I|reflexivity].
  - replace ((length (pages st) + i <? length (pages st))%nat) with false
      by (symmetry; apply Nat.ltb_ge; lia).
    replace (length (pages st) + i - length (pages st))%nat with i by lia.
    destruct (remove_nth i (spare st)) as [[p sp]|] eqn:E; [|discriminate].
    intros H; some_inj H. injection H as <- <-. split; [|reflexivity].
    destruct I as [Hpg Hsp Hfl Hcat Hnil Hcons Hch Hcap].
    destruct (remove_nth_ok (fun p => zlen (pdata p) = P) _ _ _ _ E Hsp) as [[Hp Hsp'] Hl].
    constructor; cbn [pages spare fc fl bc bl cap]; try assumption.
    + apply Forall_app. split; [exact Hsp'|constructor; [exact Hp|constructor]].
    + intros Hn. destruct (Hnil Hn) as [_ Hs]. rewrite Hs in E. destruct i; discriminate.
    + rewrite Hcap, Hl, zlen_app, zlen_cons. change (zlen (@nil page)) with 0. lia.
Qed.

(* ------------------------------------------------------------------ abstraction *)
Lemma concat_pages_len pg : pages_ok pg -> zlen (concat (map pdata pg)) = P * zlen pg.
Proof.
  induction pg as [|p r IH]; intros H.
  - simpl. change (zlen (@nil Z)) with 0. change (zlen (@nil page)) with 0. lia.
  - cbn [map concat]. rewrite zlen_app, zlen_cons, (IH (Forall_inv_tail H)).
    pose proof (Forall_inv H) as Hp. cbv beta in Hp. lia.
Qed.

Lemma abs_ok st fs bs : Inv_core st fs bs -> abs P st = fs ++ bs.
Proof.
  intros [Hpg _ _ (A & B & Hcat & HA & HB) _ _ _ _]. unfold abs.
  pose proof (concat_pages_len _ Hpg) as Hl. rewrite Hcat in *. rewrite !zlen_app in Hl.
  rewrite skipn_app_exact by (unfold zlen in HA; lia).
  apply firstn_app_exact. rewrite app_length. unfold zlen in *. lia.
Qed.

Lemma start_ok st fs bs : Inv_core st fs bs -> start_off st = - zlen fs.
Proof.
  intros I. unfold start_off. destruct (pages st) as [|f r] eqn:E.
  - destruct (inv_empty_nil _ _ _ I E) as [-> _]. reflexivity.
  - destruct I as [_ _ _ _ _ _ (o & Hch & Ho) _]. rewrite E in Hch. cbn [map chain] in Hch. destruct Hch as [-> _]. exact Ho.
Qed.

Lemma end_ok st fs bs : Inv_core st fs bs -> end_off st = zlen bs.
Proof.
  intros I. unfold end_off. destruct (pages st) as [|f r] eqn:E.
  - destruct (inv_empty_nil _ _ _ I E) as [_ ->]. reflexivity.
  - rewrite <- E. assert (Hne : pages st <> []) by (rewrite E; discriminate).
    destruct I as [Hpg _ Hfl (A & B & Hcat & HA & HB) _ Hcons (o & Hch & Ho) _].
    destruct (Hcons Hne) as (Hbc & _ & _).
    rewrite (last_off_chain _ o 0 Hch Hne).
    pose proof (concat_pages_len _ Hpg) as Hl. rewrite Hcat in Hl. rewrite !zlen_app in Hl. lia.
Qed.

(* ------------------------------------------------------------------ copy-out *)
Definition Inv (st : est) (fs bs : list Z) : Prop := Inv_core st fs bs /\ used st = zlen fs + zlen bs.

Lemma rd_all d n : zlen d = n -> rd d 0 n = Some d.
Proof.
  intros H. pose proof (rd_mid [] d [] 0 n eq_refl H) as R. simpl in R. rewrite app_nil_r in R. exact R.
Qed.

Lemma copy_rest_ok : forall rest bleft s' B, rest <> [] -> pages_ok rest -> zlen B = bleft -> bleft <= P ->
  concat (map pdata rest) = s' ++ B -> copy_rest P rest bleft = Some s'.
Proof.
  induction rest as [|p r IH]; intros bleft s' B Hne Hok HB HblP Hcat; [congruence|].
  pose proof (Forall_inv Hok) as Hp. cbv beta in Hp.
  destruct r as [|q r].
  - cbn [copy_rest]. simpl in Hcat. rewrite app_nil_r in Hcat. rewrite Hcat.
    pose proof (rd_mid [] s' B 0 (P - bleft) eq_refl) as R. simpl in R. apply R.
    rewrite Hcat, zlen_app in Hp. lia.
  - change (copy_rest P (p :: q :: r) bleft) with
      (match rd (pdata p) 0 P, copy_rest P (q :: r) bleft with Some x, Some y => Some (x ++ y) | _, _ => None end).
    cbn [map concat] in Hcat.
    pose proof (concat_pages_len _ (Forall_inv_tail Hok)) as Hl. cbn [map concat] in Hl.
    assert (Hs : zlen (pdata p) <= zlen s').
    { assert (E : zlen (pdata p ++ pdata q ++ concat (map pdata r)) = zlen (s' ++ B)) by (rewrite Hcat; reflexivity).
      rewrite !zlen_app in E. rewrite zlen_app in Hl. rewrite zlen_cons in Hl. pose proof (zlen_nonneg r). nia. }
    symmetry in Hcat. destruct (app_prefix_split _ _ _ _ Hcat Hs) as (x & -> & Hx).
    rewrite (rd_all _ _ Hp).
    rewrite (IH bleft x B ltac:(discriminate) (Forall_inv_tail Hok) HB HblP Hx). reflexivity.
Qed.

Lemma copy_buffer_c_ok st fs bs size : Inv st fs bs -> used st <= size -> pages st <> [] ->
  exists r, copy_buffer_c P st size = CBytes (fs ++ bs) r /\ (length (pages st) = 1%nat -> r = 0).
Proof.
  intros [[Hpg _ Hfl (A & B & Hcat & HA & HB) _ Hcons _ _] Hu] Hsz Hne. unfold copy_buffer_c.
  replace (size <? used st) with false by lia.
  destruct (Hcons Hne) as (_ & HfcP & HblP).
  destruct (pages st) as [|f rest] eqn:E; [congruence|].
  pose proof (Forall_inv Hpg) as Hf. cbv beta in Hf.
  destruct rest as [|q rest].
  - simpl in Hcat. rewrite app_nil_r in Hcat. rewrite Hcat.
    rewrite (rd_mid A (fs ++ bs) B (fc st) (used st) HA) by (rewrite zlen_app; lia).
    exists 0; auto.
  - cbn [map concat] in Hcat.
    destruct (app_prefix_split _ _ _ _ Hcat ltac:(lia)) as (X & HfX & HX).
    assert (HXl : zlen X = P - fl st) by (rewrite HfX, zlen_app in Hf; lia).
    pose proof (rd_mid A X [] (fc st) (P - fl st) HA HXl) as R. rewrite app_nil_r in R. rewrite <- HfX in R. rewrite R.
    (* the rest: concat (q :: rest) = s' ++ B with fs ++ bs = X ++ s' *)
    pose proof (concat_pages_len _ (Forall_inv_tail Hpg)) as Hl. cbn [map concat] in Hl.
    assert (HB2 : zlen B <= zlen (pdata q ++ concat (map pdata rest))).
    { rewrite Hl, zlen_cons. pose proof (zlen_nonneg rest). nia. }
    symmetry in HX. destruct (app_suffix_split _ _ _ _ HX HB2) as (s' & Hs' & Hs).
    rewrite (copy_rest_ok (q :: rest) (bl st) s' B ltac:(discriminate) (Forall_inv_tail Hpg) HB HblP Hs').
    rewrite Hs. eexists; split; [reflexivity|]. simpl; lia.
Qed.

Lemma copy_buffer_ok st fs bs size : Inv st fs bs -> used st <= size -> pages st <> [] ->
  copy_buffer P st size = CBytes (fs ++ bs) 0.
Proof.
  intros I Hs Hne. unfold copy_buffer. destruct (copy_buffer_c_ok st fs bs size I Hs Hne) as (r & -> & _). reflexivity.
Qed.

Lemma copy_buffer_small st size : size < used st -> copy_buffer P st size = CNull.
Proof. intros H. unfold copy_buffer, copy_buffer_c. replace (size <? used st) with true by lia. reflexivity. Qed.

Lemma direct_buffer_ok st fs bs : Inv st fs bs ->
  (length (pages st) = 1%nat -> direct_buffer st = (DBytes (fs ++ bs), zlen (fs ++ bs))) /\
  (length (pages st) <> 1%nat -> fst (direct_buffer st) = DNull).
Proof.
  intros [[Hpg _ Hfl (A & B & Hcat & HA & HB) _ _ _ _] Hu]. unfold direct_buffer.
  destruct (pages st) as [|f [|q rest]]; simpl length; split; intros H; try lia; try reflexivity.
  simpl in Hcat. rewrite app_nil_r in Hcat. rewrite Hcat.
  rewrite (rd_mid A (fs ++ bs) B (fc st) (used st) HA) by (rewrite zlen_app; lia).
  rewrite zlen_app, Hu. reflexivity.
Qed.

(* the pages in use are exactly those the stream needs *)
Lemma used_nonempty st fs bs : Inv st fs bs -> 0 < used st -> pages st <> [].
Proof.
  intros [I Hu] H E. destruct (inv_empty_nil _ _ _ I E) as [-> ->]. change (zlen (@nil Z)) with 0 in Hu. lia.
Qed.

(* ------------------------------------------------------------------ histories *)
Lemma inv_init : Inv est_init [] [].
Proof.
  split; [|reflexivity]. constructor; cbn [est_init pages spare fc fl bc bl cap].
  - constructor.
  - constructor.
  - reflexivity.
  - exists [], []. auto.
  - auto.
  - congruence.
  - exists 0. simpl. auto.
  - change (zlen (@nil page)) with 0. lia.
Qed.

Definition is_recycle (o : op) : Prop := match o with RecycleSpare _ => True | _ => False end.

Lemma step_ok st o fs bs : Inv st fs bs -> wf_op o ->
  match step P alloc st o with
  | Some st' => exists fs' bs', Inv st' fs' bs' /\ (fs' ++ bs', - zlen fs') = spec_step (fs ++ bs, - zlen fs) o
  | None => alloc_fails \/ is_recycle o
  end.
Proof.
  intros [I Hu] Hwf. destruct o as [iov off len|keep|i]; cbn [step].
  - cbn [wf_op] in Hwf. pose proof (emitter_ok st iov off len fs bs I Hwf) as H.
    destruct (emitter P alloc st iov off len) as [st'|]; [|left; exact H].
    destruct H as [H Hu']. cbn [spec_step fst snd]. destruct (off <? 0).
    + exists (concat iov ++ fs), bs. split; [split; [exact H|rewrite zlen_app; lia]|].
      rewrite <- app_assoc, zlen_app. f_equal. lia.
    + exists fs, (bs ++ concat iov). split; [split; [exact H|rewrite zlen_app; lia]|].
      rewrite <- app_assoc. reflexivity.
  - exists [], []. destruct (reset_ok keep st fs bs I) as [H Hu']. split; [|reflexivity]. split; [exact H|].
    change (zlen (@nil Z)) with 0. unfold reset in *. destruct (pages st) eqn:E.
    + reflexivity.
    + reflexivity.
  - destruct (recycle st (length (pages st) + i)) as [[st' r]|] eqn:E; [|right; exact Logic.I].
    destruct (recycle_spare_ok _ _ _ _ _ _ I E) as [H Hu']. exists fs, bs. split; [split; [exact H|lia]|reflexivity].
Qed.

Lemma run_ok : forall h st fs bs, Inv st fs bs -> Forall wf_op h ->
  match run P alloc st h with
  | Some st' => exists fs' bs', Inv st' fs' bs' /\ (fs' ++ bs', - zlen fs') = fold_left spec_step h (fs ++ bs, - zlen fs)
  | None => alloc_fails \/ Exists is_recycle h
  end.
Proof.
  induction h as [|o h IH]; intros st fs bs I Hwf; cbn [run fold_left].
  - exists fs, bs. auto.
  - pose proof (step_ok st o fs bs I (Forall_inv Hwf)) as H.
    destruct (step P alloc st o) as [st1|].
    + destruct H as (fs1 & bs1 & I1 & E1). rewrite <- E1.
      pose proof (IH st1 fs1 bs1 I1 (Forall_inv_tail Hwf)) as H2.
      destruct (run P alloc st1 h); [exact H2|]. destruct H2 as [H2|H2]; [left; exact H2|right; apply Exists_cons_tl; exact H2].
    + destruct H as [H|H]; [left; exact H|right; apply Exists_cons_hd; exact H].
Qed.

(* observable consequences of the invariant, collected *)
Lemma inv_obs st fs bs : Inv st fs bs ->
  abs P st = fs ++ bs /\ start_off st = - zlen fs /\ end_off st = zlen bs /\ used st = zlen (abs P st) /\
  cap st = P * (zlen (pages st) + zlen (spare st)).
Proof.
  intros [I Hu]. rewrite (abs_ok _ _ _ I), (start_ok _ _ _ I), (end_ok _ _ _ I), zlen_app.
  repeat split; try lia. destruct I; assumption.
Qed.

End Proofs.

(* ====================================================================== the C12 part A statements *)
Lemma page_size_ge2 P : 0 < P -> P mod 2 = 0 -> 2 <= P.
Proof. intros; lia. Qed.

Lemma reach_inv P alloc h st : 2 <= P -> Forall wf_op h -> run P alloc est_init h = Some st ->
  exists fs bs, Inv P st fs bs /\ (fs ++ bs, - zlen fs) = spec h.
Proof.
  intros HP Hwf Hr. pose proof (run_ok P alloc HP h est_init [] [] (inv_init P) Hwf) as H.
  rewrite Hr in H. exact H.
Qed.

(* a history of emit / reset / spare-page recycle calls leaves exactly the abstract stream *)
Theorem emitter_refines : forall P alloc, 0 < P -> P mod 2 = 0 ->
  forall h st, Forall wf_op h -> run P alloc est_init h = Some st ->
  abs P st = fst (spec h) /\ start_off st = snd (spec h) /\
  end_off st = snd (spec h) + zlen (fst (spec h)) /\
  used st = zlen (fst (spec h)) /\ buffer_size st = zlen (abs P st) /\
  cap st = P * (zlen (pages st) + zlen (spare st)).
Proof.
  intros P alloc H0 H2 h st Hwf Hr. pose proof (page_size_ge2 P H0 H2) as HP.
  destruct (reach_inv P alloc h st HP Hwf Hr) as (fs & bs & I & E).
  destruct (inv_obs P st fs bs I) as (Ha & Hs & He & Hu & Hc).
  rewrite <- E. cbn [fst snd]. unfold buffer_size. rewrite Ha in *. rewrite zlen_app in *. repeat split; lia || assumption.
Qed.

(* one more emit call on a reachable state: prepend at the front, append at the back *)
Theorem emitter_step_refines : forall P alloc, 0 < P -> P mod 2 = 0 ->
  forall h st iov off len st', Forall wf_op h -> run P alloc est_init h = Some st ->
  len = zlen (concat iov) -> emitter P alloc st iov off len = Some st' ->
  (off < 0 -> abs P st' = concat iov ++ abs P st /\ start_off st' = start_off st - len /\ end_off st' = end_off st) /\
  (0 <= off -> abs P st' = abs P st ++ concat iov /\ start_off st' = start_off st /\ end_off st' = end_off st + len) /\
  used st' = used st + len /\ used st' = zlen (abs P st').
Proof.
  intros P alloc H0 H2 h st iov off len st' Hwf Hr Hl He. pose proof (page_size_ge2 P H0 H2) as HP.
  destruct (reach_inv P alloc h st HP Hwf Hr) as (fs & bs & I & _).
  destruct (inv_obs P st fs bs I) as (Ha & Hs & Hen & Hu & _). destruct I as [I Hus].
  pose proof (emitter_ok P alloc HP st iov off len fs bs I Hl) as H. rewrite He in H. destruct H as [H Hu'].
  destruct (off <? 0) eqn:E.
  - rewrite (abs_ok P st' _ _ H), (start_ok P st' _ _ H), (end_ok P st' _ _ H), Ha, Hs, Hen.
    rewrite <- !app_assoc, !zlen_app. repeat split; try lia; intros; try lia; repeat split; lia.
  - rewrite (abs_ok P st' _ _ H), (start_ok P st' _ _ H), (end_ok P st' _ _ H), Ha, Hs, Hen.
    rewrite <- !app_assoc, !zlen_app. repeat split; try lia; intros; try lia; repeat split; lia.
Qed.

(* the emitter fails only when the allocator does (in particular: no write outside a page, fuel suffices) *)
Theorem emitter_total : forall P alloc, 0 < P -> P mod 2 = 0 -> (forall n, alloc n <> None) ->
  forall h, Forall wf_op h -> ~ Exists is_recycle h -> exists st, run P alloc est_init h = Some st.
Proof.
  intros P alloc H0 H2 Ha h Hwf Hnr. pose proof (page_size_ge2 P H0 H2) as HP.
  pose proof (run_ok P alloc HP h est_init [] [] (inv_init P) Hwf) as H.
  destruct (run P alloc est_init h) as [st|]; [exists st; reflexivity|].
  destruct H as [[n Hn]|H]; [destruct (Ha n Hn)|destruct (Hnr H)].
Qed.

Theorem copy_buffer_spec : forall P alloc, 0 < P -> P mod 2 = 0 ->
  forall h st size, Forall wf_op h -> run P alloc est_init h = Some st ->
  (size < used st -> copy_buffer P st size = CNull) /\
  (used st <= size -> pages st <> [] -> copy_buffer P st size = CBytes (abs P st) 0) /\
  (0 < used st -> pages st <> []).
Proof.
  intros P alloc H0 H2 h st size Hwf Hr. pose proof (page_size_ge2 P H0 H2) as HP.
  destruct (reach_inv P alloc h st HP Hwf Hr) as (fs & bs & I & _).
  split; [apply copy_buffer_small|]. split.
  - intros Hs Hne. rewrite (abs_ok P st fs bs (proj1 I)). apply (copy_buffer_ok P HP st fs bs size I Hs Hne).
  - apply (used_nonempty P st fs bs I).
Qed.

Theorem direct_buffer_spec : forall P alloc, 0 < P -> P mod 2 = 0 ->
  forall h st, Forall wf_op h -> run P alloc est_init h = Some st ->
  (length (pages st) = 1%nat -> direct_buffer st = (DBytes (abs P st), used st)) /\
  (length (pages st) <> 1%nat -> fst (direct_buffer st) = DNull).
Proof.
  intros P alloc H0 H2 h st Hwf Hr. pose proof (page_size_ge2 P H0 H2) as HP.
  destruct (reach_inv P alloc h st HP Hwf Hr) as (fs & bs & I & _).
  destruct (direct_buffer_ok P st fs bs I) as [H1 Hn]. split; [|exact Hn].
  intros Hl. rewrite (H1 Hl), (abs_ok P st fs bs (proj1 I)). destruct I as [_ ->]. rewrite zlen_app. reflexivity.
Qed.

(* reset empties the stream; however many pages the pool policy retains, later histories refine from empty *)
Theorem reset_reuse : forall P alloc, 0 < P -> P mod 2 = 0 ->
  forall h0 st0 keep, Forall wf_op h0 -> run P alloc est_init h0 = Some st0 ->
  abs P (reset P keep st0) = [] /\ used (reset P keep st0) = 0 /\ start_off (reset P keep st0) = 0 /\
  (length (pages (reset P keep st0)) <= 1)%nat /\
  forall h st, Forall wf_op h -> run P alloc (reset P keep st0) h = Some st ->
    abs P st = fst (spec h) /\ start_off st = snd (spec h) /\ used st = zlen (fst (spec h)).
Proof.
  intros P alloc H0 H2 h0 st0 keep Hwf0 Hr0. pose proof (page_size_ge2 P H0 H2) as HP.
  destruct (reach_inv P alloc h0 st0 HP Hwf0 Hr0) as (fs & bs & I & _).
  assert (IR : Inv P (reset P keep st0) [] []).
  { pose proof (step_ok P alloc HP st0 (Reset keep) fs bs I Logic.I) as H. cbn [step] in H.
    destruct H as (fs' & bs' & I' & E). cbn [spec_step] in E. injection E as E _.
    apply app_eq_nil in E. destruct E as [-> ->]. exact I'. }
  destruct (inv_obs P _ _ _ IR) as (Ha & Hs & _ & Hu & _).
  split; [exact Ha|]. split; [rewrite Hu, Ha; reflexivity|]. split; [exact Hs|].
  split. { unfold reset. destruct (pages st0) eqn:E; cbn [pages set_used]; [rewrite E|]; simpl; lia. }
  intros h st Hwf Hr. pose proof (run_ok P alloc HP h (reset P keep st0) [] [] IR Hwf) as H. rewrite Hr in H.
  destruct H as (fs' & bs' & I' & E). change (fold_left spec_step h ([] ++ [], - zlen (@nil Z))) with (spec h) in E.
  destruct (inv_obs P _ _ _ I') as (Ha' & Hs' & _ & Hu' & _).
  rewrite <- E. cbn [fst snd]. rewrite Ha' in Hu'. repeat split; assumption.
Qed.

(* the pool policy cannot be observed: two resets retaining different numbers of pages agree on everything the stream
   interface returns, now and after any common later history that both survive *)
Theorem reset_policy_unobservable : forall P alloc, 0 < P -> P mod 2 = 0 ->
  forall h0 st0 k1 k2 h st1 st2, Forall wf_op h0 -> run P alloc est_init h0 = Some st0 -> Forall wf_op h ->
  run P alloc (reset P k1 st0) h = Some st1 -> run P alloc (reset P k2 st0) h = Some st2 ->
  abs P st1 = abs P st2 /\ used st1 = used st2 /\ start_off st1 = start_off st2 /\
  forall size, used st1 <= size -> pages st1 <> [] -> pages st2 <> [] -> copy_buffer P st1 size = copy_buffer P st2 size.
Proof.
  intros P alloc H0 H2 h0 st0 k1 k2 h st1 st2 Hwf0 Hr0 Hwf Hr1 Hr2. pose proof (page_size_ge2 P H0 H2) as HP.
  destruct (reset_reuse P alloc H0 H2 h0 st0 k1 Hwf0 Hr0) as (_ & _ & _ & _ & R1).
  destruct (reset_reuse P alloc H0 H2 h0 st0 k2 Hwf0 Hr0) as (_ & _ & _ & _ & R2).
  destruct (R1 h st1 Hwf Hr1) as (A1 & S1 & U1). destruct (R2 h st2 Hwf Hr2) as (A2 & S2 & U2).
  split; [congruence|]. split; [congruence|]. split; [congruence|].
  intros size Hs Hn1 Hn2.
  destruct (reach_inv P alloc h0 st0 HP Hwf0 Hr0) as (fs & bs & I & _).
  assert (IR : forall k, Inv P (reset P k st0) [] []).
  { intros k. pose proof (step_ok P alloc HP st0 (Reset k) fs bs I Logic.I) as H. cbn [step] in H.
    destruct H as (fs' & bs' & I' & E). cbn [spec_step] in E. injection E as E _.
    apply app_eq_nil in E. destruct E as [-> ->]. exact I'. }
  pose proof (run_ok P alloc HP h _ [] [] (IR k1) Hwf) as H1. rewrite Hr1 in H1. destruct H1 as (f1 & b1 & I1 & _).
  pose proof (run_ok P alloc HP h _ [] [] (IR k2) Hwf) as H3. rewrite Hr2 in H3. destruct H3 as (f2 & b2 & I2 & _).
  rewrite (copy_buffer_ok P HP st1 f1 b1 size I1 Hs Hn1).
  rewrite (copy_buffer_ok P HP st2 f2 b2 size I2 ltac:(lia) Hn2).
  rewrite <- (abs_ok P st1 f1 b1 (proj1 I1)), <- (abs_ok P st2 f2 b2 (proj1 I2)). congruence.
Qed.

(* clear gives back every page exactly once and leaves the initial state *)
Theorem clear_spec : forall st, let st' := clear st in
  pages st' = [] /\ spare st' = [] /\ used st' = 0 /\ cap st' = 0 /\ freed_by_clear st = length (pages st ++ spare st).
Proof. intros st. cbn. repeat split. Qed.

(* The C source returns the advanced pointer whenever the buffer spans pages: with the default page size, one
   front emit of a whole page of bytes into a fresh emitter, then copy_buffer_c returns buf + P/2. *)
Definition adv_witness (P : Z) : list op := [Emit [repeat 7 (Z.to_nat P)] (- P) P].
Definition copy_ret_check (P : Z) (h : list op) : bool :=
  match run P (fun _ => Some []) est_init h with
  | Some st => match copy_buffer_c P st (used st) with
               | CBytes out r => (negb (r =? 0)) && (if list_eq_dec Z.eq_dec out (abs P st) then true else false)
               | _ => false
               end
  | None => false
  end.

Lemma copy_returns_advanced_pointer_refuted :
  exists h st out r, Forall wf_op h /\
    run EMITTER_PAGE_SIZE (fun _ => Some []) est_init h = Some st /\
    copy_buffer_c EMITTER_PAGE_SIZE st (used st) = CBytes out r /\ out = abs EMITTER_PAGE_SIZE st /\ r <> 0.
Proof.
  exists (adv_witness EMITTER_PAGE_SIZE).
  assert (H : copy_ret_check EMITTER_PAGE_SIZE (adv_witness EMITTER_PAGE_SIZE) = true) by (vm_compute; reflexivity).
  unfold copy_ret_check in H.
  destruct (run EMITTER_PAGE_SIZE (fun _ => Some []) est_init (adv_witness EMITTER_PAGE_SIZE)) as [st|]; [|discriminate].
  exists st. destruct (copy_buffer_c EMITTER_PAGE_SIZE st (used st)) as [|out r|]; try discriminate.
  exists out, r. apply andb_true_iff in H. destruct H as [Hr He].
  destruct (list_eq_dec Z.eq_dec out (abs EMITTER_PAGE_SIZE st)) as [Heq|]; [|discriminate].
  split; [|repeat split; auto; lia].
  constructor; [|constructor]. vm_compute. reflexivity.
Qed.

Example page_size_hyps : 0 < EMITTER_PAGE_SIZE /\ EMITTER_PAGE_SIZE mod 2 = 0.
Proof. vm_compute. split; reflexivity. Qed.

(* a four-page history, run by the kernel: hypotheses of the theorems are satisfiable and the functions compute *)
Example small_history_runs :
  let P := 8 in
  let h := [Emit [[1;2;3];[4;5]] (-5) 5; Emit [[6;7;8;9;10;11]] 0 6; Emit [[12;13;14;15;16;17;18;19;20]] (-14) 9; Reset 2;
            Emit [[21]] (-1) 1] in
  Forall wf_op h /\
  option_map (fun st => (abs P st, start_off st, used st, length (pages st), length (spare st)))
             (run P (fun _ => Some []) est_init h) = Some ([21], -1, 1, 1%nat, 2%nat).
Proof.
  cbv zeta. split; [|vm_compute; reflexivity].
  repeat (apply Forall_cons; [vm_compute; auto|]). apply Forall_nil.
Qed.
