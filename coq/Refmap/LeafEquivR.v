(* C18 leaves (T5): _flatcc_refmap_hash and _flatcc_refmap_above_load_factor, as TRANSLATED from the current
   src/runtime/refmap.c (Flatcc.Generated.Leaf_refmap), equal RefmapModel.refmap_hash / RefmapModel.above for all
   arguments in the ranges of the C types (conventions: LeafConvR.v). *)
From Flatcc.Verifier Require Import LeafTac.
From Flatcc.Refmap Require Import RefmapModel LeafConvR.
From Flatcc.Generated Require Import Leaf_refmap.
From Coq Require Import ZifyBool.
Local Open Scope Z_scope.
Ltac Zify.zify_post_hook ::= Z.div_mod_to_equations.

(* the model's size_t wrap (a mask, for extraction) is the development's u64 *)
Lemma w64_u64 x : w64 x = u64 x.
Proof. unfold w64, u64. change 18446744073709551615 with (Z.ones 64). rewrite Z.land_ones by lia. reflexivity. Qed.

Lemma u64_lxor a b : u64 (Z.lxor a b) = Z.lxor (u64 a) (u64 b).
Proof.
  unfold u64. change 18446744073709551616 with (2 ^ 64). rewrite <- !Z.land_ones by lia.
  apply Z.bits_inj'. intros n Hn. rewrite !Z.lxor_spec, !Z.land_spec, !Z.lxor_spec.
  destruct (Z.testbit a n), (Z.testbit b n), (Z.testbit (Z.ones 64) n); reflexivity.
Qed.
Lemma u64_idem x : u64 (u64 x) = u64 x.
Proof. unfold u64. rewrite Z.mod_mod by lia. reflexivity. Qed.
Lemma u64_shiftr x n : 0 <= n -> u64 (Z.shiftr (u64 x) n) = Z.shiftr (u64 x) n.
Proof.
  intros Hn. apply u64_id. pose proof (u64_range x) as H. unfold in_u64 in *. rewrite Z.shiftr_div_pow2 by assumption.
  assert (0 < 2 ^ n) by (apply Z.pow_pos_nonneg; lia). split; [apply Z.div_pos; lia|].
  apply Z.le_lt_trans with (u64 x); [|lia]. apply Z.div_le_upper_bound; nia.
Qed.
Lemma in_u64_lxor a b : in_u64 a -> in_u64 b -> in_u64 (Z.lxor a b).
Proof. intros Ha Hb. rewrite <- (u64_id a Ha), <- (u64_id b Hb), <- u64_lxor. apply u64_range. Qed.
Lemma in_u64_shiftr x n : in_u64 x -> 0 <= n -> in_u64 (Z.shiftr x n).
Proof. intros Hx Hn. rewrite <- (u64_id x Hx), <- u64_shiftr by assumption. apply u64_range. Qed.

(* structural range solver and wrap removal for xor / shift chains (lia knows nothing about Z.lxor) *)
Ltac in64 :=
  lazymatch goal with
  | |- in_u64 (u64 _) => apply u64_range
  | |- in_u64 (Z.lxor _ _) => apply in_u64_lxor; in64
  | |- in_u64 (Z.shiftr _ _) => apply in_u64_shiftr; [in64 | lia]
  | |- in_u64 _ => unfold in_u64; lia
  end.
Ltac u64_unwrap := repeat match goal with |- context [u64 ?t] => rewrite (u64_id t) by in64 end.

Lemma c_refmap_hash_eq src : c__flatcc_refmap_hash (src_ptr src) = refmap_hash src.
Proof.
  unfold c__flatcc_refmap_hash, refmap_hash, src_ptr. unfold_Z_consts. cbn [p_addr]. cbv zeta. rewrite !w64_u64.
  mul_norm. u64_unwrap.
  repeat match goal with |- context [Z.lxor (Z.shiftr ?a ?n) ?b] => rewrite (Z.lxor_comm (Z.shiftr a n) b) end.
  reflexivity.
Qed.

Lemma c_refmap_above_eq count buckets : in_u64 count -> in_u64 buckets ->
  c__flatcc_refmap_above_load_factor count buckets = Z.b2z (above count buckets).
Proof.
  intros Hc Hb. unfold c__flatcc_refmap_above_load_factor, above. rewrite w64_u64. unfold u64. leaf_auto.
Qed.

Lemma leafR_example :
  c__flatcc_refmap_above_load_factor 5 8 = 1 /\ c__flatcc_refmap_above_load_factor 4 8 = 0 /\
  c__flatcc_refmap_hash (src_ptr 4096) = refmap_hash 4096 /\ c__flatcc_refmap_hash (src_ptr 4096) <> c__flatcc_refmap_hash (src_ptr 4104).
Proof. repeat split; try (vm_compute; reflexivity). vm_compute. discriminate. Qed.
