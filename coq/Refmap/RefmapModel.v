(* C18: the reference map (src/runtime/refmap.c, include/flatcc/flatcc_refmap.h) and the memoized clone.
   Executable Gallina transcription, NO proofs in this file.

   Table storage. The C table is an array of `struct flatcc_refmap_item { const void *src; ref_t ref; }` of
   `buckets` entries, zero filled by calloc / memset. Here it is a binary trie over slot indices whose leaf means
   "all zero" ([tget] is the array read, [tset] the array write), so that the extracted model handles 10^5 keys.
   The size_t arithmetic that can wrap in the C (buckets * n, buckets * 2, count * 2, k + i, ++i, ++count) is
   written with [w64] (x & 0xffffffffffffffff, equal to Wrap.u64: lemma w64_u64); the proofs show where it does
   not wrap.

   Loops. `while (T[j].src)` and `for (i < buckets_old)` run on [iter_pos]: at most p steps for a binary
   positive p, structurally recursive, O(1) to set up (a unary fuel of 2^18 would cost more than the loop).
   A loop that runs out of steps yields [None]; the theorems show that this does not happen. *)
From Flatcc.Common Require Export Wrap.
From Flatcc.Generated Require Export RefmapConsts.
Local Open Scope Z_scope.

(* size_t wrap; as a mask so that the extracted code does not divide *)
Definition w64 (x : Z) : Z := Z.land x 18446744073709551615.

(* ---------------------------------------------------------------- bounded iteration *)
Section Iter.
  Context {S R : Type} (step : S -> R + S).
  Fixpoint iter_nat (n : nat) (s : S) : R + S :=
    match n with
    | O => inr s
    | Datatypes.S n' => match step s with inl r => inl r | inr s' => iter_nat n' s' end
    end.
  Fixpoint iter_pos (p : positive) (s : S) : R + S :=
    match p with
    | xH => step s
    | xO q => match iter_pos q s with inl r => inl r | inr s' => iter_pos q s' end
    | xI q => match step s with
              | inl r => inl r
              | inr s1 => match iter_pos q s1 with inl r => inl r | inr s2 => iter_pos q s2 end
              end
    end.
End Iter.

(* ---------------------------------------------------------------- table storage *)
Inductive tab := TLeaf | TNode (l : tab) (s r : Z) (h : tab).

Fixpoint tget_p (t : tab) (p : positive) : Z * Z :=
  match t with
  | TLeaf => (0, 0)
  | TNode l s r h => match p with xH => (s, r) | xO q => tget_p l q | xI q => tget_p h q end
  end.

Fixpoint tset_p (t : tab) (p : positive) (s r : Z) : tab :=
  match p with
  | xH => match t with TLeaf => TNode TLeaf s r TLeaf | TNode l _ _ h => TNode l s r h end
  | xO q => match t with
            | TLeaf => TNode (tset_p TLeaf q s r) 0 0 TLeaf
            | TNode l s0 r0 h => TNode (tset_p l q s r) s0 r0 h
            end
  | xI q => match t with
            | TLeaf => TNode TLeaf 0 0 (tset_p TLeaf q s r)
            | TNode l s0 r0 h => TNode l s0 r0 (tset_p h q s r)
            end
  end.

Definition idx (j : Z) : positive := Z.to_pos (j + 1).
Definition tget (t : tab) (j : Z) : Z * Z := tget_p t (idx j).     (* T[j] *)
Definition tset (t : tab) (j s r : Z) : tab := tset_p t (idx j) s r. (* T[j].src = s; T[j].ref = r *)
Definition key (t : tab) (j : Z) : Z := fst (tget t j).              (* T[j].src *)

(* struct flatcc_refmap: table == 0 / min_table / heap block is not distinguished; what matters is that
   a table of RM_MIN_BUCKETS entries needs no allocation. *)
Record refmap := { count : Z; buckets : Z; table : tab }.

(* flatcc_refmap_init *)
Definition rm_init : refmap := {| count := 0; buckets := 0; table := TLeaf |}.

(* _flatcc_refmap_probe(k, i, N) ((k + i) & N) *)
Definition probe (k i N : Z) : Z := Z.land (w64 (k + i)) N.

Inductive pres := PEmpty (j : Z) | PFound (j r : Z).

(* GROWTH POLICY AS AN ORACLE. When the table grows, to which size, and whether calloc answers is not part of the
   property: every insert / resize operation carries what the implementation was OBSERVED to do - the allocation was
   refused, or the bucket count after the operation. The model rehashes to that size when it differs from its own.
   What a policy must satisfy for the map to work (probing by mask, probe loops that end) is the side condition
   [grow_ok] / "one empty slot remains"; an oracle that violates it yields the distinguished outcome [BadPolicy]
   and leaves the map unchanged. *)
Inductive oracle := ORefused | OBuckets (nb : Z).
Inductive outcome := Done (res : Z) | AllocFailed (res : Z) | BadPolicy.

(* nb = 2^e, 0 <= e <= 60 *)
Definition is_pow2 (nb : Z) : bool := (0 <? nb) && (nb =? 2 ^ Z.log2 nb) && (Z.log2 nb <=? 60).

Section WithHash.
  Variable hash : Z -> Z.    (* _flatcc_refmap_hash: ANY function *)

  (* i = 0; j = probe(k, i, N); while (T[j].src) { if (T[j].src == src) ...found; ++i; j = probe(k, i, N); } *)
  Definition probe_step (T : tab) (N k src : Z) (i : Z) : pres + Z :=
    let j := probe k i N in
    let '(s, r) := tget T j in
    if s =? 0 then inl (PEmpty j) else if s =? src then inl (PFound j r) else inr (w64 (i + 1)).

  Definition probe_loop (m : refmap) (src : Z) : option pres :=
    match iter_pos (probe_step (table m) (buckets m - 1) (hash src) src) (Z.to_pos (buckets m)) 0 with
    | inl r => Some r
    | inr _ => None
    end.

  (* flatcc_refmap_find *)
  Definition find (m : refmap) (src : Z) : option Z :=
    if count m =? 0 then Some RM_NOT_FOUND else
    match probe_loop m src with
    | Some (PEmpty _) => Some RM_NOT_FOUND
    | Some (PFound _ r) => Some r
    | None => None
    end.

  (* what insert does with the slot the probe stopped at: `return T[j].ref = ref` / `++count; T[j].src = src; T[j].ref = ref` *)
  Definition apply_pres (m : refmap) (src ref : Z) (p : pres) : refmap :=
    match p with
    | PFound j _ => {| count := count m; buckets := buckets m; table := tset (table m) j src ref |}
    | PEmpty j => {| count := w64 (count m + 1); buckets := buckets m; table := tset (table m) j src ref |}
    end.

  (* probe and store (flatcc_refmap_insert once the table has its size) *)
  Definition insert_core (m : refmap) (src ref : Z) : option refmap :=
    match probe_loop m src with
    | Some p => Some (apply_pres m src ref p)
    | None => None
    end.

  (* flatcc_refmap_resize: for (i = 0; i < buckets_old; ++i) if (T_old[i].src) <insert T_old[i] into the new table>; *)
  Definition rehash_step (ins : refmap -> Z -> Z -> option refmap) (Told : tab) (bold : Z)
             (st : Z * refmap) : option refmap + (Z * refmap) :=
    let '(i, m) := st in
    if i <? bold then
      let '(s, r) := tget Told i in
      if s =? 0 then inr (w64 (i + 1), m) else
      match ins m s r with
      | Some m' => inr (w64 (i + 1), m')
      | None => inl None
      end
    else inl (Some m).

  Definition rehash (ins : refmap -> Z -> Z -> option refmap) (Told : tab) (bold : Z) (m0 : refmap) : option refmap :=
    match iter_pos (rehash_step ins Told bold) (Z.to_pos (bold + 1)) (0, m0) with
    | inl r => r
    | inr _ => None
    end.

  (* side condition on an observed bucket count: a power of two with room for the stored keys and an empty slot *)
  Definition grow_ok (m : refmap) (nb : Z) : bool := is_pow2 nb && (count m <? nb).

  (* bring the table to the observed size (memset / calloc + move every item) *)
  Definition regrow (m : refmap) (nb : Z) : option refmap :=
    if nb =? buckets m then Some m
    else rehash insert_core (table m) (buckets m) {| count := 0; buckets := nb; table := TLeaf |}.

  Definition is_new (p : pres) : bool := match p with PEmpty _ => true | PFound _ _ => false end.

  (* flatcc_refmap_insert *)
  Definition insert (m : refmap) (src ref : Z) (g : oracle) : option (refmap * outcome) :=
    if src =? 0 then Some (m, Done ref) else
    match g with
    | ORefused => Some (m, AllocFailed RM_NOT_FOUND)
    | OBuckets nb =>
      if negb (grow_ok m nb) then Some (m, BadPolicy) else
      match regrow m nb with
      | None => None
      | Some m1 =>
        match probe_loop m1 src with
        | None => None
        | Some p =>
          (* a new key needs a slot AND must leave one empty, otherwise the next probe for an absent key does not end *)
          if is_new p && negb (count m1 + 1 <? buckets m1) then Some (m, BadPolicy)
          else Some (apply_pres m1 src ref p, Done ref)
        end
      end
    end.

  (* flatcc_refmap_resize (the requested count only influences the policy) *)
  Definition resize (m : refmap) (g : oracle) : option (refmap * outcome) :=
    match g with
    | ORefused => Some (m, AllocFailed (-1))
    | OBuckets nb =>
      if negb (grow_ok m nb) then Some (m, BadPolicy) else
      match regrow m nb with
      | None => None
      | Some m1 => Some (m1, Done 0)
      end
    end.

  (* flatcc_refmap_reset *)
  Definition reset (m : refmap) : refmap :=
    {| count := 0; buckets := buckets m; table := if count m =? 0 then table m else TLeaf |}.

  (* flatcc_refmap_clear *)
  Definition clear (m : refmap) : refmap := rm_init.

  (* ---------------------------------------------------------------- operation sequences *)
  Inductive op :=
  | OInsert (src ref : Z) (g : oracle)
  | OFind (src : Z)
  | OResize (g : oracle)
  | OReset
  | OClear.

  Definition run_op (m : refmap) (o : op) : option (refmap * outcome) :=
    match o with
    | OInsert s r g => insert m s r g
    | OFind s => match find m s with Some r => Some (m, Done r) | None => None end
    | OResize g => resize m g
    | OReset => Some (reset m, Done 0)
    | OClear => Some (clear m, Done 0)
    end.

  Fixpoint run (m : refmap) (ops : list op) : option (refmap * list outcome) :=
    match ops with
    | [] => Some (m, [])
    | o :: t => match run_op m o with
                | None => None
                | Some (m1, out) => match run m1 t with
                                    | None => None
                                    | Some (m2, outs) => Some (m2, out :: outs)
                                    end
                end
    end.
End WithHash.

(* ---------------------------------------------------------------- the growth policy of refmap.c (REFERENCE POLICY)
   Transcribed separately; the map theorems do not depend on it. Properties_C18.C18_reference_policy_ok shows that it
   satisfies the side condition (so refmap.c as transcribed never runs into BadPolicy). *)
(* _flatcc_refmap_above_load_factor: count >= buckets * n / d  (size_t) *)
Definition above (c b : Z) : bool := w64 (b * RM_LOAD_N) / RM_LOAD_D <=? c.
(* buckets = min_buckets; while (above(count, buckets)) buckets *= 2;   [None]: the C loop does not end
   (buckets wraps to 0 after 61 doublings and stays there) *)
Fixpoint grow (fuel : nat) (c b : Z) : option Z :=
  match fuel with
  | O => None
  | S f => if above c b then grow f c (w64 (b * 2)) else Some b
  end.
(* calloc is assumed to refuse more than 2^52 items (2^56 bytes) *)
Definition RM_MAX_BUCKETS : Z := 4503599627370496.
(* insert: if (above(count, buckets)) resize(count * 2) *)
Definition ref_insert_buckets (m : refmap) : option Z :=
  if above (count m) (buckets m) then grow 64 (w64 (count m * 2)) RM_MIN_BUCKETS else Some (buckets m).
(* resize(c): if (c < count) c = count; grow from the minimum *)
Definition ref_resize_buckets (m : refmap) (c : Z) : option Z :=
  grow 64 (if c <? count m then count m else c) RM_MIN_BUCKETS.

(* _flatcc_refmap_hash: MurmurHash3 64-bit finalizer over the address xor the seed *)
Definition refmap_hash (src : Z) : Z :=
  let x := Z.lxor (w64 src) RM_SEED in
  let x := Z.lxor x (Z.shiftr x 33) in
  let x := w64 (x * 18397679294719823053) in      (* 0xff51afd7ed558ccd *)
  let x := Z.lxor x (Z.shiftr x 33) in
  let x := w64 (x * 14181476777654086739) in      (* 0xc4ceb9fe1a85ec53 *)
  Z.lxor x (Z.shiftr x 33).

(* ---------------------------------------------------------------- memoized clone (abstract)
   Source objects are node ids; [children n] are the objects node n refers to (table fields, vector
   elements, union values). The generated N_clone is
       __memoize_begin(B, t):  if ((ref = refmap_find(B, t))) return ref;
       ... clone the children, build the object ...
       __memoize_end(B, t, op): return refmap_insert(B, t, op);
   The memo is any structure with find / insert (section variables in RefmapProofs); the builder is
   abstracted to the list of source objects emitted so far, the reference of an emitted object being its
   1-based position (never 0 = not found). *)
Section Clone.
  Context {M : Type}.
  Variable mfind : M -> Z -> Z.            (* 0 = not found *)
  Variable minsert : M -> Z -> Z -> M.
  Variable children : Z -> list Z.

  Record cstate := { memo : M; emitted : list Z }.

  (* the children in order, threading the builder / memo state (vector elements, table fields) *)
  Fixpoint clone_list (cl : cstate -> Z -> option (cstate * Z)) (st : cstate) (l : list Z)
    : option (cstate * list Z) :=
    match l with
    | [] => Some (st, [])
    | c :: t => match cl st c with
                | None => None
                | Some (st1, rc) => match clone_list cl st1 t with
                                    | None => None
                                    | Some (st2, rs) => Some (st2, rc :: rs)
                                    end
                end
    end.

  Fixpoint clone (fuel : nat) (st : cstate) (n : Z) : option (cstate * Z) :=
    match fuel with
    | O => None
    | S f =>
      let r := mfind (memo st) n in
      if negb (r =? 0) then Some (st, r) else           (* __memoize_begin *)
      match clone_list (clone f) st (children n) with
      | None => None
      | Some (st1, _) =>
        let em := emitted st1 ++ [n] in                 (* N_end(B): the object is emitted *)
        let ref := Z.of_nat (length em) in
        Some ({| memo := minsert (memo st1) n ref; emitted := em |}, ref)   (* __memoize_end *)
      end
    end.
End Clone.
