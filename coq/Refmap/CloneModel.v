(* C18, second half: the GENERATED clone / pick code as an executable model.

   What is transcribed (src/compiler/codegen_c_builder.c, as expanded into flatbuffers_common_builder.h and
   <schema>_builder.h):

     __flatbuffers_memoize_begin(B, src)   if ((_ref = flatcc_builder_refmap_find(B, src))) return _ref;
     __flatbuffers_memoize_end(B, src, op) return flatcc_builder_refmap_insert(B, src, op);
     NS string_clone(B, s)                 memoize(s, create_string(B, s, string_len(s)))             key: the string pointer
     N_vec_clone(B, vec)   (scalar/struct) memoize(vec_key(vec), create_vector(B, vec, vec_len(vec), S, A, COUNT_MAX(S)))
     N_vec_clone(B, vec)   (offset vector) memoize_begin(vec_key(vec)); start_offset_vector; for i: push(N_clone(B, vec_at(vec, i)));
                                           memoize_end(vec_key(vec), end_offset_vector)
     N_clone(B, p)         (struct)        memoize_begin(p); start_struct; copy; memoize_end(p, end_struct)   (union members only;
                                           a struct FIELD is copied inline with table_add_copy, no reference, no memo)
     N_clone(B, t)         (table)         memoize_begin(t); N_start(B); N_f_pick(B, t) for every non-deprecated field in the
                                           generator's member order; memoize_end(t, N_end(B))
     N_f_pick(B, t)                        p = N_f_get(t) (the READER accessor; required fields assert); p ? N_f_clone(B, p) : 0
     U_clone(B, u)         (union)         switch (u.type): table member T_clone, struct member S_clone, string member
                                           string_clone(string_cast_from_union(u)); default: NONE ("unknown unions are dropped")
     N_f_add(B, uref)      (union field)   type NONE: nothing; else table_add(ID - 1) = type, table_add_offset(ID) = value
     U_vec_clone(B, uv)    (union vector)  type vector and value vector memoized SEPARATELY under their own keys; the type
                                           vector is create_type_vector(uv.type, len); the value vector an offset vector of
                                           U_clone(union_vec_at(uv, i)).value with 0 for NONE, ended by
                                           end_offset_vector_for_unions(B, uv.type)
     N_f_clone(B, vec)     (nested buffer) the [ubyte] vector is copied with create_vector(B, vec, len, 1, a, COUNT_MAX(1)),
                                           a = lowest set bit of the ADDRESS of the source data, capped to [4, 256]
                                           (fixes/C18-nested-buffer-clone-alignment), memoized under vec_key(vec)
     N_clone_as_root(B, t)                 buffer_start(B, fid); buffer_end(B, N_clone(B, t))
     flatcc_builder_refmap_vec_key(vec)    vec - 4 (the length word; fixes/C18-empty-vector-refmap-key)
     without a reference map               refmap_find = 0 (not found), refmap_insert(src, ref) = ref

   The source is READ through the accessor-value model of the generated reader (Verifier/ReaderValue.v: offset_field,
   struct_field, union_field, union_vec_field, union_vec_at, vec_len, offset_vec_at, ldbytes; pointers are absolute
   positions in [m]); what is EMITTED is a fragment of a create-level build script (Builder/EmitModel.v [cmd]): one
   command per object the clone code finishes, bottom-up, in the order the C code finishes them; a reference is the
   register the command's result lands in.  The stack-layer calls the clone code makes (start/push/end) are replaced by
   their create-level equivalents as in checks/builder_engine.py (correspondence of the two layers is C02's tie).

   Deviations, all stated:
   * the memo is an association list key -> (register, GHOST type tag).  The C map holds no type; the tag is compared
     only when [strict] is set: a hit under a different type then yields [None] ("outside the model").  With
     [strict = false] the tag is ignored and the model does what the C does (it returns the reference of the other
     object).  The theorems are about [strict = true]; [Properties_C18b.C18_clone_memo_type_confusion] shows what
     happens otherwise.  Without a reference map [strict] is irrelevant (no hit ever).
   * a union vector is emitted by the single command CUnionVec (create_union_vector: value vector + type vector)
     after its members, whereas the C emits the type vector BEFORE the members and the value vector after them.  When
     exactly one of the two halves is already memoized the C emits only the other half; the model emits both and uses
     (and memoizes) only the missing one.  References / sharing as seen from the tables are the same; the byte stream
     differs for union vectors.
   * vector counts are emitted as the number of elements read (equal to vec_len on a source whose bytes are bytes).
   * allocation failure of the reference map is not modelled here (RefmapModel.v does; a failed insert returns
     not_found and the clone fails).
   No proofs in this file. *)
From Flatcc.Format Require Export Schema Spec.
From Flatcc.Verifier Require Export ReaderValue.
From Flatcc.Builder Require Export EmitModel Objects NestedBase.
Local Open Scope Z_scope.

(* ------------------------------------------------------------------ ghost type tags *)
Definition oty_eqb (a b : oty) : bool :=
  match a, b with
  | OString, OString => true
  | OVec e1 a1, OVec e2 a2 => (e1 =? e2) && (a1 =? a2)
  | OStruct s1 a1, OStruct s2 a2 => (s1 =? s2) && (a1 =? a2)
  | OTable t1, OTable t2 => Nat.eqb t1 t2
  | OStrVec, OStrVec => true
  | OTabVec t1, OTabVec t2 => Nat.eqb t1 t2
  | _, _ => false
  end.
Definition root_eqb (a b : root) : bool :=
  match a, b with
  | RTable t1, RTable t2 => Nat.eqb t1 t2
  | RStruct s1 a1, RStruct s2 a2 => (s1 =? s2) && (a1 =? a2)
  | _, _ => false
  end.
Definition xty_eqb (a b : xty) : bool :=
  match a, b with
  | XBase x, XBase y => oty_eqb x y
  | XUType, XUType => true
  | XUVal u1, XUVal u2 => Nat.eqb u1 u2
  | XNested r1, XNested r2 => root_eqb r1 r2
  | _, _ => false
  end.

(* ------------------------------------------------------------------ the memo (flatcc_builder_refmap_find / _insert) *)
Record memo := { m_on : bool;                              (* a reference map is installed *)
                 m_map : list (Z * (nat * xty)) }.          (* source key -> (register, ghost tag), newest first *)
Definition memo_off : memo := {| m_on := false; m_map := [] |}.
Definition memo_empty : memo := {| m_on := true; m_map := [] |}.
Definition mfind (M : memo) (k : Z) : option (nat * xty) := if m_on M then assocZ k (m_map M) else None.
Definition minsert (M : memo) (k : Z) (r : nat) (ty : xty) : memo :=
  if m_on M then {| m_on := true; m_map := (k, (r, ty)) :: m_map M |} else M.

(* the clone state: commands emitted so far (in order), number of registers they fill, the memo *)
Record cst := { c_cmds : list cmd; c_next : nat; c_memo : memo }.
Definition cst_init (M : memo) : cst := {| c_cmds := []; c_next := O; c_memo := M |}.

Section Clone.
Variable strict : bool.
Variable Sc : schema.
Variable m : mem.          (* the memory the source buffer lies in *)
Variable base : Z.         (* the machine address of position 0 of [m] (only the nested-buffer alignment depends on it) *)

(* __memoize_begin: None = outside the model (strict tag mismatch); Some None = not found; Some (Some r) = hit *)
Definition memo_begin (s : cst) (k : Z) (ty : xty) : option (option nat) :=
  match mfind (c_memo s) k with
  | None => Some None
  | Some (r, ty') => if strict && negb (xty_eqb ty ty') then None else Some (Some r)
  end.

(* the object is finished by command [c] (one result register); __memoize_end *)
Definition emit1 (s : cst) (c : cmd) (k : Z) (ty : xty) : cst * nat :=
  ({| c_cmds := c_cmds s ++ [c]; c_next := S (c_next s); c_memo := minsert (c_memo s) k (c_next s) ty |}, c_next s).

(* ------------------------------------------------------------------ leaves *)
(* flatbuffers_string_clone(B, string): [sp] is the string_t pointer (at the characters) *)
Definition string_clone (s : cst) (sp : Z) : option (cst * nat) :=
  h <- memo_begin s sp (XBase OString);;
  match h with
  | Some r => Some (s, r)
  | None =>
    n <- vec_len m (Some sp);;
    bs <- ldbytes m sp (Z.to_nat n);;
    Some (emit1 s (CString bs) sp (XBase OString))
  end.

(* N_vec_clone of a scalar / enum / struct vector: [vec] points at the elements *)
Definition vec_clone (esize al maxc : Z) (s : cst) (vec : Z) : option (cst * nat) :=
  h <- memo_begin s (vec - 4) (XBase (OVec esize al));;
  match h with
  | Some r => Some (s, r)
  | None =>
    n <- vec_len m (Some vec);;
    es <- read_elems m vec esize 0 (Z.to_nat n);;
    Some (emit1 s (CVector esize al maxc (Z.of_nat (length es)) (concat es)) (vec - 4) (XBase (OVec esize al)))
  end.

(* S_clone(B, p) of a struct that becomes an object of its own (union member) *)
Definition struct_clone (size al : Z) (s : cst) (p : Z) : option (cst * nat) :=
  h <- memo_begin s p (XBase (OStruct size al));;
  match h with
  | Some r => Some (s, r)
  | None =>
    bs <- ldbytes m p (Z.to_nat size);;
    Some (emit1 s (CStruct al bs) p (XBase (OStruct size al)))
  end.

(* the element loop of an offset vector: N_clone(B, N_vec_at(vec, i)) for i, i + 1, .. *)
Fixpoint clone_offs (f : cst -> Z -> option (cst * nat)) (s : cst) (vec adjust i : Z) (count : nat)
  : option (cst * list nat) :=
  match count with
  | O => Some (s, [])
  | S k =>
    p <- offset_vec_at m vec i adjust;;
    x <- f s p;;
    y <- clone_offs f (fst x) vec adjust (i + 1) k;;
    Some (fst y, snd x :: snd y)
  end.

(* N_vec_clone of a string / table vector *)
Definition offvec_clone (ty : xty) (f : cst -> Z -> option (cst * nat)) (adjust : Z) (s : cst) (vec : Z) : option (cst * nat) :=
  h <- memo_begin s (vec - 4) ty;;
  match h with
  | Some r => Some (s, r)
  | None =>
    n <- vec_len m (Some vec);;
    y <- clone_offs f s vec adjust 0 (Z.to_nat n);;
    Some (emit1 (fst y) (COffVec (snd y)) (vec - 4) ty)
  end.

(* the [ubyte] vector of a nested buffer: alignment from the address of the data *)
Definition lowbit (x : Z) : Z := Z.land x (- x).
Definition nested_align (addr : Z) : Z :=
  let a := lowbit addr in
  let a := if (a =? 0) || (256 <? a) then 256 else a in
  if a <? 4 then 4 else a.
Definition nested_clone (R : root) (s : cst) (vec : Z) : option (cst * nat) :=
  h <- memo_begin s (vec - 4) (XNested R);;
  match h with
  | Some r => Some (s, r)
  | None =>
    n <- vec_len m (Some vec);;
    bs <- ldbytes m vec (Z.to_nat n);;
    Some (emit1 s (CVector 1 (nested_align (base + vec)) MAX_UTYPE_COUNT (Z.of_nat (length bs)) bs) (vec - 4) (XNested R))
  end.

Section Table.
(* T_clone one level down: table type, state, table pointer *)
Variable rec : nat -> cst -> Z -> option (cst * nat).

(* U_clone(B, u): None = NONE (also for a type code the schema does not list) *)
Definition member_clone (u : nat) (s : cst) (code p : Z) : option (cst * option nat) :=
  match union_member Sc u code with
  | Some (UTable t) => x <- rec t s p;; Some (fst x, Some (snd x))
  | Some (UStruct size al) => x <- struct_clone size al s p;; Some (fst x, Some (snd x))
  | Some UString => x <- string_clone s (string_cast_from_generic p);; Some (fst x, Some (snd x))
  | None => Some (s, None)
  end.

(* the element loop of U_vec_clone: _uref = U_clone(B, U_union_vec_at(vec, _i)); push(_uref.value).
   The type code pushed with the element is the one of the SOURCE type vector (the copy's type vector is the source's). *)
Fixpoint clone_uelems (u : nat) (s : cst) (uv : option Z * option Z) (i : Z) (count : nat)
  : option (cst * list (Z * option nat)) :=
  match count with
  | O => Some (s, [])
  | S k =>
    e <- union_vec_at m uv i;;
    x <- match snd e with
         | None => Some (s, None)
         | Some p => member_clone u s (fst e) p
         end;;
    y <- clone_uelems u (fst x) uv (i + 1) k;;
    Some (fst y, (fst e, snd x) :: snd y)
  end.

(* U_vec_clone(B, uv): (type vector register, value vector register); None = { 0, 0 } *)
Definition uvec_clone (u : nat) (s : cst) (uv : option Z * option Z) : option (cst * option (nat * nat)) :=
  match fst uv with
  | None => Some (s, None)                                  (* if (vec.type == 0) return _ret; *)
  | Some tv =>
    match snd uv with
    | None => None                                          (* the C reads through a null value vector *)
    | Some vv =>
      ht <- memo_begin s (tv - 4) XUType;;
      hv <- memo_begin s (vv - 4) (XUVal u);;
      match ht, hv with
      | Some rt, Some rv => Some (s, Some (rt, rv))
      | _, _ =>
        n <- vec_len m (Some tv);;
        y <- clone_uelems u s uv 0 (Z.to_nat n);;
        let s1 := fst y in
        let rv' := c_next s1 in
        let rt' := S rv' in
        let M1 := match ht with Some _ => c_memo s1 | None => minsert (c_memo s1) (tv - 4) rt' XUType end in
        let M2 := match hv with Some _ => M1 | None => minsert M1 (vv - 4) rv' (XUVal u) end in
        Some ({| c_cmds := c_cmds s1 ++ [CUnionVec (snd y)]; c_next := S (S rv'); c_memo := M2 |},
              Some (match ht with Some rt => rt | None => rt' end, match hv with Some rv => rv | None => rv' end))
      end
    end
  end.

(* N_f_pick(B, t) for the field [id] of kind [k]: the add calls it makes on the open table *)
Definition pick_kind (s : cst) (t id : Z) (req : bool) (k : fkind) : option (cst * list targ) :=
  match k with
  | FScalar size al =>
    (* scalar: N_f_get_ptr; inline struct: N_f_get (asserts when required); then table_add_copy(ID, p, S, A) *)
    p <- struct_field m t id req;;
    match p with
    | None => Some (s, [])
    | Some a => bs <- ldbytes m a (Z.to_nat size);; Some (s, [TInline id size al bs])
    end
  | FString =>
    p <- offset_field m t id req 4;;
    match p with
    | None => Some (s, [])
    | Some a => x <- string_clone s a;; Some (fst x, [TOffset id (snd x)])
    end
  | FVector esize al maxc =>
    p <- offset_field m t id req 4;;
    match p with
    | None => Some (s, [])
    | Some a => x <- vec_clone esize al maxc s a;; Some (fst x, [TOffset id (snd x)])
    end
  | FStringVec =>
    p <- offset_field m t id req 4;;
    match p with
    | None => Some (s, [])
    | Some a => x <- offvec_clone (XBase OStrVec) string_clone 4 s a;; Some (fst x, [TOffset id (snd x)])
    end
  | FTable t' =>
    p <- offset_field m t id req 0;;
    match p with
    | None => Some (s, [])
    | Some a => x <- rec t' s a;; Some (fst x, [TOffset id (snd x)])
    end
  | FTableVec t' =>
    p <- offset_field m t id req 4;;
    match p with
    | None => Some (s, [])
    | Some a => x <- offvec_clone (XBase (OTabVec t')) (rec t') 0 s a;; Some (fst x, [TOffset id (snd x)])
    end
  | FUnion u =>
    (* _p = N_f_union(t); return _p.type ? N_f_clone(B, _p) : 0;   N_f_clone = N_f_add(B, U_clone(B, _p)) *)
    un <- union_field m t id req;;
    if fst un =? 0 then Some (s, [])
    else match snd un with
         | None => None                                     (* type set, value NULL: the C follows the null pointer *)
         | Some p =>
           x <- member_clone u s (fst un) p;;
           match snd x with
           | None => Some (fst x, [])                       (* N_f_add of NONE: return 0 *)
           | Some r => Some (fst x, [TInline (id - 1) 1 1 [fst un]; TOffset id r])
           end
         end
  | FUnionVec u =>
    uv <- union_vec_field m t id req;;
    x <- uvec_clone u s uv;;
    match snd x with
    | None => Some (fst x, [])
    | Some (rt, rv) => Some (fst x, [TOffset (id - 1) rt; TOffset id rv])
    end
  | FNestedTable al t' =>
    p <- offset_field m t id req 4;;
    match p with
    | None => Some (s, [])
    | Some a => x <- nested_clone (RTable t') s a;; Some (fst x, [TOffset id (snd x)])
    end
  | FNestedStruct size al =>
    p <- offset_field m t id req 4;;
    match p with
    | None => Some (s, [])
    | Some a => x <- nested_clone (RStruct size al) s a;; Some (fst x, [TOffset id (snd x)])
    end
  end.

(* the picks of N_clone in the order of the field list *)
Fixpoint pick_fields (s : cst) (t : Z) (fl : list field) : option (cst * list targ) :=
  match fl with
  | [] => Some (s, [])
  | f :: r =>
    x <- pick_kind s t (fid f) (frequired f) (fk f);;
    y <- pick_fields (fst x) t r;;
    Some (fst y, snd x ++ snd y)
  end.

Definition table_clone_body (tix : nat) (s : cst) (t : Z) : option (cst * nat) :=
  h <- memo_begin s t (XBase (OTable tix));;
  match h with
  | Some r => Some (s, r)
  | None =>
    flds <- table_fields Sc tix;;
    y <- pick_fields s t flds;;
    Some (emit1 (fst y) (CTable (snd y)) t (XBase (OTable tix)))
  end.
End Table.

(* nesting depth bounded by the fuel, as in Spec.dec_table / ReaderValue.read_table *)
Fixpoint table_clone (n : nat) (tix : nat) (s : cst) (t : Z) : option (cst * nat) :=
  match n with
  | O => None
  | S k => table_clone_body (table_clone k) tix s t
  end.

(* N_clone_as_root(B, t) / _with_size on a builder configured by CSettings:
   buffer_start(B, fid) [flags 0 or with_size = 2], N_clone, buffer_end.  [ws_src]: the SOURCE is size-prefixed
   (the caller went through flatbuffers_read_size_prefix). *)
Definition clone_root_script (cl : bool) (ba0 id0 : Z) (id fl : Z) (M : memo) (n : nat) (tix : nat) (ws_src : bool)
  : option (list cmd * nat * memo) :=
  t <- root_ptr m ws_src;;
  x <- table_clone n tix (cst_init M) t;;
  Some (CSettings cl ba0 id0 :: [] ++ CStartBuffer id 0 fl :: c_cmds (fst x) ++ [CEndBuffer (snd x)], snd x, c_memo (fst x)).
End Clone.

(* the clone of a buffer given as a byte list; the script only *)
Definition clone_script (strict : bool) (Sc : schema) (cl : bool) (ba0 id0 id fl : Z) (M : memo) (n : nat) (tix : nat)
           (ws_src : bool) (src : list Z) : option (list cmd) :=
  x <- clone_root_script strict Sc (mem_of_list src) 0 cl ba0 id0 id fl M n tix ws_src;;
  Some (fst (fst x)).

(* the finished copy *)
Definition clone_bytes (strict : bool) (Sc : schema) (cl : bool) (ba0 id0 id fl : Z) (M : memo) (n : nat) (tix : nat)
           (ws_src : bool) (src : list Z) : option (list Z) :=
  sc <- clone_script strict Sc cl ba0 id0 id fl M n tix ws_src src;;
  match run init_state [] sc with
  | Some (_, _, st) => Some (buffer_bytes st)
  | None => None
  end.
