(* C18 part B: memoized clone of a DAG emits every distinct source object once (RefmapModel.clone). *)
From Coq Require Import ZifyBool.
From Flatcc.Refmap Require Import RefmapModel.
Local Open Scope Z_scope.

Section CloneFacts.
  Context {M : Type}.
  Variable mfind : M -> Z -> Z.
  Variable minsert : M -> Z -> Z -> M.
  Variable children : Z -> list Z.
  (* the memo is a map (what refmap_refines establishes for the reference map) *)
  Hypothesis find_insert_same : forall m k r, mfind (minsert m k r) k = r.
  Hypothesis find_insert_other : forall m k r k', k' <> k -> mfind (minsert m k r) k' = mfind m k'.
  (* the source is acyclic (a verified FlatBuffer is: offsets only point forward) *)
  Variable rank : Z -> nat.
  Hypothesis rank_children : forall n c, In c (children n) -> (rank c < rank n)%nat.

  Notation cstate := (@cstate M).
  Notation clone := (clone mfind minsert children).

  (* the memo knows exactly the emitted objects, each under its own (1-based) position *)
  Definition W (st : cstate) : Prop :=
    NoDup (emitted st) /\
    (forall n, mfind (memo st) n <> 0 <-> In n (emitted st)) /\
    (forall n, In n (emitted st) -> 0 < mfind (memo st) n /\
               nth_error (emitted st) (Z.to_nat (mfind (memo st) n - 1)) = Some n).

  (* st' extends st by objects of rank <= b, old memo entries are kept *)
  Definition ext (b : nat) (st st' : cstate) : Prop :=
    exists l, emitted st' = emitted st ++ l /\ (forall x, In x l -> (rank x <= b)%nat) /\
              (forall x, In x (emitted st) -> mfind (memo st') x = mfind (memo st) x).

  Lemma ext_refl b st : ext b st st.
  Proof. exists []. rewrite app_nil_r. split; [reflexivity|]. split; [intros x []|reflexivity]. Qed.

  Lemma ext_trans b st1 st2 st3 : ext b st1 st2 -> ext b st2 st3 -> ext b st1 st3.
  Proof.
    intros [l1 [E1 [R1 K1]]] [l2 [E2 [R2 K2]]]. exists (l1 ++ l2). rewrite E2, E1, app_assoc.
    split; [reflexivity|]. split.
    - intros x Hx. apply in_app_or in Hx. destruct Hx; auto.
    - intros x Hx. rewrite K2 by (rewrite E1; apply in_or_app; auto). apply K1. assumption.
  Qed.

  Lemma ext_weaken a b st st' : (a <= b)%nat -> ext a st st' -> ext b st st'.
  Proof.
    intros Hab [l [E [R K]]]. exists l. split; [assumption|]. split; [|assumption].
    intros x Hx. specialize (R x Hx). lia.
  Qed.

  Definition clone_ok (f : nat) : Prop :=
    forall st n st' r, W st -> clone f st n = Some (st', r) ->
      W st' /\ r <> 0 /\ mfind (memo st') n = r /\ ext (rank n) st st'.

  Lemma clone_list_ok f : clone_ok f ->
    forall l b st st' rs, W st -> (forall c, In c l -> (rank c <= b)%nat) ->
      clone_list (clone f) st l = Some (st', rs) ->
      W st' /\ ext b st st' /\ Forall2 (fun c r => mfind (memo st') c = r /\ r <> 0) l rs.
  Proof.
    intros Hf. induction l as [|c t IH]; intros b st st' rs HW Hb Hcl; cbn [clone_list] in Hcl.
    - injection Hcl as <- <-. split; [assumption|]. split; [apply ext_refl|constructor].
    - destruct (clone f st c) as [[st1 rc]|] eqn:Ec; [|discriminate].
      destruct (clone_list (clone f) st1 t) as [[st2 rs']|] eqn:Et; [|discriminate].
      injection Hcl as <- <-.
      destruct (Hf st c st1 rc HW Ec) as (W1 & Hrc & Hm1 & X1).
      destruct (IH b st1 st2 rs' W1 ltac:(intros; apply Hb; right; assumption) Et) as (W2 & X2 & F2).
      split; [assumption|]. split.
      + eapply ext_trans; [eapply ext_weaken; [|exact X1]; apply Hb; left; reflexivity|exact X2].
      + constructor; [|assumption]. split; [|assumption].
        destruct X2 as [l2 [_ [_ K2]]]. rewrite K2; [assumption|].
        apply (proj1 (proj2 W1)). rewrite Hm1. assumption.
  Qed.

  Lemma clone_all_ok f : clone_ok f.
  Proof.
    induction f as [|f IH]; intros st n st' r HW Hc; [discriminate|].
    cbn [RefmapModel.clone] in Hc.
    destruct (negb (mfind (memo st) n =? 0)) eqn:Eh.
    - injection Hc as <- <-. split; [assumption|]. split; [lia|]. split; [reflexivity|apply ext_refl].
    - assert (H0 : mfind (memo st) n = 0) by lia.
      destruct (clone_list (clone f) st (children n)) as [[st1 rs]|] eqn:Ecl; [|discriminate].
      injection Hc as <- <-.
      destruct (clone_list_ok f IH (children n) (pred (rank n)) st st1 rs HW) as (W1 & X1 & _); [|assumption|].
      { intros c Hc. specialize (rank_children n c Hc). lia. }
      destruct X1 as [l [E1 [R1 K1]]]. destruct W1 as (ND1 & IFF1 & POS1). destruct HW as (ND & IFF & POS).
      assert (Hnot : ~ In n (emitted st1)).
      { rewrite E1. intro Hin. apply in_app_or in Hin. destruct Hin as [Hin|Hin].
        - apply IFF in Hin. contradiction.
        - specialize (R1 n Hin). specialize (rank_children n). destruct (children n) as [|c t] eqn:Ech.
          + cbn in Ecl. injection Ecl as <- <-. rewrite app_nil_end in E1 at 1.
            apply app_inv_head in E1. subst l. destruct Hin.
          + specialize (rank_children c (or_introl eq_refl)). lia. }
      assert (Hlen : Z.of_nat (length (emitted st1 ++ [n])) = Z.of_nat (length (emitted st1)) + 1).
      { rewrite app_length. cbn. lia. }
      split; [|split; [|split]].
      + unfold W. cbn [memo emitted]. split; [|split].
        * rewrite <- (rev_involutive (emitted st1 ++ [n])). apply NoDup_rev. rewrite rev_app_distr. cbn.
          constructor; [rewrite <- in_rev; assumption|apply NoDup_rev; assumption].
        * intros x. destruct (Z.eq_dec x n) as [->|Hne].
          -- rewrite find_insert_same. split; [intros _; apply in_or_app; right; left; reflexivity|lia].
          -- rewrite find_insert_other by assumption. rewrite IFF1. split.
             ++ intros Hin. apply in_or_app. left. assumption.
             ++ intros Hin. apply in_app_or in Hin. destruct Hin as [Hin|[Hin|[]]]; [assumption|congruence].
        * intros x Hin. destruct (Z.eq_dec x n) as [->|Hne].
          -- rewrite find_insert_same. split; [lia|]. rewrite Hlen.
             replace (Z.to_nat (Z.of_nat (length (emitted st1)) + 1 - 1)) with (length (emitted st1)) by lia.
             rewrite nth_error_app2 by lia. rewrite Nat.sub_diag. reflexivity.
          -- rewrite find_insert_other by assumption.
             apply in_app_or in Hin. destruct Hin as [Hin|[Hin|[]]]; [|congruence].
             destruct (POS1 x Hin) as [Hp Hn]. split; [assumption|].
             rewrite nth_error_app1; [assumption|]. apply nth_error_Some. congruence.
      + rewrite Hlen. lia.
      + cbn [memo]. apply find_insert_same.
      + exists (l ++ [n]). cbn [memo emitted]. rewrite E1, app_assoc. split; [reflexivity|]. split.
        * intros x Hx. apply in_app_or in Hx. destruct Hx as [Hx|[<-|[]]]; [specialize (R1 x Hx)|]; lia.
        * intros x Hx. rewrite find_insert_other; [apply K1; assumption|].
          intro; subst x. apply IFF in Hx. contradiction.
  Qed.

  (* enough fuel: one more than the height of the node *)
  Lemma clone_list_total f :
    (forall st n, W st -> (rank n < f)%nat -> exists st' r, clone f st n = Some (st', r)) ->
    forall l st, W st -> (forall c, In c l -> (rank c < f)%nat) ->
    exists st' rs, clone_list (clone f) st l = Some (st', rs).
  Proof.
    intros Hf. induction l as [|c t IH]; intros st HW Hr; cbn [clone_list]; [eauto|].
    destruct (Hf st c HW ltac:(apply Hr; left; reflexivity)) as [st1 [rc Ec]]. rewrite Ec.
    destruct (clone_all_ok f st c st1 rc HW Ec) as (W1 & _).
    destruct (IH st1 W1 ltac:(intros; apply Hr; right; assumption)) as [st2 [rs Et]]. rewrite Et. eauto.
  Qed.

  Lemma clone_total f : forall st n, W st -> (rank n < f)%nat -> exists st' r, clone f st n = Some (st', r).
  Proof.
    induction f as [|f IH]; intros st n HW Hr; [lia|]. cbn [RefmapModel.clone].
    destruct (negb (mfind (memo st) n =? 0)); [eauto|].
    destruct (clone_list_total f IH (children n) st HW) as [st1 [rs Ecl]].
    - intros c Hc. specialize (rank_children n c Hc). lia.
    - rewrite Ecl. eauto.
  Qed.

  (* clone_shares: cloning with a memo that is a map emits each distinct source object once, the reference
     returned for an object is the position where it was emitted (so distinct objects get distinct references),
     and every later visit of an emitted object - by any path - returns that same reference and emits nothing. *)
  Theorem clone_shares fuel st n st' r :
    W st -> clone fuel st n = Some (st', r) ->
    NoDup (emitted st') /\
    r <> 0 /\ nth_error (emitted st') (Z.to_nat (r - 1)) = Some n /\
    (exists l, emitted st' = emitted st ++ l) /\
    (forall x, In x (emitted st') -> forall f, clone (S f) st' x = Some (st', mfind (memo st') x)) /\
    clone (S fuel) st' n = Some (st', r).
  Proof.
    intros HW Hc. destruct (clone_all_ok fuel st n st' r HW Hc) as (W' & Hr & Hm & [l [E _]]).
    destruct W' as (ND & IFF & POS).
    assert (Hin : In n (emitted st')) by (apply IFF; rewrite Hm; assumption).
    assert (Hagain : forall x, In x (emitted st') -> forall f, clone (S f) st' x = Some (st', mfind (memo st') x)).
    { intros x Hx f. cbn [RefmapModel.clone]. apply IFF in Hx.
      replace (negb (mfind (memo st') x =? 0)) with true by lia. reflexivity. }
    split; [assumption|]. split; [assumption|]. split; [|split; [eauto|split; [assumption|]]].
    - rewrite <- Hm. apply POS. assumption.
    - rewrite (Hagain n Hin fuel), Hm. reflexivity.
  Qed.
End CloneFacts.

(* the hypotheses are satisfiable: a function as memo, a diamond 1 -> {2,3} -> 4 *)
Definition fmemo := Z -> Z.
Definition ffind (m : fmemo) (k : Z) : Z := m k.
Definition finsert (m : fmemo) (k r : Z) : fmemo := fun x => if x =? k then r else m x.
Definition diamond (n : Z) : list Z :=
  if n =? 1 then [2; 3] else if n =? 2 then [4] else if n =? 3 then [4; 4] else [].

Example clone_diamond :
  match clone ffind finsert diamond 5 {| memo := fun _ => 0; emitted := [] |} 1 with
  | Some (st, r) => (emitted st, r)
  | None => ([], 0)
  end = ([4; 2; 3; 1], 4).
Proof. vm_compute. reflexivity. Qed.

Lemma W_empty : W ffind {| memo := fun _ => 0; emitted := [] |}.
Proof.
  unfold W. cbn. split; [constructor|]. split; [|tauto]. intros n. unfold ffind. split; [lia|tauto].
Qed.
