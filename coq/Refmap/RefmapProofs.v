(* C18: proofs about Refmap/RefmapModel.v *)
From Coq Require Import ZifyBool Znumtheory FinFun.
From Flatcc.Refmap Require Import RefmapModel.
Local Open Scope Z_scope.
Ltac Zify.zify_post_hook ::= Z.div_mod_to_equations.

(* ================================================================ bounded iteration *)
Section IterFacts.
  Context {S R : Type} (step : S -> R + S).

  Lemma iter_nat_add n k s :
    iter_nat step (n + k) s = match iter_nat step n s with inl r => inl r | inr s' => iter_nat step k s' end.
  Proof.
    revert s. induction n as [|n IH]; intros s; cbn [iter_nat Nat.add]; [reflexivity|].
    destruct (step s); [reflexivity|apply IH].
  Qed.

  Lemma iter_pos_nat p s : iter_pos step p s = iter_nat step (Pos.to_nat p) s.
  Proof.
    revert s. induction p as [q IH|q IH|]; intros s; cbn [iter_pos].
    - rewrite Pos2Nat.inj_xI. cbn [iter_nat]. destruct (step s) as [r|s1]; [reflexivity|].
      replace (2 * Pos.to_nat q)%nat with (Pos.to_nat q + Pos.to_nat q)%nat by lia.
      rewrite iter_nat_add, <- IH. destruct (iter_pos step q s1); [reflexivity|apply IH].
    - rewrite Pos2Nat.inj_xO.
      replace (2 * Pos.to_nat q)%nat with (Pos.to_nat q + Pos.to_nat q)%nat by lia.
      rewrite iter_nat_add, <- IH. destruct (iter_pos step q s); [reflexivity|apply IH].
    - rewrite Pos2Nat.inj_1. cbn [iter_nat]. destruct (step s); reflexivity.
  Qed.
End IterFacts.

(* ================================================================ table storage *)
Lemma tget_p_leaf p : tget_p TLeaf p = (0, 0).
Proof. reflexivity. Qed.

Lemma tget_p_set_same p : forall t s r, tget_p (tset_p t p s r) p = (s, r).
Proof. induction p; intros t s r; destruct t; cbn; auto. Qed.

Lemma tget_p_set_other p : forall q t s r, p <> q -> tget_p (tset_p t p s r) q = tget_p t q.
Proof.
  induction p; intros q t s r Hne; destruct q; destruct t; cbn; try reflexivity; try congruence;
    try (rewrite IHp by congruence; reflexivity).
Qed.

Lemma idx_inj a b : 0 <= a -> 0 <= b -> idx a = idx b -> a = b.
Proof. unfold idx. intros Ha Hb H. apply Z2Pos.inj in H; lia. Qed.

Lemma tget_leaf j : tget TLeaf j = (0, 0).
Proof. reflexivity. Qed.
Lemma tget_set_same t j s r : tget (tset t j s r) j = (s, r).
Proof. apply tget_p_set_same. Qed.
Lemma tget_set_other t j j' s r : 0 <= j -> 0 <= j' -> j <> j' -> tget (tset t j s r) j' = tget t j'.
Proof. intros. apply tget_p_set_other. intro E. apply idx_inj in E; lia. Qed.

Lemma key_leaf j : key TLeaf j = 0.
Proof. reflexivity. Qed.
Lemma key_set_same t j s r : key (tset t j s r) j = s.
Proof. unfold key. rewrite tget_set_same. reflexivity. Qed.
Lemma key_set_other t j j' s r : 0 <= j -> 0 <= j' -> j <> j' -> key (tset t j s r) j' = key t j'.
Proof. intros. unfold key. rewrite tget_set_other; auto. Qed.

(* ================================================================ slots 0 .. B-1 and counting *)
Definition slots (B : Z) : list Z := map Z.of_nat (seq 0 (Z.to_nat B)).
Definition occ (T : tab) (j : Z) : bool := negb (key T j =? 0).
Definition cnt (T : tab) (B : Z) : Z := Z.of_nat (length (filter (occ T) (slots B))).

Lemma in_slots B j : In j (slots B) <-> 0 <= j < B.
Proof.
  unfold slots. rewrite in_map_iff. split.
  - intros [n [<- Hn]]. apply in_seq in Hn. lia.
  - intros H. exists (Z.to_nat j). split; [lia|]. apply in_seq. lia.
Qed.

Lemma slots_length B : length (slots B) = Z.to_nat B.
Proof. unfold slots. rewrite map_length, seq_length. reflexivity. Qed.

Lemma slots_nodup B : NoDup (slots B).
Proof.
  unfold slots. apply FinFun.Injective_map_NoDup; [|apply seq_NoDup].
  intros a b H. lia.
Qed.

Lemma slots_succ B : 0 <= B -> slots (B + 1) = slots B ++ [B].
Proof.
  intros H. unfold slots. replace (Z.to_nat (B + 1)) with (Z.to_nat B + 1)%nat by lia.
  rewrite seq_app, map_app. cbn. f_equal. f_equal. lia.
Qed.

Lemma cnt_succ T B : 0 <= B -> cnt T (B + 1) = cnt T B + (if occ T B then 1 else 0).
Proof.
  intros H. unfold cnt. rewrite slots_succ by lia. rewrite filter_app, app_length. cbn.
  destruct (occ T B); cbn; lia.
Qed.

Lemma cnt_zero T B : B <= 0 -> cnt T B = 0.
Proof. intros H. unfold cnt, slots. replace (Z.to_nat B) with 0%nat by lia. reflexivity. Qed.

Lemma cnt_nonneg T B : 0 <= cnt T B.
Proof. unfold cnt. lia. Qed.

Lemma cnt_mono T a : 0 <= a -> forall b, a <= b -> cnt T a <= cnt T b.
Proof.
  intros Ha b Hb. replace b with (a + Z.of_nat (Z.to_nat (b - a))) by lia.
  induction (Z.to_nat (b - a)) as [|n IH]; [replace (a + Z.of_nat 0) with a by lia; lia|].
  replace (a + Z.of_nat (S n)) with (a + Z.of_nat n + 1) by lia.
  rewrite cnt_succ by lia. destruct (occ T (a + Z.of_nat n)); lia.
Qed.

Lemma filter_len_le {A} (f : A -> bool) l : (length (filter f l) <= length l)%nat.
Proof. induction l as [|a l IH]; cbn; [lia|]. destruct (f a); cbn; lia. Qed.

Lemma cnt_le T B : 0 <= B -> cnt T B <= B.
Proof.
  intros H. unfold cnt. pose proof (filter_len_le (occ T) (slots B)) as L.
  rewrite slots_length in L. lia.
Qed.

Lemma filter_lt_exists {A} (f : A -> bool) l :
  (length (filter f l) < length l)%nat -> exists x, In x l /\ f x = false.
Proof.
  induction l as [|a l IH]; cbn; [lia|]. destruct (f a) eqn:E; cbn; intros H.
  - destruct IH as [x [Hx Hf]]; [lia|]. exists x; auto.
  - exists a; auto.
Qed.

Lemma filter_none {A} (f : A -> bool) l : length (filter f l) = 0%nat -> forall x, In x l -> f x = false.
Proof.
  induction l as [|a l IH]; cbn; [tauto|]. destruct (f a) eqn:E; cbn; [lia|].
  intros H x [<-|Hx]; auto.
Qed.

Lemma filter_flip_one {A} (f g : A -> bool) l j :
  NoDup l -> In j l -> f j = false -> g j = true -> (forall x, In x l -> x <> j -> g x = f x) ->
  length (filter g l) = S (length (filter f l)).
Proof.
  induction l as [|a l IH]; cbn; [tauto|]. intros Hnd [->|Hin] Hf Hg Hext.
  - rewrite Hf, Hg. cbn. f_equal. inversion Hnd; subst.
    f_equal. apply filter_ext_in. intros x Hx. apply Hext; [auto|]. intro; subst; tauto.
  - inversion Hnd; subst. assert (a <> j) by (intro; subst; tauto).
    rewrite (Hext a) by auto. destruct (f a); cbn; rewrite IH; auto.
Qed.

Lemma cnt_ext T T' B : (forall j, 0 <= j -> key T' j = key T j) -> cnt T' B = cnt T B.
Proof.
  intros H. unfold cnt. f_equal. f_equal. apply filter_ext_in. intros j Hj. apply in_slots in Hj.
  unfold occ. rewrite H by lia. reflexivity.
Qed.

Lemma cnt_empty_exists T B : cnt T B < B -> exists j, 0 <= j < B /\ key T j = 0.
Proof.
  intros H. destruct (filter_lt_exists (occ T) (slots B)) as [j [Hj Hf]].
  - unfold cnt in H. rewrite slots_length. lia.
  - exists j. apply in_slots in Hj. split; [lia|]. unfold occ in Hf. lia.
Qed.

Lemma cnt_zero_empty T B : cnt T B = 0 -> forall j, 0 <= j < B -> key T j = 0.
Proof.
  intros H j Hj. unfold cnt in H. assert (E : occ T j = false).
  { apply (filter_none (occ T) (slots B)); [lia|]. apply in_slots; lia. }
  unfold occ in E. lia.
Qed.

Lemma cnt_set_new T B j s r : 0 <= j < B -> key T j = 0 -> s <> 0 -> cnt (tset T j s r) B = cnt T B + 1.
Proof.
  intros Hj Hk Hs. unfold cnt.
  rewrite (filter_flip_one (occ T) (occ (tset T j s r)) (slots B) j).
  - lia.
  - apply slots_nodup.
  - apply in_slots; lia.
  - unfold occ. rewrite Hk. reflexivity.
  - unfold occ. rewrite key_set_same. lia.
  - intros x Hin Hx. apply in_slots in Hin. unfold occ. rewrite key_set_other by lia. reflexivity.
Qed.

(* ================================================================ constants and size_t arithmetic *)
Lemma w64_u64 x : w64 x = u64 x.
Proof. unfold w64, u64. change 18446744073709551615 with (Z.ones 64). rewrite Z.land_ones by lia. reflexivity. Qed.
Lemma w64_id x : in_u64 x -> w64 x = x.
Proof. intros. rewrite w64_u64. apply u64_id. assumption. Qed.

Lemma pow2_pos e : 0 <= e -> 0 < 2 ^ e.
Proof. intros. apply Z.pow_pos_nonneg; lia. Qed.
Lemma pow2_mono a b : 0 <= a <= b -> 2 ^ a <= 2 ^ b.
Proof. intros. apply Z.pow_le_mono_r; lia. Qed.
Lemma pow2_succ e : 0 <= e -> 2 ^ (e + 1) = 2 ^ e * 2.
Proof. intros. rewrite Z.pow_add_r by lia. reflexivity. Qed.

(* table sizes: any power of two up to 2^60 (the map theorems); the reference policy stays below 2^52 *)
Definition bucket_ok (B : Z) : Prop := exists e, 0 <= e <= 60 /\ B = 2 ^ e.

Lemma bucket_ok_range B : bucket_ok B -> 0 < B <= 2 ^ 60.
Proof.
  intros [e [He ->]]. split; [apply pow2_pos; lia|apply pow2_mono; lia].
Qed.

Lemma is_pow2_ok nb : is_pow2 nb = true -> bucket_ok nb.
Proof.
  unfold is_pow2. intros H. exists (Z.log2 nb). pose proof (Z.log2_nonneg nb). split; lia.
Qed.

Lemma is_pow2_pow e : 0 <= e <= 60 -> is_pow2 (2 ^ e) = true.
Proof.
  intros He. unfold is_pow2. rewrite Z.log2_pow2 by lia. pose proof (pow2_pos e). lia.
Qed.

Lemma probe_mod k i e : 0 <= e <= 64 -> probe k i (2 ^ e - 1) = (k + i) mod 2 ^ e.
Proof.
  intros He. unfold probe. rewrite w64_u64. unfold u64. replace (2 ^ e - 1) with (Z.ones e) by (rewrite Z.ones_equiv; lia).
  rewrite Z.land_ones by lia. symmetry.
  change 18446744073709551616 with (2 ^ 64).
  apply Zmod_div_mod; [apply pow2_pos; lia|reflexivity|].
  exists (2 ^ (64 - e)). rewrite <- Z.pow_add_r by lia. f_equal. lia.
Qed.

Lemma slot_back k j B : 0 < B -> 0 <= j < B -> (k + (j - k) mod B) mod B = j.
Proof.
  intros HB Hj. rewrite Z.add_mod_idemp_r by lia. replace (k + (j - k)) with j by lia. apply Z.mod_small; lia.
Qed.

Lemma key_of_tget T j s r : tget T j = (s, r) -> key T j = s.
Proof. unfold key. intros ->. reflexivity. Qed.

(* ================================================================ the probe loop *)
Lemma probe_iter T e k src :
  0 <= e <= 60 ->
  forall n i, 0 <= i -> i + Z.of_nat n <= 2 ^ 61 ->
  (exists x, i <= x < i + Z.of_nat n /\ key T ((k + x) mod 2 ^ e) = 0) ->
  exists d, i <= d < i + Z.of_nat n /\
    (forall x, i <= x < d -> key T ((k + x) mod 2 ^ e) <> 0 /\ key T ((k + x) mod 2 ^ e) <> src) /\
    ((key T ((k + d) mod 2 ^ e) = 0 /\
      iter_nat (probe_step T (2 ^ e - 1) k src) n i = inl (PEmpty ((k + d) mod 2 ^ e))) \/
     (key T ((k + d) mod 2 ^ e) <> 0 /\ exists r, tget T ((k + d) mod 2 ^ e) = (src, r) /\
      iter_nat (probe_step T (2 ^ e - 1) k src) n i = inl (PFound ((k + d) mod 2 ^ e) r))).
Proof.
  intros He. induction n as [|n IH]; intros i Hi Hn [x [Hx Hk]]; [lia|].
  cbn [iter_nat].
  destruct (tget T ((k + i) mod 2 ^ e)) as [s r] eqn:Eg. pose proof (key_of_tget _ _ _ _ Eg) as Ek.
  assert (Hstep : probe_step T (2 ^ e - 1) k src i =
                  if s =? 0 then inl (PEmpty ((k + i) mod 2 ^ e))
                  else if s =? src then inl (PFound ((k + i) mod 2 ^ e) r) else inr (w64 (i + 1))).
  { unfold probe_step. rewrite probe_mod by lia. rewrite Eg. reflexivity. }
  rewrite Hstep. clear Hstep.
  destruct (s =? 0) eqn:E0.
  - exists i. split; [lia|]. split; [intros; lia|]. left. split; [lia|reflexivity].
  - destruct (s =? src) eqn:Es.
    + exists i. split; [lia|]. split; [intros; lia|]. right. split; [lia|].
      exists r. assert (s = src) as Hss by lia. rewrite Hss in Eg. split; [assumption|reflexivity].
    + rewrite w64_id by (unfold in_u64; change (2 ^ 61) with 2305843009213693952 in Hn; lia).
      assert (x <> i) by (intro; subst x; lia).
      destruct (IH (i + 1)) as [d [Hd [Hpre Hres]]]; [lia|lia|exists x; split; [lia|assumption]|].
      exists d. split; [lia|]. split.
      * intros y Hy. destruct (Z.eq_dec y i) as [->|]; [lia|]. apply Hpre. lia.
      * exact Hres.
Qed.

Section Proofs.
  Variable hash : Z -> Z.

  Record inv (m : refmap) : Prop := {
    inv_B : buckets m = 0 \/ bucket_ok (buckets m);
    inv_cnt : 0 <= count m <= buckets m /\ (buckets m <> 0 -> count m < buckets m);
    inv_rng : forall j, 0 <= j -> key (table m) j <> 0 -> j < buckets m;
    inv_occ : count m = cnt (table m) (buckets m);
    inv_reach : forall j, 0 <= j < buckets m -> key (table m) j <> 0 ->
      forall i, 0 <= i < (j - hash (key (table m) j)) mod buckets m ->
      key (table m) ((hash (key (table m) j) + i) mod buckets m) <> 0;
    inv_dist : forall j1 j2, 0 <= j1 < buckets m -> 0 <= j2 < buckets m ->
      key (table m) j1 <> 0 -> key (table m) j1 = key (table m) j2 -> j1 = j2 }.

  (* the map content: key k is stored with reference r *)
  Definition holds (m : refmap) (k r : Z) : Prop :=
    k <> 0 /\ exists j, 0 <= j < buckets m /\ tget (table m) j = (k, r).

  Lemma inv_pos m : inv m -> buckets m <> 0 -> bucket_ok (buckets m) /\ count m < buckets m.
  Proof.
    intros I Hb. destruct (inv_B m I) as [|Hok]; [lia|]. split; [assumption|].
    apply (inv_cnt m I). assumption.
  Qed.

  Lemma holds_fun m k r r' : inv m -> holds m k r -> holds m k r' -> r = r'.
  Proof.
    intros I [Hk [j [Hj Hg]]] [_ [j' [Hj' Hg']]].
    assert (j = j').
    { apply (inv_dist m I); try lia; rewrite (key_of_tget _ _ _ _ Hg); [assumption|].
      rewrite (key_of_tget _ _ _ _ Hg'). reflexivity. }
    subst j'. congruence.
  Qed.

  (* where the loop stops: after d steps, on an empty slot or on the key *)
  Lemma probe_loop_spec m src :
    inv m -> buckets m <> 0 ->
    exists d, 0 <= d < buckets m /\
      (forall x, 0 <= x < d -> key (table m) ((hash src + x) mod buckets m) <> 0 /\
                               key (table m) ((hash src + x) mod buckets m) <> src) /\
      ((key (table m) ((hash src + d) mod buckets m) = 0 /\
        probe_loop hash m src = Some (PEmpty ((hash src + d) mod buckets m))) \/
       (key (table m) ((hash src + d) mod buckets m) <> 0 /\
        exists r, tget (table m) ((hash src + d) mod buckets m) = (src, r) /\
        probe_loop hash m src = Some (PFound ((hash src + d) mod buckets m) r))).
  Proof.
    intros I Hb. destruct (inv_pos m I Hb) as [[e [He HB]] Hc].
    assert (Hpos : 0 < buckets m) by (rewrite HB; apply pow2_pos; lia).
    destruct (cnt_empty_exists (table m) (buckets m)) as [j0 [Hj0 Hk0]]; [rewrite <- (inv_occ m I); lia|].
    unfold probe_loop. rewrite iter_pos_nat. rewrite HB.
    assert (Hle : 2 ^ e <= 2 ^ 60) by (apply pow2_mono; lia).
    destruct (probe_iter (table m) e (hash src) src) with (n := Pos.to_nat (Z.to_pos (2 ^ e))) (i := 0)
      as [d [Hd [Hpre Hres]]].
    - lia.
    - lia.
    - rewrite positive_nat_Z, Z2Pos.id by lia. change (2 ^ 61) with (2 ^ 60 * 2). lia.
    - exists ((j0 - hash src) mod 2 ^ e). rewrite positive_nat_Z, Z2Pos.id by lia.
      split; [pose proof (Z.mod_pos_bound (j0 - hash src) (2 ^ e)); lia|].
      rewrite slot_back by lia. assumption.
    - rewrite positive_nat_Z, Z2Pos.id in Hd by lia.
      exists d. split; [lia|]. split; [exact Hpre|].
      destruct Hres as [[H0 Hit]|[H0 [r [Hg Hit]]]].
      + left. split; [assumption|]. rewrite Hit. reflexivity.
      + right. split; [assumption|]. exists r. split; [assumption|]. rewrite Hit. reflexivity.
  Qed.

  (* stopping on an empty slot means the key is nowhere in the table *)
  Lemma stop_empty_absent m src d :
    inv m -> 0 < buckets m -> src <> 0 -> 0 <= d < buckets m ->
    (forall x, 0 <= x < d -> key (table m) ((hash src + x) mod buckets m) <> 0 /\
                             key (table m) ((hash src + x) mod buckets m) <> src) ->
    key (table m) ((hash src + d) mod buckets m) = 0 ->
    forall j, 0 <= j < buckets m -> key (table m) j <> src.
  Proof.
    intros I Hpos Hs Hd Hpre Hempty j Hj Hkey.
    pose proof (Z.mod_pos_bound (j - hash src) (buckets m) Hpos) as Hdk.
    pose proof (slot_back (hash src) j (buckets m) Hpos Hj) as Hback.
    pose proof (inv_reach m I j Hj) as Hreach. rewrite Hkey in Hreach. specialize (Hreach Hs).
    destruct (Z_lt_dec ((j - hash src) mod buckets m) d) as [Hlt|Hge].
    - destruct (Hpre ((j - hash src) mod buckets m)) as [_ Hne]; [lia|]. rewrite Hback in Hne. contradiction.
    - destruct (Z.eq_dec ((j - hash src) mod buckets m) d) as [Heq|Hne].
      + rewrite <- Heq, Hback in Hempty. lia.
      + apply (Hreach d); [lia|assumption].
  Qed.

  Lemma find_spec m k :
    inv m ->
    (exists r, holds m k r /\ find hash m k = Some r) \/
    ((forall r, ~ holds m k r) /\ find hash m k = Some RM_NOT_FOUND).
  Proof.
    intros I. unfold find. destruct (count m =? 0) eqn:Ec.
    - right. split; [|reflexivity]. intros r [Hk [j [Hj Hg]]].
      pose proof (cnt_zero_empty (table m) (buckets m)) as Hz. rewrite <- (inv_occ m I) in Hz.
      apply key_of_tget in Hg. rewrite (Hz ltac:(lia) j Hj) in Hg. lia.
    - assert (Hb : buckets m <> 0).
      { intro E. pose proof (inv_cnt m I) as H. rewrite E in H. lia. }
      destruct (inv_pos m I Hb) as [Hok _]. pose proof (bucket_ok_range _ Hok) as Hr.
      destruct (probe_loop_spec m k I Hb) as [d [Hd [Hpre [[H0 Hl]|[H0 [r [Hg Hl]]]]]]]; rewrite Hl.
      + right. split; [|reflexivity]. intros r [Hk [j [Hj Hgj]]].
        apply (stop_empty_absent m k d I ltac:(lia) Hk Hd Hpre H0 j Hj). apply (key_of_tget _ _ _ _ Hgj).
      + left. exists r. split; [|reflexivity]. split.
        * rewrite (key_of_tget _ _ _ _ Hg) in H0. assumption.
        * exists ((hash k + d) mod buckets m). split; [apply Z.mod_pos_bound; lia|assumption].
  Qed.

  Lemma slot_fwd k d B : 0 < B -> 0 <= d < B -> ((k + d) mod B - k) mod B = d.
  Proof.
    intros HB Hd. rewrite Zminus_mod_idemp_l. replace (k + d - k) with d by lia. apply Z.mod_small; lia.
  Qed.

  Lemma key_set_mono T j s r x : 0 <= j -> 0 <= x -> s <> 0 -> key T x <> 0 -> key (tset T j s r) x <> 0.
  Proof.
    intros Hj Hx Hs Hk. destruct (Z.eq_dec x j) as [->|Hne].
    - rewrite key_set_same. assumption.
    - rewrite key_set_other by lia. assumption.
  Qed.

  (* the invariant speaks about keys only *)
  Lemma inv_key_ext m m' :
    buckets m' = buckets m -> count m' = count m ->
    (forall x, 0 <= x -> key (table m') x = key (table m) x) -> inv m -> inv m'.
  Proof.
    intros HB HC HK I. constructor; rewrite ?HB, ?HC.
    - apply (inv_B m I).
    - apply (inv_cnt m I).
    - intros j Hj. rewrite HK by lia. apply (inv_rng m I); lia.
    - rewrite (cnt_ext (table m) (table m')) by assumption. apply (inv_occ m I).
    - intros j Hj. rewrite HK by lia. intros Hk i Hi.
      rewrite HK by (apply Z.mod_pos_bound; lia). apply (inv_reach m I); assumption.
    - intros j1 j2 H1 H2. rewrite !HK by lia. apply (inv_dist m I); assumption.
  Qed.

  Lemma insert_core_spec m k r :
    inv m -> buckets m <> 0 -> ((forall r0, ~ holds m k r0) -> count m + 1 < buckets m) -> k <> 0 ->
    exists m', insert_core hash m k r = Some m' /\ inv m' /\ buckets m' = buckets m /\
      (forall k' r', holds m' k' r' <-> (k' = k /\ r' = r) \/ (k' <> k /\ holds m k' r')) /\
      ((exists r0, holds m k r0) -> count m' = count m) /\
      ((forall r0, ~ holds m k r0) -> count m' = count m + 1).
  Proof.
    intros I Hb Hc Hk.
    destruct (inv_pos m I Hb) as [Hok HcB]. pose proof (bucket_ok_range _ Hok) as HBr.
    destruct (probe_loop_spec m k I Hb) as [d [Hd [Hpre Hres]]].
    pose proof (Z.mod_pos_bound (hash k + d) (buckets m) ltac:(lia)) as Hj.
    set (j := (hash k + d) mod buckets m) in *.
    unfold insert_core.
    destruct Hres as [[H0 Hl]|[H0 [r0 [Hg Hl]]]]; rewrite Hl; cbn [apply_pres].
    - (* new key *)
      pose proof (stop_empty_absent m k d I ltac:(lia) Hk Hd Hpre H0) as Habs.
      assert (Hcnt : w64 (count m + 1) = count m + 1).
      { apply w64_id. unfold in_u64. pose proof (inv_cnt m I). change (2 ^ 60) with 1152921504606846976 in HBr. lia. }
      assert (Hc1 : count m + 1 < buckets m).
      { apply Hc. intros r0 [_ [x [Hx Hgx]]]. apply (Habs x Hx). apply (key_of_tget _ _ _ _ Hgx). }
      rewrite Hcnt.
      eexists. split; [reflexivity|]. split; [|split; [reflexivity|split; [|split]]].
      + constructor; cbn [count buckets table].
        * apply (inv_B m I).
        * pose proof (inv_cnt m I). lia.
        * intros x Hx Hkx. destruct (Z.eq_dec x j) as [->|Hne]; [lia|].
          rewrite key_set_other in Hkx by lia. apply (inv_rng m I); assumption.
        * rewrite cnt_set_new by (assumption || lia). rewrite (inv_occ m I). reflexivity.
        * intros x Hx Hkx i Hi. destruct (Z.eq_dec x j) as [->|Hne].
          -- rewrite key_set_same in *. unfold j in Hi. rewrite slot_fwd in Hi by lia.
             apply key_set_mono; [lia|apply Z.mod_pos_bound; lia|lia|]. apply Hpre. lia.
          -- rewrite (key_set_other (table m) j x k r) in * by lia.
             apply key_set_mono; [lia|apply Z.mod_pos_bound; lia|lia|]. apply (inv_reach m I x Hx Hkx). assumption.
        * intros j1 j2 H1 H2 Hk1 Heq.
          destruct (Z.eq_dec j1 j) as [->|N1]; destruct (Z.eq_dec j2 j) as [->|N2]; try reflexivity.
          -- rewrite key_set_same in Heq. rewrite key_set_other in Heq by lia.
             exfalso. apply (Habs j2 H2). congruence.
          -- rewrite key_set_same in Heq. rewrite key_set_other in Heq by lia.
             exfalso. apply (Habs j1 H1). congruence.
          -- rewrite !key_set_other in * by lia. apply (inv_dist m I); assumption.
      + intros k' r'. unfold holds. cbn [buckets table]. split.
        * intros [Hk' [x [Hx Hgx]]]. destruct (Z.eq_dec x j) as [->|Hne].
          -- rewrite tget_set_same in Hgx. left. split; congruence.
          -- rewrite tget_set_other in Hgx by lia. right. split.
             ++ intro E. subst k'. apply (Habs x Hx). apply (key_of_tget _ _ _ _ Hgx).
             ++ split; [assumption|]. exists x. split; assumption.
        * intros [[-> ->]|[Hne [Hk' [x [Hx Hgx]]]]].
          -- split; [assumption|]. exists j. split; [lia|apply tget_set_same].
          -- split; [assumption|]. exists x. split; [assumption|].
             rewrite tget_set_other; [assumption|lia|lia|].
             intro E. subst x. apply key_of_tget in Hgx. lia.
      + intros [r0 [_ [x [Hx Hgx]]]]. exfalso. apply (Habs x Hx). apply (key_of_tget _ _ _ _ Hgx).
      + intros _. reflexivity.
    - (* existing key: the reference is replaced *)
      pose proof (key_of_tget _ _ _ _ Hg) as Hkj.
      assert (HK : forall x, 0 <= x -> key (tset (table m) j k r) x = key (table m) x).
      { intros x Hx. destruct (Z.eq_dec x j) as [->|Hne].
        - rewrite key_set_same. symmetry. assumption.
        - rewrite key_set_other by lia. reflexivity. }
      eexists. split; [reflexivity|]. split; [|split; [reflexivity|split; [|split]]].
      + apply (inv_key_ext m); [reflexivity|reflexivity|exact HK|exact I].
      + intros k' r'. unfold holds. cbn [buckets table]. split.
        * intros [Hk' [x [Hx Hgx]]]. destruct (Z.eq_dec x j) as [->|Hne].
          -- rewrite tget_set_same in Hgx. left. split; congruence.
          -- rewrite tget_set_other in Hgx by lia. right. split.
             ++ intro E. subst k'. apply Hne. apply (inv_dist m I); try lia.
                ** rewrite (key_of_tget _ _ _ _ Hgx). assumption.
                ** rewrite (key_of_tget _ _ _ _ Hgx). symmetry. assumption.
             ++ split; [assumption|]. exists x. split; assumption.
        * intros [[-> ->]|[Hne [Hk' [x [Hx Hgx]]]]].
          -- split; [assumption|]. exists j. split; [lia|apply tget_set_same].
          -- split; [assumption|]. exists x. split; [assumption|].
             rewrite tget_set_other; [assumption|lia|lia|].
             intro E. subst x. rewrite Hg in Hgx. congruence.
      + intros _. reflexivity.
      + intros Habs. exfalso. apply (Habs r0). split; [assumption|]. exists j. split; [lia|assumption].
  Qed.
  (* ================================================================ rehash *)
  Definition ins_ok (ins : refmap -> Z -> Z -> option refmap) : Prop :=
    forall m s r, ins m s r = insert_core hash m s r.

  Lemma cnt_leaf B : cnt TLeaf B = 0.
  Proof.
    unfold cnt. replace (filter (occ TLeaf) (slots B)) with (@nil Z); [reflexivity|].
    induction (slots B) as [|a l IH]; [reflexivity|]. cbn. exact IH.
  Qed.

  Lemma inv_fresh b : bucket_ok b -> inv {| count := 0; buckets := b; table := TLeaf |}.
  Proof.
    intros Hb. pose proof (bucket_ok_range _ Hb).
    constructor; cbn [count buckets table].
    - right. assumption.
    - lia.
    - intros j _ Hz. rewrite key_leaf in Hz. lia.
    - rewrite cnt_leaf. reflexivity.
    - intros j _ Hz. rewrite key_leaf in Hz. lia.
    - intros j1 j2 _ _ Hz. rewrite key_leaf in Hz. lia.
  Qed.

  Section Rehash.
    Variables (mo : refmap) (ins : refmap -> Z -> Z -> option refmap) (b : Z).
    Hypothesis Io : inv mo.
    Hypothesis Hins : ins_ok ins.
    Hypothesis Hb : bucket_ok b.
    Hypothesis Hco : count mo < b.

    Let P (i : Z) (mi : refmap) : Prop :=
      inv mi /\ buckets mi = b /\ count mi = cnt (table mo) i /\
      forall k r, holds mi k r <-> (k <> 0 /\ exists j, 0 <= j < i /\ tget (table mo) j = (k, r)).

    Lemma bold_range : 0 <= buckets mo <= 2 ^ 60.
    Proof.
      destruct (inv_B mo Io) as [E|Hok]; [rewrite E; split; [lia|apply Z.lt_le_incl, pow2_pos; lia]|].
      pose proof (bucket_ok_range _ Hok). lia.
    Qed.

    Lemma rehash_iter n : forall i mi,
      0 <= i <= buckets mo -> Z.of_nat n = buckets mo + 1 - i -> P i mi ->
      exists m', iter_nat (rehash_step ins (table mo) (buckets mo)) n (i, mi) = inl (Some m') /\ P (buckets mo) m'.
    Proof.
      pose proof bold_range as HBo. change (2 ^ 60) with 1152921504606846976 in HBo.
      induction n as [|n IH]; intros i mi Hi Hn HP; [lia|].
      cbn [iter_nat]. unfold rehash_step at 1.
      destruct (i <? buckets mo) eqn:Elt.
      2:{ assert (i = buckets mo) by lia. subst i. exists mi. split; [reflexivity|assumption]. }
      destruct (tget (table mo) i) as [s r] eqn:Eg. pose proof (key_of_tget _ _ _ _ Eg) as Ek.
      rewrite w64_id by (unfold in_u64; lia).
      destruct HP as (Ii & HBi & Hci & Hhi).
      destruct (s =? 0) eqn:E0.
      - apply IH; [lia|lia|]. split; [assumption|]. split; [assumption|]. split.
        + rewrite cnt_succ by lia. unfold occ. rewrite Ek. replace (s =? 0) with true. cbn. lia.
        + intros k r'. rewrite Hhi. split.
          * intros [Hk [j [Hj Hg]]]. split; [assumption|]. exists j. split; [lia|assumption].
          * intros [Hk [j [Hj Hg]]]. split; [assumption|]. exists j. split; [|assumption].
            destruct (Z.eq_dec j i) as [->|]; [|lia]. rewrite Eg in Hg. assert (s = k) by congruence. lia.
      - assert (Hs : s <> 0) by lia.
        assert (Hlt : cnt (table mo) i < count mo).
        { rewrite (inv_occ mo Io).
          apply Z.lt_le_trans with (cnt (table mo) (i + 1)); [|apply cnt_mono; lia].
          rewrite cnt_succ by lia. unfold occ. rewrite Ek, E0. cbn. lia. }
        rewrite Hins by (rewrite ?HBi; assumption || lia).
        assert (Habs : forall r0, ~ holds mi s r0).
        { intros r0 Hh. apply Hhi in Hh. destruct Hh as [_ [j [Hj Hg]]].
          assert (j = i); [|lia]. apply (inv_dist mo Io); try lia.
          - rewrite (key_of_tget _ _ _ _ Hg). assumption.
          - rewrite (key_of_tget _ _ _ _ Hg). congruence. }
        pose proof (bucket_ok_range _ Hb) as Hbr.
        destruct (insert_core_spec mi s r Ii) as [m2 (Hi2 & I2 & HB2 & Hh2 & _ & Hc2)]; [rewrite HBi; lia|intros _; rewrite HBi; lia|assumption|].
        rewrite Hi2. apply IH; [lia|lia|]. split; [assumption|]. split; [congruence|]. split.
        + rewrite (Hc2 Habs), Hci. rewrite cnt_succ by lia. unfold occ. rewrite Ek, E0. reflexivity.
        + intros k r'. rewrite Hh2. rewrite Hhi. split.
          * intros [[-> ->]|[Hne [Hk [j [Hj Hg]]]]].
            -- split; [assumption|]. exists i. split; [lia|assumption].
            -- split; [assumption|]. exists j. split; [lia|assumption].
          * intros [Hk [j [Hj Hg]]]. destruct (Z.eq_dec j i) as [->|Hne].
            -- left. rewrite Eg in Hg. split; congruence.
            -- right. split.
               ++ intro E. subst k. apply Hne. apply (inv_dist mo Io); try lia.
                  ** rewrite (key_of_tget _ _ _ _ Hg). assumption.
                  ** rewrite (key_of_tget _ _ _ _ Hg). congruence.
               ++ split; [assumption|]. exists j. split; [lia|assumption].
    Qed.

    Lemma rehash_spec :
      exists m', rehash ins (table mo) (buckets mo) {| count := 0; buckets := b; table := TLeaf |} = Some m' /\
        inv m' /\ buckets m' = b /\ count m' = count mo /\ forall k r, holds m' k r <-> holds mo k r.
    Proof.
      pose proof bold_range as HBo.
      unfold rehash. rewrite iter_pos_nat.
      destruct (rehash_iter (Pos.to_nat (Z.to_pos (buckets mo + 1))) 0 {| count := 0; buckets := b; table := TLeaf |})
        as [m' [Hit (I' & HB' & Hc' & Hh')]].
      - lia.
      - rewrite positive_nat_Z, Z2Pos.id by lia. lia.
      - split; [apply inv_fresh; assumption|]. split; [reflexivity|]. split.
        + cbn [count]. rewrite cnt_zero by lia. reflexivity.
        + intros k r. split.
          * intros [Hk [j [_ Hg]]]. cbn [table] in Hg. rewrite tget_leaf in Hg. congruence.
          * intros [_ [j [Hj _]]]. lia.
      - exists m'. rewrite Hit. split; [reflexivity|]. split; [assumption|]. split; [assumption|]. split.
        + rewrite Hc'. symmetry. apply (inv_occ mo Io).
        + intros k r. rewrite Hh'. unfold holds. reflexivity.
    Qed.
  End Rehash.
  (* ================================================================ bringing the table to an observed size *)
  Lemma regrow_spec m nb :
    inv m -> grow_ok m nb = true ->
    exists m1, regrow hash m nb = Some m1 /\ inv m1 /\ buckets m1 = nb /\ count m1 = count m /\
               (forall k r, holds m1 k r <-> holds m k r) /\ bucket_ok nb /\ count m < nb.
  Proof.
    intros I Hg. unfold grow_ok in Hg. apply andb_true_iff in Hg. destruct Hg as [Hp Hc].
    pose proof (is_pow2_ok nb Hp) as Hok. assert (Hlt : count m < nb) by lia.
    unfold regrow. destruct (nb =? buckets m) eqn:E.
    - exists m. assert (Hn : nb = buckets m) by lia.
      split; [reflexivity|]. split; [assumption|]. split; [auto|]. split; [reflexivity|]. split; [tauto|]. split; assumption.
    - destruct (rehash_spec m (insert_core hash) nb I ltac:(intros m0 s0 r0; reflexivity) Hok Hlt) as [m1 (Hr & I1 & HB1 & Hc1 & Hh1)].
      exists m1. split; [assumption|]. split; [assumption|]. split; [assumption|]. split; [assumption|]. split; [assumption|]. split; assumption.
  Qed.

  Lemma inv_init : inv rm_init.
  Proof.
    constructor; cbn [rm_init count buckets table].
    - left. reflexivity.
    - lia.
    - intros j _ Hz. rewrite key_leaf in Hz. lia.
    - rewrite cnt_leaf. reflexivity.
    - intros j Hj. lia.
    - intros j1 j2 Hj. lia.
  Qed.

  Lemma inv_reset m : inv m -> inv (reset m) /\ forall k r, ~ holds (reset m) k r.
  Proof.
    intros I. unfold reset. destruct (count m =? 0) eqn:Ec.
    - split.
      + apply (inv_key_ext m); cbn [count buckets table]; [reflexivity|lia|reflexivity|assumption].
      + intros k r [Hk [j [Hj Hg]]]. cbn [buckets table] in *. apply key_of_tget in Hg.
        pose proof (cnt_zero_empty (table m) (buckets m)) as Hz. rewrite <- (inv_occ m I) in Hz.
        rewrite Hz in Hg by lia. lia.
    - split.
      + constructor; cbn [count buckets table].
        * apply (inv_B m I).
        * pose proof (inv_cnt m I). lia.
        * intros j _ Hz. rewrite key_leaf in Hz. lia.
        * rewrite cnt_leaf. reflexivity.
        * intros j _ Hz. rewrite key_leaf in Hz. lia.
        * intros j1 j2 _ _ Hz. rewrite key_leaf in Hz. lia.
      + intros k r [Hk [j [_ Hg]]]. cbn [table] in Hg. rewrite tget_leaf in Hg. congruence.
  Qed.

  (* ================================================================ refinement of the abstract map *)
  Definition amap := Z -> option Z.
  Definition aempty : amap := fun _ => None.
  Definition aupd (A : amap) (k r : Z) : amap := fun x => if x =? k then Some r else A x.
  Definition alook (A : amap) (k : Z) : Z := match A k with Some r => r | None => RM_NOT_FOUND end.
  Definition present (A : amap) (k : Z) : bool := match A k with Some _ => true | None => false end.

  Definition rep (m : refmap) (A : amap) : Prop := inv m /\ forall k r, holds m k r <-> A k = Some r.

  (* THE SIDE CONDITION on an observed bucket count, in terms of the number of stored keys [c] and the abstract map:
     a power of two (<= 2^60) that holds the stored keys, and after the operation at least one slot stays empty *)
  Definition policy_ok (c : Z) (A : amap) (o : op) : bool :=
    match o with
    | OInsert s r (OBuckets nb) =>
      (s =? 0) || (is_pow2 nb && (c <? nb) && (present A s || (c + 1 <? nb)))
    | OResize (OBuckets nb) => is_pow2 nb && (c <? nb)
    | _ => true
    end.

  Definition abs_step (A : amap) (o : op) (out : outcome) : amap :=
    match o, out with
    | OInsert s r _, Done _ => if s =? 0 then A else aupd A s r
    | OReset, _ | OClear, _ => aempty
    | _, _ => A
    end.

  Definition out_ok (A : amap) (o : op) (out : outcome) : Prop :=
    match o, out with
    | OFind k, Done r => r = alook A k
    | OInsert s r _, Done r' => r' = r
    | OInsert s r g, AllocFailed r' => s <> 0 /\ g = ORefused /\ r' = RM_NOT_FOUND
    | OResize _, Done r => r = 0
    | OResize g, AllocFailed r => g = ORefused /\ r = -1
    | OReset, Done r | OClear, Done r => r = 0
    | OInsert _ _ (OBuckets _), BadPolicy | OResize (OBuckets _), BadPolicy => True
    | _, _ => False
    end.

  Fixpoint trace_ok (A : amap) (ops : list op) (outs : list outcome) : Prop :=
    match ops, outs with
    | [], [] => True
    | o :: ops', out :: outs' => out_ok A o out /\ trace_ok (abs_step A o out) ops' outs'
    | _, _ => False
    end.

  Fixpoint abs_run (A : amap) (ops : list op) (outs : list outcome) : amap :=
    match ops, outs with
    | o :: ops', out :: outs' => abs_run (abs_step A o out) ops' outs'
    | _, _ => A
    end.

  Lemma rep_find m A k : rep m A -> find hash m k = Some (alook A k).
  Proof.
    intros [I H]. unfold alook. destruct (find_spec m k I) as [[r [Hh Hf]]|[Hn Hf]]; rewrite Hf.
    - apply H in Hh. rewrite Hh. reflexivity.
    - destruct (A k) as [r|] eqn:E; [|reflexivity]. apply H in E. exfalso. apply (Hn r E).
  Qed.

  Lemma rep_init : rep rm_init aempty.
  Proof.
    split; [apply inv_init|]. intros k r. unfold aempty. split; [|discriminate].
    intros [_ [j [Hj _]]]. cbn in Hj. lia.
  Qed.

  Lemma insert_spec m A k r nb :
    rep m A -> k <> 0 ->
    exists m' out, insert hash m k r (OBuckets nb) = Some (m', out) /\
      ((policy_ok (count m) A (OInsert k r (OBuckets nb)) = true /\ out = Done r /\ rep m' (aupd A k r) /\ buckets m' = nb /\
        count m' = (if present A k then count m else count m + 1)) \/
       (policy_ok (count m) A (OInsert k r (OBuckets nb)) = false /\ out = BadPolicy /\ m' = m)).
  Proof.
    intros [I H] Hk. unfold insert, policy_ok. replace (k =? 0) with false by lia. cbn [orb].
    destruct (grow_ok m nb) eqn:Eg; cbn [negb].
    2:{ exists m, BadPolicy. split; [reflexivity|]. right. split; [|auto].
        unfold grow_ok in Eg. destruct (is_pow2 nb); [|reflexivity]. destruct (count m <? nb); [discriminate|reflexivity]. }
    destruct (regrow_spec m nb I Eg) as [m1 (Hr & I1 & HB1 & Hc1 & Hh1 & Hok & Hlt)]. rewrite Hr.
    assert (Hgp : is_pow2 nb && (count m <? nb) = true) by exact Eg. rewrite Hgp. cbn [andb].
    pose proof (bucket_ok_range _ Hok) as Hbr.
    assert (Hb1 : buckets m1 <> 0) by lia.
    destruct (probe_loop_spec m1 k I1 Hb1) as [d [Hd [Hpre Hres]]].
    destruct Hres as [[H0 Hl]|[H0 [r0 [Hgt Hl]]]]; rewrite Hl; cbn [is_new andb].
    - (* the key is new *)
      assert (Habs : forall r1, ~ holds m1 k r1).
      { intros r1 [_ [x [Hx Hgx]]].
        apply (stop_empty_absent m1 k d I1 ltac:(lia) Hk Hd Hpre H0 x Hx). apply (key_of_tget _ _ _ _ Hgx). }
      assert (Hnp : present A k = false).
      { unfold present. destruct (A k) as [r1|] eqn:E; [|reflexivity]. exfalso. apply (Habs r1). apply Hh1. apply H. assumption. }
      rewrite Hnp, HB1, Hc1. cbn [orb].
      destruct (count m + 1 <? nb) eqn:Ec; cbn [negb].
      + destruct (insert_core_spec m1 k r I1 Hb1 ltac:(intros _; lia) Hk) as [m2 (Hi2 & I2 & HB2 & Hh2 & _ & Hcn)].
        unfold insert_core in Hi2. rewrite Hl in Hi2. apply Some_inj in Hi2. rewrite HB1 in Hi2. rewrite Hi2.
        exists m2, (Done r). split; [reflexivity|]. left. split; [reflexivity|]. split; [reflexivity|]. split; [|split].
        * split; [assumption|]. intros k' r'. rewrite Hh2, Hh1, H. unfold aupd. destruct (k' =? k) eqn:E.
          -- assert (k' = k) by lia. subst k'. split; [intros [[_ ->]|[N _]]; [reflexivity|lia]|]. intros [= ->]. left. auto.
          -- split; [intros [[-> _]|[_ Hx]]; [lia|assumption]|]. intros Hx. right. split; [lia|assumption].
        * congruence.
        * rewrite (Hcn Habs). lia.
      + exists m, BadPolicy. split; [reflexivity|]. right. auto.
    - (* the key is stored: the reference is replaced, whatever the size *)
      assert (Hho : holds m1 k r0).
      { split; [assumption|]. exists ((hash k + d) mod buckets m1). split; [apply Z.mod_pos_bound; lia|assumption]. }
      assert (Hp : present A k = true).
      { unfold present. apply Hh1 in Hho. apply H in Hho. rewrite Hho. reflexivity. }
      rewrite Hp. cbn [orb].
      destruct (insert_core_spec m1 k r I1 Hb1 ltac:(intros Hn; exfalso; apply (Hn r0 Hho)) Hk) as [m2 (Hi2 & I2 & HB2 & Hh2 & Hce & _)].
      unfold insert_core in Hi2. rewrite Hl in Hi2. apply Some_inj in Hi2. rewrite Hi2.
      exists m2, (Done r). split; [reflexivity|]. left. split; [reflexivity|]. split; [reflexivity|]. split; [|split].
      + split; [assumption|]. intros k' r'. rewrite Hh2, Hh1, H. unfold aupd. destruct (k' =? k) eqn:E.
        * assert (k' = k) by lia. subst k'. split; [intros [[_ ->]|[N _]]; [reflexivity|lia]|]. intros [= ->]. left. auto.
        * split; [intros [[-> _]|[_ Hx]]; [lia|assumption]|]. intros Hx. right. split; [lia|assumption].
      + congruence.
      + rewrite Hce by (exists r0; assumption). assumption.
  Qed.

  Lemma resize_spec m A nb :
    rep m A ->
    exists m' out, resize hash m (OBuckets nb) = Some (m', out) /\
      ((policy_ok (count m) A (OResize (OBuckets nb)) = true /\ out = Done 0 /\ rep m' A /\ buckets m' = nb /\ count m' = count m) \/
       (policy_ok (count m) A (OResize (OBuckets nb)) = false /\ out = BadPolicy /\ m' = m)).
  Proof.
    intros [I H]. unfold resize, policy_ok. change (is_pow2 nb && (count m <? nb)) with (grow_ok m nb).
    destruct (grow_ok m nb) eqn:Eg; cbn [negb].
    - destruct (regrow_spec m nb I Eg) as [m1 (Hr & I1 & HB1 & Hc1 & Hh1 & _)]. rewrite Hr.
      exists m1, (Done 0). split; [reflexivity|]. left. split; [reflexivity|]. split; [reflexivity|]. split; [|auto].
      split; [assumption|]. intros k r. rewrite Hh1. apply H.
    - exists m, BadPolicy. split; [reflexivity|]. right. auto.
  Qed.

  Lemma step_refines m A o :
    rep m A ->
    exists m' out, run_op hash m o = Some (m', out) /\ out_ok A o out /\ rep m' (abs_step A o out) /\
                   (out = BadPolicy <-> policy_ok (count m) A o = false) /\
                   (forall r, out = AllocFailed r \/ out = BadPolicy -> m' = m).
  Proof.
    intros HR. pose proof HR as [I H]. destruct o as [s r g|s|g| |]; cbn [run_op].
    - destruct (Z.eq_dec s 0) as [->|Hs].
      + exists m, (Done r). split; [reflexivity|]. destruct g; cbn; (split; [reflexivity|]); (split; [assumption|]);
          (split; [split; discriminate|]); intros r0 [E|E]; discriminate.
      + destruct g as [|nb].
        * exists m, (AllocFailed RM_NOT_FOUND). unfold insert. replace (s =? 0) with false by lia.
          split; [reflexivity|]. cbn. split; [auto|]. split; [assumption|]. split; [split; discriminate|auto].
        * destruct (insert_spec m A s r nb HR Hs) as [m' [out [Hi [(Hp & -> & HR' & _)|(Hp & -> & ->)]]]]; rewrite Hi.
          -- exists m', (Done r). split; [reflexivity|]. cbn [out_ok abs_step]. split; [reflexivity|].
             replace (s =? 0) with false by lia. split; [assumption|]. rewrite Hp. split; [split; discriminate|].
             intros r0 [E|E]; discriminate.
          -- exists m, BadPolicy. split; [reflexivity|]. cbn [out_ok abs_step]. split; [constructor|]. split; [assumption|].
             rewrite Hp. split; [tauto|auto].
    - rewrite (rep_find m A s HR). exists m, (Done (alook A s)). split; [reflexivity|].
      split; [reflexivity|]. split; [assumption|]. split; [split; discriminate|]. intros r0 [E|E]; discriminate.
    - destruct g as [|nb].
      + exists m, (AllocFailed (-1)). split; [reflexivity|]. cbn. split; [auto|]. split; [assumption|]. split; [split; discriminate|auto].
      + destruct (resize_spec m A nb HR) as [m' [out [Hr [(Hp & -> & HR' & _)|(Hp & -> & ->)]]]]; rewrite Hr.
        * exists m', (Done 0). split; [reflexivity|]. split; [reflexivity|]. split; [assumption|]. rewrite Hp.
          split; [split; discriminate|]. intros r0 [E|E]; discriminate.
        * exists m, BadPolicy. split; [reflexivity|]. split; [constructor|]. split; [assumption|]. rewrite Hp. split; [tauto|auto].
    - exists (reset m), (Done 0). split; [reflexivity|]. split; [reflexivity|]. split; [|split; [split; discriminate|intros r0 [E|E]; discriminate]].
      destruct (inv_reset m I) as [I' Hn]. split; [assumption|]. intros k r. unfold abs_step, aempty.
      split; [intro Hh; exfalso; apply (Hn k r Hh)|discriminate].
    - exists rm_init, (Done 0). split; [reflexivity|]. split; [reflexivity|]. split; [apply rep_init|].
      split; [split; discriminate|intros r0 [E|E]; discriminate].
  Qed.

  Lemma run_refines ops : forall m A,
    rep m A ->
    exists m' outs, run hash m ops = Some (m', outs) /\ trace_ok A ops outs /\ rep m' (abs_run A ops outs).
  Proof.
    induction ops as [|o ops IH]; intros m A HR.
    - exists m, []. cbn. auto.
    - destruct (step_refines m A o HR) as [m1 [out [Hs [Hok [HR1 _]]]]].
      destruct (IH m1 _ HR1) as [m2 [outs [Hr [Ht HR2]]]].
      exists m2, (out :: outs). cbn [run]. rewrite Hs, Hr. cbn [trace_ok abs_run]. auto.
  Qed.

  (* The property's wording: the last reference stored under k since the last reset / clear.
     [h] is the history, most recent event first; only successful inserts count. *)
  Fixpoint last_stored (h : list (op * outcome)) (k : Z) : option Z :=
    match h with
    | [] => None
    | (OInsert s r _, Done _) :: t => if negb (s =? 0) && (s =? k) then Some r else last_stored t k
    | (OReset, _) :: _ | (OClear, _) :: _ => None
    | _ :: t => last_stored t k
    end.

  Fixpoint last_stored_from (A : amap) (h : list (op * outcome)) (k : Z) : option Z :=
    match h with
    | [] => A k
    | (OInsert s r _, Done _) :: t => if negb (s =? 0) && (s =? k) then Some r else last_stored_from A t k
    | (OReset, _) :: _ | (OClear, _) :: _ => None
    | _ :: t => last_stored_from A t k
    end.

  Lemma last_stored_from_empty h k : last_stored_from aempty h k = last_stored h k.
  Proof.
    induction h as [|[o out] t IH]; [reflexivity|]. destruct o; destruct out; cbn; rewrite ?IH; reflexivity.
  Qed.

  Lemma last_stored_from_snoc A o out : forall h k,
    last_stored_from A (h ++ [(o, out)]) k = last_stored_from (abs_step A o out) h k.
  Proof.
    induction h as [|[o' out'] t IH]; intros k.
    - cbn [app last_stored_from]. destruct o; destruct out; cbn; try reflexivity.
      unfold aupd. destruct (src =? 0) eqn:E0; cbn.
      + reflexivity.
      + rewrite Z.eqb_sym. destruct (k =? src); reflexivity.
    - cbn [app]. destruct o'; destruct out'; cbn [last_stored_from]; rewrite ?IH; reflexivity.
  Qed.

  Lemma abs_run_last_stored ops : forall A outs k,
    length ops = length outs ->
    abs_run A ops outs k = last_stored_from A (rev (combine ops outs)) k.
  Proof.
    induction ops as [|o ops IH]; intros A outs k Hl; destruct outs as [|out outs]; try discriminate; [reflexivity|].
    cbn [abs_run combine rev]. rewrite last_stored_from_snoc. apply IH. cbn in Hl. lia.
  Qed.

  Lemma trace_ok_length ops : forall A outs, trace_ok A ops outs -> length ops = length outs.
  Proof.
    induction ops as [|o ops IH]; intros A outs; destruct outs; cbn; try tauto.
    intros [_ H]. f_equal. eapply IH. exact H.
  Qed.

  (* every operation sequence with every growth oracle, from the initial map *)
  Theorem refmap_refines ops :
    exists m outs, run hash rm_init ops = Some (m, outs) /\
      trace_ok aempty ops outs /\
      inv m /\
      forall k, find hash m k =
                Some (match last_stored (rev (combine ops outs)) k with Some r => r | None => RM_NOT_FOUND end).
  Proof.
    destruct (run_refines ops rm_init aempty rep_init) as [m [outs [Hr [Ht HR]]]].
    exists m, outs. split; [assumption|]. split; [assumption|]. split; [apply HR|].
    intros k. rewrite (rep_find m _ k HR). unfold alook.
    rewrite abs_run_last_stored by (eapply trace_ok_length; exact Ht).
    rewrite last_stored_from_empty. reflexivity.
  Qed.

  (* a refused allocation and a rejected growth policy leave the map as it was *)
  Lemma failure_unchanged m A o m' out :
    rep m A -> run_op hash m o = Some (m', out) -> (exists x, out = AllocFailed x) \/ out = BadPolicy ->
    m' = m /\ match o, out with
              | OInsert _ _ ORefused, AllocFailed x => x = RM_NOT_FOUND
              | OResize ORefused, AllocFailed x => x = -1
              | OInsert _ _ (OBuckets _), BadPolicy | OResize (OBuckets _), BadPolicy => policy_ok (count m) A o = false
              | _, _ => False
              end.
  Proof.
    intros HR Hrun Hf. destruct (step_refines m A o HR) as [m1 [out1 [Hs [Hok [_ [Hbad Hun]]]]]].
    rewrite Hrun in Hs. apply Some_inj in Hs. injection Hs as <- <-. split.
    - destruct Hf as [[x ->]| ->]; [apply (Hun x)|apply (Hun 0)]; auto.
    - destruct Hf as [[x ->]| ->].
      + destruct o as [s r g|s|g| |]; cbn in Hok; try tauto; destruct g; cbn in Hok; cbn; intuition congruence.
      + destruct o as [s r g|s|g| |]; cbn in Hok; try tauto; destruct g; cbn in Hok; try tauto; apply Hbad; reflexivity.
  Qed.

  (* insert of a present key replaces the reference and keeps the count; a new key adds one; the table has the observed size *)
  Lemma insert_count m A s r nb m' x :
    rep m A -> s <> 0 -> insert hash m s r (OBuckets nb) = Some (m', Done x) ->
    x = r /\ find hash m' s = Some r /\ buckets m' = nb /\
    count m' = (if present A s then count m else count m + 1).
  Proof.
    intros HR Hs Hi. destruct (insert_spec m A s r nb HR Hs) as [m1 [out [Hi' [(_ & E & HR' & HB & Hc)|(_ & E & _)]]]];
      rewrite Hi in Hi'; apply Some_inj in Hi'; injection Hi' as <- <-; [|discriminate].
    injection E as ->. split; [reflexivity|]. split; [|split; assumption].
    rewrite (rep_find m' _ s HR'). unfold alook, aupd. rewrite Z.eqb_refl. reflexivity.
  Qed.

  (* the null key: insert hands the reference back and stores nothing, find does not find it *)
  Lemma null_key m A r g :
    rep m A -> insert hash m 0 r g = Some (m, Done r) /\ find hash m 0 = Some RM_NOT_FOUND.
  Proof.
    intros HR. split; [reflexivity|]. rewrite (rep_find m A 0 HR). unfold alook.
    destruct (A 0) as [r0|] eqn:E; [|reflexivity]. apply HR in E. destruct E as [E _]. congruence.
  Qed.

  (* a policy that satisfies the side condition is never rejected *)
  Lemma policy_ok_accepted m A o m' out :
    rep m A -> policy_ok (count m) A o = true -> run_op hash m o = Some (m', out) -> out <> BadPolicy.
  Proof.
    intros HR Hp Hrun. destruct (step_refines m A o HR) as [m1 [out1 [Hs [_ [_ [Hbad _]]]]]].
    rewrite Hrun in Hs. apply Some_inj in Hs. injection Hs as <- <-. intro E. apply Hbad in E. congruence.
  Qed.
End Proofs.

