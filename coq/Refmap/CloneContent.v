(* C18, second half: the script the clone model (CloneModel.v) emits is WELL TYPED for the value the independent decoder
   (Format/Spec.v) returns for the source.  Everything else (the copy decodes / reads back to that value, the copy is
   accepted by the verifier model) follows from the builder theorems (Builder/Nested*.v) and the verifier
   completeness theorem (Verifier/Complete.v); see Properties_C18b.v.

   Structure.  The clone state (commands so far, register count, memo) is related to a typing environment G by [SInv]:
   the commands are a typed chain from [] to G, the register count is the length of G, and every memo entry
   key -> (r, ty) comes with a source position p and a value v such that key = key of (ty, p), register r holds an
   object of type ty with value v, and the source holds v at p ([NestedBase.xholds], i.e. the decoder's functions).
   One lemma per clone function: decoder = Some v at p, clone = Some (s', r) at the pointer of p  ==>  an extension G'
   of G with SInv s' G' in which r has type ty and value v.  The depth label of every entry is the height of its value
   ([vheight]), so a parent table can always be typed (its bound is the maximum over its fields).
   A memo hit returns the entry of the SAME object because (type, key) determines the position and the decoder is a
   function (strict mode compares the ghost type tag). *)
From Coq Require Import ZifyBool Lia List.
From Flatcc.Format Require Import Schema Spec SpecProofs.
From Flatcc.Verifier Require Import ReaderValue ReaderValueProofs.
From Flatcc.Builder Require Import EmitModel VMem Objects Leaves OffVec TableLayout Table Buffer Script
     NestedBase NestedTable NestedScript.
From Flatcc.Refmap Require Import CloneModel.
Import ListNotations.
Local Open Scope Z_scope.
Ltac Zify.zify_post_hook ::= Z.div_mod_to_equations.

(* ------------------------------------------------------------------ heights of values, absence of unknown union members *)
Fixpoint vheight (v : value) : nat :=
  match v with
  | VTable fs => S ((fix go (l : list (Z * value)) : nat :=
                       match l with [] => O | (_, x) :: r => Nat.max (vheight x) (go r) end) fs)
  | VOffVec es => (fix go (l : list value) : nat :=
                     match l with [] => O | x :: r => Nat.max (vheight x) (go r) end) es
  | VUnion _ x => vheight x
  | VUnionVec es => (fix go (l : list (Z * option value)) : nat :=
                       match l with
                       | [] => O
                       | (_, Some x) :: r => Nat.max (vheight x) (go r)
                       | (_, None) :: r => go r
                       end) es
  | VNested x => vheight x
  | _ => O
  end.

Fixpoint hfields (l : list (Z * value)) : nat :=
  match l with [] => O | (_, x) :: r => Nat.max (vheight x) (hfields r) end.
Fixpoint hlist (l : list value) : nat :=
  match l with [] => O | x :: r => Nat.max (vheight x) (hlist r) end.

Lemma vheight_table fs : vheight (VTable fs) = S (hfields fs).
Proof. reflexivity. Qed.
Lemma vheight_offvec es : vheight (VOffVec es) = hlist es.
Proof. reflexivity. Qed.

(* a union member whose type code the schema does not list is dropped by the clone code: such sources are excluded *)
Fixpoint no_unknown (v : value) : bool :=
  match v with
  | VTable fs => (fix go (l : list (Z * value)) : bool :=
                    match l with [] => true | (_, x) :: r => no_unknown x && go r end) fs
  | VOffVec es => (fix go (l : list value) : bool :=
                     match l with [] => true | x :: r => no_unknown x && go r end) es
  | VUnion _ x => no_unknown x
  | VUnionVec es => (fix go (l : list (Z * option value)) : bool :=
                       match l with
                       | [] => true
                       | (_, Some x) :: r => no_unknown x && go r
                       | (_, None) :: r => go r
                       end) es
  | VNested x => no_unknown x
  | VUnknown => false
  | _ => true
  end.
Fixpoint nu_fields (l : list (Z * value)) : bool :=
  match l with [] => true | (_, x) :: r => no_unknown x && nu_fields r end.
Fixpoint nu_list (l : list value) : bool :=
  match l with [] => true | x :: r => no_unknown x && nu_list r end.
Lemma no_unknown_table fs : no_unknown (VTable fs) = nu_fields fs.
Proof. reflexivity. Qed.
Lemma no_unknown_offvec es : no_unknown (VOffVec es) = nu_list es.
Proof. reflexivity. Qed.

(* ------------------------------------------------------------------ typed command chains *)
Inductive cwt (Sc : schema) : xenv -> list cmd -> xenv -> Prop :=
| CW_nil G : cwt Sc G [] G
| CW_cons G c G1 r G2 : xwt_cmd Sc G c G1 -> cwt Sc G1 r G2 -> cwt Sc G (c :: r) G2.

Lemma cwt_snoc Sc G cs G1 c G2 : cwt Sc G cs G1 -> xwt_cmd Sc G1 c G2 -> cwt Sc G (cs ++ [c]) G2.
Proof.
  intros Hc Hx. induction Hc as [G|G c0 Ga r Gb Hc0 Hr IH]; cbn [app].
  - eapply CW_cons; [exact Hx | apply CW_nil].
  - eapply CW_cons; [exact Hc0 | apply IH, Hx].
Qed.

Lemma cwt_xwt Sc b G cs G' : cwt Sc G cs G' -> xwt_cmds Sc b G cs G' [].
Proof. induction 1; [apply XS_nil | eapply XS_cmd; eauto]. Qed.

(* environment extension *)
Definition ext (G G' : xenv) : Prop := exists L, G' = G ++ L.
Lemma ext_refl G : ext G G. Proof. exists []. rewrite app_nil_r. reflexivity. Qed.
Lemma ext_trans A B C : ext A B -> ext B C -> ext A C.
Proof. intros [L1 ->] [L2 ->]. exists (L1 ++ L2). rewrite app_assoc. reflexivity. Qed.
Lemma ext_app G L : ext G (G ++ L). Proof. exists L. reflexivity. Qed.

Lemma xlookup_ext G G' r e : ext G G' -> xlookup G r = Some e -> xlookup G' r = Some e.
Proof.
  intros [L ->]. unfold xlookup. destruct (nth_error G r) as [[x|]|] eqn:E; try discriminate.
  intros Hx. rewrite nth_error_app1 by (apply nth_error_Some; congruence). rewrite E. exact Hx.
Qed.
Lemma xlookup_last G e : xlookup (G ++ [Some e]) (length G) = Some e.
Proof. unfold xlookup. rewrite nth_error_app2 by lia. rewrite Nat.sub_diag. reflexivity. Qed.

(* the entry of an object of type ty with value v: the depth label is the height of the value *)
Definition mkx (ty : xty) (v : value) : xentry := {| xe_ty := ty; xe_val := v; xe_depth := vheight v |}.

(* ------------------------------------------------------------------ the tags decide equality *)
Lemma oty_eqb_eq a b : oty_eqb a b = true -> a = b.
Proof.
  destruct a, b; cbn [oty_eqb]; intros E; try discriminate; try reflexivity.
  - apply andb_true_iff in E. destruct E as [E1 E2]. f_equal; lia.
  - apply andb_true_iff in E. destruct E as [E1 E2]. f_equal; lia.
  - apply Nat.eqb_eq in E. congruence.
  - apply Nat.eqb_eq in E. congruence.
Qed.
Lemma xty_eqb_eq a b : xty_eqb a b = true -> a = b.
Proof.
  destruct a as [x| |u|R], b as [y| |u'|R']; cbn [xty_eqb]; intros E; try discriminate; try reflexivity.
  - f_equal. apply oty_eqb_eq, E.
  - apply Nat.eqb_eq in E. congruence.
  - destruct R, R'; cbn [root_eqb] in E; try discriminate.
    + apply Nat.eqb_eq in E. congruence.
    + apply andb_true_iff in E. destruct E as [E1 E2]. do 2 f_equal; lia.
Qed.

(* the decoder is a function: an object type and a position determine the value (any two depth bounds) *)
Definition xfun (Sc : schema) (ty : xty) : Prop :=
  forall n n' v v' m o ds p, xholds n Sc ty v m o ds p -> xholds n' Sc ty v' m o ds p -> v = v'.

Lemma xfun_base Sc t : xfun Sc (XBase t).
Proof.
  intros n n' v v' m o ds p H1 H2.
  apply (xholds_mono n (Nat.max n n') Sc (XBase t) v m o m o ds p (Nat.le_max_l _ _) (mle_refl m o)) in H1.
  apply (xholds_mono n' (Nat.max n n') Sc (XBase t) v' m o m o ds p (Nat.le_max_r _ _) (mle_refl m o)) in H2.
  cbn [xholds] in H1, H2. destruct t; cbn [obj_holds] in H1, H2; try congruence.
  destruct H1 as (e1 & -> & H1). destruct H2 as (e2 & -> & H2).
  specialize (H1 (Z.max (Z.of_nat (length e1)) (Z.of_nat (length e2))) ltac:(lia)).
  specialize (H2 (Z.max (Z.of_nat (length e1)) (Z.of_nat (length e2))) ltac:(lia)).
  congruence.
Qed.

(* ------------------------------------------------------------------ the invariant *)
Section Inv.
Variable Sc : schema.
Variables (md : mem) (o : Z) (ds : list Z).        (* the decoder's memory, origin and alignment references *)
Variables (m : mem) (o' : Z) (base : Z).           (* the memory the clone reads, the pointer of the decoder's origin *)
Hypothesis Hm : mle md o m o'.

(* the reference-map key of the object of type ty at decoder offset p: string_t points past the length word;
   vectors are keyed by their length word (vec_key), tables and structs by their start *)
Definition okey (ty : xty) (p : Z) : Z :=
  o' + p + match ty with XBase OString => 4 | _ => 0 end.

Definition MInv (M : memo) (G : xenv) : Prop :=
  forall k r ty, mfind M k = Some (r, ty) ->
    exists p v n, k = okey ty p /\ xlookup G r = Some (mkx ty v) /\ xholds n Sc ty v md o ds p.

Record SInv (s : cst) (G : xenv) : Prop := {
  si_cmds : cwt Sc [] (c_cmds s) G;
  si_next : c_next s = length G;
  si_memo : MInv (c_memo s) G }.

Lemma MInv_ext M G G' : ext G G' -> MInv M G -> MInv M G'.
Proof.
  intros He HM k r ty Hf. destruct (HM k r ty Hf) as (p & v & n & Hk & Hl & Hh).
  exists p, v, n. split; [exact Hk|]. split; [eapply xlookup_ext; eauto | exact Hh].
Qed.

(* a hit: the register holds the object being visited *)
Lemma memo_hit s G ty p r n v :
  SInv s G -> xfun Sc ty -> memo_begin true s (okey ty p) ty = Some (Some r) ->
  xholds n Sc ty v md o ds p -> xlookup G r = Some (mkx ty v).
Proof.
  intros HS Hfun Hb Hh. unfold memo_begin in Hb.
  destruct (mfind (c_memo s) (okey ty p)) as [[r0 ty0]|] eqn:Ef; [|discriminate Hb].
  cbn [andb] in Hb. destruct (xty_eqb ty ty0) eqn:Et; cbn [negb] in Hb; [|discriminate Hb].
  some_inj Hb. some_inj Hb. subst r0. apply xty_eqb_eq in Et. subst ty0.
  destruct (si_memo _ _ HS _ _ _ Ef) as (p1 & v1 & n1 & Hk & Hl & Hh1).
  assert (p1 = p) by (unfold okey in Hk; lia). subst p1.
  rewrite (Hfun _ _ _ _ _ _ _ _ Hh Hh1). exact Hl.
Qed.

(* the object is finished by a typed command: the new register holds it and the memo stays sound *)
Lemma emit_ok s G c ty p n v s' r :
  SInv s G -> xwt_cmd Sc G c (G ++ [Some (mkx ty v)]) -> xholds n Sc ty v md o ds p ->
  emit1 s c (okey ty p) ty = (s', r) ->
  SInv s' (G ++ [Some (mkx ty v)]) /\ xlookup (G ++ [Some (mkx ty v)]) r = Some (mkx ty v).
Proof.
  intros HS Hc Hh He. unfold emit1 in He. injection He as <- <-.
  pose proof (si_next _ _ HS) as Hn. split.
  - constructor; cbn [c_cmds c_next c_memo].
    + eapply cwt_snoc; [apply (si_cmds _ _ HS) | exact Hc].
    + rewrite app_length, Hn. cbn [length]. lia.
    + intros k r ty1 Hf. unfold mfind, minsert in Hf. destruct (m_on (c_memo s)) eqn:Eon.
      * cbn [m_on m_map assocZ] in Hf. destruct (k =? okey ty p) eqn:Ek.
        -- some_inj Hf. injection Hf as <- <-. exists p, v, n. split; [lia|]. split; [|exact Hh].
           rewrite Hn. apply xlookup_last.
        -- assert (Hf' : mfind (c_memo s) k = Some (r, ty1)) by (unfold mfind; rewrite Eon; exact Hf).
           apply (MInv_ext _ G _ (ext_app _ _) (si_memo _ _ HS) _ _ _ Hf').
      * rewrite Eon in Hf. discriminate Hf.
  - rewrite Hn. apply xlookup_last.
Qed.

(* the shape every memoized clone function has *)
Lemma memoized s G ty p k n v (body : option (cst * nat)) s' r :
  k = okey ty p ->
  SInv s G -> xfun Sc ty -> xholds n Sc ty v md o ds p ->
  (h <- memo_begin true s k ty;; match h with Some r0 => Some (s, r0) | None => body end) = Some (s', r) ->
  (memo_begin true s k ty = Some None -> body = Some (s', r) ->
   exists s1 G1 c, SInv s1 G1 /\ ext G G1 /\ xwt_cmd Sc G1 c (G1 ++ [Some (mkx ty v)]) /\ emit1 s1 c k ty = (s', r)) ->
  exists G', SInv s' G' /\ ext G G' /\ xlookup G' r = Some (mkx ty v).
Proof.
  intros -> HS Hfun Hh E Hbody.
  destruct (memo_begin true s (okey ty p) ty) as [[r0|]|] eqn:Eb; cbn [bind] in E; [| |discriminate E].
  - some_inj E. injection E as <- <-. exists G. split; [exact HS|]. split; [apply ext_refl|].
    eapply memo_hit; eauto.
  - destruct (Hbody eq_refl E) as (s1 & G1 & c & HS1 & He1 & Hc & Hem).
    destruct (emit_ok s1 G1 c ty p n v s' r HS1 Hc Hh Hem) as [HS' Hl].
    exists (G1 ++ [Some (mkx ty v)]). split; [exact HS'|]. split; [|exact Hl].
    eapply ext_trans; [exact He1 | apply ext_app].
Qed.
End Inv.

(* ------------------------------------------------------------------ small facts about the decoder's leaf readers *)
Lemma mrdbytes_len m : forall n a l, mrdbytes m a n = Some l -> length l = n.
Proof.
  induction n; intros a l E; cbn [mrdbytes] in E; [some_inj E; subst l; reflexivity|].
  bd E. bd E. some_inj E. subst l. cbn [length]. f_equal. eapply IHn; eauto.
Qed.

Lemma rd_elems_len m es : forall n a l, rd_elems m a es n = Some l -> length l = n /\ Forall (fun e => length e = es) l.
Proof.
  induction n; intros a l E; cbn [rd_elems] in E; [some_inj E; subst l; split; [reflexivity | constructor]|].
  bd E. bd E. some_inj E. subst l. destruct (IHn _ _ E1) as [Hl HF]. split; [cbn [length]; congruence|].
  constructor; [eapply mrdbytes_len; eauto | exact HF].
Qed.

(* a decoded vector is a vector for every count bound that admits its length *)
Lemma dec_vector_any m o ds es al mc p els :
  dec_vector m o ds es al mc p = Some (VVec els) ->
  forall mc', Z.of_nat (length els) <= mc' -> dec_vector m o ds es al mc' p = Some (VVec els).
Proof.
  intros E mc' Hmc. unfold dec_vector in *. bd E. bd E. bd E. bd E. some_inj E. injection E as <-.
  destruct (rd_elems_len _ _ _ _ _ E3) as [Hl _].
  apply andb_true_iff in E2. destruct E2 as [E1a E1b].
  cbn [bind].
  replace ((z <=? mc') && aligned ds (p + 4) al) with true.
  - rewrite E3. reflexivity.
  - symmetry. apply andb_true_iff. split; [|exact E1b]. rewrite Hl in Hmc. lia.
Qed.

(* ------------------------------------------------------------------ leaves *)
Section Objs.
Variable Sc : schema.
Variables (md : mem) (o : Z) (ds : list Z).
Variables (m : mem) (o' : Z) (base : Z).
Hypothesis Hm : mle md o m o'.

Notation SI := (SInv Sc md o ds o').
Notation KEY := (okey o').

(* the result of a clone function: an extension of the environment in which the returned register holds the object *)
Definition Res (ty : xty) (v : value) (G : xenv) (s' : cst) (r : nat) : Prop :=
  exists G', SI s' G' /\ ext G G' /\ xlookup G' r = Some (mkx ty v).

Lemma string_clone_ok s G p v s' r :
  SI s G -> dec_string md o ds p = Some v -> string_clone true m s (o' + p + 4) = Some (s', r) ->
  Res (XBase OString) v G s' r.
Proof.
  intros HS Hd E. pose proof Hd as Hd0. unfold dec_string in Hd. bd Hd. bd Hd. bd Hd. bd Hd. bd Hd. some_inj Hd. subst v.
  unfold string_clone in E.
  eapply (memoized Sc md o ds o' s G (XBase OString) p (o' + p + 4) O (VString l) _ s' r ltac:(unfold okey; lia) HS (xfun_base Sc OString) Hd0 E).
  intros _ Eb. unfold vec_len in Eb.
  rewrite (ld32_at _ _ _ _ Hm (o + p) (o' + p + 4 - 4) _ ltac:(lia) E1) in Eb. cbn [bind] in Eb.
  rewrite (ldbytes_at _ _ _ _ Hm _ (o + p + 4) (o' + p + 4) _ ltac:(lia) E2) in Eb. cbn [bind] in Eb.
  some_inj Eb. exists s, G, (CString l). split; [exact HS|]. split; [apply ext_refl|]. split; [apply XT_string | exact Eb].
Qed.

Lemma vec_clone_ok es al mc s G p v s' r :
  pow2 al -> 1 <= es <= U32_MAX -> 0 <= mc -> mc * es <= U32_MAX ->
  SI s G -> dec_vector md o ds es al mc p = Some v -> vec_clone true m es al mc s (o' + p + 4) = Some (s', r) ->
  exists els, v = VVec els /\ Z.of_nat (length els) <= mc /\ Res (XBase (OVec es al)) v G s' r.
Proof.
  intros Hal Hes Hmc0 Hmc HS Hd E. pose proof Hd as Hd0. unfold dec_vector in Hd. bd Hd. bd Hd. bd Hd. bd Hd. some_inj Hd. subst v.
  destruct (rd_elems_len _ _ _ _ _ E3) as [Hlen HF].
  apply andb_true_iff in E2. destruct E2 as [E1a E1b].
  exists l. split; [reflexivity|]. split; [lia|].
  unfold vec_clone in E.
  assert (Hh : xholds O Sc (XBase (OVec es al)) (VVec l) md o ds p).
  { cbn [xholds obj_holds]. exists l. split; [reflexivity|]. apply (dec_vector_any _ _ _ _ _ _ _ _ Hd0). }
  eapply (memoized Sc md o ds o' s G (XBase (OVec es al)) p (o' + p + 4 - 4) O (VVec l) _ s' r ltac:(unfold okey; lia) HS (xfun_base Sc _) Hh E).
  intros _ Eb. unfold vec_len in Eb.
  rewrite (ld32_at _ _ _ _ Hm (o + p) (o' + p + 4 - 4) _ ltac:(lia) E1) in Eb. cbn [bind] in Eb.
  rewrite (read_elems_spec _ _ _ _ Hm es _ ltac:(lia) (o + p + 4) (o' + p + 4) 0 _ ltac:(lia) E3) in Eb. cbn [bind] in Eb.
  some_inj Eb. exists s, G, (CVector es al mc (Z.of_nat (length l)) (concat l)). split; [exact HS|]. split; [apply ext_refl|]. split; [|exact Eb].
  apply XT_vector; [exact Hal | exact Hes | | exact Hmc].
  eapply Forall_impl; [|exact HF]. intros e He. unfold lenZ. cbn beta in He. lia.
Qed.

Lemma struct_clone_ok size al s G p v s' r :
  pow2 al -> 0 <= size ->
  SI s G -> dec_struct md o ds size al p = Some v -> struct_clone true m size al s (o' + p) = Some (s', r) ->
  Res (XBase (OStruct size al)) v G s' r.
Proof.
  intros Hal Hsz HS Hd E. pose proof Hd as Hd0. unfold dec_struct in Hd. bd Hd. bd Hd. some_inj Hd. subst v.
  pose proof (mrdbytes_len _ _ _ _ E1) as Hlen.
  unfold struct_clone in E.
  eapply (memoized Sc md o ds o' s G (XBase (OStruct size al)) p (o' + p) O (VBytes l) _ s' r ltac:(unfold okey; lia) HS (xfun_base Sc _) Hd0 E).
  intros _ Eb.
  rewrite (ldbytes_at _ _ _ _ Hm _ (o + p) (o' + p) _ ltac:(lia) E1) in Eb. cbn [bind] in Eb.
  some_inj Eb. exists s, G, (CStruct al l). split; [exact HS|]. split; [apply ext_refl|]. split; [|exact Eb].
  assert (Hsz' : size = lenZ l) by (unfold lenZ; lia). rewrite Hsz'.
  apply XT_struct, Hal.
Qed.

(* ------------------------------------------------------------------ offset vectors *)
Section OffVec.
Variable ety : oty.
Variable adjust : Z.
Variable f : Z -> option value.                        (* the decoder of one element at an offset *)
Variable fc : cst -> Z -> option (cst * nat).          (* the clone of one element at a pointer *)
Variable P : value -> Prop.                            (* what is known of the elements (no unknown members) *)
Hypothesis Hf : forall s G t v s' r, SI s G -> f t = Some v -> P v -> fc s (o' + t + adjust) = Some (s', r) ->
  Res (XBase ety) v G s' r.

Lemma clone_offs_ok : forall count p vec i s G vs s' rs,
  SI s G -> dec_offs f md o p count = Some vs -> Forall P vs -> o' + p = vec + 4 * i ->
  clone_offs m fc s vec adjust i count = Some (s', rs) ->
  exists G', SI s' G' /\ ext G G' /\ Forall2 (fun r v => xlookup G' r = Some (mkx (XBase ety) v)) rs vs.
Proof.
  induction count as [|k IH]; intros p vec i s G vs s' rs HS Hd HP Hp E; cbn [dec_offs clone_offs] in *.
  - some_inj Hd. subst vs. some_inj E. injection E as <- <-. exists G. split; [exact HS|]. split; [apply ext_refl | constructor].
  - bd Hd. bd Hd. bd Hd. some_inj Hd. subst vs. inversion HP as [|? ? HPv HPl]; subst.
    unfold follow in E0. bd E0. bd E0. some_inj E0. subst z.
    unfold offset_vec_at in E.
    rewrite (ld32_at _ _ _ _ Hm (o + p) (vec + 4 * i) _ ltac:(lia) E3) in E. cbn [bind] in E.
    bd E. destruct p0 as [s1 r1]. cbn [fst snd] in E. bd E. destruct p0 as [s2 rs2]. cbn [fst snd] in E.
    some_inj E. injection E as <- <-.
    replace (vec + 4 * i + z0 + adjust) with (o' + (p + z0) + adjust) in E0 by lia.
    destruct (Hf _ _ _ _ _ _ HS E1 HPv E0) as (G1 & HS1 & He1 & Hl1).
    destruct (IH (p + 4) vec (i + 1) s1 G1 l s2 rs2 HS1 E2 HPl ltac:(lia) E5) as (G2 & HS2 & He2 & HF2).
    exists G2. split; [exact HS2|]. split; [eapply ext_trans; eauto|].
    constructor; [eapply xlookup_ext; eauto | exact HF2].
Qed.

Lemma hlist_ge vs : Forall (fun v => (vheight v <= hlist vs)%nat) vs.
Proof.
  induction vs as [|x r IH]; [constructor|]. cbn [hlist]. constructor; [lia|].
  eapply Forall_impl; [|exact IH]. cbn beta. intros; lia.
Qed.

Lemma offvec_clone_ok n s G p v s' r :
  (ety = OString \/ exists t, ety = OTable t) ->
  xholds n Sc (XBase (offvec_ty ety)) v md o ds p ->
  SI s G -> dec_offvec f md o ds p = Some v -> (forall vs, v = VOffVec vs -> Forall P vs) ->
  offvec_clone true m (XBase (offvec_ty ety)) fc adjust s (o' + p + 4) = Some (s', r) ->
  Res (XBase (offvec_ty ety)) v G s' r.
Proof.
  intros Hety Hh HS Hd HP E. unfold dec_offvec in Hd. bd Hd. bd Hd. bd Hd. bd Hd. some_inj Hd. subst v.
  specialize (HP l eq_refl).
  unfold offvec_clone in E.
  assert (Hk : o' + p + 4 - 4 = KEY (XBase (offvec_ty ety)) p)
    by (unfold okey; destruct Hety as [->|[t ->]]; cbn [offvec_ty]; lia).
  eapply (memoized Sc md o ds o' s G (XBase (offvec_ty ety)) p _ n (VOffVec l) _ s' r Hk HS (xfun_base Sc _) Hh E).
  intros _ Eb. unfold vec_len in Eb.
  rewrite (ld32_at _ _ _ _ Hm (o + p) (o' + p + 4 - 4) _ ltac:(lia) E1) in Eb. cbn [bind] in Eb.
  bd Eb. destruct p0 as [s1 rs]. cbn [fst snd] in Eb. some_inj Eb.
  destruct (clone_offs_ok _ (p + 4) (o' + p + 4) 0 s G l s1 rs HS E3 HP ltac:(lia) E4) as (G1 & HS1 & He1 & HF1).
  exists s1, G1, (COffVec rs). split; [exact HS1|]. split; [exact He1|]. split; [|exact Eb].
  change (Some (mkx (XBase (offvec_ty ety)) (VOffVec l))) with (xmk (XBase (offvec_ty ety)) (VOffVec l) (hlist l)).
  apply XT_offvec; [exact Hety|].
  pose proof (hlist_ge l) as Hge. clear - HF1 Hge. revert Hge. generalize (hlist l) as N.
  induction HF1 as [|r v rs vs Hl HF IH]; intros N Hge; [constructor|].
  inversion Hge; subst. constructor; [|apply IH; assumption].
  exists (vheight v). split; [exact Hl | assumption].
Qed.
End OffVec.
End Objs.

(* ------------------------------------------------------------------ side conditions on the schema *)
(* the vtable slots a field occupies *)
Definition slots (f : field) : list Z :=
  match fk f with FUnion _ | FUnionVec _ => [fid f - 1; fid f] | _ => [fid f] end.
(* an upper bound of what the field adds to the table's data area (size + alignment slack) *)
Definition fweight (f : field) : Z :=
  match fk f with FScalar size al => size + al | FUnion _ => 10 | FUnionVec _ => 16 | _ => 8 end.
Fixpoint fsum (fl : list field) : Z := match fl with [] => 0 | f :: r => fweight f + fsum r end.

(* the fragment of the proof: no union vectors, no nested buffers (the model covers both) *)
Definition kind_okP (k : fkind) : Prop :=
  match k with
  | FScalar size al => 0 <= size <= 65535 /\ pow2 al /\ al <= 256
  | FVector es al mc => pow2 al /\ 1 <= es <= U32_MAX /\ 0 <= mc /\ mc * es <= U32_MAX
  | FUnionVec _ | FNestedTable _ _ | FNestedStruct _ _ => False
  | _ => True
  end.
Definition field_okP (f : field) : Prop := kind_okP (fk f) /\ fid f < 32765.
Definition table_okP (fl : list field) : Prop :=
  Forall field_okP fl /\ NoDup (concat (map slots fl)) /\ 2 * Z.of_nat (length fl) <= 32765 /\ fsum fl + 4 <= 65535.
Definition member_okP (cm : Z * umember) : Prop :=
  match snd cm with UStruct size al => 0 <= size /\ pow2 al | _ => True end.
Record clone_schema_ok (Sc : schema) : Prop := {
  cs_ids : ids_ok Sc = true;
  cs_tables : Forall table_okP (tables Sc);
  cs_unions : Forall (Forall member_okP) (unions Sc) }.

Lemma assocZ_in {A} k (l : list (Z * A)) a : assocZ k l = Some a -> In (k, a) l.
Proof.
  induction l as [|[k' a'] r IH]; cbn [assocZ]; [discriminate|].
  destruct (k =? k') eqn:E; [intros Ha; some_inj Ha; subst a'; left; f_equal; lia | intros Ha; right; apply IH, Ha].
Qed.

Lemma member_ok Sc u code mem : clone_schema_ok Sc -> union_member Sc u code = Some mem -> member_okP (code, mem).
Proof.
  intros Hok Hm. unfold union_member in Hm. destruct (nth_error (unions Sc) u) as [ms|] eqn:E; [|discriminate].
  pose proof (cs_unions _ Hok) as HF. rewrite Forall_forall in HF. specialize (HF ms (nth_error_In _ _ E)).
  rewrite Forall_forall in HF. apply HF. apply assocZ_in, Hm.
Qed.

(* ------------------------------------------------------------------ how the add calls of one pick type one field *)
Definition tsum (adds : list targ) : Z := fold_right (fun a acc => targ_size a + targ_align a + acc) 0 adds.

Section FieldTyping.
Variable Sc : schema.

Inductive FT (G : xenv) (f : field) : option value -> list targ -> Prop :=
| FT_absent : frequired f = false -> FT G f None []
| FT_scalar size al bytes : fk f = FScalar size al -> lenZ bytes = size ->
    FT G f (Some (VBytes bytes)) [TInline (fid f) size al bytes]
| FT_off ty r v : off_kind (fk f) ty v -> xlookup G r = Some (mkx ty v) -> FT G f (Some v) [TOffset (fid f) r]
| FT_union u code r mem v : fk f = FUnion u -> code <> 0 -> union_member Sc u code = Some mem ->
    xlookup G r = Some (mkx (XBase (member_oty mem)) v) ->
    FT G f (Some (VUnion code v)) [TInline (fid f - 1) 1 1 [code]; TOffset (fid f) r].

Lemma FT_mono G G' f ov af : ext G G' -> FT G f ov af -> FT G' f ov af.
Proof.
  intros He HF. inversion HF; subst.
  - apply FT_absent; assumption.
  - eapply FT_scalar; eauto.
  - eapply FT_off; eauto using xlookup_ext.
  - eapply FT_union; eauto using xlookup_ext.
Qed.

Lemma FT_wt G f v af n adds : FT G f (Some v) af -> incl af adds -> (vheight v <= n)%nat ->
  xwt_field Sc G n adds f (Some v).
Proof.
  intros HF Hi Hn. inversion HF; subst.
  - eapply XWF_scalar; [eassumption | apply Hi; left; reflexivity].
  - eapply (XWF_off Sc G n adds f ty r v (vheight v)); [assumption | apply Hi; left; reflexivity | assumption | assumption].
  - eapply (XWF_union Sc G n adds f u code r mem v0 (vheight v0)); try eassumption.
    + apply Hi; left; reflexivity.
    + apply Hi; right; left; reflexivity.
Qed.

Lemma FT_none G f af : FT G f None af -> af = [] /\ frequired f = false.
Proof. intros HF. inversion HF; subst. split; [reflexivity | assumption]. Qed.

Lemma FT_ids G f ov af a : FT G f ov af -> In a af -> In (targ_id a) (slots f).
Proof.
  intros HF Ha. unfold slots. inversion HF; subst; cbn [In] in Ha.
  - contradiction.
  - destruct Ha as [<-|[]]. rewrite H. left; reflexivity.
  - destruct Ha as [<-|[]]. cbn [targ_id]. destruct (fk f); cbn; tauto.
  - rewrite H. destruct Ha as [<-|[<-|[]]]; cbn [targ_id]; cbn; tauto.
Qed.

Lemma FT_wf G f ov af : field_okP f -> id_ok f = true -> FT G f ov af -> Forall targ_wf af /\ tsum af <= fweight f /\ (length af <= 2)%nat.
Proof.
  intros [Hk Hid] Hio HF. unfold id_ok in Hio. unfold fweight. inversion HF; subst.
  - split; [constructor|]. split; [|cbn; lia]. cbn [tsum fold_right]. unfold kind_okP in Hk. destruct (fk f); try lia. destruct Hk as (? & Hp & ?). pose proof (pow2_pos _ Hp). lia.
  - rewrite H in *. cbn [kind_okP kind_is_union] in *. destruct Hk as (Hs & Hp & Hal).
    split; [|split; [cbn [tsum fold_right targ_size targ_align]; lia | cbn; lia]].
    constructor; [|constructor]. unfold targ_wf. cbn [targ_id targ_size targ_align]. repeat split; try lia; assumption.
  - split; [|split; [|cbn; lia]].
    + constructor; [|constructor]. unfold targ_wf. cbn [targ_id targ_size targ_align].
      assert (0 <= fid f) by (destruct (kind_is_union (fk f)); lia).
      repeat split; try lia. apply pow2_4.
    + cbn [tsum fold_right targ_size targ_align]. inversion H; subst; rewrite <- ?H2; try lia;
        match goal with Hx : _ = fk f |- _ => rewrite <- Hx; lia end.
  - rewrite H in *. cbn [kind_is_union] in Hio.
    split; [|split; [cbn [tsum fold_right targ_size targ_align]; lia | cbn; lia]].
    constructor; [|constructor; [|constructor]]; unfold targ_wf; cbn [targ_id targ_size targ_align]; repeat split; try lia.
    + apply pow2_1.
    + apply pow2_4.
Qed.

(* all fields of a table *)
Inductive FTs (G : xenv) : list field -> list (Z * value) -> list targ -> Prop :=
| FTs_nil : FTs G [] [] []
| FTs_absent f r fs af adds : FT G f None af -> FTs G r fs adds -> FTs G (f :: r) fs (af ++ adds)
| FTs_present f r v fs af adds : FT G f (Some v) af -> FTs G r fs adds -> FTs G (f :: r) ((fid f, v) :: fs) (af ++ adds).

Lemma FTs_mono G G' fl fs adds : ext G G' -> FTs G fl fs adds -> FTs G' fl fs adds.
Proof. intros He HF. induction HF; [constructor | apply FTs_absent | apply FTs_present]; eauto using FT_mono. Qed.

Lemma FTs_ids G fl fs adds : FTs G fl fs adds -> forall a, In a adds -> In (targ_id a) (concat (map slots fl)).
Proof.
  induction 1 as [|f r fs af adds HF HFs IH|f r v fs af adds HF HFs IH]; intros a Ha; [destruct Ha| |];
    cbn [map concat]; apply in_or_app; apply in_app_or in Ha; (destruct Ha as [Ha|Ha]; [left; eapply FT_ids; eauto | right; apply IH, Ha]).
Qed.

Lemma FTs_wf G fl fs adds : Forall field_okP fl -> forallb id_ok fl = true -> FTs G fl fs adds ->
  Forall targ_wf adds /\ tsum adds <= fsum fl /\ Z.of_nat (length adds) <= 2 * Z.of_nat (length fl).
Proof.
  intros Hok Hid HF. induction HF as [|f r fs af adds HF HFs IH|f r v fs af adds HF HFs IH].
  - split; [constructor|]. cbn. lia.
  - inversion Hok; subst. cbn [forallb] in Hid. apply andb_true_iff in Hid. destruct Hid as [Hi1 Hi2].
    destruct (IH H2 Hi2) as (Hw & Hs & Hl). destruct (FT_wf _ _ _ _ H1 Hi1 HF) as (Hw1 & Hs1 & Hl1).
    split; [apply Forall_app; split; assumption|]. split.
    + unfold tsum in *. rewrite fold_right_app. cbn [fsum].
      assert (Hfr : forall l acc, fold_right (fun a acc => targ_size a + targ_align a + acc) acc l =
                                  fold_right (fun a acc => targ_size a + targ_align a + acc) 0 l + acc).
      { induction l as [|x l IHl]; intros acc; cbn [fold_right]; [lia | rewrite IHl; lia]. }
      rewrite Hfr. lia.
    + rewrite app_length. cbn [length]. lia.
  - inversion Hok; subst. cbn [forallb] in Hid. apply andb_true_iff in Hid. destruct Hid as [Hi1 Hi2].
    destruct (IH H2 Hi2) as (Hw & Hs & Hl). destruct (FT_wf _ _ _ _ H1 Hi1 HF) as (Hw1 & Hs1 & Hl1).
    split; [apply Forall_app; split; assumption|]. split.
    + unfold tsum in *. rewrite fold_right_app. cbn [fsum].
      assert (Hfr : forall l acc, fold_right (fun a acc => targ_size a + targ_align a + acc) acc l =
                                  fold_right (fun a acc => targ_size a + targ_align a + acc) 0 l + acc).
      { induction l as [|x l IHl]; intros acc; cbn [fold_right]; [lia | rewrite IHl; lia]. }
      rewrite Hfr. lia.
    + rewrite app_length. cbn [length]. lia.
Qed.

Lemma hfields_ge i v fs : In (i, v) fs -> (vheight v <= hfields fs)%nat.
Proof. induction fs as [|[j x] r IH]; intros Hi; [destruct Hi|]. cbn [hfields]. destruct Hi as [Hi|Hi]; [injection Hi as <- <-; lia | specialize (IH Hi); lia]. Qed.

(* the add list of the whole table types every field; [pre]: slot ids of the fields before [fl] *)
Lemma FTs_wt G n all : forall fl fs adds pre,
  FTs G fl fs adds -> incl adds all ->
  (forall a, In a all -> In (targ_id a) pre \/ In a adds) ->
  NoDup (pre ++ concat (map slots fl)) -> (hfields fs <= n)%nat ->
  xwt_fields Sc G n all fl fs.
Proof.
  intros fl fs adds pre HF. revert pre. induction HF as [|f r fs af adds HF HFs IH|f r v fs af adds HF HFs IH]; intros pre Hi Hall Hnd Hn.
  - constructor.
  - destruct (FT_none _ _ _ HF) as [-> Hreq]. cbn [app] in *. cbn [map concat] in Hnd.
    assert (Hno : forall x, In x (slots f) -> forall a, In a all -> targ_id a <> x).
    { intros x Hx a Ha Heq. destruct (Hall a Ha) as [Hp|Hp].
      - rewrite Heq in Hp. apply NoDup_app_remove_r in Hnd || idtac.
        clear - Hnd Hp Hx. induction pre as [|y pre IHp]; [destruct Hp|].
        cbn [app] in Hnd. inversion Hnd; subst. destruct Hp as [->|Hp]; [apply H1; apply in_or_app; right; apply in_or_app; left; exact Hx | apply IHp; assumption].
      - pose proof (FTs_ids _ _ _ _ HFs a Hp) as Hin. rewrite Heq in Hin.
        apply NoDup_remove_app_l in Hnd || idtac.
        clear - Hnd Hin Hx. induction pre as [|y pre IHp]; cbn [app] in Hnd.
        + revert Hnd Hin Hx. generalize (slots f) as A, (concat (map slots r)) as B. intros A B Hnd Hin Hx.
          induction A as [|z A IHA]; [destruct Hx|]. cbn [app] in Hnd. inversion Hnd; subst.
          destruct Hx as [->|Hx]; [apply H1; apply in_or_app; right; exact Hin | apply IHA; assumption].
        + inversion Hnd; subst. apply IHp; assumption. }
    apply XWFS_absent.
    + apply XWF_absent; [| | exact Hreq].
      * intros a Ha. apply (Hno (fid f)); [|exact Ha]. unfold slots. destruct (fk f); cbn; tauto.
      * unfold slots in Hno. destruct (fk f); try exact I; intros a Ha; apply (Hno (fid f - 1)); cbn; tauto.
    + apply (IH (pre ++ slots f)); [exact Hi | | rewrite <- app_assoc; exact Hnd | exact Hn].
      intros a Ha. destruct (Hall a Ha) as [Hp|Hp]; [left; apply in_or_app; left; exact Hp | right; exact Hp].
  - cbn [map concat] in Hnd. cbn [hfields] in Hn.
    apply XWFS_present.
    + eapply FT_wt; [exact HF | intros a Ha; apply Hi; apply in_or_app; left; exact Ha | lia].
    + apply (IH (pre ++ slots f)); [intros a Ha; apply Hi; apply in_or_app; right; exact Ha | | rewrite <- app_assoc; exact Hnd | lia].
      intros a Ha. destruct (Hall a Ha) as [Hp|Hp]; [left; apply in_or_app; left; exact Hp|].
      apply in_app_or in Hp. destruct Hp as [Hp|Hp]; [left; apply in_or_app; right; eapply FT_ids; eauto | right; exact Hp].
Qed.
End FieldTyping.

(* the data area the add calls need stays below the 16-bit table size *)
Lemma tplace_end_le : forall adds off, Forall targ_wf adds -> 0 <= off -> off + tsum adds <= 4294967295 ->
  0 <= tplace_end adds off <= off + tsum adds.
Proof.
  induction adds as [|a r IH]; intros off Hw Hoff Hb; cbn [tplace_end]; [cbn [tsum fold_right]; lia|].
  inversion Hw as [|? ? Ha Hr]; subst. destruct Ha as (Hid & Hsz & Hp & Hal & _).
  change (tsum (a :: r)) with (targ_size a + targ_align a + tsum r) in *.
  assert (Hts : 0 <= tsum r).
  { clear - Hr. induction Hr as [|x l Hx Hl IHl]; [cbn; lia|]. change (tsum (x :: l)) with (targ_size x + targ_align x + tsum l).
    destruct Hx as (_ & ? & Hp & _). pose proof (pow2_pos _ Hp). lia. }
  pose proof (pow2_pos _ Hp) as Hpos.
  destruct (alignup_facts off (targ_align a) Hp Hoff ltac:(lia)) as [Hau _].
  rewrite (u32_id (alignup off (targ_align a) + targ_size a)) by (unfold in_u32; lia).
  specialize (IH (alignup off (targ_align a) + targ_size a) Hr ltac:(lia) ltac:(lia)). lia.
Qed.

(* ------------------------------------------------------------------ tables *)
Section Tables.
Variable Sc : schema.
Hypothesis Hok : clone_schema_ok Sc.
Variables (md : mem) (o : Z) (ds : list Z).
Variables (m : mem) (o' : Z) (base : Z).
Hypothesis Hm : mle md o m o'.

Notation SI := (SInv Sc md o ds o').
Notation RES := (Res Sc md o ds o').

(* T_clone one level down, against the decoder with depth bound kd *)
Definition rec_ok (kd : nat) (rc : nat -> cst -> Z -> option (cst * nat)) : Prop :=
  forall tix s G p v s' r, SI s G -> dec_table kd Sc md o ds tix p = Some v -> no_unknown v = true ->
    rc tix s (o' + p + 0) = Some (s', r) -> RES (XBase (OTable tix)) v G s' r.

Section OneTable.
Variables (kd : nat) (rc : nat -> cst -> Z -> option (cst * nat)).
Hypothesis Hrec : rec_ok kd rc.
Variables (vt vsize tp tsize so : Z).
Hypothesis Hso : mrd32 md (o + tp) = Some so.
Hypothesis Hvt : vt = tp - s32 so.
Hypothesis Hvs : mrd16 md (o + vt) = Some vsize.

(* the pick of a field that is one uoffset: N_f_get, then the clone of the target, then N_f_add *)
Lemma pick_off_ok id req adjust (k : Z -> option value) (cf : cst -> Z -> option (cst * nat)) ty (P Q : value -> Prop) x s G s' af :
  0 <= id < 65536 ->
  (forall s G t v s' r, SI s G -> k t = Some v -> P v -> cf s (o' + t + adjust) = Some (s', r) -> RES ty v G s' r /\ Q v) ->
  SI s G -> with_off md o ds vt vsize tp tsize id k = Some x -> (x = None -> req = false) -> (forall v, x = Some v -> P v) ->
  (p <- offset_field m (o' + tp) id req adjust;;
   match p with None => Some (s, []) | Some a => y <- cf s a;; Some (fst y, [TOffset id (snd y)]) end) = Some (s', af) ->
  exists G', SI s' G' /\ ext G G' /\
    match x with None => af = [] | Some v => exists r, af = [TOffset id r] /\ xlookup G' r = Some (mkx ty v) /\ Q v end.
Proof.
  intros Hid Hcf HS Hw Hreq HP E. unfold with_off in Hw. bd Hw. destruct o0 as [p|].
  - bd Hw. bd Hw. some_inj Hw. subst x.
    rewrite (offset_field_present _ _ _ _ Hm ds vt vsize tp tsize so Hso Hvt Hvs id req adjust p Hid E0 _ E1) in E.
    cbn [bind] in E. bd E. destruct p0 as [s1 r1]. cbn [fst snd] in E. some_inj E. injection E as <- <-.
    destruct (Hcf _ _ _ _ _ _ HS E2 (HP _ eq_refl) E3) as [(G' & HS' & He & Hl) HQ].
    exists G'. split; [exact HS'|]. split; [exact He|]. exists r1. auto.
  - some_inj Hw. subst x. unfold offset_field in E.
    rewrite (field_pos_absent _ _ _ _ Hm ds vt vsize tp tsize so Hso Hvt Hvs id 4 4 Hid E0) in E. cbn [bind] in E.
    replace (0 =? 0) with true in E by reflexivity. rewrite (Hreq eq_refl) in E. cbn [bind] in E.
    some_inj E. injection E as <- <-. exists G. split; [exact HS|]. split; [apply ext_refl | reflexivity].
Qed.

Lemma nu_list_forall vs : nu_list vs = true -> Forall (fun v => no_unknown v = true) vs.
Proof. induction vs as [|x r IH]; cbn [nu_list]; intros Hn; [constructor|]. apply andb_true_iff in Hn. destruct Hn. constructor; auto. Qed.

Lemma pick_kind_ok f ov s G s' af :
  field_okP f -> id_ok f = true -> SI s G ->
  dec_field (dec_table kd Sc) Sc md o ds vt vsize tp tsize f = Some ov ->
  (forall v, ov = Some v -> no_unknown v = true) ->
  pick_kind true Sc m base rc s (o' + tp) (fid f) (frequired f) (fk f) = Some (s', af) ->
  exists G', SI s' G' /\ ext G G' /\ FT Sc G' f ov af.
Proof.
  intros [Hk Hidhi] Hio HS Hd Hnu E. unfold id_ok in Hio.
  assert (Hid : 0 <= fid f < 65536) by (destruct (kind_is_union (fk f)); lia).
  unfold dec_field in Hd. bd Hd. rename o0 into x.
  assert (Hx : ov = x /\ (x = None -> frequired f = false)).
  { destruct x as [v|]; [some_inj Hd; split; [congruence | discriminate]|].
    destruct (frequired f); [discriminate Hd|]. some_inj Hd. split; [congruence | reflexivity]. }
  destruct Hx as [-> Hreq]. clear Hd.
  (* the five plain offset kinds share one shape *)
  assert (Hoff : forall adjust k cf ty (P Q : value -> Prop),
    (forall s G t v s' r, SI s G -> k t = Some v -> P v -> cf s (o' + t + adjust) = Some (s', r) -> RES ty v G s' r /\ Q v) ->
    with_off md o ds vt vsize tp tsize (fid f) k = Some x -> (forall v, x = Some v -> P v) ->
    (forall v, Q v -> off_kind (fk f) ty v) ->
    (p <- offset_field m (o' + tp) (fid f) (frequired f) adjust;;
     match p with None => Some (s, []) | Some a => y <- cf s a;; Some (fst y, [TOffset (fid f) (snd y)]) end) = Some (s', af) ->
    exists G', SI s' G' /\ ext G G' /\ FT Sc G' f x af).
  { intros adjust k cf ty P Q Hcf Hw HP HQ E1.
    destruct (pick_off_ok (fid f) (frequired f) adjust k cf ty P Q x s G s' af Hid Hcf HS Hw Hreq HP E1) as (G' & HS' & He & Hres).
    exists G'. split; [exact HS'|]. split; [exact He|]. destruct x as [v|].
    - destruct Hres as (r & -> & Hl & Hq). eapply FT_off; [apply HQ, Hq | exact Hl].
    - subst af. apply FT_absent, Hreq, eq_refl. }
  destruct (fk f) as [size al| |esize al mc| |t'|t'|u|u|al t'|size al] eqn:Ek; cbn [dec_kind pick_kind kind_okP] in *; try contradiction.
  - (* scalar / inline struct *)
    destruct Hk as (Hsz & Hal & Hal2). bd E0. unfold struct_field in E. destruct o0 as [p|].
    + destruct (field_pos_present _ _ _ _ Hm ds vt vsize tp tsize so Hso Hvt Hvs _ _ _ _ Hid E1) as (e & Hv & He & Hp).
      rewrite Hv in E. cbn [bind] in E. rewrite He in E. cbn [bind] in E. bd E0. some_inj E0. subst x.
      rewrite (ldbytes_at _ _ _ _ Hm _ (o + p) (o' + tp + e) _ ltac:(lia) E2) in E. cbn [bind] in E.
      some_inj E. injection E as <- <-. exists G. split; [exact HS|]. split; [apply ext_refl|].
      eapply FT_scalar; [exact Ek|]. pose proof (mrdbytes_len _ _ _ _ E2). unfold lenZ. lia.
    + rewrite (field_pos_absent _ _ _ _ Hm ds vt vsize tp tsize so Hso Hvt Hvs _ _ _ Hid E1) in E. cbn [bind] in E.
      replace (0 =? 0) with true in E by reflexivity. some_inj E0. subst x. rewrite (Hreq eq_refl) in E. cbn [bind] in E.
      some_inj E. injection E as <- <-. exists G. split; [exact HS|]. split; [apply ext_refl|]. apply FT_absent, Hreq, eq_refl.
  - (* string *)
    eapply (Hoff 4 (dec_string md o ds) (string_clone true m) (XBase OString) (fun _ => True) (fun _ => True)); [ | exact E0 | auto | intros; apply OK_string | exact E].
    intros s0 G0 t v s1 r HS0 Hdv _ Ec. split; [|exact I]. eapply string_clone_ok; eauto.
  - (* scalar / struct vector *)
    destruct Hk as (Hal & Hes & Hmc0 & Hmc).
    eapply (Hoff 4 (dec_vector md o ds esize al mc) (vec_clone true m esize al mc) (XBase (OVec esize al)) (fun _ => True)
              (fun v => exists els, v = VVec els /\ Z.of_nat (length els) <= mc)); [ | exact E0 | auto | | exact E].
    + intros s0 G0 t v s1 r HS0 Hdv _ Ec.
      destruct (vec_clone_ok Sc md o ds m o' Hm esize al mc s0 G0 t v s1 r Hal Hes Hmc0 Hmc HS0 Hdv Ec) as (els & -> & Hl & HR).
      split; [exact HR | eauto].
    + intros v (els & -> & Hl). apply OK_vector, Hl.
  - (* string vector *)
    eapply (Hoff 4 (dec_offvec (dec_string md o ds) md o ds) (offvec_clone true m (XBase OStrVec) (string_clone true m) 4)
              (XBase OStrVec) (fun _ => True) (fun _ => True)); [ | exact E0 | auto | intros; apply OK_strvec | exact E].
    intros s0 G0 t v s1 r HS0 Hdv _ Ec. split; [|exact I].
    apply (offvec_clone_ok Sc md o ds m o' Hm OString 4 (dec_string md o ds) (string_clone true m) (fun _ => True)) with (n := O) (p := t) (s := s0);
      [ | left; reflexivity | exact Hdv | exact HS0 | exact Hdv | | exact Ec].
    + intros s2 G2 t2 v2 s3 r3 HS2 Hd2 _ Ec2. eapply string_clone_ok; eauto.
    + intros vs _. clear. induction vs; constructor; auto.
  - (* table *)
    eapply (Hoff 0 (dec_table kd Sc md o ds t') (rc t') (XBase (OTable t')) (fun v => no_unknown v = true) (fun _ => True));
      [ | exact E0 | exact Hnu | intros; apply OK_table | exact E].
    intros s0 G0 t v s1 r HS0 Hdv Hn Ec. split; [|exact I]. eapply Hrec; eauto.
  - (* table vector *)
    eapply (Hoff 4 (dec_offvec (dec_table kd Sc md o ds t') md o ds) (offvec_clone true m (XBase (OTabVec t')) (rc t') 0)
              (XBase (OTabVec t')) (fun v => no_unknown v = true) (fun _ => True)); [ | exact E0 | exact Hnu | intros; apply OK_tabvec | exact E].
    intros s0 G0 t v s1 r HS0 Hdv Hn Ec. split; [|exact I].
    apply (offvec_clone_ok Sc md o ds m o' Hm (OTable t') 0 (dec_table kd Sc md o ds t') (rc t') (fun v => no_unknown v = true)) with (n := kd) (p := t) (s := s0);
      [ | right; eexists; reflexivity | exact Hdv | exact HS0 | exact Hdv | | exact Ec].
    + intros s2 G2 t2 v2 s3 r3 HS2 Hd2 Hn2 Ec2. eapply Hrec; eauto.
    + intros vs ->. apply nu_list_forall. rewrite <- no_unknown_offvec. exact Hn.
  - (* union *)
    assert (Hid1 : 0 <= fid f - 1 < 65536) by (cbn [kind_is_union] in Hio; lia).
    bd E0. bd E0. bd E0. rename o0 into tyf, z into code, o1 into vf.
    unfold union_field, union_type_field in E.
    assert (Hty : (o1 <- read_vt m (o' + tp) (fid f - 1);; (if o1 =? 0 then Some 0 else ld8 m (o' + tp + o1))) = Some code).
    { destruct tyf as [p|].
      - destruct (field_pos_present _ _ _ _ Hm ds vt vsize tp tsize so Hso Hvt Hvs _ _ _ _ Hid1 E1) as (e & Hv & He & Hp).
        rewrite Hv. cbn [bind]. rewrite He. apply (ld8_at _ _ _ _ Hm (o + p)); [lia | exact E2].
      - rewrite (field_pos_absent _ _ _ _ Hm ds vt vsize tp tsize so Hso Hvt Hvs _ _ _ Hid1 E1). cbn [bind]. exact E2. }
    rewrite Hty in E. cbn [bind] in E.
    destruct (code =? 0) eqn:Ec.
    + destruct vf as [p|]; [discriminate E0|]. some_inj E0. subst x. cbn [bind fst] in E.
      replace (0 =? 0) with true in E by reflexivity. some_inj E. injection E as <- <-.
      exists G. split; [exact HS|]. split; [apply ext_refl|]. apply FT_absent, Hreq, eq_refl.
    + destruct vf as [p|]; [|discriminate E0]. bd E0. bd E0. some_inj E0. subst x. rename z into t, v into vm.
      rewrite (offset_field_present _ _ _ _ Hm ds vt vsize tp tsize so Hso Hvt Hvs (fid f) (frequired f) 0 p Hid E3 _ E4) in E.
      cbn [bind fst snd] in E. rewrite Ec in E.
      specialize (Hnu _ eq_refl). cbn [no_unknown] in Hnu.
      unfold dec_member in E5. unfold member_clone in E.
      destruct (union_member Sc u code) as [mem|] eqn:Em; [|some_inj E5; subst vm; discriminate Hnu].
      assert (HR : exists s1 r1, af = [TInline (fid f - 1) 1 1 [code]; TOffset (fid f) r1] /\ s' = s1 /\
                                 RES (XBase (member_oty mem)) vm G s1 r1).
      { pose proof (member_ok _ _ _ _ Hok Em) as Hmo. unfold member_okP in Hmo. cbn [snd] in Hmo.
        destruct mem as [tm|size al|]; cbn [member_oty].
        - bd E. bd E0. some_inj E0. subst p0. destruct p1 as [s1 r1]. cbn [fst snd] in E. some_inj E. injection E as <- <-.
          exists s1, r1. split; [reflexivity|]. split; [reflexivity|]. eapply Hrec; eauto.
        - bd E. bd E0. some_inj E0. subst p0. destruct p1 as [s1 r1]. cbn [fst snd] in E. some_inj E. injection E as <- <-.
          exists s1, r1. split; [reflexivity|]. split; [reflexivity|]. destruct Hmo as [Hsz Hal].
          replace (o' + t + 0) with (o' + t) in E6 by lia.
          eapply struct_clone_ok; eauto.
        - bd E. bd E0. some_inj E0. subst p0. destruct p1 as [s1 r1]. cbn [fst snd] in E. some_inj E. injection E as <- <-.
          exists s1, r1. split; [reflexivity|]. split; [reflexivity|].
          unfold string_cast_from_generic in E6. replace (o' + t + 0 + 4) with (o' + t + 4) in E6 by lia.
          eapply string_clone_ok; eauto. }
      destruct HR as (s1 & r1 & -> & -> & (G' & HS' & He & Hl)).
      exists G'. split; [exact HS'|]. split; [exact He|].
      eapply FT_union; [exact Ek | lia | exact Em | exact Hl].
Qed.
End OneTable.
End Tables.

Section Tables2.
Variable Sc : schema.
Hypothesis Hok : clone_schema_ok Sc.
Variables (md : mem) (o : Z) (ds : list Z).
Variables (m : mem) (o' : Z) (base : Z).
Hypothesis Hm : mle md o m o'.

Notation SI := (SInv Sc md o ds o').
Notation RES := (Res Sc md o ds o').

Lemma nu_fields_in fs : nu_fields fs = true -> forall i v, In (i, v) fs -> no_unknown v = true.
Proof.
  induction fs as [|[j x] r IH]; cbn [nu_fields]; intros Hn i v Hi; [destruct Hi|].
  apply andb_true_iff in Hn. destruct Hn as [Hx Hr]. destruct Hi as [Hi|Hi]; [injection Hi as <- <-; exact Hx | eapply IH; eauto].
Qed.

Lemma pick_fields_ok kd rc vt vsize tp tsize so :
  rec_ok Sc md o ds o' kd rc ->
  mrd32 md (o + tp) = Some so -> vt = tp - s32 so -> mrd16 md (o + vt) = Some vsize ->
  forall fl fs s G s' adds,
  Forall field_okP fl -> forallb id_ok fl = true -> SI s G ->
  dec_fields (dec_table kd Sc) Sc md o ds vt vsize tp tsize fl = Some fs -> nu_fields fs = true ->
  pick_fields true Sc m base rc s (o' + tp) fl = Some (s', adds) ->
  exists G', SI s' G' /\ ext G G' /\ FTs Sc G' fl fs adds.
Proof.
  intros Hrec Hso Hvt Hvs. induction fl as [|f fl IH]; intros fs s G s' adds Hfo Hio HS Hd Hnu E; cbn [dec_fields pick_fields] in *.
  - some_inj Hd. subst fs. some_inj E. injection E as <- <-. exists G. split; [exact HS|]. split; [apply ext_refl | constructor].
  - pose proof (Forall_inv Hfo) as Hf1. pose proof (Forall_inv_tail Hfo) as Hf2. apply andb_true_iff in Hio. destruct Hio as [Hi1 Hi2].
    bd Hd. bd Hd. some_inj Hd. rename o0 into ov, l into rest.
    bd E. destruct p as [s1 af]. cbn [fst snd] in E. bd E. destruct p as [s2 adds2]. cbn [fst snd] in E.
    some_inj E. injection E as <- <-.
    assert (Hnu1 : forall v, ov = Some v -> no_unknown v = true).
    { intros v ->. subst fs. eapply nu_fields_in; [exact Hnu | left; reflexivity]. }
    assert (Hnu2 : nu_fields rest = true).
    { subst fs. destruct ov; [cbn [nu_fields] in Hnu; apply andb_true_iff in Hnu; tauto | exact Hnu]. }
    destruct (pick_kind_ok Sc Hok md o ds m o' base Hm kd rc Hrec vt vsize tp tsize so Hso Hvt Hvs f ov s G s1 af Hf1 Hi1 HS E0 Hnu1 E2)
      as (G1 & HS1 & He1 & HF1).
    destruct (IH rest s1 G1 s2 adds2 Hf2 Hi2 HS1 eq_refl Hnu2 E3) as (G2 & HS2 & He2 & HF2).
    exists G2. split; [exact HS2|]. split; [eapply ext_trans; eauto|].
    subst fs. destruct ov as [v|]; [apply FTs_present | apply FTs_absent]; eauto using FT_mono.
Qed.

Lemma table_fields_ok t flds : table_fields Sc t = Some flds -> table_okP flds /\ forallb id_ok flds = true.
Proof.
  intros Ht. split.
  - pose proof (cs_tables _ Hok) as HF. rewrite Forall_forall in HF. apply HF. unfold table_fields in Ht. eapply nth_error_In; eauto.
  - eapply ids_ok_fields; [apply (cs_ids _ Hok) | exact Ht].
Qed.

(* T_clone against the decoder: any two depth bounds *)
Lemma table_clone_ok : forall kc kd, rec_ok Sc md o ds o' kd (table_clone true Sc m base kc).
Proof.
  induction kc as [|kc IH]; intros kd tix s G p v s' r HS Hd Hnu E; [discriminate E|].
  destruct kd as [|kd]; [discriminate Hd|]. cbn [dec_table table_clone] in *.
  pose proof Hd as Hd0. unfold dec_table_body in Hd. bd Hd. bd Hd. bd Hd. bd Hd. bd Hd. bd Hd. bd Hd. bd Hd. bd Hd. bd Hd.
  some_inj Hd. subst v. rename l into flds, z into so, z0 into vsize, z1 into tsize, l0 into fs.
  destruct (table_fields_ok _ _ E0) as [(Hfo & Hnd & Hlen & Hsum) Hio].
  unfold table_clone_body in E.
  eapply (memoized Sc md o ds o' s G (XBase (OTable tix)) p (o' + p + 0) (S kd) (VTable fs) _ s' r
            ltac:(unfold okey; lia) HS (xfun_base Sc _) Hd0 E).
  intros _ Eb. rewrite E0 in Eb. cbn [bind] in Eb. bd Eb. destruct p0 as [s1 adds]. cbn [fst snd] in Eb. some_inj Eb.
  replace (o' + p + 0) with (o' + p) in E10 by lia.
  rewrite no_unknown_table in Hnu.
  destruct (pick_fields_ok kd (table_clone true Sc m base kc) (p - s32 so) vsize p tsize so (IH kd) E2 eq_refl E4
              flds fs s G s1 adds Hfo Hio HS E9 Hnu E10) as (G1 & HS1 & He1 & HFs).
  exists s1, G1, (CTable adds). split; [exact HS1|]. split; [exact He1|]. split; [|exact Eb].
  destruct (FTs_wf Sc G1 flds fs adds Hfo Hio HFs) as (Hw & Hts & Hl).
  change (Some (mkx (XBase (OTable tix)) (VTable fs))) with (xmk (XBase (OTable tix)) (VTable fs) (S (hfields fs))).
  apply (XT_table Sc G1 adds tix flds fs (hfields fs)); [exact Hw | lia | | exact E0 |].
  - pose proof (tplace_end_le adds 0 Hw ltac:(lia) ltac:(lia)). lia.
  - apply (FTs_wt Sc G1 (hfields fs) adds flds fs adds []); [exact HFs | apply incl_refl | auto | exact Hnd | lia].
Qed.
End Tables2.

(* ------------------------------------------------------------------ the whole clone: N_clone_as_root *)
From Flatcc.Builder Require Import NestedBuild NestedCount.

Lemma SInv_init Sc md o ds o' M : m_map M = [] -> SInv Sc md o ds o' (cst_init M) [].
Proof.
  intros HM. constructor; cbn [cst_init c_cmds c_next c_memo length]; [apply CW_nil | reflexivity|].
  intros k r ty Hf. unfold mfind in Hf. rewrite HM in Hf. destruct (m_on M); discriminate Hf.
Qed.

(* the decoded root table lies where flatbuffers_read_root looks *)
Lemma decode_root_table n Sc tix ws l v :
  decode_root n Sc (RTable tix) ws l = Some v ->
  exists hi tgt, root_ptr (mem_of_list l) ws = Some tgt /\
                 dec_table n Sc (restrict (mem_of_list l) 0 hi) 0 [0] tix tgt = Some v.
Proof.
  unfold decode_root, decode_mem, root_ptr, read_root_ptr, read_size_prefix. intros E. destruct ws.
  - bd E. bd E. exists (4 + z). unfold dec_buffer in E. bd E. bd E. unfold follow in E3. bd E3. bd E3. some_inj E3. subst z0.
    exists (4 + z1). split; [|exact E].
    rewrite (ld32_at _ _ _ _ (mle_restrict0 (mem_of_list l) (4 + z)) (0 + 4) (0 + 4) _ eq_refl E4). reflexivity.
  - exists (Z.of_nat (length l)). unfold dec_buffer in E. bd E. bd E. unfold follow in E1. bd E1. bd E1. some_inj E1. subst z.
    exists (0 + z0). split; [|exact E].
    rewrite (ld32_at _ _ _ _ (mle_restrict0 (mem_of_list l) (Z.of_nat (length l))) (0 + 0) 0 _ eq_refl E2). reflexivity.
Qed.

Theorem clone_well_typed : forall Sc cl ba0 id0 id fl M kc n tix ws src base v sc r M',
  clone_schema_ok Sc -> m_map M = [] ->
  decode_root n Sc (RTable tix) ws src = Some v -> no_unknown v = true ->
  balign_ok ba0 -> in_u32 id -> 0 <= fl < 65536 ->
  clone_root_script true Sc (mem_of_list src) base cl ba0 id0 id fl M kc tix ws = Some (sc, r, M') ->
  xwt_script Sc sc (RTable tix) v (negb (Z.land fl 2 =? 0)) (vheight v) [].
Proof.
  intros Sc cl ba0 id0 id fl M kc n tix ws src base v sc r M' Hok HM Hd Hnu Hba Hid Hfl E.
  destruct (decode_root_table _ _ _ _ _ _ Hd) as (hi & tgt & Hrp & Hdt).
  unfold clone_root_script in E. rewrite Hrp in E. cbn [bind] in E. bd E. destruct p as [s1 r1]. cbn [fst snd] in E.
  some_inj E. injection E as <- <- <-.
  replace tgt with (0 + tgt + 0) in E0 by lia.
  destruct (table_clone_ok Sc Hok (restrict (mem_of_list src) 0 hi) 0 [0] (mem_of_list src) 0 base
              (mle_restrict0 _ _) kc n tix (cst_init M) [] tgt v s1 r1 (SInv_init _ _ _ _ _ M HM) Hdt Hnu E0)
    as (G' & HS' & _ & Hl).
  apply (XT_top Sc cl ba0 id0 [] id 0 fl (c_cmds s1) r1 (RTable tix) v (vheight v) [] G' [] []);
    [exact Hba | apply XS_nil | apply cwt_xwt, (si_cmds _ _ _ _ _ _ _ HS') | exact Hl | left; reflexivity | exact Hid | exact Hfl].
Qed.

(* the decoder accepts with every larger depth bound *)
Lemma decode_root_depth_mono n n' Sc R ws l v : (n <= n')%nat ->
  decode_root n Sc R ws l = Some v -> decode_root n' Sc R ws l = Some v.
Proof.
  intros Hn. unfold decode_root, decode_mem. intros E. destruct ws.
  - bd E. bd E. cbn [bind]. rewrite E1.
    eapply (dec_buffer_mono (dec_table n Sc) (dec_table n' Sc) (dec_table_mono Sc n n' Hn)); [apply mle_refl | exact E].
  - eapply (dec_buffer_mono (dec_table n Sc) (dec_table n' Sc) (dec_table_mono Sc n n' Hn)); [apply mle_refl | exact E].
Qed.

(* content: the finished copy decodes to the value the source decodes to *)
Theorem clone_content : forall Sc cl ba0 id0 id fl M kc n tix ws src base v sc r M' regs ems st,
  clone_schema_ok Sc -> m_map M = [] ->
  decode_root n Sc (RTable tix) ws src = Some v -> no_unknown v = true ->
  balign_ok ba0 -> in_u32 id -> 0 <= fl < 65536 ->
  clone_root_script true Sc (mem_of_list src) base cl ba0 id0 id fl M kc tix ws = Some (sc, r, M') ->
  run init_state [] sc = Some (regs, ems, st) -> small st ->
  forall n', (vheight v <= n')%nat ->
  decode_root n' Sc (RTable tix) (negb (Z.land fl 2 =? 0)) (buffer_bytes st) = Some v.
Proof.
  intros Sc cl ba0 id0 id fl M kc n tix ws src base v sc r M' regs ems st Hok HM Hd Hnu Hba Hid Hfl E Hrun Hsm n' Hn'.
  eapply decode_root_depth_mono; [exact Hn'|].
  eapply nested_build_decode; [eapply clone_well_typed; eauto | exact Hrun | exact Hsm].
Qed.

(* ------------------------------------------------------------------ the copy is accepted by the verifier model *)
From Flatcc.Verifier Require Schema VerifierModel VerifierProofsBase VerifierProofsTop CompleteBase CompleteTable Complete CompleteBytes.

Module CloneVerify.
Module EMx := Flatcc.Builder.EmitModel.
Module FSx := Flatcc.Format.Schema.
Import Flatcc.Verifier.Schema Flatcc.Verifier.VerifierModel Flatcc.Verifier.VerifierProofsBase Flatcc.Verifier.VerifierProofsTop.
Import Flatcc.Verifier.CompleteBase Flatcc.Verifier.CompleteTable Flatcc.Verifier.Complete Flatcc.Verifier.CompleteBytes.

(* every well-typed script in the extended typing (union vectors included) finishes a buffer the verifier accepts:
   CompleteBuild.build_verifies for [xwt_script] *)
Theorem xbuild_verifies : forall Sc sc R v ws n N regs ems st addr fuel,
  xwt_script Sc sc R v ws n N -> EMx.run EMx.init_state [] sc = Some (regs, ems, st) -> VMem.small st ->
  schema_wf (to_vschema Sc) = true -> schema_in_fragment Sc = true -> members_nonempty Sc = true -> root_ok R ->
  script_bytes sc = true ->
  levels_needed Sc n <= VERIFIER_MAX_LEVELS -> (n <= fuel)%nat ->
  header_room R ws (EMx.lenZ (EMx.buffer_bytes st)) ->
  addr mod EMx.buffer_alignment st = 0 ->
  verify_root (of_list (EMx.buffer_bytes st)) addr (to_vschema Sc) fuel (to_vroot R) (to_variant ws) = VOk.
Proof.
  intros Sc sc R v ws n N regs ems st addr fuel Hwt Hrun Hsm Hwf Hfrag Hne HR Hsb Hlev Hfuel Hroom Haddr.
  destruct (nested_build_wf Sc sc R v ws n N regs ems st Hwt Hrun Hsm) as (_ & Hwa & _ & HA4).
  pose proof (build_emits_bytes sc regs ems st Hrun Hsb) as Hbytes.
  apply (verify_complete_partial n Sc R ws (EMx.buffer_bytes st) (EMx.buffer_alignment st) addr fuel
           Hwf Hfrag Hne HR Hbytes Hwa Hlev Hfuel Hroom); [|lia|exact Haddr].
  unfold VMem.small, EMx.lenZ in Hsm. unfold EMx.buffer_bytes. rewrite app_length. lia.
Qed.

Theorem clone_verifies : forall Sc cl ba0 id0 id fl M kc n tix ws src base v sc r M' regs ems st addr fuel,
  clone_schema_ok Sc -> m_map M = [] ->
  Spec.decode_root n Sc (FSx.RTable tix) ws src = Some v -> no_unknown v = true ->
  balign_ok ba0 -> in_u32 id -> 0 <= fl < 65536 ->
  clone_root_script true Sc (Spec.mem_of_list src) base cl ba0 id0 id fl M kc tix ws = Some (sc, r, M') ->
  EMx.run EMx.init_state [] sc = Some (regs, ems, st) -> VMem.small st ->
  schema_wf (to_vschema Sc) = true -> schema_in_fragment Sc = true -> members_nonempty Sc = true ->
  script_bytes sc = true ->
  levels_needed Sc (vheight v) <= VERIFIER_MAX_LEVELS -> (vheight v <= fuel)%nat ->
  addr mod EMx.buffer_alignment st = 0 ->
  verify_root (of_list (EMx.buffer_bytes st)) addr (to_vschema Sc) fuel (to_vroot (FSx.RTable tix))
              (to_variant (negb (Z.land fl 2 =? 0))) = VOk.
Proof.
  intros Sc cl ba0 id0 id fl M kc n tix ws src base v sc r M' regs ems st addr fuel
         Hok HM Hd Hnu Hba Hid Hfl E Hrun Hsm Hwf Hfrag Hne Hsb Hlev Hfuel Haddr.
  eapply xbuild_verifies; try eassumption.
  - eapply clone_well_typed; eauto.
  - exact I.
  - exact I.
Qed.
End CloneVerify.

(* ------------------------------------------------------------------ sharing: what the memo does, concretely *)
Section Sharing.
Variable strict : bool.
Variable Sc : schema.
Variables (m : mem) (base : Z).

Lemma xty_eqb_refl ty : xty_eqb ty ty = true.
Proof.
  destruct ty as [t| |u|R]; cbn [xty_eqb]; try reflexivity; try apply Nat.eqb_refl.
  - destruct t; cbn [oty_eqb]; rewrite ?Z.eqb_refl, ?Nat.eqb_refl; reflexivity.
  - destruct R; cbn [root_eqb]; rewrite ?Z.eqb_refl, ?Nat.eqb_refl; reflexivity.
Qed.

(* a visit of a memoized key returns the stored register and changes nothing (no command, no memo entry) *)
Lemma memo_begin_hit s k r ty : mfind (c_memo s) k = Some (r, ty) -> memo_begin strict s k ty = Some (Some r).
Proof. intros Hf. unfold memo_begin. rewrite Hf, xty_eqb_refl. cbn [negb]. rewrite andb_false_r. reflexivity. Qed.

Lemma table_clone_hit n tix s t r : mfind (c_memo s) t = Some (r, XBase (OTable tix)) ->
  table_clone strict Sc m base (S n) tix s t = Some (s, r).
Proof. intros Hf. cbn [table_clone]. unfold table_clone_body. rewrite (memo_begin_hit _ _ _ _ Hf). reflexivity. Qed.

Lemma string_clone_hit s sp r : mfind (c_memo s) sp = Some (r, XBase OString) -> string_clone strict m s sp = Some (s, r).
Proof. intros Hf. unfold string_clone. rewrite (memo_begin_hit _ _ _ _ Hf). reflexivity. Qed.

Lemma vec_clone_hit es al mc s vec r : mfind (c_memo s) (vec - 4) = Some (r, XBase (OVec es al)) ->
  vec_clone strict m es al mc s vec = Some (s, r).
Proof. intros Hf. unfold vec_clone. rewrite (memo_begin_hit _ _ _ _ Hf). reflexivity. Qed.

Lemma struct_clone_hit size al s p r : mfind (c_memo s) p = Some (r, XBase (OStruct size al)) ->
  struct_clone strict m size al s p = Some (s, r).
Proof. intros Hf. unfold struct_clone. rewrite (memo_begin_hit _ _ _ _ Hf). reflexivity. Qed.

Lemma offvec_clone_hit ty f adjust s vec r : mfind (c_memo s) (vec - 4) = Some (r, ty) ->
  offvec_clone strict m ty f adjust s vec = Some (s, r).
Proof. intros Hf. unfold offvec_clone. rewrite (memo_begin_hit _ _ _ _ Hf). reflexivity. Qed.

(* after the clone of an object its key is memoized with the returned register (reference map installed) *)
Lemma memo_begin_found s k ty r : memo_begin true s k ty = Some (Some r) -> mfind (c_memo s) k = Some (r, ty).
Proof.
  unfold memo_begin. destruct (mfind (c_memo s) k) as [[r0 ty0]|]; [|discriminate]. cbn [andb].
  destruct (xty_eqb ty ty0) eqn:E; cbn [negb]; [|discriminate]. intros H. some_inj H. some_inj H. subst r0.
  apply xty_eqb_eq in E. subst ty0. reflexivity.
Qed.

Lemma emit1_found s c k ty s' r : m_on (c_memo s) = true -> emit1 s c k ty = (s', r) -> mfind (c_memo s') k = Some (r, ty).
Proof.
  intros Hon E. unfold emit1 in E. injection E as <- <-. cbn [c_memo]. unfold mfind, minsert. rewrite Hon.
  cbn [m_on m_map assocZ]. rewrite Z.eqb_refl. reflexivity.
Qed.

Lemma emit1_on s c k ty s' r : emit1 s c k ty = (s', r) -> m_on (c_memo s') = m_on (c_memo s).
Proof. intros E. unfold emit1 in E. injection E as <- _. cbn [c_memo]. unfold minsert. destruct (m_on (c_memo s)) eqn:Eo; [reflexivity | exact Eo]. Qed.

Lemma string_clone_memoizes s sp s' r : m_on (c_memo s) = true ->
  string_clone true m s sp = Some (s', r) -> mfind (c_memo s') sp = Some (r, XBase OString).
Proof.
  intros Hon E. unfold string_clone in E. bd E. destruct o as [r0|].
  - some_inj E. injection E as <- <-. apply memo_begin_found, E0.
  - bd E. bd E. some_inj E. eapply emit1_found; eauto.
Qed.

(* pick_fields only changes the state through clone calls; the flag "a map is installed" never changes *)
Definition keeps_on (f : cst -> Z -> option (cst * nat)) : Prop :=
  forall s p s' r, f s p = Some (s', r) -> m_on (c_memo s') = m_on (c_memo s).
End Sharing.

(* the second visit of a table: same reference, nothing emitted - for every state whose memo still holds the entry *)
Theorem clone_shares_table : forall Sc m base n1 tix s t s1 r,
  m_on (c_memo s1) = true ->
  table_clone true Sc m base n1 tix s t = Some (s1, r) ->
  mfind (c_memo s1) t = Some (r, XBase (OTable tix)) ->
  forall strict s2 n2, mfind (c_memo s2) t = mfind (c_memo s1) t ->
  table_clone strict Sc m base (S n2) tix s2 t = Some (s2, r).
Proof. intros Sc m base n1 tix s t s1 r Hon E Hf strict s2 n2 Hsame. apply table_clone_hit. rewrite Hsame. exact Hf. Qed.

(* ------------------------------------------------------------------ memo entries are never lost or replaced *)
Definition mext (s s' : cst) : Prop := forall k x, mfind (c_memo s) k = Some x -> mfind (c_memo s') k = Some x.
Lemma mext_refl s : mext s s. Proof. intros k x H. exact H. Qed.
Lemma mext_trans a b c : mext a b -> mext b c -> mext a c. Proof. intros H1 H2 k x H. apply H2, H1, H. Qed.

Lemma memo_begin_none st s k ty : memo_begin st s k ty = Some None -> mfind (c_memo s) k = None.
Proof. unfold memo_begin. destruct (mfind (c_memo s) k) as [[r ty']|]; [|reflexivity]. destruct (st && negb (xty_eqb ty ty')); discriminate. Qed.

Lemma mext_insert M s1 k r ty :
  (forall k' x, mfind M k' = Some x -> mfind (c_memo s1) k' = Some x) -> mfind M k = None ->
  forall k' x, mfind M k' = Some x -> mfind (minsert (c_memo s1) k r ty) k' = Some x.
Proof.
  intros H1 Hn k' x Hf. specialize (H1 k' x Hf). unfold minsert. destruct (m_on (c_memo s1)) eqn:Eon; [|exact H1].
  unfold mfind in *. cbn [m_on m_map assocZ]. rewrite Eon in H1.
  destruct (k' =? k) eqn:Ek; [|exact H1]. assert (k' = k) by lia. subst k'. rewrite Hn in Hf. discriminate Hf.
Qed.

Lemma mext_emit s s1 c k ty s' r : mext s s1 -> mfind (c_memo s) k = None -> emit1 s1 c k ty = (s', r) -> mext s s'.
Proof. intros H1 Hn E. unfold emit1 in E. injection E as <- _. intros k' x Hf. cbn [c_memo]. eapply mext_insert; eauto. Qed.

Lemma memoized_mext st s k ty (body : option (cst * nat)) s' r :
  (h <- memo_begin st s k ty;; match h with Some r0 => Some (s, r0) | None => body end) = Some (s', r) ->
  (body = Some (s', r) -> exists s1 c, mext s s1 /\ emit1 s1 c k ty = (s', r)) -> mext s s'.
Proof.
  intros E Hb. bd E. destruct o as [r0|].
  - some_inj E. injection E as <- _. apply mext_refl.
  - destruct (Hb E) as (s1 & c & H1 & He). eapply mext_emit; eauto using memo_begin_none.
Qed.

Section Mext.
Variable strict : bool.
Variable Sc : schema.
Variables (m : mem) (base : Z).

Definition fmext (f : cst -> Z -> option (cst * nat)) : Prop := forall s p s' r, f s p = Some (s', r) -> mext s s'.

Lemma string_clone_mext : fmext (string_clone strict m).
Proof. intros s p s' r E. unfold string_clone in E. eapply memoized_mext; [exact E|]. intros Eb. bd Eb. bd Eb. some_inj Eb. exists s. eexists. split; [apply mext_refl | exact Eb]. Qed.
Lemma vec_clone_mext es al mc : fmext (vec_clone strict m es al mc).
Proof. intros s p s' r E. unfold vec_clone in E. eapply memoized_mext; [exact E|]. intros Eb. bd Eb. bd Eb. some_inj Eb. exists s. eexists. split; [apply mext_refl | exact Eb]. Qed.
Lemma struct_clone_mext size al : fmext (struct_clone strict m size al).
Proof. intros s p s' r E. unfold struct_clone in E. eapply memoized_mext; [exact E|]. intros Eb. bd Eb. some_inj Eb. exists s. eexists. split; [apply mext_refl | exact Eb]. Qed.
Lemma nested_clone_mext R : fmext (nested_clone strict m base R).
Proof. intros s p s' r E. unfold nested_clone in E. eapply memoized_mext; [exact E|]. intros Eb. bd Eb. bd Eb. some_inj Eb. exists s. eexists. split; [apply mext_refl | exact Eb]. Qed.

Lemma clone_offs_mext f : fmext f -> forall count s vec adjust i s' rs,
  clone_offs m f s vec adjust i count = Some (s', rs) -> mext s s'.
Proof.
  intros Hf. induction count as [|k IH]; intros s vec adjust i s' rs E; cbn [clone_offs] in E.
  - some_inj E. injection E as <- _. apply mext_refl.
  - bd E. bd E. destruct p as [s1 r1]. cbn [fst snd] in E. bd E. destruct p as [s2 rs2]. cbn [fst snd] in E.
    some_inj E. injection E as <- _. eapply mext_trans; [eapply Hf; eauto | eapply IH; eauto].
Qed.

Lemma offvec_clone_mext ty f adjust : fmext f -> fmext (offvec_clone strict m ty f adjust).
Proof.
  intros Hf s p s' r E. unfold offvec_clone in E. eapply memoized_mext; [exact E|]. intros Eb. bd Eb. bd Eb.
  destruct p0 as [s1 rs]. cbn [fst snd] in Eb. some_inj Eb. exists s1. eexists. split; [eapply clone_offs_mext; eauto | exact Eb].
Qed.

Section Rec.
Variable rc : nat -> cst -> Z -> option (cst * nat).
Hypothesis Hrc : forall t, fmext (rc t).

Lemma member_clone_mext u s code p s' x : member_clone strict Sc m rc u s code p = Some (s', x) -> mext s s'.
Proof.
  unfold member_clone. destruct (union_member Sc u code) as [[t|size al|]|]; intros E.
  - bd E. destruct p0 as [s1 r1]. cbn [fst snd] in E. some_inj E. injection E as <- _. eapply Hrc; eauto.
  - bd E. destruct p0 as [s1 r1]. cbn [fst snd] in E. some_inj E. injection E as <- _. eapply struct_clone_mext; eauto.
  - bd E. destruct p0 as [s1 r1]. cbn [fst snd] in E. some_inj E. injection E as <- _. eapply string_clone_mext; eauto.
  - some_inj E. injection E as <- _. apply mext_refl.
Qed.

Lemma clone_uelems_mext u uv : forall count s i s' es, clone_uelems strict Sc m rc u s uv i count = Some (s', es) -> mext s s'.
Proof.
  induction count as [|k IH]; intros s i s' es E; cbn [clone_uelems] in E.
  - some_inj E. injection E as <- _. apply mext_refl.
  - bd E. bd E. destruct p0 as [s1 x1]. cbn [fst snd] in E. bd E. destruct p0 as [s2 es2]. cbn [fst snd] in E.
    some_inj E. injection E as <- _. eapply mext_trans; [|eapply IH; eauto].
    destruct (snd p) as [q|]; [eapply member_clone_mext; eauto | some_inj E1; injection E1 as <- _; apply mext_refl].
Qed.

Lemma uvec_clone_mext u s uv s' x : uvec_clone strict Sc m rc u s uv = Some (s', x) -> mext s s'.
Proof.
  unfold uvec_clone. destruct (fst uv) as [tv|]; [|intros E; some_inj E; injection E as <- _; apply mext_refl].
  destruct (snd uv) as [vv|]; [|discriminate]. intros E. bd E. bd E. rename o into ht, o0 into hv.
  assert (Hgen : forall (E' : (n <- vec_len m (Some tv);;
             y <- clone_uelems strict Sc m rc u s uv 0 (Z.to_nat n);;
             Some ({| c_cmds := c_cmds (fst y) ++ [CUnionVec (snd y)]; c_next := S (S (c_next (fst y)));
                      c_memo := match hv with
                                | Some _ => match ht with Some _ => c_memo (fst y) | None => minsert (c_memo (fst y)) (tv - 4) (S (c_next (fst y))) XUType end
                                | None => minsert (match ht with Some _ => c_memo (fst y) | None => minsert (c_memo (fst y)) (tv - 4) (S (c_next (fst y))) XUType end)
                                                  (vv - 4) (c_next (fst y)) (XUVal u)
                                end |},
                   Some (match ht with Some rt => rt | None => S (c_next (fst y)) end,
                         match hv with Some rv => rv | None => c_next (fst y) end))) = Some (s', x)), mext s s').
  { intros E'. bd E'. bd E'. destruct p as [s1 es]. cbn [fst snd] in E'. some_inj E'. injection E' as <- _.
    pose proof (clone_uelems_mext _ _ _ _ _ _ _ E3) as H1. intros k x0 Hf. cbn [c_memo].
    set (M1 := match ht with Some _ => c_memo s1 | None => minsert (c_memo s1) (tv - 4) (S (c_next s1)) XUType end).
    assert (HM1 : forall k' x', mfind (c_memo s) k' = Some x' -> mfind M1 k' = Some x').
    { subst M1. destruct ht; [exact H1|]. apply mext_insert; [exact H1 | eapply memo_begin_none; eauto]. }
    destruct hv; [apply HM1, Hf|].
    pose proof (mext_insert (c_memo s) {| c_cmds := []; c_next := O; c_memo := M1 |} (vv - 4) (c_next s1) (XUVal u)) as H2.
    cbn [c_memo] in H2. apply H2; [exact HM1 | eapply memo_begin_none; eauto | exact Hf]. }
  destruct ht as [rt|], hv as [rv|]; try (apply Hgen; exact E).
  some_inj E. injection E as <- _. apply mext_refl.
Qed.

Lemma pick_kind_mext s t id req k s' af : pick_kind strict Sc m base rc s t id req k = Some (s', af) -> mext s s'.
Proof.
  assert (Hoff : forall adjust (cf : cst -> Z -> option (cst * nat)), fmext cf ->
    (p <- offset_field m t id req adjust;;
     match p with None => Some (s, []) | Some a => x <- cf s a;; Some (fst x, [TOffset id (snd x)]) end) = Some (s', af) -> mext s s').
  { intros adjust cf Hcf E. bd E. destruct o as [a|].
    - bd E. destruct p as [s1 r1]. cbn [fst snd] in E. some_inj E. injection E as <- _. eapply Hcf; eauto.
    - some_inj E. injection E as <- _. apply mext_refl. }
  destruct k; cbn [pick_kind]; intros E.
  - bd E. destruct o as [a|]; [bd E|]; some_inj E; injection E as <- _; apply mext_refl.
  - eapply Hoff; [apply string_clone_mext | exact E].
  - eapply Hoff; [apply vec_clone_mext | exact E].
  - eapply Hoff; [apply offvec_clone_mext, string_clone_mext | exact E].
  - eapply Hoff; [apply Hrc | exact E].
  - eapply Hoff; [apply offvec_clone_mext, Hrc | exact E].
  - bd E. destruct (fst p =? 0); [some_inj E; injection E as <- _; apply mext_refl|].
    destruct (snd p) as [q|]; [|discriminate E]. bd E. destruct p0 as [s1 x1]. cbn [fst snd] in E.
    pose proof (member_clone_mext _ _ _ _ _ _ E1) as H1.
    destruct x1; some_inj E; injection E as <- _; exact H1.
  - bd E. bd E. destruct p0 as [s1 x1]. cbn [fst snd] in E. pose proof (uvec_clone_mext _ _ _ _ _ E1) as H1.
    destruct x1 as [[rt rv]|]; some_inj E; injection E as <- _; exact H1.
  - eapply Hoff; [apply nested_clone_mext | exact E].
  - eapply Hoff; [apply nested_clone_mext | exact E].
Qed.

Lemma pick_fields_mext t : forall fl s s' adds, pick_fields strict Sc m base rc s t fl = Some (s', adds) -> mext s s'.
Proof.
  induction fl as [|f fl IH]; intros s s' adds E; cbn [pick_fields] in E.
  - some_inj E. injection E as <- _. apply mext_refl.
  - bd E. destruct p as [s1 a1]. cbn [fst snd] in E. bd E. destruct p as [s2 a2]. cbn [fst snd] in E.
    some_inj E. injection E as <- _. eapply mext_trans; [eapply pick_kind_mext; eauto | eapply IH; eauto].
Qed.
End Rec.

Lemma table_clone_mext : forall n tix, fmext (table_clone strict Sc m base n tix).
Proof.
  induction n as [|n IH]; intros tix s t s' r E; [discriminate E|]. cbn [table_clone] in E. unfold table_clone_body in E.
  eapply memoized_mext; [exact E|]. intros Eb. bd Eb. bd Eb. destruct p as [s1 adds]. cbn [fst snd] in Eb. some_inj Eb.
  exists s1. eexists. split; [eapply pick_fields_mext; [|exact E1]; intros t0; apply IH | exact Eb].
Qed.

Lemma table_clone_memoizes n tix s t s' r : m_on (c_memo s') = true ->
  table_clone true Sc m base n tix s t = Some (s', r) -> mfind (c_memo s') t = Some (r, XBase (OTable tix)).
Proof.
  intros Hon E. destruct n as [|n]; [discriminate E|]. cbn [table_clone] in E. unfold table_clone_body in E.
  bd E. destruct o as [r0|].
  - some_inj E. injection E as <- <-. apply memo_begin_found, E0.
  - bd E. bd E. some_inj E. rewrite (emit1_on _ _ _ _ _ _ E) in Hon. eapply emit1_found; eauto.
Qed.
End Mext.

(* Two paths to one source table.  The first visit (from state s, any depth budget) returns register r in state s1;
   whatever is cloned afterwards (every later state s2 of the same traversal is reached by clone calls, each of which
   only extends the memo: [table_clone_mext], [pick_fields_mext], ...), a second visit returns r again, emits no
   command and leaves the state as it is. *)
Theorem clone_shares_concrete : forall Sc m base n1 tix s t s1 r,
  m_on (c_memo s1) = true ->
  table_clone true Sc m base n1 tix s t = Some (s1, r) ->
  forall s2, mext s1 s2 ->
  forall n2, table_clone true Sc m base (S n2) tix s2 t = Some (s2, r).
Proof.
  intros Sc m base n1 tix s t s1 r Hon E s2 Hx n2. apply table_clone_hit. apply Hx.
  eapply table_clone_memoizes; eauto.
Qed.

(* ------------------------------------------------------------------ in terms of the generated reader *)
Theorem clone_reads_equal : forall Sc dflt cl ba0 id0 id fl M kc n tix ws src base v sc r M' regs ems st,
  clone_schema_ok Sc -> m_map M = [] ->
  decode_root n Sc (RTable tix) ws src = Some v -> no_unknown v = true ->
  balign_ok ba0 -> in_u32 id -> 0 <= fl < 65536 ->
  clone_root_script true Sc (mem_of_list src) base cl ba0 id0 id fl M kc tix ws = Some (sc, r, M') ->
  run init_state [] sc = Some (regs, ems, st) -> small st ->
  forall n', (vheight v <= n')%nat ->
  read_root_list n' Sc dflt (RTable tix) (negb (Z.land fl 2 =? 0)) (buffer_bytes st) = Some v /\
  read_root_list n Sc dflt (RTable tix) ws src = Some v.
Proof.
  intros Sc dflt cl ba0 id0 id fl M kc n tix ws src base v sc r M' regs ems st Hok HM Hd Hnu Hba Hid Hfl E Hrun Hsm n' Hn'.
  pose proof (clone_content Sc cl ba0 id0 id fl M kc n tix ws src base v sc r M' regs ems st Hok HM Hd Hnu Hba Hid Hfl E Hrun Hsm n' Hn') as Hc.
  split; unfold read_root_list; eapply read_root_decodes; try apply (cs_ids _ Hok); [exact Hc | exact Hd].
Qed.

Lemma clone_hits : forall strict Sc m s,
  (forall n base tix t r, mfind (c_memo s) t = Some (r, XBase (OTable tix)) -> table_clone strict Sc m base (S n) tix s t = Some (s, r)) /\
  (forall sp r, mfind (c_memo s) sp = Some (r, XBase OString) -> string_clone strict m s sp = Some (s, r)) /\
  (forall es al mc vec r, mfind (c_memo s) (vec - 4) = Some (r, XBase (OVec es al)) -> vec_clone strict m es al mc s vec = Some (s, r)) /\
  (forall size al p r, mfind (c_memo s) p = Some (r, XBase (OStruct size al)) -> struct_clone strict m size al s p = Some (s, r)) /\
  (forall ty f adjust vec r, mfind (c_memo s) (vec - 4) = Some (r, ty) -> offvec_clone strict m ty f adjust s vec = Some (s, r)).
Proof.
  intros strict Sc m s. repeat split; intros.
  - apply table_clone_hit; assumption.
  - apply string_clone_hit; assumption.
  - apply vec_clone_hit; assumption.
  - apply struct_clone_hit; assumption.
  - apply offvec_clone_hit; assumption.
Qed.

Lemma memo_begin_off strict s k ty : m_on (c_memo s) = false -> memo_begin strict s k ty = Some None.
Proof. intros Hoff. unfold memo_begin, mfind. rewrite Hoff. reflexivity. Qed.

(* ------------------------------------------------------------------ examples *)
From Flatcc.Builder Require Import Example.

Definition ex_src : list Z :=
  match run init_state [] ex_script with Some (_, _, st) => buffer_bytes st | None => [] end.

Lemma ex_schema_ok : clone_schema_ok ex_schema.
Proof.
  constructor; [reflexivity | |].
  - repeat constructor; cbn; try lia; try (intros [H|H]; try lia; try tauto); try tauto;
      try (apply (p2 2); lia); try (apply (p2 1); lia); try (unfold U32_MAX; lia).
  - repeat constructor.
Qed.

Example example_clone :
  clone_schema_ok ex_schema /\
  decode_root 2 ex_schema (RTable 1) true ex_src = Some ex_value /\ no_unknown ex_value = true /\ vheight ex_value = 2%nat /\
  clone_script true ex_schema false 0 0 0 0 memo_empty 2 1 true ex_src =
    Some [CSettings false 0 0; CStartBuffer 0 0 0;
          CString [97; 98]; CVector 2 2 2147483647 2 [1; 0; 2; 0];
          CTable [TInline 0 4 4 [42; 0; 0; 0]; TOffset 1 0%nat; TOffset 2 1%nat];
          COffVec [0%nat; 0%nat];
          CTable [TOffset 0 2%nat; TOffset 1 3%nat; TInline 2 1 1 [1]; TOffset 3 2%nat];
          CEndBuffer 4%nat] /\
  option_map (@length cmd) (clone_script true ex_schema false 0 0 0 0 memo_off 2 1 true ex_src) = Some 13%nat /\
  (forall M, m_map M = [] -> forall sc r M' regs ems st,
     clone_root_script true ex_schema (mem_of_list ex_src) 0 false 0 0 0 0 M 2 1 true = Some (sc, r, M') ->
     run init_state [] sc = Some (regs, ems, st) -> small st ->
     decode_root 2 ex_schema (RTable 1) false (buffer_bytes st) = Some ex_value) /\
  option_map (decode_root 2 ex_schema (RTable 1) false) (clone_bytes true ex_schema false 0 0 0 0 memo_empty 2 1 true ex_src) = Some (Some ex_value) /\
  option_map (decode_root 2 ex_schema (RTable 1) false) (clone_bytes true ex_schema false 0 0 0 0 memo_off 2 1 true ex_src) = Some (Some ex_value).
Proof.
  assert (Hd : decode_root 2 ex_schema (RTable 1) true ex_src = Some ex_value) by (vm_compute; reflexivity).
  split; [exact ex_schema_ok|]. split; [exact Hd|]. split; [reflexivity|]. split; [reflexivity|].
  split; [vm_compute; reflexivity|]. split; [vm_compute; reflexivity|].
  split; [|split; vm_compute; reflexivity].
  intros M HM sc r M' regs ems st E Hrun Hsm.
  apply (clone_content ex_schema false 0 0 0 0 M 2 2 1 true ex_src 0 ex_value sc r M' regs ems st ex_schema_ok HM Hd eq_refl
           (or_introl eq_refl) ltac:(unfold in_u32; lia) ltac:(lia) E Hrun Hsm 2%nat (le_n _)).
Qed.

(* table T { s : string; v : [ubyte]; } with the vector header inside the string *)
Definition tc_schema : schema :=
  {| tables := [ [ {| fid := 0; frequired := false; fk := FString |};
                   {| fid := 1; frequired := false; fk := FVector 1 1 4294967295 |} ] ];
     unions := [] |}.
Definition tc_src : list Z :=
  [12; 0; 0; 0;   8; 0; 12; 0; 4; 0; 8; 0;   8; 0; 0; 0;  8; 0; 0; 0;  8; 0; 0; 0;
   5; 0; 0; 0;   1; 0; 0; 0; 65; 0; 0; 0].
Definition tc_value : value := VTable [(0, VString [1; 0; 0; 0; 65]); (1, VVec [[65]])].

Lemma tc_schema_ok : clone_schema_ok tc_schema.
Proof.
  constructor; [reflexivity | |].
  - repeat constructor; cbn; try lia; try (intros [H|H]; try lia; try tauto); try tauto;
      try apply pow2_1; try (unfold U32_MAX; lia).
  - constructor.
Qed.

Example memo_type_confusion :
  decode_root 1 tc_schema (RTable 0) false tc_src = Some tc_value /\ no_unknown tc_value = true /\ clone_schema_ok tc_schema /\
  option_map (decode_root 1 tc_schema (RTable 0) false) (clone_bytes false tc_schema false 0 0 0 0 memo_empty 1 0 false tc_src)
    = Some (Some (VTable [(0, VString [1; 0; 0; 0; 65]); (1, VVec [[1]; [0]; [0]; [0]; [65]])])) /\
  tc_value = VTable [(0, VString [1; 0; 0; 0; 65]); (1, VVec [[65]])] /\
  clone_script true tc_schema false 0 0 0 0 memo_empty 1 0 false tc_src = None /\
  option_map (decode_root 1 tc_schema (RTable 0) false) (clone_bytes false tc_schema false 0 0 0 0 memo_off 1 0 false tc_src)
    = Some (Some tc_value).
Proof.
  split; [vm_compute; reflexivity|]. split; [reflexivity|]. split; [exact tc_schema_ok|].
  split; [vm_compute; reflexivity|]. split; [reflexivity|]. split; vm_compute; reflexivity.
Qed.
