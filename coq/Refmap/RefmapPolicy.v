(* C18: the growth policy of refmap.c as transcribed (RefmapModel.above / grow / ref_insert_buckets / ref_resize_buckets).
   A SEPARATE obligation: the map theorems (RefmapProofs.v) hold for every growth oracle and do not import this file. *)
From Coq Require Import ZifyBool Znumtheory.
From Flatcc.Refmap Require Import RefmapModel RefmapProofs.
Local Open Scope Z_scope.
Ltac Zify.zify_post_hook ::= Z.div_mod_to_equations.

Definition thr (b : Z) : Z := b * RM_LOAD_N / RM_LOAD_D.
Definition MIN_E : Z := Z.log2 RM_MIN_BUCKETS.
Definition GROW_LIMIT : Z := thr (2 ^ 56).

(* Everything the proofs use about the generated constants; re-established by computation whenever
   Generated/RefmapConsts.v changes (fails e.g. for a load factor >= 1 or a minimum size that is not a power of two). *)
Lemma consts_ok :
  RM_MIN_BUCKETS = 2 ^ MIN_E /\ 0 <= MIN_E <= 52 /\ 0 < RM_LOAD_N < RM_LOAD_D /\ RM_LOAD_D = 256 /\
  RM_MAX_BUCKETS = 2 ^ 52.
Proof. vm_compute. intuition congruence. Qed.

Lemma min_e_range : 0 <= MIN_E <= 52.  Proof. apply consts_ok. Qed.
Lemma load_n_range : 0 < RM_LOAD_N < 256.
Proof. destruct consts_ok as (_ & _ & H & D & _). rewrite D in H. exact H. Qed.
Lemma load_d : RM_LOAD_D = 256. Proof. apply consts_ok. Qed.

Lemma thr_lt b : 0 < b -> 0 <= thr b < b.
Proof. unfold thr. pose proof load_n_range. rewrite load_d. intros. nia. Qed.
Lemma thr_0 : thr 0 = 0.
Proof. unfold thr. rewrite load_d. reflexivity. Qed.
Lemma thr_mono a b : 0 <= a <= b -> thr a <= thr b.
Proof. unfold thr. pose proof load_n_range. rewrite load_d. intros. apply Z.div_le_mono; nia. Qed.

Lemma above_spec c b : 0 <= b <= 2 ^ 56 -> above c b = (thr b <=? c).
Proof.
  intros Hb. unfold above, thr. pose proof load_n_range.
  rewrite w64_id; [reflexivity|]. unfold in_u64. change (2 ^ 56) with 72057594037927936 in Hb. nia.
Qed.

Lemma grow_spec fuel : forall e c,
  0 <= c < GROW_LIMIT -> MIN_E <= e <= 56 -> (Z.to_nat (56 - e) < fuel)%nat ->
  exists e', e <= e' <= 56 /\ grow fuel c (2 ^ e) = Some (2 ^ e') /\ c < thr (2 ^ e').
Proof.
  pose proof min_e_range as Hm.
  induction fuel as [|f IH]; intros e c Hc He Hf; [lia|].
  cbn [grow]. rewrite above_spec by (split; [apply Z.lt_le_incl, pow2_pos; lia|apply pow2_mono; lia]).
  destruct (thr (2 ^ e) <=? c) eqn:E.
  - assert (e < 56).
    { destruct (Z.eq_dec e 56) as [->|]; [|lia]. unfold GROW_LIMIT in Hc. lia. }
    rewrite w64_id.
    2:{ unfold in_u64. rewrite <- pow2_succ by lia. split; [apply Z.lt_le_incl, pow2_pos; lia|].
        apply Z.le_lt_trans with (2 ^ 56); [apply pow2_mono; lia|reflexivity]. }
    rewrite <- pow2_succ by lia.
    destruct (IH (e + 1) c Hc) as [e' [He' [G L]]]; [lia|lia|].
    exists e'. split; [lia|]. split; assumption.
  - exists e. split; [lia|]. split; [reflexivity|lia].
Qed.

(* ================================================================ the reference policy (refmap.c as transcribed)
   Independent of the hash and of the map theorems: whenever count <= buckets * n / 256 (the policy's own invariant) and the
   table has at most 2^52 buckets, the bucket count refmap.c chooses for an insert / a resize(c) is a power of two with
   count < thr nb <= nb - 1: it satisfies the side condition with room for the new key, and re-establishes its invariant. *)
Definition bucket_ok52 (B : Z) : Prop := exists e, MIN_E <= e <= 52 /\ B = 2 ^ e.

Lemma thr_pow_lt e : 0 <= e -> thr (2 ^ e) < 2 ^ e.
Proof. intros. apply thr_lt. apply pow2_pos. assumption. Qed.

Lemma ref_insert_policy_ok m :
  0 <= count m <= thr (buckets m) -> (buckets m = 0 \/ bucket_ok52 (buckets m)) ->
  exists nb, ref_insert_buckets m = Some nb /\ is_pow2 nb = true /\ count m < thr nb /\ count m + 1 < nb.
Proof.
  intros Hc HB. pose proof min_e_range as Hme. unfold ref_insert_buckets.
  assert (HBr : 0 <= buckets m <= 2 ^ 52).
  { destruct HB as [E|[e [He E]]].
    - rewrite E. split; [lia|apply Z.lt_le_incl, pow2_pos; lia].
    - rewrite E. split; [apply Z.lt_le_incl, pow2_pos; lia|apply pow2_mono; lia]. }
  assert (H56 : 2 ^ 52 <= 2 ^ 56) by (apply pow2_mono; lia).
  rewrite above_spec by lia.
  destruct (thr (buckets m) <=? count m) eqn:Ea.
  - assert (Hlim : 2 * count m < GROW_LIMIT).
    { assert (thr (buckets m) <= thr (2 ^ 52)) by (apply thr_mono; lia).
      assert (2 * thr (2 ^ 52) < GROW_LIMIT) by (vm_compute; reflexivity). lia. }
    assert (Hu : w64 (count m * 2) = count m * 2).
    { apply w64_id. unfold in_u64. assert (GROW_LIMIT < 18446744073709551616) by (vm_compute; reflexivity). lia. }
    rewrite Hu. destruct consts_ok as (Hmin & _). rewrite Hmin.
    destruct (grow_spec 64 MIN_E (count m * 2)) as [e' [He' [Hg Hlt]]]; [lia|lia|lia|].
    exists (2 ^ e'). split; [assumption|]. split; [apply is_pow2_pow; lia|]. pose proof (thr_pow_lt e'). lia.
  - destruct HB as [E|[e [He E]]].
    + rewrite E, thr_0 in *. lia.
    + exists (buckets m). split; [reflexivity|]. rewrite E. split; [apply is_pow2_pow; lia|]. rewrite E in Ea.
      pose proof (thr_pow_lt e). lia.
Qed.

Lemma ref_resize_policy_ok m c :
  0 <= count m -> 2 * count m < GROW_LIMIT -> 0 <= c < GROW_LIMIT ->
  exists nb, ref_resize_buckets m c = Some nb /\ is_pow2 nb = true /\ count m < thr nb /\ c < thr nb /\ count m + 1 < nb.
Proof.
  intros Hc Hl Hcc. pose proof min_e_range as Hme. unfold ref_resize_buckets.
  set (c1 := if c <? count m then count m else c).
  assert (Hc1 : 0 <= c1 < GROW_LIMIT /\ c <= c1 /\ count m <= c1) by (unfold c1; destruct (c <? count m) eqn:E; lia).
  destruct consts_ok as (Hmin & _). rewrite Hmin.
  destruct (grow_spec 64 MIN_E c1) as [e' [He' [Hg Hlt]]]; [lia|lia|lia|].
  exists (2 ^ e'). split; [assumption|]. split; [apply is_pow2_pow; lia|]. pose proof (thr_pow_lt e'). lia.
Qed.
