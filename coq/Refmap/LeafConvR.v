(* C18 leaves (T5): reading conventions that relate the Gallina GENERATED from src/runtime/refmap.c
   (Flatcc.Generated.Leaf_refmap: _flatcc_refmap_hash, _flatcc_refmap_above_load_factor) to Refmap/RefmapModel.v
   (refmap_hash, above - the load-factor test of the transcribed reference policy that Properties_C18p depends on), and the
   boundary-grid searches used by checks/c01c_util.py.
   * the key `const void *src` is [src_ptr src]: only its numeric value u64 src is used (the model hashes w64 src);
   * the size_t result of the load-factor test is the model's bool. *)
From Flatcc.Verifier Require Export LeafTac.
From Flatcc.Refmap Require Export RefmapModel.
From Flatcc.Generated Require Import Leaf_refmap.
Local Open Scope Z_scope.

Definition no_rd : Z -> option Z := fun _ => None.
Definition src_ptr (src : Z) : cptr := {| p_addr := u64 src; p_rd8 := no_rd; p_rd16 := no_rd; p_rd32 := no_rd |}.

Fixpoint first_some {A B} (f : A -> option B) (l : list A) : option B :=
  match l with
  | [] => None
  | x :: r => match f x with Some y => Some y | None => first_some f r end
  end.
Definition wit (args : list Z) (c m : Z) : option (list Z * list Z) :=
  if c =? m then None else Some ([], args ++ [c; m]).

Definition Gsrc : list Z :=
  [0; 1; 8; 16; 4096; 140737488355328; 140737488355336; 4294967295; 4294967296; 795425618; 9223372036854775808;
   18446744073709551615; 18446744073709551608; 94489280512; 6148914691236517205].
Definition Gcnt : list Z :=
  [0; 1; 4; 5; 6; 7; 8; 10; 11; 12; 22; 23; 44; 45; 89; 90; 179; 180; 255; 256; 1000; 4294967296;
   72057594037927936; 103053169874862735; 103053169874862736; 18446744073709551615].
Definition Gbk : list Z :=
  [0; 1; 2; 8; 16; 32; 64; 128; 256; 1024; 4294967296; 4503599627370496; 72057594037927936; 144115188075855872;
   9223372036854775808; 18446744073709551615].

Definition search__flatcc_refmap_hash :=
  first_some (fun s => wit [s] (c__flatcc_refmap_hash (src_ptr s)) (refmap_hash s)) Gsrc.
Definition search__flatcc_refmap_above_load_factor :=
  first_some (fun c => first_some (fun b =>
    wit [c; b] (c__flatcc_refmap_above_load_factor c b) (Z.b2z (above c b))) Gbk) Gcnt.
