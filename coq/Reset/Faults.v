(* C13 lemmas: the failure protocol on the model of Reset/BuilderState.v.
   [fa] / [fe] are the countdowns of the allocator / emitter callbacks: 0 = the next call fails.
   Proved here: a failing emit call makes the emitting primitive and every API call built on it return 0 without
   emitting; a failing allocator call makes the reserving primitive report failure with the capacities unchanged;
   custom_reset without reduce_buffers never calls the allocator and brings ANY state (in particular one left by a
   failed call) back to a freshly initialised one on everything that can influence later calls.
   The memory-safety clause of C13 (no invalid access / double free / leak inside the runtime while failing) is
   observed by harness/fault_inject.c for the enumerated failure points, not proved. *)
From Flatcc.Reset Require Import BuilderState ResetProofs.
From Flatcc.Generated Require Import ResetConsts.
From Coq Require Import ZifyBool.
Local Open Scope Z_scope.
Ltac Zify.zify_post_hook ::= Z.div_mod_to_equations.

(* ------------------------------------------------------------------ the callbacks *)
Lemma alloc_call_fails k req s : fa s = 0 ->
  exists t, alloc_call k req s = Ret false t [] /\ caps t = caps s /\ core t = core s.
Proof.
  intros H. unfold alloc_call. rewrite H. cbn [Z.eqb]. destruct (fa_rep s); eexists; split; try reflexivity; split; reflexivity.
Qed.

Lemma emit_call_fails r k b tg s : fe s = 0 ->
  exists t, emit_call r k b tg s = Ret false t [] /\ core t = core s /\ emit_start t = emit_start s /\ emit_end t = emit_end s.
Proof.
  intros H. unfold emit_call. rewrite H. cbn [Z.eqb]. destruct (fe_rep s); eexists; split; try reflexivity; repeat split; reflexivity.
Qed.

(* ------------------------------------------------------------------ emit failure -> null reference, nothing emitted *)
Lemma emit_front_tag_fails k b tg s : fe s = 0 -> exists t, emit_front_tag k b tg s = Ret 0 t [] /\ emit_start t = emit_start s.
Proof.
  intros H. unfold emit_front_tag, bind, get. 
  destruct ((zlen b =? 0) || (S32_MAX <? zlen b) || (emit_start s - zlen b <? S32_MIN)).
  - eexists; split; reflexivity.
  - destruct (emit_call_fails (emit_start s - zlen b) k b tg s H) as (t & -> & _ & Hs & _). cbn. eexists; split; [reflexivity | exact Hs].
Qed.
Lemma emit_front_fails k b s : fe s = 0 -> exists t, emit_front k b s = Ret 0 t [] /\ emit_start t = emit_start s.
Proof. apply emit_front_tag_fails. Qed.

Lemma emit_back_tag_fails k b tg s : fe s = 0 -> exists t, emit_back_tag k b tg s = Ret 0 t [].
Proof.
  intros H. unfold emit_back_tag, bind, get, upd.
  destruct ((emit_end s <? 0) || (S32_MAX - emit_end s <? zlen b)).
  - eexists; reflexivity.
  - cbn. set (s1 := set_emit_end (emit_end s + zlen b) s).
    destruct (emit_call_fails (emit_end s) k b tg s1 H) as (t & -> & _). cbn. eexists; reflexivity.
Qed.
Lemma emit_back_fails k b s : fe s = 0 -> exists t, emit_back k b s = Ret 0 t [].
Proof. apply emit_back_tag_fails. Qed.

(* the create calls that consist of one emit: the call returns the null reference when its emit call fails *)
Lemma create_string_emit_fails d s : fe s = 0 -> exists t, create_string d s = Ret 0 t [].
Proof.
  intros H. unfold create_string. destruct (U32_MAX <? zlen d); [eexists; reflexivity|].
  unfold front_pad, bind, get, ret.
  match goal with |- context [emit_front ?k ?b s] => destruct (emit_front_fails k b s H) as (t & -> & _) end.
  eexists; reflexivity.
Qed.

Lemma create_vtable_emit_fails vt s : fe s = 0 -> exists t, create_vtable vt s = Ret 0 t [].
Proof.
  intros H. unfold create_vtable, front_pad, bind, get, ret.
  destruct ((nest_id s =? 0) && (disable_vt_clustering s =? 0)).
  - destruct (emit_back_tag_fails EK_vtable vt vt s H) as (t & ->). eexists; reflexivity.
  - match goal with |- context [emit_front_tag ?k ?b ?g s] => destruct (emit_front_tag_fails k b g s H) as (t & -> & _) end. cbn. eexists; reflexivity.
Qed.

(* ------------------------------------------------------------------ allocation failure -> reserve reports it, capacities unchanged *)
Lemma reserve_buffer_fails k u n s : fa s = 0 -> cap_get k (caps s) < u + n ->
  exists t, reserve_buffer k u n s = Ret false t [] /\ caps t = caps s.
Proof.
  intros H Hc. unfold reserve_buffer, bind.
  assert (N : exists s1, note_demand k (u + n) s = Ret tt s1 [] /\ caps s1 = caps s /\ fa s1 = 0).
  { unfold note_demand. destruct k; eexists; (split; [reflexivity|]); split; auto. }
  destruct N as (s1 & -> & Hc1 & Hf1). unfold reserve_raw. rewrite Hc1.
  assert (E : (cap_get k (caps s) <? u + n) = true) by lia. rewrite E.
  destruct (alloc_call_fails k (u + n) s1 Hf1) as (t & -> & Ht & _). cbn. eexists; split; [reflexivity | congruence].
Qed.

(* ------------------------------------------------------------------ reset after a failure *)
Lemma reset_buffers_no_reduce ks s : reset_buffers ks false s = Ret true s [].
Proof.
  induction ks as [|k ks IH]; [reflexivity|]. cbn [reset_buffers]. unfold bind at 1. unfold get at 1.
  rewrite andb_false_r. cbn [andb]. unfold bind at 1. unfold ret at 1. rewrite IH. reflexivity.
Qed.

(* custom_reset(B, set_defaults, reduce_buffers = 0) never calls the allocator: it succeeds from EVERY state, whatever
   the countdowns, and the result is a fresh builder on the core *)
Lemma reset_no_reduce_total d s :
  exists t, custom_reset true d false s = Ret 0 t [] /\ core t = core (fresh_like d s) /\ fa t = fa s /\ fe t = fe s.
Proof.
  unfold custom_reset. unfold bind at 1. rewrite reset_buffers_no_reduce. cbn [negb].
  unfold bind, upd, get, ret. cbn.
  destruct (0 <? vd_end s); destruct d; cbn;
    (eexists; split; [reflexivity|]; split; [rewrite core_emitter_reset; reflexivity|]);
    unfold emitter_reset; match goal with |- context [if ?b then _ else _] => destruct b end; cbn; auto.
Qed.

(* with the countdowns spent (single failure) or disarmed, the invariant holds again and the bisimulation applies *)
Lemma reset_after_failure d s : fa s < 0 -> fe s < 0 ->
  exists t, custom_reset true d false s = Ret 0 t [] /\ core t = core (fresh_like d s) /\ Inv t.
Proof. intros; apply reset_spec; auto. Qed.

(* ------------------------------------------------------------------ every API call: emit failure -> failure value *)
(* calls that never reach the emitter *)
Definition SE {A} (m : M A) : Prop :=
  forall s, match m s with Ret _ t e => e = [] /\ fe t = fe s /\ fe_rep t = fe_rep s | Fault => True end.
Lemma SE_ret {A} (a : A) : SE (ret a). Proof. intros s; cbn; auto. Qed.
Lemma SE_fault {A} : SE (@fault A). Proof. intros s; exact I. Qed.
Lemma SE_get {A} (f : bstate -> A) : SE (get f). Proof. intros s; cbn; auto. Qed.
Lemma SE_top {A} (f : frame -> A) : SE (top f). Proof. intros s. unfold top. destruct (frames s); cbn; auto. Qed.
Lemma SE_upd g : (forall s, fe (g s) = fe s /\ fe_rep (g s) = fe_rep s) -> SE (upd g).
Proof. intros H s; cbn. destruct (H s). auto. Qed.
Lemma SE_bind {A B} (m : M A) (k : A -> M B) : SE m -> (forall a, SE (k a)) -> SE (bind m k).
Proof.
  intros Hm Hk s. unfold bind. specialize (Hm s). destruct (m s) as [a t e|]; auto.
  specialize (Hk a t). destruct (k a t); auto. destruct Hm as (-> & ? & ?), Hk as (-> & ? & ?). repeat split; congruence.
Qed.
Create HintDb se_db.
Ltac se1 :=
  first
  [ apply SE_ret | apply SE_fault | apply SE_get | apply SE_top
  | solve [auto with se_db nocore]
  | apply SE_upd; intros; split; reflexivity
  | apply SE_bind; [ | intro ]
  | match goal with |- SE (if ?b then _ else _) => destruct b end
  | match goal with |- SE (match ?x with _ => _ end) => destruct x end
  | match goal with |- SE (let '(_, _) := ?x in _) => destruct x end ].
Ltac seA := repeat se1.
Ltac se f := solve [unfold f; seA].

Lemma SE_alloc_call k n : SE (alloc_call k n).
Proof. intros s. unfold alloc_call. destruct (fa s =? 0); [destruct (fa_rep s)|destruct (0 <? fa s)]; cbn; auto. Qed.
Lemma SE_note_demand k r : SE (note_demand k r).
Proof. unfold note_demand. destruct k; seA. Qed.
Global Hint Resolve SE_alloc_call SE_note_demand : se_db.
Lemma SE_reserve_raw k u n : SE (reserve_raw k u n).
Proof. intros s. unfold reserve_raw. destruct (cap_get k (caps s) <? u + n); [apply SE_alloc_call | cbn; auto]. Qed.
Global Hint Resolve SE_reserve_raw : se_db.
Lemma SE_reserve_buffer k u n : SE (reserve_buffer k u n). Proof. se reserve_buffer. Qed.
Lemma SE_set_top g : SE (set_top g). Proof. intros s. unfold set_top. destruct (frames s); cbn; auto. Qed.
Lemma SE_set_top_nf g : SE (set_top_nf g). Proof. intros s. unfold set_top_nf. destruct (frames s); cbn; auto. Qed.
Lemma SE_pop_frame : SE pop_frame. Proof. intros s. unfold pop_frame. destruct (frames s); cbn; auto. Qed.
Global Hint Resolve SE_reserve_buffer SE_set_top SE_set_top_nf SE_pop_frame : se_db.
Lemma SE_refresh_ds l : SE (refresh_ds l). Proof. se refresh_ds. Qed.
Global Hint Resolve SE_refresh_ds : se_db.
Lemma SE_reserve_ds n l : SE (reserve_ds n l). Proof. se reserve_ds. Qed.
Global Hint Resolve SE_reserve_ds : se_db.
Lemma SE_ensure_ds b o n l : SE (ensure_ds b o n l). Proof. se ensure_ds. Qed.
Lemma SE_raise_min_align a : SE (raise_min_align a). Proof. se raise_min_align. Qed.
Lemma SE_expect_type t : SE (expect_type t). Proof. se expect_type. Qed.
Global Hint Resolve SE_ensure_ds SE_raise_min_align SE_expect_type : se_db.
Lemma SE_push_ds n d : SE (push_ds n d). Proof. se push_ds. Qed.
Lemma SE_unpush_ds n : SE (unpush_ds n). Proof. se unpush_ds. Qed.
Lemma SE_frame_slot lv : SE (frame_slot lv). Proof. se frame_slot. Qed.
Global Hint Resolve SE_push_ds SE_unpush_ds SE_frame_slot : se_db.
Lemma SE_enter_frame a : SE (enter_frame a). Proof. se enter_frame. Qed.
Lemma SE_exit_frame : SE exit_frame. Proof. se exit_frame. Qed.
Lemma SE_front_pad n a : SE (front_pad n a). Proof. se front_pad. Qed.
Lemma SE_back_pad a : SE (back_pad a). Proof. se back_pad. Qed.
Lemma SE_reserve_fields c : SE (reserve_fields c). Proof. se reserve_fields. Qed.
Lemma SE_vector_count_add c m : SE (vector_count_add c m). Proof. se vector_count_add. Qed.
Lemma SE_exit_user_frame : SE exit_user_frame. Proof. se exit_user_frame. Qed.
Lemma SE_flush : SE flush_vtable_cache. Proof. se flush_vtable_cache. Qed.
Global Hint Resolve SE_enter_frame SE_exit_frame SE_front_pad SE_back_pad SE_reserve_fields SE_vector_count_add SE_exit_user_frame SE_flush : se_db.
Lemma SE_alloc_ht : SE alloc_ht. Proof. se alloc_ht. Qed.
Global Hint Resolve SE_alloc_ht : se_db.
Lemma SE_ensure_ht : SE ensure_ht. Proof. se ensure_ht. Qed.
Global Hint Resolve SE_ensure_ht : se_db.

(* EF m F: started with the next emit call bound to fail (single failure), m emits nothing, and either never reaches the
   emitter or consumes the failure and returns a value satisfying F (its failure value) *)
Definition armed (s : bstate) : Prop := fe s = 0 /\ fe_rep s = false.
Definition EF {A} (m : M A) (F : A -> Prop) : Prop :=
  forall s, armed s -> match m s with Ret a t e => e = [] /\ (armed t \/ (fe t = -1 /\ F a)) | Fault => True end.
(* RI m G: m returns at once with a value satisfying G, without emitting or touching the countdown *)
Definition RI {A} (m : M A) (G : A -> Prop) : Prop :=
  forall s, match m s with Ret b t e => e = [] /\ fe t = fe s /\ G b | Fault => True end.

Lemma EF_of_SE {A} (m : M A) F : SE m -> EF m F.
Proof. intros H s [H1 H2]. specialize (H s). destruct (m s); [|exact I]. destruct H as (-> & E1 & E2). split; auto. left. split; congruence. Qed.

Lemma EF_bind {A B} (m : M A) (k : A -> M B) F G :
  EF m F -> (forall a, EF (k a) G) -> (forall a, F a -> RI (k a) G) -> EF (bind m k) G.
Proof.
  intros Hm Hk Hr s Hs. unfold bind. specialize (Hm s Hs). destruct (m s) as [a t e|]; auto.
  destruct Hm as (-> & [Ht | [Ht Fa]]).
  - specialize (Hk a t Ht). destruct (k a t); [|exact I]. destruct Hk as (-> & ?). auto.
  - specialize (Hr a Fa t). destruct (k a t); [|exact I]. destruct Hr as (-> & E & Gb). split; auto. right. split; congruence.
Qed.

Lemma EF_bind_SE {A B} (m : M A) (k : A -> M B) G : SE m -> (forall a, EF (k a) G) -> EF (bind m k) G.
Proof. intros Hm Hk. apply (EF_bind m k (fun _ => False)); [apply EF_of_SE; auto | auto | intros a []]. Qed.

Lemma EF_weaken {A} (m : M A) (F G : A -> Prop) : (forall a, F a -> G a) -> EF m F -> EF m G.
Proof. intros H Hm s Hs. specialize (Hm s Hs). destruct (m s); [|exact I]. destruct Hm as (? & [?|[? ?]]); auto. Qed.

Lemma RI_ret {A} (a : A) (G : A -> Prop) : G a -> RI (ret a) G.
Proof. intros H s. cbn. auto. Qed.

Lemma EF_emit_call r k b t : EF (emit_call r k b t) (fun ok => ok = false).
Proof.
  intros s [H1 H2]. unfold emit_call. rewrite H1. cbn [Z.eqb]. rewrite H2. split; [reflexivity|]. right. cbn. split; reflexivity.
Qed.

Lemma EF_emit_front_tag k b t : EF (emit_front_tag k b t) (fun r => r = 0).
Proof.
  unfold emit_front_tag. apply EF_bind_SE; [apply SE_get | intro es].
  destruct ((zlen b =? 0) || (S32_MAX <? zlen b) || (es - zlen b <? S32_MIN)); [apply EF_of_SE, SE_ret|].
  eapply EF_bind; [apply EF_emit_call | |].
  - intros ok. destruct ok; apply EF_of_SE; seA.
  - intros ok ->. apply RI_ret. reflexivity.
Qed.

Lemma EF_emit_front k b : EF (emit_front k b) (fun r => r = 0).
Proof. apply EF_emit_front_tag. Qed.

Lemma EF_emit_back_tag k b t : EF (emit_back_tag k b t) (fun r => r = 0).
Proof.
  unfold emit_back_tag. apply EF_bind_SE; [apply SE_get | intro ee].
  destruct ((ee <? 0) || (S32_MAX - ee <? zlen b)); [apply EF_of_SE, SE_ret|].
  apply EF_bind_SE; [seA | intros _].
  eapply EF_bind; [apply EF_emit_call | |].
  - intros ok. destruct ok; apply EF_of_SE; seA.
  - intros ok ->. apply RI_ret. reflexivity.
Qed.

Lemma EF_emit_back k b : EF (emit_back k b) (fun r => r = 0).
Proof. apply EF_emit_back_tag. Qed.

Ltac ef_emit := first [apply EF_emit_front | apply EF_emit_back | apply EF_emit_front_tag | apply EF_emit_back_tag].

Lemma EF_create_struct d a : EF (create_struct d a) (fun r => r = 0).
Proof. unfold create_struct. apply EF_bind_SE; [seA | intros _]. apply EF_bind_SE; [seA | intros p]. ef_emit. Qed.
Lemma EF_create_string d : EF (create_string d) (fun r => r = 0).
Proof. unfold create_string. destruct (U32_MAX <? zlen d); [apply EF_of_SE, SE_ret|]. apply EF_bind_SE; [seA | intros p]. ef_emit. Qed.
Lemma EF_create_vector d c e a m : EF (create_vector d c e a m) (fun r => r = 0).
Proof. unfold create_vector. destruct (m <? c); [apply EF_of_SE, SE_ret|]. apply EF_bind_SE; [seA | intros _]. apply EF_bind_SE; [seA | intros p]. ef_emit. Qed.
Lemma EF_create_offset_vector_direct d c : EF (create_offset_vector_direct d c) (fun r => r = 0).
Proof.
  unfold create_offset_vector_direct. destruct (U32_MAX / FIELD_SIZE <? u32 c); [apply EF_of_SE, SE_ret|].
  apply EF_bind_SE; [seA | intros _]. apply EF_bind_SE; [seA | intros p]. apply EF_bind_SE; [seA | intros es]. ef_emit.
Qed.
Lemma EF_create_table d a o v : EF (create_table d a o v) (fun r => r = 0).
Proof. unfold create_table. apply EF_bind_SE; [seA | intros _]. apply EF_bind_SE; [seA | intros p]. apply EF_bind_SE; [seA | intros es]. ef_emit. Qed.
Lemma EF_create_vtable v : EF (create_vtable v) (fun r => r = 0).
Proof.
  unfold create_vtable. apply EF_bind_SE; [seA | intros nid]. apply EF_bind_SE; [seA | intros dc].
  destruct ((nid =? 0) && (dc =? 0)); [ef_emit|]. apply EF_bind_SE; [seA | intros p].
  eapply EF_bind; [apply EF_emit_front_tag | |].
  - intros r. destruct (r =? 0); apply EF_of_SE; seA.
  - intros r ->. cbn [Z.eqb]. apply RI_ret. reflexivity.
Qed.

Lemma EF_align_buffer_end a b n : EF (align_buffer_end a b n) (fun r => fst r = false).
Proof.
  unfold align_buffer_end. apply EF_bind_SE; [seA | intros bb].
  destruct n; [apply EF_of_SE, SE_ret|].
  apply EF_bind_SE; [seA | intros p]. destruct (p =? 0); [apply EF_of_SE, SE_ret|].
  eapply EF_bind; [apply EF_emit_back | |].
  - intros r. apply EF_of_SE, SE_ret.
  - intros r ->. apply RI_ret. reflexivity.
Qed.

Lemma EF_create_buffer i b r a f : EF (create_buffer i b r a f) (fun x => x = 0).
Proof.
  unfold create_buffer.
  eapply EF_bind; [apply EF_align_buffer_end | |].
  - intros [ok a']. destruct (negb ok); [apply EF_of_SE, SE_ret|].
    apply EF_bind_SE; [seA | intros _]. apply EF_bind_SE; [seA | intros hp].
    apply EF_bind_SE; [seA | intros es]. apply EF_bind_SE; [seA | intros ee]. apply EF_bind_SE; [seA | intros bm]. ef_emit.
  - intros [ok a'] Hf. cbn in Hf. subst ok. cbn [negb]. apply RI_ret. reflexivity.
Qed.

(* a call whose emitting part [m] is followed by non-emitting clean-up when it succeeded *)
Lemma EF_then_cleanup (m : M Z) (k : Z -> M Z) :
  EF m (fun r => r = 0) -> (forall r, SE (k r)) -> (forall r, r = 0 -> RI (k r) (fun x => x = 0)) ->
  EF (bind m k) (fun x => x = 0).
Proof. intros Hm Hk Hr. eapply EF_bind; [exact Hm | intros r; apply EF_of_SE, Hk | exact Hr]. Qed.

Ltac cleanup := intros r; [> destruct (r =? 0); seA ..].

Lemma EF_end_struct : EF end_struct (fun x => x = 0).
Proof.
  unfold end_struct. apply EF_bind_SE; [seA | intros _]. apply EF_bind_SE; [seA | intros d]. apply EF_bind_SE; [seA | intros a].
  apply EF_then_cleanup; [apply EF_create_struct | intros r; destruct (r =? 0); seA | intros r ->; cbn [Z.eqb]; apply RI_ret; reflexivity].
Qed.
Lemma EF_end_string : EF end_string (fun x => x = 0).
Proof.
  unfold end_string. apply EF_bind_SE; [seA | intros _]. apply EF_bind_SE; [seA | intros d].
  apply EF_then_cleanup; [apply EF_create_string | intros r; destruct (r =? 0); seA | intros r ->; cbn [Z.eqb]; apply RI_ret; reflexivity].
Qed.
Lemma EF_end_vector : EF end_vector (fun x => x = 0).
Proof.
  unfold end_vector. apply EF_bind_SE; [seA | intros _].
  do 5 (apply EF_bind_SE; [seA | intro]).
  apply EF_then_cleanup; [apply EF_create_vector | intros r; destruct (r =? 0); seA | intros r ->; cbn [Z.eqb]; apply RI_ret; reflexivity].
Qed.
Lemma EF_end_offset_vector : EF end_offset_vector (fun x => x = 0).
Proof.
  unfold end_offset_vector. apply EF_bind_SE; [seA | intros _].
  do 2 (apply EF_bind_SE; [seA | intro]).
  apply EF_then_cleanup; [apply EF_create_offset_vector_direct | intros r; destruct (r =? 0); seA | intros r ->; cbn [Z.eqb]; apply RI_ret; reflexivity].
Qed.
Lemma EF_end_buffer fx root : EF (end_buffer fx root) (fun x => x = 0).
Proof.
  unfold end_buffer. destruct (fx && (root =? 0)); [apply EF_of_SE, SE_ret|]. apply EF_bind_SE; [seA | intros _].
  do 3 (apply EF_bind_SE; [seA | intro]). apply EF_bind_SE; [seA | intros _]. do 2 (apply EF_bind_SE; [seA | intro]).
  apply EF_then_cleanup; [apply EF_create_buffer | intros r; destruct (r =? 0); seA | intros r ->; cbn [Z.eqb]; apply RI_ret; reflexivity].
Qed.

Lemma EF_ccv_rest fx vt : EF (ccv_rest fx vt) (fun x => x = 0).
Proof.
  unfold ccv_rest. apply EF_bind_SE; [seA | intros nid]. apply EF_bind_SE; [seA | intros vc].
  destruct (find_exact vt nid vc); [apply EF_of_SE, SE_ret|].
  apply EF_bind_SE; [seA | intros ve]. apply EF_bind_SE; [seA | intros r]. destruct (negb r); [apply EF_of_SE, SE_ret|].
  apply EF_bind_SE; [seA | intros _].
  apply EF_then_cleanup; [apply EF_create_vtable | | intros x ->; cbn [Z.eqb]; apply RI_ret; reflexivity].
  intros x. destruct (x =? 0); seA.
Qed.
Lemma EF_create_cached_vtable fx vt : EF (create_cached_vtable fx vt) (fun x => x = 0).
Proof.
  unfold create_cached_vtable. apply EF_bind_SE; [seA | intros ok]. destruct (negb ok); [apply EF_of_SE, SE_ret | apply EF_ccv_rest].
Qed.
Lemma EF_end_table fx : EF (end_table fx) (fun x => x = 0).
Proof.
  unfold end_table. apply EF_bind_SE; [seA | intros _]. do 3 (apply EF_bind_SE; [seA | intro]).
  eapply EF_bind; [apply EF_create_cached_vtable | |].
  - intros vr. destruct (vr =? 0); [apply EF_of_SE, SE_ret|].
    apply EF_bind_SE; [seA | intros _]. do 3 (apply EF_bind_SE; [seA | intro]).
    apply EF_then_cleanup; [apply EF_create_table | intros r; destruct (r =? 0); seA | intros r ->; cbn [Z.eqb]; apply RI_ret; reflexivity].
  - intros vr ->. cbn [Z.eqb]. apply RI_ret. reflexivity.
Qed.

(* the API: started with the next emit call bound to fail, no call emits anything, and a call that reaches the emitter
   returns 0 (the null reference: the documented failure value of every create_* / end_* call) *)
Theorem emit_failure_step o : is_reset o = false -> EF (step true o) (fun x => x = 0).
Proof.
  destruct o; cbn [is_reset step]; intros E; try discriminate;
  first [ apply EF_end_buffer | apply EF_create_buffer | apply EF_end_struct | apply EF_create_struct | apply EF_end_table
        | apply EF_end_vector | apply EF_create_vector | apply EF_end_offset_vector | apply EF_end_string | apply EF_create_string
        | apply EF_of_SE;
          first [ se start_buffer | se start_struct | se start_table | se table_add | se table_add_offset | se start_vector | se extend_vector
                | se truncate_vector | se start_offset_vector | se extend_offset_vector | se truncate_offset_vector | se start_string
                | se append_string | se truncate_string | se enter_user_frame | se exit_user_frame_at | se set_max_level_op
                | se push_buffer_alignment | se pop_buffer_alignment | seA ] ].
Qed.

(* ------------------------------------------------------------------ every API call: allocation failure -> failure value *)
Definition SA {A} (m : M A) : Prop :=
  forall s, match m s with Ret _ t _ => fa t = fa s /\ fa_rep t = fa_rep s | Fault => True end.
Lemma SA_ret {A} (a : A) : SA (ret a). Proof. intros s; cbn; auto. Qed.
Lemma SA_fault {A} : SA (@fault A). Proof. intros s; exact I. Qed.
Lemma SA_get {A} (f : bstate -> A) : SA (get f). Proof. intros s; cbn; auto. Qed.
Lemma SA_top {A} (f : frame -> A) : SA (top f). Proof. intros s. unfold top. destruct (frames s); cbn; auto. Qed.
Lemma SA_upd g : (forall s, fa (g s) = fa s /\ fa_rep (g s) = fa_rep s) -> SA (upd g).
Proof. intros H s; cbn. apply H. Qed.
Lemma SA_bind {A B} (m : M A) (k : A -> M B) : SA m -> (forall a, SA (k a)) -> SA (bind m k).
Proof.
  intros Hm Hk s. unfold bind. specialize (Hm s). destruct (m s) as [a t e|]; auto.
  specialize (Hk a t). destruct (k a t); auto. destruct Hm, Hk. split; congruence.
Qed.
Create HintDb sa_db.
Ltac sa1 :=
  first
  [ apply SA_ret | apply SA_fault | apply SA_get | apply SA_top
  | solve [auto with sa_db nocore]
  | apply SA_upd; intros; split; reflexivity
  | apply SA_bind; [ | intro ]
  | match goal with |- SA (if ?b then _ else _) => destruct b end
  | match goal with |- SA (match ?x with _ => _ end) => destruct x end
  | match goal with |- SA (let '(_, _) := ?x in _) => destruct x end ].
Ltac saA := repeat sa1.
Ltac sa f := solve [unfold f; saA].

Lemma SA_emit_call r k b t : SA (emit_call r k b t).
Proof.
  intros s. unfold emit_call, emitter_emit. destruct (fe s =? 0); [destruct (fe_rep s); cbn; auto|].
  repeat match goal with |- context [if ?b then _ else _] => destruct b end; cbn; auto.
Qed.
Lemma SA_note_demand k r : SA (note_demand k r). Proof. unfold note_demand. destruct k; saA. Qed.
Lemma SA_set_top g : SA (set_top g). Proof. intros s. unfold set_top. destruct (frames s); cbn; auto. Qed.
Lemma SA_set_top_nf g : SA (set_top_nf g). Proof. intros s. unfold set_top_nf. destruct (frames s); cbn; auto. Qed.
Lemma SA_pop_frame : SA pop_frame. Proof. intros s. unfold pop_frame. destruct (frames s); cbn; auto. Qed.
Global Hint Resolve SA_emit_call SA_note_demand SA_set_top SA_set_top_nf SA_pop_frame : sa_db.
Lemma SA_refresh_ds l : SA (refresh_ds l). Proof. sa refresh_ds. Qed.
Lemma SA_raise_min_align a : SA (raise_min_align a). Proof. sa raise_min_align. Qed.
Lemma SA_expect_type t : SA (expect_type t). Proof. sa expect_type. Qed.
Lemma SA_unpush_ds n : SA (unpush_ds n). Proof. sa unpush_ds. Qed.
Lemma SA_front_pad n a : SA (front_pad n a). Proof. sa front_pad. Qed.
Lemma SA_back_pad a : SA (back_pad a). Proof. sa back_pad. Qed.
Lemma SA_emit_front_tag k b t : SA (emit_front_tag k b t). Proof. sa emit_front_tag. Qed.
Lemma SA_emit_back_tag k b t : SA (emit_back_tag k b t). Proof. sa emit_back_tag. Qed.
Lemma SA_emit_front k b : SA (emit_front k b). Proof. apply SA_emit_front_tag. Qed.
Lemma SA_emit_back k b : SA (emit_back k b). Proof. apply SA_emit_back_tag. Qed.
Global Hint Resolve SA_refresh_ds SA_raise_min_align SA_expect_type SA_unpush_ds SA_front_pad SA_back_pad SA_emit_front SA_emit_back SA_emit_front_tag SA_emit_back_tag : sa_db.
Lemma SA_exit_frame : SA exit_frame. Proof. sa exit_frame. Qed.
Lemma SA_align_buffer_end a b n : SA (align_buffer_end a b n). Proof. sa align_buffer_end. Qed.
Global Hint Resolve SA_exit_frame SA_align_buffer_end : sa_db.
Lemma SA_create_buffer i b r a f : SA (create_buffer i b r a f). Proof. sa create_buffer. Qed.
Lemma SA_create_struct d a : SA (create_struct d a). Proof. sa create_struct. Qed.
Lemma SA_create_string d : SA (create_string d). Proof. sa create_string. Qed.
Lemma SA_create_vector d c e a m : SA (create_vector d c e a m). Proof. sa create_vector. Qed.
Lemma SA_create_offset_vector_direct d c : SA (create_offset_vector_direct d c). Proof. sa create_offset_vector_direct. Qed.
Lemma SA_create_vtable v : SA (create_vtable v). Proof. sa create_vtable. Qed.
Lemma SA_create_table d a o v : SA (create_table d a o v). Proof. sa create_table. Qed.
Lemma SA_vector_count_add c m : SA (vector_count_add c m). Proof. sa vector_count_add. Qed.
Lemma SA_exit_user_frame : SA exit_user_frame. Proof. sa exit_user_frame. Qed.
Lemma SA_flush : SA flush_vtable_cache. Proof. sa flush_vtable_cache. Qed.
Global Hint Resolve SA_create_buffer SA_create_struct SA_create_string SA_create_vector SA_create_offset_vector_direct SA_create_vtable
  SA_create_table SA_vector_count_add SA_exit_user_frame SA_flush : sa_db.

Definition aarmed (s : bstate) : Prop := fa s = 0 /\ fa_rep s = false.
(* AF m F: started with the next allocator call bound to fail (single failure), m either never calls the allocator or
   consumes the failure and returns a value satisfying F *)
Definition AF {A} (m : M A) (F : A -> Prop) : Prop :=
  forall s, aarmed s -> match m s with Ret a t _ => aarmed t \/ (fa t = -1 /\ F a) | Fault => True end.
Definition RA {A} (m : M A) (G : A -> Prop) : Prop :=
  forall s, match m s with Ret b t _ => fa t = fa s /\ G b | Fault => True end.

Lemma AF_of_SA {A} (m : M A) F : SA m -> AF m F.
Proof. intros H s [H1 H2]. specialize (H s). destruct (m s); [|exact I]. destruct H as (E1 & E2). left. split; congruence. Qed.
Lemma AF_bind {A B} (m : M A) (k : A -> M B) F G :
  AF m F -> (forall a, AF (k a) G) -> (forall a, F a -> RA (k a) G) -> AF (bind m k) G.
Proof.
  intros Hm Hk Hr s Hs. unfold bind. specialize (Hm s Hs). destruct (m s) as [a t e|]; auto.
  destruct Hm as [Ht | [Ht Fa]].
  - specialize (Hk a t Ht). destruct (k a t); [|exact I]. exact Hk.
  - specialize (Hr a Fa t). destruct (k a t); [|exact I]. destruct Hr as (E & Gb). right. split; congruence.
Qed.
Lemma AF_bind_SA {A B} (m : M A) (k : A -> M B) G : SA m -> (forall a, AF (k a) G) -> AF (bind m k) G.
Proof. intros Hm Hk. apply (AF_bind m k (fun _ => False)); [apply AF_of_SA; auto | auto | intros a []]. Qed.
Lemma RA_ret {A} (a : A) (G : A -> Prop) : G a -> RA (ret a) G.
Proof. intros H s. cbn. auto. Qed.
Lemma RA_SA {A} (m : M A) (G : A -> Prop) : SA m -> (forall s, match m s with Ret b _ _ => G b | Fault => True end) -> RA m G.
Proof. intros H1 H2 s. specialize (H1 s). specialize (H2 s). destruct (m s); auto. destruct H1. auto. Qed.

Lemma AF_alloc_call k n : AF (alloc_call k n) (fun ok => ok = false).
Proof. intros s [H1 H2]. unfold alloc_call. rewrite H1. cbn [Z.eqb]. rewrite H2. right. cbn. split; reflexivity. Qed.
Lemma AF_reserve_raw k u n : AF (reserve_raw k u n) (fun ok => ok = false).
Proof.
  intros s Hs. unfold reserve_raw. destruct (cap_get k (caps s) <? u + n); [apply AF_alloc_call; auto | left; exact Hs].
Qed.
Lemma AF_reserve_buffer k u n : AF (reserve_buffer k u n) (fun ok => ok = false).
Proof. unfold reserve_buffer. apply AF_bind_SA; [saA | intros _; apply AF_reserve_raw]. Qed.

Lemma AF_reserve_ds n l : AF (reserve_ds n l) (fun ok => ok = false).
Proof.
  unfold reserve_ds. apply AF_bind_SA; [saA | intros f].
  eapply AF_bind; [apply AF_alloc_call | |].
  - intros ok. destruct ok; apply AF_of_SA; saA.
  - intros ok ->. apply RA_ret. reflexivity.
Qed.
Lemma AF_ensure_ds b o n l : AF (ensure_ds b o n l) (fun ok => ok = false).
Proof.
  unfold ensure_ds. apply AF_bind_SA; [saA | intros f]. apply AF_bind_SA; [saA | intros _]. apply AF_bind_SA; [saA | intros lim].
  destruct (if b then lim <? o else lim <=? o); [apply AF_reserve_ds | apply AF_of_SA, SA_ret].
Qed.
Lemma AF_push_ds n d : AF (push_ds n d) (fun ok => ok = false).
Proof.
  unfold push_ds. apply AF_bind_SA; [saA | intros o]. apply AF_bind_SA; [saA | intros _].
  eapply AF_bind; [apply AF_ensure_ds | |].
  - intros ok. destruct ok; apply AF_of_SA; saA.
  - intros ok ->. apply RA_ret. reflexivity.
Qed.
Lemma AF_frame_slot lv : AF (frame_slot lv) (fun ok => ok = false).
Proof.
  unfold frame_slot. apply AF_bind_SA; [saA | intros ll]. apply AF_bind_SA; [saA | intros ml]. apply AF_bind_SA; [saA | intros _].
  destruct (ll <? lv).
  - destruct ((0 <? ml) && (ml <? lv)); [apply AF_of_SA, SA_ret|].
    eapply AF_bind; [apply AF_reserve_raw | |].
    + intros ok. destruct ok; apply AF_of_SA; saA.
    + intros ok ->. apply RA_ret. reflexivity.
  - apply AF_of_SA. saA.
Qed.
Lemma AF_enter_frame a : AF (enter_frame a) (fun ok => ok = false).
Proof.
  unfold enter_frame. apply AF_bind_SA; [saA | intros lv0]. apply AF_bind_SA; [saA | intros _].
  eapply AF_bind; [apply AF_frame_slot | |].
  - intros ok. destruct ok; apply AF_of_SA; saA.
  - intros ok ->. apply RA_ret. reflexivity.
Qed.

(* the start calls: -1 *)
Ltac af_after_enter v :=
  eapply AF_bind; [apply AF_enter_frame | intros ok; destruct (negb ok); [apply AF_of_SA, SA_ret|] | intros ok ->; cbn [negb]; apply RA_ret; reflexivity].

Lemma AF_start_buffer i b f : AF (start_buffer i b f) (fun r => r = -1).
Proof. unfold start_buffer. apply AF_bind_SA; [saA | intros ma]. af_after_enter (-1). apply AF_of_SA. saA. Qed.
Lemma AF_start_vector e a m : AF (start_vector e a m) (fun r => r = -1).
Proof. unfold start_vector. af_after_enter (-1). apply AF_of_SA. saA. Qed.
Lemma AF_start_offset_vector : AF start_offset_vector (fun r => r = -1).
Proof. unfold start_offset_vector. af_after_enter (-1). apply AF_of_SA. saA. Qed.
Lemma AF_start_string : AF start_string (fun r => r = -1).
Proof. unfold start_string. af_after_enter (-1). apply AF_of_SA. saA. Qed.
Lemma AF_start_struct a d : AF (start_struct a d) (fun r => r = 0).
Proof.
  unfold start_struct. af_after_enter 0.
  apply AF_bind_SA; [saA | intros _]. apply AF_bind_SA; [saA | intros _].
  eapply AF_bind; [apply AF_push_ds | intros r; apply AF_of_SA, SA_ret | intros r ->; apply RA_ret; reflexivity].
Qed.
Lemma AF_reserve_fields c : AF (reserve_fields c) (fun ok => ok = false).
Proof.
  unfold reserve_fields. apply AF_bind_SA; [saA | intros ve]. apply AF_bind_SA; [saA | intros ie].
  eapply AF_bind; [apply AF_reserve_buffer | | intros r ->; cbn [negb]; apply RA_SA; [saA | intros s; reflexivity]].
  intros r. destruct (negb r); [apply AF_of_SA; saA|].
  apply AF_bind_SA; [saA | intros _]. apply AF_bind_SA; [saA | intros pe].
  eapply AF_bind; [apply AF_reserve_buffer | | intros r2 ->; cbn [negb]; apply RA_SA; [saA | intros s; reflexivity]].
  intros r2. destruct (negb r2); apply AF_of_SA; saA.
Qed.
Lemma AF_start_table c : AF (start_table c) (fun r => r = -1).
Proof.
  unfold start_table. af_after_enter (-1).
  do 6 (apply AF_bind_SA; [saA | intro]). do 5 (apply AF_bind_SA; [saA | intros _]).
  eapply AF_bind; [apply AF_reserve_fields | | intros r ->; cbn [negb]; apply RA_ret; reflexivity].
  intros r. destruct (negb r); apply AF_of_SA; saA.
Qed.
Lemma AF_table_add i n a d : AF (table_add i n a d) (fun r => r = 0).
Proof.
  unfold table_add. apply AF_bind_SA; [saA | intros _]. apply AF_bind_SA; [saA | intros al]. apply AF_bind_SA; [saA | intros _].
  apply AF_bind_SA; [saA | intros vs]. destruct (negb (nthz vs i =? 0)); [apply AF_of_SA, SA_ret|].
  apply AF_bind_SA; [saA | intros o].
  match goal with |- AF (if ?c then _ else _) _ => destruct c; [apply AF_of_SA, SA_ret|] end.
  apply AF_bind_SA; [saA | intros _].
  eapply AF_bind; [apply AF_ensure_ds | | intros ok ->; cbn [negb]; apply RA_ret; reflexivity].
  intros ok. destruct (negb ok); apply AF_of_SA; saA.
Qed.
Lemma AF_table_add_offset i r : AF (table_add_offset i r) (fun x => x = 0).
Proof.
  unfold table_add_offset. apply AF_bind_SA; [saA | intros _].
  apply AF_bind_SA; [saA | intros vs]. destruct (negb (nthz vs i =? 0)); [apply AF_of_SA, SA_ret|].
  apply AF_bind_SA; [saA | intros o].
  match goal with |- AF (if ?c then _ else _) _ => destruct c; [apply AF_of_SA, SA_ret|] end.
  apply AF_bind_SA; [saA | intros _].
  eapply AF_bind; [apply AF_ensure_ds | | intros ok ->; cbn [negb]; apply RA_ret; reflexivity].
  intros ok. destruct (negb ok); apply AF_of_SA; saA.
Qed.
Lemma AF_extend_vector c d : AF (extend_vector c d) (fun x => x = 0).
Proof.
  unfold extend_vector. apply AF_bind_SA; [saA | intros _]. apply AF_bind_SA; [saA | intros mc]. apply AF_bind_SA; [saA | intros ok].
  destruct (negb ok); [apply AF_of_SA, SA_ret|]. apply AF_bind_SA; [saA | intros es].
  eapply AF_bind; [apply AF_push_ds | intros r; apply AF_of_SA, SA_ret | intros r ->; apply RA_ret; reflexivity].
Qed.
Lemma AF_extend_offset_vector r : AF (extend_offset_vector r) (fun x => x = 0).
Proof.
  unfold extend_offset_vector. apply AF_bind_SA; [saA | intros _]. apply AF_bind_SA; [saA | intros ok].
  destruct (negb ok); [apply AF_of_SA, SA_ret|].
  eapply AF_bind; [apply AF_push_ds | intros x; apply AF_of_SA, SA_ret | intros x ->; apply RA_ret; reflexivity].
Qed.
Lemma AF_append_string d : AF (append_string d) (fun x => x = 0).
Proof.
  unfold append_string. apply AF_bind_SA; [saA | intros _]. apply AF_bind_SA; [saA | intros ok].
  destruct (negb ok); [apply AF_of_SA, SA_ret|].
  eapply AF_bind; [apply AF_push_ds | intros x; apply AF_of_SA, SA_ret | intros x ->; apply RA_ret; reflexivity].
Qed.
Lemma AF_enter_user_frame n : AF (enter_user_frame n) (fun x => x = 0).
Proof.
  unfold enter_user_frame. apply AF_bind_SA; [saA | intros ue]. apply AF_bind_SA; [saA | intros uo].
  eapply AF_bind; [apply AF_reserve_buffer | | intros r ->; cbn [negb]; apply RA_ret; reflexivity].
  intros r. destruct (negb r); apply AF_of_SA; saA.
Qed.

(* end_table: the vtable cache.  With the defect repaired every failing allocation yields 0. *)
Lemma AF_alloc_ht : AF alloc_ht (fun ok => ok = false).
Proof.
  unfold alloc_ht. apply AF_bind_SA; [saA | intros ve].
  eapply AF_bind; [apply AF_reserve_buffer | | intros r ->; cbn [negb]; apply RA_ret; reflexivity].
  intros r. destruct (negb r); [apply AF_of_SA, SA_ret|]. apply AF_bind_SA; [saA | intros _].
  eapply AF_bind; [apply AF_alloc_call | | intros r2 ->; cbn [negb]; apply RA_ret; reflexivity].
  intros r2. destruct (negb r2); apply AF_of_SA; saA.
Qed.
Lemma AF_ensure_ht : AF ensure_ht (fun ok => ok = false).
Proof. unfold ensure_ht. apply AF_bind_SA; [saA | intros w]. destruct (w =? 0); [apply AF_alloc_ht | apply AF_of_SA, SA_ret]. Qed.
Lemma AF_ccv_rest vt : AF (ccv_rest true vt) (fun x => x = 0).
Proof.
  unfold ccv_rest. apply AF_bind_SA; [saA | intros nid]. apply AF_bind_SA; [saA | intros vc].
  destruct (find_exact vt nid vc); [apply AF_of_SA, SA_ret|].
  apply AF_bind_SA; [saA | intros ve].
  eapply AF_bind; [apply AF_reserve_buffer | | intros r ->; cbn [negb]; apply RA_ret; reflexivity].
  intros r. destruct (negb r); [apply AF_of_SA, SA_ret|].
  apply AF_bind_SA; [saA | intros _]. apply AF_bind_SA; [saA | intros ref]. destruct (ref =? 0); [apply AF_of_SA, SA_ret|].
  destruct (find_copy vt vc); [apply AF_of_SA; saA|].
  apply AF_bind_SA; [saA | intros lim]. apply AF_bind_SA; [saA | intros vbe].
  destruct (negb (lim =? 0) && (lim <? vbe + zlen vt)); [apply AF_of_SA; saA|].
  eapply AF_bind; [apply AF_reserve_buffer | | intros r2 ->; cbn [negb]; apply RA_ret; reflexivity].
  intros r2. destruct (negb r2); apply AF_of_SA; saA.
Qed.
Lemma AF_create_cached_vtable vt : AF (create_cached_vtable true vt) (fun x => x = 0).
Proof.
  unfold create_cached_vtable.
  eapply AF_bind; [apply AF_ensure_ht | | intros ok ->; cbn [negb]; apply RA_ret; reflexivity].
  intros ok. destruct (negb ok); [apply AF_of_SA, SA_ret | apply AF_ccv_rest].
Qed.
Lemma AF_end_table : AF (end_table true) (fun x => x = 0).
Proof.
  unfold end_table. apply AF_bind_SA; [saA | intros _]. do 3 (apply AF_bind_SA; [saA | intro]).
  eapply AF_bind; [apply AF_create_cached_vtable | | intros vr ->; cbn [Z.eqb]; apply RA_ret; reflexivity].
  intros vr. destruct (vr =? 0); apply AF_of_SA; saA.
Qed.

Definition alloc_fail_value (o : op) : Z :=
  match o with
  | OStartBuffer _ _ _ | OStartTable _ | OStartVector _ _ _ | OStartOffsetVector | OStartString => -1
  | _ => 0
  end.

(* the API (reset / clear apart): started with the next allocator call bound to fail, a call that reaches the allocator
   returns its documented failure value: -1 from the int-valued start calls, 0 (null pointer / null reference / null
   handle) from start_struct, table_add, table_add_offset, extend_*, append_string, enter_user_frame, end_table *)
Theorem alloc_failure_step o : is_reset o = false -> AF (step true o) (fun x => x = alloc_fail_value o).
Proof.
  destruct o; cbn [is_reset step alloc_fail_value]; intros E; try discriminate.
  - apply AF_start_buffer.
  - apply AF_of_SA. sa end_buffer.
  - apply AF_of_SA. saA.
  - apply AF_start_struct.
  - apply AF_of_SA. sa end_struct.
  - apply AF_of_SA. saA.
  - apply AF_start_table.
  - apply AF_table_add.
  - apply AF_table_add_offset.
  - apply AF_end_table.
  - apply AF_start_vector.
  - apply AF_extend_vector.
  - apply AF_of_SA. sa truncate_vector.
  - apply AF_of_SA. sa end_vector.
  - apply AF_of_SA. saA.
  - apply AF_start_offset_vector.
  - apply AF_extend_offset_vector.
  - apply AF_of_SA. sa truncate_offset_vector.
  - apply AF_of_SA. sa end_offset_vector.
  - apply AF_start_string.
  - apply AF_append_string.
  - apply AF_of_SA. sa truncate_string.
  - apply AF_of_SA. sa end_string.
  - apply AF_of_SA. saA.
  - apply AF_enter_user_frame.
  - apply AF_of_SA. saA.
  - apply AF_of_SA. sa exit_user_frame_at.
  - apply AF_of_SA. saA.
  - apply AF_of_SA. sa set_max_level_op.
  - apply AF_of_SA. saA.
  - apply AF_of_SA. saA.
  - apply AF_of_SA. saA.
  - apply AF_of_SA. sa push_buffer_alignment.
  - apply AF_of_SA. sa pop_buffer_alignment.
Qed.

(* ------------------------------------------------------------------ small models of the two other allocating components *)
(* emitter.c advance_front / advance_back: a page is taken from the ring when one is spare, else allocated *)
Record ering := mkring { er_used_pages : Z; er_spare : Z; er_cap : Z }.
Definition advance (alloc_ok : bool) (r : ering) : option ering :=
  if 0 <? er_spare r then Some (mkring (er_used_pages r + 1) (er_spare r - 1) (er_cap r))
  else if alloc_ok then Some (mkring (er_used_pages r + 1) 0 (er_cap r + PAGE_SIZE))
  else None.                                  (* return -1, E untouched *)
Lemma emitter_alloc_fail r : er_spare r <= 0 -> advance false r = None.
Proof. intros H. unfold advance. destruct (0 <? er_spare r) eqn:E; [lia | reflexivity]. Qed.
Lemma emitter_alloc_ok_accounting ok r r' : advance ok r = Some r' ->
  er_used_pages r' = er_used_pages r + 1 /\ (er_cap r' = er_cap r \/ (ok = true /\ er_cap r' = er_cap r + PAGE_SIZE)).
Proof.
  unfold advance. destruct (0 <? er_spare r); [intros [= <-]; cbn; auto|]. destruct ok; [intros [= <-]; cbn; auto | discriminate].
Qed.

(* refmap.c flatcc_refmap_resize / flatcc_refmap_insert: the table is replaced only after calloc succeeded *)
Record rmap := mkrmap { rm_buckets : Z; rm_count : Z; rm_items : list (Z * Z) }.
Definition REFMAP_NOT_FOUND : Z := 0.
Definition rm_resize (calloc_ok : bool) (buckets_wanted : Z) (m : rmap) : rmap * Z :=
  if buckets_wanted =? rm_buckets m then (m, 0)
  else if calloc_ok then (mkrmap buckets_wanted (rm_count m) (rm_items m), 0)
  else (m, -1).                               (* refmap->table = T_old; return -1 *)
Definition rm_insert (calloc_ok above_load : bool) (buckets_wanted : Z) (src ref : Z) (m : rmap) : rmap * Z :=
  let '(m1, rc) := if above_load then rm_resize calloc_ok buckets_wanted m else (m, 0) in
  if rc =? 0 then (mkrmap (rm_buckets m1) (rm_count m1 + 1) ((src, ref) :: rm_items m1), ref)
  else (m, REFMAP_NOT_FOUND).
Lemma refmap_alloc_fail b src ref m : b <> rm_buckets m ->
  rm_resize false b m = (m, -1) /\ rm_insert false true b src ref m = (m, REFMAP_NOT_FOUND).
Proof.
  intros H. unfold rm_insert, rm_resize. destruct (b =? rm_buckets m) eqn:E; [lia|]. cbn. split; reflexivity.
Qed.
