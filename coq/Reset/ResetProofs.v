(* C14 lemmas: non-interference of the builder's calls from the state that custom_reset keeps (capacities,
   limit_level, ds_limit, frame pointer, hash table width, descriptor fill, emitter pool), the frame-stack safety
   invariant, custom_reset = init on everything else, vtable uniqueness, footprint bound.  *)
From Flatcc.Reset Require Import BuilderState.
From Flatcc.Generated Require Import ResetConsts.
From Coq Require Import ZifyBool.
Local Open Scope Z_scope.
Ltac Zify.zify_post_hook ::= Z.div_mod_to_equations.
Arguments zlen : simpl never.
Arguments default_alloc : simpl never.
Arguments alignup : simpl never.
Arguments zmax : simpl never.
Arguments u32 : simpl never.
Arguments Z.mul : simpl never.
Arguments Z.add : simpl never.
Arguments Z.sub : simpl never.
Arguments Z.div : simpl never.

(* ------------------------------------------------------------------ the part of the state that matters: [core] *)
Definition core_frame (f : frame) : frame := set_f_type_limit 0 f.
Definition core (s : bstate) : bstate :=
  mkst caps0 (dem s) (vs_off s) (pl_off s) (id_end s) (vt_hash s) (ds_offset s) 0 (ds_first s) None 0 (vb_end s) 0 (min_align s) (align s) (block_align s) (emit_start s) (emit_end s) (buffer_mark s) (nest_count s) (nest_id s) (level s) 0 (buffer_flags s) (identifier s) (vb_flush_limit s) (max_level s) (disable_vt_clustering s) (user_frame_offset s) (user_frame_end s) (map core_frame (frames s)) (ds_data s) (vs_data s) (pl_data s) (us_mem s) (vcache s) 0 0 0 0 0 0 false 0 false.
Lemma core_set_caps v s : core (set_caps v s) = core s. Proof. reflexivity. Qed.
Lemma core_set_dem v s : core (set_dem v s) = set_dem v (core s). Proof. reflexivity. Qed.
Lemma dem_core s : dem (core s) = dem s. Proof. reflexivity. Qed.
Lemma core_set_vs_off v s : core (set_vs_off v s) = set_vs_off v (core s). Proof. reflexivity. Qed.
Lemma vs_off_core s : vs_off (core s) = vs_off s. Proof. reflexivity. Qed.
Lemma core_set_pl_off v s : core (set_pl_off v s) = set_pl_off v (core s). Proof. reflexivity. Qed.
Lemma pl_off_core s : pl_off (core s) = pl_off s. Proof. reflexivity. Qed.
Lemma core_set_id_end v s : core (set_id_end v s) = set_id_end v (core s). Proof. reflexivity. Qed.
Lemma id_end_core s : id_end (core s) = id_end s. Proof. reflexivity. Qed.
Lemma core_set_vt_hash v s : core (set_vt_hash v s) = set_vt_hash v (core s). Proof. reflexivity. Qed.
Lemma vt_hash_core s : vt_hash (core s) = vt_hash s. Proof. reflexivity. Qed.
Lemma core_set_ds_offset v s : core (set_ds_offset v s) = set_ds_offset v (core s). Proof. reflexivity. Qed.
Lemma ds_offset_core s : ds_offset (core s) = ds_offset s. Proof. reflexivity. Qed.
Lemma core_set_ds_limit v s : core (set_ds_limit v s) = core s. Proof. reflexivity. Qed.
Lemma core_set_ds_first v s : core (set_ds_first v s) = set_ds_first v (core s). Proof. reflexivity. Qed.
Lemma ds_first_core s : ds_first (core s) = ds_first s. Proof. reflexivity. Qed.
Lemma core_set_frame_ptr v s : core (set_frame_ptr v s) = core s. Proof. reflexivity. Qed.
Lemma core_set_ht_width v s : core (set_ht_width v s) = core s. Proof. reflexivity. Qed.
Lemma core_set_vb_end v s : core (set_vb_end v s) = set_vb_end v (core s). Proof. reflexivity. Qed.
Lemma vb_end_core s : vb_end (core s) = vb_end s. Proof. reflexivity. Qed.
Lemma core_set_vd_end v s : core (set_vd_end v s) = core s. Proof. reflexivity. Qed.
Lemma core_set_min_align v s : core (set_min_align v s) = set_min_align v (core s). Proof. reflexivity. Qed.
Lemma min_align_core s : min_align (core s) = min_align s. Proof. reflexivity. Qed.
Lemma core_set_align v s : core (set_align v s) = set_align v (core s). Proof. reflexivity. Qed.
Lemma align_core s : align (core s) = align s. Proof. reflexivity. Qed.
Lemma core_set_block_align v s : core (set_block_align v s) = set_block_align v (core s). Proof. reflexivity. Qed.
Lemma block_align_core s : block_align (core s) = block_align s. Proof. reflexivity. Qed.
Lemma core_set_emit_start v s : core (set_emit_start v s) = set_emit_start v (core s). Proof. reflexivity. Qed.
Lemma emit_start_core s : emit_start (core s) = emit_start s. Proof. reflexivity. Qed.
Lemma core_set_emit_end v s : core (set_emit_end v s) = set_emit_end v (core s). Proof. reflexivity. Qed.
Lemma emit_end_core s : emit_end (core s) = emit_end s. Proof. reflexivity. Qed.
Lemma core_set_buffer_mark v s : core (set_buffer_mark v s) = set_buffer_mark v (core s). Proof. reflexivity. Qed.
Lemma buffer_mark_core s : buffer_mark (core s) = buffer_mark s. Proof. reflexivity. Qed.
Lemma core_set_nest_count v s : core (set_nest_count v s) = set_nest_count v (core s). Proof. reflexivity. Qed.
Lemma nest_count_core s : nest_count (core s) = nest_count s. Proof. reflexivity. Qed.
Lemma core_set_nest_id v s : core (set_nest_id v s) = set_nest_id v (core s). Proof. reflexivity. Qed.
Lemma nest_id_core s : nest_id (core s) = nest_id s. Proof. reflexivity. Qed.
Lemma core_set_level v s : core (set_level v s) = set_level v (core s). Proof. reflexivity. Qed.
Lemma level_core s : level (core s) = level s. Proof. reflexivity. Qed.
Lemma core_set_limit_level v s : core (set_limit_level v s) = core s. Proof. reflexivity. Qed.
Lemma core_set_buffer_flags v s : core (set_buffer_flags v s) = set_buffer_flags v (core s). Proof. reflexivity. Qed.
Lemma buffer_flags_core s : buffer_flags (core s) = buffer_flags s. Proof. reflexivity. Qed.
Lemma core_set_identifier v s : core (set_identifier v s) = set_identifier v (core s). Proof. reflexivity. Qed.
Lemma identifier_core s : identifier (core s) = identifier s. Proof. reflexivity. Qed.
Lemma core_set_vb_flush_limit v s : core (set_vb_flush_limit v s) = set_vb_flush_limit v (core s). Proof. reflexivity. Qed.
Lemma vb_flush_limit_core s : vb_flush_limit (core s) = vb_flush_limit s. Proof. reflexivity. Qed.
Lemma core_set_max_level v s : core (set_max_level v s) = set_max_level v (core s). Proof. reflexivity. Qed.
Lemma max_level_core s : max_level (core s) = max_level s. Proof. reflexivity. Qed.
Lemma core_set_disable_vt_clustering v s : core (set_disable_vt_clustering v s) = set_disable_vt_clustering v (core s). Proof. reflexivity. Qed.
Lemma disable_vt_clustering_core s : disable_vt_clustering (core s) = disable_vt_clustering s. Proof. reflexivity. Qed.
Lemma core_set_user_frame_offset v s : core (set_user_frame_offset v s) = set_user_frame_offset v (core s). Proof. reflexivity. Qed.
Lemma user_frame_offset_core s : user_frame_offset (core s) = user_frame_offset s. Proof. reflexivity. Qed.
Lemma core_set_user_frame_end v s : core (set_user_frame_end v s) = set_user_frame_end v (core s). Proof. reflexivity. Qed.
Lemma user_frame_end_core s : user_frame_end (core s) = user_frame_end s. Proof. reflexivity. Qed.
Lemma core_set_frames v s : core (set_frames v s) = set_frames (map core_frame v) (core s). Proof. reflexivity. Qed.
Lemma core_set_ds_data v s : core (set_ds_data v s) = set_ds_data v (core s). Proof. reflexivity. Qed.
Lemma ds_data_core s : ds_data (core s) = ds_data s. Proof. reflexivity. Qed.
Lemma core_set_vs_data v s : core (set_vs_data v s) = set_vs_data v (core s). Proof. reflexivity. Qed.
Lemma vs_data_core s : vs_data (core s) = vs_data s. Proof. reflexivity. Qed.
Lemma core_set_pl_data v s : core (set_pl_data v s) = set_pl_data v (core s). Proof. reflexivity. Qed.
Lemma pl_data_core s : pl_data (core s) = pl_data s. Proof. reflexivity. Qed.
Lemma core_set_us_mem v s : core (set_us_mem v s) = set_us_mem v (core s). Proof. reflexivity. Qed.
Lemma us_mem_core s : us_mem (core s) = us_mem s. Proof. reflexivity. Qed.
Lemma core_set_vcache v s : core (set_vcache v s) = set_vcache v (core s). Proof. reflexivity. Qed.
Lemma vcache_core s : vcache (core s) = vcache s. Proof. reflexivity. Qed.
Lemma core_set_e_cap v s : core (set_e_cap v s) = core s. Proof. reflexivity. Qed.
Lemma core_set_e_used v s : core (set_e_used v s) = core s. Proof. reflexivity. Qed.
Lemma core_set_e_avg v s : core (set_e_avg v s) = core s. Proof. reflexivity. Qed.
Lemma core_set_e_front v s : core (set_e_front v s) = core s. Proof. reflexivity. Qed.
Lemma core_set_e_back v s : core (set_e_back v s) = core s. Proof. reflexivity. Qed.
Lemma core_set_fa v s : core (set_fa v s) = core s. Proof. reflexivity. Qed.
Lemma core_set_fa_rep v s : core (set_fa_rep v s) = core s. Proof. reflexivity. Qed.
Lemma core_set_fe v s : core (set_fe v s) = core s. Proof. reflexivity. Qed.
Lemma core_set_fe_rep v s : core (set_fe_rep v s) = core s. Proof. reflexivity. Qed.
Lemma frames_core s : frames (core s) = map core_frame (frames s). Proof. reflexivity. Qed.
Global Hint Rewrite core_set_caps core_set_dem core_set_vs_off core_set_pl_off core_set_id_end core_set_vt_hash core_set_ds_offset core_set_ds_limit core_set_ds_first core_set_frame_ptr core_set_ht_width core_set_vb_end core_set_vd_end core_set_min_align core_set_align core_set_block_align core_set_emit_start core_set_emit_end core_set_buffer_mark core_set_nest_count core_set_nest_id core_set_level core_set_limit_level core_set_buffer_flags core_set_identifier core_set_vb_flush_limit core_set_max_level core_set_disable_vt_clustering core_set_user_frame_offset core_set_user_frame_end core_set_frames core_set_ds_data core_set_vs_data core_set_pl_data core_set_us_mem core_set_vcache core_set_e_cap core_set_e_used core_set_e_avg core_set_e_front core_set_e_back core_set_fa core_set_fa_rep core_set_fe core_set_fe_rep : core_db.
Lemma core_frame_set_f_ds_first v f : core_frame (set_f_ds_first v f) = set_f_ds_first v (core_frame f). Proof. reflexivity. Qed.
Lemma core_frame_set_f_type_limit v f : core_frame (set_f_type_limit v f) = core_frame f. Proof. reflexivity. Qed.
Lemma core_frame_set_f_ds_offset v f : core_frame (set_f_ds_offset v f) = set_f_ds_offset v (core_frame f). Proof. reflexivity. Qed.
Lemma core_frame_set_f_align v f : core_frame (set_f_align v f) = set_f_align v (core_frame f). Proof. reflexivity. Qed.
Lemma core_frame_set_f_type v f : core_frame (set_f_type v f) = set_f_type v (core_frame f). Proof. reflexivity. Qed.
Lemma core_frame_set_f_ds_data v f : core_frame (set_f_ds_data v f) = set_f_ds_data v (core_frame f). Proof. reflexivity. Qed.
Lemma core_frame_set_f_vs_end v f : core_frame (set_f_vs_end v f) = set_f_vs_end v (core_frame f). Proof. reflexivity. Qed.
Lemma core_frame_set_f_pl_end v f : core_frame (set_f_pl_end v f) = set_f_pl_end v (core_frame f). Proof. reflexivity. Qed.
Lemma core_frame_set_f_vt_hash v f : core_frame (set_f_vt_hash v f) = set_f_vt_hash v (core_frame f). Proof. reflexivity. Qed.
Lemma core_frame_set_f_id_end v f : core_frame (set_f_id_end v f) = set_f_id_end v (core_frame f). Proof. reflexivity. Qed.
Lemma core_frame_set_f_vs_data v f : core_frame (set_f_vs_data v f) = set_f_vs_data v (core_frame f). Proof. reflexivity. Qed.
Lemma core_frame_set_f_pl_data v f : core_frame (set_f_pl_data v f) = set_f_pl_data v (core_frame f). Proof. reflexivity. Qed.
Lemma core_frame_set_f_elem_size v f : core_frame (set_f_elem_size v f) = set_f_elem_size v (core_frame f). Proof. reflexivity. Qed.
Lemma core_frame_set_f_count v f : core_frame (set_f_count v f) = set_f_count v (core_frame f). Proof. reflexivity. Qed.
Lemma core_frame_set_f_max_count v f : core_frame (set_f_max_count v f) = set_f_max_count v (core_frame f). Proof. reflexivity. Qed.
Lemma core_frame_set_f_identifier v f : core_frame (set_f_identifier v f) = set_f_identifier v (core_frame f). Proof. reflexivity. Qed.
Lemma core_frame_set_f_mark v f : core_frame (set_f_mark v f) = set_f_mark v (core_frame f). Proof. reflexivity. Qed.
Lemma core_frame_set_f_nest_id v f : core_frame (set_f_nest_id v f) = set_f_nest_id v (core_frame f). Proof. reflexivity. Qed.
Lemma core_frame_set_f_flags v f : core_frame (set_f_flags v f) = set_f_flags v (core_frame f). Proof. reflexivity. Qed.
Lemma core_frame_set_f_block_align v f : core_frame (set_f_block_align v f) = set_f_block_align v (core_frame f). Proof. reflexivity. Qed.
Global Hint Rewrite core_frame_set_f_ds_first core_frame_set_f_type_limit core_frame_set_f_ds_offset core_frame_set_f_align core_frame_set_f_type core_frame_set_f_ds_data core_frame_set_f_vs_end core_frame_set_f_pl_end core_frame_set_f_vt_hash core_frame_set_f_id_end core_frame_set_f_vs_data core_frame_set_f_pl_data core_frame_set_f_elem_size core_frame_set_f_count core_frame_set_f_max_count core_frame_set_f_identifier core_frame_set_f_mark core_frame_set_f_nest_id core_frame_set_f_flags core_frame_set_f_block_align : frame_db.

(* ------------------------------------------------------------------ invariant of the non-core part *)
Definition frame_ptr_ok (s : bstate) : Prop :=
  match frame_ptr s with
  | None => limit_level s = 0
  | Some p => (zlen (frames s) - 1) * FRAME_SIZE <= p <= (level s - 1) * FRAME_SIZE
  end.

Definition Inv (s : bstate) : Prop :=
  fa s < 0 /\ fe s < 0 /\
  (0 < limit_level s -> limit_level s * FRAME_SIZE <= c_fs (caps s)) /\
  (0 < max_level s -> limit_level s <= max_level s) /\
  frame_ptr_ok s /\
  zlen (frames s) <= level s /\
  (ht_width s = 0 -> vcache s = [] /\ vb_end s = 0).

Lemma Inv_set_dem v s : Inv s -> Inv (set_dem v s). Proof. exact (fun H => H). Qed.
Lemma Inv_set_vs_off v s : Inv s -> Inv (set_vs_off v s). Proof. exact (fun H => H). Qed.
Lemma Inv_set_pl_off v s : Inv s -> Inv (set_pl_off v s). Proof. exact (fun H => H). Qed.
Lemma Inv_set_id_end v s : Inv s -> Inv (set_id_end v s). Proof. exact (fun H => H). Qed.
Lemma Inv_set_vt_hash v s : Inv s -> Inv (set_vt_hash v s). Proof. exact (fun H => H). Qed.
Lemma Inv_set_ds_offset v s : Inv s -> Inv (set_ds_offset v s). Proof. exact (fun H => H). Qed.
Lemma Inv_set_ds_limit v s : Inv s -> Inv (set_ds_limit v s). Proof. exact (fun H => H). Qed.
Lemma Inv_set_ds_first v s : Inv s -> Inv (set_ds_first v s). Proof. exact (fun H => H). Qed.
Lemma Inv_set_vd_end v s : Inv s -> Inv (set_vd_end v s). Proof. exact (fun H => H). Qed.
Lemma Inv_set_min_align v s : Inv s -> Inv (set_min_align v s). Proof. exact (fun H => H). Qed.
Lemma Inv_set_align v s : Inv s -> Inv (set_align v s). Proof. exact (fun H => H). Qed.
Lemma Inv_set_block_align v s : Inv s -> Inv (set_block_align v s). Proof. exact (fun H => H). Qed.
Lemma Inv_set_emit_start v s : Inv s -> Inv (set_emit_start v s). Proof. exact (fun H => H). Qed.
Lemma Inv_set_emit_end v s : Inv s -> Inv (set_emit_end v s). Proof. exact (fun H => H). Qed.
Lemma Inv_set_buffer_mark v s : Inv s -> Inv (set_buffer_mark v s). Proof. exact (fun H => H). Qed.
Lemma Inv_set_nest_count v s : Inv s -> Inv (set_nest_count v s). Proof. exact (fun H => H). Qed.
Lemma Inv_set_nest_id v s : Inv s -> Inv (set_nest_id v s). Proof. exact (fun H => H). Qed.
Lemma Inv_set_buffer_flags v s : Inv s -> Inv (set_buffer_flags v s). Proof. exact (fun H => H). Qed.
Lemma Inv_set_identifier v s : Inv s -> Inv (set_identifier v s). Proof. exact (fun H => H). Qed.
Lemma Inv_set_vb_flush_limit v s : Inv s -> Inv (set_vb_flush_limit v s). Proof. exact (fun H => H). Qed.
Lemma Inv_set_disable_vt_clustering v s : Inv s -> Inv (set_disable_vt_clustering v s). Proof. exact (fun H => H). Qed.
Lemma Inv_set_user_frame_offset v s : Inv s -> Inv (set_user_frame_offset v s). Proof. exact (fun H => H). Qed.
Lemma Inv_set_user_frame_end v s : Inv s -> Inv (set_user_frame_end v s). Proof. exact (fun H => H). Qed.
Lemma Inv_set_ds_data v s : Inv s -> Inv (set_ds_data v s). Proof. exact (fun H => H). Qed.
Lemma Inv_set_vs_data v s : Inv s -> Inv (set_vs_data v s). Proof. exact (fun H => H). Qed.
Lemma Inv_set_pl_data v s : Inv s -> Inv (set_pl_data v s). Proof. exact (fun H => H). Qed.
Lemma Inv_set_us_mem v s : Inv s -> Inv (set_us_mem v s). Proof. exact (fun H => H). Qed.
Lemma Inv_set_e_cap v s : Inv s -> Inv (set_e_cap v s). Proof. exact (fun H => H). Qed.
Lemma Inv_set_e_used v s : Inv s -> Inv (set_e_used v s). Proof. exact (fun H => H). Qed.
Lemma Inv_set_e_avg v s : Inv s -> Inv (set_e_avg v s). Proof. exact (fun H => H). Qed.
Lemma Inv_set_e_front v s : Inv s -> Inv (set_e_front v s). Proof. exact (fun H => H). Qed.
Lemma Inv_set_e_back v s : Inv s -> Inv (set_e_back v s). Proof. exact (fun H => H). Qed.
Lemma Inv_set_fa_rep v s : Inv s -> Inv (set_fa_rep v s). Proof. exact (fun H => H). Qed.
Lemma Inv_set_fe_rep v s : Inv s -> Inv (set_fe_rep v s). Proof. exact (fun H => H). Qed.

Ltac osplit := repeat match goal with |- _ /\ _ => split end.

Definition R (s1 s2 : bstate) : Prop := core s1 = core s2.

Lemma R_refl s : R s s. Proof. reflexivity. Qed.
Lemma R_sym s1 s2 : R s1 s2 -> R s2 s1. Proof. unfold R; congruence. Qed.
Lemma R_trans s1 s2 s3 : R s1 s2 -> R s2 s3 -> R s1 s3. Proof. unfold R; congruence. Qed.

(* two calls are related (w.r.t. an invariant J of the non-core part): from related states satisfying J both fault,
   or both return with the same value and the same emit events, in related states satisfying J *)
Section Generic.
Variable J : bstate -> Prop.
Definition orelJ {A} (o1 o2 : outcome A) : Prop :=
  match o1, o2 with
  | Ret a1 t1 e1, Ret a2 t2 e2 => a1 = a2 /\ e1 = e2 /\ R t1 t2 /\ J t1 /\ J t2
  | Fault, Fault => True
  | _, _ => False
  end.
Definition rel2J {A} (m1 m2 : M A) : Prop :=
  forall s1 s2, R s1 s2 -> J s1 -> J s2 -> orelJ (m1 s1) (m2 s2).
(* the same without constraint on the returned values (reads of the non-core part) *)
Definition orelUJ {A} (o1 o2 : outcome A) : Prop :=
  match o1, o2 with
  | Ret a1 t1 e1, Ret a2 t2 e2 => e1 = [] /\ e2 = [] /\ R t1 t2 /\ J t1 /\ J t2
  | Fault, Fault => True
  | _, _ => False
  end.
Definition relUJ {A} (m1 m2 : M A) : Prop :=
  forall s1 s2, R s1 s2 -> J s1 -> J s2 -> orelUJ (m1 s1) (m2 s2).

Lemma orel_trans {A} (o1 o2 o3 : outcome A) : orelJ o1 o2 -> orelJ o2 o3 -> orelJ o1 o3.
Proof.
  destruct o1, o2, o3; simpl; try tauto.
  intros (-> & -> & H1 & H2 & H3) (-> & -> & H4 & H5 & H6). osplit; auto. eapply R_trans; eauto.
Qed.
Lemma orel_sym {A} (o1 o2 : outcome A) : orelJ o1 o2 -> orelJ o2 o1.
Proof. destruct o1, o2; simpl; try tauto. intros (-> & -> & H1 & H2 & H3). osplit; auto. apply R_sym; auto. Qed.

Lemma rel2_sym {A} (m1 m2 : M A) : rel2J m1 m2 -> rel2J m2 m1.
Proof. intros H s1 s2 HR I1 I2. apply orel_sym. apply H; auto. apply R_sym; auto. Qed.
Lemma rel2_trans {A} (m1 m2 m3 : M A) : rel2J m1 m2 -> rel2J m2 m3 -> rel2J m1 m3.
Proof. intros H1 H2 s1 s2 HR I1 I2. eapply orel_trans; [apply H1; eauto | apply H2; auto using R_refl]. Qed.

Lemma rel2_ret {A} (a : A) : rel2J (ret a) (ret a).
Proof. intros s1 s2 HR I1 I2. simpl. auto. Qed.

Lemma rel2_fault {A} : rel2J (@fault A) (@fault A).
Proof. intros s1 s2 _ _ _. exact I. Qed.

Lemma rel2_bind {A B} (m1 m2 : M A) (k1 k2 : A -> M B) :
  rel2J m1 m2 -> (forall a, rel2J (k1 a) (k2 a)) -> rel2J (bind m1 k1) (bind m2 k2).
Proof.
  intros Hm Hk s1 s2 HR I1 I2. unfold bind. specialize (Hm s1 s2 HR I1 I2).
  destruct (m1 s1) as [a1 t1 e1|], (m2 s2) as [a2 t2 e2|]; simpl in Hm; try tauto.
  destruct Hm as (-> & -> & HR' & I1' & I2'). specialize (Hk a2 t1 t2 HR' I1' I2').
  destruct (k1 a2 t1), (k2 a2 t2); simpl in *; try tauto.
  destruct Hk as (-> & -> & ? & ? & ?). auto.
Qed.

Lemma rel2_bindU {A B} (m1 m2 : M A) (k1 k2 : A -> M B) :
  relUJ m1 m2 -> (forall a1 a2, rel2J (k1 a1) (k2 a2)) -> rel2J (bind m1 k1) (bind m2 k2).
Proof.
  intros Hm Hk s1 s2 HR I1 I2. unfold bind. specialize (Hm s1 s2 HR I1 I2).
  destruct (m1 s1) as [a1 t1 e1|], (m2 s2) as [a2 t2 e2|]; simpl in Hm; try tauto.
  destruct Hm as (-> & -> & HR' & I1' & I2'). specialize (Hk a1 a2 t1 t2 HR' I1' I2').
  destruct (k1 a1 t1), (k2 a2 t2); simpl in *; try tauto.
Qed.

(* reads *)
Lemma rel2_get {A} (f : bstate -> A) : (forall s, f s = f (core s)) -> rel2J (get f) (get f).
Proof. intros Hf s1 s2 HR I1 I2. simpl. osplit; auto. rewrite (Hf s1), (Hf s2). unfold R in HR. rewrite HR. reflexivity. Qed.
Lemma relU_get {A} (f g : bstate -> A) : relUJ (get f) (get g).
Proof. intros s1 s2 HR I1 I2. simpl. auto. Qed.

(* writes *)
Lemma rel2_upd (g1 g2 : bstate -> bstate) :
  (forall s1 s2, R s1 s2 -> R (g1 s1) (g2 s2)) -> (forall s, J s -> J (g1 s)) -> (forall s, J s -> J (g2 s)) ->
  rel2J (upd g1) (upd g2).
Proof. intros H1 H2 H3 s1 s2 HR I1 I2. unfold upd; simpl. osplit; auto. Qed.

Lemma rel2_if {A} (b : bool) (m1 m2 n1 n2 : M A) : rel2J m1 m2 -> rel2J n1 n2 -> rel2J (if b then m1 else n1) (if b then m2 else n2).
Proof. destruct b; auto. Qed.

Lemma rel2_ret_l {A} (m : M A) (v : A) : rel2J m (ret v) -> rel2J m m.
Proof. intros H. eapply rel2_trans; [exact H | apply rel2_sym; exact H]. Qed.

(* composition with a neutral call on the left *)
Lemma rel2_bind_neutral {A B} (m : M A) (v : A) (k : A -> M B) (n : M B) :
  rel2J m (ret v) -> rel2J (k v) n -> rel2J (bind m k) n.
Proof.
  intros Hm Hk s1 s2 HR I1 I2. unfold bind. specialize (Hm s1 s2 HR I1 I2). unfold ret in Hm.
  destruct (m s1) as [a1 t1 e1|]; simpl in Hm; try tauto.
  destruct Hm as (-> & -> & HR' & I1' & _). specialize (Hk t1 s2 HR' I1' I2).
  destruct (k v t1), (n s2); simpl in *; auto.
Qed.

Lemma rel2_bind_get_l {A B} (f : bstate -> A) (k : A -> M B) (n : M B) :
  (forall a, rel2J (k a) n) -> rel2J (bind (get f) k) n.
Proof.
  intros H s1 s2 HR I1 I2. unfold bind, get. specialize (H (f s1) s1 s2 HR I1 I2).
  destruct (k (f s1) s1), (n s2); simpl in *; auto.
Qed.
End Generic.
Arguments orelJ J {A} o1 o2.
Arguments rel2J J {A} m1 m2.
Arguments relUJ J {A} m1 m2.
Notation orel := (orelJ Inv).
Notation rel2 := (rel2J Inv).
Notation relU := (relUJ Inv).

Lemma cons_eq_inv {A} (a b : A) l l' : a :: l = b :: l' -> a = b /\ l = l'.
Proof. intros H; injection H; auto. Qed.

Lemma top_core {A} (f : frame -> A) : (forall fr, f fr = f (core_frame fr)) -> rel2 (top f) (top f).
Proof.
  intros Hf s1 s2 HR I1 I2. unfold top. unfold R in HR.
  assert (H := f_equal frames HR). rewrite !frames_core in H.
  destruct (frames s1), (frames s2); simpl in H; try discriminate; simpl; auto.
  apply cons_eq_inv in H as [H _]. osplit; auto. rewrite (Hf f0), (Hf f1), H. reflexivity.
Qed.

Lemma Inv_set_frames_same_len v s : length v = length (frames s) -> Inv s -> Inv (set_frames v s).
Proof.
  unfold Inv, frame_ptr_ok, zlen. simpl. intros E. rewrite E. auto.
Qed.

Lemma rel2_set_top (g1 g2 : frame -> frame) :
  (forall f1 f2, core_frame f1 = core_frame f2 -> core_frame (g1 f1) = core_frame (g2 f2)) -> rel2 (set_top g1) (set_top g2).
Proof.
  intros Hg s1 s2 HR I1 I2. unfold set_top. unfold R in HR.
  assert (H := f_equal frames HR). rewrite !frames_core in H.
  destruct (frames s1) eqn:E1, (frames s2) eqn:E2; simpl in H; try discriminate; simpl; auto.
  apply cons_eq_inv in H as [H H']. osplit; auto.
  - unfold R. rewrite !core_set_frames. simpl. rewrite (Hg _ _ H), H'. rewrite HR. reflexivity.
  - apply Inv_set_frames_same_len; auto. rewrite E1; reflexivity.
  - apply Inv_set_frames_same_len; auto. rewrite E2; reflexivity.
Qed.

Lemma rel2_set_top_nf (g1 g2 : frame -> frame) :
  (forall f1 f2, core_frame f1 = core_frame f2 -> core_frame (g1 f1) = core_frame (g2 f2)) -> rel2 (set_top_nf g1) (set_top_nf g2).
Proof.
  intros Hg s1 s2 HR I1 I2. unfold set_top_nf. unfold R in HR.
  assert (H := f_equal frames HR). rewrite !frames_core in H.
  destruct (frames s1) eqn:E1, (frames s2) eqn:E2; simpl in H; try discriminate; simpl; auto.
  apply cons_eq_inv in H as [H H']. osplit; auto.
  - unfold R. rewrite !core_set_frames. simpl. rewrite (Hg _ _ H), H'. rewrite HR. reflexivity.
  - apply Inv_set_frames_same_len; auto. rewrite E1; reflexivity.
  - apply Inv_set_frames_same_len; auto. rewrite E2; reflexivity.
Qed.


(* ------------------------------------------------------------------ automation for calls built from core reads / writes *)
Ltac solve_R :=
  let s1 := fresh "s1" in let s2 := fresh "s2" in let H := fresh "H" in
  intros s1 s2 H; unfold R in *; autorewrite with core_db; rewrite ?H; reflexivity.
Ltac solve_Inv := let s := fresh "s" in let H := fresh "H" in intros s H; exact H.
Ltac core_getter := intros; reflexivity.
Ltac solve_frame :=
  let f1 := fresh "f1" in let f2 := fresh "f2" in let H := fresh "H" in
  intros f1 f2 H; autorewrite with frame_db; rewrite ?H; reflexivity.

Create HintDb rel_db.
Ltac rel1 :=
  first
  [ apply rel2_ret
  | apply rel2_fault
  | solve [auto with rel_db nocore]
  | apply rel2_get; core_getter
  | apply top_core; core_getter
  | apply rel2_upd; [ solve_R | solve_Inv | solve_Inv ]
  | apply rel2_set_top; solve_frame
  | apply rel2_bind; [ | intro ]
  | match goal with |- rel2 (if ?b then _ else _) (if ?b then _ else _) => destruct b end
  | match goal with |- rel2 (match ?x with _ => _ end) (match ?x with _ => _ end) => destruct x end
  ].
Ltac rel := repeat rel1.

(* ------------------------------------------------------------------ neutral calls: behave like [ret v] on the core *)
Lemma fa_neg_branch s : Inv s -> (fa s =? 0) = false /\ (0 <? fa s) = false.
Proof. intros (H & _). lia. Qed.
Lemma fe_neg_branch s : Inv s -> (fe s =? 0) = false /\ (0 <? fe s) = false.
Proof. intros (_ & H & _). lia. Qed.

Lemma Inv_set_caps_not_fs c s : c_fs c = c_fs (caps s) -> Inv s -> Inv (set_caps c s).
Proof. unfold Inv, frame_ptr_ok. simpl. intros ->. auto. Qed.

Lemma cap_set_fs k v c : k <> FS -> c_fs (cap_set k v c) = c_fs c.
Proof. destruct k; simpl; congruence. Qed.

Lemma alloc_call_neutral k req : k <> FS -> rel2 (alloc_call k req) (ret true).
Proof.
  intros Hk s1 s2 HR I1 I2. unfold alloc_call, ret.
  destruct (fa_neg_branch s1 I1) as [-> ->]. simpl. osplit; auto.
  apply Inv_set_caps_not_fs; auto. apply cap_set_fs; auto.
Qed.


Ltac ceq HR f :=
  let H := fresh "Hc" in
  match type of HR with
  | core ?s1 = core ?s2 => assert (H : f s1 = f s2) by (change (f (core s1) = f (core s2)); rewrite HR; reflexivity)
  end.

Lemma reserve_raw_neutral k u n : k <> FS -> rel2 (reserve_raw k u n) (ret true).
Proof.
  intros Hk s1 s2 HR I1 I2. unfold reserve_raw.
  destruct (cap_get k (caps s1) <? u + n).
  - apply alloc_call_neutral; auto.
  - simpl. auto.
Qed.

Lemma note_demand_rel k r : rel2 (note_demand k r) (note_demand k r).
Proof.
  unfold note_demand. destruct k; try apply rel2_ret;
    (apply rel2_upd; [ intros s1 s2 H; unfold R in *; autorewrite with core_db; ceq H dem; rewrite Hc, H; reflexivity
                     | intros s H; exact H | intros s H; exact H ]).
Qed.

Lemma reserve_buffer_rel k u n : k <> FS -> rel2 (reserve_buffer k u n) (reserve_buffer k u n).
Proof.
  intros Hk. unfold reserve_buffer. apply rel2_bind; [apply note_demand_rel | intro].
  eapply rel2_ret_l, reserve_raw_neutral; auto.
Qed.

Lemma reserve_buffer_neutral_vd u n : rel2 (reserve_buffer VD u n) (ret true).
Proof.
  unfold reserve_buffer, note_demand. eapply rel2_bind_neutral; [apply rel2_ret | apply reserve_raw_neutral; discriminate].
Qed.

Lemma refresh_ds_neutral l : rel2 (refresh_ds l) (ret tt).
Proof.
  intros s1 s2 HR I1 I2. unfold refresh_ds, bind, get, upd, set_top_nf, ret. simpl.
  destruct (frames s1) eqn:E; simpl; osplit; auto.
  - unfold R in *. rewrite core_set_frames. simpl. rewrite core_set_ds_limit.
    rewrite <- HR. unfold core at 2. rewrite E. simpl.
    destruct s1; simpl in *. subst. destruct f; reflexivity.
  - apply Inv_set_frames_same_len; [simpl; rewrite E; reflexivity | exact I1].
Qed.


Lemma reserve_ds_neutral n l : rel2 (reserve_ds n l) (ret true).
Proof.
  unfold reserve_ds. apply rel2_bind_get_l; intro f.
  eapply rel2_bind_neutral; [apply alloc_call_neutral; discriminate|].
  eapply rel2_bind_neutral; [apply refresh_ds_neutral | apply rel2_ret].
Qed.

Lemma ensure_ds_rel b o n l : rel2 (ensure_ds b o n l) (ensure_ds b o n l).
Proof.
  unfold ensure_ds. apply rel2_bind; [apply rel2_get; intros; reflexivity | intro f].
  apply rel2_bind; [apply note_demand_rel | intro].
  apply rel2_bindU; [apply relU_get | intros l1 l2].
  assert (N : forall c : bool, rel2 (if c then reserve_ds n l else ret true) (ret true)).
  { intros c; destruct c; [apply reserve_ds_neutral | apply rel2_ret]. }
  eapply rel2_trans; [apply N | apply rel2_sym, N].
Qed.

Lemma refresh_ds_rel l : rel2 (refresh_ds l) (refresh_ds l).
Proof. eapply rel2_ret_l, refresh_ds_neutral. Qed.
Lemma alloc_call_rel k n : k <> FS -> rel2 (alloc_call k n) (alloc_call k n).
Proof. intros; eapply rel2_ret_l, alloc_call_neutral; auto. Qed.
Global Hint Resolve refresh_ds_rel ensure_ds_rel : rel_db.
Global Hint Extern 1 (rel2 (reserve_buffer _ _ _) (reserve_buffer _ _ _)) => apply reserve_buffer_rel; discriminate : rel_db.
Global Hint Extern 1 (rel2 (alloc_call _ _) (alloc_call _ _)) => apply alloc_call_rel; discriminate : rel_db.

(* emit_call: the emitter pool is not part of the core; the event carries core data only *)
Lemma emit_call_rel ref kind bytes tag : rel2 (emit_call ref kind bytes tag) (emit_call ref kind bytes tag).
Proof.
  intros s1 s2 HR I1 I2. unfold emit_call.
  destruct (fe_neg_branch s1 I1) as [-> ->], (fe_neg_branch s2 I2) as [-> ->]. simpl.
  assert (nest_id s1 = nest_id s2) as -> by (rewrite <- (nest_id_core s1), <- (nest_id_core s2); unfold R in HR; rewrite HR; reflexivity).
  osplit; auto.
  - unfold R, emitter_emit in *.
    repeat match goal with |- context [if ?b then _ else _] => destruct b end; autorewrite with core_db; auto.
  - unfold emitter_emit. repeat match goal with |- context [if ?b then _ else _] => destruct b end; exact I1.
  - unfold emitter_emit. repeat match goal with |- context [if ?b then _ else _] => destruct b end; exact I2.
Qed.
Global Hint Resolve emit_call_rel : rel_db.

Lemma raise_min_align_rel a : rel2 (raise_min_align a) (raise_min_align a).
Proof. unfold raise_min_align. rel. Qed.
Global Hint Resolve raise_min_align_rel : rel_db.

Lemma push_ds_rel n d : rel2 (push_ds n d) (push_ds n d).
Proof. unfold push_ds. rel. Qed.
Lemma unpush_ds_rel n : rel2 (unpush_ds n) (unpush_ds n).
Proof. unfold unpush_ds. rel. Qed.
Lemma front_pad_rel n a : rel2 (front_pad n a) (front_pad n a).
Proof. unfold front_pad. rel. Qed.
Lemma back_pad_rel a : rel2 (back_pad a) (back_pad a).
Proof. unfold back_pad. rel. Qed.
Lemma emit_front_tag_rel k b t : rel2 (emit_front_tag k b t) (emit_front_tag k b t).
Proof. unfold emit_front_tag. rel. Qed.
Lemma emit_front_rel k b : rel2 (emit_front k b) (emit_front k b).
Proof. apply emit_front_tag_rel. Qed.
Lemma emit_back_tag_rel k b t : rel2 (emit_back_tag k b t) (emit_back_tag k b t).
Proof. unfold emit_back_tag. rel. Qed.
Lemma emit_back_rel k b : rel2 (emit_back k b) (emit_back k b).
Proof. apply emit_back_tag_rel. Qed.
Global Hint Resolve push_ds_rel unpush_ds_rel front_pad_rel back_pad_rel emit_front_rel emit_back_rel emit_front_tag_rel emit_back_tag_rel : rel_db.

(* ------------------------------------------------------------------ enter_frame / exit_frame *)
Definition blocked (s : bstate) : bool := (0 <? max_level s) && (max_level s <? level s + 1).
Definition new_frame (s : bstate) : frame :=
  set_f_ds_offset (ds_offset s) (set_f_align (align s) (set_f_ds_first (ds_first s)
    (set_f_type_limit DATA_LIMIT (set_f_ds_data (ds_data s) frame0)))).
Definition enter_core (a : Z) (s : bstate) : bstate :=
  set_ds_data [] (set_ds_offset 0 (set_ds_first (alignup (u32 (ds_first s + ds_offset s)) 8)
    (set_align a (set_frames (new_frame s :: frames s)
      (set_dem (cap_set FS (zmax (cap_get FS (dem s)) ((level s + 1) * FRAME_SIZE)) (dem s)) (set_level (level s + 1) s)))))).

Lemma FRAME_SIZE_pos : 0 < FRAME_SIZE. Proof. reflexivity. Qed.

Lemma zlen_cons {A} (x : A) l : zlen (x :: l) = zlen l + 1.
Proof. unfold zlen. simpl length. lia. Qed.
Lemma zlen_nonneg {A} (l : list A) : 0 <= zlen l. Proof. unfold zlen; lia. Qed.

Lemma enter_frame_spec a s : Inv s ->
  if blocked s
  then exists t, enter_frame a s = Ret false t [] /\ core t = core (set_level (level s + 1) s) /\ Inv t
  else exists t, enter_frame a s = Ret true t [] /\ core t = core (enter_core a s) /\ Inv t.
Proof.
  intros I. pose proof I as (Hfa & Hfe & Hll & Hml & Hfp & Hlen & Hht).
  pose proof FRAME_SIZE_pos as HFS. pose proof (zlen_nonneg (frames s)) as Hz.
  assert (F1 : (fa s =? 0) = false) by lia. assert (F2 : (0 <? fa s) = false) by lia.
  unfold blocked, enter_frame, frame_slot, note_demand, bind, get, upd, ret, fault, reserve_raw, alloc_call.
  cbn. rewrite ?F1, ?F2. unfold frame_ptr_ok in Hfp.
  destruct ((0 <? max_level s) && (max_level s <? level s + 1)) eqn:E2; cbn.
  - assert (E1 : (limit_level s <? level s + 1) = true) by lia. rewrite E1. cbn.
    eexists; split; [reflexivity|]. split; [reflexivity|].
    unfold Inv, frame_ptr_ok. cbn. destruct (frame_ptr s); osplit; auto; lia.
  - destruct (limit_level s <? level s + 1) eqn:E1; cbn.
    + destruct (c_fs (caps s) <? (level s + 1 - 1) * FRAME_SIZE + FRAME_SIZE) eqn:E3; cbn; rewrite ?F1, ?F2; cbn;
        (eexists; split; [reflexivity|]; split; [reflexivity|]);
        unfold Inv, frame_ptr_ok; cbn; rewrite zlen_cons;
        match goal with |- context [if ?b then _ else _] => destruct b eqn:E6 end;
        osplit; auto; try (unfold FRAME_SIZE in *; lia).
    + destruct (frame_ptr s) as [q|] eqn:Eq; [|lia]. cbn.
      match goal with |- context [if ?b then _ else _] => destruct b eqn:E3 end; [unfold FRAME_SIZE in *; lia|].
      cbn. eexists; split; [reflexivity|]. split; [reflexivity|].
      unfold Inv, frame_ptr_ok. cbn. rewrite zlen_cons. osplit; auto; try (unfold FRAME_SIZE in *; lia).
Qed.

Lemma frames_R s1 s2 : R s1 s2 -> map core_frame (frames s1) = map core_frame (frames s2).
Proof. intros HR. rewrite <- !frames_core. unfold R in HR. rewrite HR. reflexivity. Qed.

Lemma enter_frame_rel a : rel2 (enter_frame a) (enter_frame a).
Proof.
  intros s1 s2 HR I1 I2.
  pose proof (enter_frame_spec a s1 I1) as H1. pose proof (enter_frame_spec a s2 I2) as H2.
  pose proof (frames_R _ _ HR) as Hfr.
  unfold R in HR. ceq HR level. ceq HR max_level. ceq HR ds_offset. ceq HR ds_first. ceq HR align. ceq HR ds_data. ceq HR dem.
  unfold blocked in *. rewrite <- Hc, <- Hc0 in H2.
  destruct ((0 <? max_level s1) && (max_level s1 <? level s1 + 1)).
  - destruct H1 as (t1 & -> & C1 & J1), H2 as (t2 & -> & C2 & J2). simpl. osplit; auto.
    unfold R. rewrite C1, C2. rewrite !core_set_level, HR, Hc. reflexivity.
  - destruct H1 as (t1 & -> & C1 & J1), H2 as (t2 & -> & C2 & J2). simpl. osplit; auto.
    unfold R. rewrite C1, C2. unfold enter_core, new_frame. autorewrite with core_db.
    cbn [map]. rewrite HR, Hc, Hc1, Hc2, Hc3, Hc4, Hc5, Hfr. reflexivity.
Qed.
Global Hint Resolve enter_frame_rel : rel_db.

Lemma relU_top {A} (f g : frame -> A) : relU (top f) (top g).
Proof.
  intros s1 s2 HR I1 I2. unfold top. pose proof (frames_R _ _ HR) as H.
  destruct (frames s1), (frames s2); simpl in H; try discriminate; simpl; auto.
Qed.

Lemma pop_frame_rel : rel2 pop_frame pop_frame.
Proof.
  intros s1 s2 HR I1 I2. unfold pop_frame. pose proof (frames_R _ _ HR) as H.
  destruct (frames s1) eqn:E1, (frames s2) eqn:E2; simpl in H; try discriminate; simpl; auto.
  apply cons_eq_inv in H as [_ H]. unfold R in HR. ceq HR level.
  osplit; auto.
  - unfold R. autorewrite with core_db. rewrite HR, H, Hc. reflexivity.
  - destruct I1 as (? & ? & ? & ? & Hfp & Hl & ?). unfold Inv, frame_ptr_ok in *. cbn. rewrite E1, zlen_cons in *.
    destruct (frame_ptr s1); osplit; auto; lia.
  - destruct I2 as (? & ? & ? & ? & Hfp & Hl & ?). unfold Inv, frame_ptr_ok in *. cbn. rewrite E2, zlen_cons in *.
    destruct (frame_ptr s2); osplit; auto; lia.
Qed.
Global Hint Resolve pop_frame_rel : rel_db.

Lemma refresh_ds_rel2 l1 l2 : rel2 (refresh_ds l1) (refresh_ds l2).
Proof. eapply rel2_trans; [apply refresh_ds_neutral | apply rel2_sym, refresh_ds_neutral]. Qed.

Lemma exit_frame_rel : rel2 exit_frame exit_frame.
Proof.
  unfold exit_frame.
  do 4 (apply rel2_bind; [apply top_core; core_getter | intro]).
  do 3 (apply rel2_bind; [rel | intro]).
  apply rel2_bindU; [apply relU_top | intros t1 t2].
  apply rel2_bind; [apply refresh_ds_rel2 | intro].
  rel.
Qed.
Global Hint Resolve exit_frame_rel : rel_db.

(* ------------------------------------------------------------------ the create_* calls *)
Lemma align_buffer_end_rel a b n : rel2 (align_buffer_end a b n) (align_buffer_end a b n).
Proof. unfold align_buffer_end. rel. Qed.
Global Hint Resolve align_buffer_end_rel : rel_db.
Lemma create_buffer_rel i b r a f : rel2 (create_buffer i b r a f) (create_buffer i b r a f).
Proof. unfold create_buffer. rel. Qed.
Lemma create_struct_rel d a : rel2 (create_struct d a) (create_struct d a).
Proof. unfold create_struct. rel. Qed.
Lemma create_string_rel d : rel2 (create_string d) (create_string d).
Proof. unfold create_string. rel. Qed.
Lemma create_vector_rel d c e a m : rel2 (create_vector d c e a m) (create_vector d c e a m).
Proof. unfold create_vector. rel. Qed.
Lemma create_offset_vector_direct_rel d c : rel2 (create_offset_vector_direct d c) (create_offset_vector_direct d c).
Proof. unfold create_offset_vector_direct. rel. Qed.
Lemma create_vtable_rel v : rel2 (create_vtable v) (create_vtable v).
Proof. unfold create_vtable. rel. Qed.
Lemma create_table_rel d a o v : rel2 (create_table d a o v) (create_table d a o v).
Proof. unfold create_table. rel. Qed.
Global Hint Resolve create_buffer_rel create_struct_rel create_string_rel create_vector_rel
  create_offset_vector_direct_rel create_vtable_rel create_table_rel : rel_db.

(* ------------------------------------------------------------------ the vtable cache *)
(* a call leaves a field alone *)
Definition keeps {A B} (f : bstate -> B) (m : M A) : Prop :=
  forall s, match m s with Ret _ t _ => f t = f s | Fault => True end.
Lemma keeps_ret {A B} (f : bstate -> B) (a : A) : keeps f (ret a).
Proof. intros s; reflexivity. Qed.
Lemma keeps_bind {A B C} (f : bstate -> C) (m : M A) (k : A -> M B) :
  keeps f m -> (forall a, keeps f (k a)) -> keeps f (bind m k).
Proof.
  intros Hm Hk s. unfold bind. specialize (Hm s). destruct (m s) as [a t e|]; auto.
  specialize (Hk a t). destruct (k a t); auto. congruence.
Qed.
Lemma keeps_get {A B} (f : bstate -> B) (g : bstate -> A) : keeps f (get g).
Proof. intros s; reflexivity. Qed.
Lemma keeps_upd {B} (f : bstate -> B) (g : bstate -> bstate) : (forall s, f (g s) = f s) -> keeps f (upd g).
Proof. intros H s; simpl; auto. Qed.
Ltac keeps1 :=
  first
  [ apply keeps_ret | apply keeps_get
  | solve [auto with keeps_db nocore]
  | apply keeps_upd; intros; reflexivity
  | apply keeps_bind; [ | intro ]
  | match goal with |- keeps _ (if ?b then _ else _) => destruct b end
  | match goal with |- keeps _ (match ?x with _ => _ end) => destruct x end ].
Ltac keepsA := repeat keeps1.
Create HintDb keeps_db.

Lemma keeps_alloc_call_ht k n : keeps ht_width (alloc_call k n).
Proof. intros s. unfold alloc_call. destruct (fa s =? 0); [destruct (fa_rep s)|destruct (0 <? fa s)]; reflexivity. Qed.
Lemma keeps_reserve_raw_ht k u n : keeps ht_width (reserve_raw k u n).
Proof. intros s. unfold reserve_raw. destruct (cap_get k (caps s) <? u + n); [apply keeps_alloc_call_ht | reflexivity]. Qed.
Lemma keeps_note_demand_ht k r : keeps ht_width (note_demand k r).
Proof. intros s. unfold note_demand. destruct k; reflexivity. Qed.
Lemma keeps_reserve_buffer_ht k u n : keeps ht_width (reserve_buffer k u n).
Proof. unfold reserve_buffer. apply keeps_bind; [apply keeps_note_demand_ht | intro; apply keeps_reserve_raw_ht]. Qed.
Lemma keeps_emit_call_ht r k b t : keeps ht_width (emit_call r k b t).
Proof.
  intros s. unfold emit_call, emitter_emit.
  destruct (fe s =? 0); [destruct (fe_rep s); reflexivity|].
  repeat match goal with |- context [if ?b then _ else _] => destruct b end; reflexivity.
Qed.
Global Hint Resolve keeps_alloc_call_ht keeps_reserve_buffer_ht keeps_emit_call_ht : keeps_db.
Lemma keeps_emit_front_ht k b t : keeps ht_width (emit_front_tag k b t).
Proof. unfold emit_front_tag. keepsA. Qed.
Lemma keeps_emit_back_ht k b t : keeps ht_width (emit_back_tag k b t).
Proof. unfold emit_back_tag. keepsA. Qed.
Lemma keeps_front_pad_ht n a : keeps ht_width (front_pad n a).
Proof. unfold front_pad. keepsA. Qed.
Global Hint Resolve keeps_emit_front_ht keeps_emit_back_ht keeps_front_pad_ht : keeps_db.
Lemma keeps_create_vtable_ht v : keeps ht_width (create_vtable v).
Proof. unfold create_vtable. keepsA. Qed.
Global Hint Resolve keeps_create_vtable_ht : keeps_db.

(* the invariant while the hash table is known to exist *)
Definition Inv2 (s : bstate) : Prop := Inv s /\ ht_width s <> 0.

Lemma rel2_lift {A} (m1 m2 : M A) : rel2 m1 m2 -> keeps ht_width m1 -> keeps ht_width m2 -> rel2J Inv2 m1 m2.
Proof.
  intros H K1 K2 s1 s2 HR [I1 W1] [I2 W2]. specialize (H s1 s2 HR I1 I2). specialize (K1 s1). specialize (K2 s2).
  destruct (m1 s1), (m2 s2); simpl in *; auto.
  destruct H as (? & ? & ? & ? & ?). unfold Inv2. osplit; auto; congruence.
Qed.

Lemma rel2_unlift {A} (m1 m2 : M A) :
  rel2J Inv2 m1 m2 -> forall s1 s2, R s1 s2 -> Inv2 s1 -> Inv2 s2 -> orel (m1 s1) (m2 s2).
Proof.
  intros H s1 s2 HR I1 I2. specialize (H s1 s2 HR I1 I2).
  destruct (m1 s1), (m2 s2); simpl in *; auto. destruct H as (? & ? & ? & [? _] & [? _]). auto.
Qed.

Lemma Inv2_cache g : (forall s, ht_width (g s) = ht_width s) ->
  (forall s, (fa (g s), fe (g s), limit_level (g s), caps (g s), max_level (g s), frame_ptr (g s), frames (g s), level (g s))
             = (fa s, fe s, limit_level s, caps s, max_level s, frame_ptr s, frames s, level s)) ->
  forall s, Inv2 s -> Inv2 (g s).
Proof.
  intros Hw Hg s [(H1 & H2 & H3 & H4 & H5 & H6 & H7) W]. specialize (Hg s). injection Hg as E1 E2 E3 E4 E5 E6 E7 E8.
  unfold Inv2, Inv, frame_ptr_ok in *. rewrite Hw, E1, E2, E3, E4, E5, E6, E7, E8. osplit; auto. intros; contradiction.
Qed.

Ltac solve_Inv2 := first [ let s := fresh "s" in let H := fresh "H" in intros s H; exact H
                         | apply Inv2_cache; intros; reflexivity ].
Ltac relc1 :=
  first
  [ apply rel2_ret
  | apply rel2_fault
  | solve [apply rel2_lift; [auto with rel_db nocore | auto with keeps_db nocore | auto with keeps_db nocore]]
  | apply rel2_get; core_getter
  | apply rel2_upd; [ solve_R | solve_Inv2 | solve_Inv2 ]
  | apply rel2_bind; [ | intro ]
  | match goal with |- rel2J _ (if ?b then _ else _) (if ?b then _ else _) => destruct b end
  | match goal with |- rel2J _ (match ?x with _ => _ end) (match ?x with _ => _ end) => destruct x end
  ].

Lemma flush_rel2 : rel2J Inv2 flush_vtable_cache flush_vtable_cache.
Proof.
  intros s1 s2 HR J1 J2. pose proof J1 as [I1 W1]. pose proof J2 as [I2 W2]. unfold flush_vtable_cache, bind, get.
  apply Z.eqb_neq in W1, W2. rewrite W1, W2. unfold upd. cbn [orelJ app].
  split; [reflexivity|]. split; [reflexivity|]. split; [|split].
  - unfold R in *. autorewrite with core_db. rewrite HR. reflexivity.
  - apply (Inv2_cache (fun s => set_vb_end 0 (set_vd_end VD_SIZE (set_vcache [] s)))); [reflexivity | reflexivity | exact J1].
  - apply (Inv2_cache (fun s => set_vb_end 0 (set_vd_end VD_SIZE (set_vcache [] s)))); [reflexivity | reflexivity | exact J2].
Qed.

Lemma ccv_rest_rel fixed vt : rel2J Inv2 (ccv_rest fixed vt) (ccv_rest fixed vt).
Proof.
  unfold ccv_rest.
  apply rel2_bind; [relc1 | intro nid]. apply rel2_bind; [relc1 | intro vc].
  destruct (find_exact vt nid vc); [relc1|].
  (* vd_end is not part of the core *)
  apply rel2_bindU; [apply relU_get | intros ve1 ve2].
  apply rel2_bind.
  { eapply rel2_trans; [| apply rel2_sym]; apply rel2_lift; try apply reserve_buffer_neutral_vd; auto with keeps_db; apply keeps_ret. }
  intros r. destruct (negb r); [relc1|].
  apply rel2_bind.
  { apply rel2_upd; [intros ? ? ?; unfold R in *; autorewrite with core_db; auto | solve_Inv2 | solve_Inv2]. }
  intros _. apply rel2_bind; [relc1 | intro ref].
  destruct (ref =? 0); [relc1|].
  destruct (find_copy vt vc).
  { repeat relc1. }
  apply rel2_bind; [relc1 | intro lim]. apply rel2_bind; [relc1 | intro vbe].
  destruct (negb (lim =? 0) && (lim <? vbe + zlen vt)).
  { apply rel2_bind; [apply flush_rel2 | intro; relc1]. }
  apply rel2_bind.
  { apply rel2_lift; [apply reserve_buffer_rel; discriminate | auto with keeps_db | auto with keeps_db]. }
  intros r2. repeat relc1.
Qed.

Lemma log2_ht c : Z.log2 ((if (256 <=? c) && (256 <=? c / 2) then c else 256) / 4) <> 0.
Proof.
  destruct ((256 <=? c) && (256 <=? c / 2)) eqn:E2.
  - assert (64 <= c / 4) by lia. pose proof (Z.log2_le_mono 64 (c / 4) H). change (Z.log2 64) with 6 in H0. lia.
  - change (256 / 4) with 64. change (Z.log2 64) with 6. lia.
Qed.

Lemma ensure_ht_spec s : Inv s ->
  exists t, ensure_ht s = Ret true t [] /\ core t = core s /\ Inv2 t.
Proof.
  intros I. pose proof I as (Hfa & Hfe & Hll & Hml & Hfp & Hlen & Hht).
  unfold ensure_ht, bind, get. destruct (ht_width s =? 0) eqn:E.
  - unfold alloc_ht, bind, get, upd, ret, reserve_buffer, reserve_raw, note_demand, alloc_call. cbn.
    assert (F1 : (fa s =? 0) = false) by lia. assert (F2 : (0 <? fa s) = false) by lia.
    apply Z.eqb_eq in E. destruct (Hht E) as [Hvc Hvb].
    destruct (c_vd (caps s) <? vd_end s + VD_SIZE) eqn:E1; cbn; rewrite ?F1, ?F2; cbn; rewrite ?F1, ?F2; cbn;
      (eexists; split; [reflexivity|]; split; [reflexivity|]);
      unfold Inv2, Inv, frame_ptr_ok; cbn; osplit; auto;
      unfold default_alloc; change (FIELD_SIZE * MIN_HASH_COUNT) with 256; change FIELD_SIZE with 4; cbn [Z.eqb]; apply log2_ht.
  - eexists; split; [reflexivity|]. split; [reflexivity|]. split; auto. apply Z.eqb_neq; auto.
Qed.

Lemma create_cached_vtable_rel fixed vt : rel2 (create_cached_vtable fixed vt) (create_cached_vtable fixed vt).
Proof.
  intros s1 s2 HR I1 I2. unfold create_cached_vtable, bind.
  destruct (ensure_ht_spec s1 I1) as (t1 & -> & C1 & J1), (ensure_ht_spec s2 I2) as (t2 & -> & C2 & J2).
  cbn [negb]. 
  assert (HR' : R t1 t2) by (unfold R in *; congruence).
  pose proof (rel2_unlift _ _ (ccv_rest_rel fixed vt) t1 t2 HR' J1 J2) as H.
  destruct (ccv_rest fixed vt t1), (ccv_rest fixed vt t2); simpl in *; auto.
Qed.
Global Hint Resolve create_cached_vtable_rel : rel_db.

(* ------------------------------------------------------------------ the remaining API calls *)
Lemma expect_type_rel t : rel2 (expect_type t) (expect_type t).
Proof. unfold expect_type. rel. Qed.
Global Hint Resolve expect_type_rel : rel_db.

Lemma start_buffer_rel i b f : rel2 (start_buffer i b f) (start_buffer i b f).
Proof. unfold start_buffer. rel. Qed.
Lemma end_buffer_rel fx r : rel2 (end_buffer fx r) (end_buffer fx r).
Proof. unfold end_buffer. rel. Qed.
Lemma start_struct_rel a d : rel2 (start_struct a d) (start_struct a d).
Proof. unfold start_struct. rel. Qed.
Lemma end_struct_rel : rel2 end_struct end_struct.
Proof. unfold end_struct. rel. Qed.
Lemma reserve_fields_rel c : rel2 (reserve_fields c) (reserve_fields c).
Proof. unfold reserve_fields. rel. Qed.
Global Hint Resolve reserve_fields_rel : rel_db.
Lemma start_table_rel c : rel2 (start_table c) (start_table c).
Proof. unfold start_table. rel. Qed.
Lemma table_add_rel i n a d : rel2 (table_add i n a d) (table_add i n a d).
Proof. unfold table_add. rel. Qed.
Lemma table_add_offset_rel i r : rel2 (table_add_offset i r) (table_add_offset i r).
Proof. unfold table_add_offset. rel. Qed.
Lemma end_table_rel fx : rel2 (end_table fx) (end_table fx).
Proof. unfold end_table. rel. Qed.
Lemma vector_count_add_rel c m : rel2 (vector_count_add c m) (vector_count_add c m).
Proof. unfold vector_count_add. rel. Qed.
Global Hint Resolve vector_count_add_rel : rel_db.
Lemma start_vector_rel e a m : rel2 (start_vector e a m) (start_vector e a m).
Proof. unfold start_vector. rel. Qed.
Lemma extend_vector_rel c d : rel2 (extend_vector c d) (extend_vector c d).
Proof. unfold extend_vector. rel. Qed.
Lemma truncate_vector_rel c : rel2 (truncate_vector c) (truncate_vector c).
Proof. unfold truncate_vector. rel. Qed.
Lemma end_vector_rel : rel2 end_vector end_vector.
Proof. unfold end_vector. rel. Qed.
Lemma start_offset_vector_rel : rel2 start_offset_vector start_offset_vector.
Proof. unfold start_offset_vector. rel. Qed.
Lemma extend_offset_vector_rel r : rel2 (extend_offset_vector r) (extend_offset_vector r).
Proof. unfold extend_offset_vector. rel. Qed.
Lemma truncate_offset_vector_rel c : rel2 (truncate_offset_vector c) (truncate_offset_vector c).
Proof. unfold truncate_offset_vector. rel. Qed.
Lemma end_offset_vector_rel : rel2 end_offset_vector end_offset_vector.
Proof. unfold end_offset_vector. rel. Qed.
Lemma start_string_rel : rel2 start_string start_string.
Proof. unfold start_string. rel. Qed.
Lemma append_string_rel d : rel2 (append_string d) (append_string d).
Proof. unfold append_string. rel. Qed.
Lemma truncate_string_rel n : rel2 (truncate_string n) (truncate_string n).
Proof. unfold truncate_string. rel. Qed.
Lemma end_string_rel : rel2 end_string end_string.
Proof. unfold end_string. rel. Qed.
Lemma enter_user_frame_rel n : rel2 (enter_user_frame n) (enter_user_frame n).
Proof. unfold enter_user_frame. rel. Qed.
Lemma exit_user_frame_rel : rel2 exit_user_frame exit_user_frame.
Proof. unfold exit_user_frame. rel. Qed.
Global Hint Resolve exit_user_frame_rel : rel_db.
Lemma exit_user_frame_at_rel h : rel2 (exit_user_frame_at h) (exit_user_frame_at h).
Proof. unfold exit_user_frame_at. rel. Qed.
Lemma push_buffer_alignment_rel : rel2 push_buffer_alignment push_buffer_alignment.
Proof. unfold push_buffer_alignment. rel. Qed.
Lemma pop_buffer_alignment_rel a : rel2 (pop_buffer_alignment a) (pop_buffer_alignment a).
Proof. unfold pop_buffer_alignment. rel. Qed.

Lemma flush_cleared s : vcache s = [] -> vb_end s = 0 -> set_vb_end 0 (set_vcache [] (core s)) = core s.
Proof. destruct s; simpl; intros -> ->; reflexivity. Qed.

Lemma flush_vtable_cache_rel : rel2 flush_vtable_cache flush_vtable_cache.
Proof.
  intros s1 s2 HR I1 I2. unfold flush_vtable_cache, bind, get, upd, ret.
  pose proof I1 as (_ & _ & _ & _ & _ & _ & H1). pose proof I2 as (_ & _ & _ & _ & _ & _ & H2).
  assert (K : forall s, Inv s -> Inv (set_vb_end 0 (set_vd_end VD_SIZE (set_vcache [] s)))).
  { intros s (? & ? & ? & ? & ? & ? & ?). unfold Inv, frame_ptr_ok in *. cbn. osplit; auto. }
  unfold R in *.
  destruct (ht_width s1 =? 0) eqn:E1, (ht_width s2 =? 0) eqn:E2; cbn [orelJ app]; osplit; auto.
  - (* s1 has no hash table yet, s2 flushes *)
    unfold R. apply Z.eqb_eq in E1. destruct (H1 E1). autorewrite with core_db. rewrite <- HR. symmetry. apply flush_cleared; auto.
  - unfold R. apply Z.eqb_eq in E2. destruct (H2 E2). autorewrite with core_db. rewrite HR. apply flush_cleared; auto.
  - unfold R. autorewrite with core_db. rewrite HR. reflexivity.
Qed.

Lemma set_max_level_op_rel ml : rel2 (set_max_level_op true ml) (set_max_level_op true ml).
Proof.
  intros s1 s2 HR I1 I2. unfold set_max_level_op, bind, get, upd, ret. cbn [limit_level set_max_level].
  assert (K : forall s, Inv s ->
     Inv (if (0 <? ml) && (ml <? limit_level s) then set_limit_level ml (set_max_level ml s) else set_max_level ml s)).
  { intros s (? & ? & ? & ? & Hp & ? & ?). pose proof FRAME_SIZE_pos.
    destruct ((0 <? ml) && (ml <? limit_level s)) eqn:E; unfold Inv, frame_ptr_ok in *; cbn;
      destruct (frame_ptr s); osplit; auto; try (unfold FRAME_SIZE in *; lia). }
  pose proof (K s1 I1). pose proof (K s2 I2).
  destruct ((0 <? ml) && (ml <? limit_level s1)), ((0 <? ml) && (ml <? limit_level s2)); cbn [orelJ app]; osplit; auto;
    unfold R in *; autorewrite with core_db; rewrite HR; reflexivity.
Qed.

(* ------------------------------------------------------------------ custom_reset (repaired) = init on the core *)
Definition fresh_like (set_defaults : bool) (s : bstate) : bstate :=
  if set_defaults then st_init
  else set_vb_flush_limit (vb_flush_limit s) (set_max_level (max_level s)
         (set_disable_vt_clustering (disable_vt_clustering s) st_init)).

Lemma Inv_fresh_like d s : Inv (fresh_like d s).
Proof. unfold fresh_like. destruct d; unfold Inv, frame_ptr_ok; cbn; osplit; auto; try lia; unfold zlen; simpl; lia. Qed.

Lemma set_caps_set_caps c c' s : set_caps c' (set_caps c s) = set_caps c' s.
Proof. reflexivity. Qed.

Lemma reset_buffers_spec ks r s : fa s < 0 -> exists c, reset_buffers ks r s = Ret true (set_caps c s) [].
Proof.
  intros Hfa. revert s Hfa. induction ks as [|k ks IH]; intros s Hfa.
  - exists (caps s). destruct s; reflexivity.
  - cbn [reset_buffers]. unfold bind at 1. unfold get at 1.
    destruct (negb (cap_get k (caps s) =? 0) && r && match k with HT => false | _ => true end).
    + unfold bind at 1. unfold alloc_call.
      assert (F1 : (fa s =? 0) = false) by lia. assert (F2 : (0 <? fa s) = false) by lia. rewrite F1, F2.
      destruct (IH (set_caps (cap_set k (default_alloc k (cap_get k (caps s)) 1) (caps s)) s) Hfa) as (c & ->).
      exists c. reflexivity.
    + unfold bind at 1. unfold ret at 1. destruct (IH s Hfa) as (c & ->). exists c. reflexivity.
Qed.

Lemma core_emitter_reset s : core (emitter_reset s) = core s.
Proof. unfold emitter_reset. destruct (e_cap s =? 0); reflexivity. Qed.

Lemma reset_spec d r s : fa s < 0 -> fe s < 0 ->
  exists t, custom_reset true d r s = Ret 0 t [] /\ core t = core (fresh_like d s) /\ Inv t.
Proof.
  intros Hfa Hfe. unfold custom_reset. unfold bind at 1.
  destruct (reset_buffers_spec all_kinds r s Hfa) as (c & ->). cbn [negb].
  unfold bind, upd, get, ret. cbn.
  destruct (0 <? vd_end s); destruct d; cbn;
    (eexists; split; [reflexivity|]; split; [rewrite core_emitter_reset; reflexivity|]);
    unfold emitter_reset; match goal with |- context [if ?b then _ else _] => destruct b end;
    unfold Inv, frame_ptr_ok; cbn; osplit; auto; try lia; unfold zlen; simpl; lia.
Qed.

Lemma clear_init_rel : rel2 clear_init clear_init.
Proof.
  intros s1 s2 HR (F1 & E1 & _) (F2 & E2 & _). unfold clear_init, bind, get, upd, ret. cbn [orelJ app].
  osplit; auto; try reflexivity; unfold Inv, frame_ptr_ok; cbn; osplit; auto; try lia; unfold zlen; simpl; lia.
Qed.

Lemma custom_reset_rel d r : rel2 (custom_reset true d r) (custom_reset true d r).
Proof.
  intros s1 s2 HR I1 I2. pose proof I1 as (F1 & E1 & _). pose proof I2 as (F2 & E2 & _).
  destruct (reset_spec d r s1 F1 E1) as (t1 & -> & C1 & J1), (reset_spec d r s2 F2 E2) as (t2 & -> & C2 & J2).
  cbn [orelJ]. osplit; auto. unfold R in *. rewrite C1, C2. unfold fresh_like. destruct d; [reflexivity|].
  ceq HR vb_flush_limit. ceq HR max_level. ceq HR disable_vt_clustering. rewrite Hc, Hc0, Hc1. reflexivity.
Qed.

(* ------------------------------------------------------------------ every API call *)
Lemma setting_rel (g : bstate -> bstate) :
  (forall s1 s2, R s1 s2 -> R (g s1) (g s2)) -> (forall s, Inv s -> Inv (g s)) -> rel2 (upd g ;;; ret 0) (upd g ;;; ret 0).
Proof. intros H1 H2. apply rel2_bind; [apply rel2_upd; auto | intro; apply rel2_ret]. Qed.

Theorem step_respects o : rel2 (step true o) (step true o).
Proof.
  destruct o; cbn [step].
  - apply start_buffer_rel.
  - apply end_buffer_rel.
  - apply create_buffer_rel.
  - apply start_struct_rel.
  - apply end_struct_rel.
  - apply create_struct_rel.
  - apply start_table_rel.
  - apply table_add_rel.
  - apply table_add_offset_rel.
  - apply end_table_rel.
  - apply start_vector_rel.
  - apply extend_vector_rel.
  - apply truncate_vector_rel.
  - apply end_vector_rel.
  - apply create_vector_rel.
  - apply start_offset_vector_rel.
  - apply extend_offset_vector_rel.
  - apply truncate_offset_vector_rel.
  - apply end_offset_vector_rel.
  - apply start_string_rel.
  - apply append_string_rel.
  - apply truncate_string_rel.
  - apply end_string_rel.
  - apply create_string_rel.
  - apply enter_user_frame_rel.
  - apply exit_user_frame_rel.
  - apply exit_user_frame_at_rel.
  - apply setting_rel; [solve_R | solve_Inv].
  - apply set_max_level_op_rel.
  - apply setting_rel; [solve_R | solve_Inv].
  - apply setting_rel; [solve_R | solve_Inv].
  - apply rel2_bind; [apply flush_vtable_cache_rel | intro; apply rel2_ret].
  - apply push_buffer_alignment_rel.
  - apply pop_buffer_alignment_rel.
  - apply custom_reset_rel.
  - apply clear_init_rel.
Qed.

Definition run_rel (o1 o2 : option (list Z * list event * bstate)) : Prop :=
  match o1, o2 with
  | Some (r1, e1, t1), Some (r2, e2, t2) => r1 = r2 /\ e1 = e2 /\ R t1 t2 /\ Inv t1 /\ Inv t2
  | None, None => True
  | _, _ => False
  end.

Theorem run_respects ops : forall s1 s2, R s1 s2 -> Inv s1 -> Inv s2 -> run_rel (run true ops s1) (run true ops s2).
Proof.
  induction ops as [|o ops IH]; intros s1 s2 HR I1 I2.
  - simpl. auto.
  - cbn [run]. pose proof (step_respects o s1 s2 HR I1 I2) as H.
    destruct (step true o s1) as [a1 t1 e1|], (step true o s2) as [a2 t2 e2|]; simpl in H; try contradiction; [|exact I].
    destruct H as (-> & -> & HR' & I1' & I2'). specialize (IH t1 t2 HR' I1' I2').
    destruct (run true ops t1) as [[[r1 ev1] u1]|], (run true ops t2) as [[[r2 ev2] u2]|]; simpl in *; try contradiction; [|exact I].
    destruct IH as (-> & -> & ? & ? & ?). auto.
Qed.

(* ------------------------------------------------------------------ footprint *)
Definition G (k : bk) (r : Z) : Z := Z.max (alloc_min k) (2 * r).
Lemma G_mono k r1 r2 : r1 <= r2 -> G k r1 <= G k r2. Proof. unfold G; lia. Qed.
Lemma G_min k r : alloc_min k <= G k r. Proof. unfold G; lia. Qed.

Lemma alloc_min_pos k : k <> HT -> 0 < alloc_min k.
Proof. destruct k; intros; try congruence; reflexivity. Qed.

Lemma grow_bound fuel : forall n req, 0 < n -> grow fuel n req <= Z.max n (2 * req).
Proof.
  induction fuel as [|f IH]; intros n req Hn; cbn [grow]; [lia|].
  destruct (n <? req) eqn:E; [|lia]. specialize (IH (2 * n) req). lia.
Qed.

Lemma default_alloc_bound k cap req : k <> HT -> default_alloc k cap req <= Z.max cap (G k req).
Proof.
  intros Hk. pose proof (alloc_min_pos k Hk) as Hm. unfold default_alloc, G.
  destruct (req =? 0) eqn:E0; [lia|].
  assert (Hg : grow 64 (alloc_min k) req <= Z.max (alloc_min k) (2 * req)) by (apply grow_bound; auto).
  destruct k; try congruence;
    match goal with |- context [if ?b then _ else _] => destruct b end; lia.
Qed.

Definition FP (c0 : capt) (s : bstate) : Prop :=
  forall k, k <> HT -> k <> VD -> cap_get k (caps s) <= Z.max (cap_get k c0) (G k (cap_get k (dem s))).

Definition pres (P : bstate -> Prop) {A} (m : M A) : Prop :=
  forall s, P s -> match m s with Ret _ t _ => P t | Fault => True end.
Lemma pres_ret P {A} (a : A) : pres P (ret a). Proof. intros s H; exact H. Qed.
Lemma pres_fault P {A} : pres P (@fault A). Proof. intros s H; exact I. Qed.
Lemma pres_get P {A} (f : bstate -> A) : pres P (get f). Proof. intros s H; exact H. Qed.
Lemma pres_upd (P : bstate -> Prop) g : (forall s, P s -> P (g s)) -> pres P (upd g). Proof. intros H s Hs; simpl; auto. Qed.
Lemma pres_bind P {A B} (m : M A) (k : A -> M B) : pres P m -> (forall a, pres P (k a)) -> pres P (bind m k).
Proof.
  intros Hm Hk s Hs. unfold bind. specialize (Hm s Hs). destruct (m s) as [a t e|]; auto.
  specialize (Hk a t Hm). destruct (k a t); auto.
Qed.
Lemma pres_top P {A} (f : frame -> A) : pres P (top f).
Proof. intros s H. unfold top. destruct (frames s); auto. Qed.

Create HintDb pres_db.
Ltac pres1 :=
  first
  [ apply pres_ret | apply pres_fault | apply pres_get | apply pres_top
  | solve [auto with pres_db nocore]
  | apply pres_upd; (let s := fresh "s" in let H := fresh "H" in intros s H; exact H)
  | apply pres_bind; [ | intro ]
  | match goal with |- pres _ (if ?b then _ else _) => destruct b end
  | match goal with |- pres _ (match ?x with _ => _ end) => destruct x end
  | match goal with |- pres _ (let '(_, _) := ?x in _) => destruct x end ].
Ltac presA := repeat pres1.

Section FootprintOps.
Variable c0 : capt.
Notation P := (FP c0).

Lemma cap_get_set_same k v c : cap_get k (cap_set k v c) = v.
Proof. destruct k; reflexivity. Qed.
Lemma cap_get_set_other k k' v c : k <> k' -> cap_get k (cap_set k' v c) = cap_get k c.
Proof. destruct k, k'; intros; try congruence; reflexivity. Qed.

Lemma zmax_ge_l a b : a <= zmax a b. Proof. unfold zmax. destruct (a <? b) eqn:E; lia. Qed.
Lemma zmax_ge_r a b : b <= zmax a b. Proof. unfold zmax. destruct (a <? b) eqn:E; lia. Qed.

(* noting a demand keeps the bound *)
Lemma FP_note k r s : P s -> P (set_dem (cap_set k (zmax (cap_get k (dem s)) r) (dem s)) s).
Proof.
  intros H k' H1 H2. specialize (H k' H1 H2). cbn [caps dem set_dem].
  destruct (bk_eq_dec k' k) as [->|Hne].
  - rewrite cap_get_set_same. pose proof (G_mono k _ _ (zmax_ge_l (cap_get k (dem s)) r)). lia.
  - rewrite cap_get_set_other; auto.
Qed.

Lemma pres_note_demand k r : pres P (note_demand k r).
Proof. unfold note_demand. destruct k; try apply pres_ret; apply pres_upd; intros; apply FP_note; auto. Qed.

(* an allocator call for a request that has been noted *)
Lemma pres_alloc_noted k req : pres (fun s => P s /\ (k <> HT -> k <> VD -> req <= cap_get k (dem s))) (alloc_call k req).
Proof.
  intros s [H Hr]. unfold alloc_call.
  destruct (fa s =? 0); [destruct (fa_rep s); split; auto|].
  assert (K : P (set_caps (cap_set k (default_alloc k (cap_get k (caps s)) req) (caps s)) s)).
  { intros k' H1 H2. specialize (H k' H1 H2). cbn [caps dem set_caps].
    destruct (bk_eq_dec k' k) as [->|Hne].
    - rewrite cap_get_set_same. pose proof (default_alloc_bound k (cap_get k (caps s)) req H1).
      pose proof (G_mono k _ _ (Hr H1 H2)). lia.
    - rewrite cap_get_set_other; auto. }
  destruct (0 <? fa s); split; auto.
Qed.
End FootprintOps.

Section FootprintOps2.
Variable c0 : capt.
Notation P := (FP c0).

Lemma pres_weaken_alloc k req s : P s -> (k <> HT -> k <> VD -> req <= cap_get k (dem s)) ->
  match alloc_call k req s with Ret _ t _ => P t | Fault => True end.
Proof.
  intros H Hr. pose proof (pres_alloc_noted c0 k req s (conj H Hr)) as K.
  destruct (alloc_call k req s); auto. destruct K; auto.
Qed.

Lemma pres_reserve_buffer k u n : pres P (reserve_buffer k u n).
Proof.
  intros s H. unfold reserve_buffer, bind.
  pose proof (pres_note_demand c0 k (u + n) s H) as H1.
  destruct (note_demand k (u + n) s) as [[] t e|] eqn:E; auto.
  assert (Hd : k <> HT -> k <> VD -> u + n <= cap_get k (dem t)).
  { intros. unfold note_demand in E. destruct k; try congruence; unfold upd in E; injection E as <- _;
      cbn; apply zmax_ge_r. }
  unfold reserve_raw. destruct (cap_get k (caps t) <? u + n).
  - pose proof (pres_weaken_alloc k (u + n) t H1 Hd) as K. destruct (alloc_call k (u + n) t); auto.
  - exact H1.
Qed.

Lemma pres_refresh_ds l : pres P (refresh_ds l).
Proof.
  unfold refresh_ds. apply pres_bind; [apply pres_get | intro]. apply pres_bind; [apply pres_get | intro].
  apply pres_bind; [apply pres_upd; intros s H; exact H | intro].
  intros s H. unfold set_top_nf. destruct (frames s); exact H.
Qed.

Lemma pres_ensure_ds b o n l : pres P (ensure_ds b o n l).
Proof.
  intros s H. unfold ensure_ds, bind, get.
  pose proof (pres_note_demand c0 DS (ds_first s + n) s H) as H1.
  destruct (note_demand DS (ds_first s + n) s) as [[] t e|] eqn:E; auto.
  assert (Hd : ds_first t + n <= cap_get DS (dem t) /\ ds_first t = ds_first s).
  { unfold note_demand, upd in E. injection E as <- _. cbn. split; auto. apply zmax_ge_r. }
  destruct Hd as [Hd Hf].
  destruct (if b then ds_limit t <? o else ds_limit t <=? o).
  - unfold reserve_ds, bind, get.
    pose proof (pres_weaken_alloc DS (ds_first t + n) t H1 (fun _ _ => Hd)) as K.
    destruct (alloc_call DS (ds_first t + n) t) as [[] t2 e2|]; auto.
    + pose proof (pres_refresh_ds l t2 K). destruct (refresh_ds l t2); auto.
  - exact H1.
Qed.

Lemma pres_frame_slot lv : pres P (frame_slot lv).
Proof.
  intros s H. unfold frame_slot, bind, get.
  destruct ((0 <? max_level s) && (max_level s <? lv)) eqn:Eb.
  - cbn [ret]. destruct (limit_level s <? lv); [exact H|].
    destruct (frame_ptr s) as [q|]; [|exact I].
    destruct ((q + FRAME_SIZE <? 0) || (c_fs (caps s) <? q + 2 * FRAME_SIZE)); [exact I | exact H].
  - pose proof (pres_note_demand c0 FS (lv * FRAME_SIZE) s H) as H1.
    unfold note_demand, upd in *. cbn [limit_level max_level set_dem frame_ptr caps] in *.
    set (t := set_dem (cap_set FS (zmax (cap_get FS (dem s)) (lv * FRAME_SIZE)) (dem s)) s) in *.
    destruct (limit_level s <? lv).
    + unfold reserve_raw.
      assert (Hd : (lv - 1) * FRAME_SIZE + FRAME_SIZE <= cap_get FS (dem t)).
      { subst t. cbn. pose proof (zmax_ge_r (c_fs (dem s)) (lv * FRAME_SIZE)). lia. }
      destruct (cap_get FS (caps t) <? (lv - 1) * FRAME_SIZE + FRAME_SIZE).
      * pose proof (pres_weaken_alloc FS _ t H1 (fun _ _ => Hd)) as K.
        destruct (alloc_call FS ((lv - 1) * FRAME_SIZE + FRAME_SIZE) t) as [a t2 e2|]; [|exact I].
        destruct a; cbn; exact K.
      * cbn. exact H1.
    + change (frame_ptr t) with (frame_ptr s). change (caps t) with (caps s).
      destruct (frame_ptr s) as [q|]; [|exact I].
      destruct ((q + FRAME_SIZE <? 0) || (c_fs (caps s) <? q + 2 * FRAME_SIZE)); [exact I | cbn; exact H1].
Qed.

Lemma pres_alloc_ht : pres P alloc_ht.
Proof.
  unfold alloc_ht. apply pres_bind; [apply pres_get | intro]. apply pres_bind; [apply pres_reserve_buffer | intro r].
  destruct (negb r); [apply pres_ret|]. apply pres_bind; [apply pres_upd; intros s H; exact H | intro].
  apply pres_bind.
  - intros s H. apply pres_weaken_alloc; auto. intros; congruence.
  - intros r2. destruct (negb r2); [apply pres_ret|]. apply pres_bind; [apply pres_get | intro].
    apply pres_bind; [apply pres_upd; intros s H; exact H | intro; apply pres_ret].
Qed.

Lemma pres_emit_call r k b t : pres P (emit_call r k b t).
Proof.
  intros s H. unfold emit_call. destruct (fe s =? 0); [destruct (fe_rep s); exact H|].
  unfold emitter_emit. repeat match goal with |- context [if ?b then _ else _] => destruct b end; exact H.
Qed.

Lemma pres_set_top g : pres P (set_top g).
Proof. intros s H. unfold set_top. destruct (frames s); [exact I | exact H]. Qed.
Lemma pres_pop_frame : pres P pop_frame.
Proof. intros s H. unfold pop_frame. destruct (frames s); [exact I | exact H]. Qed.
End FootprintOps2.
Global Hint Resolve pres_reserve_buffer pres_refresh_ds pres_ensure_ds pres_frame_slot pres_alloc_ht pres_emit_call pres_set_top
  pres_pop_frame pres_note_demand : pres_db.

Section FootprintOps3.
Variable c0 : capt.
Notation P := (FP c0).
Ltac u f := solve [unfold f; presA].
Lemma pres_raise_min_align a : pres P (raise_min_align a). Proof. u raise_min_align. Qed.
Lemma pres_expect_type t : pres P (expect_type t). Proof. u expect_type. Qed.
Lemma pres_push_ds n d : pres P (push_ds n d). Proof. u push_ds. Qed.
Lemma pres_unpush_ds n : pres P (unpush_ds n). Proof. u unpush_ds. Qed.
Lemma pres_enter_frame a : pres P (enter_frame a). Proof. u enter_frame. Qed.
Hint Resolve pres_raise_min_align pres_expect_type pres_push_ds pres_unpush_ds pres_enter_frame : pres_db.
Lemma pres_exit_frame : pres P exit_frame. Proof. u exit_frame. Qed.
Lemma pres_front_pad n a : pres P (front_pad n a). Proof. u front_pad. Qed.
Lemma pres_back_pad a : pres P (back_pad a). Proof. u back_pad. Qed.
Lemma pres_emit_front_tag k b t : pres P (emit_front_tag k b t). Proof. u emit_front_tag. Qed.
Lemma pres_emit_back_tag k b t : pres P (emit_back_tag k b t). Proof. u emit_back_tag. Qed.
Lemma pres_emit_front k b : pres P (emit_front k b). Proof. apply pres_emit_front_tag. Qed.
Lemma pres_emit_back k b : pres P (emit_back k b). Proof. apply pres_emit_back_tag. Qed.
Hint Resolve pres_exit_frame pres_front_pad pres_back_pad pres_emit_front pres_emit_back pres_emit_front_tag pres_emit_back_tag : pres_db.
Lemma pres_align_buffer_end a b n : pres P (align_buffer_end a b n). Proof. u align_buffer_end. Qed.
Hint Resolve pres_align_buffer_end : pres_db.
Lemma pres_create_buffer i b r a f : pres P (create_buffer i b r a f). Proof. u create_buffer. Qed.
Lemma pres_create_struct d a : pres P (create_struct d a). Proof. u create_struct. Qed.
Lemma pres_create_string d : pres P (create_string d). Proof. u create_string. Qed.
Lemma pres_create_vector d c e a m : pres P (create_vector d c e a m). Proof. u create_vector. Qed.
Lemma pres_create_offset_vector_direct d c : pres P (create_offset_vector_direct d c). Proof. u create_offset_vector_direct. Qed.
Lemma pres_create_vtable v : pres P (create_vtable v). Proof. u create_vtable. Qed.
Lemma pres_create_table d a o v : pres P (create_table d a o v). Proof. u create_table. Qed.
Lemma pres_flush : pres P flush_vtable_cache. Proof. u flush_vtable_cache. Qed.
Hint Resolve pres_create_buffer pres_create_struct pres_create_string pres_create_vector pres_create_offset_vector_direct
  pres_create_vtable pres_create_table pres_flush : pres_db.
Lemma pres_ensure_ht : pres P ensure_ht. Proof. u ensure_ht. Qed.
Hint Resolve pres_ensure_ht : pres_db.
Lemma pres_ccv_rest fx v : pres P (ccv_rest fx v). Proof. u ccv_rest. Qed.
Hint Resolve pres_ccv_rest : pres_db.
Lemma pres_create_cached_vtable fx v : pres P (create_cached_vtable fx v). Proof. u create_cached_vtable. Qed.
Lemma pres_reserve_fields c : pres P (reserve_fields c). Proof. u reserve_fields. Qed.
Lemma pres_vector_count_add c m : pres P (vector_count_add c m). Proof. u vector_count_add. Qed.
Hint Resolve pres_create_cached_vtable pres_reserve_fields pres_vector_count_add : pres_db.
Lemma pres_exit_user_frame : pres P exit_user_frame. Proof. u exit_user_frame. Qed.
Hint Resolve pres_exit_user_frame : pres_db.

Definition is_reset (o : op) : bool := match o with OReset _ _ | OClear => true | _ => false end.

Lemma pres_step o : is_reset o = false -> pres P (step true o).
Proof.
  destruct o; cbn [is_reset step]; intros E; try discriminate;
  first [ u start_buffer | u end_buffer | u start_struct | u end_struct | u start_table | u table_add | u table_add_offset | u end_table
        | u start_vector | u extend_vector | u truncate_vector | u end_vector | u start_offset_vector | u extend_offset_vector
        | u truncate_offset_vector | u end_offset_vector | u start_string | u append_string | u truncate_string | u end_string
        | u enter_user_frame | u exit_user_frame_at | u set_max_level_op | u push_buffer_alignment | u pop_buffer_alignment
        | presA ].
Qed.
End FootprintOps3.

(* ------------------------------------------------------------------ whole builds and histories *)
Definition no_reset (ops : list op) : Prop := Forall (fun o => is_reset o = false) ops.

Lemma footprint_build c0 ops : no_reset ops -> forall s rs es t, FP c0 s -> run true ops s = Some (rs, es, t) -> FP c0 t.
Proof.
  induction 1 as [|o ops Ho Hops IH]; intros s rs es t HP Hr.
  - simpl in Hr. injection Hr as _ _ <-. exact HP.
  - cbn [run] in Hr. pose proof (pres_step c0 o Ho s HP) as K.
    destruct (step true o s) as [a s1 e1|]; [|discriminate].
    destruct (run true ops s1) as [[[rs' es'] t']|] eqn:E; [|discriminate].
    injection Hr as _ _ <-. eapply IH; eauto.
Qed.

Lemma FP_self s : FP (caps s) s.
Proof. intros k _ _. lia. Qed.

(* what custom_reset does to the capacities *)
Lemma reset_buffers_caps ks r s : fa s < 0 ->
  exists c, reset_buffers ks r s = Ret true (set_caps c s) [] /\
            forall k, k <> HT -> cap_get k c <= Z.max (cap_get k (caps s)) (alloc_min k).
Proof.
  intros Hfa. revert s Hfa. induction ks as [|k ks IH]; intros s Hfa.
  - exists (caps s). split; [destruct s; reflexivity | intros; lia].
  - cbn [reset_buffers]. unfold bind at 1. unfold get at 1.
    destruct (negb (cap_get k (caps s) =? 0) && r && match k with HT => false | _ => true end) eqn:Ec.
    + unfold bind at 1. unfold alloc_call.
      assert (F1 : (fa s =? 0) = false) by lia. assert (F2 : (0 <? fa s) = false) by lia. rewrite F1, F2.
      set (s1 := set_caps (cap_set k (default_alloc k (cap_get k (caps s)) 1) (caps s)) s).
      destruct (IH s1 Hfa) as (c & -> & Hc). exists c. split; [reflexivity|].
      intros k' Hk'. specialize (Hc k' Hk'). subst s1. cbn [caps set_caps] in Hc.
      destruct (bk_eq_dec k' k) as [->|Hne].
      * rewrite cap_get_set_same in Hc. pose proof (default_alloc_bound k (cap_get k (caps s)) 1 Hk').
        unfold G in H. pose proof (alloc_min_pos k Hk'). assert (alloc_min k >= 2) by (destruct k; try congruence; cbv; congruence). lia.
      * rewrite cap_get_set_other in Hc; auto.
    + unfold bind at 1. unfold ret at 1. destruct (IH s Hfa) as (c & -> & Hc). exists c. split; [reflexivity | exact Hc].
Qed.

Lemma reset_caps d r s t ev : fa s < 0 -> custom_reset true d r s = Ret 0 t ev ->
  forall k, k <> HT -> cap_get k (caps t) <= Z.max (cap_get k (caps s)) (alloc_min k).
Proof.
  intros Hfa. unfold custom_reset. unfold bind at 1.
  destruct (reset_buffers_caps all_kinds r s Hfa) as (c & -> & Hc). cbn [negb].
  unfold bind, upd, get, ret. cbn.
  destruct (0 <? vd_end s); destruct d; cbn; intros E; injection E as <- _;
    unfold emitter_reset; match goal with |- context [if ?b then _ else _] => destruct b end; exact Hc.
Qed.

(* a history: builds (call sequences without reset) each followed by custom_reset *)
Definition build := (list op * bool * bool)%type.
Fixpoint hist_run (h : list build) (s : bstate) : option bstate :=
  match h with
  | [] => Some s
  | (ops, d, r) :: h' =>
      match run true ops s with
      | None => None
      | Some (_, _, t) =>
          match custom_reset true d r t with
          | Ret 0 t' _ => hist_run h' t'
          | _ => None
          end
      end
  end.

(* a builder that has only been initialised and configured *)
Definition configured (f : bstate) : Prop := exists x, f = fresh_like false x.
Lemma configured_fresh_like d x : configured (fresh_like d x).
Proof. destruct d; [exists st_init; reflexivity | exists x; reflexivity]. Qed.

(* the demand of a build on a freshly initialised builder stays below B *)
Definition fresh_demand_le (B : bk -> Z) (ops : list op) : Prop :=
  forall f rs es t, configured f -> run true ops f = Some (rs, es, t) -> forall k, cap_get k (dem t) <= B k.

Definition core_fresh (s : bstate) : Prop := exists f, configured f /\ R s f.

Lemma dem_R s1 s2 : R s1 s2 -> dem s1 = dem s2.
Proof. intros H. unfold R in H. ceq H dem. exact Hc. Qed.

Theorem footprint_history B h : 
  Forall (fun b : build => no_reset (fst (fst b)) /\ fresh_demand_le B (fst (fst b))) h ->
  forall s t, Inv s -> core_fresh s -> (forall k, k <> HT -> k <> VD -> cap_get k (caps s) <= G k (B k)) ->
  hist_run h s = Some t ->
  Inv t /\ core_fresh t /\ forall k, k <> HT -> k <> VD -> cap_get k (caps t) <= G k (B k).
Proof.
  induction 1 as [|[[ops d] r] h [Hnr Hdem] Hh IH]; intros s t HI (f & Hcf & HR) Hcap Hrun.
  - simpl in Hrun. injection Hrun as <-. split; [auto|]. split; [exists f; auto | auto].
  - cbn [hist_run fst] in *. 
    assert (If : Inv f) by (destruct Hcf as [x ->]; apply Inv_fresh_like).
    pose proof (run_respects ops s f HR HI If) as Hrr. unfold run_rel in Hrr.
    destruct (run true ops s) as [[[rs es] t1]|] eqn:E1; [|discriminate].
    destruct (run true ops f) as [[[rs' es'] t1']|] eqn:E2; [|contradiction].
    destruct Hrr as (_ & _ & HR1 & I1 & _).
    pose proof (Hdem f rs' es' t1' Hcf E2) as Hd. rewrite <- (dem_R _ _ HR1) in Hd.
    pose proof (footprint_build (caps s) ops Hnr s rs es t1 (FP_self s) E1) as Hfp.
    pose proof I1 as (Hfa & Hfe & _).
    destruct (reset_spec d r t1 Hfa Hfe) as (t2 & Er & C2 & I2).
    pose proof (reset_caps d r t1 t2 [] Hfa Er) as Hrc.
    rewrite Er in Hrun.
    eapply IH; eauto.
    + exists (fresh_like d t1). split; [apply configured_fresh_like | exact C2].
    + intros k H1 H2. specialize (Hrc k H1). specialize (Hfp k H1 H2). specialize (Hcap k H1 H2).
      pose proof (G_mono k _ _ (Hd k)). pose proof (G_min k (B k)). lia.
Qed.

Lemma Inv_init : Inv st_init. Proof. apply (Inv_fresh_like true st_init). Qed.

Corollary footprint_bounded_lemma B h t :
  Forall (fun b : build => no_reset (fst (fst b)) /\ fresh_demand_le B (fst (fst b))) h ->
  hist_run h st_init = Some t ->
  forall k, k <> HT -> k <> VD -> cap_get k (caps t) <= G k (B k).
Proof.
  intros Hh Hr. eapply (footprint_history B h Hh st_init t); auto.
  - apply Inv_init.
  - exists st_init. split; [exists st_init; reflexivity | apply R_refl].
  - intros k _ _. pose proof (G_min k (B k)).
    assert (0 <= alloc_min k) by (destruct k; cbv; congruence).
    assert (cap_get k (caps st_init) = 0) as -> by (destruct k; reflexivity). lia.
Qed.

(* ------------------------------------------------------------------ the emitter's page pool *)
Lemma PAGE_SIZE_pos : 0 < PAGE_SIZE. Proof. reflexivity. Qed.

Lemma drop_pages_bound fuel : forall cap avg, cap < (Z.of_nat fuel + 1) * PAGE_SIZE ->
  drop_pages fuel cap avg <= Z.max PAGE_SIZE (2 * avg) /\ drop_pages fuel cap avg <= cap.
Proof.
  pose proof PAGE_SIZE_pos as HP.
  induction fuel as [|f IH]; intros cap avg Hc; cbn [drop_pages].
  - cbn in Hc. lia.
  - destruct ((avg * 2 <? cap) && (PAGE_SIZE <? cap)) eqn:E; [|lia].
    specialize (IH (cap - PAGE_SIZE) avg). 
    assert (cap - PAGE_SIZE < (Z.of_nat f + 1) * PAGE_SIZE) by (unfold PAGE_SIZE in *; lia). specialize (IH H). lia.
Qed.

(* after flatcc_emitter_reset: at most one page or twice the running average, which never exceeds the largest
   amount emitted by a single build *)
Lemma emitter_reset_bound U s : 0 <= e_cap s -> 0 <= e_used s <= U -> 0 <= e_avg s <= U ->
  let t := emitter_reset s in
  e_cap t <= Z.max (e_cap s) 0 /\ (e_cap s <> 0 -> e_cap t <= Z.max PAGE_SIZE (2 * U)) /\ 0 <= e_avg t <= U /\ e_used t = 0 \/ e_cap s = 0 /\ t = s.
Proof.
  intros Hc Hu Ha. unfold emitter_reset. destruct (e_cap s =? 0) eqn:E; [right; split; [lia|reflexivity]|left].
  cbn. pose proof PAGE_SIZE_pos as HP.
  set (a0 := if e_avg s =? 0 then e_used s else e_avg s).
  assert (0 <= a0 <= U) by (subst a0; destruct (e_avg s =? 0); lia).
  set (a := a0 * 3 / 4 + e_used s / 4). assert (0 <= a <= U) by (subst a; lia).
  pose proof (drop_pages_bound (Z.to_nat (e_cap s / PAGE_SIZE)) (e_cap s) a) as K.
  assert (e_cap s < (Z.of_nat (Z.to_nat (e_cap s / PAGE_SIZE)) + 1) * PAGE_SIZE).
  { rewrite Z2Nat.id by (unfold PAGE_SIZE in *; lia). unfold PAGE_SIZE in *; lia. }
  specialize (K H1). osplit; try lia.
Qed.

(* ------------------------------------------------------------------ reduce_buffers with the default allocator *)
Lemma grow_small fuel n : n >= 1 -> grow (S fuel) n 1 = n.
Proof. intros. cbn [grow]. destruct (n <? 1) eqn:E; [lia | reflexivity]. Qed.

Lemma default_alloc_reduce_noop k j : k <> HT -> 0 <= j ->
  default_alloc k (alloc_min k * 2 ^ j) 1 = alloc_min k * 2 ^ j.
Proof.
  intros Hk Hj. pose proof (alloc_min_pos k Hk) as Hm. unfold default_alloc. cbn [Z.eqb].
  assert (Hg : grow 64 (alloc_min k) 1 = alloc_min k) by (apply (grow_small 63); lia).
  assert (Hn : (match k with HT => 1 | _ => grow 64 (alloc_min k) 1 end) = alloc_min k) by (destruct k; congruence).
  rewrite Hn.
  assert (0 < 2 ^ j) by (apply Z.pow_pos_nonneg; lia).
  destruct (Z.eq_dec j 0) as [->|Hj0].
  - change (2 ^ 0) with 1. rewrite Z.mul_1_r.
    destruct ((1 <=? alloc_min k) && (alloc_min k <=? alloc_min k / 2)); reflexivity.
  - assert (E : 2 ^ j = 2 * 2 ^ (j - 1)) by (rewrite <- Z.pow_succ_r by lia; f_equal; lia).
    assert (0 < 2 ^ (j - 1)) by (apply Z.pow_pos_nonneg; lia).
    assert (Hc : (1 <=? alloc_min k * 2 ^ j) && (alloc_min k <=? alloc_min k * 2 ^ j / 2) = true).
    { rewrite E. replace (alloc_min k * (2 * 2 ^ (j - 1))) with ((alloc_min k * 2 ^ (j - 1)) * 2) by ring.
      rewrite Z.div_mul by lia. nia. }
    rewrite Hc. reflexivity.
Qed.

(* ------------------------------------------------------------------ each distinct vtable once per buffer *)
Definition is_vt (e : event) : bool := ev_kind e =? EK_vtable.
Definition vkey (e : event) : Z * list Z := (ev_nest e, ev_tag e).
(* every vtable emitted so far is still in the cache, under the buffer it was emitted for *)
Definition cache_complete (es : list event) (s : bstate) : Prop :=
  forall e, In e es -> is_vt e = true -> find_exact (ev_tag e) (ev_nest e) (vcache s) <> None.
Definition VT (es : list event) (s : bstate) : Prop :=
  NoDup (map vkey (filter is_vt es)) /\ cache_complete es s /\ vb_flush_limit s = 0 /\ fa s < 0 /\ fe s < 0.
Definition vtok {A} (m : M A) : Prop :=
  forall es s, VT es s -> match m s with Ret _ t e => VT (es ++ e) t | Fault => True end.
(* calls that neither emit vtables nor touch the cache or the countdowns *)
Definition Q (s t : bstate) : Prop :=
  vcache t = vcache s /\ vb_flush_limit t = vb_flush_limit s /\
  (fa s < 0 -> fa t = fa s) /\ (fe s < 0 -> fe t = fe s).
Definition quiet {A} (m : M A) : Prop :=
  forall s, match m s with Ret _ t e => Q s t /\ Forall (fun ev => is_vt ev = false) e | Fault => True end.

Lemma Q_refl s : Q s s. Proof. unfold Q; auto. Qed.
Lemma Q_trans s t u : Q s t -> Q t u -> Q s u.
Proof. unfold Q. intros (a & b & d & e) (a' & b' & d' & e'). osplit; try congruence; intros.
  - rewrite d'; auto. rewrite d; auto. - rewrite e'; auto. rewrite e; auto. Qed.

Lemma quiet_ret {A} (a : A) : quiet (ret a). Proof. intros s; simpl; split; [apply Q_refl | constructor]. Qed.
Lemma quiet_fault {A} : quiet (@fault A). Proof. intros s; exact I. Qed.
Lemma quiet_get {A} (f : bstate -> A) : quiet (get f). Proof. intros s; simpl; split; [apply Q_refl | constructor]. Qed.
Lemma quiet_top {A} (f : frame -> A) : quiet (top f).
Proof. intros s. unfold top. destruct (frames s); simpl; auto. split; [apply Q_refl | constructor]. Qed.
Lemma quiet_upd g : (forall s, Q s (g s)) -> quiet (upd g). Proof. intros H s; simpl; split; [apply H | constructor]. Qed.
Lemma quiet_bind {A B} (m : M A) (k : A -> M B) : quiet m -> (forall a, quiet (k a)) -> quiet (bind m k).
Proof.
  intros Hm Hk s. unfold bind. specialize (Hm s). destruct (m s) as [a t e|]; auto.
  specialize (Hk a t). destruct (k a t); auto. destruct Hm, Hk. split; [eapply Q_trans; eauto | apply Forall_app; auto].
Qed.
Create HintDb quiet_db.
Ltac quiet1 :=
  first
  [ apply quiet_ret | apply quiet_fault | apply quiet_get | apply quiet_top
  | solve [auto with quiet_db nocore]
  | apply quiet_upd; intros; unfold Q; cbn; auto
  | apply quiet_bind; [ | intro ]
  | match goal with |- quiet (if ?b then _ else _) => destruct b end
  | match goal with |- quiet (match ?x with _ => _ end) => destruct x end
  | match goal with |- quiet (let '(_, _) := ?x in _) => destruct x end ].
Ltac quietA := repeat quiet1.

Lemma quiet_alloc_call k n : quiet (alloc_call k n).
Proof.
  intros s. unfold alloc_call. destruct (fa s =? 0) eqn:E.
  - split; [|constructor]. destruct (fa_rep s); unfold Q; cbn; osplit; auto; intros; lia.
  - split; [|constructor]. destruct (0 <? fa s) eqn:E2; unfold Q; cbn; osplit; auto; intros; lia.
Qed.
Lemma quiet_note_demand k r : quiet (note_demand k r).
Proof. unfold note_demand. destruct k; quietA. Qed.
Global Hint Resolve quiet_alloc_call quiet_note_demand : quiet_db.
Lemma quiet_reserve_raw k u n : quiet (reserve_raw k u n).
Proof. intros s. unfold reserve_raw. destruct (cap_get k (caps s) <? u + n); [apply quiet_alloc_call | apply (quiet_ret true s)]. Qed.
Global Hint Resolve quiet_reserve_raw : quiet_db.
Lemma quiet_reserve_buffer k u n : quiet (reserve_buffer k u n).
Proof. unfold reserve_buffer. quietA. Qed.
Lemma quiet_set_top g : quiet (set_top g).
Proof. intros s. unfold set_top. destruct (frames s); simpl; auto. split; [unfold Q; cbn; auto | constructor]. Qed.
Lemma quiet_set_top_nf g : quiet (set_top_nf g).
Proof. intros s. unfold set_top_nf. destruct (frames s); simpl; (split; [unfold Q; cbn; auto | constructor]). Qed.
Lemma quiet_pop_frame : quiet pop_frame.
Proof. intros s. unfold pop_frame. destruct (frames s); simpl; auto. split; [unfold Q; cbn; auto | constructor]. Qed.
Global Hint Resolve quiet_reserve_buffer quiet_set_top quiet_set_top_nf quiet_pop_frame : quiet_db.
Lemma quiet_emit_data r b t : quiet (emit_call r EK_data b t).
Proof.
  intros s. unfold emit_call. destruct (fe s =? 0) eqn:E.
  - split; [|constructor]. destruct (fe_rep s); unfold Q; cbn; osplit; auto; intros; lia.
  - split; [|repeat constructor].
    unfold emitter_emit. destruct (0 <? fe s) eqn:E2;
      repeat match goal with |- context [if ?b then _ else _] => destruct b end; unfold Q; cbn; osplit; auto; intros; lia.
Qed.
Global Hint Resolve quiet_emit_data : quiet_db.
Ltac q f := solve [unfold f; quietA].
Lemma quiet_refresh_ds l : quiet (refresh_ds l). Proof. q refresh_ds. Qed.
Global Hint Resolve quiet_refresh_ds : quiet_db.
Lemma quiet_reserve_ds n l : quiet (reserve_ds n l). Proof. q reserve_ds. Qed.
Global Hint Resolve quiet_reserve_ds : quiet_db.
Lemma quiet_ensure_ds b o n l : quiet (ensure_ds b o n l). Proof. q ensure_ds. Qed.
Lemma quiet_raise_min_align a : quiet (raise_min_align a). Proof. q raise_min_align. Qed.
Lemma quiet_expect_type t : quiet (expect_type t). Proof. q expect_type. Qed.
Global Hint Resolve quiet_ensure_ds quiet_raise_min_align quiet_expect_type : quiet_db.
Lemma quiet_push_ds n d : quiet (push_ds n d). Proof. q push_ds. Qed.
Lemma quiet_unpush_ds n : quiet (unpush_ds n). Proof. q unpush_ds. Qed.
Lemma quiet_frame_slot lv : quiet (frame_slot lv). Proof. q frame_slot. Qed.
Global Hint Resolve quiet_push_ds quiet_unpush_ds quiet_frame_slot : quiet_db.
Lemma quiet_enter_frame a : quiet (enter_frame a). Proof. q enter_frame. Qed.
Lemma quiet_exit_frame : quiet exit_frame. Proof. q exit_frame. Qed.
Lemma quiet_front_pad n a : quiet (front_pad n a). Proof. q front_pad. Qed.
Lemma quiet_back_pad a : quiet (back_pad a). Proof. q back_pad. Qed.
Lemma quiet_emit_front b : quiet (emit_front EK_data b). Proof. unfold emit_front, emit_front_tag. quietA. Qed.
Lemma quiet_emit_back b : quiet (emit_back EK_data b). Proof. unfold emit_back, emit_back_tag. quietA. Qed.
Global Hint Resolve quiet_enter_frame quiet_exit_frame quiet_front_pad quiet_back_pad quiet_emit_front quiet_emit_back : quiet_db.
Lemma quiet_align_buffer_end a b n : quiet (align_buffer_end a b n). Proof. q align_buffer_end. Qed.
Global Hint Resolve quiet_align_buffer_end : quiet_db.
Lemma quiet_create_buffer i b r a f : quiet (create_buffer i b r a f). Proof. q create_buffer. Qed.
Lemma quiet_create_struct d a : quiet (create_struct d a). Proof. q create_struct. Qed.
Lemma quiet_create_string d : quiet (create_string d). Proof. q create_string. Qed.
Lemma quiet_create_vector d c e a m : quiet (create_vector d c e a m). Proof. q create_vector. Qed.
Lemma quiet_create_offset_vector_direct d c : quiet (create_offset_vector_direct d c). Proof. q create_offset_vector_direct. Qed.
Lemma quiet_create_table d a o v : quiet (create_table d a o v). Proof. q create_table. Qed.
Lemma quiet_reserve_fields c : quiet (reserve_fields c). Proof. q reserve_fields. Qed.
Lemma quiet_vector_count_add c m : quiet (vector_count_add c m). Proof. q vector_count_add. Qed.
Lemma quiet_exit_user_frame : quiet exit_user_frame. Proof. q exit_user_frame. Qed.
Global Hint Resolve quiet_create_buffer quiet_create_struct quiet_create_string quiet_create_vector quiet_create_offset_vector_direct
  quiet_create_table quiet_reserve_fields quiet_vector_count_add quiet_exit_user_frame : quiet_db.
Lemma quiet_alloc_ht : quiet alloc_ht. Proof. q alloc_ht. Qed.
Global Hint Resolve quiet_alloc_ht : quiet_db.
Lemma quiet_ensure_ht : quiet ensure_ht. Proof. q ensure_ht. Qed.

Lemma filter_quiet es e : Forall (fun ev => is_vt ev = false) e -> filter is_vt (es ++ e) = filter is_vt es.
Proof.
  intros H. rewrite filter_app. induction H as [|x l Hx Hl IH]; [apply app_nil_r|]. cbn [filter]. rewrite Hx. exact IH.
Qed.

Lemma quiet_vtok {A} (m : M A) : quiet m -> vtok m.
Proof.
  intros H es s (ND & CC & FL & FA & FE). specialize (H s). destruct (m s) as [a t e|]; auto.
  destruct H as [(Hvc & Hfl & Hfa & Hfe) Hev]. unfold VT. rewrite (filter_quiet _ _ Hev). specialize (Hfa FA). specialize (Hfe FE). osplit; auto; try lia.
  - intros ev Hin Hv. apply in_app_or in Hin as [Hin|Hin].
    + rewrite Hvc. apply CC; auto.
    + rewrite Forall_forall in Hev. rewrite (Hev _ Hin) in Hv. discriminate.
Qed.

Lemma vtok_bind {A B} (m : M A) (k : A -> M B) : vtok m -> (forall a, vtok (k a)) -> vtok (bind m k).
Proof.
  intros Hm Hk es s H. unfold bind. specialize (Hm es s H). destruct (m s) as [a t e|]; auto.
  specialize (Hk a (es ++ e) t Hm). destruct (k a t); auto. rewrite app_assoc. exact Hk.
Qed.

Lemma list_eqb_refl l : list_eqb l l = true.
Proof. induction l; cbn; auto. rewrite Z.eqb_refl. exact IHl. Qed.
Lemma list_eqb_eq a b : list_eqb a b = true -> a = b.
Proof.
  revert b. induction a as [|x a IH]; destruct b as [|y b]; cbn; try congruence.
  intros H. apply andb_prop in H as [H1 H2]. apply Z.eqb_eq in H1. f_equal; auto.
Qed.

Lemma NoDup_app_single {A} (l : list A) (x : A) : NoDup l -> ~ In x l -> NoDup (l ++ [x]).
Proof.
  induction 1 as [|y l Hy Hl IH]; intros Hx; cbn.
  - constructor; [intros [] | constructor].
  - constructor.
    + intros Hin. apply in_app_or in Hin as [Hin|[<-|[]]]; [contradiction|]. apply Hx. left; reflexivity.
    + apply IH. intros Hin. apply Hx. right; exact Hin.
Qed.

(* the state after a vtable has been emitted and entered into the cache *)
Lemma VT_insert es s t ref dref vt bytes vbs :
  VT es s -> find_exact vt (nest_id s) (vcache s) = None ->
  vcache t = mkvd vt (nest_id s) dref vbs :: vcache s -> vb_flush_limit t = 0 -> fa t < 0 -> fe t < 0 ->
  VT (es ++ [mkev ref EK_vtable (nest_id s) bytes vt]) t.
Proof.
  intros (ND & CC & FL & FA & FE) Hmiss Hvc Hfl Hfa Hfe. unfold VT. osplit; auto.
  - rewrite filter_app, map_app. cbn. apply NoDup_app_single.
    + exact ND.
    + intros Hin. apply in_map_iff in Hin as (e & Hk & Hin). apply filter_In in Hin as [Hin Hv].
      unfold vkey in Hk. cbn in Hk. injection Hk as Hn Hb. specialize (CC e Hin Hv). rewrite Hn, Hb in CC. contradiction.
  - intros e Hin Hv. rewrite Hvc. unfold find_exact. cbn [find vd_vt vd_nest].
    apply in_app_or in Hin as [Hin|[<-|[]]].
    + destruct (list_eqb vt (ev_tag e) && (nest_id s =? ev_nest e)); [discriminate | apply CC; auto].
    + cbn. rewrite list_eqb_refl, Z.eqb_refl. discriminate.
Qed.

Lemma reserve_buffer_silent k u n s :
  match reserve_buffer k u n s with Ret _ t e => e = [] /\ Q s t /\ nest_id t = nest_id s | Fault => True end.
Proof.
  pose proof (quiet_reserve_buffer k u n s) as H.
  unfold reserve_buffer, note_demand, reserve_raw, alloc_call, bind, upd, ret in *.
  destruct k; cbn in *;
    repeat match goal with |- context [if ?b then _ else _] => destruct b end; cbn in *; destruct H; auto.
Qed.

Lemma create_vtable_char vt s :
  match create_vtable vt s with
  | Ret _ t e => (Q s t /\ nest_id t = nest_id s) /\ (e = [] \/ exists r b, e = [mkev r EK_vtable (nest_id s) b vt])
  | Fault => True
  end.
Proof.
  unfold create_vtable, front_pad, emit_back_tag, emit_front_tag, emit_call, emitter_emit, bind, get, upd, ret. cbn.
  repeat match goal with |- context [if ?b then _ else _] => destruct b eqn:? end; cbn;
    (split; [unfold Q; cbn in *; osplit; auto; intros; lia | first [left; reflexivity | right; eexists; eexists; reflexivity]]).
Qed.

Lemma VT_Q es s t : VT es s -> Q s t -> VT es t.
Proof.
  intros (ND & CC & FL & FA & FE) (Hvc & Hfl & Hfa & Hfe). unfold VT. specialize (Hfa FA). specialize (Hfe FE).
  osplit; auto; try lia. intros e Hin Hv. rewrite Hvc. apply CC; auto.
Qed.

Lemma VT_add_unrelated es s t d : VT es s -> vcache t = d :: vcache s -> vb_flush_limit t = 0 -> fa t < 0 -> fe t < 0 -> VT es t.
Proof.
  intros (ND & CC & FL & FA & FE) Hvc Hfl Hfa Hfe. unfold VT. osplit; auto.
  intros e Hin Hv. rewrite Hvc. unfold find_exact. cbn [find].
  destruct (list_eqb (vd_vt d) (ev_tag e) && (vd_nest d =? ev_nest e)); [discriminate | apply CC; auto].
Qed.

Lemma ccv_rest_VT vt es s : VT es s ->
  match ccv_rest true vt s with Ret a t e => a <> 0 -> VT (es ++ e) t | Fault => True end.
Proof.
  intros HV. pose proof HV as (ND & CC & FL & FA & FE).
  unfold ccv_rest. unfold bind at 1. unfold get at 1. unfold bind at 1. unfold get at 1.
  destruct (find_exact vt (nest_id s) (vcache s)) eqn:Ef.
  { cbn. intros _. rewrite app_nil_r. exact HV. }
  unfold bind at 1. unfold get at 1. unfold bind at 1.
  pose proof (reserve_buffer_silent VD (vd_end s) VD_SIZE s) as H1.
  destruct (reserve_buffer VD (vd_end s) VD_SIZE s) as [r1 t1 e1|]; [|exact I]. destruct H1 as (-> & Q1 & N1).
  destruct r1; cbn [negb]; [|cbn; intros; congruence].
  unfold bind at 1. unfold upd at 1. unfold bind at 1.
  set (t2 := set_vd_end (u32 (vd_end s + VD_SIZE)) t1).
  assert (Q2 : Q s t2) by (eapply Q_trans; [exact Q1 | unfold Q, t2; cbn; auto]).
  pose proof (create_vtable_char vt t2) as H3.
  destruct (create_vtable vt t2) as [ref t3 e3|]; [|exact I]. destruct H3 as [[Q3 N3] He3].
  assert (Q3' : Q s t3) by (eapply Q_trans; eauto).
  destruct (ref =? 0) eqn:Er; [cbn; intros; congruence|].
  assert (Hnid : nest_id t2 = nest_id s) by (unfold t2; cbn; exact N1).
  destruct He3 as [->|(r & bb & ->)].
  { (* a reference came back although nothing was emitted: the descriptor is entered all the same *)
    destruct Q3' as (Hvc3 & Hfl3 & Hfa3 & Hfe3).
    destruct (find_copy vt (vcache s)) as [d2|].
    - cbn. intros _. rewrite app_nil_r. assert (fa t3 = fa s) by auto. assert (fe t3 = fe s) by auto.
      eapply VT_add_unrelated; [exact HV | cbn; reflexivity | cbn; lia | cbn; lia | cbn; lia].
    - unfold bind at 1. unfold get at 1. unfold bind at 1. unfold get at 1.
      rewrite Hfl3, FL. cbn [Z.eqb negb andb].
      unfold bind at 1.
      pose proof (reserve_buffer_silent VB (vb_end t3) (zlen vt) t3) as H5.
      destruct (reserve_buffer VB (vb_end t3) (zlen vt) t3) as [r5 t5 e5|]; [|exact I]. destruct H5 as (-> & Q5 & N5).
      destruct r5; cbn [negb]; [|cbn; intros; congruence].
      cbn. intros _. rewrite app_nil_r. destruct Q5 as (Hvc5 & Hfl5 & Hfa5 & Hfe5).
      assert (fa t3 = fa s) by auto. assert (fe t3 = fe s) by auto.
      assert (fa t5 = fa t3) by (apply Hfa5; lia). assert (fe t5 = fe t3) by (apply Hfe5; lia).
      eapply VT_add_unrelated; [exact HV | cbn; reflexivity | cbn; lia | cbn; lia | cbn; lia]. }
  (* the vtable was emitted: it is entered into the cache before the call returns *)
  rewrite Hnid.
  destruct Q3' as (Hvc3 & Hfl3 & Hfa3 & Hfe3).
  destruct (find_copy vt (vcache s)) as [d2|].
  - cbn. intros _. assert (fa t3 = fa s) by auto. assert (fe t3 = fe s) by auto.
    eapply VT_insert; eauto; cbn; try reflexivity; lia.
  - unfold bind at 1. unfold get at 1. unfold bind at 1. unfold get at 1.
    rewrite Hfl3, FL. cbn [Z.eqb negb andb].
    unfold bind at 1.
    pose proof (reserve_buffer_silent VB (vb_end t3) (zlen vt) t3) as H5.
    destruct (reserve_buffer VB (vb_end t3) (zlen vt) t3) as [r5 t5 e5|]; [|exact I]. destruct H5 as (-> & Q5 & N5).
    destruct r5; cbn [negb]; [|cbn; intros; congruence].
    cbn. intros _. destruct Q5 as (Hvc5 & Hfl5 & Hfa5 & Hfe5).
    assert (fa t3 = fa s) by auto. assert (fe t3 = fe s) by auto.
    assert (fa t5 = fa t3) by (apply Hfa5; lia). assert (fe t5 = fe t3) by (apply Hfe5; lia).
    eapply VT_insert; eauto; cbn; try reflexivity; lia.
Qed.

Definition vtokR (m : M Z) : Prop :=
  forall es s, VT es s -> match m s with Ret a t e => a <> 0 -> VT (es ++ e) t | Fault => True end.

Lemma vtokR_of_quiet (m : M Z) : quiet m -> vtokR m.
Proof. intros H es s HV. pose proof (quiet_vtok m H es s HV) as K. destruct (m s); auto. Qed.

Lemma vtokR_bind_quiet {A} (m : M A) (k : A -> M Z) : quiet m -> (forall a, vtokR (k a)) -> vtokR (bind m k).
Proof.
  intros Hm Hk es s HV. unfold bind. pose proof (quiet_vtok m Hm es s HV) as K.
  destruct (m s) as [a t e|]; auto. specialize (Hk a (es ++ e) t K). destruct (k a t); auto.
  rewrite app_assoc. exact Hk.
Qed.

Lemma ccv_vtokR vt : vtokR (create_cached_vtable true vt).
Proof.
  unfold create_cached_vtable. apply vtokR_bind_quiet; [apply quiet_ensure_ht|]. intros ok.
  destruct (negb ok).
  - intros es s HV. cbn. congruence.
  - intros es s HV. apply ccv_rest_VT; auto.
Qed.

Lemma end_table_vtokR : vtokR (end_table true).
Proof.
  unfold end_table.
  apply vtokR_bind_quiet; [apply quiet_expect_type | intros _].
  apply vtokR_bind_quiet; [apply quiet_get | intros ie].
  apply vtokR_bind_quiet; [apply quiet_get | intros o].
  apply vtokR_bind_quiet; [apply quiet_get | intros vs].
  intros es s HV. unfold bind at 1.
  match goal with |- context [create_cached_vtable true ?v s] =>
    pose proof (ccv_vtokR v es s HV) as K; destruct (create_cached_vtable true v s) as [vr t e|] end; [|exact I].
  destruct (vr =? 0) eqn:E.
  - cbn. congruence.
  - assert (Hne : vr <> 0) by lia. specialize (K Hne).
    match goal with |- match match ?m t with _ => _ end with _ => _ end => assert (Hq : quiet m) by quietA;
      pose proof (quiet_vtok _ Hq (es ++ e) t K) as K2; destruct (m t) as [a u e'|] end; [|exact I].
    intros _. rewrite app_assoc. exact K2.
Qed.

Definition vt_allowed (o : op) : bool :=
  match o with OFlushCache | OSetCacheLimit _ | OReset _ _ | OClear => false | _ => true end.
Definition no_flush (ops : list op) : Prop := Forall (fun o => vt_allowed o = true) ops.
(* the calls of the run that end a table returned a reference *)
Definition end_tables_ok (ops : list op) (rs : list Z) : Prop := Forall2 (fun o r => o = OEndTable -> r <> 0) ops rs.

Lemma step_VT o : vt_allowed o = true -> forall es s a t e,
  VT es s -> step true o s = Ret a t e -> (o = OEndTable -> a <> 0) -> VT (es ++ e) t.
Proof.
  intros Ha es s a t e HV Hs Hok.
  destruct o; cbn [vt_allowed] in Ha; try discriminate; cbn [step] in Hs;
  try (match type of Hs with ?m s = _ =>
         assert (Hq : quiet m) by (first [ q start_buffer | q end_buffer | q start_struct | q end_struct | q start_table | q table_add
                 | q table_add_offset | q start_vector | q extend_vector | q truncate_vector | q end_vector | q start_offset_vector
                 | q extend_offset_vector | q truncate_offset_vector | q end_offset_vector | q start_string | q append_string
                 | q truncate_string | q end_string | q enter_user_frame | q exit_user_frame_at | q set_max_level_op
                 | q push_buffer_alignment | q pop_buffer_alignment | quietA ]);
         pose proof (quiet_vtok _ Hq es s HV) as K; rewrite Hs in K; exact K end).
  (* OEndTable *)
  pose proof (end_table_vtokR es s HV) as K. rewrite Hs in K. apply K. apply Hok. reflexivity.
Qed.

Theorem vtable_once ops : forall s rs es t,
  vb_flush_limit s = 0 -> fa s < 0 -> fe s < 0 -> no_flush ops ->
  run true ops s = Some (rs, es, t) -> end_tables_ok ops rs ->
  NoDup (map vkey (filter is_vt es)).
Proof.
  assert (G : forall ops es0 s rs es t, VT es0 s -> no_flush ops -> run true ops s = Some (rs, es, t) -> end_tables_ok ops rs ->
              VT (es0 ++ es) t).
  { induction ops0 as [|o ops0 IH]; intros es0 s rs es t HV Hnf Hr Hok.
    - cbn in Hr. injection Hr as _ <- <-. rewrite app_nil_r. exact HV.
    - cbn [run] in Hr. destruct (step true o s) as [a s1 e1|] eqn:Es; [|discriminate].
      destruct (run true ops0 s1) as [[[rs' es'] t']|] eqn:Er; [|discriminate].
      injection Hr as <- <- <-. inversion Hnf as [|? ? Ho Hnf']; subst. inversion Hok as [|? ? ? ? Hoa Hok']; subst.
      pose proof (step_VT o Ho es0 s a s1 e1 HV Es Hoa) as K.
      rewrite app_assoc. eapply IH; eauto. }
  intros s rs es t Hfl Hfa Hfe Hnf Hr Hok.
  assert (HV : VT [] s) by (unfold VT; osplit; auto; [constructor | intros e []]).
  destruct (G ops [] s rs es t HV Hnf Hr Hok) as (ND & _). exact ND.
Qed.
