(* C14 / C13 model: the flatcc builder's PERSISTENT state and everything flatcc_builder_custom_reset touches or
   forgets.  Transcribes src/runtime/builder.c (default_alloc, reserve_*, refresh_ds, push_ds*, enter_frame /
   exit_frame, emit_front / emit_back, start/end of buffer, struct, table, vector, offset vector, string, the
   create_* calls used by them, the vtable cache, user frames, the settings, custom_init / custom_reset / clear)
   and the page-pool accounting of src/runtime/emitter.c (capacity, used, used_average, flatcc_emitter_reset).
   Executable Gallina, NO proofs in this file.

   Representation.
   * One flat record [bstate] with every field of struct flatcc_builder that is not a raw pointer; pointers are
     kept as offsets into their buffer: vs_off = (char* )B->vs - vs.iov_base, pl_off likewise,
     frame_ptr = (char* )B->frame - fs.iov_base with [None] for the null pointer, B->ds is ds.iov_base + ds_first.
   * [caps] is iov_len of the eight B->buffers; iov_base is non-null iff the length is non-zero.
   * Buffer CONTENTS are kept per live object instead of per byte of the buffer: [ds_data] are the bytes
     ds[0 .. ds_offset) of the open frame, [vs_data] the voffset entries vs[0 .. id_end) of the open table,
     [pl_data] its patch log; the saved copies of the enclosing objects live in their [frame]s (in C they
     simply stay lower down in the same buffer).  [us_mem] is the user stack as an association list
     position -> stored size_t (only frame headers are ever read back by the builder).
     The vtable cache (hash table ht + descriptors vd + copies vb) is the list [vcache] of descriptors that are
     reachable from the hash table; vb_end / vd_end / ht_width are kept as in C because they drive allocation.
     Two vtables hash-collide or not: irrelevant here, the chains are searched completely by the C code.
   * Every call returns an [outcome]: [Ret value state events] or [Fault] (the C code would access memory outside
     the frame stack / through a null frame pointer, or the call violates the frame-type contract which the C code
     only asserts).  [events] are the emit calls made (reference, bytes, kind, nest id).
   * Allocation and emit failures (C13) are driven by the countdowns [fa] / [fe]: negative = never fail,
     0 = the next call fails, n > 0 = n more calls succeed.  With [fa_rep] / [fe_rep] every later call fails too.
   * [fixed : bool] selects between the faithful transcription of the pinned /repo commit ([false]) and the
     behaviour with the defects found by C14 / C13 repaired ([true]): custom_reset also clears ds_first,
     block_align, user_frame_offset / user_frame_end (and the dead per-build fields align, id_end, vt_hash,
     buffer_mark, buffer_flags, identifier); set_max_level clamps limit_level downwards instead of raising it
     beyond the allocated frames; create_cached_vtable returns 0 instead of -1 when the vb allocation fails; end_buffer
     returns 0 for a null root instead of ending whatever frame is open.
   Sizes are assumed to stay below 2^31 where the C code computes in uoffset_t (the wraps that the C code itself
   tests for, in emit_front / emit_back / vector_count_add, are transcribed). *)
From Flatcc.Common Require Export Wrap.
From Flatcc.Generated Require Import ResetConsts.
Local Open Scope Z_scope.

Definition zlen {A} (l : list A) : Z := Z.of_nat (length l).
Definition zeros (n : Z) : list Z := repeat 0 (Z.to_nat n).
(* exactly n bytes read from a pointer whose defined content is l *)
Definition fit (n : Z) (l : list Z) : list Z := firstn (Z.to_nat n) (l ++ zeros n).
Definition nthz (l : list Z) (i : Z) : Z := if i <? 0 then 0 else nth (Z.to_nat i) l 0.
Definition le16 (v : Z) : list Z := let v := u16 v in [v mod 256; v / 256].
Definition le32 (v : Z) : list Z :=
  let v := u32 v in [v mod 256; (v / 256) mod 256; (v / 65536) mod 256; v / 16777216].
Definition get32 (l : list Z) (off : Z) : Z :=
  nthz l off + 256 * nthz l (off + 1) + 65536 * nthz l (off + 2) + 16777216 * nthz l (off + 3).
Definition put_bytes (l : list Z) (off : Z) (b : list Z) : list Z :=
  firstn (Z.to_nat off) l ++ b ++ skipn (Z.to_nat off + length b) l.
Fixpoint list_eqb (a b : list Z) : bool :=
  match a, b with
  | [], [] => true
  | x :: a', y :: b' => (x =? y) && list_eqb a' b'
  | _, _ => false
  end.
Fixpoint assocz (k : Z) (l : list (Z * Z)) : Z :=
  match l with [] => 0 | (k', v) :: r => if k' =? k then v else assocz k r end.
(* vs[id] := v on a zero-initialised array *)
Definition set_nthz (l : list Z) (i v : Z) : list Z :=
  let l' := l ++ zeros (i + 1 - zlen l) in put_bytes l' i [v].

(* (x + align - 1) & ~(align - 1) in uoffset_t, align a power of two *)
Definition alignup (x a : Z) : Z := u32 (x + a - 1) / a * a.
Definition zmax (a b : Z) : Z := if a <? b then b else a.

(* ------------------------------------------------------------------ buffers and the default allocator *)
Inductive bk := VS | DS | VB | PL | FS | HT | VD | US.
Definition bk_eq_dec (a b : bk) : {a = b} + {a <> b}.
Proof. decide equality. Defined.
Definition all_kinds : list bk := [VS; DS; VB; PL; FS; HT; VD; US].
Definition kind_index (k : bk) : Z :=
  match k with VS => K_vs | DS => K_ds | VB => K_vb | PL => K_pl | FS => K_fs | HT => K_ht | VD => K_vd | US => K_us end.

Record capt := mkcaps { c_vs : Z; c_ds : Z; c_vb : Z; c_pl : Z; c_fs : Z; c_ht : Z; c_vd : Z; c_us : Z }.
Definition cap_get (k : bk) (c : capt) : Z :=
  match k with VS => c_vs c | DS => c_ds c | VB => c_vb c | PL => c_pl c | FS => c_fs c | HT => c_ht c | VD => c_vd c | US => c_us c end.
Definition cap_set (k : bk) (v : Z) (c : capt) : capt :=
  match k with
  | VS => mkcaps v (c_ds c) (c_vb c) (c_pl c) (c_fs c) (c_ht c) (c_vd c) (c_us c)
  | DS => mkcaps (c_vs c) v (c_vb c) (c_pl c) (c_fs c) (c_ht c) (c_vd c) (c_us c)
  | VB => mkcaps (c_vs c) (c_ds c) v (c_pl c) (c_fs c) (c_ht c) (c_vd c) (c_us c)
  | PL => mkcaps (c_vs c) (c_ds c) (c_vb c) v (c_fs c) (c_ht c) (c_vd c) (c_us c)
  | FS => mkcaps (c_vs c) (c_ds c) (c_vb c) (c_pl c) v (c_ht c) (c_vd c) (c_us c)
  | HT => mkcaps (c_vs c) (c_ds c) (c_vb c) (c_pl c) (c_fs c) v (c_vd c) (c_us c)
  | VD => mkcaps (c_vs c) (c_ds c) (c_vb c) (c_pl c) (c_fs c) (c_ht c) v (c_us c)
  | US => mkcaps (c_vs c) (c_ds c) (c_vb c) (c_pl c) (c_fs c) (c_ht c) (c_vd c) v
  end.
Definition caps0 : capt := mkcaps 0 0 0 0 0 0 0 0.
Definition caps_total (c : capt) : Z := c_vs c + c_ds c + c_vb c + c_pl c + c_fs c + c_ht c + c_vd c + c_us c.

(* the `switch (hint)` of flatcc_builder_default_alloc; ht uses the request itself *)
Definition alloc_min (k : bk) : Z :=
  match k with DS => ALLOC_MIN_ds | FS => ALLOC_MIN_fs | US => ALLOC_MIN_us | VS => ALLOC_MIN_vs
             | VB => ALLOC_MIN_vb | PL => ALLOC_MIN_pl | VD => ALLOC_MIN_vd | HT => 0 end.
(* while (n < request) n *= 2;  64 doublings cover size_t *)
Fixpoint grow (fuel : nat) (n req : Z) : Z :=
  match fuel with O => n | S f => if n <? req then grow f (2 * n) req else n end.
(* flatcc_builder_default_alloc when realloc succeeds: the new iov_len *)
Definition default_alloc (k : bk) (cap req : Z) : Z :=
  if req =? 0 then 0 else
  let n := match k with HT => req | _ => grow 64 (alloc_min k) req end in
  if (req <=? cap) && (n <=? cap / 2) then cap else n.

(* ------------------------------------------------------------------ frames, cache descriptors, state *)
Definition T_empty := 0. Definition T_buffer := 1. Definition T_struct := 2. Definition T_table := 3.
Definition T_vector := 4. Definition T_offset_vector := 5. Definition T_string := 6. Definition T_union_vector := 7.

Record vdesc := mkvd { vd_vt : list Z; vd_nest : Z; vd_ref : Z; vd_vb_start : Z }.
(* ev_tag: for a vtable emit the vtable itself (the emitted bytes may carry alignment padding); [] otherwise *)
Record event := mkev { ev_ref : Z; ev_kind : Z; ev_nest : Z; ev_bytes : list Z; ev_tag : list Z }.
Definition EK_data := 0. Definition EK_vtable := 1.

Record frame := mkframe {
  f_ds_first : Z;
  f_type_limit : Z;
  f_ds_offset : Z;
  f_align : Z;
  f_type : Z;
  f_ds_data : list Z;
  f_vs_end : Z;
  f_pl_end : Z;
  f_vt_hash : Z;
  f_id_end : Z;
  f_vs_data : list Z;
  f_pl_data : list Z;
  f_elem_size : Z;
  f_count : Z;
  f_max_count : Z;
  f_identifier : Z;
  f_mark : Z;
  f_nest_id : Z;
  f_flags : Z;
  f_block_align : Z
}.
Definition set_f_ds_first (v : Z) (f : frame) : frame := mkframe v (f_type_limit f) (f_ds_offset f) (f_align f) (f_type f) (f_ds_data f) (f_vs_end f) (f_pl_end f) (f_vt_hash f) (f_id_end f) (f_vs_data f) (f_pl_data f) (f_elem_size f) (f_count f) (f_max_count f) (f_identifier f) (f_mark f) (f_nest_id f) (f_flags f) (f_block_align f).
Definition set_f_type_limit (v : Z) (f : frame) : frame := mkframe (f_ds_first f) v (f_ds_offset f) (f_align f) (f_type f) (f_ds_data f) (f_vs_end f) (f_pl_end f) (f_vt_hash f) (f_id_end f) (f_vs_data f) (f_pl_data f) (f_elem_size f) (f_count f) (f_max_count f) (f_identifier f) (f_mark f) (f_nest_id f) (f_flags f) (f_block_align f).
Definition set_f_ds_offset (v : Z) (f : frame) : frame := mkframe (f_ds_first f) (f_type_limit f) v (f_align f) (f_type f) (f_ds_data f) (f_vs_end f) (f_pl_end f) (f_vt_hash f) (f_id_end f) (f_vs_data f) (f_pl_data f) (f_elem_size f) (f_count f) (f_max_count f) (f_identifier f) (f_mark f) (f_nest_id f) (f_flags f) (f_block_align f).
Definition set_f_align (v : Z) (f : frame) : frame := mkframe (f_ds_first f) (f_type_limit f) (f_ds_offset f) v (f_type f) (f_ds_data f) (f_vs_end f) (f_pl_end f) (f_vt_hash f) (f_id_end f) (f_vs_data f) (f_pl_data f) (f_elem_size f) (f_count f) (f_max_count f) (f_identifier f) (f_mark f) (f_nest_id f) (f_flags f) (f_block_align f).
Definition set_f_type (v : Z) (f : frame) : frame := mkframe (f_ds_first f) (f_type_limit f) (f_ds_offset f) (f_align f) v (f_ds_data f) (f_vs_end f) (f_pl_end f) (f_vt_hash f) (f_id_end f) (f_vs_data f) (f_pl_data f) (f_elem_size f) (f_count f) (f_max_count f) (f_identifier f) (f_mark f) (f_nest_id f) (f_flags f) (f_block_align f).
Definition set_f_ds_data (v : list Z) (f : frame) : frame := mkframe (f_ds_first f) (f_type_limit f) (f_ds_offset f) (f_align f) (f_type f) v (f_vs_end f) (f_pl_end f) (f_vt_hash f) (f_id_end f) (f_vs_data f) (f_pl_data f) (f_elem_size f) (f_count f) (f_max_count f) (f_identifier f) (f_mark f) (f_nest_id f) (f_flags f) (f_block_align f).
Definition set_f_vs_end (v : Z) (f : frame) : frame := mkframe (f_ds_first f) (f_type_limit f) (f_ds_offset f) (f_align f) (f_type f) (f_ds_data f) v (f_pl_end f) (f_vt_hash f) (f_id_end f) (f_vs_data f) (f_pl_data f) (f_elem_size f) (f_count f) (f_max_count f) (f_identifier f) (f_mark f) (f_nest_id f) (f_flags f) (f_block_align f).
Definition set_f_pl_end (v : Z) (f : frame) : frame := mkframe (f_ds_first f) (f_type_limit f) (f_ds_offset f) (f_align f) (f_type f) (f_ds_data f) (f_vs_end f) v (f_vt_hash f) (f_id_end f) (f_vs_data f) (f_pl_data f) (f_elem_size f) (f_count f) (f_max_count f) (f_identifier f) (f_mark f) (f_nest_id f) (f_flags f) (f_block_align f).
Definition set_f_vt_hash (v : Z) (f : frame) : frame := mkframe (f_ds_first f) (f_type_limit f) (f_ds_offset f) (f_align f) (f_type f) (f_ds_data f) (f_vs_end f) (f_pl_end f) v (f_id_end f) (f_vs_data f) (f_pl_data f) (f_elem_size f) (f_count f) (f_max_count f) (f_identifier f) (f_mark f) (f_nest_id f) (f_flags f) (f_block_align f).
Definition set_f_id_end (v : Z) (f : frame) : frame := mkframe (f_ds_first f) (f_type_limit f) (f_ds_offset f) (f_align f) (f_type f) (f_ds_data f) (f_vs_end f) (f_pl_end f) (f_vt_hash f) v (f_vs_data f) (f_pl_data f) (f_elem_size f) (f_count f) (f_max_count f) (f_identifier f) (f_mark f) (f_nest_id f) (f_flags f) (f_block_align f).
Definition set_f_vs_data (v : list Z) (f : frame) : frame := mkframe (f_ds_first f) (f_type_limit f) (f_ds_offset f) (f_align f) (f_type f) (f_ds_data f) (f_vs_end f) (f_pl_end f) (f_vt_hash f) (f_id_end f) v (f_pl_data f) (f_elem_size f) (f_count f) (f_max_count f) (f_identifier f) (f_mark f) (f_nest_id f) (f_flags f) (f_block_align f).
Definition set_f_pl_data (v : list Z) (f : frame) : frame := mkframe (f_ds_first f) (f_type_limit f) (f_ds_offset f) (f_align f) (f_type f) (f_ds_data f) (f_vs_end f) (f_pl_end f) (f_vt_hash f) (f_id_end f) (f_vs_data f) v (f_elem_size f) (f_count f) (f_max_count f) (f_identifier f) (f_mark f) (f_nest_id f) (f_flags f) (f_block_align f).
Definition set_f_elem_size (v : Z) (f : frame) : frame := mkframe (f_ds_first f) (f_type_limit f) (f_ds_offset f) (f_align f) (f_type f) (f_ds_data f) (f_vs_end f) (f_pl_end f) (f_vt_hash f) (f_id_end f) (f_vs_data f) (f_pl_data f) v (f_count f) (f_max_count f) (f_identifier f) (f_mark f) (f_nest_id f) (f_flags f) (f_block_align f).
Definition set_f_count (v : Z) (f : frame) : frame := mkframe (f_ds_first f) (f_type_limit f) (f_ds_offset f) (f_align f) (f_type f) (f_ds_data f) (f_vs_end f) (f_pl_end f) (f_vt_hash f) (f_id_end f) (f_vs_data f) (f_pl_data f) (f_elem_size f) v (f_max_count f) (f_identifier f) (f_mark f) (f_nest_id f) (f_flags f) (f_block_align f).
Definition set_f_max_count (v : Z) (f : frame) : frame := mkframe (f_ds_first f) (f_type_limit f) (f_ds_offset f) (f_align f) (f_type f) (f_ds_data f) (f_vs_end f) (f_pl_end f) (f_vt_hash f) (f_id_end f) (f_vs_data f) (f_pl_data f) (f_elem_size f) (f_count f) v (f_identifier f) (f_mark f) (f_nest_id f) (f_flags f) (f_block_align f).
Definition set_f_identifier (v : Z) (f : frame) : frame := mkframe (f_ds_first f) (f_type_limit f) (f_ds_offset f) (f_align f) (f_type f) (f_ds_data f) (f_vs_end f) (f_pl_end f) (f_vt_hash f) (f_id_end f) (f_vs_data f) (f_pl_data f) (f_elem_size f) (f_count f) (f_max_count f) v (f_mark f) (f_nest_id f) (f_flags f) (f_block_align f).
Definition set_f_mark (v : Z) (f : frame) : frame := mkframe (f_ds_first f) (f_type_limit f) (f_ds_offset f) (f_align f) (f_type f) (f_ds_data f) (f_vs_end f) (f_pl_end f) (f_vt_hash f) (f_id_end f) (f_vs_data f) (f_pl_data f) (f_elem_size f) (f_count f) (f_max_count f) (f_identifier f) v (f_nest_id f) (f_flags f) (f_block_align f).
Definition set_f_nest_id (v : Z) (f : frame) : frame := mkframe (f_ds_first f) (f_type_limit f) (f_ds_offset f) (f_align f) (f_type f) (f_ds_data f) (f_vs_end f) (f_pl_end f) (f_vt_hash f) (f_id_end f) (f_vs_data f) (f_pl_data f) (f_elem_size f) (f_count f) (f_max_count f) (f_identifier f) (f_mark f) v (f_flags f) (f_block_align f).
Definition set_f_flags (v : Z) (f : frame) : frame := mkframe (f_ds_first f) (f_type_limit f) (f_ds_offset f) (f_align f) (f_type f) (f_ds_data f) (f_vs_end f) (f_pl_end f) (f_vt_hash f) (f_id_end f) (f_vs_data f) (f_pl_data f) (f_elem_size f) (f_count f) (f_max_count f) (f_identifier f) (f_mark f) (f_nest_id f) v (f_block_align f).
Definition set_f_block_align (v : Z) (f : frame) : frame := mkframe (f_ds_first f) (f_type_limit f) (f_ds_offset f) (f_align f) (f_type f) (f_ds_data f) (f_vs_end f) (f_pl_end f) (f_vt_hash f) (f_id_end f) (f_vs_data f) (f_pl_data f) (f_elem_size f) (f_count f) (f_max_count f) (f_identifier f) (f_mark f) (f_nest_id f) (f_flags f) v.

Record bstate := mkst {
  caps : capt;
  dem : capt;
  vs_off : Z;
  pl_off : Z;
  id_end : Z;
  vt_hash : Z;
  ds_offset : Z;
  ds_limit : Z;
  ds_first : Z;
  frame_ptr : option Z;
  ht_width : Z;
  vb_end : Z;
  vd_end : Z;
  min_align : Z;
  align : Z;
  block_align : Z;
  emit_start : Z;
  emit_end : Z;
  buffer_mark : Z;
  nest_count : Z;
  nest_id : Z;
  level : Z;
  limit_level : Z;
  buffer_flags : Z;
  identifier : Z;
  vb_flush_limit : Z;
  max_level : Z;
  disable_vt_clustering : Z;
  user_frame_offset : Z;
  user_frame_end : Z;
  frames : list frame;
  ds_data : list Z;
  vs_data : list Z;
  pl_data : list Z;
  us_mem : list (Z * Z);
  vcache : list vdesc;
  e_cap : Z;
  e_used : Z;
  e_avg : Z;
  e_front : Z;
  e_back : Z;
  fa : Z;
  fa_rep : bool;
  fe : Z;
  fe_rep : bool
}.
Definition set_caps (v : capt) (s : bstate) : bstate := mkst v (dem s) (vs_off s) (pl_off s) (id_end s) (vt_hash s) (ds_offset s) (ds_limit s) (ds_first s) (frame_ptr s) (ht_width s) (vb_end s) (vd_end s) (min_align s) (align s) (block_align s) (emit_start s) (emit_end s) (buffer_mark s) (nest_count s) (nest_id s) (level s) (limit_level s) (buffer_flags s) (identifier s) (vb_flush_limit s) (max_level s) (disable_vt_clustering s) (user_frame_offset s) (user_frame_end s) (frames s) (ds_data s) (vs_data s) (pl_data s) (us_mem s) (vcache s) (e_cap s) (e_used s) (e_avg s) (e_front s) (e_back s) (fa s) (fa_rep s) (fe s) (fe_rep s).
Definition set_dem (v : capt) (s : bstate) : bstate := mkst (caps s) v (vs_off s) (pl_off s) (id_end s) (vt_hash s) (ds_offset s) (ds_limit s) (ds_first s) (frame_ptr s) (ht_width s) (vb_end s) (vd_end s) (min_align s) (align s) (block_align s) (emit_start s) (emit_end s) (buffer_mark s) (nest_count s) (nest_id s) (level s) (limit_level s) (buffer_flags s) (identifier s) (vb_flush_limit s) (max_level s) (disable_vt_clustering s) (user_frame_offset s) (user_frame_end s) (frames s) (ds_data s) (vs_data s) (pl_data s) (us_mem s) (vcache s) (e_cap s) (e_used s) (e_avg s) (e_front s) (e_back s) (fa s) (fa_rep s) (fe s) (fe_rep s).
Definition set_vs_off (v : Z) (s : bstate) : bstate := mkst (caps s) (dem s) v (pl_off s) (id_end s) (vt_hash s) (ds_offset s) (ds_limit s) (ds_first s) (frame_ptr s) (ht_width s) (vb_end s) (vd_end s) (min_align s) (align s) (block_align s) (emit_start s) (emit_end s) (buffer_mark s) (nest_count s) (nest_id s) (level s) (limit_level s) (buffer_flags s) (identifier s) (vb_flush_limit s) (max_level s) (disable_vt_clustering s) (user_frame_offset s) (user_frame_end s) (frames s) (ds_data s) (vs_data s) (pl_data s) (us_mem s) (vcache s) (e_cap s) (e_used s) (e_avg s) (e_front s) (e_back s) (fa s) (fa_rep s) (fe s) (fe_rep s).
Definition set_pl_off (v : Z) (s : bstate) : bstate := mkst (caps s) (dem s) (vs_off s) v (id_end s) (vt_hash s) (ds_offset s) (ds_limit s) (ds_first s) (frame_ptr s) (ht_width s) (vb_end s) (vd_end s) (min_align s) (align s) (block_align s) (emit_start s) (emit_end s) (buffer_mark s) (nest_count s) (nest_id s) (level s) (limit_level s) (buffer_flags s) (identifier s) (vb_flush_limit s) (max_level s) (disable_vt_clustering s) (user_frame_offset s) (user_frame_end s) (frames s) (ds_data s) (vs_data s) (pl_data s) (us_mem s) (vcache s) (e_cap s) (e_used s) (e_avg s) (e_front s) (e_back s) (fa s) (fa_rep s) (fe s) (fe_rep s).
Definition set_id_end (v : Z) (s : bstate) : bstate := mkst (caps s) (dem s) (vs_off s) (pl_off s) v (vt_hash s) (ds_offset s) (ds_limit s) (ds_first s) (frame_ptr s) (ht_width s) (vb_end s) (vd_end s) (min_align s) (align s) (block_align s) (emit_start s) (emit_end s) (buffer_mark s) (nest_count s) (nest_id s) (level s) (limit_level s) (buffer_flags s) (identifier s) (vb_flush_limit s) (max_level s) (disable_vt_clustering s) (user_frame_offset s) (user_frame_end s) (frames s) (ds_data s) (vs_data s) (pl_data s) (us_mem s) (vcache s) (e_cap s) (e_used s) (e_avg s) (e_front s) (e_back s) (fa s) (fa_rep s) (fe s) (fe_rep s).
Definition set_vt_hash (v : Z) (s : bstate) : bstate := mkst (caps s) (dem s) (vs_off s) (pl_off s) (id_end s) v (ds_offset s) (ds_limit s) (ds_first s) (frame_ptr s) (ht_width s) (vb_end s) (vd_end s) (min_align s) (align s) (block_align s) (emit_start s) (emit_end s) (buffer_mark s) (nest_count s) (nest_id s) (level s) (limit_level s) (buffer_flags s) (identifier s) (vb_flush_limit s) (max_level s) (disable_vt_clustering s) (user_frame_offset s) (user_frame_end s) (frames s) (ds_data s) (vs_data s) (pl_data s) (us_mem s) (vcache s) (e_cap s) (e_used s) (e_avg s) (e_front s) (e_back s) (fa s) (fa_rep s) (fe s) (fe_rep s).
Definition set_ds_offset (v : Z) (s : bstate) : bstate := mkst (caps s) (dem s) (vs_off s) (pl_off s) (id_end s) (vt_hash s) v (ds_limit s) (ds_first s) (frame_ptr s) (ht_width s) (vb_end s) (vd_end s) (min_align s) (align s) (block_align s) (emit_start s) (emit_end s) (buffer_mark s) (nest_count s) (nest_id s) (level s) (limit_level s) (buffer_flags s) (identifier s) (vb_flush_limit s) (max_level s) (disable_vt_clustering s) (user_frame_offset s) (user_frame_end s) (frames s) (ds_data s) (vs_data s) (pl_data s) (us_mem s) (vcache s) (e_cap s) (e_used s) (e_avg s) (e_front s) (e_back s) (fa s) (fa_rep s) (fe s) (fe_rep s).
Definition set_ds_limit (v : Z) (s : bstate) : bstate := mkst (caps s) (dem s) (vs_off s) (pl_off s) (id_end s) (vt_hash s) (ds_offset s) v (ds_first s) (frame_ptr s) (ht_width s) (vb_end s) (vd_end s) (min_align s) (align s) (block_align s) (emit_start s) (emit_end s) (buffer_mark s) (nest_count s) (nest_id s) (level s) (limit_level s) (buffer_flags s) (identifier s) (vb_flush_limit s) (max_level s) (disable_vt_clustering s) (user_frame_offset s) (user_frame_end s) (frames s) (ds_data s) (vs_data s) (pl_data s) (us_mem s) (vcache s) (e_cap s) (e_used s) (e_avg s) (e_front s) (e_back s) (fa s) (fa_rep s) (fe s) (fe_rep s).
Definition set_ds_first (v : Z) (s : bstate) : bstate := mkst (caps s) (dem s) (vs_off s) (pl_off s) (id_end s) (vt_hash s) (ds_offset s) (ds_limit s) v (frame_ptr s) (ht_width s) (vb_end s) (vd_end s) (min_align s) (align s) (block_align s) (emit_start s) (emit_end s) (buffer_mark s) (nest_count s) (nest_id s) (level s) (limit_level s) (buffer_flags s) (identifier s) (vb_flush_limit s) (max_level s) (disable_vt_clustering s) (user_frame_offset s) (user_frame_end s) (frames s) (ds_data s) (vs_data s) (pl_data s) (us_mem s) (vcache s) (e_cap s) (e_used s) (e_avg s) (e_front s) (e_back s) (fa s) (fa_rep s) (fe s) (fe_rep s).
Definition set_frame_ptr (v : option Z) (s : bstate) : bstate := mkst (caps s) (dem s) (vs_off s) (pl_off s) (id_end s) (vt_hash s) (ds_offset s) (ds_limit s) (ds_first s) v (ht_width s) (vb_end s) (vd_end s) (min_align s) (align s) (block_align s) (emit_start s) (emit_end s) (buffer_mark s) (nest_count s) (nest_id s) (level s) (limit_level s) (buffer_flags s) (identifier s) (vb_flush_limit s) (max_level s) (disable_vt_clustering s) (user_frame_offset s) (user_frame_end s) (frames s) (ds_data s) (vs_data s) (pl_data s) (us_mem s) (vcache s) (e_cap s) (e_used s) (e_avg s) (e_front s) (e_back s) (fa s) (fa_rep s) (fe s) (fe_rep s).
Definition set_ht_width (v : Z) (s : bstate) : bstate := mkst (caps s) (dem s) (vs_off s) (pl_off s) (id_end s) (vt_hash s) (ds_offset s) (ds_limit s) (ds_first s) (frame_ptr s) v (vb_end s) (vd_end s) (min_align s) (align s) (block_align s) (emit_start s) (emit_end s) (buffer_mark s) (nest_count s) (nest_id s) (level s) (limit_level s) (buffer_flags s) (identifier s) (vb_flush_limit s) (max_level s) (disable_vt_clustering s) (user_frame_offset s) (user_frame_end s) (frames s) (ds_data s) (vs_data s) (pl_data s) (us_mem s) (vcache s) (e_cap s) (e_used s) (e_avg s) (e_front s) (e_back s) (fa s) (fa_rep s) (fe s) (fe_rep s).
Definition set_vb_end (v : Z) (s : bstate) : bstate := mkst (caps s) (dem s) (vs_off s) (pl_off s) (id_end s) (vt_hash s) (ds_offset s) (ds_limit s) (ds_first s) (frame_ptr s) (ht_width s) v (vd_end s) (min_align s) (align s) (block_align s) (emit_start s) (emit_end s) (buffer_mark s) (nest_count s) (nest_id s) (level s) (limit_level s) (buffer_flags s) (identifier s) (vb_flush_limit s) (max_level s) (disable_vt_clustering s) (user_frame_offset s) (user_frame_end s) (frames s) (ds_data s) (vs_data s) (pl_data s) (us_mem s) (vcache s) (e_cap s) (e_used s) (e_avg s) (e_front s) (e_back s) (fa s) (fa_rep s) (fe s) (fe_rep s).
Definition set_vd_end (v : Z) (s : bstate) : bstate := mkst (caps s) (dem s) (vs_off s) (pl_off s) (id_end s) (vt_hash s) (ds_offset s) (ds_limit s) (ds_first s) (frame_ptr s) (ht_width s) (vb_end s) v (min_align s) (align s) (block_align s) (emit_start s) (emit_end s) (buffer_mark s) (nest_count s) (nest_id s) (level s) (limit_level s) (buffer_flags s) (identifier s) (vb_flush_limit s) (max_level s) (disable_vt_clustering s) (user_frame_offset s) (user_frame_end s) (frames s) (ds_data s) (vs_data s) (pl_data s) (us_mem s) (vcache s) (e_cap s) (e_used s) (e_avg s) (e_front s) (e_back s) (fa s) (fa_rep s) (fe s) (fe_rep s).
Definition set_min_align (v : Z) (s : bstate) : bstate := mkst (caps s) (dem s) (vs_off s) (pl_off s) (id_end s) (vt_hash s) (ds_offset s) (ds_limit s) (ds_first s) (frame_ptr s) (ht_width s) (vb_end s) (vd_end s) v (align s) (block_align s) (emit_start s) (emit_end s) (buffer_mark s) (nest_count s) (nest_id s) (level s) (limit_level s) (buffer_flags s) (identifier s) (vb_flush_limit s) (max_level s) (disable_vt_clustering s) (user_frame_offset s) (user_frame_end s) (frames s) (ds_data s) (vs_data s) (pl_data s) (us_mem s) (vcache s) (e_cap s) (e_used s) (e_avg s) (e_front s) (e_back s) (fa s) (fa_rep s) (fe s) (fe_rep s).
Definition set_align (v : Z) (s : bstate) : bstate := mkst (caps s) (dem s) (vs_off s) (pl_off s) (id_end s) (vt_hash s) (ds_offset s) (ds_limit s) (ds_first s) (frame_ptr s) (ht_width s) (vb_end s) (vd_end s) (min_align s) v (block_align s) (emit_start s) (emit_end s) (buffer_mark s) (nest_count s) (nest_id s) (level s) (limit_level s) (buffer_flags s) (identifier s) (vb_flush_limit s) (max_level s) (disable_vt_clustering s) (user_frame_offset s) (user_frame_end s) (frames s) (ds_data s) (vs_data s) (pl_data s) (us_mem s) (vcache s) (e_cap s) (e_used s) (e_avg s) (e_front s) (e_back s) (fa s) (fa_rep s) (fe s) (fe_rep s).
Definition set_block_align (v : Z) (s : bstate) : bstate := mkst (caps s) (dem s) (vs_off s) (pl_off s) (id_end s) (vt_hash s) (ds_offset s) (ds_limit s) (ds_first s) (frame_ptr s) (ht_width s) (vb_end s) (vd_end s) (min_align s) (align s) v (emit_start s) (emit_end s) (buffer_mark s) (nest_count s) (nest_id s) (level s) (limit_level s) (buffer_flags s) (identifier s) (vb_flush_limit s) (max_level s) (disable_vt_clustering s) (user_frame_offset s) (user_frame_end s) (frames s) (ds_data s) (vs_data s) (pl_data s) (us_mem s) (vcache s) (e_cap s) (e_used s) (e_avg s) (e_front s) (e_back s) (fa s) (fa_rep s) (fe s) (fe_rep s).
Definition set_emit_start (v : Z) (s : bstate) : bstate := mkst (caps s) (dem s) (vs_off s) (pl_off s) (id_end s) (vt_hash s) (ds_offset s) (ds_limit s) (ds_first s) (frame_ptr s) (ht_width s) (vb_end s) (vd_end s) (min_align s) (align s) (block_align s) v (emit_end s) (buffer_mark s) (nest_count s) (nest_id s) (level s) (limit_level s) (buffer_flags s) (identifier s) (vb_flush_limit s) (max_level s) (disable_vt_clustering s) (user_frame_offset s) (user_frame_end s) (frames s) (ds_data s) (vs_data s) (pl_data s) (us_mem s) (vcache s) (e_cap s) (e_used s) (e_avg s) (e_front s) (e_back s) (fa s) (fa_rep s) (fe s) (fe_rep s).
Definition set_emit_end (v : Z) (s : bstate) : bstate := mkst (caps s) (dem s) (vs_off s) (pl_off s) (id_end s) (vt_hash s) (ds_offset s) (ds_limit s) (ds_first s) (frame_ptr s) (ht_width s) (vb_end s) (vd_end s) (min_align s) (align s) (block_align s) (emit_start s) v (buffer_mark s) (nest_count s) (nest_id s) (level s) (limit_level s) (buffer_flags s) (identifier s) (vb_flush_limit s) (max_level s) (disable_vt_clustering s) (user_frame_offset s) (user_frame_end s) (frames s) (ds_data s) (vs_data s) (pl_data s) (us_mem s) (vcache s) (e_cap s) (e_used s) (e_avg s) (e_front s) (e_back s) (fa s) (fa_rep s) (fe s) (fe_rep s).
Definition set_buffer_mark (v : Z) (s : bstate) : bstate := mkst (caps s) (dem s) (vs_off s) (pl_off s) (id_end s) (vt_hash s) (ds_offset s) (ds_limit s) (ds_first s) (frame_ptr s) (ht_width s) (vb_end s) (vd_end s) (min_align s) (align s) (block_align s) (emit_start s) (emit_end s) v (nest_count s) (nest_id s) (level s) (limit_level s) (buffer_flags s) (identifier s) (vb_flush_limit s) (max_level s) (disable_vt_clustering s) (user_frame_offset s) (user_frame_end s) (frames s) (ds_data s) (vs_data s) (pl_data s) (us_mem s) (vcache s) (e_cap s) (e_used s) (e_avg s) (e_front s) (e_back s) (fa s) (fa_rep s) (fe s) (fe_rep s).
Definition set_nest_count (v : Z) (s : bstate) : bstate := mkst (caps s) (dem s) (vs_off s) (pl_off s) (id_end s) (vt_hash s) (ds_offset s) (ds_limit s) (ds_first s) (frame_ptr s) (ht_width s) (vb_end s) (vd_end s) (min_align s) (align s) (block_align s) (emit_start s) (emit_end s) (buffer_mark s) v (nest_id s) (level s) (limit_level s) (buffer_flags s) (identifier s) (vb_flush_limit s) (max_level s) (disable_vt_clustering s) (user_frame_offset s) (user_frame_end s) (frames s) (ds_data s) (vs_data s) (pl_data s) (us_mem s) (vcache s) (e_cap s) (e_used s) (e_avg s) (e_front s) (e_back s) (fa s) (fa_rep s) (fe s) (fe_rep s).
Definition set_nest_id (v : Z) (s : bstate) : bstate := mkst (caps s) (dem s) (vs_off s) (pl_off s) (id_end s) (vt_hash s) (ds_offset s) (ds_limit s) (ds_first s) (frame_ptr s) (ht_width s) (vb_end s) (vd_end s) (min_align s) (align s) (block_align s) (emit_start s) (emit_end s) (buffer_mark s) (nest_count s) v (level s) (limit_level s) (buffer_flags s) (identifier s) (vb_flush_limit s) (max_level s) (disable_vt_clustering s) (user_frame_offset s) (user_frame_end s) (frames s) (ds_data s) (vs_data s) (pl_data s) (us_mem s) (vcache s) (e_cap s) (e_used s) (e_avg s) (e_front s) (e_back s) (fa s) (fa_rep s) (fe s) (fe_rep s).
Definition set_level (v : Z) (s : bstate) : bstate := mkst (caps s) (dem s) (vs_off s) (pl_off s) (id_end s) (vt_hash s) (ds_offset s) (ds_limit s) (ds_first s) (frame_ptr s) (ht_width s) (vb_end s) (vd_end s) (min_align s) (align s) (block_align s) (emit_start s) (emit_end s) (buffer_mark s) (nest_count s) (nest_id s) v (limit_level s) (buffer_flags s) (identifier s) (vb_flush_limit s) (max_level s) (disable_vt_clustering s) (user_frame_offset s) (user_frame_end s) (frames s) (ds_data s) (vs_data s) (pl_data s) (us_mem s) (vcache s) (e_cap s) (e_used s) (e_avg s) (e_front s) (e_back s) (fa s) (fa_rep s) (fe s) (fe_rep s).
Definition set_limit_level (v : Z) (s : bstate) : bstate := mkst (caps s) (dem s) (vs_off s) (pl_off s) (id_end s) (vt_hash s) (ds_offset s) (ds_limit s) (ds_first s) (frame_ptr s) (ht_width s) (vb_end s) (vd_end s) (min_align s) (align s) (block_align s) (emit_start s) (emit_end s) (buffer_mark s) (nest_count s) (nest_id s) (level s) v (buffer_flags s) (identifier s) (vb_flush_limit s) (max_level s) (disable_vt_clustering s) (user_frame_offset s) (user_frame_end s) (frames s) (ds_data s) (vs_data s) (pl_data s) (us_mem s) (vcache s) (e_cap s) (e_used s) (e_avg s) (e_front s) (e_back s) (fa s) (fa_rep s) (fe s) (fe_rep s).
Definition set_buffer_flags (v : Z) (s : bstate) : bstate := mkst (caps s) (dem s) (vs_off s) (pl_off s) (id_end s) (vt_hash s) (ds_offset s) (ds_limit s) (ds_first s) (frame_ptr s) (ht_width s) (vb_end s) (vd_end s) (min_align s) (align s) (block_align s) (emit_start s) (emit_end s) (buffer_mark s) (nest_count s) (nest_id s) (level s) (limit_level s) v (identifier s) (vb_flush_limit s) (max_level s) (disable_vt_clustering s) (user_frame_offset s) (user_frame_end s) (frames s) (ds_data s) (vs_data s) (pl_data s) (us_mem s) (vcache s) (e_cap s) (e_used s) (e_avg s) (e_front s) (e_back s) (fa s) (fa_rep s) (fe s) (fe_rep s).
Definition set_identifier (v : Z) (s : bstate) : bstate := mkst (caps s) (dem s) (vs_off s) (pl_off s) (id_end s) (vt_hash s) (ds_offset s) (ds_limit s) (ds_first s) (frame_ptr s) (ht_width s) (vb_end s) (vd_end s) (min_align s) (align s) (block_align s) (emit_start s) (emit_end s) (buffer_mark s) (nest_count s) (nest_id s) (level s) (limit_level s) (buffer_flags s) v (vb_flush_limit s) (max_level s) (disable_vt_clustering s) (user_frame_offset s) (user_frame_end s) (frames s) (ds_data s) (vs_data s) (pl_data s) (us_mem s) (vcache s) (e_cap s) (e_used s) (e_avg s) (e_front s) (e_back s) (fa s) (fa_rep s) (fe s) (fe_rep s).
Definition set_vb_flush_limit (v : Z) (s : bstate) : bstate := mkst (caps s) (dem s) (vs_off s) (pl_off s) (id_end s) (vt_hash s) (ds_offset s) (ds_limit s) (ds_first s) (frame_ptr s) (ht_width s) (vb_end s) (vd_end s) (min_align s) (align s) (block_align s) (emit_start s) (emit_end s) (buffer_mark s) (nest_count s) (nest_id s) (level s) (limit_level s) (buffer_flags s) (identifier s) v (max_level s) (disable_vt_clustering s) (user_frame_offset s) (user_frame_end s) (frames s) (ds_data s) (vs_data s) (pl_data s) (us_mem s) (vcache s) (e_cap s) (e_used s) (e_avg s) (e_front s) (e_back s) (fa s) (fa_rep s) (fe s) (fe_rep s).
Definition set_max_level (v : Z) (s : bstate) : bstate := mkst (caps s) (dem s) (vs_off s) (pl_off s) (id_end s) (vt_hash s) (ds_offset s) (ds_limit s) (ds_first s) (frame_ptr s) (ht_width s) (vb_end s) (vd_end s) (min_align s) (align s) (block_align s) (emit_start s) (emit_end s) (buffer_mark s) (nest_count s) (nest_id s) (level s) (limit_level s) (buffer_flags s) (identifier s) (vb_flush_limit s) v (disable_vt_clustering s) (user_frame_offset s) (user_frame_end s) (frames s) (ds_data s) (vs_data s) (pl_data s) (us_mem s) (vcache s) (e_cap s) (e_used s) (e_avg s) (e_front s) (e_back s) (fa s) (fa_rep s) (fe s) (fe_rep s).
Definition set_disable_vt_clustering (v : Z) (s : bstate) : bstate := mkst (caps s) (dem s) (vs_off s) (pl_off s) (id_end s) (vt_hash s) (ds_offset s) (ds_limit s) (ds_first s) (frame_ptr s) (ht_width s) (vb_end s) (vd_end s) (min_align s) (align s) (block_align s) (emit_start s) (emit_end s) (buffer_mark s) (nest_count s) (nest_id s) (level s) (limit_level s) (buffer_flags s) (identifier s) (vb_flush_limit s) (max_level s) v (user_frame_offset s) (user_frame_end s) (frames s) (ds_data s) (vs_data s) (pl_data s) (us_mem s) (vcache s) (e_cap s) (e_used s) (e_avg s) (e_front s) (e_back s) (fa s) (fa_rep s) (fe s) (fe_rep s).
Definition set_user_frame_offset (v : Z) (s : bstate) : bstate := mkst (caps s) (dem s) (vs_off s) (pl_off s) (id_end s) (vt_hash s) (ds_offset s) (ds_limit s) (ds_first s) (frame_ptr s) (ht_width s) (vb_end s) (vd_end s) (min_align s) (align s) (block_align s) (emit_start s) (emit_end s) (buffer_mark s) (nest_count s) (nest_id s) (level s) (limit_level s) (buffer_flags s) (identifier s) (vb_flush_limit s) (max_level s) (disable_vt_clustering s) v (user_frame_end s) (frames s) (ds_data s) (vs_data s) (pl_data s) (us_mem s) (vcache s) (e_cap s) (e_used s) (e_avg s) (e_front s) (e_back s) (fa s) (fa_rep s) (fe s) (fe_rep s).
Definition set_user_frame_end (v : Z) (s : bstate) : bstate := mkst (caps s) (dem s) (vs_off s) (pl_off s) (id_end s) (vt_hash s) (ds_offset s) (ds_limit s) (ds_first s) (frame_ptr s) (ht_width s) (vb_end s) (vd_end s) (min_align s) (align s) (block_align s) (emit_start s) (emit_end s) (buffer_mark s) (nest_count s) (nest_id s) (level s) (limit_level s) (buffer_flags s) (identifier s) (vb_flush_limit s) (max_level s) (disable_vt_clustering s) (user_frame_offset s) v (frames s) (ds_data s) (vs_data s) (pl_data s) (us_mem s) (vcache s) (e_cap s) (e_used s) (e_avg s) (e_front s) (e_back s) (fa s) (fa_rep s) (fe s) (fe_rep s).
Definition set_frames (v : list frame) (s : bstate) : bstate := mkst (caps s) (dem s) (vs_off s) (pl_off s) (id_end s) (vt_hash s) (ds_offset s) (ds_limit s) (ds_first s) (frame_ptr s) (ht_width s) (vb_end s) (vd_end s) (min_align s) (align s) (block_align s) (emit_start s) (emit_end s) (buffer_mark s) (nest_count s) (nest_id s) (level s) (limit_level s) (buffer_flags s) (identifier s) (vb_flush_limit s) (max_level s) (disable_vt_clustering s) (user_frame_offset s) (user_frame_end s) v (ds_data s) (vs_data s) (pl_data s) (us_mem s) (vcache s) (e_cap s) (e_used s) (e_avg s) (e_front s) (e_back s) (fa s) (fa_rep s) (fe s) (fe_rep s).
Definition set_ds_data (v : list Z) (s : bstate) : bstate := mkst (caps s) (dem s) (vs_off s) (pl_off s) (id_end s) (vt_hash s) (ds_offset s) (ds_limit s) (ds_first s) (frame_ptr s) (ht_width s) (vb_end s) (vd_end s) (min_align s) (align s) (block_align s) (emit_start s) (emit_end s) (buffer_mark s) (nest_count s) (nest_id s) (level s) (limit_level s) (buffer_flags s) (identifier s) (vb_flush_limit s) (max_level s) (disable_vt_clustering s) (user_frame_offset s) (user_frame_end s) (frames s) v (vs_data s) (pl_data s) (us_mem s) (vcache s) (e_cap s) (e_used s) (e_avg s) (e_front s) (e_back s) (fa s) (fa_rep s) (fe s) (fe_rep s).
Definition set_vs_data (v : list Z) (s : bstate) : bstate := mkst (caps s) (dem s) (vs_off s) (pl_off s) (id_end s) (vt_hash s) (ds_offset s) (ds_limit s) (ds_first s) (frame_ptr s) (ht_width s) (vb_end s) (vd_end s) (min_align s) (align s) (block_align s) (emit_start s) (emit_end s) (buffer_mark s) (nest_count s) (nest_id s) (level s) (limit_level s) (buffer_flags s) (identifier s) (vb_flush_limit s) (max_level s) (disable_vt_clustering s) (user_frame_offset s) (user_frame_end s) (frames s) (ds_data s) v (pl_data s) (us_mem s) (vcache s) (e_cap s) (e_used s) (e_avg s) (e_front s) (e_back s) (fa s) (fa_rep s) (fe s) (fe_rep s).
Definition set_pl_data (v : list Z) (s : bstate) : bstate := mkst (caps s) (dem s) (vs_off s) (pl_off s) (id_end s) (vt_hash s) (ds_offset s) (ds_limit s) (ds_first s) (frame_ptr s) (ht_width s) (vb_end s) (vd_end s) (min_align s) (align s) (block_align s) (emit_start s) (emit_end s) (buffer_mark s) (nest_count s) (nest_id s) (level s) (limit_level s) (buffer_flags s) (identifier s) (vb_flush_limit s) (max_level s) (disable_vt_clustering s) (user_frame_offset s) (user_frame_end s) (frames s) (ds_data s) (vs_data s) v (us_mem s) (vcache s) (e_cap s) (e_used s) (e_avg s) (e_front s) (e_back s) (fa s) (fa_rep s) (fe s) (fe_rep s).
Definition set_us_mem (v : list (Z * Z)) (s : bstate) : bstate := mkst (caps s) (dem s) (vs_off s) (pl_off s) (id_end s) (vt_hash s) (ds_offset s) (ds_limit s) (ds_first s) (frame_ptr s) (ht_width s) (vb_end s) (vd_end s) (min_align s) (align s) (block_align s) (emit_start s) (emit_end s) (buffer_mark s) (nest_count s) (nest_id s) (level s) (limit_level s) (buffer_flags s) (identifier s) (vb_flush_limit s) (max_level s) (disable_vt_clustering s) (user_frame_offset s) (user_frame_end s) (frames s) (ds_data s) (vs_data s) (pl_data s) v (vcache s) (e_cap s) (e_used s) (e_avg s) (e_front s) (e_back s) (fa s) (fa_rep s) (fe s) (fe_rep s).
Definition set_vcache (v : list vdesc) (s : bstate) : bstate := mkst (caps s) (dem s) (vs_off s) (pl_off s) (id_end s) (vt_hash s) (ds_offset s) (ds_limit s) (ds_first s) (frame_ptr s) (ht_width s) (vb_end s) (vd_end s) (min_align s) (align s) (block_align s) (emit_start s) (emit_end s) (buffer_mark s) (nest_count s) (nest_id s) (level s) (limit_level s) (buffer_flags s) (identifier s) (vb_flush_limit s) (max_level s) (disable_vt_clustering s) (user_frame_offset s) (user_frame_end s) (frames s) (ds_data s) (vs_data s) (pl_data s) (us_mem s) v (e_cap s) (e_used s) (e_avg s) (e_front s) (e_back s) (fa s) (fa_rep s) (fe s) (fe_rep s).
Definition set_e_cap (v : Z) (s : bstate) : bstate := mkst (caps s) (dem s) (vs_off s) (pl_off s) (id_end s) (vt_hash s) (ds_offset s) (ds_limit s) (ds_first s) (frame_ptr s) (ht_width s) (vb_end s) (vd_end s) (min_align s) (align s) (block_align s) (emit_start s) (emit_end s) (buffer_mark s) (nest_count s) (nest_id s) (level s) (limit_level s) (buffer_flags s) (identifier s) (vb_flush_limit s) (max_level s) (disable_vt_clustering s) (user_frame_offset s) (user_frame_end s) (frames s) (ds_data s) (vs_data s) (pl_data s) (us_mem s) (vcache s) v (e_used s) (e_avg s) (e_front s) (e_back s) (fa s) (fa_rep s) (fe s) (fe_rep s).
Definition set_e_used (v : Z) (s : bstate) : bstate := mkst (caps s) (dem s) (vs_off s) (pl_off s) (id_end s) (vt_hash s) (ds_offset s) (ds_limit s) (ds_first s) (frame_ptr s) (ht_width s) (vb_end s) (vd_end s) (min_align s) (align s) (block_align s) (emit_start s) (emit_end s) (buffer_mark s) (nest_count s) (nest_id s) (level s) (limit_level s) (buffer_flags s) (identifier s) (vb_flush_limit s) (max_level s) (disable_vt_clustering s) (user_frame_offset s) (user_frame_end s) (frames s) (ds_data s) (vs_data s) (pl_data s) (us_mem s) (vcache s) (e_cap s) v (e_avg s) (e_front s) (e_back s) (fa s) (fa_rep s) (fe s) (fe_rep s).
Definition set_e_avg (v : Z) (s : bstate) : bstate := mkst (caps s) (dem s) (vs_off s) (pl_off s) (id_end s) (vt_hash s) (ds_offset s) (ds_limit s) (ds_first s) (frame_ptr s) (ht_width s) (vb_end s) (vd_end s) (min_align s) (align s) (block_align s) (emit_start s) (emit_end s) (buffer_mark s) (nest_count s) (nest_id s) (level s) (limit_level s) (buffer_flags s) (identifier s) (vb_flush_limit s) (max_level s) (disable_vt_clustering s) (user_frame_offset s) (user_frame_end s) (frames s) (ds_data s) (vs_data s) (pl_data s) (us_mem s) (vcache s) (e_cap s) (e_used s) v (e_front s) (e_back s) (fa s) (fa_rep s) (fe s) (fe_rep s).
Definition set_e_front (v : Z) (s : bstate) : bstate := mkst (caps s) (dem s) (vs_off s) (pl_off s) (id_end s) (vt_hash s) (ds_offset s) (ds_limit s) (ds_first s) (frame_ptr s) (ht_width s) (vb_end s) (vd_end s) (min_align s) (align s) (block_align s) (emit_start s) (emit_end s) (buffer_mark s) (nest_count s) (nest_id s) (level s) (limit_level s) (buffer_flags s) (identifier s) (vb_flush_limit s) (max_level s) (disable_vt_clustering s) (user_frame_offset s) (user_frame_end s) (frames s) (ds_data s) (vs_data s) (pl_data s) (us_mem s) (vcache s) (e_cap s) (e_used s) (e_avg s) v (e_back s) (fa s) (fa_rep s) (fe s) (fe_rep s).
Definition set_e_back (v : Z) (s : bstate) : bstate := mkst (caps s) (dem s) (vs_off s) (pl_off s) (id_end s) (vt_hash s) (ds_offset s) (ds_limit s) (ds_first s) (frame_ptr s) (ht_width s) (vb_end s) (vd_end s) (min_align s) (align s) (block_align s) (emit_start s) (emit_end s) (buffer_mark s) (nest_count s) (nest_id s) (level s) (limit_level s) (buffer_flags s) (identifier s) (vb_flush_limit s) (max_level s) (disable_vt_clustering s) (user_frame_offset s) (user_frame_end s) (frames s) (ds_data s) (vs_data s) (pl_data s) (us_mem s) (vcache s) (e_cap s) (e_used s) (e_avg s) (e_front s) v (fa s) (fa_rep s) (fe s) (fe_rep s).
Definition set_fa (v : Z) (s : bstate) : bstate := mkst (caps s) (dem s) (vs_off s) (pl_off s) (id_end s) (vt_hash s) (ds_offset s) (ds_limit s) (ds_first s) (frame_ptr s) (ht_width s) (vb_end s) (vd_end s) (min_align s) (align s) (block_align s) (emit_start s) (emit_end s) (buffer_mark s) (nest_count s) (nest_id s) (level s) (limit_level s) (buffer_flags s) (identifier s) (vb_flush_limit s) (max_level s) (disable_vt_clustering s) (user_frame_offset s) (user_frame_end s) (frames s) (ds_data s) (vs_data s) (pl_data s) (us_mem s) (vcache s) (e_cap s) (e_used s) (e_avg s) (e_front s) (e_back s) v (fa_rep s) (fe s) (fe_rep s).
Definition set_fa_rep (v : bool) (s : bstate) : bstate := mkst (caps s) (dem s) (vs_off s) (pl_off s) (id_end s) (vt_hash s) (ds_offset s) (ds_limit s) (ds_first s) (frame_ptr s) (ht_width s) (vb_end s) (vd_end s) (min_align s) (align s) (block_align s) (emit_start s) (emit_end s) (buffer_mark s) (nest_count s) (nest_id s) (level s) (limit_level s) (buffer_flags s) (identifier s) (vb_flush_limit s) (max_level s) (disable_vt_clustering s) (user_frame_offset s) (user_frame_end s) (frames s) (ds_data s) (vs_data s) (pl_data s) (us_mem s) (vcache s) (e_cap s) (e_used s) (e_avg s) (e_front s) (e_back s) (fa s) v (fe s) (fe_rep s).
Definition set_fe (v : Z) (s : bstate) : bstate := mkst (caps s) (dem s) (vs_off s) (pl_off s) (id_end s) (vt_hash s) (ds_offset s) (ds_limit s) (ds_first s) (frame_ptr s) (ht_width s) (vb_end s) (vd_end s) (min_align s) (align s) (block_align s) (emit_start s) (emit_end s) (buffer_mark s) (nest_count s) (nest_id s) (level s) (limit_level s) (buffer_flags s) (identifier s) (vb_flush_limit s) (max_level s) (disable_vt_clustering s) (user_frame_offset s) (user_frame_end s) (frames s) (ds_data s) (vs_data s) (pl_data s) (us_mem s) (vcache s) (e_cap s) (e_used s) (e_avg s) (e_front s) (e_back s) (fa s) (fa_rep s) v (fe_rep s).
Definition set_fe_rep (v : bool) (s : bstate) : bstate := mkst (caps s) (dem s) (vs_off s) (pl_off s) (id_end s) (vt_hash s) (ds_offset s) (ds_limit s) (ds_first s) (frame_ptr s) (ht_width s) (vb_end s) (vd_end s) (min_align s) (align s) (block_align s) (emit_start s) (emit_end s) (buffer_mark s) (nest_count s) (nest_id s) (level s) (limit_level s) (buffer_flags s) (identifier s) (vb_flush_limit s) (max_level s) (disable_vt_clustering s) (user_frame_offset s) (user_frame_end s) (frames s) (ds_data s) (vs_data s) (pl_data s) (us_mem s) (vcache s) (e_cap s) (e_used s) (e_avg s) (e_front s) (e_back s) (fa s) (fa_rep s) (fe s) v.

(* memset(B, 0, sizeof B) + defaults: flatcc_builder_custom_init *)
Definition st_init : bstate :=
  mkst caps0 caps0 0 0 0 0 0 0 0 None 0 0 0 0 0 0 0 0 0 0 0 0 0 0 0 0 0 0 0 0 [] [] [] [] [] [] 0 0 0 0 0 (-1) false (-1) false.

Definition frame0 : frame := mkframe 0 0 0 0 0 [] 0 0 0 0 [] [] 0 0 0 0 0 0 0 0.

(* ------------------------------------------------------------------ the call monad *)
Inductive outcome (A : Type) : Type :=
| Ret (a : A) (s : bstate) (ev : list event)
| Fault.
Arguments Ret {A} a s ev.
Arguments Fault {A}.
Definition M (A : Type) : Type := bstate -> outcome A.
Definition ret {A} (a : A) : M A := fun s => Ret a s [].
Definition bind {A B} (m : M A) (f : A -> M B) : M B :=
  fun s => match m s with
           | Fault => Fault
           | Ret a s1 e1 => match f a s1 with
                            | Fault => Fault
                            | Ret b s2 e2 => Ret b s2 (e1 ++ e2)
                            end
           end.
Notation "x <- m ;; k" := (bind m (fun x => k)) (at level 61, m at next level, right associativity).
Notation "m ;;; k" := (bind m (fun _ => k)) (at level 61, right associativity).
Definition get {A} (f : bstate -> A) : M A := fun s => Ret (f s) s [].
Definition upd (f : bstate -> bstate) : M unit := fun s => Ret tt (f s) [].
Definition fault {A} : M A := fun _ => Fault.
(* frame(x): B->frame[0].x *)
Definition top {A} (f : frame -> A) : M A :=
  fun s => match frames s with [] => Fault | fr :: _ => Ret (f fr) s [] end.
Definition set_top (g : frame -> frame) : M unit :=
  fun s => match frames s with [] => Fault | fr :: r => Ret tt (set_frames (g fr :: r) s) [] end.
(* the same store when a frame is known to be open (refresh_ds is only reached with an open frame) *)
Definition set_top_nf (g : frame -> frame) : M unit :=
  fun s => match frames s with [] => Ret tt s [] | fr :: r => Ret tt (set_frames (g fr :: r) s) [] end.
(* check(frame(type) == t, ...): an assert in C; a contract violation here *)
Definition expect_type (t : Z) : M unit :=
  ty <- top f_type ;; if ty =? t then ret tt else fault.

(* ------------------------------------------------------------------ allocator and emitter callbacks *)
(* B->alloc(B->alloc_context, buf, request, zero_fill, kind) with the default allocator; true = returned 0 *)
Definition alloc_call (k : bk) (req : Z) : M bool :=
  fun s =>
    if fa s =? 0 then Ret false (if fa_rep s then s else set_fa (-1) s) []
    else
      let s1 := if 0 <? fa s then set_fa (fa s - 1) s else s in
      Ret true (set_caps (cap_set k (default_alloc k (cap_get k (caps s)) req) (caps s)) s1) [].

(* ghost: high-water mark of the bytes needed in buffer k since the last reset (not kept for vd / ht) *)
Definition note_demand (k : bk) (r : Z) : M unit :=
  match k with
  | VD | HT => ret tt
  | _ => upd (fun s => set_dem (cap_set k (zmax (cap_get k (dem s)) r) (dem s)) s)
  end.

(* reserve_buffer: the returned pointer is base + used; true = non-null *)
Definition reserve_raw (k : bk) (used need : Z) : M bool :=
  fun s => if cap_get k (caps s) <? used + need then alloc_call k (used + need) s else Ret true s [].
Definition reserve_buffer (k : bk) (used need : Z) : M bool :=
  note_demand k (used + need) ;;; reserve_raw k used need.

(* page accounting of the default emitter: the ring grows when front and back need more pages than it has *)
Definition pages_side (n : Z) : Z :=
  if n <=? PAGE_SIZE / 2 then 0 else (n - PAGE_SIZE / 2 + PAGE_SIZE - 1) / PAGE_SIZE.
Definition emitter_emit (ref len : Z) (s : bstate) : bstate :=
  let s1 := set_e_used (e_used s + len) s in
  let s2 := if ref <? 0 then set_e_front (e_front s1 + len) s1 else set_e_back (e_back s1 + len) s1 in
  if len =? 0 then s2 else
  set_e_cap (zmax (e_cap s2) (PAGE_SIZE * (1 + pages_side (e_front s2) + pages_side (e_back s2)))) s2.

(* B->emit(B->emit_context, iov, count, ref, len); true = returned 0 *)
Definition emit_call (ref : Z) (kind : Z) (bytes tag : list Z) : M bool :=
  fun s =>
    if fe s =? 0 then Ret false (if fe_rep s then s else set_fe (-1) s) []
    else
      let s1 := if 0 <? fe s then set_fe (fe s - 1) s else s in
      Ret true (emitter_emit ref (zlen bytes) s1) [mkev ref kind (nest_id s) bytes tag].

(* flatcc_emitter_reset *)
Fixpoint drop_pages (fuel : nat) (cap avg : Z) : Z :=
  match fuel with
  | O => cap
  | S f => if (avg * 2 <? cap) && (PAGE_SIZE <? cap) then drop_pages f (cap - PAGE_SIZE) avg else cap
  end.
Definition emitter_reset (s : bstate) : bstate :=
  if e_cap s =? 0 then s else
  let a0 := if e_avg s =? 0 then e_used s else e_avg s in
  let a := a0 * 3 / 4 + e_used s / 4 in
  set_e_cap (drop_pages (Z.to_nat (e_cap s / PAGE_SIZE)) (e_cap s) a)
    (set_e_avg a (set_e_used 0 (set_e_front 0 (set_e_back 0 s)))).

(* ------------------------------------------------------------------ ds stack *)
Definition raise_min_align (a : Z) : M unit :=
  m <- get min_align ;; if m <? a then upd (set_min_align a) else ret tt.

(* refresh_ds(B, type_limit) *)
Definition refresh_ds (type_limit : Z) : M unit :=
  c <- get (fun s => c_ds (caps s)) ;; f <- get ds_first ;;
  let l := u32 (c - f) in
  upd (set_ds_limit (if type_limit <? l then type_limit else l)) ;;;
  set_top_nf (set_f_type_limit type_limit).

(* reserve_ds: always calls the allocator *)
Definition reserve_ds (need limit : Z) : M bool :=
  f <- get ds_first ;;
  ok <- alloc_call DS (f + need) ;;
  if ok then refresh_ds limit ;;; ret true else ret false.

(* `if (ds_offset >= ds_limit) reserve_ds(...)` (strict = false) / `if (ds_offset > ds_limit)` (strict = true) *)
Definition ensure_ds (strict : bool) (o' need limit : Z) : M bool :=
  f <- get ds_first ;; note_demand DS (f + need) ;;;
  lim <- get ds_limit ;;
  if (if strict then lim <? o' else lim <=? o') then reserve_ds need limit else ret true.

(* push_ds: the caller then writes [data] through the returned pointer *)
Definition push_ds (size : Z) (data : list Z) : M bool :=
  o <- get ds_offset ;;
  let o' := u32 (o + size) in
  upd (set_ds_offset o') ;;;
  ok <- ensure_ds false o' (o' + 1) DATA_LIMIT ;;
  if ok then d <- get ds_data ;; upd (set_ds_data (d ++ fit size data)) ;;; ret true else ret false.

(* unpush_ds *)
Definition unpush_ds (size : Z) : M unit :=
  o <- get ds_offset ;; d <- get ds_data ;;
  upd (set_ds_offset (u32 (o - size))) ;;; upd (set_ds_data (firstn (Z.to_nat (o - size)) d)).

(* ------------------------------------------------------------------ frames *)
(* the frame-pointer part of enter_frame for the new level lv: reserve / ++B->frame; true = a frame is available *)
Definition frame_slot (lv : Z) : M bool :=
  ll <- get limit_level ;; ml <- get max_level ;;
  (if (0 <? ml) && (ml <? lv) then ret tt else note_demand FS (lv * FRAME_SIZE)) ;;;
  if ll <? lv then
    if (0 <? ml) && (ml <? lv) then ret false
    else
      r <- reserve_raw FS ((lv - 1) * FRAME_SIZE) FRAME_SIZE ;;
      if r then
        upd (set_frame_ptr (Some ((lv - 1) * FRAME_SIZE))) ;;;
        c <- get (fun s => c_fs (caps s)) ;;
        let l := c / FRAME_SIZE in
        upd (set_limit_level (if (0 <? ml) && (ml <? l) then ml else l)) ;;; ret true
      else ret false
  else
    (* ++B->frame *)
    p <- get frame_ptr ;; c <- get (fun s => c_fs (caps s)) ;;
    match p with
    | None => fault
    | Some q => if (q + FRAME_SIZE <? 0) || (c <? q + 2 * FRAME_SIZE) then fault
                else upd (set_frame_ptr (Some (q + FRAME_SIZE))) ;;; ret true
    end.

(* enter_frame; true = returned 0 *)
Definition enter_frame (a : Z) : M bool :=
  lv0 <- get level ;;
  let lv := lv0 + 1 in
  upd (set_level lv) ;;;
  ok <- frame_slot lv ;;
  if ok then
    o <- get ds_offset ;; al <- get align ;; f <- get ds_first ;; d <- get ds_data ;;
    fs <- get frames ;;
    upd (set_frames (set_f_ds_offset o (set_f_align al (set_f_ds_first f (set_f_type_limit DATA_LIMIT
                       (set_f_ds_data d frame0)))) :: fs)) ;;;
    upd (set_align a) ;;;
    upd (set_ds_first (alignup (u32 (f + o)) 8)) ;;;
    upd (set_ds_offset 0) ;;; upd (set_ds_data []) ;;; ret true
  else ret false.

(* --B->frame; --B->level (only reached with an open frame) *)
Definition pop_frame : M unit :=
  fun s => match frames s with
           | [] => Fault
           | _ :: r =>
               Ret tt (set_frames r (set_level (level s - 1)
                        (set_frame_ptr (match frame_ptr s with Some q => Some (q - FRAME_SIZE) | None => None end) s))) []
           end.

(* exit_frame *)
Definition exit_frame : M unit :=
  o <- top f_ds_offset ;; f <- top f_ds_first ;; d <- top f_ds_data ;; al <- top f_align ;;
  upd (set_ds_offset o) ;;; upd (set_ds_first f) ;;; upd (set_ds_data d) ;;;
  tlim <- top f_type_limit ;;
  refresh_ds tlim ;;;
  a <- get align ;; raise_min_align a ;;;
  upd (set_align al) ;;;
  pop_frame.

(* ------------------------------------------------------------------ emit *)
Definition front_pad (size a : Z) : M Z :=
  es <- get emit_start ;; ret (u32 (es - size) mod a).
Definition back_pad (a : Z) : M Z :=
  ee <- get emit_end ;; ret (u32 ee mod a).

(* emit_front: the reference, 0 on failure (range tested before the subtraction) *)
Definition S32_MAX : Z := 2147483647.
Definition S32_MIN : Z := -2147483648.
Definition emit_front_tag (kind : Z) (bytes tag : list Z) : M Z :=
  es <- get emit_start ;;
  let len := zlen bytes in
  if (len =? 0) || (S32_MAX <? len) || (es - len <? S32_MIN) then ret 0
  else let ref := es - len in
       ok <- emit_call ref kind bytes tag ;;
       if ok then upd (set_emit_start ref) ;;; ret ref else ret 0.
Definition emit_front (kind : Z) (bytes : list Z) : M Z := emit_front_tag kind bytes [].

(* emit_back: reference + 1, 0 on failure; emit_end is advanced once the range test has passed *)
Definition emit_back_tag (kind : Z) (bytes tag : list Z) : M Z :=
  ref <- get emit_end ;;
  let len := zlen bytes in
  if (ref <? 0) || (S32_MAX - ref <? len) then ret 0
  else upd (set_emit_end (ref + len)) ;;;
       ok <- emit_call ref kind bytes tag ;; if ok then ret (ref + 1) else ret 0.
Definition emit_back (kind : Z) (bytes : list Z) : M Z := emit_back_tag kind bytes [].

(* align_buffer_end: (success, align) *)
Definition align_buffer_end (a balign : Z) (is_nested : bool) : M (bool * Z) :=
  bb <- get block_align ;;
  let ba := if balign =? 0 then (if bb =? 0 then 1 else bb) else balign in
  let a := zmax (zmax a FIELD_SIZE) ba in
  if is_nested then ret (true, a) else
  p <- back_pad a ;;
  if p =? 0 then ret (true, a) else
  r <- emit_back EK_data (zeros p) ;; ret (negb (r =? 0), a).

Definition has_flag (flags f : Z) : bool := negb (Z.land flags f =? 0).

(* flatcc_builder_create_buffer *)
Definition create_buffer (ident balign root a flags : Z) : M Z :=
  let is_nested := has_flag flags F_is_nested in
  let with_size := has_flag flags F_with_size in
  r <- align_buffer_end a balign is_nested ;;
  let '(ok, a) := r in
  if negb ok then ret 0 else
  raise_min_align a ;;;
  let id_size := if ident =? 0 then 0 else FIELD_SIZE in
  let sized := is_nested || with_size in
  hp <- front_pad (FIELD_SIZE + id_size + (if with_size then FIELD_SIZE else 0)) a ;;
  let len := (if sized then FIELD_SIZE else 0) + FIELD_SIZE + id_size + hp in
  es <- get emit_start ;; ee <- get emit_end ;; bm <- get buffer_mark ;;
  let base := u32 (u32 es - len + (if sized then FIELD_SIZE else 0)) in
  let bsize := if is_nested then u32 (bm - base) else u32 (ee - base) in
  emit_front EK_data ((if sized then le32 bsize else []) ++ le32 (root - base)
                      ++ (if ident =? 0 then [] else le32 ident) ++ zeros hp).

(* flatcc_builder_create_struct *)
Definition create_struct (data : list Z) (a : Z) : M Z :=
  raise_min_align a ;;;
  p <- front_pad (zlen data) a ;;
  emit_front EK_data (data ++ zeros p).

(* flatcc_builder_create_string *)
Definition create_string (data : list Z) : M Z :=
  let len := zlen data in
  if U32_MAX <? len then ret 0 else
  p <- front_pad (len + 1) FIELD_SIZE ;;
  emit_front EK_data (le32 len ++ data ++ zeros (p + 1)).

(* flatcc_builder_create_vector *)
Definition create_vector (data : list Z) (count elem_size a max_count : Z) : M Z :=
  if max_count <? count then ret 0 else
  let a := zmax a FIELD_SIZE in
  raise_min_align a ;;;
  let vec_size := u32 (u32 count * u32 elem_size) in
  p <- front_pad vec_size a ;;
  emit_front EK_data (le32 count ++ fit vec_size data ++ zeros p).

(* _create_offset_vector_direct over the int32 references stored in [data] *)
Fixpoint patch_refs (n : nat) (i : Z) (data : list Z) (base : Z) : list Z :=
  match n with
  | O => []
  | S n' => let r := s32 (get32 data (4 * i)) in
            (if r =? 0 then le32 0 else le32 (r - base - 4 * i - FIELD_SIZE)) ++ patch_refs n' (i + 1) data base
  end.
Definition create_offset_vector_direct (data : list Z) (count : Z) : M Z :=
  if U32_MAX / FIELD_SIZE <? u32 count then ret 0 else
  raise_min_align FIELD_SIZE ;;;
  let vec_size := u32 (count * FIELD_SIZE) in
  p <- front_pad vec_size FIELD_SIZE ;;
  es <- get emit_start ;;
  let base := s32 (es - (FIELD_SIZE + vec_size + p)) in
  emit_front EK_data (le32 count ++ patch_refs (Z.to_nat count) 0 data base ++ zeros p).

(* flatcc_builder_create_vtable (little endian host) *)
Definition create_vtable (vt : list Z) : M Z :=
  nid <- get nest_id ;; dc <- get disable_vt_clustering ;;
  if (nid =? 0) && (dc =? 0) then emit_back_tag EK_vtable vt vt
  else
    (* keep the vtable aligned also after odd sized structs *)
    p <- front_pad (zlen vt) VOFFSET_SIZE ;;
    r <- emit_front_tag EK_vtable (vt ++ zeros p) vt ;; if r =? 0 then ret 0 else ret (r + 1).

(* flatcc_builder_flush_vtable_cache *)
Definition flush_vtable_cache : M unit :=
  w <- get ht_width ;;
  if w =? 0 then ret tt else
  upd (set_vcache []) ;;; upd (set_vd_end VD_SIZE) ;;; upd (set_vb_end 0).

(* alloc_ht; true = returned 0 *)
Definition alloc_ht : M bool :=
  ve <- get vd_end ;;
  r <- reserve_buffer VD ve VD_SIZE ;;
  if negb r then ret false else
  upd (set_vd_end VD_SIZE) ;;;
  r <- alloc_call HT (FIELD_SIZE * MIN_HASH_COUNT) ;;
  if negb r then ret false else
  c <- get (fun s => c_ht (caps s)) ;;
  upd (set_ht_width (Z.log2 (c / FIELD_SIZE))) ;;; ret true.

Definition ensure_ht : M bool :=
  w <- get ht_width ;; if w =? 0 then alloc_ht else ret true.

Definition find_exact (vt : list Z) (nid : Z) (l : list vdesc) : option vdesc :=
  find (fun d => list_eqb (vd_vt d) vt && (vd_nest d =? nid)) l.
Definition find_copy (vt : list Z) (l : list vdesc) : option vdesc :=
  find (fun d => list_eqb (vd_vt d) vt) l.

(* flatcc_builder_create_cached_vtable after lookup_ht has returned the slot *)
Definition ccv_rest (fixed : bool) (vt : list Z) : M Z :=
  nid <- get nest_id ;; vc <- get vcache ;;
  match find_exact vt nid vc with
  | Some d => ret (vd_ref d)
  | None =>
      ve <- get vd_end ;;
      r <- reserve_buffer VD ve VD_SIZE ;;
      if negb r then ret 0 else
      upd (set_vd_end (u32 (ve + VD_SIZE))) ;;;
      ref <- create_vtable vt ;;
      if ref =? 0 then ret 0 else
      match find_copy vt vc with
      | Some d2 =>
          upd (set_vcache (mkvd vt nid ref (vd_vb_start d2) :: vc)) ;;; ret ref
      | None =>
          lim <- get vb_flush_limit ;; vbe <- get vb_end ;;
          let vt_size := zlen vt in
          if negb (lim =? 0) && (lim <? vbe + vt_size) then flush_vtable_cache ;;; ret ref
          else
            r <- reserve_buffer VB vbe vt_size ;;
            if negb r then ret (if fixed then 0 else -1) else
            upd (set_vcache (mkvd vt nid ref vbe :: vc)) ;;;
            upd (set_vb_end (u32 (vbe + vt_size))) ;;; ret ref
      end
  end.

(* flatcc_builder_create_cached_vtable *)
Definition create_cached_vtable (fixed : bool) (vt : list Z) : M Z :=
  ok <- ensure_ht ;;
  if negb ok then ret 0 else ccv_rest fixed vt.

(* flatcc_builder_create_table: [offsets] is the patch log *)
Fixpoint patch_table (offs : list Z) (data : list Z) (base : Z) : list Z :=
  match offs with
  | [] => data
  | o :: r => patch_table r (put_bytes data o (le32 (get32 data o - base - o - FIELD_SIZE))) base
  end.
Definition create_table (data : list Z) (a : Z) (offs : list Z) (vt_ref : Z) : M Z :=
  let a := zmax a FIELD_SIZE in
  raise_min_align a ;;;
  let size := zlen data in
  p <- front_pad size a ;;
  es <- get emit_start ;;
  let base := u32 (u32 es - (p + size + FIELD_SIZE)) in
  let vt_base := u32 (vt_ref - 1) in
  let vt_offset := u32 (base - vt_base) in
  emit_front EK_data (le32 vt_offset ++ patch_table offs data base ++ zeros p).

(* ------------------------------------------------------------------ buffer *)
Definition start_buffer (ident balign flags : Z) : M Z :=
  ma <- get min_align ;;
  ok <- enter_frame ma ;;
  if negb ok then ret (-1) else
  nid <- get nest_id ;;
  (if negb (nid =? 0) || (ma =? 0) then upd (set_min_align 1) else ret tt) ;;;
  bb <- get block_align ;; bf <- get buffer_flags ;; bm <- get buffer_mark ;; es <- get emit_start ;;
  nc <- get nest_count ;; idn <- get identifier ;;
  set_top (fun f => set_f_block_align bb (set_f_flags bf (set_f_mark bm (set_f_nest_id nid
             (set_f_identifier idn (set_f_type T_buffer f)))))) ;;;
  upd (set_block_align balign) ;;; upd (set_buffer_flags (u16 flags)) ;;;
  upd (set_buffer_mark es) ;;; upd (set_nest_id nc) ;;; upd (set_nest_count (u32 (nc + 1))) ;;;
  upd (set_identifier ident) ;;; ret 0.

Definition end_buffer (fixed : bool) (root : Z) : M Z :=
  (* repaired: a null root is the failure value of the call that built the root object *)
  if fixed && (root =? 0) then ret 0 else
  expect_type T_buffer ;;;
  bf <- get buffer_flags ;; nid <- get nest_id ;; bb <- get block_align ;;
  let flags := Z.lor (Z.land bf F_with_size) (if nid =? 0 then 0 else F_is_nested) in
  raise_min_align bb ;;;
  idn <- get identifier ;; ma <- get min_align ;;
  r <- create_buffer idn bb root ma flags ;;
  if r =? 0 then ret 0 else
  m <- top f_mark ;; n <- top f_nest_id ;; i <- top f_identifier ;; fl <- top f_flags ;; b <- top f_block_align ;;
  upd (set_buffer_mark m) ;;; upd (set_nest_id n) ;;; upd (set_identifier i) ;;;
  upd (set_buffer_flags fl) ;;; upd (set_block_align b) ;;;
  exit_frame ;;; ret r.

(* ------------------------------------------------------------------ struct *)
Definition start_struct (a : Z) (data : list Z) : M Z :=
  ok <- enter_frame a ;;
  if negb ok then ret 0 else
  set_top (set_f_type T_struct) ;;;
  refresh_ds DATA_LIMIT ;;;
  ok <- push_ds (zlen data) data ;; ret (if ok then 1 else 0).

Definition end_struct : M Z :=
  expect_type T_struct ;;;
  d <- get ds_data ;; a <- get align ;;
  r <- create_struct d a ;;
  if r =? 0 then ret 0 else exit_frame ;;; ret r.

(* ------------------------------------------------------------------ table *)
(* reserve_fields; true = returned 0 *)
Definition reserve_fields (count : Z) : M bool :=
  ve <- top f_vs_end ;; ie <- top f_id_end ;;
  let used := ve + ie * VOFFSET_SIZE in
  r <- reserve_buffer VS used ((count + 2) * VOFFSET_SIZE) ;;
  if negb r then upd (set_vs_off 0) ;;; ret false else
  upd (set_vs_off (used + 2 * VOFFSET_SIZE)) ;;;
  pe <- top f_pl_end ;;
  r <- reserve_buffer PL pe (count * VOFFSET_SIZE + 1) ;;
  if negb r then upd (set_pl_off 0) ;;; ret false else
  upd (set_pl_off pe) ;;; ret true.

Definition start_table (count : Z) : M Z :=
  ok <- enter_frame FIELD_SIZE ;;
  if negb ok then ret (-1) else
  vo <- get vs_off ;; po <- get pl_off ;; h <- get vt_hash ;; ie <- get id_end ;;
  vd <- get vs_data ;; pd <- get pl_data ;;
  set_top (fun f => set_f_vs_end vo (set_f_pl_end po (set_f_vt_hash h (set_f_id_end ie
             (set_f_vs_data vd (set_f_pl_data pd (set_f_type T_table f))))))) ;;;
  upd (set_vt_hash 0) ;;; upd (set_id_end 0) ;;; upd (set_vs_data []) ;;; upd (set_pl_data []) ;;;
  ok <- reserve_fields count ;;
  if negb ok then ret (-1) else
  refresh_ds TABLE_LIMIT ;;; ret 0.

(* flatcc_builder_table_add + the caller's write of the value; 1 = non-null pointer *)
Definition table_add (id size a : Z) (data : list Z) : M Z :=
  expect_type T_table ;;;
  al <- get align ;;
  (if al <? a then upd (set_align a) else ret tt) ;;;
  vs <- get vs_data ;;
  if negb (nthz vs id =? 0) then ret 0 else
  o <- get ds_offset ;;
  let off := alignup o a in
  (* the table size in the vtable includes the vtable offset field and must fit a voffset, as must every field position *)
  if (TABLE_LIMIT <=? size) || (TABLE_LIMIT - size <=? off) then ret 0 else
  let o' := u32 (off + size) in
  upd (set_ds_offset o') ;;;
  ok <- ensure_ds false o' (o' + 1) TABLE_LIMIT ;;
  if negb ok then ret 0 else
  upd (set_vs_data (set_nthz vs id (u16 (off + FIELD_SIZE)))) ;;;
  ie <- get id_end ;;
  (if ie <=? id then upd (set_id_end (u16 (id + 1))) else ret tt) ;;;
  d <- get ds_data ;;
  upd (set_ds_data (d ++ zeros (off - o) ++ fit size data)) ;;; ret 1.

(* flatcc_builder_table_add_offset + the caller's store of the reference *)
Definition table_add_offset (id ref : Z) : M Z :=
  expect_type T_table ;;;
  vs <- get vs_data ;;
  if negb (nthz vs id =? 0) then ret 0 else
  o <- get ds_offset ;;
  let off := alignup o FIELD_SIZE in
  if TABLE_LIMIT - FIELD_SIZE <=? off then ret 0 else
  let o' := u32 (off + FIELD_SIZE) in
  upd (set_ds_offset o') ;;;
  ok <- ensure_ds true o' o' TABLE_LIMIT ;;
  if negb ok then ret 0 else
  upd (set_vs_data (set_nthz vs id (u16 (off + FIELD_SIZE)))) ;;;
  ie <- get id_end ;;
  (if ie <=? id then upd (set_id_end (u16 (id + 1))) else ret tt) ;;;
  pl <- get pl_data ;; po <- get pl_off ;;
  upd (set_pl_data (pl ++ [u16 off])) ;;; upd (set_pl_off (po + VOFFSET_SIZE)) ;;;
  d <- get ds_data ;;
  upd (set_ds_data (d ++ zeros (off - o) ++ le32 ref)) ;;; ret 1.

Definition end_table (fixed : bool) : M Z :=
  expect_type T_table ;;;
  ie <- get id_end ;; o <- get ds_offset ;; vs <- get vs_data ;;
  let vt_size := u16 (VOFFSET_SIZE * (ie + 2)) in
  let vt := le16 vt_size ++ le16 (o + FIELD_SIZE) ++ flat_map le16 (fit ie vs) in
  vr <- create_cached_vtable fixed vt ;;
  if vr =? 0 then ret 0 else
  upd (set_vs_data []) ;;;
  pl <- get pl_data ;; d <- get ds_data ;; a <- get align ;;
  r <- create_table d a pl vr ;;
  if r =? 0 then ret 0 else
  h <- top f_vt_hash ;; fie <- top f_id_end ;; ve <- top f_vs_end ;; pe <- top f_pl_end ;;
  fvd <- top f_vs_data ;; fpd <- top f_pl_data ;;
  upd (set_vt_hash h) ;;; upd (set_id_end fie) ;;; upd (set_vs_off ve) ;;; upd (set_pl_off pe) ;;;
  upd (set_vs_data fvd) ;;; upd (set_pl_data fpd) ;;;
  exit_frame ;;; ret r.

(* ------------------------------------------------------------------ vectors, strings *)
(* vector_count_add; true = returned 0 *)
Definition vector_count_add (count max_count : Z) : M bool :=
  n <- top f_count ;;
  let n1 := u32 (n + count) in
  if (n <=? n1) && (n1 <=? max_count) then set_top (set_f_count n1) ;;; ret true else ret false.

Definition start_vector (elem_size a max_count : Z) : M Z :=
  let a := zmax a FIELD_SIZE in
  ok <- enter_frame a ;;
  if negb ok then ret (-1) else
  set_top (fun f => set_f_elem_size (u32 elem_size) (set_f_count 0 (set_f_max_count (u32 max_count)
             (set_f_type T_vector f)))) ;;;
  refresh_ds DATA_LIMIT ;;; ret 0.

Definition extend_vector (count : Z) (data : list Z) : M Z :=
  expect_type T_vector ;;;
  mc <- top f_max_count ;;
  ok <- vector_count_add (u32 count) mc ;;
  if negb ok then ret 0 else
  es <- top f_elem_size ;;
  ok <- push_ds (u32 (es * u32 count)) data ;; ret (if ok then 1 else 0).

Definition truncate_vector (count : Z) : M Z :=
  expect_type T_vector ;;;
  n <- top f_count ;;
  if n <? count then ret (-1) else
  set_top (set_f_count (u32 (n - count))) ;;;
  es <- top f_elem_size ;; unpush_ds (u32 (es * u32 count)) ;;; ret 0.

Definition end_vector : M Z :=
  expect_type T_vector ;;;
  d <- get ds_data ;; n <- top f_count ;; es <- top f_elem_size ;; a <- get align ;; mc <- top f_max_count ;;
  r <- create_vector d n es a mc ;;
  if r =? 0 then ret 0 else exit_frame ;;; ret r.

Definition start_offset_vector : M Z :=
  ok <- enter_frame FIELD_SIZE ;;
  if negb ok then ret (-1) else
  set_top (fun f => set_f_elem_size FIELD_SIZE (set_f_count 0 (set_f_type T_offset_vector f))) ;;;
  refresh_ds DATA_LIMIT ;;; ret 0.

Definition extend_offset_vector (refs : list Z) : M Z :=
  expect_type T_offset_vector ;;;
  let count := zlen refs in
  ok <- vector_count_add (u32 count) (U32_MAX / FIELD_SIZE) ;;
  if negb ok then ret 0 else
  ok <- push_ds (u32 (FIELD_SIZE * count)) (flat_map le32 refs) ;; ret (if ok then 1 else 0).

Definition truncate_offset_vector (count : Z) : M Z :=
  expect_type T_offset_vector ;;;
  n <- top f_count ;;
  if n <? u32 count then ret (-1) else
  set_top (set_f_count (u32 (n - u32 count))) ;;;
  es <- top f_elem_size ;; unpush_ds (u32 (es * u32 count)) ;;; ret 0.

Definition end_offset_vector : M Z :=
  expect_type T_offset_vector ;;;
  d <- get ds_data ;; n <- top f_count ;;
  r <- create_offset_vector_direct d n ;;
  if r =? 0 then ret 0 else exit_frame ;;; ret r.

Definition start_string : M Z :=
  ok <- enter_frame 1 ;;
  if negb ok then ret (-1) else
  set_top (fun f => set_f_elem_size 1 (set_f_count 0 (set_f_type T_string f))) ;;;
  refresh_ds DATA_LIMIT ;;; ret 0.

Definition append_string (data : list Z) : M Z :=
  expect_type T_string ;;;
  let len := zlen data in
  ok <- vector_count_add (u32 len) U32_MAX ;;
  if negb ok then ret 0 else
  ok <- push_ds (u32 len) data ;; ret (if ok then 1 else 0).

Definition truncate_string (len : Z) : M Z :=
  expect_type T_string ;;;
  n <- top f_count ;;
  if n <? len then ret (-1) else
  set_top (set_f_count (u32 (n - len))) ;;; unpush_ds (u32 len) ;;; ret 0.

Definition end_string : M Z :=
  expect_type T_string ;;;
  d <- get ds_data ;;
  r <- create_string d ;;
  if r =? 0 then ret 0 else exit_frame ;;; ret r.

(* ------------------------------------------------------------------ user frames *)
Definition alignup_size (x a : Z) : Z := (x + a - 1) / a * a.

(* flatcc_builder_enter_user_frame: the handle, 0 on failure *)
Definition enter_user_frame (size : Z) : M Z :=
  let size := alignup_size size SIZE_T_SIZE + SIZE_T_SIZE in
  ue <- get user_frame_end ;; uo <- get user_frame_offset ;;
  r <- reserve_buffer US ue size ;;
  if negb r then ret 0 else
  m <- get us_mem ;;
  upd (set_us_mem ((ue, uo) :: m)) ;;;
  upd (set_user_frame_offset (ue + SIZE_T_SIZE)) ;;;
  upd (set_user_frame_end (ue + size)) ;;; ret (ue + SIZE_T_SIZE).

(* flatcc_builder_exit_user_frame: FLATCC_ASSERT(B->user_frame_offset > 0) *)
Definition exit_user_frame : M Z :=
  uo <- get user_frame_offset ;;
  if uo <=? 0 then fault else
  m <- get us_mem ;;
  let hdr := assocz (uo - SIZE_T_SIZE) m in
  upd (set_user_frame_end (uo - SIZE_T_SIZE)) ;;; upd (set_user_frame_offset hdr) ;;; ret hdr.

(* flatcc_builder_exit_user_frame_at: FLATCC_ASSERT(B->user_frame_offset >= handle) *)
Definition exit_user_frame_at (handle : Z) : M Z :=
  uo <- get user_frame_offset ;;
  if uo <? handle then fault else
  upd (set_user_frame_offset handle) ;;; exit_user_frame.

(* ------------------------------------------------------------------ settings *)
Definition set_max_level_op (fixed : bool) (ml : Z) : M Z :=
  upd (set_max_level ml) ;;;
  ll <- get limit_level ;;
  (if fixed
   then (if (0 <? ml) && (ml <? ll) then upd (set_limit_level ml) else ret tt)
   else (if ll <? ml then upd (set_limit_level ml) else ret tt)) ;;; ret 0.

(* flatcc_builder_push_buffer_alignment / pop *)
Definition push_buffer_alignment : M Z :=
  m <- get min_align ;; upd (set_min_align FIELD_SIZE) ;;; ret m.
Definition pop_buffer_alignment (a : Z) : M Z := raise_min_align a ;;; ret 0.

(* ------------------------------------------------------------------ reset / clear *)
(* the loop over B->buffers of flatcc_builder_custom_reset; true = no allocator complaint *)
Fixpoint reset_buffers (ks : list bk) (reduce : bool) : M bool :=
  match ks with
  | [] => ret true
  | k :: r =>
      c <- get (fun s => cap_get k (caps s)) ;;
      ok <- (if negb (c =? 0) && reduce && (match k with HT => false | _ => true end)
             then alloc_call k 1 else ret true) ;;
      if ok then reset_buffers r reduce else ret false
  end.

Definition custom_reset (fixed : bool) (set_defaults reduce : bool) : M Z :=
  ok <- reset_buffers all_kinds reduce ;;
  if negb ok then ret (-1) else
  (* memset of every buffer *)
  upd (set_us_mem []) ;;; upd (set_vcache []) ;;; upd (set_frames []) ;;;
  upd (set_ds_data []) ;;; upd (set_vs_data []) ;;; upd (set_pl_data []) ;;;
  upd (set_vb_end 0) ;;;
  ve <- get vd_end ;; (if 0 <? ve then upd (set_vd_end VD_SIZE) else ret tt) ;;;
  upd (set_min_align 0) ;;; upd (set_emit_start 0) ;;; upd (set_emit_end 0) ;;;
  upd (set_level 0) ;;; upd (set_limit_level 0) ;;; upd (set_ds_offset 0) ;;; upd (set_ds_limit 0) ;;;
  upd (set_nest_count 0) ;;; upd (set_nest_id 0) ;;;
  upd (set_vs_off 0) ;;; upd (set_pl_off 0) ;;; upd (set_frame_ptr None) ;;; upd (set_dem caps0) ;;;
  (if fixed then
     upd (set_ds_first 0) ;;; upd (set_block_align 0) ;;;
     upd (set_user_frame_offset 0) ;;; upd (set_user_frame_end 0) ;;;
     upd (set_align 0) ;;; upd (set_id_end 0) ;;; upd (set_vt_hash 0) ;;;
     upd (set_buffer_mark 0) ;;; upd (set_buffer_flags 0) ;;; upd (set_identifier 0)
   else ret tt) ;;;
  (if set_defaults then
     upd (set_vb_flush_limit 0) ;;; upd (set_max_level 0) ;;; upd (set_disable_vt_clustering 0)
   else ret tt) ;;;
  upd emitter_reset ;;; ret 0.

(* flatcc_builder_clear followed by flatcc_builder_init: everything released, struct zeroed;
   the fault-injection countdowns belong to the allocator / emitter contexts and survive *)
Definition clear_init : M Z :=
  a <- get fa ;; ar <- get fa_rep ;; e <- get fe ;; er <- get fe_rep ;;
  upd (fun _ => set_fa a (set_fa_rep ar (set_fe e (set_fe_rep er st_init)))) ;;; ret 0.

(* ------------------------------------------------------------------ the API as one step function *)
Inductive op :=
| OStartBuffer (ident balign flags : Z) | OEndBuffer (root : Z)
| OCreateBuffer (ident balign root a flags : Z)
| OStartStruct (a : Z) (data : list Z) | OEndStruct | OCreateStruct (data : list Z) (a : Z)
| OStartTable (count : Z) | OTableAdd (id size a : Z) (data : list Z) | OTableAddOffset (id ref : Z) | OEndTable
| OStartVector (elem_size a max_count : Z) | OExtendVector (count : Z) (data : list Z) | OTruncateVector (count : Z)
| OEndVector | OCreateVector (data : list Z) (count elem_size a max_count : Z)
| OStartOffsetVector | OExtendOffsetVector (refs : list Z) | OTruncateOffsetVector (count : Z) | OEndOffsetVector
| OStartString | OAppendString (data : list Z) | OTruncateString (len : Z) | OEndString | OCreateString (data : list Z)
| OEnterUserFrame (size : Z) | OExitUserFrame | OExitUserFrameAt (handle : Z)
| OSetClustering (enable : bool) | OSetMaxLevel (ml : Z) | OSetCacheLimit (n : Z) | OSetIdentifier (ident : Z)
| OFlushCache | OPushAlign | OPopAlign (a : Z)
| OReset (set_defaults reduce : bool) | OClear.

Definition step (fixed : bool) (o : op) : M Z :=
  match o with
  | OStartBuffer i b f => start_buffer i b f
  | OEndBuffer r => end_buffer fixed r
  | OCreateBuffer i b r a f => create_buffer i b r a f
  | OStartStruct a d => start_struct a d
  | OEndStruct => end_struct
  | OCreateStruct d a => create_struct d a
  | OStartTable c => start_table c
  | OTableAdd i s a d => table_add i s a d
  | OTableAddOffset i r => table_add_offset i r
  | OEndTable => end_table fixed
  | OStartVector e a m => start_vector e a m
  | OExtendVector c d => extend_vector c d
  | OTruncateVector c => truncate_vector c
  | OEndVector => end_vector
  | OCreateVector d c e a m => create_vector d c e a m
  | OStartOffsetVector => start_offset_vector
  | OExtendOffsetVector r => extend_offset_vector r
  | OTruncateOffsetVector c => truncate_offset_vector c
  | OEndOffsetVector => end_offset_vector
  | OStartString => start_string
  | OAppendString d => append_string d
  | OTruncateString l => truncate_string l
  | OEndString => end_string
  | OCreateString d => create_string d
  | OEnterUserFrame n => enter_user_frame n
  | OExitUserFrame => exit_user_frame
  | OExitUserFrameAt h => exit_user_frame_at h
  | OSetClustering e => upd (set_disable_vt_clustering (if e then 0 else 1)) ;;; ret 0
  | OSetMaxLevel m => set_max_level_op fixed m
  | OSetCacheLimit n => upd (set_vb_flush_limit n) ;;; ret 0
  | OSetIdentifier i => upd (set_identifier i) ;;; ret 0
  | OFlushCache => flush_vtable_cache ;;; ret 0
  | OPushAlign => push_buffer_alignment
  | OPopAlign a => pop_buffer_alignment a
  | OReset d r => custom_reset fixed d r
  | OClear => clear_init
  end.

(* a whole history: results and events of every call; [None] when some call faults *)
Fixpoint run (fixed : bool) (ops : list op) (s : bstate) : option (list Z * list event * bstate) :=
  match ops with
  | [] => Some ([], [], s)
  | o :: r =>
      match step fixed o s with
      | Fault => None
      | Ret a s1 e1 =>
          match run fixed r s1 with
          | None => None
          | Some (rs, es, s2) => Some (a :: rs, e1 ++ es, s2)
          end
      end
  end.
