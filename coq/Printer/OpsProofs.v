(* C11: the streams the (repaired) printer issues for well-formed values keep every unchecked run inside the
   reserve: the side condition of FlushProofs.no_overrun_terminates holds for every value, every nesting
   depth, every flag set and indentation. *)
From Flatcc.Printer Require Import FlushModel PrintOps FlushProofs.
From Coq Require Import ZifyBool.
Local Open Scope Z_scope.

(* ---------------------------------------------------------------- induction over values *)
Section value_ind2.
  Variable P : value -> Prop.
  Hypothesis HNum : forall txt, P (VNum txt).
  Hypothesis HEnum : forall r txt, P (VEnum r txt).
  Hypothesis HStr : forall s, P (VStr s).
  Hypothesis HB64 : forall e, P (VB64 e).
  Hypothesis HTable : forall fs, Forall P fs -> P (VTable fs).
  Hypothesis HStruct : forall fs, Forall P fs -> P (VStruct fs).
  Hypothesis HVec : forall k es, Forall P es -> P (VVec k es).
  Hypothesis HNull : P VNull.
  Hypothesis HSkip : P VSkip.
  Hypothesis HField : forall n v, P v -> P (VField n v).
  Hypothesis HUnion : forall n ty pr m, P ty -> P m -> P (VUnionField n ty pr m).

  Fixpoint value_ind2 (v : value) : P v :=
    let fix all (l : list value) : Forall P l :=
      match l with
      | [] => Forall_nil P
      | x :: t => Forall_cons x (value_ind2 x) (all t)
      end in
    match v with
    | VNum txt => HNum txt
    | VEnum r txt => HEnum r txt
    | VStr s => HStr s
    | VB64 e => HB64 e
    | VTable fs => HTable fs (all fs)
    | VStruct fs => HStruct fs (all fs)
    | VVec k es => HVec k es (all es)
    | VNull => HNull
    | VSkip => HSkip
    | VField n v => HField n v (value_ind2 v)
    | VUnionField n ty pr m => HUnion n ty pr m (value_ind2 ty) (value_ind2 m)
    end.
End value_ind2.

Section Bound.
Variable C : cfg.
Variable O : ocfg.
Variable F : flags.
Variable nw : Z.                       (* bytes a number printer may store *)
Hypothesis HFend : fix_end O = true.
Hypothesis HFsep : fix_sep O = true.
Hypothesis HFb64 : fix_b64 C = true.
Hypothesis Hind : 0 <= indent F.
Hypothesis Hnw : 6 <= nw.
Hypothesis HR : nw + 5 <= RSV C.       (* exactly what the longest run needs: quote, colon, space, the number with its
                                          terminator, comma, newline, and the terminator a flush stores *)

Let R := RSV C.
Let B := nw + 2.                        (* ctx->p - ctx->pflush after any value is at most B *)

(* ---------------------------------------------------------------- single steps, continuation style *)
Lemma chk_char s c t : s + 1 <= R -> chk C s (PChar c :: t) = chk C (s + 1) t.
Proof. intros H. cbn [chk chk_step]. fold R. assert (E : (s + 1 <=? R) = true) by lia. rewrite E. reflexivity. Qed.
Lemma chk_poke s t : s + 1 <= R -> chk C s (PPoke :: t) = chk C s t.
Proof. intros H. cbn [chk chk_step]. fold R. assert (E : (s + 1 <=? R) = true) by lia. rewrite E. reflexivity. Qed.
Lemma chk_num s l t : s + len l + 1 <= R -> chk C s (PNum l :: t) = chk C (s + len l) t.
Proof. intros H. cbn [chk chk_step]. fold R. assert (E : (s + len l + 1 <=? R) = true) by lia. rewrite E. reflexivity. Qed.
Lemma chk_print s l t : s + 1 <= R -> chk C s (PPrint l :: t) = chk C 0 t.
Proof. intros H. cbn [chk chk_step]. fold R. assert (E : (s + 1 <=? R) = true) by lia. rewrite E. reflexivity. Qed.
Lemma chk_indent s n t : s + 1 <= R -> 0 <= n -> chk C s (PIndent n :: t) = chk C 0 t.
Proof.
  intros H Hn. cbn [chk chk_step]. fold R.
  assert (E : ((s + 1 <=? R) && (0 <=? n)) = true) by lia. rewrite E. reflexivity.
Qed.
Lemma chk_check s t : s + 1 <= R -> chk C s (PCheck :: t) = chk C 0 t.
Proof. intros H. cbn [chk chk_step]. fold R. assert (E : (s + 1 <=? R) = true) by lia. rewrite E. reflexivity. Qed.
Lemma chk_flushall s t : s + 1 <= R -> chk C s (PFlushAll :: t) = chk C 0 t.
Proof. intros H. cbn [chk chk_step]. fold R. assert (E : (s + 1 <=? R) = true) by lia. rewrite E. reflexivity. Qed.
Lemma chk_b64 s l t : s + 2 <= R -> chk C s (PB64 l :: t) = chk C 4 t.
Proof.
  intros H. cbn [chk chk_step]. fold R. rewrite HFb64.
  assert (E : (true && (s + 2 <=? R) && (4 <=? R)) = true) by (unfold R in *; lia). rewrite E. reflexivity.
Qed.
Lemma chk_err s e t : chk C s (PErr e :: t) = chk C s t.
Proof. reflexivity. Qed.

(* a primitive that is either a store without advance or a one-character store *)
Definition pokeish (x : prim) : Prop := x = PPoke \/ exists c, x = PChar c.
Lemma chk_pokeish x s t : pokeish x -> 0 <= s -> s + 1 <= R ->
  exists s', s <= s' <= s + 1 /\ chk C s (x :: t) = chk C s' t.
Proof.
  intros [->|[c ->]] H0 H.
  - exists s. split; [lia|apply chk_poke; lia].
  - exists (s + 1). split; [lia|apply chk_char; lia].
Qed.
Lemma quote_pokeish : pokeish (quote F). Proof. unfold quote, pokeish. destruct (unquote F); eauto. Qed.
Lemma space_pokeish : pokeish (space F). Proof. unfold space, pokeish. destruct (pretty F); eauto. Qed.
Lemma delimit_pokeish m : pokeish (delimit F m).
Proof. unfold delimit, pokeish. destruct (negb (unquote F) || (PRINT_QUOTE_MULTIPLE_FLAGS =? 1) && m); eauto. Qed.

(* print_nl at a non-negative level: whatever precedes, p ends at or below pflush *)
Lemma nl_chk s lvl t : 0 <= s -> s + 2 <= R -> 0 <= lvl -> chk C s (nl_ops F lvl ++ t) = chk C 0 t.
Proof.
  intros H0 H Hl. unfold nl_ops. destruct (pretty F); cbn [app].
  - rewrite chk_char by lia. rewrite chk_indent by nia. reflexivity.
  - apply chk_check. lia.
Qed.

Lemma sym_chk s name t : 0 <= s -> s + 2 <= R ->
  exists s', 0 <= s' <= 1 /\ chk C s (sym_ops F name ++ t) = chk C s' t.
Proof.
  intros H0 H. unfold sym_ops. cbn [app].
  destruct (chk_pokeish (quote F) s (PPrint name :: quote F :: t) quote_pokeish H0 ltac:(lia)) as (s1 & H1 & E1).
  rewrite E1. rewrite chk_print by lia.
  destruct (chk_pokeish (quote F) 0 t quote_pokeish ltac:(lia) ltac:(unfold R, B in *; lia)) as (s2 & H2 & E2).
  rewrite E2. exists s2. split; [lia|reflexivity].
Qed.

(* print_name: at most three characters above pflush afterwards *)
Lemma name_chk s lvl name t : 0 <= s -> s + 2 <= R -> 0 <= lvl ->
  exists s', 0 <= s' <= 3 /\ chk C s (name_ops F lvl name ++ t) = chk C s' t.
Proof.
  intros H0 H Hl. unfold name_ops. rewrite <- !app_assoc. rewrite nl_chk by lia.
  destruct (sym_chk 0 name ([PChar 58; space F] ++ t) ltac:(lia) ltac:(unfold R, B in *; lia)) as (s1 & H1 & E1).
  rewrite E1. cbn [app]. rewrite chk_char by (unfold R, B in *; lia).
  destruct (chk_pokeish (space F) (s1 + 1) t space_pokeish ltac:(lia) ltac:(unfold R, B in *; lia)) as (s2 & H2 & E2).
  rewrite E2. exists s2. split; [lia|reflexivity].
Qed.

(* print_end: the bracket is the only character above pflush afterwards *)
Lemma end_chk s lvl c t : 0 <= s -> s + 2 <= R -> 0 <= lvl -> chk C s (end_ops O F lvl c ++ t) = chk C 1 t.
Proof.
  intros H0 H Hl. unfold end_ops. rewrite HFend. destruct (pretty F); cbn [app].
  - rewrite chk_char by lia. rewrite chk_indent by nia. rewrite chk_char by (unfold R, B in *; lia). reflexivity.
  - rewrite chk_check by lia. rewrite chk_char by (unfold R, B in *; lia). reflexivity.
Qed.

Lemma comma_chk (first : bool) s t : 0 <= s -> s + 1 <= R ->
  exists s', s' = (if first then s else s + 1) /\ chk C s (comma first ++ t) = chk C s' t.
Proof.
  intros H0 H. unfold comma. destruct first; cbn [app].
  - exists s. split; reflexivity.
  - exists (s + 1). split; [reflexivity|apply chk_char; lia].
Qed.

(* the string loop: every escape sequence is followed by a print *)
Lemma esc_chk c t : exists k, 2 <= k <= 6 /\ forall s, s + k <= R -> chk C s (esc_ops c ++ t) = chk C (s + k) t.
Proof.
  unfold esc_ops.
  destruct (c =? 34); [|destruct (c =? 92); [|destruct (c =? 9); [|destruct (c =? 12); [|destruct (c =? 13);
    [|destruct (c =? 10); [|destruct (c =? 8)]]]]]];
    try (exists 2; split; [lia|]; intros s H; cbn [app]; rewrite !chk_char by lia; f_equal; lia).
  exists 6. split; [lia|]. intros s H. cbn [app]. rewrite !chk_char by lia. f_equal. lia.
Qed.

Lemma str_chk : forall str run s t, 0 <= s -> s + 1 <= R -> chk C s (str_ops run str ++ t) = chk C 0 t.
Proof.
  induction str as [|c str IH]; intros run s t H0 H; cbn [str_ops].
  - cbn [app]. apply chk_print. lia.
  - destruct (needs_esc c).
    + cbn [app]. rewrite chk_print by lia. rewrite <- app_assoc.
      destruct (esc_chk c (str_ops [] str ++ t)) as (k & Hk & E). rewrite E by (unfold R, B in *; lia).
      apply IH; unfold R, B in *; lia.
    + apply IH; assumption.
Qed.

Lemma flag_chk : forall syms first s t, 0 <= s -> s + 2 <= R ->
  exists s', 0 <= s' <= s /\ chk C s (flag_ops first syms ++ t) = chk C s' t.
Proof.
  induction syms as [|sy syms IH]; intros first s t H0 H; cbn [flag_ops app].
  - exists s. split; [lia|reflexivity].
  - assert (Hp : pokeish (if first then PPoke else PChar 32)) by (unfold pokeish; destruct first; eauto).
    destruct (chk_pokeish _ s (PPrint sy :: flag_ops false syms ++ t) Hp H0 ltac:(lia)) as (s1 & H1 & E1).
    rewrite E1. rewrite chk_print by lia.
    destruct (IH false 0 t ltac:(lia) ltac:(unfold R, B in *; lia)) as (s2 & H2 & E2).
    rewrite E2. exists s2. split; [lia|reflexivity].
Qed.

Lemma enum_chk r txt s t : len txt + 1 <= nw -> 0 <= s <= 3 ->
  exists s', 0 <= s' <= B /\ chk C s (enum_ops F r txt ++ t) = chk C s' t.
Proof.
  intros Hw Hs. pose proof (len_nonneg txt). unfold enum_ops.
  assert (HN : exists s', 0 <= s' <= B /\ chk C s ([PNum txt] ++ t) = chk C s' t).
  { cbn [app]. rewrite chk_num by (unfold R, B in *; lia). exists (s + len txt). split; [unfold B; lia|reflexivity]. }
  destruct (noenum F); [exact HN|]. destruct r as [sy|syms|]; [| |exact HN].
  - destruct (sym_chk s sy t ltac:(lia) ltac:(unfold R, B in *; lia)) as (s1 & H1 & E1).
    exists s1. split; [unfold B; lia|exact E1].
  - cbn [app]. set (m := 1 <? Z.of_nat (length syms)).
    destruct (chk_pokeish _ s (flag_ops true syms ++ [delimit F m] ++ t) (delimit_pokeish m)
                ltac:(lia) ltac:(unfold R, B in *; lia)) as (s1 & H1 & E1).
    rewrite <- app_assoc. rewrite E1.
    destruct (flag_chk syms true s1 ([delimit F m] ++ t) ltac:(lia) ltac:(unfold R, B in *; lia)) as (s2 & H2 & E2).
    rewrite E2. cbn [app].
    destruct (chk_pokeish _ s2 t (delimit_pokeish m) ltac:(lia) ltac:(unfold R, B in *; lia)) as (s3 & H3 & E3).
    rewrite E3. exists s3. split; [unfold B; lia|reflexivity].
Qed.

(* ---------------------------------------------------------------- sequences *)
Lemma seq_chk (f : bool -> value -> list prim) (I1 I2 X : Z) : X <= I2 ->
  forall l,
  Forall (fun e => forall (first : bool) s t, 0 <= s -> s <= (if first then I1 else I2) ->
                   exists s', 0 <= s' <= X /\ chk C s (f first e ++ t) = chk C s' t) l ->
  forall (first : bool) s t, 0 <= s -> s <= (if first then I1 else I2) ->
  exists s', 0 <= s' <= Z.max s X /\ chk C s (seq_ops f first l ++ t) = chk C s' t.
Proof.
  intros HX. induction l as [|e l IH]; intros HF first s t H0 H; cbn [seq_ops app].
  - exists s. split; [lia|reflexivity].
  - inversion HF as [|? ? He Hl]; subst. rewrite <- app_assoc.
    destruct (He first s (seq_ops f false l ++ t) H0 H) as (s1 & H1 & E1). rewrite E1.
    destruct (IH Hl false s1 t ltac:(lia) ltac:(cbn; lia)) as (s2 & H2 & E2). rewrite E2.
    exists s2. split; [lia|reflexivity].
Qed.

(* ---------------------------------------------------------------- values *)
Definition entry (v : value) : Z := if is_fieldlike v then B + 1 else if is_vec v || is_numlike v then 3 else 4.
Definition exit (v : value) : Z := if is_struct v then 1 else B.

Definition PV (v : value) : Prop :=
  wfv nw v = true -> forall lvl ttl s t, 0 <= lvl -> 0 <= s <= entry v ->
  exists s', 0 <= s' <= exit v /\ chk C s (vops O F lvl ttl v ++ t) = chk C s' t.

Lemma forallb_Forall {A} (f : A -> bool) l : forallb f l = true -> Forall (fun x => f x = true) l.
Proof. intros H. apply Forall_forall. apply forallb_forall. exact H. Qed.

Lemma fields_chk fs lvl ttl : Forall PV fs -> forallb (fun f => is_fieldlike f && wfv nw f) fs = true -> 0 <= lvl ->
  forall s t, 0 <= s <= B ->
  exists s', 0 <= s' <= B /\
    chk C s (seq_ops (fun first f => comma first ++ vops O F lvl ttl f) true fs ++ t) = chk C s' t.
Proof.
  intros HP Hw Hl s t Hs.
  destruct (seq_chk (fun first f => comma first ++ vops O F lvl ttl f) B B B ltac:(lia) fs) with (first := true) (s := s) (t := t)
    as (s' & H' & E'); try lia.
  - apply forallb_Forall in Hw. rewrite Forall_forall in *. intros e He first s0 t0 H0 H1.
    specialize (Hw e He). apply andb_true_iff in Hw. destruct Hw as [Hf Hwf].
    rewrite <- app_assoc.
    destruct (comma_chk first s0 (vops O F lvl ttl e ++ t0) H0 ltac:(destruct first; unfold R, B in *; lia)) as (s1 & H2 & E1).
    rewrite E1. destruct (HP e He Hwf lvl ttl s1 t0 Hl) as (s2 & H3 & E2).
    { unfold entry. rewrite Hf. destruct first; lia. }
    exists s2. split; [unfold exit in H3; destruct (is_struct e); unfold B in *; lia|exact E2].
  - exists s'. split; [lia|exact E'].
Qed.

Lemma value_chk : forall v, PV v.
Proof.
  induction v as [txt|r txt|str|enc|fs IHfs|fs IHfs|k es IHes| | |n v IHv|n ty pr m IHty IHm] using value_ind2; unfold PV; intros Hw lvl ttl s t Hl Hs; cbn [vops].
  - (* VNum *)
    cbn [wfv] in Hw. unfold entry in Hs. cbn [is_fieldlike is_vec is_numlike orb] in Hs. pose proof (len_nonneg txt).
    cbn [app]. rewrite chk_num by (unfold R, B in *; lia). exists (s + len txt). split; [unfold exit, B; cbn; lia|reflexivity].
  - (* VEnum *)
    cbn [wfv] in Hw. unfold entry in Hs. cbn [is_fieldlike is_vec is_numlike orb] in Hs.
    destruct (enum_chk r txt s t ltac:(lia) Hs) as (s' & H' & E'). exists s'. split; [exact H'|exact E'].
  - (* VStr *)
    unfold entry in Hs. cbn [is_fieldlike is_vec is_numlike orb] in Hs. cbn [app].
    rewrite chk_char by (unfold R, B in *; lia). rewrite <- app_assoc.
    rewrite str_chk by (unfold R, B in *; lia). cbn [app]. rewrite chk_char by (unfold R, B in *; lia).
    exists 1. split; [unfold exit, B; cbn; lia|reflexivity].
  - (* VB64 *)
    unfold entry in Hs. cbn [is_fieldlike is_vec is_numlike orb] in Hs. cbn [app].
    rewrite chk_b64 by (unfold R, B in *; lia). exists 4. split; [unfold exit, B; cbn; lia|reflexivity].
  - (* VTable *)
    unfold entry in Hs. cbn [is_fieldlike is_vec is_numlike orb] in Hs. cbn [wfv] in Hw.
    destruct (ttl - 1 =? 0).
    + cbn [app]. rewrite chk_err. exists s. split; [unfold exit, B; cbn; lia|reflexivity].
    + cbn [app]. rewrite chk_char by (unfold R, B in *; lia). rewrite <- app_assoc.
      destruct (fields_chk fs (lvl + 1) (ttl - 1) IHfs Hw ltac:(lia) (s + 1) (end_ops O F lvl 125 ++ t) ltac:(unfold B; lia))
        as (s1 & H1 & E1).
      rewrite E1. rewrite end_chk by (unfold R, B in *; lia).
      exists 1. split; [unfold exit, B; cbn; lia|reflexivity].
  - (* VStruct *)
    unfold entry in Hs. cbn [is_fieldlike is_vec is_numlike orb] in Hs. cbn [wfv] in Hw.
    cbn [app]. rewrite chk_char by (unfold R, B in *; lia). rewrite <- app_assoc.
    destruct (fields_chk fs (lvl + 1) ttl IHfs Hw ltac:(lia) (s + 1) (end_ops O F lvl 125 ++ t) ltac:(unfold B; lia))
      as (s1 & H1 & E1).
    rewrite E1. rewrite end_chk by (unfold R, B in *; lia).
    exists 1. split; [unfold exit; cbn; lia|reflexivity].
  - (* VVec *)
    unfold entry in Hs. cbn [is_fieldlike is_vec is_numlike orb] in Hs. cbn [wfv] in Hw.
    cbn [app]. rewrite chk_char by (unfold R, B in *; lia). rewrite <- app_assoc.
    apply forallb_Forall in Hw.
    assert (G : exists s1, 0 <= s1 <= B /\
       chk C (s + 1) (seq_ops (fun first e => sep_ops O F k lvl first ++ vops O F (lvl + 1) ttl e) true es
                      ++ end_ops O F lvl 93 ++ t) = chk C s1 (end_ops O F lvl 93 ++ t)).
    { destruct k.
      - (* print_nl before every element *)
        destruct (seq_chk (fun first e => sep_ops O F VkNl lvl first ++ vops O F (lvl + 1) ttl e) B B B ltac:(lia) es)
          with (first := true) (s := s + 1) (t := end_ops O F lvl 93 ++ t) as (s1 & H1 & E1); try (unfold B; lia).
        + rewrite Forall_forall in *. intros e He first s0 t0 H0 H1.
          specialize (Hw e He). apply andb_true_iff in Hw. destruct Hw as [Hw Hwf].
          apply andb_true_iff in Hw. destruct Hw as [Hw _]. apply andb_true_iff in Hw. destruct Hw as [Hnf Hnv].
          unfold sep_ops. rewrite <- !app_assoc.
          destruct (comma_chk first s0 (nl_ops F (lvl + 1) ++ vops O F (lvl + 1) ttl e ++ t0) H0
                      ltac:(destruct first; unfold R, B in *; lia)) as (s1 & H2 & E1).
          rewrite E1. rewrite nl_chk by (destruct first; unfold R, B in *; lia).
          destruct (IHes e He Hwf (lvl + 1) ttl 0 t0 ltac:(lia)) as (s2 & H3 & E2).
          { unfold entry. destruct (is_fieldlike e), (is_vec e), (is_numlike e); cbn [orb]; unfold B; lia. }
          exists s2. split; [unfold exit in H3; destruct (is_struct e); lia|exact E2].
        + exists s1. split; [unfold B in *; lia|exact E1].
      - (* separator followed by a flush check *)
        destruct (seq_chk (fun first e => sep_ops O F VkSep lvl first ++ vops O F (lvl + 1) ttl e) 4 B B ltac:(lia) es)
          with (first := true) (s := s + 1) (t := end_ops O F lvl 93 ++ t) as (s1 & H1 & E1); try (unfold B; lia).
        + rewrite Forall_forall in *. intros e He first s0 t0 H0 H1.
          specialize (Hw e He). apply andb_true_iff in Hw. destruct Hw as [Hw Hwf].
          apply andb_true_iff in Hw. destruct Hw as [Hw Hnn]. apply andb_true_iff in Hw. destruct Hw as [Hnf Hnv].
          unfold sep_ops. rewrite HFsep. rewrite <- !app_assoc.
          assert (Hen : entry e = 4) by (unfold entry; destruct (is_fieldlike e), (is_vec e), (is_numlike e); try discriminate; reflexivity).
          destruct first; cbn [comma negb andb app].
          * destruct (IHes e He Hwf (lvl + 1) ttl s0 t0 ltac:(lia) ltac:(lia)) as (s2 & H3 & E2).
            exists s2. split; [unfold exit in H3; destruct (is_struct e); unfold B in *; lia|exact E2].
          * rewrite chk_char by (unfold R, B in *; lia). rewrite chk_check by (unfold R, B in *; lia).
            destruct (IHes e He Hwf (lvl + 1) ttl 0 t0 ltac:(lia) ltac:(lia)) as (s2 & H3 & E2).
            exists s2. split; [unfold exit in H3; destruct (is_struct e); unfold B in *; lia|exact E2].
        + exists s1. split; [unfold B in *; lia|exact E1].
      - (* embedded struct arrays *)
        destruct (seq_chk (fun first e => sep_ops O F VkPlain lvl first ++ vops O F (lvl + 1) ttl e) 4 1 1 ltac:(lia) es)
          with (first := true) (s := s + 1) (t := end_ops O F lvl 93 ++ t) as (s1 & H1 & E1); try lia.
        + rewrite Forall_forall in *. intros e He first s0 t0 H0 H1.
          specialize (Hw e He). apply andb_true_iff in Hw. destruct Hw as [Hw Hwf].
          apply andb_true_iff in Hw. destruct Hw as [Hw Hst]. apply andb_true_iff in Hw. destruct Hw as [Hnf Hnv].
          unfold sep_ops. rewrite <- !app_assoc. rewrite app_nil_l.
          assert (Hen : entry e = 4) by (unfold entry; destruct e; try discriminate; reflexivity).
          destruct (comma_chk first s0 (vops O F (lvl + 1) ttl e ++ t0) H0
                      ltac:(destruct first; unfold R, B in *; lia)) as (s1 & H2 & E1).
          rewrite E1.
          destruct (IHes e He Hwf (lvl + 1) ttl s1 t0 ltac:(lia) ltac:(destruct first; lia)) as (s2 & H3 & E2).
          exists s2. split; [unfold exit in H3; rewrite Hst in H3; lia|exact E2].
        + exists s1. split; [unfold B in *; lia|exact E1]. }
    destruct G as (s1 & H1 & E1). rewrite E1. rewrite end_chk by (unfold R, B in *; lia).
    exists 1. split; [unfold exit, B; cbn; lia|reflexivity].
  - (* VNull *)
    unfold entry in Hs. cbn [is_fieldlike is_vec is_numlike orb] in Hs. cbn [app].
    rewrite !chk_char by (unfold R, B in *; lia). exists (s + 1 + 1 + 1 + 1). split; [unfold exit, B; cbn; lia|reflexivity].
  - (* VSkip *)
    unfold entry in Hs. cbn [is_fieldlike is_vec is_numlike orb] in Hs. cbn [app].
    exists s. split; [unfold exit, B; cbn; lia|reflexivity].
  - (* VField *)
    unfold entry in Hs. cbn [is_fieldlike] in Hs. cbn [wfv] in Hw.
    apply andb_true_iff in Hw. destruct Hw as [Hnf Hwf].
    rewrite <- app_assoc.
    destruct (name_chk s lvl n (vops O F lvl ttl v ++ t) ltac:(lia) ltac:(unfold R, B in *; lia) Hl) as (s1 & H1 & E1).
    rewrite E1.
    destruct (IHv Hwf lvl ttl s1 t Hl) as (s2 & H2 & E2).
    { unfold entry. destruct (is_fieldlike v); [discriminate|]. destruct (is_vec v || is_numlike v); lia. }
    exists s2. split; [unfold exit in *; cbn [is_struct]; destruct (is_struct v); unfold B in *; lia|exact E2].
  - (* VUnionField *)
    unfold entry in Hs. cbn [is_fieldlike] in Hs. cbn [wfv] in Hw.
    repeat (apply andb_true_iff in Hw; destruct Hw as [Hw ?]).
    rewrite <- !app_assoc. rewrite nl_chk by (unfold R, B in *; lia). cbn [app].
    destruct (chk_pokeish (quote F) 0 (PPrint n :: PPrint [95; 116; 121; 112; 101] :: quote F :: PChar 58 :: space F ::
                 vops O F lvl ttl ty ++ (if pr then PChar 44 :: name_ops F lvl n ++ vops O F lvl ttl m else []) ++ t)
                quote_pokeish ltac:(lia) ltac:(unfold R, B in *; lia)) as (s1 & H1' & E1).
    rewrite E1. rewrite chk_print by (unfold R, B in *; lia). rewrite chk_print by (unfold R, B in *; lia).
    destruct (chk_pokeish (quote F) 0 (PChar 58 :: space F ::
                 vops O F lvl ttl ty ++ (if pr then PChar 44 :: name_ops F lvl n ++ vops O F lvl ttl m else []) ++ t)
                quote_pokeish ltac:(lia) ltac:(unfold R, B in *; lia)) as (s2 & H2' & E2).
    rewrite E2. rewrite chk_char by (unfold R, B in *; lia).
    destruct (chk_pokeish (space F) (s2 + 1) (
                 vops O F lvl ttl ty ++ (if pr then PChar 44 :: name_ops F lvl n ++ vops O F lvl ttl m else []) ++ t)
                space_pokeish ltac:(lia) ltac:(unfold R, B in *; lia)) as (s3 & H3' & E3).
    rewrite E3.
    destruct (IHty ltac:(assumption) lvl ttl s3 ((if pr then PChar 44 :: name_ops F lvl n ++ vops O F lvl ttl m else []) ++ t) Hl)
      as (s4 & H4' & E4).
    { unfold entry. destruct (is_fieldlike ty); [discriminate|]. destruct (is_vec ty || is_numlike ty); lia. }
    rewrite E4. assert (s4 <= B) by (unfold exit in H4'; destruct (is_struct ty); unfold B in *; lia).
    destruct pr.
    + cbn [app]. rewrite chk_char by (unfold R, B in *; lia). rewrite <- app_assoc.
      destruct (name_chk (s4 + 1) lvl n (vops O F lvl ttl m ++ t) ltac:(lia) ltac:(unfold R, B in *; lia) Hl) as (s5 & H5' & E5).
      rewrite E5.
      destruct (IHm ltac:(assumption) lvl ttl s5 t Hl) as (s6 & H6' & E6).
      { unfold entry. destruct (is_fieldlike m); [discriminate|]. destruct (is_vec m || is_numlike m); lia. }
      exists s6. split; [unfold exit in *; cbn [is_struct]; destruct (is_struct m); unfold B in *; lia|exact E6].
    + cbn [app]. exists s4. split; [unfold exit; cbn [is_struct]; lia|reflexivity].
Qed.

(* the root printers: value, final newline when indenting, full flush *)
Theorem root_chk v : wfv nw v = true -> is_fieldlike v = false ->
  exists sl', chk C 0 (root_ops O F v) = Some sl'.
Proof.
  intros Hw Hf. unfold root_ops.
  destruct (value_chk v Hw 0 PRINT_MAX_LEVELS 0 (last_ops F) ltac:(lia)) as (s1 & H1 & E1).
  { unfold entry. rewrite Hf. destruct (is_vec v || is_numlike v); lia. }
  rewrite E1. assert (s1 <= B) by (unfold exit in H1; destruct (is_struct v); unfold B in *; lia).
  unfold last_ops. destruct (pretty F); cbn [app].
  - rewrite chk_char by (unfold R, B in *; lia). rewrite chk_flushall by (unfold R, B in *; lia). eexists; reflexivity.
  - rewrite chk_flushall by (unfold R, B in *; lia). eexists; reflexivity.
Qed.

End Bound.
