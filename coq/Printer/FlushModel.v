(* C11: output buffer management of the JSON printer.
   Transcribes src/runtime/json_printer.c (print_char family, print_ex, print, print_indent(_ex),
   print_uint8_vector_base64_object, the three flush functions, the init functions) and
   include/flatcc/flatcc_json_printer.h (flatcc_json_printer_flush_partial, set_error).
   No proofs in this file.

   Pointers are offsets from ctx->buf.  The buffer content below ctx->p is the list [cur] (most recent byte
   first); bytes at or above ctx->p are never read by the code, so stores there are only bounds-checked.
   [viol] records a store outside [0, size): THE memory-safety violation the theorems exclude.
   Loops that the C code runs without a bound take explicit fuel; [None] = fuel exhausted.

   The record [cfg] selects between the code as it is in the pinned tree (all repairs off) and the
   repaired code (fixes/C11-*.patch); theorems are about the repaired code, the [_refuted] lemmas about
   the current code. *)
From Flatcc.Common Require Export Wrap.
From Flatcc.Printer Require Export PrinterConsts.
Local Open Scope Z_scope.

Inductive pmode := Fixed | Dynamic | File.

Record cfg := mkcfg {
  RSV : Z;               (* FLATCC_JSON_PRINT_RESERVE *)
  fix_progress : bool;   (* print_ex / print_indent_ex: give up when a failed flush leaves no room *)
  fix_b64 : bool         (* base64: round the chunk up into the reserve so that the flush makes progress *)
}.

Record st := mkst {
  md : pmode;
  size : Z;        (* ctx->size : bytes the buffer owns *)
  fsz : Z;         (* ctx->flush_size; ctx->pflush = ctx->buf + fsz *)
  p : Z;           (* ctx->p - ctx->buf *)
  cur : list Z;    (* buf[0..p), most recent first *)
  total : Z;       (* ctx->total *)
  err : Z;         (* ctx->error *)
  out : list Z;    (* bytes handed to fwrite, most recent first (File mode) *)
  viol : bool;     (* a store outside the buffer happened *)
  term : bool;     (* buf[p] = 0 holds (set by the flush functions, cleared by any other store) *)
  tr : list Z;     (* p - pflush at every call of ctx->flush, most recent first (diagnostic only) *)
  orc : list Z;    (* ORACLE: what FLATCC_JSON_PRINTER_REALLOC hands back at the next enlargements of the growing buffer:
                      the new block size, 0 = allocation failure; when exhausted the pinned policy (doubling) applies *)
  obad : bool      (* an oracle size did not restore a full reserve above the old block (new < old + reserve) *)
}.

Definition len (l : list Z) : Z := Z.of_nat (length l).
(* list reversal in linear time (List.rev is quadratic); equal to rev by List.rev_alt *)
Definition frev (l : list Z) : list Z := rev_append l [].

(* a store of n bytes at p is inside the buffer *)
Definition inside (s : st) (n : Z) : bool := (0 <=? p s) && (p s + n <=? size s).
Definition wr (s : st) (n : Z) : bool := viol s || negb (inside s n).

(* *ctx->p++ = c *)
Definition put (s : st) (c : Z) : st :=
  mkst (md s) (size s) (fsz s) (p s + 1) (c :: cur s) (total s) (err s) (out s) (wr s 1) false (tr s) (orc s) (obad s).
(* *ctx->p = c (c <> 0) without advancing: print_space, print_symbol with unquote, enum_flag, delimit *)
Definition poke (s : st) : st :=
  mkst (md s) (size s) (fsz s) (p s) (cur s) (total s) (err s) (out s) (wr s 1) false (tr s) (orc s) (obad s).
(* *ctx->p = '\0' *)
Definition poke0 (s : st) : st :=
  mkst (md s) (size s) (fsz s) (p s) (cur s) (total s) (err s) (out s) (wr s 1) true (tr s) (orc s) (obad s).
(* memcpy(ctx->p, l, n); ctx->p += n *)
Definition puts (s : st) (l : list Z) : st := fold_left put l s.
Definition set_viol (s : st) : st :=
  mkst (md s) (size s) (fsz s) (p s) (cur s) (total s) (err s) (out s) true (term s) (tr s) (orc s) (obad s).

(* flatcc_json_printer_set_error *)
Definition set_err (s : st) (e : Z) : st :=
  mkst (md s) (size s) (fsz s) (p s) (cur s) (total s) (if err s =? 0 then e else err s) (out s) (viol s) (term s) (tr s) (orc s) (obad s).

Definition trace (s : st) : st :=
  mkst (md s) (size s) (fsz s) (p s) (cur s) (total s) (err s) (out s) (viol s) (term s) ((p s - fsz s) :: tr s) (orc s) (obad s).

(* __flatcc_json_printer_flush_buffer *)
Definition flush_fixed (s : st) : st :=
  poke0 (if fsz s <=? p s
         then mkst (md s) (size s) (fsz s) 0 [] (total s + p s) (if err s =? 0 then PE_overflow else err s)
                   (out s) (viol s) (term s) (tr s) (orc s) (obad s)
         else s).

(* __flatcc_json_printer_flush: fwrite appends to [out]; the spill above pflush moves to the buffer start *)
Definition flush_file (all : bool) (s : st) : st :=
  poke0 (if negb all && (fsz s <=? p s)
         then let spill := Z.to_nat (p s - fsz s) in
              mkst (md s) (size s) (fsz s) (p s - fsz s) (firstn spill (cur s)) (total s + fsz s) (err s)
                   (skipn spill (cur s) ++ out s) (viol s) (term s) (tr s) (orc s) (obad s)
         else mkst (md s) (size s) (fsz s) 0 [] (total s + p s) (err s) (cur s ++ out s) (viol s) (term s) (tr s) (orc s) (obad s)).

(* __flatcc_json_printer_flush_dynamic_buffer.  The size of the new block is not the printer's business: it is
   read from the oracle (the allocation policy of the pinned tree, size * 2, when the oracle is silent), so the
   theorems hold for every policy.  What the rest of the printer needs from an enlargement is that the reserve is
   available again above everything the old block could hold: new >= old + reserve; [obad] records a size that
   does not promise this.  0 = realloc failed: overflow error, content dropped, the old block stays. *)
Definition next_size (s : st) : Z := match orc s with [] => 2 * size s | n :: _ => n end.
Definition fails (s : st) : bool := match orc s with n :: _ => n =? 0 | [] => false end.
Definition flush_dyn (C : cfg) (s : st) : st :=
  let s0 := poke0 s in
  if p s <? fsz s then s0
  else
    let n := next_size s in
    if fails s
    then poke0 (mkst (md s) (size s) (fsz s) 0 [] (total s + p s) (if err s =? 0 then PE_overflow else err s)
                     (out s) (viol s0) (term s0) (tr s) (tl (orc s)) (obad s))
    else poke0 (mkst (md s) n (n - RSV C) (p s) (cur s) (total s) (err s) (out s) (viol s0) (term s0) (tr s)
                     (tl (orc s)) (obad s || negb (size s + RSV C <=? n))).

(* ctx->flush(ctx, all) *)
Definition flushc (C : cfg) (all : bool) (s : st) : st :=
  let s := trace s in
  match md s with
  | Fixed => flush_fixed s
  | Dynamic => flush_dyn C s
  | File => flush_file all s
  end.

(* flatcc_json_printer_flush_partial *)
Definition check (C : cfg) (s : st) : st := if fsz s <=? p s then flushc C false s else s.

(* the while loop of print_ex (and, with memset for memcpy, of print_indent_ex) *)
Fixpoint ex_loop (C : cfg) (fuel : nat) (s : st) (l : list Z) : option st :=
  match fuel with
  | O => None
  | S f =>
    let k := fsz s - p s in
    if k <? 0 then Some (set_viol s)            (* (size_t)(pflush - p) wraps: memcpy of a huge count *)
    else if k <? len l then
      let s2 := flushc C false (puts s (firstn (Z.to_nat k) l)) in
      if fix_progress C && (fsz s2 - p s2 =? 0) && negb (err s2 =? 0) then Some s2
      else ex_loop C f s2 (skipn (Z.to_nat k) l)
    else Some (puts s l)
  end.

Definition ex_fuel (l : list Z) : nat := S (S (2 * length l)).

(* print_ex / print_indent_ex *)
Definition print_ex (C : cfg) (s : st) (l : list Z) : option st := ex_loop C (ex_fuel l) (check C s) l.

(* print; also the name part of print_symbol, whose test is the negation of the same condition *)
Definition print (C : cfg) (s : st) (l : list Z) : option st :=
  if fsz s <=? p s + len l then print_ex C s l else Some (puts s l).

Definition spaces (n : Z) : list Z := repeat 32 (Z.to_nat n).

(* print_indent with n = level * indent *)
Definition print_indent (C : cfg) (s : st) (n : Z) : option st :=
  if fsz s <? p s + n then print_ex C s (spaces n) else Some (puts s (spaces n)).

(* the while loop of print_uint8_vector_base64_object; l = encoded text still to be produced (a multiple of
   4 characters, padding included).  Some (s, true) = loop left normally, Some (s, false) = early return *)
Fixpoint b64_loop (C : cfg) (fuel : nat) (s : st) (l : list Z) : option (st * bool) :=
  match fuel with
  | O => None
  | S f =>
    if fsz s <? p s + len l then
      let room := fsz s - p s in
      if room <? 0 then Some (set_viol s, false)
      else
        let k := if fix_b64 C then ((room + 3) / 4) * 4 else (room / 4) * 4 in
        if fix_b64 C && (len l <=? k) then Some (puts s l, true)
        else
          let s2 := flushc C false (puts s (firstn (Z.to_nat k) l)) in
          if fix_b64 C && (fsz s2 =? p s2) && negb (err s2 =? 0) then Some (s2, false)
          else b64_loop C f s2 (skipn (Z.to_nat k) l)
    else Some (puts s l, true)
  end.

Definition b64_fuel (l : list Z) : nat := S (S (S (length l))).

(* print_uint8_vector_base64_object: opening quote, body, closing quote *)
Definition print_b64 (C : cfg) (s : st) (l : list Z) : option st :=
  let s1 := put s 34 in
  let s2 := if fsz s1 <=? p s1 + len l then flushc C false s1 else s1 in
  match b64_loop C (b64_fuel l) s2 l with
  | None => None
  | Some (s3, true) => Some (put s3 34)
  | Some (s3, false) => Some s3
  end.

(* ---------------------------------------------------------------- primitive stream *)
Inductive prim :=
| PChar (c : Z)           (* print_char / print_start / the bracket of print_end / print_null characters *)
| PPoke                   (* store without advancing *)
| PNum (l : list Z)       (* ctx->p += print_TN(x, ctx->p): the text l and a terminating zero are stored *)
| PPrint (l : list Z)     (* print(ctx, s, n) *)
| PIndent (n : Z)         (* print_indent *)
| PB64 (l : list Z)       (* print_uint8_vector_base64_object with encoded text l *)
| PCheck                  (* flatcc_json_printer_flush_partial *)
| PFlushAll               (* ctx->flush(ctx, 1) *)
| PErr (e : Z).           (* flatcc_json_printer_set_error *)

Definition step (C : cfg) (s : st) (x : prim) : option st :=
  match x with
  | PChar c => Some (put s c)
  | PPoke => Some (poke s)
  | PNum l => Some (poke0 (puts s l))
  | PPrint l => print C s l
  | PIndent n => print_indent C s n
  | PB64 l => print_b64 C s l
  | PCheck => Some (check C s)
  | PFlushAll => Some (flushc C true s)
  | PErr e => Some (set_err s e)
  end.

Fixpoint run (C : cfg) (ops : list prim) (s : st) : option st :=
  match ops with
  | [] => Some s
  | x :: t => match step C s x with None => None | Some s' => run C t s' end
  end.

(* the bytes a primitive contributes to the text *)
Definition bytes (x : prim) : list Z :=
  match x with
  | PChar c => [c]
  | PNum l | PPrint l => l
  | PIndent n => spaces n
  | PB64 l => 34 :: l ++ [34]
  | _ => []
  end.
Definition text (ops : list prim) : list Z := flat_map bytes ops.

(* ---------------------------------------------------------------- init functions *)
(* flatcc_json_printer_init_buffer (buffer_size >= reserve), init_dynamic_buffer, init *)
Definition dyn_size (C : cfg) (sz : Z) : Z :=
  let sz := if sz =? 0 then PRINT_DYN_BUFFER_SIZE else sz in if sz <? RSV C then RSV C else sz.
Definition init (C : cfg) (m : pmode) (sz : Z) (o : list Z) : st :=
  match m with
  | Fixed => mkst Fixed sz (sz - RSV C) 0 [] 0 0 [] false false [] o false
  | Dynamic => mkst Dynamic (dyn_size C sz) (dyn_size C sz - RSV C) 0 [] 0 0 [] false false [] o false
  | File => mkst File PRINT_BUFFER_SIZE PRINT_FLUSH_SIZE 0 [] 0 0 [] false false [] o false
  end.

(* the side condition on the oracle: every block handed back is at least the previous one plus the reserve *)
Fixpoint good_orc (R sz : Z) (l : list Z) : Prop :=
  match l with
  | [] => True
  | n :: t => if n =? 0 then good_orc R sz t else sz + R <= n /\ good_orc R n t
  end.
Definition nofail (l : list Z) : bool := forallb (fun n => negb (n =? 0)) l.

(* what the caller observes: return value of *_as_root (-1 on error, else total + pending), the output text
   (file content followed by the unflushed bytes), zero termination, and whether a store went outside *)
Record result := mkres { r_ret : Z; r_text : list Z; r_term : bool; r_viol : bool; r_err : Z; r_trace : list Z;
                         r_obad : bool; r_orc_left : Z }.
Definition observe (s : st) : result :=
  mkres (if err s =? 0 then total s + p s else -1) (frev (cur s ++ out s)) (term s) (viol s) (err s) (frev (tr s)) (obad s) (len (orc s)).

Definition cfg_fixed (r : Z) : cfg := mkcfg r true true.      (* the repaired code *)
Definition cfg_current (r : Z) : cfg := mkcfg r false false.  (* the pinned tree *)

(* ---------------------------------------------------------------- the same functions, carrying the remaining length
   as the C code does (n -= k) instead of recomputing it; Properties_C11.C11_fast_run_is_run proves them equal.
   Only the extracted driver uses these (linear instead of quadratic time on long strings). *)
Fixpoint ex_loop_f (C : cfg) (fuel : nat) (s : st) (l : list Z) (n : Z) : option st :=
  match fuel with
  | O => None
  | S f =>
    let k := fsz s - p s in
    if k <? 0 then Some (set_viol s)
    else if k <? n then
      let s2 := flushc C false (puts s (firstn (Z.to_nat k) l)) in
      if fix_progress C && (fsz s2 - p s2 =? 0) && negb (err s2 =? 0) then Some s2
      else ex_loop_f C f s2 (skipn (Z.to_nat k) l) (n - k)
    else Some (puts s l)
  end.

Definition print_ex_f (C : cfg) (s : st) (l : list Z) (n : Z) : option st :=
  ex_loop_f C (ex_fuel l) (check C s) l n.

Definition print_f (C : cfg) (s : st) (l : list Z) : option st :=
  let n := len l in if fsz s <=? p s + n then print_ex_f C s l n else Some (puts s l).

Definition print_indent_f (C : cfg) (s : st) (n : Z) : option st :=
  if fsz s <? p s + n then print_ex_f C s (spaces n) (Z.max 0 n) else Some (puts s (spaces n)).

Fixpoint b64_loop_f (C : cfg) (fuel : nat) (s : st) (l : list Z) (n : Z) : option (st * bool) :=
  match fuel with
  | O => None
  | S f =>
    if fsz s <? p s + n then
      let room := fsz s - p s in
      if room <? 0 then Some (set_viol s, false)
      else
        let k := if fix_b64 C then ((room + 3) / 4) * 4 else (room / 4) * 4 in
        if fix_b64 C && (n <=? k) then Some (puts s l, true)
        else
          let s2 := flushc C false (puts s (firstn (Z.to_nat k) l)) in
          if fix_b64 C && (fsz s2 =? p s2) && negb (err s2 =? 0) then Some (s2, false)
          else b64_loop_f C f s2 (skipn (Z.to_nat k) l) (n - k)
    else Some (puts s l, true)
  end.

Definition print_b64_f (C : cfg) (s : st) (l : list Z) : option st :=
  let n := len l in
  let s1 := put s 34 in
  let s2 := if fsz s1 <=? p s1 + n then flushc C false s1 else s1 in
  match b64_loop_f C (b64_fuel l) s2 l n with
  | None => None
  | Some (s3, true) => Some (put s3 34)
  | Some (s3, false) => Some s3
  end.

Definition step_f (C : cfg) (s : st) (x : prim) : option st :=
  match x with
  | PPrint l => print_f C s l
  | PIndent n => print_indent_f C s n
  | PB64 l => print_b64_f C s l
  | _ => step C s x
  end.

Fixpoint run_f (C : cfg) (ops : list prim) (s : st) : option st :=
  match ops with
  | [] => Some s
  | x :: t => match step_f C s x with None => None | Some s' => run_f C t s' end
  end.

(* ---------------------------------------------------------------- run-length accounting
   The side condition of the no-overrun theorem: starting with ctx->p at most [sl] bytes above pflush, every
   store of the stream stays within RSV bytes above pflush, where every primitive that tests
   ctx->p >= ctx->pflush brings p back to at most pflush.  [chk C sl ops = Some sl'] : the bound holds and p
   ends at most sl' above pflush.  (Every flush may itself store a terminator at p: one more byte.) *)
Definition chk_step (C : cfg) (sl : Z) (x : prim) : option Z :=
  match x with
  | PChar _ => if sl + 1 <=? RSV C then Some (sl + 1) else None
  | PPoke => if sl + 1 <=? RSV C then Some sl else None
  | PNum l => if sl + len l + 1 <=? RSV C then Some (sl + len l) else None
  | PPrint _ => if sl + 1 <=? RSV C then Some 0 else None
  | PIndent n => if (sl + 1 <=? RSV C) && (0 <=? n) then Some 0 else None
  | PB64 _ => if fix_b64 C && (sl + 2 <=? RSV C) && (4 <=? RSV C) then Some 4 else None
  | PCheck | PFlushAll => if sl + 1 <=? RSV C then Some 0 else None
  | PErr _ => Some sl
  end.

Fixpoint chk (C : cfg) (sl : Z) (ops : list prim) : option Z :=
  match ops with
  | [] => Some sl
  | x :: t => match chk_step C sl x with None => None | Some sl' => chk C sl' t end
  end.

Definition is_perr (x : prim) : bool := match x with PErr _ => true | _ => false end.
Definition no_perr (ops : list prim) : bool := forallb (fun x => negb (is_perr x)) ops.
