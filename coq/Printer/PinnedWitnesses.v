(* C11: witnesses about the code as it was PINNED (before fixes/C11-*.patch) and concrete examples.
   Nothing in Properties_C11.v depends on this file: the statements below are closed by computation on concrete
   values, and are kept out of the dependency cone of the property theorems so that a change of the header
   constants (reserve, flush size, nesting limit) re-checks the theorems and nothing else.  Sizes are given
   relative to PRINT_RESERVE where that keeps the witness meaningful for other reserves. *)
From Flatcc.Printer Require Import FlushModel PrintOps FlushProofs OpsProofs PrinterTheorems.
From Coq Require Import ZifyBool.
Local Open Scope Z_scope.

Definition F0 : flags := mkflags 0 false false.
Definition F2 : flags := mkflags 2 false false.

(* (1) print_ex never returns when the fixed buffer is exactly the reserve *)
Lemma print_ex_nonterminating :
  exists l, forall fuel,
    ex_loop CC fuel (check CC (init CC Fixed PRINT_RESERVE [])) l = None.
Proof.
  exists [116]. intros fuel. apply ex_loop_diverges; try reflexivity. discriminate.
Qed.

(* (2) closing brackets are unchecked: a table chain a few levels deeper than the reserve, printed without
   indentation into a fixed buffer whose flush mark lies just behind the opening part, stores outside the buffer
   (reserve 64: chain 70, 421 bytes) *)
Definition deep : value := chain (Z.to_nat PRINT_RESERVE + 6).
Definition deep_size : Z := PRINT_RESERVE + 5 * (PRINT_RESERVE + 6) + 7.
Lemma closing_run_exceeds_reserve :
  exists s',
    wfv PRINT_NUM_WRITE_MAX deep = true /\ PRINT_RESERVE <= deep_size /\
    run CC (root_ops ocfg_current F0 deep) (init CC Fixed deep_size []) = Some s' /\ viol s' = true /\
    chk CF 0 (root_ops ocfg_current F0 deep) = None.
Proof.
  destruct (run CC (root_ops ocfg_current F0 deep) (init CC Fixed deep_size [])) as [s'|] eqn:E;
    [|vm_compute in E; discriminate].
  exists s'. split; [vm_compute; reflexivity|]. split; [vm_compute; discriminate|]. split; [reflexivity|].
  split; [|vm_compute; reflexivity].
  assert (G : option_map viol (run CC (root_ops ocfg_current F0 deep) (init CC Fixed deep_size [])) = Some true)
    by (vm_compute; reflexivity).
  rewrite E in G. cbn [option_map] in G. some_inj G. exact G.
Qed.

(* (3) element separators of table and union vectors are unchecked: forty NONE members of a union vector,
   pretty printed or not *)
Definition nulls : value := VTable [VField [117; 118] (VVec VkSep (repeat VNull 40))].
Lemma separator_run_exceeds_reserve :
  exists sz s',
    PRINT_RESERVE <= sz /\
    run CC (root_ops ocfg_current F2 nulls) (init CC Fixed sz []) = Some s' /\ viol s' = true /\
    chk CF 0 (root_ops ocfg_current F2 nulls) = None.
Proof.
  exists (PRINT_RESERVE + 36).
  destruct (run CC (root_ops ocfg_current F2 nulls) (init CC Fixed (PRINT_RESERVE + 36) [])) as [s'|] eqn:E;
    [|vm_compute in E; discriminate].
  exists s'. split; [vm_compute; discriminate|]. split; [reflexivity|]. split; [|vm_compute; reflexivity].
  assert (G : option_map viol (run CC (root_ops ocfg_current F2 nulls) (init CC Fixed (PRINT_RESERVE + 36) [])) = Some true)
    by (vm_compute; reflexivity).
  rewrite E in G. cbn [option_map] in G. some_inj G. exact G.
Qed.

(* (4) base64 makes no progress in the two buffer modes when 1..3 bytes remain below pflush: growing buffer of
   reserve + 40 bytes (flush mark at 40) with 38 bytes printed, any reserve *)
Lemma base64_no_progress :
  exists s l, md s = Dynamic /\ (exists pre, s = puts (init CC Dynamic (PRINT_RESERVE + 40) []) pre) /\
    forall fuel, b64_loop CC fuel s l = None.
Proof.
  exists (puts (init CC Dynamic (PRINT_RESERVE + 40) []) (repeat 65 38)), (repeat 66 8).
  split; [rewrite puts_md; reflexivity|]. split; [eexists; reflexivity|].
  destruct std_CC as (H1 & _). unfold CC, cfg_current, RSV in H1.
  assert (Hd : dyn_size CC (PRINT_RESERVE + 40) = PRINT_RESERVE + 40).
  { unfold dyn_size, CC, cfg_current, RSV.
    assert (E1 : (PRINT_RESERVE + 40 =? 0) = false) by lia. rewrite E1.
    assert (E2 : (PRINT_RESERVE + 40 <? PRINT_RESERVE) = false) by lia. rewrite E2. reflexivity. }
  intros fuel. apply b64_loop_diverges; [reflexivity|rewrite puts_md; discriminate| |];
    rewrite puts_fsz, puts_p; unfold init; cbn [fsz p]; rewrite Hd; unfold CC, cfg_current, RSV;
    change (len (repeat 65 38)) with 38; change (len (repeat 66 8)) with 8; lia.
Qed.
