(* C11: the statements of Properties_C11, assembled from FlushProofs and OpsProofs and instantiated with the
   constants read from /repo's headers (Printer/PrinterConsts.v, regenerated on every check). *)
From Flatcc.Printer Require Import FlushModel PrintOps FlushProofs OpsProofs.
From Coq Require Import ZifyBool.
Local Open Scope Z_scope.

Definition CF : cfg := cfg_fixed PRINT_RESERVE.       (* repaired code, reserve of the pinned headers *)
Definition CC : cfg := cfg_current PRINT_RESERVE.     (* pinned code *)

Lemma std_CF : std CF.
Proof. unfold std, CF, cfg_fixed, RSV. vm_compute. repeat split; discriminate. Qed.
Lemma std_CC : std CC.
Proof. unfold std, CC, cfg_current, RSV. vm_compute. repeat split; discriminate. Qed.

(* the reserve covers the longest unchecked run of the repaired printer, exactly: quote, colon, space (3), one
   number with its terminator (PRINT_NUM_WRITE_MAX, measured), comma, newline, and the terminator a flush of the
   growing buffer stores before it enlarges the block.  With the measured 25 this is reserve >= 30. *)
Lemma reserve_covers_runs : 6 <= PRINT_NUM_WRITE_MAX /\ PRINT_NUM_WRITE_MAX + 5 <= PRINT_RESERVE.
Proof. vm_compute. split; discriminate. Qed.

(* ---------------------------------------------------------------- no overrun, termination *)
(* the side condition on what the reallocator hands back to a growing buffer started with sz: every block is at
   least the previous one plus the reserve (0 = failed allocation, allowed); the doubling of the pinned tree and
   any other policy with this property are covered *)
Definition alloc_ok (m : pmode) (sz : Z) (o : list Z) : Prop :=
  m = Dynamic -> good_orc PRINT_RESERVE (dyn_size CF sz) o.

Lemma no_overrun_streams ops m sz o sl' :
  (m = Fixed -> PRINT_RESERVE <= sz) -> alloc_ok m sz o -> chk CF 0 ops = Some sl' ->
  exists s', run CF ops (init CF m sz o) = Some s' /\ viol s' = false /\ obad s' = false.
Proof.
  intros Hs Ho Hc. apply no_overrun_terminates with sl'; [apply std_CF| | |assumption].
  - intros Hm. split; [apply Hs, Hm|left; reflexivity].
  - intros Hm. split; [apply Ho, Hm|left; reflexivity].
Qed.

Lemma value_streams_bounded F v :
  0 <= indent F -> wfv PRINT_NUM_WRITE_MAX v = true -> is_fieldlike v = false ->
  exists sl', chk CF 0 (root_ops ocfg_fixed F v) = Some sl'.
Proof.
  intros Hi Hw Hf. destruct reserve_covers_runs as [H1 H2].
  apply root_chk with PRINT_NUM_WRITE_MAX; auto.
Qed.

Lemma root_ops_split O F v : root_ops O F v = (vops O F 0 PRINT_MAX_LEVELS v ++ (if pretty F then [PChar 10] else [])) ++ [PFlushAll].
Proof. unfold root_ops, last_ops. rewrite app_assoc. reflexivity. Qed.

Lemma no_overrun_values F v m sz o :
  0 <= indent F -> wfv PRINT_NUM_WRITE_MAX v = true -> is_fieldlike v = false ->
  (m = Fixed -> PRINT_RESERVE <= sz) -> alloc_ok m sz o ->
  exists s', run CF (root_ops ocfg_fixed F v) (init CF m sz o) = Some s' /\ viol s' = false /\ term s' = true.
Proof.
  intros Hi Hw Hf Hs Ho. destruct (value_streams_bounded F v Hi Hw Hf) as (sl' & Hc).
  destruct (no_overrun_streams _ m sz o sl' Hs Ho Hc) as (s' & E & Hv & _).
  exists s'. repeat split; auto. rewrite root_ops_split in E. eapply ends_terminated. exact E.
Qed.

(* the pinned print_ex / print_indent_ex code terminates and stays inside the buffer too, as long as the fixed
   buffer is larger than the reserve, no enlargement of a growing buffer fails, and the stream has no base64 field
   (chk refuses PB64 for the pinned code) *)
Lemma pinned_code_terminates ops m sz o sl' :
  (m = Fixed -> PRINT_RESERVE < sz) -> (m = Dynamic -> good_orc PRINT_RESERVE (dyn_size CC sz) o /\ nofail o = true) ->
  chk CC 0 ops = Some sl' ->
  exists s', run CC ops (init CC m sz o) = Some s' /\ viol s' = false.
Proof.
  intros Hs Ho Hc. destruct (no_overrun_terminates CC ops m sz o sl') as (s' & E & Hv & _); [apply std_CC| | |assumption|eauto].
  - intros Hm. specialize (Hs Hm). split; [unfold CC, cfg_current, RSV; lia|right; unfold CC, cfg_current, RSV; lia].
  - intros Hm. destruct (Ho Hm) as [G N]. split; [exact G|right; exact N].
Qed.

(* ---------------------------------------------------------------- the three output modes *)
Record agree (ops : list prim) (szf : Z) (sf sd sl : st) : Prop := mkagree {
  a_safe : viol sf = false /\ viol sd = false /\ viol sl = false;
  a_dyn : err sd = 0 /\ r_text (observe sd) = text ops /\ r_ret (observe sd) = len (text ops)
          /\ cur sd = rev (text ops) /\ p sd = len (text ops) /\ term sd = true;
  a_file : err sl = 0 /\ r_text (observe sl) = text ops /\ r_ret (observe sl) = len (text ops);
  a_fixed_ok : err sf = 0 ->
               r_text (observe sf) = text ops /\ r_ret (observe sf) = len (text ops)
               /\ cur sf = rev (text ops) /\ p sf = len (text ops) /\ term sf = true;
  a_fixed_fail : err sf <> 0 -> r_ret (observe sf) = -1;
  a_fits : err sf = 0 <-> len (text ops) < szf - PRINT_RESERVE
}.

Lemma modes_agree_streams ops szf szd o sl' :
  PRINT_RESERVE <= szf -> no_perr ops = true -> chk CF 0 (ops ++ [PFlushAll]) = Some sl' ->
  good_orc PRINT_RESERVE (dyn_size CF szd) o -> nofail o = true ->
  exists sf sd sl,
    run CF (ops ++ [PFlushAll]) (init CF Fixed szf []) = Some sf /\
    run CF (ops ++ [PFlushAll]) (init CF Dynamic szd o) = Some sd /\
    run CF (ops ++ [PFlushAll]) (init CF File 0 []) = Some sl /\
    agree ops szf sf sd sl.
Proof.
  intros Hsz Hn Hc Hg Hnf.
  destruct (no_overrun_streams _ Fixed szf [] sl' ltac:(auto) ltac:(intros N; discriminate) Hc) as (sf & Ef & Hvf & _).
  destruct (no_overrun_streams _ Dynamic szd o sl' ltac:(discriminate) ltac:(intros _; exact Hg) Hc) as (sd & Ed & Hvd & _).
  destruct (no_overrun_streams _ File 0 [] sl' ltac:(discriminate) ltac:(intros N; discriminate) Hc) as (sl & El & Hvl & _).
  exists sf, sd, sl. split; [assumption|]. split; [assumption|]. split; [assumption|].
  assert (Hn' : no_perr (ops ++ [PFlushAll]) = true).
  { unfold no_perr in *. rewrite forallb_app, Hn. reflexivity. }
  pose proof (growing_never_overflows CF _ Dynamic szd o sd ltac:(discriminate) Hnf Hn' Ed) as Hed.
  pose proof (growing_never_overflows CF _ File 0 [] sl ltac:(discriminate) eq_refl Hn' El) as Hel.
  constructor.
  - auto.
  - destruct (output_is_text CF _ Dynamic szd o sd Ed Hvd Hed) as (A & B0 & D). rewrite text_flushall in *.
    destruct (D ltac:(discriminate)) as (D1 & D2 & _). repeat split; auto. eapply ends_terminated; eassumption.
  - destruct (output_is_text CF _ File 0 [] sl El Hvl Hel) as (A & B0 & _). rewrite text_flushall in *. auto.
  - intros He. destruct (output_is_text CF _ Fixed szf [] sf Ef Hvf He) as (A & B0 & D). rewrite text_flushall in *.
    destruct (D ltac:(discriminate)) as (D1 & D2 & _). repeat split; auto. eapply ends_terminated; eassumption.
  - intros He. unfold observe. cbn [r_ret]. destruct (err sf =? 0) eqn:E; [lia|reflexivity].
  - apply (fixed_success_iff_fits CF ops szf [] sf Hn Ef Hvf).
Qed.

Lemma modes_agree_values F v szf szd o :
  0 <= indent F -> wfv PRINT_NUM_WRITE_MAX v = true -> is_fieldlike v = false ->
  PRINT_RESERVE <= szf ->
  good_orc PRINT_RESERVE (dyn_size CF szd) o -> nofail o = true ->
  let ops := vops ocfg_fixed F 0 PRINT_MAX_LEVELS v ++ (if pretty F then [PChar 10] else []) in
  no_perr ops = true ->      (* nesting below FLATCC_JSON_PRINT_MAX_LEVELS: no deep_recursion error *)
  exists sf sd sl,
    run CF (root_ops ocfg_fixed F v) (init CF Fixed szf []) = Some sf /\
    run CF (root_ops ocfg_fixed F v) (init CF Dynamic szd o) = Some sd /\
    run CF (root_ops ocfg_fixed F v) (init CF File 0 []) = Some sl /\
    agree ops szf sf sd sl.
Proof.
  intros Hi Hw Hf Hsz Hg Hnf ops Hn. destruct (value_streams_bounded F v Hi Hw Hf) as (sl' & Hc).
  rewrite root_ops_split in *. fold ops in Hc |- *. eapply modes_agree_streams; eassumption.
Qed.

(* the doubling of the pinned tree and growth by half plus the reserve both satisfy the side condition, from every
   block size the printer can have *)
Lemma doubling_ok sz : PRINT_RESERVE <= sz -> sz + PRINT_RESERVE <= 2 * sz.
Proof. lia. Qed.
Lemma half_plus_reserve_ok sz : 0 <= sz -> sz + PRINT_RESERVE <= sz + sz / 2 + PRINT_RESERVE.
Proof. intros H. assert (0 <= sz / 2) by (apply Z.div_pos; lia). lia. Qed.

(* errors are sticky; a deep_recursion error (any error raised by the printers) is reported by every mode *)
Lemma err_sticky_run C ops a b : run C ops a = Some b -> err b = 0 -> err a = 0.
Proof.
  apply (Q_run C (fun x => err x = 0 -> err a = 0)); try (intros; fs; auto; fail).
  - intros all x Hx Hf. apply Hx. apply (sticky_flush C all x). exact Hf.
  - left. intros x e Hx Hf. apply Hx. apply (sticky_set_err x e). exact Hf.
Qed.

Lemma error_reported C ops s s' e : e <> 0 -> In (PErr e) ops -> run C ops s = Some s' -> r_ret (observe s') = -1.
Proof.
  intros He Hin E.
  assert (G : err s' <> 0).
  { revert s E. induction ops as [|x ops IH]; intros s E; [contradiction|]. cbn [run] in E.
    destruct (step C s x) as [s1|] eqn:E1; [|discriminate]. destruct Hin as [->|Hin].
    - cbn [step] in E1. some_inj E1; subst s1. intros Z. apply (err_sticky_run _ _ _ _ E) in Z.
      cbn [set_err err] in Z. destruct (err s =? 0) eqn:Ee; lia.
    - apply (IH Hin _ E). }
  unfold observe. cbn [r_ret]. destruct (err s' =? 0) eqn:E0; [lia|reflexivity].
Qed.

