(* Proofs about FlushModel (C11): buffer safety, termination, agreement of the output modes. *)
From Flatcc.Printer Require Import FlushModel.
From Coq Require Import ZifyBool.
Local Open Scope Z_scope.
Ltac Zify.zify_post_hook ::= Z.div_mod_to_equations.

(* ---------------------------------------------------------------- lists and lengths *)
Lemma len_nil : len [] = 0. Proof. reflexivity. Qed.
Lemma len_cons a l : len (a :: l) = len l + 1.
Proof. unfold len. simpl length. lia. Qed.
Lemma len_app a b : len (a ++ b) = len a + len b.
Proof. unfold len. rewrite app_length. lia. Qed.
Lemma len_nonneg l : 0 <= len l. Proof. unfold len. lia. Qed.
Lemma frev_rev l : frev l = rev l.
Proof. unfold frev. symmetry. apply rev_alt. Qed.
Lemma len_rev l : len (rev l) = len l. Proof. unfold len. rewrite rev_length. reflexivity. Qed.
Lemma len_firstn k l : 0 <= k <= len l -> len (firstn (Z.to_nat k) l) = k.
Proof. unfold len. intros H. rewrite firstn_length. lia. Qed.
Lemma len_skipn k l : 0 <= k <= len l -> len (skipn (Z.to_nat k) l) = len l - k.
Proof. unfold len. intros H. rewrite skipn_length. lia. Qed.
Lemma len_spaces n : len (spaces n) = Z.max 0 n.
Proof. unfold len, spaces. rewrite repeat_length. lia. Qed.

Ltac fs := cbn [md size fsz p cur total err out viol term tr orc obad put poke poke0 set_err set_viol trace negb andb orb].
Tactic Notation "fs" "in" hyp(H) := cbn [md size fsz p cur total err out viol term tr orc obad put poke poke0 set_err set_viol trace negb andb orb] in H.

(* ---------------------------------------------------------------- field lemmas for puts *)
Lemma puts_cons s a l : puts s (a :: l) = puts (put s a) l. Proof. reflexivity. Qed.

Lemma puts_md s l : md (puts s l) = md s.
Proof. revert s; induction l as [|a l IH]; intros s; [reflexivity|]. rewrite puts_cons, IH. reflexivity. Qed.
Lemma puts_size s l : size (puts s l) = size s.
Proof. revert s; induction l as [|a l IH]; intros s; [reflexivity|]. rewrite puts_cons, IH. reflexivity. Qed.
Lemma puts_fsz s l : fsz (puts s l) = fsz s.
Proof. revert s; induction l as [|a l IH]; intros s; [reflexivity|]. rewrite puts_cons, IH. reflexivity. Qed.
Lemma puts_total s l : total (puts s l) = total s.
Proof. revert s; induction l as [|a l IH]; intros s; [reflexivity|]. rewrite puts_cons, IH. reflexivity. Qed.
Lemma puts_err s l : err (puts s l) = err s.
Proof. revert s; induction l as [|a l IH]; intros s; [reflexivity|]. rewrite puts_cons, IH. reflexivity. Qed.
Lemma puts_out s l : out (puts s l) = out s.
Proof. revert s; induction l as [|a l IH]; intros s; [reflexivity|]. rewrite puts_cons, IH. reflexivity. Qed.
Lemma puts_orc s l : orc (puts s l) = orc s.
Proof. revert s; induction l as [|a l IH]; intros s; [reflexivity|]. rewrite puts_cons, IH. reflexivity. Qed.
Lemma puts_obad s l : obad (puts s l) = obad s.
Proof. revert s; induction l as [|a l IH]; intros s; [reflexivity|]. rewrite puts_cons, IH. reflexivity. Qed.
Lemma puts_tr s l : tr (puts s l) = tr s.
Proof. revert s; induction l as [|a l IH]; intros s; [reflexivity|]. rewrite puts_cons, IH. reflexivity. Qed.
Lemma puts_p s l : p (puts s l) = p s + len l.
Proof.
  revert s; induction l as [|a l IH]; intros s; [rewrite len_nil; simpl; lia|].
  rewrite puts_cons, IH, len_cons. simpl. lia.
Qed.
Lemma puts_cur s l : cur (puts s l) = rev l ++ cur s.
Proof.
  revert s; induction l as [|a l IH]; intros s; [reflexivity|].
  rewrite puts_cons, IH. simpl. rewrite <- app_assoc. reflexivity.
Qed.
Lemma puts_viol_mono s l : viol (puts s l) = false -> viol s = false.
Proof.
  revert s; induction l as [|a l IH]; intros s H; [exact H|].
  rewrite puts_cons in H. apply IH in H. simpl in H. unfold wr in H. apply orb_false_iff in H. tauto.
Qed.
Lemma puts_viol s l : viol s = false -> 0 <= p s -> p s + len l <= size s -> viol (puts s l) = false.
Proof.
  revert s; induction l as [|a l IH]; intros s Hv Hp Hs; [exact Hv|].
  rewrite puts_cons. rewrite len_cons in Hs. pose proof (len_nonneg l).
  apply IH; simpl; [|lia|lia]. unfold wr, inside. rewrite Hv. simpl. lia.
Qed.
Lemma puts_app s a b : puts s (a ++ b) = puts (puts s a) b.
Proof. unfold puts. apply fold_left_app. Qed.
Lemma puts_nil s : puts s [] = s. Proof. reflexivity. Qed.

(* ---------------------------------------------------------------- the invariant *)
Section WithCfg.
Variable C : cfg.

Record Inv (sl : Z) (s : st) : Prop := mkInv {
  i_viol : viol s = false;
  i_p0 : 0 <= p s;
  i_slack : p s <= fsz s + sl;
  i_rsv : fsz s + RSV C <= size s;
  i_fsz0 : 0 <= fsz s;
  i_buf : md s <> File -> fsz s = size s - RSV C;
  i_file : md s = File -> RSV C <= fsz s;
  i_cur : p s = len (cur s);
  i_prog : fix_progress C = true \/ 0 < fsz s \/ (md s = Dynamic /\ nofail (orc s) = true);
  i_orc : md s = Dynamic -> good_orc (RSV C) (size s) (orc s);
  i_obad : obad s = false
}.

Lemma inv_weaken sl sl' s : Inv sl s -> sl <= sl' -> Inv sl' s.
Proof. intros [] H. constructor; try assumption; lia. Qed.

Lemma inv_tighten sl s : Inv sl s -> p s <= fsz s -> Inv 0 s.
Proof. intros [] H. constructor; try assumption; lia. Qed.

Lemma inv_put sl s c : Inv sl s -> sl + 1 <= RSV C -> Inv (sl + 1) (put s c).
Proof.
  intros [] H. constructor; fs; try assumption; try lia.
  - unfold wr, inside. rewrite i_viol0. cbn [orb negb]. lia.
  - rewrite len_cons. lia.
Qed.

Lemma inv_poke sl s : Inv sl s -> sl + 1 <= RSV C -> Inv sl (poke s).
Proof.
  intros [] H. constructor; fs; try assumption.
  unfold wr, inside. rewrite i_viol0. cbn [orb negb]. lia.
Qed.

Lemma inv_poke0 sl s : Inv sl s -> sl + 1 <= RSV C -> Inv sl (poke0 s).
Proof.
  intros [] H. constructor; fs; try assumption.
  unfold wr, inside. rewrite i_viol0. cbn [orb negb]. lia.
Qed.

Lemma inv_puts sl sl' s l : Inv sl s -> 0 <= sl' <= RSV C -> p s + len l <= fsz s + sl' -> Inv sl' (puts s l).
Proof.
  intros [] H1 H2. pose proof (len_nonneg l).
  constructor; rewrite ?puts_md, ?puts_size, ?puts_fsz, ?puts_p, ?puts_cur, ?puts_orc, ?puts_obad; try assumption; try lia.
  - apply puts_viol; [assumption|assumption|lia].
  - rewrite len_app, len_rev. lia.
Qed.

Lemma inv_set_err sl s e : Inv sl s -> Inv sl (set_err s e).
Proof. intros []. constructor; fs; assumption. Qed.

Lemma inv_trace sl s : Inv sl s -> Inv sl (trace s).
Proof. intros []. constructor; fs; assumption. Qed.

(* the block the oracle (or the pinned policy) hands back next is either a failure or restores a full reserve *)
Lemma next_size_ok s : md s = Dynamic -> good_orc (RSV C) (size s) (orc s) -> RSV C <= size s ->
  (fails s = true /\ nofail (orc s) = false /\ good_orc (RSV C) (size s) (tl (orc s))) \/
  (fails s = false /\ size s + RSV C <= next_size s /\ good_orc (RSV C) (next_size s) (tl (orc s))).
Proof.
  intros Hm Hg Hs. unfold next_size, fails. destruct (orc s) as [|n t] eqn:E; cbn [tl].
  - right. split; [reflexivity|]. split; [lia|exact I].
  - cbn [good_orc] in Hg. destruct (n =? 0) eqn:En.
    + left. split; [reflexivity|]. split; [|exact Hg]. cbn [nofail forallb]. rewrite En. reflexivity.
    + right. split; [reflexivity|exact Hg].
Qed.

(* every flush brings p back to at most pflush *)
Lemma inv_flush sl s all : Inv sl s -> 0 <= sl -> sl + 1 <= RSV C -> Inv 0 (flushc C all s).
Proof.
  intros HI H0 H. apply inv_trace in HI. unfold flushc.
  remember (trace s) as s1. clear Heqs1 s.
  destruct (md s1) eqn:Em.
  - (* Fixed *)
    unfold flush_fixed. destruct (fsz s1 <=? p s1) eqn:E.
    + destruct HI. apply inv_poke0; [|lia]. constructor; fs; try assumption; try lia; try reflexivity.
    + apply inv_poke0; [|lia]. apply inv_tighten with sl; [assumption|lia].
  - (* Dynamic *)
    unfold flush_dyn. destruct (p s1 <? fsz s1) eqn:E.
    + apply inv_poke0; [|lia]. apply inv_tighten with sl; [assumption|lia].
    + pose proof (inv_poke0 _ _ HI H) as HP. destruct HI.
      assert (Hf : fsz s1 = size s1 - RSV C) by (apply i_buf0; congruence).
      destruct (next_size_ok s1 Em (i_orc0 Em) ltac:(lia)) as [(Hn & Hnf & Hg)|(Hn & Hz & Hg)]; rewrite Hn.
      * (* allocation failure: error, content dropped, old block kept *)
        apply inv_poke0; [|lia].
        constructor; fs; try assumption; try lia; try reflexivity.
        -- destruct HP. exact i_viol1.
        -- destruct i_prog0 as [Hp|[Hp|[_ Hp]]]; [left; exact Hp|right; left; exact Hp|congruence].
        -- intros _. exact Hg.
      * apply inv_poke0; [|lia]. constructor; fs; try assumption; try lia.
        -- destruct HP. exact i_viol1.
        -- intros _. exact Hg.
        -- rewrite i_obad0. cbn [orb]. assert (Q : (size s1 + RSV C <=? next_size s1) = true) by lia. rewrite Q. reflexivity.
  - (* File *)
    unfold flush_file. destruct (negb all && (fsz s1 <=? p s1)) eqn:E.
    + destruct HI. assert (RSV C <= fsz s1) by auto.
      apply inv_poke0; [|lia]. constructor; fs; try assumption; try lia.
      unfold len. rewrite firstn_length. unfold len in i_cur0. lia.
    + destruct HI. apply inv_poke0; [|lia]. constructor; fs; try assumption; try lia; try reflexivity.
Qed.

(* a flush called with p at or above pflush leaves room; the exceptions - a fixed buffer without flush area, a
   growing buffer of exactly the reserve whose enlargement fails - leave an error, and only the repaired loops
   get there *)
Lemma flush_room sl s : Inv sl s -> 0 <= sl -> sl + 1 <= RSV C -> fsz s <= p s ->
  let s' := flushc C false s in
  p s' < fsz s' \/ (p s' = fsz s' /\ err s' <> 0 /\ fsz s' = 0 /\ fix_progress C = true).
Proof.
  intros HI H0 H Hp. destruct HI. unfold flushc. fs.
  destruct (md s) eqn:Em; fs.
  - unfold flush_fixed. fs. rewrite Em. fs.
    assert (E : (fsz s <=? p s) = true) by lia. rewrite E. fs.
    destruct (Z.eq_dec (fsz s) 0) as [Z|Z].
    + right. repeat split; try lia; try assumption.
      * destruct (err s =? 0) eqn:Ee; [unfold PE_overflow; lia|lia].
      * destruct i_prog0 as [Hq|[Hq|[Hq _]]]; [exact Hq|lia|congruence].
    + left. lia.
  - unfold flush_dyn. fs. rewrite Em. fs.
    assert (E : (p s <? fsz s) = false) by lia. rewrite E. fs.
    assert (Hf : fsz s = size s - RSV C) by (apply i_buf0; congruence).
    assert (Hn : next_size (trace s) = next_size s) by reflexivity. rewrite Hn.
    assert (Hfl : fails (trace s) = fails s) by reflexivity. rewrite Hfl.
    destruct (next_size_ok s Em (i_orc0 eq_refl) ltac:(lia)) as [(Hz & Hnf & _)|(Hz & Hge & _)]; rewrite Hz; fs.
    + destruct (Z.eq_dec (fsz s) 0) as [Z|Z]; [|left; lia].
      right. repeat split; try lia.
      * destruct (err s =? 0) eqn:Ee; [unfold PE_overflow; lia|lia].
      * destruct i_prog0 as [Hq|[Hq|[_ Hq]]]; [exact Hq|lia|congruence].
    + left. lia.
  - unfold flush_file. fs. rewrite Em. fs.
    assert (E : (fsz s <=? p s) = true) by lia. rewrite E. fs.
    assert (RSV C <= fsz s) by auto. left. lia.
Qed.

Lemma inv_check sl s : Inv sl s -> 0 <= sl -> sl + 1 <= RSV C -> Inv 0 (check C s).
Proof.
  intros HI H0 H. unfold check. destruct (fsz s <=? p s) eqn:E.
  - apply inv_flush with sl; assumption.
  - apply inv_tighten with sl; [assumption|lia].
Qed.

(* ---------------------------------------------------------------- print_ex terminates and keeps the invariant *)
Lemma ex_loop_ok : forall fuel l s, Inv 0 s -> 1 <= RSV C ->
  2 * len l + (if fsz s - p s =? 0 then 1 else 0) < Z.of_nat fuel ->
  exists s', ex_loop C fuel s l = Some s' /\ Inv 0 s'.
Proof.
  induction fuel as [|f IH]; intros l s HI HR Hm.
  - pose proof (len_nonneg l). destruct (fsz s - p s =? 0); lia.
  - pose proof (len_nonneg l) as Hl. pose proof HI as HI'. destruct HI'.
    cbn [ex_loop]. assert (E1 : (fsz s - p s <? 0) = false) by lia. rewrite E1.
    destruct (fsz s - p s <? len l) eqn:E2.
    + set (k := fsz s - p s) in *.
      assert (Hk : 0 <= k <= len l) by lia.
      pose proof (len_firstn k l Hk) as Hf. pose proof (len_skipn k l Hk) as Hs.
      assert (HI1 : Inv 0 (puts s (firstn (Z.to_nat k) l))) by (apply inv_puts with 0; [assumption|lia|lia]).
      assert (Hp1 : fsz (puts s (firstn (Z.to_nat k) l)) <= p (puts s (firstn (Z.to_nat k) l)))
        by (rewrite puts_fsz, puts_p; lia).
      pose proof (inv_flush 0 _ false HI1 ltac:(lia) ltac:(lia)) as HI2.
      pose proof (flush_room 0 _ HI1 ltac:(lia) ltac:(lia) Hp1) as HR2. cbv zeta in HR2.
      set (s2 := flushc C false (puts s (firstn (Z.to_nat k) l))) in *.
      destruct HR2 as [HR2|(Ha & Hb & Hc & Hd)].
      * assert (G : (fix_progress C && (fsz s2 - p s2 =? 0) && negb (err s2 =? 0)) = false).
        { assert ((fsz s2 - p s2 =? 0) = false) by lia. rewrite H. rewrite andb_false_r. reflexivity. }
        rewrite G. apply IH; [assumption|assumption|].
        rewrite Hs. assert ((fsz s2 - p s2 =? 0) = false) by lia. rewrite H.
        destruct (k =? 0) eqn:Ek; lia.
      * rewrite Hd. assert ((fsz s2 - p s2 =? 0) = true) by lia. rewrite H.
        assert ((err s2 =? 0) = false) by lia. rewrite H0. cbn [andb negb].
        exists s2. split; [reflexivity|assumption].
    + eexists. split; [reflexivity|]. apply inv_puts with 0; [assumption|lia|lia].
Qed.

Lemma print_ex_ok sl s l : Inv sl s -> 0 <= sl -> sl + 1 <= RSV C ->
  exists s', print_ex C s l = Some s' /\ Inv 0 s'.
Proof.
  intros HI H0 H. unfold print_ex. apply ex_loop_ok; [apply inv_check with sl; assumption|lia|].
  unfold ex_fuel, len. destruct (fsz (check C s) - p (check C s) =? 0); lia.
Qed.

Lemma print_ok sl s l : Inv sl s -> 0 <= sl -> sl + 1 <= RSV C ->
  exists s', print C s l = Some s' /\ Inv 0 s'.
Proof.
  intros HI H0 H. unfold print. destruct (fsz s <=? p s + len l) eqn:E.
  - apply print_ex_ok with sl; assumption.
  - eexists. split; [reflexivity|]. apply inv_puts with sl; [assumption|lia|lia].
Qed.

Lemma print_indent_ok sl s n : Inv sl s -> 0 <= sl -> sl + 1 <= RSV C -> 0 <= n ->
  exists s', print_indent C s n = Some s' /\ Inv 0 s'.
Proof.
  intros HI H0 H Hn. unfold print_indent. destruct (fsz s <? p s + n) eqn:E.
  - apply print_ex_ok with sl; assumption.
  - eexists. split; [reflexivity|]. apply inv_puts with sl; [assumption|lia|]. rewrite len_spaces. lia.
Qed.

(* ---------------------------------------------------------------- base64 (repaired loop) *)
Lemma b64_loop_ok : forall fuel l s, fix_b64 C = true -> Inv 0 s -> 4 <= RSV C ->
  len l + (if fsz s - p s =? 0 then 1 else 0) < Z.of_nat fuel ->
  exists s' b, b64_loop C fuel s l = Some (s', b) /\ Inv (if b then 3 else 0) s'.
Proof.
  induction fuel as [|f IH]; intros l s HF HI HR Hm.
  - pose proof (len_nonneg l). destruct (fsz s - p s =? 0); lia.
  - pose proof (len_nonneg l) as Hl. pose proof HI as HI'. destruct HI'.
    cbn [b64_loop]. rewrite HF. cbn [andb].
    destruct (fsz s <? p s + len l) eqn:E0.
    + assert (E1 : (fsz s - p s <? 0) = false) by lia. rewrite E1.
      set (room := fsz s - p s) in *. set (k := (room + 3) / 4 * 4).
      assert (Hk : room <= k <= room + 3) by (unfold k; lia).
      destruct (len l <=? k) eqn:E2.
      * exists (puts s l), true. split; [reflexivity|]. apply inv_puts with 0; [assumption|lia|lia].
      * assert (Hkl : 0 <= k <= len l) by lia.
        pose proof (len_firstn k l Hkl) as Hf. pose proof (len_skipn k l Hkl) as Hs.
        assert (HI1 : Inv 3 (puts s (firstn (Z.to_nat k) l))) by (apply inv_puts with 0; [assumption|lia|lia]).
        assert (Hp1 : fsz (puts s (firstn (Z.to_nat k) l)) <= p (puts s (firstn (Z.to_nat k) l)))
          by (rewrite puts_fsz, puts_p; lia).
        pose proof (inv_flush 3 _ false HI1 ltac:(lia) ltac:(lia)) as HI2.
        pose proof (flush_room 3 _ HI1 ltac:(lia) ltac:(lia) Hp1) as HR2. cbv zeta in HR2.
        set (s2 := flushc C false (puts s (firstn (Z.to_nat k) l))) in *.
        destruct HR2 as [HR2|(Ha & Hb & Hc & Hd)].
        -- assert (G : ((fsz s2 =? p s2) && negb (err s2 =? 0)) = false).
           { assert ((fsz s2 =? p s2) = false) by lia. rewrite H. reflexivity. }
           rewrite G. apply IH; [assumption|assumption|assumption|].
           rewrite Hs. assert ((fsz s2 - p s2 =? 0) = false) by lia. rewrite H.
           destruct (room =? 0) eqn:Ek; lia.
        -- assert ((fsz s2 =? p s2) = true) by lia. rewrite H.
           assert ((err s2 =? 0) = false) by lia. rewrite H0. cbn [andb negb].
           exists s2, false. split; [reflexivity|assumption].
    + exists (puts s l), true. split; [reflexivity|]. apply inv_puts with 0; [assumption|lia|lia].
Qed.

Lemma print_b64_ok sl s l : fix_b64 C = true -> Inv sl s -> 0 <= sl -> sl + 2 <= RSV C -> 4 <= RSV C ->
  exists s', print_b64 C s l = Some s' /\ Inv 4 s'.
Proof.
  intros HF HI H0 H H4. unfold print_b64.
  pose proof (inv_put sl s 34 HI ltac:(lia)) as HI1.
  set (s1 := put s 34) in *.
  assert (HI2 : Inv 0 (if fsz s1 <=? p s1 + len l then flushc C false s1 else s1)).
  { pose proof (len_nonneg l). destruct (fsz s1 <=? p s1 + len l) eqn:E.
    - apply inv_flush with (sl + 1); [assumption|lia|lia].
    - apply inv_tighten with (sl + 1); [assumption|lia]. }
  set (s2 := if fsz s1 <=? p s1 + len l then flushc C false s1 else s1) in *.
  destruct (b64_loop_ok (b64_fuel l) l s2 HF HI2 H4) as (s3 & b & E & HI3).
  { unfold b64_fuel, len. destruct (fsz s2 - p s2 =? 0); lia. }
  rewrite E. destruct b.
  - eexists. split; [reflexivity|]. apply (inv_put 3); [assumption|lia].
  - eexists. split; [reflexivity|]. apply inv_weaken with 0; [assumption|lia].
Qed.

(* ---------------------------------------------------------------- streams *)
Lemma step_ok sl sl' s x : Inv sl s -> 0 <= sl -> chk_step C sl x = Some sl' ->
  exists s', step C s x = Some s' /\ Inv sl' s' /\ 0 <= sl'.
Proof.
  intros HI H0 Hc. destruct x; cbn [chk_step step] in *.
  - destruct (sl + 1 <=? RSV C) eqn:E; [|discriminate]. some_inj Hc; subst sl'.
    eexists. split; [reflexivity|]. split; [apply inv_put; [assumption|lia]|lia].
  - destruct (sl + 1 <=? RSV C) eqn:E; [|discriminate]. some_inj Hc; subst sl'.
    eexists. split; [reflexivity|]. split; [apply inv_poke; [assumption|lia]|lia].
  - destruct (sl + len l + 1 <=? RSV C) eqn:E; [|discriminate]. some_inj Hc; subst sl'.
    pose proof (len_nonneg l). eexists. split; [reflexivity|]. split; [|lia].
    apply inv_poke0; [|lia]. destruct HI. apply inv_puts with sl; [constructor; assumption|lia|clear - i_slack0; lia].
  - destruct (sl + 1 <=? RSV C) eqn:E; [|discriminate]. some_inj Hc; subst sl'.
    destruct (print_ok sl s l HI H0 ltac:(lia)) as (s' & E1 & HI1). exists s'. split; [assumption|split; [assumption|lia]].
  - destruct ((sl + 1 <=? RSV C) && (0 <=? n)) eqn:E; [|discriminate]. some_inj Hc; subst sl'.
    destruct (print_indent_ok sl s n HI H0 ltac:(lia) ltac:(lia)) as (s' & E1 & HI1).
    exists s'. split; [assumption|split; [assumption|lia]].
  - destruct (fix_b64 C && (sl + 2 <=? RSV C) && (4 <=? RSV C)) eqn:E; [|discriminate]. some_inj Hc; subst sl'.
    apply andb_true_iff in E. destruct E as [E E3]. apply andb_true_iff in E. destruct E as [E1 E2].
    destruct (print_b64_ok sl s l E1 HI H0 ltac:(lia) ltac:(lia)) as (s' & E4 & HI1).
    exists s'. split; [assumption|split; [assumption|lia]].
  - destruct (sl + 1 <=? RSV C) eqn:E; [|discriminate]. some_inj Hc; subst sl'.
    eexists. split; [reflexivity|]. split; [apply inv_check with sl; [assumption|lia|lia]|lia].
  - destruct (sl + 1 <=? RSV C) eqn:E; [|discriminate]. some_inj Hc; subst sl'.
    eexists. split; [reflexivity|]. split; [apply inv_flush with sl; [assumption|lia|lia]|lia].
  - some_inj Hc; subst sl'. eexists. split; [reflexivity|]. split; [apply inv_set_err; assumption|lia].
Qed.

(* the printer terminates and never stores outside the buffer, for every stream whose unchecked runs fit
   the reserve *)
Lemma run_ok : forall ops sl sl' s, Inv sl s -> 0 <= sl -> chk C sl ops = Some sl' ->
  exists s', run C ops s = Some s' /\ Inv sl' s'.
Proof.
  induction ops as [|x t IH]; intros sl sl' s HI H0 Hc; cbn [chk run] in *.
  - some_inj Hc; subst. eauto.
  - destruct (chk_step C sl x) as [sl1|] eqn:E; [|discriminate].
    destruct (step_ok sl sl1 s x HI H0 E) as (s1 & E1 & HI1 & H1). rewrite E1. eapply IH; eassumption.
Qed.

End WithCfg.

(* ================================================================ what is printed *)
Section Text.
Variable C : cfg.

(* errors and violations are sticky *)
Definition sticky (s s' : st) : Prop := (viol s' = false -> viol s = false) /\ (err s' = 0 -> err s = 0).

Lemma sticky_refl s : sticky s s. Proof. split; auto. Qed.
Lemma sticky_trans a b c : sticky a b -> sticky b c -> sticky a c.
Proof. intros [] []. split; auto. Qed.

Lemma wr_false s n : wr s n = false -> viol s = false.
Proof. unfold wr. intros H. apply orb_false_iff in H. tauto. Qed.

Lemma sticky_put s c : sticky s (put s c).
Proof. split; fs; [apply wr_false|auto]. Qed.
Lemma sticky_poke s : sticky s (poke s).
Proof. split; fs; [apply wr_false|auto]. Qed.
Lemma sticky_poke0 s : sticky s (poke0 s).
Proof. split; fs; [apply wr_false|auto]. Qed.
Lemma sticky_puts s l : sticky s (puts s l).
Proof. split; [apply puts_viol_mono|rewrite puts_err; auto]. Qed.
Lemma sticky_set_err s e : sticky s (set_err s e).
Proof. split; fs; [auto|]. destruct (err s =? 0) eqn:E; lia. Qed.

Lemma sticky_trace s : sticky s (trace s).
Proof. split; fs; auto. Qed.

Lemma sticky_flush_body all s :
  sticky s (match md s with Fixed => flush_fixed s | Dynamic => flush_dyn C s | File => flush_file all s end).
Proof.
  destruct (md s).
  - unfold flush_fixed. destruct (fsz s <=? p s).
    + eapply sticky_trans; [|apply sticky_poke0]. split; fs; [auto|].
      destruct (err s =? 0) eqn:E; [unfold PE_overflow|]; lia.
    + apply sticky_poke0.
  - unfold flush_dyn. destruct (p s <? fsz s).
    + apply sticky_poke0.
    + destruct (fails s).
      * eapply sticky_trans; [|apply sticky_poke0]. split; fs; [apply wr_false|].
        destruct (err s =? 0) eqn:E; [unfold PE_overflow|]; lia.
      * eapply sticky_trans; [|apply sticky_poke0]. split; fs; [apply wr_false|auto].
  - unfold flush_file. destruct (negb all && (fsz s <=? p s));
      (eapply sticky_trans; [|apply sticky_poke0]); split; fs; auto.
Qed.

Lemma sticky_flush all s : sticky s (flushc C all s).
Proof.
  unfold flushc. cbv zeta. eapply sticky_trans; [apply sticky_trace|]. apply sticky_flush_body.
Qed.

Lemma sticky_check s : sticky s (check C s).
Proof. unfold check. destruct (fsz s <=? p s); [apply sticky_flush|apply sticky_refl]. Qed.

(* K s t : unless something went wrong, the file output followed by the buffer content below p is t, and
   total + pending is its length *)
Definition K (s : st) (t : list Z) : Prop :=
  viol s = false -> err s = 0 -> cur s ++ out s = rev t /\ total s + p s = len t.

Lemma K_sticky_vacuous s s' t : sticky s s' -> (viol s = false -> err s = 0 -> K s' t) -> K s' t.
Proof. intros [H1 H2] H Hv He. apply H; auto. Qed.

Lemma K_put s t c : K s t -> K (put s c) (t ++ [c]).
Proof.
  intros H Hv He. destruct (sticky_put s c) as [S1 S2]. destruct (H (S1 Hv) (S2 He)) as [A B]. fs.
  rewrite rev_app_distr, len_app, len_cons, len_nil. simpl. rewrite A. split; [reflexivity|lia].
Qed.

Lemma K_puts : forall l s t, K s t -> K (puts s l) (t ++ l).
Proof.
  induction l as [|a l IH]; intros s t H.
  - rewrite app_nil_r. exact H.
  - rewrite puts_cons. replace (t ++ a :: l) with ((t ++ [a]) ++ l) by (rewrite <- app_assoc; reflexivity).
    apply IH, K_put, H.
Qed.

Lemma K_poke s t : K s t -> K (poke s) t.
Proof. intros H Hv He. destruct (sticky_poke s) as [S1 S2]. apply (H (S1 Hv) (S2 He)). Qed.
Lemma K_poke0 s t : K s t -> K (poke0 s) t.
Proof. intros H Hv He. destruct (sticky_poke0 s) as [S1 S2]. apply (H (S1 Hv) (S2 He)). Qed.
Lemma K_set_err s t e : K s t -> K (set_err s e) t.
Proof. intros H Hv He. destruct (sticky_set_err s e) as [S1 S2]. apply (H (S1 Hv) (S2 He)). Qed.
Lemma K_set_viol s t : K (set_viol s) t.
Proof. intros Hv. discriminate. Qed.

Lemma K_trace s t : K s t -> K (trace s) t.
Proof. intros H. exact H. Qed.

Lemma K_flush all s t : K s t -> K (flushc C all s) t.
Proof.
  intros H. unfold flushc. cbv zeta. apply K_trace in H. revert H. generalize (trace s). clear s. intros s H.
  pose proof (sticky_flush_body all s) as G.
  apply K_sticky_vacuous with s; [exact G|]. intros Hv He.
  destruct (H Hv He) as [A B]. destruct (md s).
  - unfold flush_fixed. apply K_poke0. destruct (fsz s <=? p s).
    + intros _. fs. rewrite He. cbn [Z.eqb]. unfold PE_overflow. lia.
    + exact H.
  - unfold flush_dyn. destruct (p s <? fsz s); [apply K_poke0; exact H|].
    destruct (fails s); apply K_poke0.
    + intros _. fs. rewrite He. cbn [Z.eqb]. unfold PE_overflow. lia.
    + intros _ _; fs; auto.
  - unfold flush_file. apply K_poke0. destruct (negb all && (fsz s <=? p s)); intros _ _; fs.
    + rewrite app_assoc, firstn_skipn. split; [assumption|lia].
    + rewrite app_nil_l. split; [assumption|lia].
Qed.

Lemma K_check s t : K s t -> K (check C s) t.
Proof. intros H. unfold check. destruct (fsz s <=? p s); [apply K_flush|]; assumption. Qed.

Lemma firstn_skipn_Z (k : Z) (l : list Z) : firstn (Z.to_nat k) l ++ skipn (Z.to_nat k) l = l.
Proof. apply firstn_skipn. Qed.

Lemma K_ex_loop : forall fuel s l t s', K s t -> ex_loop C fuel s l = Some s' -> K s' (t ++ l).
Proof.
  induction fuel as [|f IH]; intros s l t s' H E; [discriminate|].
  cbn [ex_loop] in E. destruct (fsz s - p s <? 0).
  - some_inj E; subst. apply K_set_viol.
  - destruct (fsz s - p s <? len l).
    + set (k := Z.to_nat (fsz s - p s)) in *.
      assert (H2 : K (flushc C false (puts s (firstn k l))) (t ++ firstn k l)) by (apply K_flush, K_puts, H).
      set (s2 := flushc C false (puts s (firstn k l))) in *.
      destruct (fix_progress C && (fsz s2 - p s2 =? 0) && negb (err s2 =? 0)) eqn:G.
      * some_inj E; subst s'. intros _ He. apply andb_true_iff in G. destruct G as [_ G]. lia.
      * apply (IH _ _ _ _ H2) in E. rewrite <- app_assoc in E. unfold k in E. rewrite firstn_skipn in E. exact E.
    + some_inj E; subst. apply K_puts, H.
Qed.

Lemma K_print_ex s l t s' : K s t -> print_ex C s l = Some s' -> K s' (t ++ l).
Proof. intros H E. unfold print_ex in E. eapply K_ex_loop; [|eassumption]. apply K_check, H. Qed.

Lemma K_print s l t s' : K s t -> print C s l = Some s' -> K s' (t ++ l).
Proof.
  intros H E. unfold print in E. destruct (fsz s <=? p s + len l).
  - eapply K_print_ex; eassumption.
  - some_inj E; subst. apply K_puts, H.
Qed.

Lemma K_print_indent s n t s' : K s t -> print_indent C s n = Some s' -> K s' (t ++ spaces n).
Proof.
  intros H E. unfold print_indent in E. destruct (fsz s <? p s + n).
  - eapply K_print_ex; eassumption.
  - some_inj E; subst. apply K_puts, H.
Qed.

Lemma K_b64_loop : forall fuel s l t s' b, K s t -> b64_loop C fuel s l = Some (s', b) ->
  if b then K s' (t ++ l) else (viol s' = false -> err s' = 0 -> False).
Proof.
  induction fuel as [|f IH]; intros s l t s' b H E; [discriminate|].
  cbn [b64_loop] in E. destruct (fsz s <? p s + len l).
  - destruct (fsz s - p s <? 0).
    + some_inj E. inversion E; subst. intros Hv. discriminate.
    + set (k := Z.to_nat (if fix_b64 C then (fsz s - p s + 3) / 4 * 4 else (fsz s - p s) / 4 * 4)) in *.
      destruct (fix_b64 C && (len l <=? _)).
      * some_inj E. inversion E; subst. apply K_puts, H.
      * assert (H2 : K (flushc C false (puts s (firstn k l))) (t ++ firstn k l)) by (apply K_flush, K_puts, H).
        set (s2 := flushc C false (puts s (firstn k l))) in *.
        destruct (fix_b64 C && (fsz s2 =? p s2) && negb (err s2 =? 0)) eqn:G.
        -- some_inj E. inversion E; subst. intros _ He. apply andb_true_iff in G. destruct G as [_ G]. lia.
        -- apply (IH _ _ _ _ _ H2) in E. destruct b; [|exact E].
           rewrite <- app_assoc in E. unfold k in E. rewrite firstn_skipn in E. exact E.
  - some_inj E. inversion E; subst. apply K_puts, H.
Qed.

Lemma K_print_b64 s l t s' : K s t -> print_b64 C s l = Some s' -> K s' (t ++ 34 :: l ++ [34]).
Proof.
  intros H E. unfold print_b64 in E.
  assert (H1 : K (if fsz (put s 34) <=? p (put s 34) + len l then flushc C false (put s 34) else put s 34) (t ++ [34])).
  { destruct (fsz (put s 34) <=? p (put s 34) + len l); [apply K_flush|]; apply K_put, H. }
  set (s2 := if fsz (put s 34) <=? p (put s 34) + len l then flushc C false (put s 34) else put s 34) in *.
  destruct (b64_loop C (b64_fuel l) s2 l) as [[s3 b]|] eqn:EL; [|discriminate].
  pose proof (K_b64_loop _ _ _ _ _ _ H1 EL) as H3. destruct b; some_inj E; subst s'.
  - apply K_put with (c := 34) in H3. rewrite <- !app_assoc in H3. exact H3.
  - intros Hv He. exfalso. auto.
Qed.

Lemma K_step s x t s' : K s t -> step C s x = Some s' -> K s' (t ++ bytes x).
Proof.
  intros H E. destruct x; cbn [step bytes] in *; rewrite ?app_nil_r.
  - some_inj E; subst. apply K_put, H.
  - some_inj E; subst. apply K_poke, H.
  - some_inj E; subst. apply K_poke0, K_puts, H.
  - eapply K_print; eassumption.
  - eapply K_print_indent; eassumption.
  - eapply K_print_b64; eassumption.
  - some_inj E; subst. apply K_check, H.
  - some_inj E; subst. apply K_flush, H.
  - some_inj E; subst. apply K_set_err, H.
Qed.

Lemma text_cons x ops : text (x :: ops) = bytes x ++ text ops. Proof. reflexivity. Qed.
Lemma text_app a b : text (a ++ b) = text a ++ text b. Proof. unfold text. apply flat_map_app. Qed.

Lemma K_run : forall ops s t s', K s t -> run C ops s = Some s' -> K s' (t ++ text ops).
Proof.
  induction ops as [|x ops IH]; intros s t s' H E; cbn [run] in E.
  - some_inj E; subst. rewrite app_nil_r. exact H.
  - destruct (step C s x) as [s1|] eqn:E1; [|discriminate].
    rewrite text_cons, app_assoc. eapply IH; [|eassumption]. eapply K_step; eassumption.
Qed.

Lemma run_app : forall a b s, run C (a ++ b) s = match run C a s with None => None | Some s' => run C b s' end.
Proof.
  induction a as [|x a IH]; intros b s; [reflexivity|].
  cbn [app run]. destruct (step C s x); [apply IH|reflexivity].
Qed.

(* ---------------------------------------------------------------- nothing is written to a file, and nothing is
   counted as flushed, by the two buffer modes while no error is raised *)
Definition B (s : st) : Prop := md s <> File -> out s = [] /\ (err s = 0 -> total s = 0).

Lemma B_puts s l : B s -> B (puts s l).
Proof. unfold B. rewrite puts_md, puts_out, puts_err, puts_total. auto. Qed.

Lemma B_flush all s : B s -> B (flushc C all s).
Proof.
  unfold flushc. cbv zeta. intros H. assert (H1 : B (trace s)) by exact H. revert H1. generalize (trace s). clear s H.
  intros s H. unfold B in *. destruct (md s) eqn:Em.
  - unfold flush_fixed. destruct (fsz s <=? p s); fs; rewrite ?Em; intros N; destruct (H N) as [A B0].
    + split; [assumption|]. destruct (err s =? 0) eqn:E; [unfold PE_overflow|]; lia.
    + auto.
  - unfold flush_dyn. destruct (p s <? fsz s); fs; rewrite ?Em; [auto|].
    destruct (fails s); fs; rewrite ?Em; [|auto]. intros N. destruct (H N) as [A B0].
    split; [assumption|]. destruct (err s =? 0) eqn:E; [unfold PE_overflow|]; lia.
  - unfold flush_file. destruct (negb all && (fsz s <=? p s)); fs; rewrite Em; intros N; congruence.
Qed.

Lemma B_check s : B s -> B (check C s).
Proof. unfold check. destruct (fsz s <=? p s); [apply B_flush|auto]. Qed.

Lemma B_ex_loop : forall fuel s l s', B s -> ex_loop C fuel s l = Some s' -> B s'.
Proof.
  induction fuel as [|f IH]; intros s l s' H E; [discriminate|].
  cbn [ex_loop] in E. destruct (fsz s - p s <? 0); [some_inj E; subst; exact H|].
  destruct (fsz s - p s <? len l); [|some_inj E; subst; apply B_puts, H].
  match type of E with (if ?c then _ else _) = _ => destruct c end.
  - some_inj E; subst. apply B_flush, B_puts, H.
  - eapply IH; [|eassumption]. apply B_flush, B_puts, H.
Qed.

Lemma B_b64_loop : forall fuel s l s' b, B s -> b64_loop C fuel s l = Some (s', b) -> B s'.
Proof.
  induction fuel as [|f IH]; intros s l s' b H E; [discriminate|].
  cbn [b64_loop] in E. destruct (fsz s <? p s + len l); [|some_inj E; inversion E; subst; apply B_puts, H].
  destruct (fsz s - p s <? 0); [some_inj E; inversion E; subst; exact H|].
  match type of E with (if ?c then _ else _) = _ => destruct c end; [some_inj E; inversion E; subst; apply B_puts, H|].
  match type of E with (if ?c then _ else _) = _ => destruct c end.
  - some_inj E; inversion E; subst. apply B_flush, B_puts, H.
  - eapply IH; [|eassumption]. apply B_flush, B_puts, H.
Qed.

Lemma B_step s x s' : B s -> step C s x = Some s' -> B s'.
Proof.
  intros H E. destruct x; cbn [step] in E.
  - some_inj E; subst. exact H.
  - some_inj E; subst. exact H.
  - some_inj E; subst. apply (B_puts s l) in H. exact H.
  - unfold print, print_ex in E. destruct (fsz s <=? p s + len l).
    + eapply B_ex_loop; [|eassumption]. apply B_check, H.
    + some_inj E; subst. apply B_puts, H.
  - unfold print_indent, print_ex in E. destruct (fsz s <? p s + n).
    + eapply B_ex_loop; [|eassumption]. apply B_check, H.
    + some_inj E; subst. apply B_puts, H.
  - unfold print_b64 in E.
    set (s2 := if fsz (put s 34) <=? p (put s 34) + len l then flushc C false (put s 34) else put s 34) in *.
    assert (H2 : B s2) by (unfold s2; destruct (fsz (put s 34) <=? p (put s 34) + len l); [apply B_flush|]; exact H).
    destruct (b64_loop C (b64_fuel l) s2 l) as [[s3 b]|] eqn:EL; [|discriminate].
    pose proof (B_b64_loop _ _ _ _ _ H2 EL) as H3. destruct b; some_inj E; subst s'; exact H3.
  - some_inj E; subst. apply B_check, H.
  - some_inj E; subst. apply B_flush, H.
  - some_inj E; subst. unfold B in *. fs. intros N. destruct (H N) as [A B0]. split; [assumption|].
    destruct (err s =? 0) eqn:Ee; [|lia]. intros; apply B0; lia.
Qed.

Lemma B_run : forall ops s s', B s -> run C ops s = Some s' -> B s'.
Proof.
  induction ops as [|x ops IH]; intros s s' H E; cbn [run] in E; [some_inj E; subst; exact H|].
  destruct (step C s x) as [s1|] eqn:E1; [|discriminate]. eapply IH; [|eassumption]. eapply B_step; eassumption.
Qed.

Lemma flush_term all s : term (flushc C all s) = true.
Proof.
  unfold flushc. cbv zeta. generalize (trace s). clear s. intros s.
  destruct (md s); [unfold flush_fixed|unfold flush_dyn|unfold flush_file]; fs.
  - reflexivity.
  - destruct (p s <? fsz s); [reflexivity|]. destruct (fails s); reflexivity.
  - reflexivity.
Qed.

End Text.

(* ================================================================ generic preservation through a stream *)
Section Pres.
Variable C : cfg.
Variable Q : st -> Prop.
Hypothesis Q_put : forall s c, Q s -> Q (put s c).
Hypothesis Q_poke : forall s, Q s -> Q (poke s).
Hypothesis Q_poke0 : forall s, Q s -> Q (poke0 s).
Hypothesis Q_set_viol : forall s, Q s -> Q (set_viol s).
Hypothesis Q_flush : forall all s, Q s -> Q (flushc C all s).

Lemma Q_puts : forall l s, Q s -> Q (puts s l).
Proof. induction l as [|a l IH]; intros s H; [exact H|]. rewrite puts_cons. apply IH, Q_put, H. Qed.

Lemma Q_check s : Q s -> Q (check C s).
Proof. unfold check. destruct (fsz s <=? p s); [apply Q_flush|auto]. Qed.

Lemma Q_ex_loop : forall fuel s l s', Q s -> ex_loop C fuel s l = Some s' -> Q s'.
Proof.
  induction fuel as [|f IH]; intros s l s' H E; [discriminate|].
  cbn [ex_loop] in E. destruct (fsz s - p s <? 0); [some_inj E; subst; apply Q_set_viol, H|].
  destruct (fsz s - p s <? len l); [|some_inj E; subst; apply Q_puts, H].
  match type of E with (if ?c then _ else _) = _ => destruct c end.
  - some_inj E; subst. apply Q_flush, Q_puts, H.
  - eapply IH; [|eassumption]. apply Q_flush, Q_puts, H.
Qed.

Lemma Q_b64_loop : forall fuel s l s' b, Q s -> b64_loop C fuel s l = Some (s', b) -> Q s'.
Proof.
  induction fuel as [|f IH]; intros s l s' b H E; [discriminate|].
  cbn [b64_loop] in E. destruct (fsz s <? p s + len l); [|some_inj E; inversion E; subst; apply Q_puts, H].
  destruct (fsz s - p s <? 0); [some_inj E; inversion E; subst; apply Q_set_viol, H|].
  match type of E with (if ?c then _ else _) = _ => destruct c end; [some_inj E; inversion E; subst; apply Q_puts, H|].
  match type of E with (if ?c then _ else _) = _ => destruct c end.
  - some_inj E; inversion E; subst. apply Q_flush, Q_puts, H.
  - eapply IH; [|eassumption]. apply Q_flush, Q_puts, H.
Qed.

Lemma Q_step s x s' : is_perr x = false -> Q s -> step C s x = Some s' -> Q s'.
Proof.
  intros Hx H E. destruct x; cbn [step] in E; try discriminate Hx.
  - some_inj E; subst. apply Q_put, H.
  - some_inj E; subst. apply Q_poke, H.
  - some_inj E; subst. apply Q_poke0, Q_puts, H.
  - unfold print, print_ex in E. destruct (fsz s <=? p s + len l).
    + eapply Q_ex_loop; [|eassumption]. apply Q_check, H.
    + some_inj E; subst. apply Q_puts, H.
  - unfold print_indent, print_ex in E. destruct (fsz s <? p s + n).
    + eapply Q_ex_loop; [|eassumption]. apply Q_check, H.
    + some_inj E; subst. apply Q_puts, H.
  - unfold print_b64 in E.
    set (s2 := if fsz (put s 34) <=? p (put s 34) + len l then flushc C false (put s 34) else put s 34) in *.
    assert (H2 : Q s2) by (unfold s2; destruct (fsz (put s 34) <=? p (put s 34) + len l); [apply Q_flush|]; apply Q_put, H).
    destruct (b64_loop C (b64_fuel l) s2 l) as [[s3 b]|] eqn:EL; [|discriminate].
    pose proof (Q_b64_loop _ _ _ _ _ H2 EL) as H3. destruct b; some_inj E; subst s'; [apply Q_put|]; exact H3.
  - some_inj E; subst. apply Q_check, H.
  - some_inj E; subst. apply Q_flush, H.
Qed.

Lemma Q_run : forall ops s s', (forall s e, Q s -> Q (set_err s e)) \/ no_perr ops = true ->
  Q s -> run C ops s = Some s' -> Q s'.
Proof.
  induction ops as [|x ops IH]; intros s s' Hp H E; cbn [run] in E; [some_inj E; subst; exact H|].
  destruct (step C s x) as [s1|] eqn:E1; [|discriminate].
  destruct (is_perr x) eqn:Ex.
  - destruct x; try discriminate Ex. cbn [step] in E1. some_inj E1; subst s1.
    destruct Hp as [Hp|Hp]; [|cbn [no_perr forallb is_perr negb andb] in Hp; discriminate].
    eapply IH; [left; exact Hp| |eassumption]. apply Hp, H.
  - eapply IH; [|eapply Q_step; eassumption|eassumption].
    destruct Hp as [Hp|Hp]; [left; exact Hp|right].
    cbn [no_perr forallb] in Hp. apply andb_true_iff in Hp. apply Hp.
Qed.
End Pres.

(* ================================================================ fixed buffer: success iff the text fits *)
Section Fits.
Variable C : cfg.

(* the mode never changes; a fixed buffer keeps its flush threshold *)
Definition M (s0 s : st) : Prop := md s = md s0 /\ (md s0 = Fixed -> fsz s = fsz s0).

Lemma M_run ops s0 s' : run C ops s0 = Some s' -> M s0 s'.
Proof.
  apply (Q_run C (M s0)); try (intros; unfold M in *; fs; tauto).
  - intros all s [H1 H2]. unfold M, flushc. cbv zeta.
    assert (H1' : md (trace s) = md s0) by exact H1.
    assert (H2' : md s0 = Fixed -> fsz (trace s) = fsz s0) by exact H2.
    revert H1' H2'. generalize (trace s). clear s H1 H2. intros s H1 H2.
    destruct (md s) eqn:Em.
    + unfold flush_fixed. destruct (fsz s <=? p s); fs; rewrite ?Em; auto.
    + unfold flush_dyn. destruct (p s <? fsz s); fs; rewrite ?Em; [auto|].
      destruct (fails s); fs; rewrite ?Em; [auto|]. split; [auto|]. intros N. congruence.
    + unfold flush_file. destruct (negb all && (fsz s <=? p s)); fs; rewrite ?Em; auto.
Qed.

Lemma fit_step s x : md s = Fixed -> err s = 0 -> is_perr x = false -> p s + len (bytes x) < fsz s ->
  exists s', step C s x = Some s' /\ err s' = 0 /\ p s' = p s + len (bytes x) /\ md s' = Fixed /\ fsz s' = fsz s.
Proof.
  intros Hm He Hx Hp. destruct x; cbn [step bytes] in *; try discriminate Hx;
    rewrite ?len_cons, ?len_nil, ?len_app in Hp.
  - eexists. split; [reflexivity|]. fs. rewrite len_cons, len_nil. repeat split; auto; lia.
  - eexists. split; [reflexivity|]. fs. rewrite len_nil. repeat split; auto; lia.
  - eexists. split; [reflexivity|]. fs. rewrite puts_err, puts_p, puts_md, puts_fsz. repeat split; auto.
  - unfold print. assert (E : (fsz s <=? p s + len l) = false) by lia. rewrite E.
    eexists. split; [reflexivity|]. rewrite puts_err, puts_p, puts_md, puts_fsz. repeat split; auto.
  - unfold print_indent. rewrite len_spaces in *. assert (E : (fsz s <? p s + n) = false) by lia. rewrite E.
    eexists. split; [reflexivity|]. rewrite puts_err, puts_p, puts_md, puts_fsz, len_spaces. repeat split; auto.
  - unfold print_b64. pose proof (len_nonneg l). change (len [34]) with 1 in *.
    assert (E : (fsz (put s 34) <=? p (put s 34) + len l) = false) by (fs; lia). rewrite E.
    unfold b64_fuel. cbn [b64_loop].
    assert (E2 : (fsz (put s 34) <? p (put s 34) + len l) = false) by (fs; lia). rewrite E2.
    eexists. split; [reflexivity|]. fs. rewrite puts_err, puts_p, puts_md, puts_fsz. fs.
    rewrite len_cons, len_app, len_cons, len_nil. repeat split; auto; lia.
  - unfold check. assert (E : (fsz s <=? p s) = false) by lia. rewrite E.
    eexists. split; [reflexivity|]. rewrite len_nil. repeat split; auto; lia.
  - eexists. split; [reflexivity|]. unfold flushc. cbv zeta. fs. rewrite Hm. unfold flush_fixed. fs.
    assert (E : (fsz s <=? p s) = false) by lia. rewrite E. fs.
    rewrite len_nil. repeat split; auto; lia.
Qed.

Lemma fit_run : forall ops s, md s = Fixed -> err s = 0 -> no_perr ops = true -> p s + len (text ops) < fsz s ->
  exists s', run C ops s = Some s' /\ err s' = 0 /\ p s' = p s + len (text ops).
Proof.
  induction ops as [|x ops IH]; intros s Hm He Hn Hp.
  - exists s. cbn [run text flat_map]. rewrite len_nil. repeat split; auto; lia.
  - cbn [no_perr forallb] in Hn. apply andb_true_iff in Hn. destruct Hn as [Hx Hn].
    rewrite text_cons, len_app in Hp. pose proof (len_nonneg (text ops)). pose proof (len_nonneg (bytes x)).
    destruct (fit_step s x Hm He ltac:(destruct (is_perr x); [discriminate|reflexivity]) ltac:(lia))
      as (s1 & E1 & He1 & Hp1 & Hm1 & Hf1).
    destruct (IH s1 Hm1 He1 Hn ltac:(lia)) as (s' & E' & He' & Hp').
    exists s'. cbn [run]. rewrite E1. rewrite text_cons, len_app. repeat split; auto; lia.
Qed.

(* the last call of the root printers is ctx->flush(ctx, 1): a fixed buffer reports success exactly when
   everything printed so far stayed below the threshold *)
Lemma fixed_final s : md s = Fixed -> err s = 0 -> (err (flushc C true s) = 0 <-> p s < fsz s).
Proof.
  intros Hm He. unfold flushc. cbv zeta. fs. rewrite Hm. unfold flush_fixed. fs.
  destruct (fsz s <=? p s) eqn:E; fs.
  - rewrite He. cbn [Z.eqb]. unfold PE_overflow. lia.
  - lia.
Qed.

End Fits.

(* ================================================================ initial states *)
Lemma dyn_size_ge C sz : RSV C <= dyn_size C sz.
Proof.
  unfold dyn_size. set (sz1 := if sz =? 0 then PRINT_DYN_BUFFER_SIZE else sz).
  destruct (sz1 <? RSV C) eqn:E; lia.
Qed.

(* the oracle is acceptable for a growing buffer started with sz: every block is the previous plus a reserve;
   the pinned code (no give-up test in print_ex) additionally needs it free of failures *)
Definition orc_ok (C : cfg) (m : pmode) (sz : Z) (o : list Z) : Prop :=
  m = Dynamic -> good_orc (RSV C) (dyn_size C sz) o /\ (fix_progress C = true \/ nofail o = true).

Lemma init_inv C m sz o : 1 <= RSV C ->
  (m = Fixed -> RSV C <= sz /\ (fix_progress C = true \/ RSV C < sz)) ->
  (m = File -> PRINT_FLUSH_SIZE + RSV C <= PRINT_BUFFER_SIZE /\ RSV C <= PRINT_FLUSH_SIZE) ->
  orc_ok C m sz o ->
  Inv C 0 (init C m sz o).
Proof.
  intros HR HF HFile HO. destruct m; unfold init.
  - destruct (HF eq_refl) as [H1 H2]. constructor; fs; try lia; try reflexivity.
    + intros N; discriminate.
    + destruct H2; [left; assumption|right; left; lia].
    + intros N; discriminate.
  - pose proof (dyn_size_ge C sz). destruct (HO eq_refl) as [G1 G2].
    constructor; fs; try lia; try reflexivity.
    + intros N; discriminate.
    + destruct G2; [left; assumption|right; right; split; [reflexivity|assumption]].
    + intros _. exact G1.
  - destruct (HFile eq_refl) as [H1 H2]. constructor; fs; try lia; try reflexivity.
    + intros N. exfalso. apply N. reflexivity.
    + intros N; discriminate.
Qed.

Lemma init_K C m sz o : K (init C m sz o) [].
Proof. destruct m; unfold init; intros _ _; fs; split; reflexivity. Qed.

Lemma init_B C m sz o : B (init C m sz o).
Proof. destruct m; unfold init, B; fs; intros _; split; auto. Qed.

Lemma init_md C m sz o : md (init C m sz o) = m.
Proof. destruct m; reflexivity. Qed.

(* ================================================================ the statements used by Properties_C11 *)
Definition std (C : cfg) : Prop :=
  1 <= RSV C /\ PRINT_FLUSH_SIZE + RSV C <= PRINT_BUFFER_SIZE /\ RSV C <= PRINT_FLUSH_SIZE.

(* a caller-supplied fixed buffer is at least the reserve; the pinned code additionally needs a non-empty
   flush area to terminate *)
Definition size_ok (C : cfg) (m : pmode) (sz : Z) : Prop :=
  m = Fixed -> RSV C <= sz /\ (fix_progress C = true \/ RSV C < sz).

Theorem no_overrun_terminates C ops m sz o sl' :
  std C -> size_ok C m sz -> orc_ok C m sz o -> chk C 0 ops = Some sl' ->
  exists s', run C ops (init C m sz o) = Some s' /\ viol s' = false /\ obad s' = false.
Proof.
  intros (H1 & H2 & H3) Hs Ho Hc.
  destruct (run_ok C ops 0 sl' (init C m sz o)) as (s' & E & HI); [apply init_inv; auto|lia|assumption|].
  exists s'. split; [assumption|]. destruct HI. split; assumption.
Qed.

Theorem output_is_text C ops m sz o s' :
  run C ops (init C m sz o) = Some s' -> viol s' = false -> err s' = 0 ->
  r_text (observe s') = text ops /\ r_ret (observe s') = len (text ops) /\
  (m <> File -> cur s' = rev (text ops) /\ p s' = len (text ops) /\ out s' = [] /\ total s' = 0).
Proof.
  intros E Hv He.
  destruct (K_run C ops _ [] s' (init_K C m sz o) E Hv He) as [A B0]. rewrite app_nil_l in *.
  pose proof (B_run C ops _ s' (init_B C m sz o) E) as HB.
  destruct (M_run C ops _ s' E) as [Hm _]. rewrite init_md in Hm.
  unfold observe. cbn [r_text r_ret]. rewrite frev_rev, A, rev_involutive, He. cbn [Z.eqb]. repeat split; auto.
  - destruct (HB ltac:(congruence)) as [O T]. rewrite O, app_nil_r in A. exact A.
  - destruct (HB ltac:(congruence)) as [O T]. rewrite (T He) in B0. lia.
  - apply HB. congruence.
  - apply HB; [congruence|assumption].
Qed.

Theorem ends_terminated C ops m sz o s' :
  run C (ops ++ [PFlushAll]) (init C m sz o) = Some s' -> term s' = true.
Proof.
  rewrite run_app. destruct (run C ops (init C m sz o)) as [s1|]; [|discriminate].
  cbn [run step]. intros E; some_inj E; subst. apply flush_term.
Qed.

Lemma nofail_tl l : nofail l = true -> nofail (tl l) = true.
Proof. destruct l; [auto|]. cbn [nofail forallb tl]. intros H. apply andb_true_iff in H. apply H. Qed.

(* a growing buffer whose enlargements all succeed, and a file, never report an error of their own *)
Theorem growing_never_overflows C ops m sz o s' :
  m <> Fixed -> nofail o = true -> no_perr ops = true -> run C ops (init C m sz o) = Some s' -> err s' = 0.
Proof.
  intros Hm Ho Hn E.
  assert (Q : md s' <> Fixed /\ err s' = 0 /\ nofail (orc s') = true); [|tauto].
  revert E. apply (Q_run C (fun s => md s <> Fixed /\ err s = 0 /\ nofail (orc s) = true)); try (intros; fs; tauto).
  - intros all s (H1 & H2 & H3). unfold flushc. cbv zeta.
    assert (H1' : md (trace s) <> Fixed) by exact H1. assert (H2' : err (trace s) = 0) by exact H2.
    assert (H3' : nofail (orc (trace s)) = true) by exact H3.
    revert H1' H2' H3'. generalize (trace s). clear. intros s H1 H2 H3.
    destruct (md s) eqn:Em; [congruence| |].
    + unfold flush_dyn. destruct (p s <? fsz s); fs; rewrite ?Em; [auto|].
      destruct (fails s) eqn:En; fs; rewrite ?Em.
      * exfalso. unfold fails in En. destruct (orc s) as [|n t]; [discriminate|].
        cbn [nofail forallb] in H3. apply andb_true_iff in H3. destruct H3 as [H3 _]. lia.
      * repeat split; auto. apply nofail_tl. exact H3.
    + unfold flush_file. destruct (negb all && (fsz s <=? p s)); fs; rewrite ?Em; auto.
  - rewrite init_md. split; [assumption|]. destruct m; split; try reflexivity; exact Ho.
Qed.

Lemma text_flushall ops : text (ops ++ [PFlushAll]) = text ops.
Proof. rewrite text_app. cbn [text flat_map bytes]. rewrite !app_nil_r. reflexivity. Qed.

Theorem fixed_success_iff_fits C ops sz o s' :
  no_perr ops = true -> run C (ops ++ [PFlushAll]) (init C Fixed sz o) = Some s' -> viol s' = false ->
  (err s' = 0 <-> len (text ops) < sz - RSV C).
Proof.
  intros Hn E Hv. rewrite run_app in E.
  destruct (run C ops (init C Fixed sz o)) as [s1|] eqn:E1; [|discriminate].
  cbn [run step] in E. some_inj E; subst s'.
  destruct (M_run C ops _ s1 E1) as [Hm Hf]. rewrite init_md in Hm. specialize (Hf eq_refl).
  assert (Hf0 : fsz s1 = sz - RSV C) by (rewrite Hf; reflexivity).
  split.
  - intros He. destruct (sticky_flush C true s1) as [S1 S2].
    pose proof (fixed_final C s1 Hm (S2 He)) as [F1 _]. specialize (F1 He).
    destruct (K_run C ops _ [] s1 (init_K C Fixed sz o) E1 (S1 Hv) (S2 He)) as [_ B0]. rewrite app_nil_l in B0.
    pose proof (B_run C ops _ s1 (init_B C Fixed sz o) E1) as HB.
    destruct (HB ltac:(congruence)) as [_ T]. rewrite (T (S2 He)) in B0. lia.
  - intros Hl. destruct (fit_run C ops (init C Fixed sz o) eq_refl eq_refl Hn) as (s2 & E2 & He2 & Hp2).
    { change (p (init C Fixed sz o)) with 0. change (fsz (init C Fixed sz o)) with (sz - RSV C). lia. }
    rewrite E1 in E2. some_inj E2; subst s2.
    apply (fixed_final C s1 Hm He2). change (p (init C Fixed sz o)) with 0 in Hp2. lia.
Qed.

(* ================================================================ the pinned code does not always terminate *)
(* print_ex without the repair: a fixed buffer of exactly the reserve has pflush = buf; every flush rewinds to
   buf and k stays 0, for any number of iterations *)
Lemma ex_loop_diverges C : fix_progress C = false ->
  forall fuel s l, md s = Fixed -> fsz s = 0 -> p s = 0 -> l <> [] -> ex_loop C fuel s l = None.
Proof.
  intros HF. induction fuel as [|f IH]; intros s l Hm Hf Hp Hl; [reflexivity|].
  cbn [ex_loop]. rewrite Hf, Hp. change (0 - 0) with 0. change (0 <? 0) with false. cbn [Z.to_nat firstn skipn].
  assert (E : (0 <? len l) = true) by (destruct l; [congruence|rewrite len_cons; pose proof (len_nonneg l); lia]).
  rewrite E, HF. cbn [andb]. rewrite puts_nil. apply IH; try assumption.
  - unfold flushc. cbv zeta. fs. rewrite Hm. unfold flush_fixed. destruct (fsz (trace s) <=? p (trace s)); fs; assumption.
  - unfold flushc. cbv zeta. fs. rewrite Hm. unfold flush_fixed. destruct (fsz (trace s) <=? p (trace s)); fs; assumption.
  - unfold flushc. cbv zeta. fs. rewrite Hm. unfold flush_fixed. fs. rewrite Hf, Hp. reflexivity.
Qed.

(* base64 without the repair: with 1..3 bytes left below pflush the chunk is empty and the flush functions of the
   two buffer modes do nothing while p < pflush *)
Lemma b64_loop_diverges C : fix_b64 C = false ->
  forall fuel s l, md s <> File -> 0 < fsz s - p s < 4 -> fsz s < p s + len l -> b64_loop C fuel s l = None.
Proof.
  intros HF. induction fuel as [|f IH]; intros s l Hm Hr Hl; [reflexivity|].
  cbn [b64_loop]. rewrite HF. cbn [andb].
  assert (E0 : (fsz s <? p s + len l) = true) by lia. rewrite E0.
  assert (E1 : (fsz s - p s <? 0) = false) by lia. rewrite E1.
  assert (E2 : (fsz s - p s) / 4 * 4 = 0) by lia. rewrite E2.
  cbn [Z.to_nat firstn skipn]. rewrite puts_nil.
  assert (G : md (flushc C false s) = md s /\ fsz (flushc C false s) = fsz s /\ p (flushc C false s) = p s).
  { unfold flushc. cbv zeta. fs. destruct (md s) eqn:Em; [| |congruence].
    - unfold flush_fixed. fs. assert (E : (fsz s <=? p s) = false) by lia. rewrite E. fs. auto.
    - unfold flush_dyn. fs. assert (E : (p s <? fsz s) = true) by lia. rewrite E. fs. auto. }
  destruct G as (G1 & G2 & G3). apply IH; rewrite ?G1, ?G2, ?G3; assumption.
Qed.

(* ================================================================ the length-carrying variants are the same functions *)
Lemma ex_loop_f_eq C : forall fuel s l n, n = len l -> True -> ex_loop_f C fuel s l n = ex_loop C fuel s l.
Proof.
  induction fuel as [|f IH]; intros s l n Hn _; [reflexivity|].
  cbn [ex_loop_f ex_loop]. subst n. destruct (fsz s - p s <? 0) eqn:E0; [reflexivity|].
  destruct (fsz s - p s <? len l) eqn:E1; [|reflexivity].
  match goal with |- (if ?c then _ else _) = _ => destruct c end; [reflexivity|].
  apply IH; [|exact I]. rewrite len_skipn; lia.
Qed.

Lemma b64_loop_f_eq C : forall fuel s l n, n = len l -> b64_loop_f C fuel s l n = b64_loop C fuel s l.
Proof.
  induction fuel as [|f IH]; intros s l n Hn; [reflexivity|].
  cbn [b64_loop_f b64_loop]. subst n. destruct (fsz s <? p s + len l) eqn:E0; [|reflexivity].
  destruct (fsz s - p s <? 0) eqn:E1; [reflexivity|].
  set (k := if fix_b64 C then (fsz s - p s + 3) / 4 * 4 else (fsz s - p s) / 4 * 4).
  destruct (fix_b64 C && (len l <=? k)) eqn:E2; [reflexivity|].
  match goal with |- (if ?c then _ else _) = _ => destruct c end; [reflexivity|].
  destruct (Z_le_gt_dec k (len l)) as [Hk|Hk].
  - apply IH. rewrite len_skipn; [reflexivity|]. unfold k. destruct (fix_b64 C); lia.
  - (* only reachable for the pinned code with k > len l: cannot happen, k <= room < len l *)
    exfalso. unfold k in Hk. destruct (fix_b64 C); cbn [andb] in E2; lia.
Qed.

Lemma step_f_eq C s x : step_f C s x = step C s x.
Proof.
  destruct x; cbn [step_f step]; [reflexivity|reflexivity|reflexivity| | | |reflexivity|reflexivity|reflexivity].
  - unfold print_f, print, print_ex_f, print_ex. destruct (fsz s <=? p s + len l); [|reflexivity].
    apply ex_loop_f_eq; [reflexivity|exact I].
  - unfold print_indent_f, print_indent, print_ex_f, print_ex. destruct (fsz s <? p s + n); [|reflexivity].
    apply ex_loop_f_eq; [rewrite len_spaces; reflexivity|exact I].
  - unfold print_b64_f, print_b64. rewrite b64_loop_f_eq by reflexivity. reflexivity.
Qed.

Theorem run_f_eq C : forall ops s, run_f C ops s = run C ops s.
Proof.
  induction ops as [|x t IH]; intros s; [reflexivity|].
  cbn [run_f run]. rewrite step_f_eq. destruct (step C s x); [apply IH|reflexivity].
Qed.
