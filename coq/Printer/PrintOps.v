(* C11: the primitive stream json_printer.c and the generated printers issue for a value.
   Transcribes print_start / print_end / print_nl / print_space / print_name / print_symbol / print_string /
   print_escape / the enum helpers / print_table_object / the *_field, *_vector_field, union and root functions
   of src/runtime/json_printer.c, in the order src/compiler/codegen_c_json_printer.c calls them.
   A [value] is what the printer sees of a buffer through one schema: the fields that are printed, in print
   order, with number texts already formatted (the number formatters are outside this model: a scalar is a
   raw run of characters).  No proofs in this file. *)
From Flatcc.Printer Require Export FlushModel.
Local Open Scope Z_scope.

Record flags := mkflags {
  indent : Z;        (* ctx->indent, 0..255 *)
  unquote : bool;    (* ctx->unquote *)
  noenum : bool      (* ctx->noenum *)
}.

(* repairs of the stream (fixes/C11-*.patch); all false = pinned tree *)
Record ocfg := mkocfg {
  fix_end : bool;    (* print_end: flush check before the closing bracket when not indenting *)
  fix_sep : bool     (* table / union vector loops: flush check after the element separator *)
}.

Inductive enumrep :=
| ESym (sym : list Z)              (* flatcc_json_printer_enum: known enum value, union type name *)
| EFlags (syms : list (list Z))    (* bit flags all known and non-zero: delimit, flags, delimit *)
| ENum.                            (* unknown value: printed as a number *)

Inductive vkind :=
| VkNl       (* scalar, enum, string, struct vectors and scalar arrays: print_nl before every element *)
| VkSep      (* table and union vectors: elements follow the separator directly *)
| VkPlain.   (* embedded struct arrays *)

Inductive value :=
| VNum (txt : list Z)
| VEnum (r : enumrep) (txt : list Z)
| VStr (s : list Z)
| VB64 (enc : list Z)
| VTable (fs : list value)                  (* print_table_object; fs are VField / VUnionField *)
| VStruct (fs : list value)                 (* '{' struct printer '}' *)
| VVec (k : vkind) (es : list value)
| VNull                                     (* union vector element of type NONE *)
| VSkip                                     (* union vector element of a type the schema does not know *)
| VField (name : list Z) (v : value)
| VUnionField (name : list Z) (ty : value) (present : bool) (member : value).   (* present = the type is not NONE *)

Definition hexdigit (x : Z) : Z := if x <? 10 then 48 + x else 87 + x.

(* print_escape *)
Definition esc_ops (c : Z) : list prim :=
  PChar 92 ::
  (if c =? 34 then [PChar 34] else if c =? 92 then [PChar 92] else if c =? 9 then [PChar 116]
   else if c =? 12 then [PChar 102] else if c =? 13 then [PChar 114] else if c =? 10 then [PChar 110]
   else if c =? 8 then [PChar 98]
   else [PChar 117; PChar 48; PChar 48; PChar (hexdigit (c / 16)); PChar (hexdigit (c mod 16))]).

Definition needs_esc (c : Z) : bool := (c <? 32) || (c =? 34) || (c =? 92).

(* the loop of print_string: runs of plain characters go through print, also when empty *)
Fixpoint str_ops (run : list Z) (s : list Z) : list prim :=
  match s with
  | [] => [PPrint (frev run)]
  | c :: t => if needs_esc c then PPrint (frev run) :: esc_ops c ++ str_ops [] t else str_ops (c :: run) t
  end.

(* f applied to the elements of a list in order, told which one is first *)
Definition seq_ops (f : bool -> value -> list prim) : bool -> list value -> list prim :=
  fix go (first : bool) (l : list value) : list prim :=
    match l with
    | [] => []
    | e :: t => f first e ++ go false t
    end.

Section Ops.
  Variable O : ocfg.
  Variable F : flags.

  Definition pretty : bool := 0 <? indent F.

  (* print_nl at level lvl *)
  Definition nl_ops (lvl : Z) : list prim :=
    if pretty then [PChar 10; PIndent (lvl * indent F)] else [PCheck].
  (* store a double quote at p; p += !unquote *)
  Definition quote : prim := if unquote F then PPoke else PChar 34.
  (* print_space *)
  Definition space : prim := if pretty then PChar 32 else PPoke.
  (* print_symbol *)
  Definition sym_ops (name : list Z) : list prim := [quote; PPrint name; quote].
  (* print_name *)
  Definition name_ops (lvl : Z) (name : list Z) : list prim :=
    nl_ops lvl ++ sym_ops name ++ [PChar 58; space].
  (* print_end(c) when the level after it is lvl *)
  Definition end_ops (lvl : Z) (c : Z) : list prim :=
    if pretty then [PChar 10; PIndent (lvl * indent F); PChar c]
    else if fix_end O then [PCheck; PChar c] else [PChar c].

  (* generated <enum>_print_json_enum for bit flags: delimit, flags separated by a space, delimit *)
  Fixpoint flag_ops (first : bool) (syms : list (list Z)) : list prim :=
    match syms with
    | [] => []
    | s :: t => (if first then PPoke else PChar 32) :: PPrint s :: flag_ops false t
    end.
  Definition delimit (multiple : bool) : prim :=
    if negb (unquote F) || ((PRINT_QUOTE_MULTIPLE_FLAGS =? 1) && multiple) then PChar 34 else PPoke.

  Definition enum_ops (r : enumrep) (txt : list Z) : list prim :=
    if noenum F then [PNum txt] else
    match r with
    | ESym s => sym_ops s
    | EFlags syms => let m := (1 <? Z.of_nat (length syms)) in delimit m :: flag_ops true syms ++ [delimit m]
    | ENum => [PNum txt]
    end.

  Definition comma (first : bool) : list prim := if first then [] else [PChar 44].

  (* separator before every element but the first of a vector *)
  Definition sep_ops (k : vkind) (lvl : Z) (first : bool) : list prim :=
    comma first
    ++ match k with
       | VkNl => nl_ops (lvl + 1)
       | VkSep => if fix_sep O && negb first then [PCheck] else []
       | VkPlain => []
       end.

  (* lvl = ctx->level on entry, ttl = the ttl argument handed down *)
  Fixpoint vops (lvl ttl : Z) (v : value) {struct v} : list prim :=
    match v with
    | VNum txt => [PNum txt]
    | VEnum r txt => enum_ops r txt
    | VStr s => PChar 34 :: str_ops [] s ++ [PChar 34]
    | VB64 enc => [PB64 enc]
    | VTable fs =>
      if ttl - 1 =? 0 then [PErr PE_deep_recursion]
      else PChar 123 :: seq_ops (fun first f => comma first ++ vops (lvl + 1) (ttl - 1) f) true fs ++ end_ops lvl 125
    | VStruct fs =>
      PChar 123 :: seq_ops (fun first f => comma first ++ vops (lvl + 1) ttl f) true fs ++ end_ops lvl 125
    | VVec k es =>
      PChar 91 :: seq_ops (fun first e => sep_ops k lvl first ++ vops (lvl + 1) ttl e) true es ++ end_ops lvl 93
    | VNull => [PChar 110; PChar 117; PChar 108; PChar 108]
    | VSkip => []
    | VField name v => name_ops lvl name ++ vops lvl ttl v
    | VUnionField name ty present member =>
      nl_ops lvl ++ [quote; PPrint name; PPrint [95; 116; 121; 112; 101]; quote; PChar 58; space]
      ++ vops lvl ttl ty
      ++ (if present then PChar 44 :: name_ops lvl name ++ vops lvl ttl member else [])
    end.

  (* print_last_nl *)
  Definition last_ops : list prim := (if pretty then [PChar 10] else []) ++ [PFlushAll].

  (* flatcc_json_printer_table_as_root / struct_as_root after accept_header *)
  Definition root_ops (v : value) : list prim := vops 0 PRINT_MAX_LEVELS v ++ last_ops.
End Ops.

Definition ocfg_fixed : ocfg := mkocfg true true.
Definition ocfg_current : ocfg := mkocfg false false.

(* a table chain nested n deep, innermost table with one scalar field: {"t":{"t":{..{"i":1}..}}} *)
Fixpoint chain (n : nat) : value :=
  match n with
  | O => VTable [VField [105] (VNum [49])]
  | S k => VTable [VField [116] (chain k)]
  end.

(* ---------------------------------------------------------------- well-formed values
   nw bounds what a number printer stores (text and terminator).  Tables and structs contain fields, vectors
   contain plain values that are not vectors, embedded struct arrays contain structs, table and union vectors
   contain no bare numbers (their elements are tables, structs, strings, null). *)
Definition is_fieldlike (v : value) : bool :=
  match v with VField _ _ | VUnionField _ _ _ _ => true | _ => false end.
Definition is_vec (v : value) : bool := match v with VVec _ _ => true | _ => false end.
Definition is_struct (v : value) : bool := match v with VStruct _ => true | _ => false end.
(* values that may print as a raw number run *)
Definition is_numlike (v : value) : bool := match v with VNum _ | VEnum _ _ => true | _ => false end.

Fixpoint wfv (nw : Z) (v : value) : bool :=
  match v with
  | VNum txt => len txt + 1 <=? nw
  | VEnum _ txt => len txt + 1 <=? nw
  | VStr _ | VB64 _ | VNull | VSkip => true
  | VTable fs | VStruct fs => forallb (fun f => is_fieldlike f && wfv nw f) fs
  | VVec k es =>
    forallb (fun e => negb (is_fieldlike e) && negb (is_vec e)
                      && (match k with VkPlain => is_struct e | VkSep => negb (is_numlike e) | VkNl => true end) && wfv nw e) es
  | VField _ v => negb (is_fieldlike v) && wfv nw v
  | VUnionField _ ty _ m =>
    negb (is_fieldlike ty) && negb (is_vec ty) && wfv nw ty && negb (is_fieldlike m) && negb (is_vec m) && wfv nw m
  end.
