(* Generic facts about the format decoder Format/Spec.v:
   a successful decode is stable when the memory is extended (more bytes before or after), when the whole buffer is
   moved (origin change) and when the depth bound grows.  This is what lets the builder proofs keep what they
   know about objects emitted earlier. *)
From Flatcc.Format Require Import Schema Spec.
From Coq Require Import ZifyBool.
Local Open Scope Z_scope.
Ltac Zify.zify_post_hook ::= Z.div_mod_to_equations.

(* memory m seen from origin o is contained in memory m' seen from origin o' *)
Definition mle (m : mem) (o : Z) (m' : mem) (o' : Z) : Prop :=
  forall i b, m (o + i) = Some b -> m' (o' + i) = Some b.

Lemma mle_at m o m' o' : mle m o m' o' -> forall a a' b, a' - o' = a - o -> m a = Some b -> m' a' = Some b.
Proof.
  intros H a a' b Ha E.
  replace a with (o + (a - o)) in E by ring. apply H in E.
  replace a' with (o' + (a - o)) by lia. exact E.
Qed.

Lemma mle_refl m o : mle m o m o.
Proof. intros i b H; exact H. Qed.

Lemma mle_trans m1 o1 m2 o2 m3 o3 : mle m1 o1 m2 o2 -> mle m2 o2 m3 o3 -> mle m1 o1 m3 o3.
Proof. intros A B i b H. apply B, A, H. Qed.

Lemma mle_shift m o m' o' k : mle m o m' o' -> mle m (o + k) m' (o' + k).
Proof. intros H i b E. rewrite <- Z.add_assoc in *. apply H, E. Qed.

(* destruct the head of a chain of binds / ifs in a hypothesis [.. = Some _] *)
Ltac bd H :=
  match type of H with
  | bind ?e _ = Some _ => let E := fresh "E" in destruct e eqn:E; [cbn [bind] in H | discriminate H]
  | (if ?b then _ else None) = Some _ => let E := fresh "E" in destruct b eqn:E; [| discriminate H]
  | (if ?b then None else _) = Some _ => let E := fresh "E" in destruct b eqn:E; [discriminate H |]
  end.

Section Mono.
Variables (m : mem) (o : Z) (m' : mem) (o' : Z).
Hypothesis H : mle m o m' o'.

Lemma rd_at a a' b : a' - o' = a - o -> m a = Some b -> m' a' = Some b.
Proof. apply (mle_at _ _ _ _ H). Qed.

Lemma mrd16_at a a' x : a' - o' = a - o -> mrd16 m a = Some x -> mrd16 m' a' = Some x.
Proof.
  intros Ha E. unfold mrd16 in *. bd E. bd E.
  rewrite (rd_at a a' _ Ha E0). rewrite (rd_at (a + 1) (a' + 1) _ ltac:(lia) E1). exact E.
Qed.

Lemma mrd32_at a a' x : a' - o' = a - o -> mrd32 m a = Some x -> mrd32 m' a' = Some x.
Proof.
  intros Ha E. unfold mrd32 in *. bd E. bd E. bd E. bd E.
  rewrite (rd_at a a' _ Ha E0), (rd_at (a + 1) (a' + 1) _ ltac:(lia) E1),
          (rd_at (a + 2) (a' + 2) _ ltac:(lia) E2), (rd_at (a + 3) (a' + 3) _ ltac:(lia) E3). exact E.
Qed.

Lemma mrdbytes_at n : forall a a' l, a' - o' = a - o -> mrdbytes m a n = Some l -> mrdbytes m' a' n = Some l.
Proof.
  induction n; intros a a' l Ha E; cbn [mrdbytes] in *; [exact E|].
  bd E. bd E. rewrite (rd_at a a' _ Ha E0). cbn [bind].
  rewrite (IHn (a + 1) (a' + 1) _ ltac:(lia) E1). exact E.
Qed.

Lemma rd_elems_at es n : forall a a' l, a' - o' = a - o -> rd_elems m a es n = Some l -> rd_elems m' a' es n = Some l.
Proof.
  induction n; intros a a' l Ha E; cbn [rd_elems] in *; [exact E|].
  bd E. bd E. rewrite (mrdbytes_at _ a a' _ Ha E0). cbn [bind].
  rewrite (IHn (a + Z.of_nat es) (a' + Z.of_nat es) _ ltac:(lia) E1). exact E.
Qed.

Lemma follow_mono p t : follow m o p = Some t -> follow m' o' p = Some t.
Proof.
  unfold follow. intros E. bd E.
  rewrite (mrd32_at (o + p) (o' + p) _ ltac:(lia) E0). exact E.
Qed.

Lemma dec_string_mono ds p v : dec_string m o ds p = Some v -> dec_string m' o' ds p = Some v.
Proof.
  unfold dec_string. intros E. bd E. bd E. bd E. bd E.
  rewrite (mrd32_at (o + p) (o' + p) _ ltac:(lia) E1). cbn [bind].
  rewrite (mrdbytes_at _ (o + p + 4) (o' + p + 4) _ ltac:(lia) E2). cbn [bind].
  rewrite (rd_at (o + p + 4 + z) (o' + p + 4 + z) _ ltac:(lia) E3). exact E.
Qed.

Lemma dec_vector_mono ds es al mc p v : dec_vector m o ds es al mc p = Some v -> dec_vector m' o' ds es al mc p = Some v.
Proof.
  unfold dec_vector. intros E. bd E. bd E. bd E. bd E.
  rewrite (mrd32_at (o + p) (o' + p) _ ltac:(lia) E1). cbn [bind]. rewrite E2.
  rewrite (rd_elems_at _ _ (o + p + 4) (o' + p + 4) _ ltac:(lia) E3). exact E.
Qed.

Lemma dec_struct_mono ds size al t v : dec_struct m o ds size al t = Some v -> dec_struct m' o' ds size al t = Some v.
Proof.
  unfold dec_struct. intros E. bd E. bd E.
  rewrite (mrdbytes_at _ (o + t) (o' + t) _ ltac:(lia) E1). exact E.
Qed.

Lemma dec_offs_mono (f f' : Z -> option value) :
  (forall p v, f p = Some v -> f' p = Some v) ->
  forall n p l, dec_offs f m o p n = Some l -> dec_offs f' m' o' p n = Some l.
Proof.
  intros Hf. induction n; intros p l E; cbn [dec_offs] in *; [exact E|].
  bd E. bd E. bd E. rewrite (follow_mono _ _ E0). cbn [bind]. rewrite (Hf _ _ E1). cbn [bind].
  rewrite (IHn _ _ E2). exact E.
Qed.

Lemma dec_offvec_mono (f f' : Z -> option value) ds p v :
  (forall p v, f p = Some v -> f' p = Some v) ->
  dec_offvec f m o ds p = Some v -> dec_offvec f' m' o' ds p = Some v.
Proof.
  intros Hf. unfold dec_offvec. intros E. bd E. bd E. bd E. bd E.
  rewrite (mrd32_at (o + p) (o' + p) _ ltac:(lia) E1). cbn [bind]. rewrite E2.
  rewrite (dec_offs_mono _ _ Hf _ _ _ E3). exact E.
Qed.
End Mono.

(* restriction to a window commutes with containment *)
Lemma mle_restrict m o m' o' : mle m o m' o' ->
  forall lo hi lo' hi', lo' - o' = lo - o -> hi' - o' = hi - o ->
  mle (restrict m lo hi) lo (restrict m' lo' hi') lo'.
Proof.
  intros H lo hi lo' hi' Hl Hh i b. unfold restrict.
  destruct ((lo <=? lo + i) && (lo + i <? hi)) eqn:E; [|discriminate].
  replace ((lo' <=? lo' + i) && (lo' + i <? hi')) with true by lia.
  apply (mle_at _ _ _ _ H). lia.
Qed.

(* the recursive table decoder parameter: containment of memories is respected *)
Definition rle (r r' : tdec) : Prop :=
  forall m o m' o' ds t p v, mle m o m' o' -> r m o ds t p = Some v -> r' m' o' ds t p = Some v.

Section MonoRec.
Variables (r r' : tdec) (Sc : schema).
Hypothesis Hr : rle r r'.
Variables (m : mem) (o : Z) (m' : mem) (o' : Z).
Hypothesis H : mle m o m' o'.

Lemma dec_member_mono ds u c t v : dec_member r Sc m o ds u c t = Some v -> dec_member r' Sc m' o' ds u c t = Some v.
Proof.
  unfold dec_member. destruct (union_member Sc u c) as [[tt|size al|]|]; intros E.
  - eapply Hr; eauto.
  - eapply dec_struct_mono; eauto.
  - eapply dec_string_mono; eauto.
  - exact E.
Qed.

Lemma dec_uelems_mono ds u n : forall tp vp l,
  dec_uelems r Sc m o ds u tp vp n = Some l -> dec_uelems r' Sc m' o' ds u tp vp n = Some l.
Proof.
  induction n; intros tp vp l E; cbn [dec_uelems] in *; [exact E|].
  bd E. bd E. bd E. bd E.
  rewrite (rd_at _ _ _ _ H (o + tp) (o' + tp) _ ltac:(lia) E0). cbn [bind].
  rewrite (mrd32_at _ _ _ _ H (o + vp) (o' + vp) _ ltac:(lia) E1). cbn [bind].
  assert (E2' : (if z =? 0 then if z0 =? 0 then Some None else None
                 else if z0 =? 0 then None
                 else v <- dec_member r' Sc m' o' ds u z (vp + z0);; Some (Some v)) = Some o0).
  { destruct (z =? 0); [exact E2|]. destruct (z0 =? 0); [exact E2|].
    bd E2. rewrite (dec_member_mono _ _ _ _ _ E4). exact E2. }
  rewrite E2'. cbn [bind]. rewrite (IHn _ _ _ E3). exact E.
Qed.

Lemma dec_uvec_mono ds u tp vp v : dec_uvec r Sc m o ds u tp vp = Some v -> dec_uvec r' Sc m' o' ds u tp vp = Some v.
Proof.
  unfold dec_uvec. intros E. bd E. bd E. bd E. bd E. bd E.
  rewrite (mrd32_at _ _ _ _ H (o + tp) (o' + tp) _ ltac:(lia) E1). cbn [bind].
  rewrite (mrd32_at _ _ _ _ H (o + vp) (o' + vp) _ ltac:(lia) E2). cbn [bind]. rewrite E3.
  rewrite (dec_uelems_mono _ _ _ _ _ _ E4). exact E.
Qed.

Lemma dec_buffer_mono ds R hp v : dec_buffer r m o ds R hp = Some v -> dec_buffer r' m' o' ds R hp = Some v.
Proof.
  unfold dec_buffer. intros E. bd E. bd E. rewrite (follow_mono _ _ _ _ H _ _ E1). cbn [bind].
  destruct R; [eapply Hr; eauto | eapply dec_struct_mono; eauto].
Qed.
End MonoRec.

Section MonoRec2.
Variables (r r' : tdec) (Sc : schema).
Hypothesis Hr : rle r r'.
Variables (m : mem) (o : Z) (m' : mem) (o' : Z).
Hypothesis H : mle m o m' o'.

Lemma dec_nested_mono ds R al t v : dec_nested r m o ds R al t = Some v -> dec_nested r' m' o' ds R al t = Some v.
Proof.
  unfold dec_nested. intros E. bd E. bd E. bd E. bd E.
  rewrite (mrd32_at _ _ _ _ H (o + t) (o' + t) _ ltac:(lia) E1). cbn [bind].
  rewrite (mrdbytes_at _ _ _ _ H _ (o + (t + 4)) (o' + (t + 4)) _ ltac:(lia) E2). cbn [bind].
  pose proof (mle_restrict m o m' o' H (o + (t + 4)) (o + (t + 4) + z) (o' + (t + 4)) (o' + (t + 4) + z)
                ltac:(lia) ltac:(lia)) as Hm.
  rewrite (dec_buffer_mono r r' Hr _ _ _ _ Hm _ _ _ _ E3). exact E.
Qed.

Section MonoTable.
Variables (ds : list Z) (vt vsize tp tsize : Z).

Lemma vt_entry_mono id e : vt_entry m o vt vsize id = Some e -> vt_entry m' o' vt vsize id = Some e.
Proof.
  unfold vt_entry. destruct ((0 <=? id) && (4 + 2 * id + 2 <=? vsize)); [|auto].
  apply (mrd16_at _ _ _ _ H). lia.
Qed.

Lemma field_pos_mono id fs fa x : field_pos m o ds vt vsize tp tsize id fs fa = Some x ->
  field_pos m' o' ds vt vsize tp tsize id fs fa = Some x.
Proof.
  unfold field_pos. intros E. bd E. rewrite (vt_entry_mono _ _ E0). exact E.
Qed.

Lemma with_off_mono id (k k' : Z -> option value) x :
  (forall p v, k p = Some v -> k' p = Some v) ->
  with_off m o ds vt vsize tp tsize id k = Some x -> with_off m' o' ds vt vsize tp tsize id k' = Some x.
Proof.
  intros Hk. unfold with_off. intros E. bd E. rewrite (field_pos_mono _ _ _ _ E0). cbn [bind].
  destruct o0 as [p|]; [|exact E]. bd E. bd E.
  rewrite (follow_mono _ _ _ _ H _ _ E1). cbn [bind]. rewrite (Hk _ _ E2). exact E.
Qed.

Lemma dec_kind_mono id k x : dec_kind r Sc m o ds vt vsize tp tsize id k = Some x ->
  dec_kind r' Sc m' o' ds vt vsize tp tsize id k = Some x.
Proof.
  destruct k; cbn [dec_kind]; intros E.
  - bd E. rewrite (field_pos_mono _ _ _ _ E0). cbn [bind]. destruct o0 as [p|]; [|exact E].
    bd E. rewrite (mrdbytes_at _ _ _ _ H _ (o + p) (o' + p) _ ltac:(lia) E1). exact E.
  - eapply with_off_mono; [|exact E]. intros; eapply dec_string_mono; eauto.
  - eapply with_off_mono; [|exact E]. intros; eapply dec_vector_mono; eauto.
  - eapply with_off_mono; [|exact E]. intros p0 v0 E0.
    eapply dec_offvec_mono; [exact H | | exact E0].
    intros ? ? X; eapply dec_string_mono; [exact H | exact X].
  - eapply with_off_mono; [|exact E]. intros; eapply Hr; eauto.
  - eapply with_off_mono; [|exact E]. intros p0 v0 E0.
    eapply dec_offvec_mono; [exact H | | exact E0].
    intros ? ? X; eapply Hr; [exact H | exact X].
  - bd E. rewrite (field_pos_mono _ _ _ _ E0). cbn [bind]. bd E.
    assert (E1' : match o0 with None => Some 0 | Some p => m' (o' + p) end = Some z).
    { destruct o0 as [p|]; [|exact E1]. apply (rd_at _ _ _ _ H (o + p)); [lia|exact E1]. }
    rewrite E1'. cbn [bind]. bd E. rewrite (field_pos_mono _ _ _ _ E2). cbn [bind].
    destruct (z =? 0); [exact E|]. destruct o1 as [p|]; [|exact E].
    bd E. bd E. rewrite (follow_mono _ _ _ _ H _ _ E3). cbn [bind].
    rewrite (dec_member_mono r r' Sc Hr _ _ _ _ H _ _ _ _ _ E4). exact E.
  - bd E. rewrite (field_pos_mono _ _ _ _ E0). cbn [bind]. bd E. rewrite (field_pos_mono _ _ _ _ E1). cbn [bind].
    destruct o0 as [pt|], o1 as [pv|]; try exact E.
    bd E. bd E. bd E.
    rewrite (follow_mono _ _ _ _ H _ _ E2), (follow_mono _ _ _ _ H _ _ E3). cbn [bind].
    rewrite (dec_uvec_mono r r' Sc Hr _ _ _ _ H _ _ _ _ _ E4). exact E.
  - eapply with_off_mono; [|exact E]. intros; eapply dec_nested_mono; eauto.
  - eapply with_off_mono; [|exact E]. intros; eapply dec_nested_mono; eauto.
Qed.

Lemma dec_field_mono f x : dec_field r Sc m o ds vt vsize tp tsize f = Some x ->
  dec_field r' Sc m' o' ds vt vsize tp tsize f = Some x.
Proof.
  unfold dec_field. intros E. bd E. rewrite (dec_kind_mono _ _ _ E0). exact E.
Qed.

Lemma dec_fields_mono fl : forall l, dec_fields r Sc m o ds vt vsize tp tsize fl = Some l ->
  dec_fields r' Sc m' o' ds vt vsize tp tsize fl = Some l.
Proof.
  induction fl; intros l E; cbn [dec_fields] in *; [exact E|].
  bd E. bd E. rewrite (dec_field_mono _ _ E0). cbn [bind]. rewrite (IHfl _ eq_refl). exact E.
Qed.
End MonoTable.

Lemma dec_table_body_mono ds t p v : dec_table_body r Sc m o ds t p = Some v -> dec_table_body r' Sc m' o' ds t p = Some v.
Proof.
  unfold dec_table_body. intros E. bd E. bd E. bd E.
  rewrite (mrd32_at _ _ _ _ H (o + p) (o' + p) _ ltac:(lia) E2). cbn [bind].
  bd E. bd E. bd E. bd E. bd E. bd E. bd E.
  rewrite (mrd16_at _ _ _ _ H (o + (p - s32 z)) (o' + (p - s32 z)) _ ltac:(lia) E4). cbn [bind].
  rewrite (mrd16_at _ _ _ _ H (o + (p - s32 z) + 2) (o' + (p - s32 z) + 2) _ ltac:(lia) E5). cbn [bind].
  rewrite E6.
  rewrite (rd_at _ _ _ _ H (o + (p - s32 z) + z0 - 1) (o' + (p - s32 z) + z0 - 1) _ ltac:(lia) E7). cbn [bind].
  rewrite (rd_at _ _ _ _ H (o + p + z1 - 1) (o' + p + z1 - 1) _ ltac:(lia) E8). cbn [bind].
  rewrite (dec_fields_mono _ _ _ _ _ _ _ E9). exact E.
Qed.
End MonoRec2.

(* the decoder with depth bound n: stable under memory containment and larger bounds *)
Lemma dec_table_mono Sc : forall n n', (n <= n')%nat -> rle (dec_table n Sc) (dec_table n' Sc).
Proof.
  induction n; intros n' Hn m o m' o' ds t p v H E; [discriminate E|].
  destruct n' as [|n']; [lia|]. cbn [dec_table] in *.
  eapply dec_table_body_mono; [apply IHn; lia | exact H | exact E].
Qed.
