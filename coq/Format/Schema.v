(* The verifier / reader view of a schema (DESIGN.md Appendix A).
   Local copy owned by the builder area; same shape as the lead's Verifier/VerifierModel.v schema
   (to be unified later).  No proofs in this file. *)
From Flatcc.Common Require Export Bytes.
Local Open Scope Z_scope.

Inductive fkind :=
| FScalar (size align : Z)                (* scalars, enums and inline structs *)
| FString
| FVector (esize align maxcount : Z)      (* vectors of scalars / structs *)
| FStringVec
| FTable (t : nat)
| FTableVec (t : nat)
| FUnion (u : nat)                        (* value field id = fid, type field id = fid - 1 *)
| FUnionVec (u : nat)                     (* value vector id = fid, type vector id = fid - 1 *)
| FNestedTable (align : Z) (t : nat)      (* [ubyte] (nested_flatbuffer: table) *)
| FNestedStruct (size align : Z).         (* [ubyte] (nested_flatbuffer: struct) *)

Record field := { fid : Z; frequired : bool; fk : fkind }.     (* deprecated fields are absent *)
Inductive umember := UTable (t : nat) | UStruct (size align : Z) | UString.
Record schema := { tables : list (list field); unions : list (list (Z * umember)) }.
Inductive root := RTable (t : nat) | RStruct (size align : Z).

Definition table_fields (S : schema) (t : nat) : option (list field) := nth_error (tables S) t.

Fixpoint assocZ {A} (k : Z) (l : list (Z * A)) : option A :=
  match l with
  | [] => None
  | (k', a) :: r => if k =? k' then Some a else assocZ k r
  end.

Definition union_member (S : schema) (u : nat) (code : Z) : option umember :=
  match nth_error (unions S) u with
  | Some ms => assocZ code ms
  | None => None
  end.
