(* The FlatBuffers binary format (doc/binary-format.md) as an executable checking decoder,
   INDEPENDENT of flatcc's verifier: [decode_root] returns the value tree stored in a buffer and
   fails ([None]) whenever a format rule is broken:
     - every uoffset is non-zero (points forward) and its target is inside the buffer (every read is guarded),
     - a table's soffset leads to a vtable inside the buffer, 2-aligned, size >= 4 and even, wholly in range;
       the table [tsize >= 4] is wholly in range; every vtable entry is 0 or in [4, tsize - fieldsize],
     - every scalar / struct / vector element / offset field is aligned for its type relative to the buffer
       start (inside a nested buffer: relative to the start of every enclosing buffer),
     - strings are terminated, vector counts are bounded and all elements lie in the buffer,
     - union type and value are consistent (type 0 <-> no value), union vectors have equal lengths,
     - required fields are present, nesting depth is bounded by the fuel.
   A nested buffer is decoded in a memory restricted to the bytes of its ubyte vector: it is self-contained.
   Scalars and structs are returned as byte lists, so "bit exact" is literal.  No proofs in this file. *)
From Flatcc.Format Require Export Schema.
Local Open Scope Z_scope.

(* ------------------------------------------------------------------ values *)
Inductive value :=
| VBytes (bs : list Z)                          (* scalar, enum, struct: the raw little-endian bytes *)
| VString (s : list Z)
| VVec (elems : list (list Z))                  (* vector of scalars / structs: one byte list per element *)
| VTable (fields : list (Z * value))            (* present fields (id, value) in schema order; a union is listed under its value id *)
| VOffVec (elems : list value)                  (* vector of strings / tables *)
| VUnion (code : Z) (v : value)                 (* code <> 0 *)
| VUnionVec (elems : list (Z * option value))   (* code 0 <-> None *)
| VNested (v : value)                           (* root value of a nested buffer *)
| VUnknown.                                     (* union member whose type code the schema does not list (not followed) *)

(* ------------------------------------------------------------------ memory *)
Definition mem := Z -> option Z.                (* byte at an address; None outside *)

Definition mem_of_list (l : list Z) : mem :=
  fun i => if i <? 0 then None else nth_error l (Z.to_nat i).

Definition restrict (m : mem) (lo hi : Z) : mem :=
  fun a => if (lo <=? a) && (a <? hi) then m a else None.

Definition bind {A B} (o : option A) (f : A -> option B) : option B :=
  match o with Some a => f a | None => None end.
Notation "x <- e ;; k" := (bind e (fun x => k)) (at level 61, e at next level, right associativity).

Definition mrd16 (m : mem) (a : Z) : option Z :=
  b0 <- m a;; b1 <- m (a + 1);; Some (b0 + 256 * b1).
Definition mrd32 (m : mem) (a : Z) : option Z :=
  b0 <- m a;; b1 <- m (a + 1);; b2 <- m (a + 2);; b3 <- m (a + 3);;
  Some (b0 + 256 * b1 + 65536 * b2 + 16777216 * b3).
Fixpoint mrdbytes (m : mem) (a : Z) (n : nat) : option (list Z) :=
  match n with
  | O => Some []
  | S k => b <- m a;; r <- mrdbytes m (a + 1) k;; Some (b :: r)
  end.

(* [off] is an offset from the start [org] of the buffer being decoded; [ds] are the offsets of [org] from the
   starts relative to which alignment is demanded: [0] (the buffer's own start) for a top-level buffer; for the
   content of a nested buffer the starts of all ENCLOSING buffers (that is what a reader working in place needs; that
   the nested buffer is also a buffer in its own right when copied out is a separate statement, C15). *)
Definition aligned (ds : list Z) (off al : Z) : bool :=
  forallb (fun d => (d + off) mod al =? 0) ds.

(* follow the uoffset stored at offset p *)
Definition follow (m : mem) (org p : Z) : option Z :=
  o <- mrd32 m (org + p);; if o =? 0 then None else Some (p + o).

(* ------------------------------------------------------------------ leaves *)
Definition dec_string (m : mem) (org : Z) (ds : list Z) (p : Z) : option value :=
  if aligned ds p 4 then
    n <- mrd32 m (org + p);;
    s <- mrdbytes m (org + p + 4) (Z.to_nat n);;
    z <- m (org + p + 4 + n);;
    if z =? 0 then Some (VString s) else None
  else None.

Fixpoint rd_elems (m : mem) (a : Z) (esize : nat) (count : nat) : option (list (list Z)) :=
  match count with
  | O => Some []
  | S k => e <- mrdbytes m a esize;; r <- rd_elems m (a + Z.of_nat esize) esize k;; Some (e :: r)
  end.

Definition dec_vector (m : mem) (org : Z) (ds : list Z) (esize align maxcount p : Z) : option value :=
  if aligned ds p 4 then
    n <- mrd32 m (org + p);;
    if (n <=? maxcount) && aligned ds (p + 4) align then
      es <- rd_elems m (org + p + 4) (Z.to_nat esize) (Z.to_nat n);; Some (VVec es)
    else None
  else None.

Definition MAX_OFFSET_COUNT : Z := 1073741823.      (* FLATBUFFERS_COUNT_MAX(4) *)
Definition MAX_UTYPE_COUNT : Z := 4294967295.       (* FLATBUFFERS_COUNT_MAX(1) *)

Fixpoint dec_offs (f : Z -> option value) (m : mem) (org p : Z) (count : nat) : option (list value) :=
  match count with
  | O => Some []
  | S k => t <- follow m org p;; v <- f t;; r <- dec_offs f m org (p + 4) k;; Some (v :: r)
  end.

Definition dec_offvec (f : Z -> option value) (m : mem) (org : Z) (ds : list Z) (p : Z) : option value :=
  if aligned ds p 4 then
    n <- mrd32 m (org + p);;
    if n <=? MAX_OFFSET_COUNT then
      es <- dec_offs f m org (p + 4) (Z.to_nat n);; Some (VOffVec es)
    else None
  else None.

(* ------------------------------------------------------------------ tables *)
(* the recursive table decoder is a parameter: memory, origin, enclosing starts, table type, offset *)
Definition tdec := mem -> Z -> list Z -> nat -> Z -> option value.

Section Body.
Variable rec : tdec.
Variable Sc : schema.

Definition dec_struct (m : mem) (org : Z) (ds : list Z) (size al tgt : Z) : option value :=
  if aligned ds tgt al then bs <- mrdbytes m (org + tgt) (Z.to_nat size);; Some (VBytes bs) else None.

Definition dec_member (m : mem) (org : Z) (ds : list Z) (u : nat) (code tgt : Z) : option value :=
  match union_member Sc u code with
  | Some (UTable t) => rec m org ds t tgt
  | Some (UStruct size al) => dec_struct m org ds size al tgt
  | Some UString => dec_string m org ds tgt
  | None => Some VUnknown
  end.

Fixpoint dec_uelems (m : mem) (org : Z) (ds : list Z) (u : nat) (tp vp : Z) (count : nat)
  : option (list (Z * option value)) :=
  match count with
  | O => Some []
  | S k =>
    c <- m (org + tp);; o <- mrd32 m (org + vp);;
    e <- (if c =? 0 then (if o =? 0 then Some None else None)
          else if o =? 0 then None else v <- dec_member m org ds u c (vp + o);; Some (Some v));;
    r <- dec_uelems m org ds u (tp + 1) (vp + 4) k;; Some ((c, e) :: r)
  end.

Definition dec_uvec (m : mem) (org : Z) (ds : list Z) (u : nat) (tp vp : Z) : option value :=
  if aligned ds tp 4 && aligned ds vp 4 then
    nt <- mrd32 m (org + tp);; nv <- mrd32 m (org + vp);;
    if (nt =? nv) && (nv <=? MAX_OFFSET_COUNT) then
      es <- dec_uelems m org ds u (tp + 4) (vp + 4) (Z.to_nat nv);; Some (VUnionVec es)
    else None
  else None.

(* buffer header at offset hp of the buffer starting at org *)
Definition dec_buffer (m : mem) (org : Z) (ds : list Z) (R : root) (hp : Z) : option value :=
  if aligned ds hp 4 then
    tgt <- follow m org hp;;
    match R with
    | RTable t => rec m org ds t tgt
    | RStruct size al => dec_struct m org ds size al tgt
    end
  else None.

(* a nested buffer: a ubyte vector at tgt whose content is a buffer of its own, decoded in a memory restricted to
   the vector: no reference may leave it.  Alignment inside is demanded relative to the enclosing buffers' starts. *)
Definition dec_nested (m : mem) (org : Z) (ds : list Z) (R : root) (al tgt : Z) : option value :=
  if aligned ds tgt 4 then
    n <- mrd32 m (org + tgt);;
    let nb := tgt + 4 in
    _ <- mrdbytes m (org + nb) (Z.to_nat n);;              (* the whole vector lies in the buffer *)
    v <- dec_buffer (restrict m (org + nb) (org + nb + n)) (org + nb) (map (Z.add nb) ds) R 0;;
    Some (VNested v)
  else None.

Section Table.
Variables (m : mem) (org : Z) (ds : list Z) (vt vsize tp tsize : Z).

Definition vt_entry (id : Z) : option Z :=
  if (0 <=? id) && (4 + 2 * id + 2 <=? vsize) then mrd16 m (org + vt + 4 + 2 * id) else Some 0.

(* None: malformed; Some None: absent; Some (Some p): the field lies at offset p *)
Definition field_pos (id fsize falign : Z) : option (option Z) :=
  e <- vt_entry id;;
  if e =? 0 then Some None
  else if (4 <=? e) && (e + fsize <=? tsize) && aligned ds (tp + e) falign then Some (Some (tp + e))
  else None.

Definition with_off (id : Z) (k : Z -> option value) : option (option value) :=
  p <- field_pos id 4 4;;
  match p with
  | None => Some None
  | Some p => t <- follow m org p;; v <- k t;; Some (Some v)
  end.

Definition dec_kind (id : Z) (k : fkind) : option (option value) :=
  match k with
  | FScalar size al =>
    p <- field_pos id size al;;
    match p with
    | None => Some None
    | Some p => bs <- mrdbytes m (org + p) (Z.to_nat size);; Some (Some (VBytes bs))
    end
  | FString => with_off id (dec_string m org ds)
  | FVector esize al maxc => with_off id (dec_vector m org ds esize al maxc)
  | FStringVec => with_off id (dec_offvec (dec_string m org ds) m org ds)
  | FTable t => with_off id (rec m org ds t)
  | FTableVec t => with_off id (dec_offvec (rec m org ds t) m org ds)
  | FUnion u =>
    tyf <- field_pos (id - 1) 1 1;;
    code <- match tyf with None => Some 0 | Some p => m (org + p) end;;
    vf <- field_pos id 4 4;;
    if code =? 0 then match vf with None => Some None | Some _ => None end
    else match vf with
         | None => None
         | Some p => t <- follow m org p;; v <- dec_member m org ds u code t;; Some (Some (VUnion code v))
         end
  | FUnionVec u =>
    tyf <- field_pos (id - 1) 4 4;;
    vf <- field_pos id 4 4;;
    match tyf, vf with
    | None, None => Some None
    | Some pt, Some pv =>
      tt <- follow m org pt;; tv <- follow m org pv;;
      v <- dec_uvec m org ds u tt tv;; Some (Some v)
    | _, _ => None
    end
  | FNestedTable al t => with_off id (dec_nested m org ds (RTable t) al)
  | FNestedStruct size al => with_off id (dec_nested m org ds (RStruct size al) al)
  end.

Definition dec_field (f : field) : option (option value) :=
  r <- dec_kind (fid f) (fk f);;
  match r with
  | None => if frequired f then None else Some None
  | Some v => Some (Some v)
  end.

Fixpoint dec_fields (fl : list field) : option (list (Z * value)) :=
  match fl with
  | [] => Some []
  | f :: r =>
    ov <- dec_field f;; rest <- dec_fields r;;
    Some (match ov with Some v => (fid f, v) :: rest | None => rest end)
  end.
End Table.

Definition dec_table_body (m : mem) (org : Z) (ds : list Z) (t : nat) (tp : Z) : option value :=
  flds <- table_fields Sc t;;
  if aligned ds tp 4 then
    so <- mrd32 m (org + tp);;
    let vt := tp - s32 so in
    if (0 <=? vt) && aligned ds vt 2 then
      vsize <- mrd16 m (org + vt);; tsize <- mrd16 m (org + vt + 2);;
      if (4 <=? vsize) && (vsize mod 2 =? 0) && (4 <=? tsize) then
        _ <- m (org + vt + vsize - 1);; _ <- m (org + tp + tsize - 1);;
        fs <- dec_fields m org ds vt vsize tp tsize flds;;
        Some (VTable fs)
      else None
    else None
  else None.
End Body.

(* nesting depth (tables within tables, nested buffers) is bounded by the fuel *)
Fixpoint dec_table (n : nat) (Sc : schema) : tdec :=
  match n with
  | O => fun _ _ _ _ _ => None
  | S k => dec_table_body (dec_table k Sc) Sc
  end.

(* ------------------------------------------------------------------ whole buffers *)
(* [ds0]: further offsets of the buffer start from origins relative to which alignment is demanded besides the buffer's
   own start: [] for a buffer whose start is as aligned as any element needs; [[A]] asks for every element to be aligned
   when the start is only known to be aligned to A (C02: "relative to a start aligned to the alignment the builder reports"). *)
Definition decode_mem (n : nat) (Sc : schema) (R : root) (with_size : bool) (ds0 : list Z) (m : mem) (len : Z) : option value :=
  if with_size then
    sz <- mrd32 m 0;;
    if 4 + sz <=? len then dec_buffer (dec_table n Sc) (restrict m 0 (4 + sz)) 0 (0 :: ds0) R 4 else None
  else dec_buffer (dec_table n Sc) (restrict m 0 len) 0 (0 :: ds0) R 0.

Definition decode_root (n : nat) (Sc : schema) (R : root) (with_size : bool) (l : list Z) : option value :=
  decode_mem n Sc R with_size [] (mem_of_list l) (Z.of_nat (length l)).

Definition wf (n : nat) (Sc : schema) (R : root) (with_size : bool) (l : list Z) : bool :=
  match decode_root n Sc R with_size l with Some _ => true | None => false end.

(* well formed relative to a start that is aligned to [A] only *)
Definition wf_aligned (n : nat) (Sc : schema) (R : root) (with_size : bool) (A : Z) (l : list Z) : bool :=
  match decode_mem n Sc R with_size [A] (mem_of_list l) (Z.of_nat (length l)) with Some _ => true | None => false end.

(* the bytes of the nested buffer stored in field [id] of the root table (C15): (start offset, length) *)
Definition nested_extent (m : mem) (org tp id : Z) : option (Z * Z) :=
  so <- mrd32 m (org + tp);;
  let vt := tp - s32 so in
  vsize <- mrd16 m (org + vt);;
  e <- vt_entry m org vt vsize id;;
  if e =? 0 then None else
  t <- follow m org (tp + e);;
  n <- mrd32 m (org + t);;
  Some (t + 4, n).
