(* C08: schema numeric literals.
   Transcribes
     include/flatcc/portable/pparseint.h   parse_integer / parse_hex_integer (digit loops, overflow tests)
     src/compiler/parser.c                 read_integer_value / read_hex_value (sign handling), parse_value,
                                           parse_fixed_array_size
     src/compiler/coerce.c                 fb_coerce_scalar_type (every case)
     src/compiler/semantics.c              process_enum (auto-increment, bit_flags, ascending / duplicate checks),
                                           is_valid_align / force_align, analyze_struct size limits
   Definitions without suffix describe the code as it has to be to satisfy the property (= /repo plus the
   patches fixes/C08-*.patch); the `_cur` variants are the faithful transcription of the code at the pinned commit
   where it differs (value->i read of a vt_uint, unchecked negation, `x0 > x` overflow test, fb_long typo in the
   enum increment, struct size test before trailing padding).  No proofs in this file. *)
From Flatcc.Common Require Export Wrap.
Local Open Scope Z_scope.

Definition TWO63 : Z := 9223372036854775808.
Definition TWO64 : Z := 18446744073709551616.
Definition I64_MAX : Z := 9223372036854775807.
Definition I64_MIN : Z := -9223372036854775808.

(* fb_scalar_type_t restricted to the value carrying scalar types *)
Inductive sty := Tbool | Tubyte | Tchar | Tbyte | Tushort | Tshort | Tuint | Tint | Tulong | Tlong | Tfloat | Tdouble.

(* fb_value_t as far as literals are concerned: the tag and the union member that is live.
   [VUint u]: type vt_uint, value.u = u.  [VInt i]: vt_int, value.i = i.  [VBool b]: vt_bool, value.b = b.
   The i/u members alias the same 64-bit word: reading .i of [VUint u] gives [s64 u], reading .u of [VInt i]
   gives [u64 i] (used explicitly where the C code does it). *)
Inductive value :=
| VNone                 (* type 0: no initializer present *)
| VUint (u : Z)
| VInt (i : Z)
| VBool (b : Z)
| VFloatInt (n : Z)     (* vt_float produced by integer -> float coercion; holds exactly the integer n *)
| VFloatLit             (* vt_float from a float token (strtod); the numeric content is not modelled *)
| VInvalid.

Definition as_u (v : value) : Z :=
  match v with VUint u => u | VInt i => u64 i | VBool b => b | _ => 0 end.
Definition as_i (v : value) : Z :=
  match v with VUint u => s64 u | VInt i => i | VBool b => b | _ => 0 end.

(* the number a value stands for *)
Definition denote (v : value) : option Z :=
  match v with VUint u => Some u | VInt i => Some i | VBool b => Some b | VFloatInt n => Some n | _ => None end.

(* ------------------------------------------------------------------ pparseint.h *)

(* mathematical value of a digit string, most significant first *)
Definition dec_value (ds : list Z) : Z := fold_left (fun x d => x * 10 + d) ds 0.
Definition hex_value (ds : list Z) : Z := fold_left (fun x d => x * 16 + d) ds 0.

(* parse_integer digit loop with a sound overflow test:
     if (x > (UINT64_MAX - d) / 10) overflow;  x = x * 10 + d;                                  *)
Fixpoint dec_loop (ds : list Z) (x : Z) : option Z :=
  match ds with
  | [] => Some x
  | d :: r => if x >? (U64_MAX - d) / 10 then None else dec_loop r (x * 10 + d)
  end.

(* parse_integer digit loop at the pinned commit:
     x0 = x; x = x * 10 + d; if (x0 > x) overflow;     (uint64_t arithmetic)                      *)
Fixpoint dec_loop_cur (ds : list Z) (x : Z) : option Z :=
  match ds with
  | [] => Some x
  | d :: r => let x' := u64 (x * 10 + d) in if x >? x' then None else dec_loop_cur r x'
  end.

(* parse_hex_integer: at most 16 hex digits are consumed, a 17th hex digit is overflow, no digit is invalid.
   Within 16 digits x * 16 + d does not leave uint64_t. *)
Definition parse_hex (ds : list Z) : option Z :=
  match ds with
  | [] => None
  | _ => if 16 <? Z.of_nat (length ds) then None else Some (u64 (hex_value ds))
  end.

(* ------------------------------------------------------------------ parser.c read_*_value *)

(* sign handling with the range check:
     if (sign) { if (v->u > (uint64_t)INT64_MAX + 1) invalid; else { v->i = (int64_t)(0 - v->u); v->type = vt_int; } } *)
Definition apply_sign (neg : bool) (pu : option Z) : value :=
  match pu with
  | None => VInvalid
  | Some u => if neg then (if u >? TWO63 then VInvalid else VInt (- u)) else VUint u
  end.

(* at the pinned commit:  v->i = -(int64_t)v->u;  v->type = vt_int;   (FLATCC_FAIL_ON_INT_SIGN_OVERFLOW undefined) *)
Definition apply_sign_cur (neg : bool) (pu : option Z) : value :=
  match pu with
  | None => VInvalid
  | Some u => if neg then VInt (s64 (- s64 u)) else VUint u
  end.

(* a literal token as parse_value sees it: optional '-' and the token class *)
Inductive lit :=
| LDec (neg : bool) (ds : list Z)      (* LEX_TOK_INT, digits 0..9, at least one *)
| LHex (neg : bool) (ds : list Z)      (* LEX_TOK_HEX, the digits after 0x / 0X, values 0..15 *)
| LBool (neg : bool) (b : bool)        (* true / false *)
| LFloat (neg : bool).                 (* LEX_TOK_FLOAT *)

Definition lex (l : lit) : value :=
  match l with
  | LDec neg ds => apply_sign neg (dec_loop ds 0)
  | LHex neg ds => apply_sign neg (parse_hex ds)
  | LBool neg b => if neg then VInvalid else VBool (if b then 1 else 0)
  | LFloat _ => VFloatLit
  end.

Definition lex_cur (l : lit) : value :=
  match l with
  | LDec neg ds => apply_sign_cur neg (dec_loop_cur ds 0)
  | LHex neg ds => apply_sign_cur neg (parse_hex ds)
  | LBool neg b => if neg then VInvalid else VBool (if b then 1 else 0)
  | LFloat _ => VFloatLit
  end.

(* the number the literal text means (none for float tokens and signed booleans) *)
Definition lex_value (l : lit) : option Z :=
  match l with
  | LDec neg ds => Some (if neg then - dec_value ds else dec_value ds)
  | LHex neg ds => Some (if neg then - hex_value ds else hex_value ds)
  | LBool false b => Some (if b then 1 else 0)
  | LBool true _ => None
  | LFloat _ => None
  end.

(* ------------------------------------------------------------------ coerce.c *)

Inductive res := Ok (v : value) | Err.

Definition is_float_ty (st : sty) : bool := match st with Tfloat | Tdouble => true | _ => false end.
Definition is_bool_ty (st : sty) : bool := match st with Tbool => true | _ => false end.
Definition is_signed_ty (st : sty) : bool := match st with Tbyte | Tshort | Tint | Tlong => true | _ => false end.

Definition ty_min (st : sty) : Z :=
  match st with
  | Tbyte => -128 | Tshort => -32768 | Tint => -2147483648 | Tlong => I64_MIN
  | _ => 0
  end.
Definition ty_max (st : sty) : Z :=
  match st with
  | Tbool => 1 | Tubyte => 255 | Tchar => 255 | Tbyte => 127 | Tushort => 65535 | Tshort => 32767
  | Tuint => 4294967295 | Tint => 2147483647 | Tulong => U64_MAX | Tlong => I64_MAX
  | Tfloat => 0 | Tdouble => 0
  end.
(* sizeof_scalar_type *)
Definition ty_size (st : sty) : Z :=
  match st with
  | Tbool | Tubyte | Tchar | Tbyte => 1 | Tushort | Tshort => 2 | Tuint | Tint | Tfloat => 4 | _ => 8
  end.

(* the three steps before the switch: vt_int >= 0 -> vt_uint; bool -> uint when converting to a non-bool type *)
Definition norm (abc : bool) (st : sty) (v : value) : value :=
  let v1 := match v with VInt i => if i >=? 0 then VUint i else v | _ => v end in
  match v1 with
  | VBool b => if negb (is_bool_ty st) && abc then VUint b else v1
  | _ => v1
  end.

Definition coerce_unsigned (max : Z) (v : value) : res :=
  match v with
  | VUint u => if u >? max then Err else Ok v
  | _ => Err
  end.

(* signed 8/16/32 bit targets, with the unsigned source compared as unsigned:  value->u > INTn_MAX *)
Definition coerce_signed (min max : Z) (v : value) : res :=
  match v with
  | VInt i => if i <? min then Err else Ok v
  | VUint u => if u >? max then Err else Ok (VInt u)
  | _ => Err
  end.

(* at the pinned commit:  value->i > INTn_MAX  on a vt_uint, then value->i = (int64_t)value->u *)
Definition coerce_signed_cur (min max : Z) (v : value) : res :=
  match v with
  | VInt i => if i <? min then Err else Ok v
  | VUint u => if s64 u >? max then Err else Ok (VInt (s64 u))
  | _ => Err
  end.

Definition coerce_long (v : value) : res :=
  match v with
  | VInt _ => Ok v
  | VUint u => if u >=? TWO63 then Err else Ok (VInt u)
  | _ => Err
  end.

Definition coerce_bool (abc : bool) (v : value) : res :=
  match v with
  | VUint u => if abc then (if u >? 1 then Err else Ok v) else Err
  | VBool _ => Ok v
  | _ => Err
  end.

(* (T)(FLOAT)n == n : n is exactly representable with a p-bit significand (the exponent range of float and
   double covers every 64-bit integer) *)
Definition exact_in (p : Z) (n : Z) : bool :=
  let m := Z.abs n in
  if m <? 2 ^ p then true else m mod 2 ^ (Z.log2 m + 1 - p) =? 0.

Definition coerce_float (p : Z) (v : value) : res :=
  match v with
  | VInt i => if exact_in p i then Ok (VFloatInt i) else Err
  | VUint u => if exact_in p u then Ok (VFloatInt u) else Err
  | VFloatInt _ | VFloatLit => Ok v
  | _ => Err
  end.

Definition coerce_with (sgn : Z -> Z -> value -> res) (abc : bool) (st : sty) (v0 : value) : res :=
  match v0 with
  | VNone => Ok VNone
  | _ =>
    let v := norm abc st v0 in
    match v with
    | VInvalid => Ok VInvalid
    | _ =>
      match st with
      | Tulong => match v with VUint _ => Ok v | _ => Err end
      | Tuint => coerce_unsigned 4294967295 v
      | Tushort => coerce_unsigned 65535 v
      | Tchar | Tubyte => coerce_unsigned 255 v
      | Tlong => coerce_long v
      | Tint => sgn (-2147483648) 2147483647 v
      | Tshort => sgn (-32768) 32767 v
      | Tbyte => sgn (-128) 127 v
      | Tbool => coerce_bool abc v
      | Tdouble => coerce_float 53 v
      | Tfloat => coerce_float 24 v
      end
    end
  end.

Definition coerce : bool -> sty -> value -> res := coerce_with coerce_signed.
Definition coerce_cur : bool -> sty -> value -> res := coerce_with coerce_signed_cur.

(* a table field default: literal -> parse_value -> fb_coerce_scalar_type *)
Definition field_default (abc : bool) (st : sty) (l : lit) : res :=
  match lex l with VInvalid => Err | v => coerce abc st v end.
Definition field_default_cur (abc : bool) (st : sty) (l : lit) : res :=
  match lex_cur l with VInvalid => Err | v => coerce_cur abc st v end.

(* ------------------------------------------------------------------ semantics.c process_enum *)

Definition sty_eqb (a b : sty) : bool :=
  match a, b with
  | Tbool, Tbool | Tubyte, Tubyte | Tchar, Tchar | Tbyte, Tbyte | Tushort, Tushort | Tshort, Tshort
  | Tuint, Tuint | Tint, Tint | Tulong, Tulong | Tlong, Tlong | Tfloat, Tfloat | Tdouble, Tdouble => true
  | _, _ => false
  end.

Definition value_eqb (a b : value) : bool :=
  match a, b with
  | VUint x, VUint y | VInt x, VInt y | VBool x, VBool y => x =? y
  | _, _ => false
  end.

(* the scalar type whose UINT64_MAX / INT64_MAX increment is tested explicitly in the vt_uint branch:
   fb_ulong as it has to be, fb_long at the pinned commit (dead test, the wrap to 0 passes) *)
Definition auto_increment (wrap_ty : sty) (st : sty) (index : value) : option value :=
  match index with
  | VUint u => if sty_eqb st wrap_ty && (u =? U64_MAX) then None else Some (VUint (u64 (u + 1)))
  | VInt i => if sty_eqb st Tlong && (i =? I64_MAX) then None else Some (VInt (i + 1))
  | VBool b => if b =? 1 then None else Some (VBool 1)
  | _ => Some index
  end.

Definition ascending_ok (index old : value) : bool :=
  match index with
  | VUint u => negb (u <=? as_u old)
  | VInt i => negb (i <=? as_i old)
  | VBool b => negb (b <=? as_u old mod 256)
  | _ => true
  end.

(* one member.  [mv] = VNone when the member has no explicit value.  Returns (member value, new index).
   cf : the coercion function in force (coerce or coerce_cur) *)
Definition enum_step (cf : sty -> value -> res) (wrap_ty : sty) (asc uniq : bool) (st : sty) (bf : bool)
                     (first : bool) (index : value) (seen : list value) (mv : value) : option (value * value) :=
  let old := index in
  let oidx := match mv with
              | VNone => if first then Some index else auto_increment wrap_ty st index
              | _ => Some index
              end in
  match oidx with
  | None => None
  | Some index1 =>
    let r :=
      if bf then
        let oidx2 := match mv with
                     | VNone => Some index1
                     | VUint _ => Some mv
                     | _ => None
                     end in
        match oidx2 with
        | None => None
        | Some index2 =>
          if as_u index2 >=? ty_size st * 8 then None
          else match cf st (VUint (u64 (2 ^ as_u index2))) with
               | Err => None
               | Ok val => Some (val, index2)
               end
        end
      else
        let index2 := match mv with VNone => index1 | _ => mv end in
        match cf st index2 with
        | Err => None
        | Ok idx => Some (idx, idx)
        end in
    match r with
    | None => None
    | Some (val, idx) =>
      if negb first && asc && negb (ascending_ok idx old) then None
      else if uniq && existsb (value_eqb val) seen then None
      else Some (val, idx)
    end
  end.

Fixpoint enum_loop (cf : sty -> value -> res) (wrap_ty : sty) (asc uniq : bool) (st : sty) (bf : bool)
                   (ms : list value) (first : bool) (index : value) (seen : list value) : option (list value) :=
  match ms with
  | [] => Some []
  | mv :: r =>
    match enum_step cf wrap_ty asc uniq st bf first index seen mv with
    | None => None
    | Some (val, idx) =>
      match enum_loop cf wrap_ty asc uniq st bf r false idx (val :: seen) with
      | None => None
      | Some vs => Some (val :: vs)
      end
    end
  end.

(* index starts as vt_int 0 coerced to the enum type (vt_bool 0 for bool enums) *)
Definition enum_init (cf : sty -> value -> res) (st : sty) : option value :=
  if is_bool_ty st then Some (VBool 0)
  else match cf st (VInt 0) with Ok v => Some v | Err => None end.

Definition process_enum_with (cf : bool -> sty -> value -> res) (wrap_ty : sty)
                             (abc asc uniq : bool) (st : sty) (bf : bool) (ms : list value) : option (list value) :=
  if is_float_ty st then None
  else match enum_init (cf abc) st with
       | None => None
       | Some i0 => enum_loop (cf abc) wrap_ty asc uniq st bf ms true i0 []
       end.

Definition process_enum := process_enum_with coerce Tulong.
Definition process_enum_cur := process_enum_with coerce_cur Tlong.

(* ------------------------------------------------------------------ fixed array length, force_align, struct size *)

(* parser.c parse_fixed_array_size *)
Definition array_len (v : value) : option Z :=
  match v with
  | VUint u => if u =? 0 then None else if u >? U32_MAX then None else Some u
  | _ => None
  end.

(* semantics.c is_valid_align: loop n = 1; while (n <= align) { if (n == align) return 1; n *= 2; } *)
Fixpoint pow2_search (fuel : nat) (n align : Z) : bool :=
  match fuel with
  | O => false
  | S f => if n <=? align then (if n =? align then true else pow2_search f (n * 2) align) else false
  end.
Definition is_valid_align (amax : Z) (align : Z) : bool :=
  if (align =? 0) || (align >? amax) then false else pow2_search 64 1 align.

(* process_metadata: a known attribute of type vt_uint needs a vt_uint value *)
Definition force_align_value (amax : Z) (v : value) : option Z :=
  match v with
  | VUint u => if is_valid_align amax u then Some u else None
  | _ => None
  end.

Definition align_up (size align : Z) : Z := ((size + align - 1) / align) * align.

(* analyze_struct over members (element size = alignment, array length); [pad_checked] = the maximum is also
   enforced after the trailing padding (as it has to be); false = pinned commit.
   fa = the force_align value or 0. Result: (size, align). *)
Fixpoint struct_members (smax : Z) (ms : list (Z * Z)) (size align : Z) : option (Z * Z) :=
  match ms with
  | [] => Some (size, align)
  | (esz, len) :: r =>
    let msize := u64 (esz * len) in
    let off := align_up size esz in
    if (off <? size) || (u64 (off + msize) <? off) then None
    else let size' := u64 (off + msize) in
      if (size' <? size) || (size' >? smax) then None
      else struct_members smax r size' (Z.max align esz)
  end.

Definition struct_layout (pad_checked : bool) (smax : Z) (fa : Z) (ms : list (Z * Z)) : option (Z * Z) :=
  match struct_members smax ms 0 1 with
  | None => None
  | Some (size, align) =>
    if (0 <? fa) && (fa <? align) then None
    else let al := if 0 <? fa then fa else align in
      let sz := align_up size al in
      if sz =? 0 then None
      else if pad_checked && (sz >? smax) then None
      else Some (sz, al)
  end.
