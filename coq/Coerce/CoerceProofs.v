(* C08 lemmas: lexing is exact, coercion accepts iff representable and keeps the value. *)
From Flatcc.Coerce Require Import CoerceModel.
From Coq Require Import ZifyBool.
Local Open Scope Z_scope.
Ltac Zify.zify_post_hook ::= Z.div_mod_to_equations.

(* ------------------------------------------------------------------ well-formedness *)

Definition digits_ok (b : Z) (ds : list Z) : Prop := Forall (fun d => 0 <= d < b) ds.

Definition lit_ok (l : lit) : Prop :=
  match l with
  | LDec _ ds => digits_ok 10 ds
  | LHex _ ds => digits_ok 16 ds
  | _ => True
  end.

(* the payload is a value of the C type of the union member *)
Definition wf (v : value) : Prop :=
  match v with
  | VUint u => 0 <= u <= U64_MAX
  | VInt i => I64_MIN <= i <= I64_MAX
  | VBool b => b = 0 \/ b = 1
  | _ => True
  end.

Definition int_valued (v : value) : Prop :=
  match v with VUint _ | VInt _ | VBool _ => True | _ => False end.

(* ------------------------------------------------------------------ digit loops *)

Definition facc (b : Z) := fun x d : Z => x * b + d.

Lemma fold_ge b ds : 1 <= b -> digits_ok b ds -> forall x, 0 <= x -> x <= fold_left (facc b) ds x.
Proof.
  intros Hb H; induction H as [|d r Hd _ IH]; intros x Hx; cbn [fold_left].
  - lia.
  - unfold facc at 2. specialize (IH (x * b + d)). assert (0 <= x * b + d) by nia.
    specialize (IH H). nia.
Qed.

Lemma dec_loop_spec ds : digits_ok 10 ds -> forall x, 0 <= x <= U64_MAX ->
  match dec_loop ds x with
  | Some y => y = fold_left (facc 10) ds x /\ 0 <= y <= U64_MAX
  | None => U64_MAX < fold_left (facc 10) ds x
  end.
Proof.
  unfold U64_MAX.
  intros H; induction H as [|d r Hd Hr IH]; intros x Hx; cbn [dec_loop fold_left].
  - lia.
  - unfold facc at 2 4. unfold U64_MAX in *. destruct (x >? (18446744073709551615 - d) / 10) eqn:E.
    + assert (18446744073709551615 < x * 10 + d) by lia.
      pose proof (fold_ge 10 r ltac:(lia) Hr (x * 10 + d) ltac:(lia)). unfold facc in *. lia.
    + apply IH. lia.
Qed.

Lemma dec_value_nonneg ds : digits_ok 10 ds -> 0 <= dec_value ds.
Proof. intros H. unfold dec_value. apply (fold_ge 10 ds ltac:(lia) H 0). lia. Qed.

Lemma hex_value_nonneg ds : digits_ok 16 ds -> 0 <= hex_value ds.
Proof. intros H. unfold hex_value. apply (fold_ge 16 ds ltac:(lia) H 0). lia. Qed.

(* the sound loop: accepted iff the number fits uint64_t, and then it is the number *)
Lemma dec_loop_exact ds : digits_ok 10 ds ->
  (forall y, dec_loop ds 0 = Some y -> y = dec_value ds /\ 0 <= y <= U64_MAX) /\
  (dec_loop ds 0 = None <-> U64_MAX < dec_value ds).
Proof.
  intros H. pose proof (dec_loop_spec ds H 0 ltac:(unfold U64_MAX; lia)) as S.
  unfold dec_value, facc in *. destruct (dec_loop ds 0) as [y|].
  - split. + intros y' [= <-]. exact S. + split; [discriminate|]. lia.
  - split. + discriminate. + tauto.
Qed.

Lemma hex_bound ds : digits_ok 16 ds -> forall x, 0 <= x ->
  fold_left (facc 16) ds x < (x + 1) * 16 ^ Z.of_nat (length ds).
Proof.
  intros H; induction H as [|d r Hd Hr IH]; intros x Hx; cbn [fold_left length].
  - cbn. lia.
  - rewrite Nat2Z.inj_succ, Z.pow_succ_r by lia. unfold facc at 2.
    specialize (IH (x * 16 + d) ltac:(lia)).
    assert (0 < 16 ^ Z.of_nat (length r)) by (apply Z.pow_pos_nonneg; lia). nia.
Qed.

(* stronger statement for the lower bound: start value scales *)
Lemma hex_lower d r : digits_ok 16 r -> 0 <= d ->
  d * 16 ^ Z.of_nat (length r) <= fold_left (facc 16) r d.
Proof.
  intros H; revert d; induction H as [|e r He Hr IH]; intros d Hd; cbn [fold_left length].
  - cbn. lia.
  - rewrite Nat2Z.inj_succ, Z.pow_succ_r by lia. unfold facc at 2.
    specialize (IH (d * 16 + e) ltac:(lia)).
    assert (0 < 16 ^ Z.of_nat (length r)) by (apply Z.pow_pos_nonneg; lia). nia.
Qed.

Lemma pow16_16 : 16 ^ 16 = 18446744073709551616. Proof. reflexivity. Qed.

Lemma hex_value_lt ds : digits_ok 16 ds -> (length ds <= 16)%nat -> 0 <= hex_value ds <= U64_MAX.
Proof.
  intros H L. pose proof (hex_bound ds H 0 ltac:(lia)) as B. pose proof (hex_value_nonneg ds H).
  unfold hex_value, facc in *.
  assert (16 ^ Z.of_nat (length ds) <= 16 ^ 16) by (apply Z.pow_le_mono_r; lia).
  rewrite pow16_16 in *. unfold U64_MAX. lia.
Qed.

(* 16-digit limit of parse_hex_integer = the uint64_t range when there is no leading zero digit *)
Lemma hex_normalized_limit d r : digits_ok 16 (d :: r) -> d <> 0 ->
  ((length (d :: r) <= 16)%nat <-> hex_value (d :: r) <= U64_MAX).
Proof.
  intros H Hd. split.
  - intros L. apply hex_value_lt; assumption.
  - intros V. inversion H as [|? ? Hd0 Hr]; subst.
    unfold hex_value in V. cbn [fold_left] in V. replace (0 * 16 + d) with d in V by lia.
    pose proof (hex_lower d r Hr ltac:(lia)) as Lw. unfold facc in *.
    destruct (Nat.le_gt_cases (length (d :: r)) 16) as [|G]; [assumption|exfalso].
    cbn [length] in G.
    assert (16 ^ 16 <= 16 ^ Z.of_nat (length r)) by (apply Z.pow_le_mono_r; lia).
    rewrite pow16_16 in *. unfold U64_MAX in *. nia.
Qed.

Lemma parse_hex_exact ds : digits_ok 16 ds ->
  (forall y, parse_hex ds = Some y -> y = hex_value ds /\ 0 <= y <= U64_MAX) /\
  (parse_hex ds <> None <-> ds <> [] /\ (length ds <= 16)%nat).
Proof.
  intros H. unfold parse_hex. destruct ds as [|d r].
  - split; [discriminate|]. split; [congruence|]. intros [? _]; congruence.
  - destruct (16 <? Z.of_nat (length (d :: r))) eqn:E.
    + split; [discriminate|]. split; [congruence|]. intros [_ L]. lia.
    + assert (L : (length (d :: r) <= 16)%nat) by lia.
      pose proof (hex_value_lt _ H L) as B. split.
      * intros y [= <-]. unfold u64. rewrite Z.mod_small by (unfold U64_MAX in B; lia). auto.
      * split; [intros _; split; [discriminate|exact L] | discriminate].
Qed.

(* ------------------------------------------------------------------ lex is exact *)

(* representability in the 64-bit carrier, as the property states it: unsigned literals up to 2^64-1, negated
   literals down to -2^63; hex tokens have at most 16 digits (pparseint.h documents the limit) *)
Definition carrier_ok (l : lit) (n : Z) : Prop :=
  match l with
  | LDec false _ => n <= U64_MAX
  | LDec true _ => I64_MIN <= n
  | LHex false ds => ds <> [] /\ (length ds <= 16)%nat
  | LHex true ds => (ds <> [] /\ (length ds <= 16)%nat) /\ I64_MIN <= n
  | LBool neg _ => neg = false
  | LFloat _ => True
  end.

Lemma apply_sign_spec (neg : bool) (pu : option Z) (u : Z) : pu = Some u -> 0 <= u <= U64_MAX ->
  let n := if neg then - u else u in
  (apply_sign neg pu <> VInvalid <-> (neg = true -> I64_MIN <= n)) /\
  (apply_sign neg pu <> VInvalid -> denote (apply_sign neg pu) = Some n /\ wf (apply_sign neg pu)).
Proof.
  intros -> B. unfold apply_sign, TWO63, I64_MIN, I64_MAX, U64_MAX in *. destruct neg; cbn zeta.
  - destruct (u >? 9223372036854775808) eqn:E.
    + split; [split; [congruence|intros X; specialize (X eq_refl); lia] | congruence].
    + split; [split; [intros _ _; lia|discriminate] |]. intros _. cbn [denote wf]. unfold I64_MIN, I64_MAX. split; [reflexivity|lia].
  - split; [split; [discriminate|discriminate] |]. intros _. cbn [denote wf]. unfold U64_MAX. split; [reflexivity|lia].
Qed.

Lemma lex_exact l n : lit_ok l -> lex_value l = Some n ->
  (lex l <> VInvalid <-> carrier_ok l n) /\
  (lex l <> VInvalid -> denote (lex l) = Some n /\ wf (lex l)).
Proof.
  destruct l as [neg ds|neg ds|neg b|neg]; cbn [lit_ok lex lex_value carrier_ok]; intros H V.
  - apply Some_inj in V. destruct (dec_loop_exact ds H) as [S N].
    destruct (dec_loop ds 0) as [y|] eqn:E.
    + destruct (S y eq_refl) as [-> B]. pose proof (apply_sign_spec neg (Some (dec_value ds)) _ eq_refl B) as [A1 A2].
      cbn zeta in *. subst n. split; [|exact A2]. rewrite A1. destruct neg; [tauto|]. split; [intros _; lia|discriminate].
    + assert (U64_MAX < dec_value ds) by (apply N; reflexivity). cbn [apply_sign]. subst n.
      split; [|congruence]. split; [congruence|]. unfold U64_MAX, I64_MIN in *. destruct neg; lia.
  - apply Some_inj in V. destruct (parse_hex_exact ds H) as [S N].
    destruct (parse_hex ds) as [y|] eqn:E.
    + destruct (S y eq_refl) as [-> B]. pose proof (apply_sign_spec neg (Some (hex_value ds)) _ eq_refl B) as [A1 A2].
      cbn zeta in *. subst n. assert (NN : ds <> [] /\ (length ds <= 16)%nat) by (apply N; discriminate).
      split; [|exact A2]. rewrite A1. destruct neg; [tauto|]. split; [intros _; exact NN|discriminate].
    + cbn [apply_sign]. split; [|congruence]. split; [congruence|].
      intros C. exfalso. assert (X : ds <> [] /\ (length ds <= 16)%nat) by (destruct neg; tauto).
      apply N in X. congruence.
  - destruct neg; [discriminate|]. apply Some_inj in V. subst n.
    split; [split; [reflexivity|discriminate]|]. intros _. destruct b; cbn; auto.
  - discriminate.
Qed.

(* ------------------------------------------------------------------ coerce: integer targets *)

Definition int_ty (st : sty) : bool := negb (is_float_ty st) && negb (is_bool_ty st).
Definition canon (st : sty) (n : Z) : value := if is_signed_ty st then VInt n else VUint n.

Ltac break_ifs :=
  repeat match goal with
         | |- context [if ?c then _ else _] => destruct c eqn:?
         end.

(* characterisation: on an integer target, an integer valued source is accepted iff MIN <= n <= MAX and the
   result is the canonical representation of the same number *)
Lemma coerce_int_char st v n : int_ty st = true -> wf v -> int_valued v -> denote v = Some n ->
  coerce true st v = if (ty_min st <=? n) && (n <=? ty_max st) then Ok (canon st n) else Err.
Proof.
  intros T W I D.
  destruct v as [|u|i|b| | |]; try contradiction; cbn [denote] in D; apply Some_inj in D; subst n;
    cbn [wf] in W; unfold I64_MIN, I64_MAX, U64_MAX in W;
    destruct st; try discriminate T;
    unfold coerce, coerce_with, norm, coerce_unsigned, coerce_signed, coerce_long, canon, ty_min, ty_max,
      TWO63, I64_MIN, I64_MAX, U64_MAX;
    cbn [is_bool_ty is_signed_ty negb andb];
    break_ifs; try reflexivity; try (exfalso; lia); try (f_equal; f_equal; lia).
Qed.

(* bool target (allow_boolean_conversion on): accepted iff the number is 0 or 1; the stored value keeps it *)
Lemma coerce_bool_char v n : wf v -> int_valued v -> denote v = Some n ->
  (exists v', coerce true Tbool v = Ok v') <-> 0 <= n <= 1.
Proof.
  intros W I D. destruct v as [|u|i|b| | |]; try contradiction; cbn [denote] in D; apply Some_inj in D; subst n;
    cbn [wf] in W; unfold I64_MIN, I64_MAX, U64_MAX in W;
    unfold coerce, coerce_with, norm, coerce_bool; cbn [is_bool_ty negb andb]; break_ifs;
    (split; [intros [v' E]; try discriminate E; lia | intros R; try (exfalso; lia); eexists; reflexivity]).
Qed.

Lemma coerce_bool_value v n v' : wf v -> int_valued v -> denote v = Some n ->
  coerce true Tbool v = Ok v' -> denote v' = Some n /\ wf v' /\ int_valued v'.
Proof.
  intros W I D. destruct v as [|u|i|b| | |]; try contradiction; cbn [denote] in D; apply Some_inj in D; subst n;
    cbn [wf] in W; unfold I64_MIN, I64_MAX, U64_MAX in W;
    unfold coerce, coerce_with, norm, coerce_bool; cbn [is_bool_ty negb andb]; break_ifs;
    intros E; try discriminate E; injection E as <-; cbn [denote wf int_valued]; unfold U64_MAX; repeat split; auto; lia.
Qed.

Definition nonfloat (st : sty) : Prop := is_float_ty st = false.

Lemma nonfloat_cases st : nonfloat st -> int_ty st = true \/ st = Tbool.
Proof. destruct st; cbn; auto; discriminate. Qed.

(* coerce_iff_representable *)
Lemma coerce_iff_representable st v n : nonfloat st -> wf v -> int_valued v -> denote v = Some n ->
  ((exists v', coerce true st v = Ok v') <-> ty_min st <= n <= ty_max st).
Proof.
  intros F W I D. destruct (nonfloat_cases st F) as [T| ->].
  - rewrite (coerce_int_char st v n T W I D).
    destruct ((ty_min st <=? n) && (n <=? ty_max st)) eqn:E.
    + split; [lia | intros _; eexists; reflexivity].
    + split; [intros [v' X]; discriminate X | lia].
  - apply coerce_bool_char; assumption.
Qed.

(* coerce_value: no wrap, no sign change, no truncation; signed targets hold vt_int, unsigned vt_uint *)
Lemma coerce_value st v n v' : nonfloat st -> wf v -> int_valued v -> denote v = Some n ->
  coerce true st v = Ok v' ->
  denote v' = Some n /\ wf v' /\ int_valued v' /\ (int_ty st = true -> v' = canon st n).
Proof.
  intros F W I D E. destruct (nonfloat_cases st F) as [T| ->].
  - rewrite (coerce_int_char st v n T W I D) in E.
    destruct ((ty_min st <=? n) && (n <=? ty_max st)) eqn:R; [|discriminate E]. injection E as <-.
    assert (B : ty_min st <= n <= ty_max st) by lia. clear R.
    unfold canon. destruct st; try discriminate T; cbn [is_signed_ty denote wf int_valued];
      unfold ty_min, ty_max, I64_MIN, I64_MAX, U64_MAX in *; repeat split; auto; lia.
  - destruct (coerce_bool_value v n v' W I D E) as (A & B & C). repeat split; auto. discriminate.
Qed.

(* allow_boolean_conversion off: booleans only for bool, integers only for integer types *)
Lemma coerce_strict_bool st v n : nonfloat st -> wf v -> int_valued v -> denote v = Some n ->
  ((exists v', coerce false st v = Ok v') <->
   match v with VBool _ => st = Tbool | _ => st <> Tbool /\ ty_min st <= n <= ty_max st end).
Proof.
  intros F W I D.
  destruct v as [|u|i|b| | |]; try contradiction; cbn [denote] in D; apply Some_inj in D; subst n;
    cbn [wf] in W; unfold I64_MIN, I64_MAX, U64_MAX in W;
    destruct st; try discriminate F;
    unfold coerce, coerce_with, norm, coerce_unsigned, coerce_signed, coerce_long, coerce_bool, ty_min, ty_max,
      TWO63, I64_MIN, I64_MAX, U64_MAX;
    cbn [is_bool_ty is_signed_ty negb andb]; break_ifs;
    (split; [intros [v' E]; try discriminate E; try reflexivity; try (split; [discriminate|lia])
            | intros R; try discriminate R; try (exfalso; destruct R as [R1 R2]; try lia; apply R1; reflexivity);
              try (eexists; reflexivity)]).
Qed.

(* invalid and absent values pass through silently, float tokens are never integers *)
Lemma coerce_float_literal_rejected abc st : nonfloat st -> coerce abc st VFloatLit = Err.
Proof. destruct st, abc; cbn; intros; try reflexivity; discriminate. Qed.

(* ------------------------------------------------------------------ integer -> float / double *)

Definition float_representable (p n : Z) : Prop := exists m e, 0 <= e /\ Z.abs m < 2 ^ p /\ n = m * 2 ^ e.

Lemma exact_in_spec p n : 0 < p -> (exact_in p n = true <-> float_representable p n).
Proof.
  intros Hp. unfold exact_in, float_representable. cbn zeta.
  destruct (Z.abs n <? 2 ^ p) eqn:E.
  - split; [|reflexivity]. intros _. exists n, 0. rewrite Z.pow_0_r. split; [lia|split; lia].
  - assert (P : 2 ^ p <= Z.abs n) by lia.
    assert (Pp : 0 < 2 ^ p) by (apply Z.pow_pos_nonneg; lia).
    assert (An : 0 < Z.abs n) by lia.
    assert (L : p <= Z.log2 (Z.abs n)) by (apply Z.log2_le_pow2; lia).
    set (k := Z.log2 (Z.abs n) + 1 - p) in *. assert (Hk : 0 < k) by lia.
    assert (K : 0 < 2 ^ k) by (apply Z.pow_pos_nonneg; lia).
    split.
    + intros M. apply Z.eqb_eq in M. apply Z.mod_divide in M; [|lia]. destruct M as [q Hq].
      exists (Z.sgn n * q), k. split; [lia|]. split.
      * (* q < 2^p since |n| < 2^(log2+1) = 2^k * 2^p *)
        destruct (Z.log2_spec (Z.abs n) An) as [_ U].
        replace (Z.succ (Z.log2 (Z.abs n))) with (k + p) in U by lia.
        rewrite Z.pow_add_r in U by lia.
        assert (0 <= q) by nia. assert (q < 2 ^ p) by nia.
        rewrite Z.abs_mul. rewrite (Z.abs_eq q) by lia.
        assert (Z.abs (Z.sgn n) = 1) by lia. nia.
      * rewrite <- Z.mul_assoc, <- Hq. lia.
    + intros (m & e & He & Hm & Hn). apply Z.eqb_eq.
      assert (Am : 0 < Z.abs m) by (destruct (Z.eq_dec m 0); [subst; lia|lia]).
      assert (Ab : Z.abs n = Z.abs m * 2 ^ e).
      { subst n. rewrite Z.abs_mul. f_equal. apply Z.abs_eq. apply Z.pow_nonneg; lia. }
      assert (Lm : Z.log2 (Z.abs m) < p) by (apply Z.log2_lt_pow2; lia).
      assert (Ln : Z.log2 (Z.abs n) = e + Z.log2 (Z.abs m)).
      { rewrite Ab. apply Z.log2_mul_pow2; lia. }
      assert (Ke : k <= e) by lia.
      apply Z.mod_divide; [lia|]. rewrite Ab. exists (Z.abs m * 2 ^ (e - k)).
      rewrite <- Z.mul_assoc, <- Z.pow_add_r by lia. f_equal. f_equal. lia.
Qed.

Definition float_bits (st : sty) : Z := match st with Tfloat => 24 | _ => 53 end.

Lemma coerce_float_iff abc st v n : is_float_ty st = true -> wf v -> denote v = Some n ->
  match v with VUint _ | VInt _ => True | _ => False end ->
  (coerce abc st v = Ok (VFloatInt n) <-> float_representable (float_bits st) n) /\
  (coerce abc st v = Ok (VFloatInt n) \/ coerce abc st v = Err).
Proof.
  intros F W D I.
  assert (X : coerce abc st v = if exact_in (float_bits st) n then Ok (VFloatInt n) else Err).
  { destruct v as [|u|i|b| | |]; try contradiction; cbn [denote] in D; apply Some_inj in D; subst n;
      destruct st; try discriminate F; unfold coerce, coerce_with, norm, coerce_float, float_bits;
      cbn [is_bool_ty negb andb]; break_ifs; try reflexivity;
      try (assert (i = 0) by lia; subst; discriminate);
      match goal with H : exact_in _ _ = _, H' : exact_in _ _ = _ |- _ => rewrite H in H'; discriminate H' end. }
  rewrite X. rewrite <- (exact_in_spec (float_bits st) n) by (destruct st; cbn; lia).
  destruct (exact_in (float_bits st) n); split; auto; split; congruence.
Qed.

(* ------------------------------------------------------------------ the pinned commit is refuted *)

Definition digits_of_18446744073709551615 : list Z := [1;8;4;4;6;7;4;4;0;7;3;7;0;9;5;5;1;6;1;5].
Definition digits_of_9223372036854775809 : list Z := [9;2;2;3;3;7;2;0;3;6;8;5;4;7;7;5;8;0;9].
Definition digits_of_30000000000000000000 : list Z := [3;0;0;0;0;0;0;0;0;0;0;0;0;0;0;0;0;0;0;0].

(* (a) `a:int = 18446744073709551615` accepted as -1 *)
Lemma uint_to_signed_refuted :
  exists st l n v', lit_ok l /\ lex_value l = Some n /\ ~ (ty_min st <= n <= ty_max st) /\
    field_default_cur true st l = Ok v' /\ denote v' = Some (-1) /\ n = 18446744073709551615.
Proof.
  exists Tint, (LDec false digits_of_18446744073709551615), 18446744073709551615, (VInt (-1)).
  split; [repeat constructor; lia|]. split; [reflexivity|]. split; [cbn; lia|].
  split; [vm_compute; reflexivity|]. split; reflexivity.
Qed.

(* (b) `a:long = -9223372036854775809` accepted as +9223372036854775807, `a:byte = -18446744073709551615` gives 1 *)
Lemma sign_wrap_refuted :
  (exists l n v', lit_ok l /\ lex_value l = Some n /\ n = -9223372036854775809 /\
     field_default_cur true Tlong l = Ok v' /\ denote v' = Some 9223372036854775807) /\
  (exists l n v', lit_ok l /\ lex_value l = Some n /\ n = -18446744073709551615 /\
     field_default_cur true Tbyte l = Ok v' /\ denote v' = Some 1).
Proof.
  split.
  - exists (LDec true digits_of_9223372036854775809), (-9223372036854775809), (VInt 9223372036854775807).
    split; [repeat constructor; lia|]. split; [reflexivity|]. split; [reflexivity|]. split; [vm_compute; reflexivity|reflexivity].
  - exists (LDec true digits_of_18446744073709551615), (-18446744073709551615), (VInt 1).
    split; [repeat constructor; lia|]. split; [reflexivity|]. split; [reflexivity|]. split; [vm_compute; reflexivity|reflexivity].
Qed.

(* (c) `a:ulong = 30000000000000000000` accepted as 11553255926290448384 *)
Lemma decimal_wrap_refuted :
  exists l n v', lit_ok l /\ lex_value l = Some n /\ n = 30000000000000000000 /\ ~ (n <= U64_MAX) /\
    field_default_cur true Tulong l = Ok v' /\ denote v' = Some 11553255926290448384.
Proof.
  exists (LDec false digits_of_30000000000000000000), 30000000000000000000, (VUint 11553255926290448384).
  split; [repeat constructor; lia|]. split; [reflexivity|]. split; [reflexivity|]. split; [unfold U64_MAX; lia|].
  split; [vm_compute; reflexivity|reflexivity].
Qed.

(* the same literals are rejected by the corrected definitions *)
Lemma fixed_rejects_the_three :
  field_default true Tint (LDec false digits_of_18446744073709551615) = Err /\
  field_default true Tlong (LDec true digits_of_9223372036854775809) = Err /\
  field_default true Tbyte (LDec true digits_of_18446744073709551615) = Err /\
  field_default true Tulong (LDec false digits_of_30000000000000000000) = Err.
Proof. repeat split; vm_compute; reflexivity. Qed.

(* a field default end to end: literal text -> accepted iff representable in the field type, value kept *)
Lemma field_default_exact st l n : nonfloat st -> lit_ok l -> lex_value l = Some n ->
  match l with LHex _ ds => ds <> [] /\ (length ds <= 16)%nat | _ => True end ->
  ((exists v', field_default true st l = Ok v') <-> ty_min st <= n <= ty_max st) /\
  (forall v', field_default true st l = Ok v' -> denote v' = Some n).
Proof.
  intros F K V Hx. destruct (lex_exact l n K V) as [A B]. unfold field_default.
  assert (IV : lex l <> VInvalid -> int_valued (lex l)).
  { destruct l as [neg ds|neg ds|neg b|neg]; cbn [lex]; try discriminate V.
    - unfold apply_sign. destruct (dec_loop ds 0); [|congruence]. destruct neg; [|cbn; auto]. destruct (_ >? _); cbn; auto.
    - unfold apply_sign. destruct (parse_hex ds); [|congruence]. destruct neg; [|cbn; auto]. destruct (_ >? _); cbn; auto.
    - destruct neg; cbn; auto. }
  destruct (lex l) eqn:E; try (assert (XX : lex l <> VInvalid) by congruence; rewrite E in *;
      destruct (B ltac:(congruence)) as [D W]; specialize (IV ltac:(congruence));
      split; [apply coerce_iff_representable; assumption
             | intros v' Q; apply (coerce_value st _ n v' F W IV D Q)]); try contradiction.
  (* lex l = VInvalid: the literal is outside the 64-bit carrier, hence outside every type *)
  split; [|discriminate]. split; [intros [v' Q]; discriminate Q|]. intros R. exfalso.
  assert (C : ~ carrier_ok l n) by (intros C; apply A in C; congruence). apply C. clear A B C IV E.
  destruct l as [neg ds|neg ds|neg b|neg]; cbn [carrier_ok]; try discriminate V.
  - destruct neg; destruct st; try discriminate F; unfold ty_min, ty_max, I64_MIN, I64_MAX, U64_MAX in *; lia.
  - destruct neg; [split; [exact Hx|]|exact Hx]. destruct st; try discriminate F; unfold ty_min, ty_max, I64_MIN, I64_MAX, U64_MAX in *; lia.
  - destruct neg; [discriminate V|reflexivity].
Qed.
