(* C08 lemmas: process_enum refines a specification over mathematical integers (no machine words);
   fixed array length, force_align, struct size limit. *)
From Flatcc.Coerce Require Import CoerceModel CoerceProofs.
From Coq Require Import ZifyBool.
Local Open Scope Z_scope.
Ltac Zify.zify_post_hook ::= Z.div_mod_to_equations.

(* ------------------------------------------------------------------ specification of enum numbering *)

(* the declared member value: None = no explicit value *)
Definition mdenote (v : value) : option Z := match v with VNone => None | _ => denote v end.

(* member values of a plain enum over the integers: explicit value or predecessor + 1 (0 for the first);
   accepted iff every value lies in [lo, hi] (and strictly ascends when [asc]) *)
Fixpoint enum_spec (asc : bool) (lo hi : Z) (prev : Z) (first : bool) (ms : list (option Z)) : option (list Z) :=
  match ms with
  | [] => Some []
  | m :: r =>
    let n := match m with Some e => e | None => if first then prev else prev + 1 end in
    if (lo <=? n) && (n <=? hi) && (first || negb asc || (prev <? n)) then
      match enum_spec asc lo hi n false r with
      | Some l => Some (n :: l)
      | None => None
      end
    else None
  end.

(* bit_flags: the numbering runs over bit positions, accepted iff 0 <= pos < bits and 2^pos <= hi;
   the member value is 2^pos *)
Fixpoint bf_spec (asc : bool) (bits hi : Z) (prev : Z) (first : bool) (ms : list (option Z)) : option (list Z) :=
  match ms with
  | [] => Some []
  | m :: r =>
    let n := match m with Some e => e | None => if first then prev else prev + 1 end in
    if (0 <=? n) && (n <? bits) && (2 ^ n <=? hi) && (first || negb asc || (prev <? n)) then
      match bf_spec asc bits hi n false r with
      | Some l => Some (2 ^ n :: l)
      | None => None
      end
    else None
  end.

Definition member_ok (v : value) : Prop := v = VNone \/ (wf v /\ int_valued v).

Lemma canon_wf st n : int_ty st = true -> ty_min st <= n <= ty_max st ->
  wf (canon st n) /\ int_valued (canon st n) /\ denote (canon st n) = Some n.
Proof.
  intros T B. unfold canon. destruct st; try discriminate T; cbn [is_signed_ty wf int_valued denote];
    unfold ty_min, ty_max, I64_MIN, I64_MAX, U64_MAX in *; repeat split; auto; lia.
Qed.

Lemma ascending_canon st n p : int_ty st = true -> ty_min st <= p <= ty_max st ->
  ascending_ok (canon st n) (canon st p) = (p <? n).
Proof.
  intros T B. unfold canon. destruct st; try discriminate T; cbn [is_signed_ty ascending_ok as_u as_i]; lia.
Qed.

(* auto-increment of an in-range canonical index followed by the range coercion = p + 1 checked over Z *)
Lemma auto_increment_then_coerce st p : int_ty st = true -> ty_min st <= p <= ty_max st ->
  match auto_increment Tulong st (canon st p) with
  | None => ty_max st < p + 1
  | Some i1 => wf i1 /\ int_valued i1 /\ denote i1 = Some (p + 1)
  end.
Proof.
  intros T B. unfold canon, auto_increment.
  destruct st; try discriminate T; cbn [is_signed_ty sty_eqb andb];
    unfold ty_min, ty_max, I64_MIN, I64_MAX, U64_MAX, u64 in *;
    break_ifs; cbn [wf int_valued denote]; unfold I64_MIN, I64_MAX, U64_MAX;
    try lia; repeat split; auto; try lia; f_equal; lia.
Qed.

Lemma enum_step_plain asc st first p seen mv : int_ty st = true -> ty_min st <= p <= ty_max st -> member_ok mv ->
  enum_step (coerce true) Tulong asc false st false first (canon st p) seen mv =
  let n := match mdenote mv with Some e => e | None => if first then p else p + 1 end in
  if (ty_min st <=? n) && (n <=? ty_max st) && (first || negb asc || (p <? n))
  then Some (canon st n, canon st n) else None.
Proof.
  intros T B M. unfold enum_step. cbn zeta.
  destruct (canon_wf st p T B) as (Wp & Ip & Dp).
  assert (step2 : forall v n, wf v -> int_valued v -> denote v = Some n ->
     match coerce true st v with Err => None | Ok idx => Some (idx, idx) end =
     if (ty_min st <=? n) && (n <=? ty_max st) then Some (canon st n, canon st n) else None).
  { intros v n W I D. rewrite (coerce_int_char st v n T W I D). destruct (_ && _); reflexivity. }
  assert (tail : forall n, (if (ty_min st <=? n) && (n <=? ty_max st) then Some (canon st n, canon st n) else None) = Some (canon st n, canon st n) ->
      True) by auto. clear tail.
  assert (fin : forall n,
     match (if (ty_min st <=? n) && (n <=? ty_max st) then Some (canon st n, canon st n) else None) with
     | None => None
     | Some (val, idx) =>
       if negb first && asc && negb (ascending_ok idx (canon st p)) then None
       else if false && existsb (value_eqb val) seen then None else Some (val, idx)
     end = if (ty_min st <=? n) && (n <=? ty_max st) && (first || negb asc || (p <? n))
           then Some (canon st n, canon st n) else None).
  { intros n. destruct ((ty_min st <=? n) && (n <=? ty_max st)) eqn:R; cbn [andb]; [|reflexivity].
    rewrite (ascending_canon st n p T B). destruct first, asc, (p <? n); reflexivity. }
  destruct M as [-> | [W I]].
  - (* no explicit value *)
    cbn [mdenote]. destruct first.
    + rewrite (step2 _ p Wp Ip Dp). apply fin.
    + pose proof (auto_increment_then_coerce st p T B) as A.
      destruct (auto_increment Tulong st (canon st p)) as [i1|].
      * destruct A as (W1 & I1 & D1).
        replace (match i1 with VNone => i1 | _ => i1 end) with i1 by (destruct i1; reflexivity).
        (* index2 = index1 since mv = VNone *)
        rewrite (step2 _ (p + 1) W1 I1 D1). apply fin.
      * cbn [orb]. assert ((p + 1 <=? ty_max st) = false) by lia.
        rewrite H. rewrite andb_false_r. reflexivity.
  - destruct mv as [|u|i|b| | |]; try contradiction; cbn [mdenote denote];
      (rewrite (step2 _ _ W I eq_refl); apply fin).
Qed.

Lemma enum_loop_plain asc st ms : int_ty st = true -> Forall member_ok ms ->
  forall first p seen, ty_min st <= p <= ty_max st ->
  enum_loop (coerce true) Tulong asc false st false ms first (canon st p) seen =
  option_map (map (canon st)) (enum_spec asc (ty_min st) (ty_max st) p first (map mdenote ms)).
Proof.
  intros T H; induction H as [|mv r M Hr IH]; intros first p seen B; cbn [enum_loop enum_spec map option_map].
  - reflexivity.
  - rewrite (enum_step_plain asc st first p seen mv T B M). cbn zeta.
    set (n := match mdenote mv with Some e => e | None => if first then p else p + 1 end).
    destruct ((ty_min st <=? n) && (n <=? ty_max st) && (first || negb asc || (p <? n))) eqn:R; [|reflexivity].
    assert (Bn : ty_min st <= n <= ty_max st) by lia.
    rewrite (IH false n (canon st n :: seen) Bn).
    destruct (enum_spec asc (ty_min st) (ty_max st) n false (map mdenote r)); reflexivity.
Qed.

Lemma zero_in_range st : int_ty st = true -> ty_min st <= 0 <= ty_max st.
Proof. destruct st; try discriminate; cbn; unfold I64_MIN, I64_MAX, U64_MAX; lia. Qed.

(* refinement: the machine-word implementation of enum numbering equals the integer specification *)
Lemma process_enum_refines asc st ms : int_ty st = true -> Forall member_ok ms ->
  process_enum true asc false st false ms =
  option_map (map (canon st)) (enum_spec asc (ty_min st) (ty_max st) 0 true (map mdenote ms)).
Proof.
  intros T H. unfold process_enum, process_enum_with, enum_init.
  assert (is_float_ty st = false /\ is_bool_ty st = false) as [-> ->] by (destruct st; try discriminate T; auto).
  rewrite (coerce_int_char st (VInt 0) 0 T); cbn [wf int_valued denote]; unfold I64_MIN, I64_MAX; auto; try lia.
  pose proof (zero_in_range st T) as Z0.
  replace ((ty_min st <=? 0) && (0 <=? ty_max st)) with true by lia.
  apply enum_loop_plain; assumption.
Qed.

(* ------------------------------------------------------------------ consequences on the specification *)

Lemma enum_spec_length asc lo hi ms : forall p first vs,
  enum_spec asc lo hi p first ms = Some vs -> length vs = length ms.
Proof.
  induction ms as [|m r IH]; intros p first vs; cbn [enum_spec].
  - intros [= <-]. reflexivity.
  - cbn zeta. destruct (_ && _ && _); [|discriminate].
    destruct (enum_spec asc lo hi _ false r) eqn:E; [|discriminate]. intros [= <-]. cbn. f_equal. eapply IH; eauto.
Qed.

Lemma enum_spec_range asc lo hi ms : forall p first vs,
  enum_spec asc lo hi p first ms = Some vs -> Forall (fun n => lo <= n <= hi) vs.
Proof.
  induction ms as [|m r IH]; intros p first vs; cbn [enum_spec].
  - intros [= <-]. constructor.
  - cbn zeta. destruct (_ && _ && _) eqn:R; [|discriminate].
    destruct (enum_spec asc lo hi _ false r) eqn:E; [|discriminate]. intros [= <-]. constructor; [lia|eapply IH; eauto].
Qed.

(* member k: explicit value kept, otherwise predecessor + 1 *)
Lemma enum_spec_nth asc lo hi ms : forall p first vs k,
  enum_spec asc lo hi p first ms = Some vs -> (k < length ms)%nat ->
  nth k vs 0 = match nth k ms None with
               | Some e => e
               | None => match k with
                         | O => if first then p else p + 1
                         | S j => nth j vs 0 + 1
                         end
               end.
Proof.
  induction ms as [|m r IH]; intros p first vs k; cbn [enum_spec length].
  - intros _ L. lia.
  - cbn zeta. destruct (_ && _ && _) eqn:R; [|discriminate].
    destruct (enum_spec asc lo hi _ false r) as [l|] eqn:E; [|discriminate]. intros [= <-] L.
    destruct k as [|j]; cbn [nth]; [reflexivity|].
    rewrite (IH _ false l j E ltac:(lia)). destruct (nth j r None); [reflexivity|].
    destruct j as [|i]; cbn [nth]; reflexivity.
Qed.

Lemma enum_spec_ascending lo hi ms : forall p first vs,
  enum_spec true lo hi p first ms = Some vs ->
  forall j, (S j < length vs)%nat -> nth j vs 0 < nth (S j) vs 0.
Proof.
  induction ms as [|m r IH]; intros p first vs; cbn [enum_spec].
  - intros [= <-] j L. cbn in L. lia.
  - cbn zeta. destruct (_ && _ && _) eqn:R; [|discriminate].
    destruct (enum_spec true lo hi _ false r) as [l|] eqn:E; [|discriminate]. intros [= <-] j L.
    destruct j as [|i].
    + cbn [nth]. destruct r as [|m2 r2]; cbn [enum_spec] in E.
      * injection E as <-. cbn in L. lia.
      * cbn zeta in E. destruct (_ && _ && _) eqn:R2 in E; [|discriminate].
        destruct (enum_spec true lo hi _ false r2); [|discriminate]. injection E as <-. cbn [nth].
        cbn [negb orb] in R2. lia.
    + cbn [nth]. apply (IH _ false l E). cbn [length] in L. lia.
Qed.

(* overflow of the underlying type on auto-numbering is an error: after a member with value hi an
   auto-numbered member is never accepted *)
Lemma enum_spec_overflow asc lo hi ms1 ms2 : forall p first vs,
  enum_spec asc lo hi p first (ms1 ++ None :: ms2) = Some vs -> ms1 <> [] ->
  nth (length ms1 - 1) vs 0 < hi.
Proof.
  intros p first vs E N.
  pose proof (enum_spec_nth asc lo hi _ p first vs (length ms1) E) as Hn.
  rewrite app_length in Hn. cbn [length] in Hn. specialize (Hn ltac:(lia)).
  rewrite app_nth2 in Hn by lia. rewrite Nat.sub_diag in Hn. cbn [nth] in Hn.
  destruct (length ms1) as [|j] eqn:L; [destruct ms1; [congruence|discriminate L]|].
  pose proof (enum_spec_range asc lo hi _ p first vs E) as Rg.
  rewrite Forall_forall in Rg.
  assert (In (nth (S j) vs 0) vs).
  { apply nth_In. rewrite (enum_spec_length _ _ _ _ _ _ _ E), app_length. cbn [length]. lia. }
  apply Rg in H. replace (S j - 1)%nat with j by lia. lia.
Qed.

(* ------------------------------------------------------------------ bit_flags refinement *)

Definition bf_member_ok (v : value) : Prop := v = VNone \/ (exists u, v = VUint u /\ 0 <= u <= U64_MAX).

Definition ty_bits (st : sty) : Z := ty_size st * 8.

(* position index as it occurs in the loop: vt_uint or vt_int tag, same number *)
Definition pos_index (index : value) (p : Z) : Prop := (index = VUint p \/ index = VInt p) /\ 0 <= p < 64.

Lemma pow2_bounds n : 0 <= n < 64 -> 1 <= 2 ^ n <= 9223372036854775808.
Proof.
  intros B. split.
  - assert (0 < 2 ^ n) by (apply Z.pow_pos_nonneg; lia). lia.
  - change 9223372036854775808 with (2 ^ 63). apply Z.pow_le_mono_r; lia.
Qed.

Lemma bf_step st asc first index p seen mv : int_ty st = true -> pos_index index p -> bf_member_ok mv ->
  enum_step (coerce true) Tulong asc false st true first index seen mv =
  let n := match mdenote mv with Some e => e | None => if first then p else p + 1 end in
  if (0 <=? n) && (n <? ty_bits st) && (2 ^ n <=? ty_max st) && (first || negb asc || (p <? n))
  then Some (canon st (2 ^ n), match mv with VNone => (if first then index else match index with VUint _ => VUint n | _ => VInt n end) | _ => VUint n end)
  else None.
Proof.
  intros T [Hi Bp] M. unfold enum_step. cbn zeta.
  assert (Bits : ty_bits st <= 64) by (destruct st; cbn; lia).
  assert (Bits0 : 0 < ty_bits st) by (destruct st; cbn; lia).
  (* the common tail once the position index2 (denoting n, 0 <= n) is fixed *)
  assert (core : forall index2 n, (index2 = VUint n \/ index2 = VInt n) -> 0 <= n <= U64_MAX ->
     match (if as_u index2 >=? ty_size st * 8 then None
            else match coerce true st (VUint (u64 (2 ^ as_u index2))) with
                 | Err => None | Ok val => Some (val, index2) end) with
     | None => None
     | Some (val, idx) =>
       if negb first && asc && negb (ascending_ok idx index) then None
       else if false && existsb (value_eqb val) seen then None else Some (val, idx)
     end =
     if (0 <=? n) && (n <? ty_bits st) && (2 ^ n <=? ty_max st) && (first || negb asc || (p <? n))
     then Some (canon st (2 ^ n), index2) else None).
  { intros index2 n H2 Bn.
    assert (A : as_u index2 = n).
    { destruct H2 as [-> | ->]; cbn [as_u]; [reflexivity|]. unfold u64, U64_MAX in *. rewrite Z.mod_small; lia. }
    rewrite A. fold (ty_bits st).
    destruct (n >=? ty_bits st) eqn:G.
    - replace (n <? ty_bits st) with false by lia. rewrite andb_false_r. reflexivity.
    - assert (Bn' : 0 <= n < 64) by lia. pose proof (pow2_bounds n Bn') as PB.
      assert (U : u64 (2 ^ n) = 2 ^ n) by (unfold u64; rewrite Z.mod_small; lia). rewrite U.
      rewrite (coerce_int_char st (VUint (2 ^ n)) (2 ^ n) T); cbn [wf int_valued denote]; unfold U64_MAX; auto; try lia.
      assert (ty_min st <= 2 ^ n) by (destruct st; try discriminate T; cbn; unfold I64_MIN; lia).
      replace (0 <=? n) with true by lia. replace (n <? ty_bits st) with true by lia.
      replace (ty_min st <=? 2 ^ n) with true by lia. cbn [andb].
      destruct (2 ^ n <=? ty_max st) eqn:R; cbn [andb]; [|reflexivity].
      assert (AO : ascending_ok index2 index = (p <? n)).
      { destruct H2 as [-> | ->]; destruct Hi as [-> | ->]; cbn [ascending_ok as_u as_i]; unfold s64; cbn zeta; unfold u64;
          rewrite ?Z.mod_small by lia; break_ifs; lia. }
      rewrite AO. destruct first, asc, (p <? n); reflexivity. }
  destruct M as [-> | (u & -> & Bu)].
  - cbn [mdenote]. destruct first.
    + rewrite (core index p Hi ltac:(unfold U64_MAX; lia)). destruct (_ && _ && _ && _); reflexivity.
    + (* auto increment of a position *)
      assert (AI : auto_increment Tulong st index = Some (match index with VUint _ => VUint (p + 1) | _ => VInt (p + 1) end)).
      { destruct Hi as [-> | ->]; unfold auto_increment.
        - replace (p =? U64_MAX) with false by (unfold U64_MAX; lia). rewrite andb_false_r.
          unfold u64. rewrite Z.mod_small by lia. reflexivity.
        - replace (p =? I64_MAX) with false by (unfold I64_MAX; lia). rewrite andb_false_r. reflexivity. }
      rewrite AI.
      assert (H2 : (match index with VUint _ => VUint (p + 1) | _ => VInt (p + 1) end) = VUint (p + 1) \/
                   (match index with VUint _ => VUint (p + 1) | _ => VInt (p + 1) end) = VInt (p + 1))
        by (destruct Hi as [-> | ->]; auto).
      rewrite (core _ (p + 1) H2 ltac:(unfold U64_MAX; lia)). destruct (_ && _ && _ && _); reflexivity.
  - cbn [mdenote denote]. cbv iota beta.
    rewrite (core (VUint u) u (or_introl eq_refl) Bu). reflexivity.
Qed.

Lemma bf_loop st asc ms : int_ty st = true -> Forall bf_member_ok ms ->
  forall first index p seen, pos_index index p ->
  enum_loop (coerce true) Tulong asc false st true ms first index seen =
  option_map (map (canon st)) (bf_spec asc (ty_bits st) (ty_max st) p first (map mdenote ms)).
Proof.
  intros T H; induction H as [|mv r M Hr IH]; intros first index p seen Hp; cbn [enum_loop bf_spec map option_map].
  - reflexivity.
  - rewrite (bf_step st asc first index p seen mv T Hp M). cbn zeta.
    set (n := match mdenote mv with Some e => e | None => if first then p else p + 1 end).
    destruct ((0 <=? n) && (n <? ty_bits st) && (2 ^ n <=? ty_max st) && (first || negb asc || (p <? n))) eqn:R; [|reflexivity].
    assert (Bits : ty_bits st <= 64) by (destruct st; cbn; lia).
    assert (Hn : pos_index (match mv with VNone => (if first then index else match index with VUint _ => VUint n | _ => VInt n end) | _ => VUint n end) n).
    { split; [|lia]. destruct Hp as [Hi Bp]. destruct M as [-> | (u & -> & Bu)].
      - destruct first.
        + subst n. cbn [mdenote]. exact Hi.
        + destruct Hi as [-> | ->]; auto.
      - auto. }
    rewrite (IH false _ n _ Hn).
    destruct (bf_spec asc (ty_bits st) (ty_max st) n false (map mdenote r)); reflexivity.
Qed.

Lemma process_enum_bit_flags_refines asc st ms : int_ty st = true -> Forall bf_member_ok ms ->
  process_enum true asc false st true ms =
  option_map (map (canon st)) (bf_spec asc (ty_bits st) (ty_max st) 0 true (map mdenote ms)).
Proof.
  intros T H. unfold process_enum, process_enum_with, enum_init.
  assert (is_float_ty st = false /\ is_bool_ty st = false) as [-> ->] by (destruct st; try discriminate T; auto).
  rewrite (coerce_int_char st (VInt 0) 0 T); cbn [wf int_valued denote]; unfold I64_MIN, I64_MAX; auto; try lia.
  pose proof (zero_in_range st T) as Z0.
  replace ((ty_min st <=? 0) && (0 <=? ty_max st)) with true by lia.
  apply bf_loop; [assumption|assumption|]. unfold pos_index, canon. destruct (is_signed_ty st); split; auto; lia.
Qed.

(* every accepted bit_flags member is 2^pos with 0 <= pos < width of the type, and representable *)
Lemma bf_spec_positions asc bits hi ms : forall p first vs,
  bf_spec asc bits hi p first ms = Some vs ->
  Forall (fun v => exists pos, 0 <= pos < bits /\ v = 2 ^ pos /\ v <= hi) vs.
Proof.
  induction ms as [|m r IH]; intros p first vs; cbn [bf_spec].
  - intros [= <-]. constructor.
  - cbn zeta. destruct (_ && _ && _ && _) eqn:R; [|discriminate].
    destruct (bf_spec asc bits hi _ false r) eqn:E; [|discriminate]. intros [= <-]. constructor.
    + eexists; split; [|split; [reflexivity|]]; lia.
    + eapply IH; eauto.
Qed.

(* ------------------------------------------------------------------ the pinned commit: ulong enum wraps *)

Lemma enum_ulong_wrap_refuted :
  process_enum_cur true false false Tulong false [VUint U64_MAX; VNone] = Some [VUint U64_MAX; VUint 0] /\
  process_enum true false false Tulong false [VUint U64_MAX; VNone] = None.
Proof. split; vm_compute; reflexivity. Qed.

(* ------------------------------------------------------------------ fixed array length *)

Lemma array_len_iff v n : wf v -> (array_len v = Some n <-> v = VUint n /\ 1 <= n <= U32_MAX).
Proof.
  intros W. unfold array_len. destruct v as [|u|i|b| | |]; try (split; [discriminate|intros [X _]; discriminate X]).
  cbn [wf] in W. destruct (u =? 0) eqn:E0.
  - split; [discriminate|]. intros [[= ->] B]. lia.
  - destruct (u >? U32_MAX) eqn:E1.
    + split; [discriminate|]. intros [[= ->] B]. lia.
    + split; [intros [= ->]; split; [reflexivity|lia] | intros [[= ->] _]; reflexivity].
Qed.

(* ------------------------------------------------------------------ force_align *)

Lemma pow2_search_sound fuel : forall n a, 0 < n -> pow2_search fuel n a = true -> exists k, 0 <= k /\ a = n * 2 ^ k.
Proof.
  induction fuel as [|f IH]; intros n a Hn; cbn [pow2_search]; [discriminate|].
  destruct (n <=? a) eqn:L; [|discriminate]. destruct (n =? a) eqn:E.
  - intros _. exists 0. rewrite Z.pow_0_r. lia.
  - intros H. destruct (IH (n * 2) a ltac:(lia) H) as (k & Hk & ->). exists (k + 1).
    rewrite Z.pow_add_r by lia. split; [lia|]. change (2 ^ 1) with 2. ring.
Qed.

Lemma pow2_search_complete fuel : forall n k, 0 < n -> 0 <= k -> (Z.to_nat k < fuel)%nat ->
  pow2_search fuel n (n * 2 ^ k) = true.
Proof.
  induction fuel as [|f IH]; intros n k Hn Hk F; [lia|]. cbn [pow2_search].
  assert (P : 1 <= 2 ^ k) by (assert (0 < 2 ^ k) by (apply Z.pow_pos_nonneg; lia); lia).
  replace (n <=? n * 2 ^ k) with true by nia.
  destruct (n =? n * 2 ^ k) eqn:E; [reflexivity|].
  assert (k <> 0) by (intros ->; rewrite Z.pow_0_r in E; lia).
  replace (n * 2 ^ k) with (n * 2 * 2 ^ (k - 1)).
  - apply IH; lia.
  - replace k with (k - 1 + 1) at 2 by lia. rewrite Z.pow_add_r by lia. change (2 ^ 1) with 2. ring.
Qed.

(* accepted iff a power of two in [1, amax] *)
Lemma is_valid_align_iff amax a : 0 < amax < 2 ^ 63 ->
  (is_valid_align amax a = true <-> (exists k, 0 <= k /\ a = 2 ^ k) /\ 1 <= a <= amax).
Proof.
  intros A. unfold is_valid_align. destruct ((a =? 0) || (a >? amax)) eqn:E.
  - split; [discriminate|]. intros [(k & Hk & ->) B].
    assert (0 < 2 ^ k) by (apply Z.pow_pos_nonneg; lia). lia.
  - split.
    + intros H. destruct (pow2_search_sound 64 1 a ltac:(lia) H) as (k & Hk & ->). rewrite Z.mul_1_l in *.
      assert (0 < 2 ^ k) by (apply Z.pow_pos_nonneg; lia). split; [eauto|lia].
    + intros [(k & Hk & ->) B]. replace (2 ^ k) with (1 * 2 ^ k) by lia.
      apply pow2_search_complete; try lia.
      assert (k < 63). { apply (Z.pow_lt_mono_r_iff 2); lia. } lia.
Qed.

(* ------------------------------------------------------------------ struct size limit *)

Lemma struct_layout_limit smax fa ms sz al :
  struct_layout true smax fa ms = Some (sz, al) -> sz <= smax /\ sz <> 0.
Proof.
  unfold struct_layout. destruct (struct_members smax ms 0 1) as [[size align]|]; [|discriminate].
  destruct ((0 <? fa) && (fa <? align)); [discriminate|].
  set (a := if 0 <? fa then fa else align).
  destruct (align_up size a =? 0) eqn:Z0; [discriminate|].
  cbn [andb]. destruct (align_up size a >? smax) eqn:G; [discriminate|]. intros [= <- <-]. lia.
Qed.

(* pinned commit: the maximum is tested before the trailing padding *)
Lemma struct_size_limit_refuted :
  exists ms sz al, struct_layout false 65535 0 ms = Some (sz, al) /\ 65535 < sz /\
                   struct_layout true 65535 0 ms = None.
Proof. exists [(4, 1); (1, 65531)], 65536, 4. repeat split; vm_compute; reflexivity. Qed.

(* a struct made of one scalar array: accepted iff 1 <= len and esz * len <= max *)
Lemma array_struct_iff smax esz len : (esz = 1 \/ esz = 2 \/ esz = 4 \/ esz = 8) ->
  1 <= len <= U32_MAX -> 0 < smax < 2 ^ 32 ->
  (struct_layout true smax 0 [(esz, len)] = Some (esz * len, esz) <-> esz * len <= smax) /\
  (struct_layout true smax 0 [(esz, len)] = Some (esz * len, esz) \/ struct_layout true smax 0 [(esz, len)] = None).
Proof.
  intros E L S. change (2 ^ 32) with 4294967296 in S. unfold U32_MAX in L.
  unfold struct_layout, struct_members, align_up, u64.
  assert (M : (esz * len) mod 18446744073709551616 = esz * len) by (apply Z.mod_small; lia).
  rewrite M. replace ((0 + esz - 1) / esz * esz) with 0 by (destruct E as [-> | [-> | [-> | ->]]]; reflexivity).
  cbn [Z.add]. rewrite M. cbn [Z.ltb Z.compare orb].
  replace (esz * len <? 0) with false by lia. cbn [orb].
  destruct (esz * len >? smax) eqn:G.
  - split; [split; [discriminate|lia] | right; reflexivity].
  - replace (Z.max 1 esz) with esz by lia. cbn [andb].
    replace ((esz * len + esz - 1) / esz * esz) with (esz * len)
      by (destruct E as [-> | [-> | [-> | ->]]]; lia).
    replace (esz * len =? 0) with false by lia. rewrite G.
    split; [split; [lia|reflexivity] | left; reflexivity].
Qed.
