(* C10: arithmetic facts connecting the 64-bit window value with its 8 bytes: big-endian value vs. lexicographic
   order, masks of get_dict_tag vs. byte prefixes. *)
From Flatcc.Trie Require Import TrieCheck.
From Coq Require Import ZifyBool.
Local Open Scope Z_scope.
Ltac Zify.zify_post_hook ::= Z.div_mod_to_equations.

Lemma pow256_pos n : 0 < 256 ^ Z.of_nat n.
Proof. apply Z.pow_pos_nonneg; lia. Qed.

Lemma pow256_S n : 256 ^ Z.of_nat (S n) = 256 * 256 ^ Z.of_nat n.
Proof. rewrite Nat2Z.inj_succ, Z.pow_succ_r by lia. reflexivity. Qed.

Lemma bytes_cons b r : bytes (b :: r) <-> 0 <= b < 256 /\ bytes r.
Proof. unfold bytes. split; intros H. inversion H; auto. constructor; tauto. Qed.

Lemma bytes_nil : bytes [].
Proof. constructor. Qed.

Lemma bytes_app a b : bytes (a ++ b) <-> bytes a /\ bytes b.
Proof. unfold bytes. apply Forall_app. Qed.

Lemma bytes_firstn n s : bytes s -> bytes (firstn n s).
Proof.
  revert s. induction n; intros s H; simpl. constructor.
  destruct s. constructor. apply bytes_cons in H. apply bytes_cons. split. tauto. apply IHn. tauto.
Qed.

Lemma bytes_skipn n s : bytes s -> bytes (skipn n s).
Proof.
  revert s. induction n; intros s H; simpl. assumption.
  destruct s. constructor. apply bytes_cons in H. apply IHn. tauto.
Qed.

Lemma bev_range l : bytes l -> 0 <= bev l < 256 ^ Z.of_nat (length l).
Proof.
  induction l as [|b r IH]; intros H; cbn [bev length].
  - cbn. lia.
  - apply bytes_cons in H. destruct H as [Hb Hr]. specialize (IH Hr).
    rewrite pow256_S. pose proof (pow256_pos (length r)). nia.
Qed.

Lemma bev_lt a : forall b, bytes a -> bytes b -> length a = length b ->
  (bev a <? bev b) = lexlt a b.
Proof.
  induction a as [|x a IH]; intros [|y b] Ha Hb Hl; try discriminate.
  - reflexivity.
  - cbn [bev lexlt]. apply bytes_cons in Ha. apply bytes_cons in Hb. destruct Ha as [Hx Ha]. destruct Hb as [Hy Hb].
    injection Hl as Hl. rewrite Hl.
    pose proof (bev_range a Ha) as Ra. pose proof (bev_range b Hb) as Rb. rewrite Hl in Ra.
    pose proof (pow256_pos (length b)) as HP.
    set (P := 256 ^ Z.of_nat (length b)) in *.
    destruct (x <? y) eqn:E1.
    + apply Z.ltb_lt. apply Z.ltb_lt in E1. nia.
    + destruct (x =? y) eqn:E2.
      * apply Z.eqb_eq in E2. subst y. rewrite <- (IH b Ha Hb Hl).
        destruct (bev a <? bev b) eqn:E3.
        -- apply Z.ltb_lt. apply Z.ltb_lt in E3. lia.
        -- apply Z.ltb_ge. apply Z.ltb_ge in E3. lia.
      * apply Z.ltb_ge. apply Z.ltb_ge in E1. apply Z.eqb_neq in E2. nia.
Qed.

Lemma list_eqb_eq a : forall b, list_eqb a b = true <-> a = b.
Proof.
  induction a as [|x a IH]; intros [|y b]; cbn [list_eqb]; split; intros H; try discriminate; try reflexivity.
  - apply andb_true_iff in H. destruct H as [H1 H2]. apply Z.eqb_eq in H1. apply IH in H2. subst. reflexivity.
  - injection H as -> ->. rewrite Z.eqb_refl. apply IH. reflexivity.
Qed.

Lemma list_eqb_refl a : list_eqb a a = true.
Proof. apply list_eqb_eq. reflexivity. Qed.

Lemma bev_inj a : forall b, bytes a -> bytes b -> length a = length b -> bev a = bev b -> a = b.
Proof.
  induction a as [|x a IH]; intros [|y b] Ha Hb Hl He; try discriminate.
  - reflexivity.
  - cbn [bev] in He. apply bytes_cons in Ha. apply bytes_cons in Hb. destruct Ha as [Hx Ha]. destruct Hb as [Hy Hb].
    injection Hl as Hl. rewrite Hl in He.
    pose proof (bev_range a Ha) as Ra. pose proof (bev_range b Hb) as Rb. rewrite Hl in Ra.
    pose proof (pow256_pos (length b)) as HP.
    set (P := 256 ^ Z.of_nat (length b)) in *.
    assert (x = y) by nia. subst y. f_equal. apply IH; auto. lia.
Qed.

Lemma bev_eqb a b : bytes a -> bytes b -> length a = length b -> (bev a =? bev b) = list_eqb a b.
Proof.
  intros Ha Hb Hl. destruct (list_eqb a b) eqn:E.
  - apply list_eqb_eq in E. subst. apply Z.eqb_refl.
  - apply Z.eqb_neq. intros He. apply (bev_inj a b Ha Hb Hl) in He. subst. rewrite list_eqb_refl in E. discriminate.
Qed.

Lemma bev_app a b : bev (a ++ b) = bev a * 256 ^ Z.of_nat (length b) + bev b.
Proof.
  induction a as [|x a IH]; cbn [bev app]. lia.
  rewrite IH, app_length, Nat2Z.inj_add, Z.pow_add_r by lia. ring.
Qed.

Lemma unbe_length k : forall w, length (unbe k w) = k.
Proof. induction k; intros w; cbn [unbe length]; auto. Qed.

Lemma unbe_spec k : forall w, 0 <= w < 256 ^ Z.of_nat k -> bytes (unbe k w) /\ bev (unbe k w) = w.
Proof.
  induction k as [|k IH]; intros w Hw.
  - cbn in *. split. constructor. lia.
  - cbn [unbe bev]. rewrite pow256_S in Hw. pose proof (pow256_pos k) as HP.
    rewrite unbe_length.
    set (P := 256 ^ Z.of_nat k) in *.
    assert (Hm : 0 <= w mod P < P) by (apply Z.mod_pos_bound; lia).
    destruct (IH (w mod P) Hm) as [Hb He]. split.
    + apply bytes_cons. split; [|exact Hb]. split. apply Z.div_pos; lia. apply Z.div_lt_upper_bound; lia.
    + rewrite He. rewrite (Z.div_mod w P) at 3 by lia. ring.
Qed.

(* ---- the window *)
Lemma wb_length k : forall s, length (wb k s) = k.
Proof. induction k; intros [|b r]; cbn [wb length]; auto. Qed.

Lemma wb_bytes k : forall s, bytes s -> bytes (wb k s).
Proof.
  induction k; intros s H; cbn [wb]. constructor.
  destruct s as [|b r].
  - apply bytes_cons. split. lia. apply IHk. constructor.
  - apply bytes_cons in H. apply bytes_cons. split. tauto. apply IHk. tauto.
Qed.

Lemma be_nil k : be k [] = 0.
Proof. destruct k; reflexivity. Qed.

Lemma bev_wb_nil k : bev (wb k []) = 0.
Proof. induction k; cbn [wb bev]. reflexivity. rewrite IHk. lia. Qed.

Lemma be_wb k : forall s, be k s = bev (wb k s).
Proof.
  induction k; intros s; cbn [be wb bev]. reflexivity.
  destruct s as [|b r]; cbn [bev].
  - rewrite bev_wb_nil. lia.
  - rewrite wb_length, IHk. reflexivity.
Qed.

Lemma win_wb s : win s = bev (wb 8 s).
Proof. apply be_wb. Qed.

Lemma W64_pow : W64 = 256 ^ Z.of_nat 8.
Proof. reflexivity. Qed.

Lemma in_w64_spec c : in_w64 c = true -> bytes (unbe 8 c) /\ bev (unbe 8 c) = c.
Proof.
  unfold in_w64. intros H. apply andb_true_iff in H. destruct H as [H1 H2].
  apply Z.leb_le in H1. apply Z.ltb_lt in H2. apply unbe_spec. rewrite <- W64_pow. lia.
Qed.

Lemma win_lt s c : bytes s -> in_w64 c = true -> (win s <? c) = lexlt (wb 8 s) (unbe 8 c).
Proof.
  intros Hs Hc. destruct (in_w64_spec c Hc) as [Hb He]. rewrite <- He at 1. rewrite win_wb.
  apply bev_lt. apply wb_bytes; auto. auto. rewrite wb_length, unbe_length. reflexivity.
Qed.

Lemma firstn_all_len (l : list Z) n : length l = n -> firstn n l = l.
Proof. intros <-. apply firstn_all. Qed.

Lemma win_eq s c : bytes s -> in_w64 c = true ->
  (win s =? c) = list_eqb (firstn (length (unbe 8 c)) (wb 8 s)) (unbe 8 c).
Proof.
  intros Hs Hc. destruct (in_w64_spec c Hc) as [Hb He]. rewrite <- He at 1. rewrite win_wb.
  rewrite unbe_length. rewrite (firstn_all_len (wb 8 s) 8) by apply wb_length.
  apply bev_eqb. apply wb_bytes; auto. auto. rewrite wb_length, unbe_length. reflexivity.
Qed.

(* ---- masks *)
Lemma land_mask_j j w : 0 <= j -> 0 <= w < 2 ^ 64 ->
  Z.land w (Z.land (Z.ones 64) (Z.lnot (Z.ones j))) = w / 2 ^ j * 2 ^ j.
Proof.
  intros Hj Hw. rewrite Z.land_assoc, Z.land_ones by lia. rewrite Z.mod_small by lia.
  rewrite <- Z.ldiff_land, Z.ldiff_ones_r by lia.
  rewrite Z.shiftr_div_pow2, Z.shiftl_mul_pow2 by lia. reflexivity.
Qed.

Lemma land_mask n w : In n (1 :: 2 :: 3 :: 4 :: 5 :: 6 :: 7 :: nil)%nat -> 0 <= w < W64 ->
  Z.land w (mask_of n) = w / 256 ^ Z.of_nat (8 - n) * 256 ^ Z.of_nat (8 - n).
Proof.
  intros Hn Hw. change W64 with (2 ^ 64) in Hw.
  cbn [In] in Hn.
  repeat (destruct Hn as [<- | Hn];
    [ match goal with |- Z.land _ (mask_of ?k) = _ =>
        let j := eval vm_compute in (8 * Z.of_nat (8 - k)) in
        replace (mask_of k) with (Z.land (Z.ones 64) (Z.lnot (Z.ones j))) by (vm_compute; reflexivity);
        replace (256 ^ Z.of_nat (8 - k)) with (2 ^ j) by (vm_compute; reflexivity);
        apply land_mask_j; lia
      end | ]).
  contradiction.
Qed.

Lemma find_mask_spec m n : find_mask m = Some n ->
  In n (1 :: 2 :: 3 :: 4 :: 5 :: 6 :: 7 :: nil)%nat /\ m = mask_of n.
Proof.
  unfold find_mask. intros H. apply find_some in H. destruct H as [H1 H2]. apply Z.eqb_eq in H2. auto.
Qed.

Lemma win_range s : bytes s -> 0 <= win s < W64.
Proof.
  intros H. rewrite win_wb. pose proof (bev_range (wb 8 s) (wb_bytes 8 s H)) as R.
  rewrite wb_length in R. rewrite W64_pow. exact R.
Qed.

Lemma win_mask s m tag n : bytes s -> find_mask m = Some n -> in_w64 tag = true ->
  tag = bev (firstn n (unbe 8 tag)) * 256 ^ Z.of_nat (8 - n) ->
  (Z.land (win s) m =? tag) =
  list_eqb (firstn (length (firstn n (unbe 8 tag))) (wb 8 s)) (firstn n (unbe 8 tag)).
Proof.
  intros Hs Hm Ht Htag. apply find_mask_spec in Hm. destruct Hm as [Hn ->].
  assert (Hn8 : (n <= 8)%nat) by (cbn [In] in Hn; lia).
  rewrite (land_mask n (win s) Hn (win_range s Hs)).
  rewrite firstn_length, unbe_length, Nat.min_l by lia.
  destruct (in_w64_spec tag Ht) as [Hb _].
  set (p := firstn n (unbe 8 tag)) in *.
  assert (Hpl : length p = n) by (unfold p; rewrite firstn_length, unbe_length; lia).
  assert (Hpb : bytes p) by (apply bytes_firstn; auto).
  pose proof (wb_bytes 8 s Hs) as Hwb.
  rewrite win_wb. rewrite <- (firstn_skipn n (wb 8 s)) at 1.
  rewrite bev_app.
  assert (Hsl : length (skipn n (wb 8 s)) = (8 - n)%nat) by (rewrite skipn_length, wb_length; reflexivity).
  rewrite Hsl.
  pose proof (bev_range (skipn n (wb 8 s)) (bytes_skipn n _ Hwb)) as R. rewrite Hsl in R.
  pose proof (pow256_pos (8 - n)) as HP.
  set (Q := 256 ^ Z.of_nat (8 - n)) in *.
  set (A := bev (firstn n (wb 8 s))). set (B := bev (skipn n (wb 8 s))) in *.
  assert (Hd : (A * Q + B) / Q = A).
  { rewrite Z.add_comm, Z.div_add by lia. rewrite Z.div_small by lia. lia. }
  rewrite Hd. rewrite Htag.
  rewrite <- (bev_eqb (firstn n (wb 8 s)) p); auto.
  - unfold A. destruct (bev (firstn n (wb 8 s)) =? bev p) eqn:E.
    + apply Z.eqb_eq in E. rewrite E. apply Z.eqb_refl.
    + apply Z.eqb_neq in E. apply Z.eqb_neq. nia.
  - apply bytes_firstn; auto.
  - rewrite firstn_length, wb_length, Hpl. lia.
Qed.
