(* C10: the certified checker.  [check t ns = true] is decided by computation for each generated trie; TrieProofs.v proves
   once and for all that it implies  forall input s, run win tm t s = lookup tm ns s.
   Definitions only (all executable); no proofs in this file. *)
From Flatcc.Trie Require Export TrieAst TrieEval TrieSpec.
Local Open Scope Z_scope.

(* ---- byte-level view of windows and constants *)
(* the window as 8 bytes: the input, zero padded *)
Fixpoint wb (k : nat) (s : list Z) : list Z :=
  match k with
  | O => []
  | S k' => match s with
            | [] => 0 :: wb k' []
            | b :: r => b :: wb k' r
            end
  end.
(* big-endian value of a byte list / bytes of a k-byte big-endian value *)
Fixpoint bev (l : list Z) : Z :=
  match l with
  | [] => 0
  | b :: r => b * 256 ^ Z.of_nat (length r) + bev r
  end.
Fixpoint unbe (k : nat) (w : Z) : list Z :=
  match k with
  | O => []
  | S k' => (w / 256 ^ Z.of_nat k') :: unbe k' (w mod 256 ^ Z.of_nat k')
  end.
Fixpoint lexlt (a b : list Z) : bool :=
  match a, b with
  | x :: a', y :: b' => if x <? y then true else if x =? y then lexlt a' b' else false
  | _, _ => false
  end.
Fixpoint list_eqb (a b : list Z) : bool :=
  match a, b with
  | [], [] => true
  | x :: a', y :: b' => (x =? y) && list_eqb a' b'
  | _, _ => false
  end.

(* ---- the decision code with its constants decoded to bytes *)
Inductive btrie : Type :=
| BUnmatched
| BGoto (l : Z)
| BIfLt (c : list Z) (t1 t2 : btrie)      (* window bytes lexicographically below c (8 bytes) *)
| BIfPre (p : list Z) (t1 t2 : btrie)     (* the first |p| window bytes equal p *)
| BMatch (n : nat) (h : Z) (tf : btrie)
| BAdvance (sub : btrie)
| BGuard (l : Z) (tp tr : btrie).

Definition W64 : Z := 18446744073709551616.
Definition in_w64 (c : Z) : bool := (0 <=? c) && (c <? W64).

(* mask ~((1 << (8 - n) * 8) - 1) of get_dict_tag for n = 1..7 *)
Definition mask_of (n : nat) : Z := W64 - 256 ^ Z.of_nat (8 - n).
Definition find_mask (m : Z) : option nat :=
  find (fun n => m =? mask_of n) (1 :: 2 :: 3 :: 4 :: 5 :: 6 :: 7 :: nil)%nat.

Fixpoint conv (t : trie) : option btrie :=
  match t with
  | TUnmatched => Some BUnmatched
  | TGoto l => Some (BGoto l)
  | TIfLt c t1 t2 =>
      match conv t1, conv t2 with
      | Some b1, Some b2 => if in_w64 c then Some (BIfLt (unbe 8 c) b1 b2) else None
      | _, _ => None
      end
  | TIfEq c t1 t2 =>
      match conv t1, conv t2 with
      | Some b1, Some b2 => if in_w64 c then Some (BIfPre (unbe 8 c) b1 b2) else None
      | _, _ => None
      end
  | TIfMask m tag t1 t2 =>
      match conv t1, conv t2, find_mask m with
      | Some b1, Some b2, Some n =>
          let p := firstn n (unbe 8 tag) in
          if in_w64 tag && (tag =? bev p * 256 ^ Z.of_nat (8 - n)) then Some (BIfPre p b1 b2) else None
      | _, _, _ => None
      end
  | TMatch n h tf => match conv tf with Some b => Some (BMatch n h b) | None => None end
  | TAdvance sub => match conv sub with Some b => Some (BAdvance b) | None => None end
  | TGuard l tp tr =>
      match conv tp, conv tr with
      | Some b1, Some b2 => Some (BGuard l b1 b2)
      | _, _ => None
      end
  end.

Section EvalB.
  Variable tm : list Z -> bool.
  Fixpoint evalB (t : btrie) (s : list Z) : res :=
    match t with
    | BUnmatched => RUnmatched
    | BGoto l => RJump l s
    | BIfLt c t1 t2 => if lexlt (wb 8 s) c then evalB t1 s else evalB t2 s
    | BIfPre p t1 t2 => if list_eqb (firstn (length p) (wb 8 s)) p then evalB t1 s else evalB t2 s
    | BMatch n h tf => if tm (skipn n s) then RMatched h else evalB tf s
    | BAdvance sub => if (length s <? 8)%nat then ROverrun else evalB sub (skipn 8 s)
    | BGuard l tp tr =>
        match evalB tp s with
        | RJump l' s' => if l' =? l then evalB tr s' else RJump l' s'
        | r => r
        end
    end.
End EvalB.

(* ---- (1) every goto targets an enclosing prefix guard, and never leaves a descend level *)
Fixpoint scoped (ls : list Z) (t : btrie) : bool :=
  match t with
  | BUnmatched => true
  | BGoto l => existsb (Z.eqb l) ls
  | BIfLt _ t1 t2 | BIfPre _ t1 t2 => scoped ls t1 && scoped ls t2
  | BMatch _ _ tf => scoped ls tf
  | BAdvance sub => scoped [] sub
  | BGuard l tp tr => scoped (l :: ls) tp && scoped ls tr
  end.

(* ---- (2) soundness walk: along every path the tests passed so far pin down the bytes consumed by descends ([done])
        and a prefix of the current window ([cur]); a handler may only be entered for the name these bytes spell,
        and a descend may only happen on a fully pinned window without zero bytes *)
Section Snd.
  Variable ns : names.
  Fixpoint snd_ok (done cur : list Z) (t : btrie) : bool :=
    match t with
    | BUnmatched => true
    | BGoto _ => true
    | BIfLt _ t1 t2 => snd_ok done cur t1 && snd_ok done cur t2
    | BIfPre p t1 t2 => (length p <=? 8)%nat && snd_ok done p t1 && snd_ok done cur t2
    | BMatch n h tf =>
        (n <=? length cur)%nat
        && existsb (fun e => list_eqb (fst e) (done ++ firstn n cur) && (snd e =? h)) ns
        && snd_ok done cur tf
    | BAdvance sub =>
        Nat.eqb (length cur) 8 && forallb (fun b => negb (b =? 0)) cur && snd_ok (done ++ cur) [] sub
    | BGuard _ tp tr => snd_ok done cur tp && snd_ok done cur tr
    end.
End Snd.

(* ---- (3) completeness: symbolic run of the decision code on "the rest [rem] of a declared name, then a byte that
        is not an identifier byte and passes the terminator test, then anything".  None = not determined. *)
Inductive sres : Type := SMatched (h : Z) | SUnm | SJump (l : Z).

Section Sym.
Variable tl : list Z.     (* the bytes a terminator test can accept *)
Fixpoint symlt (rem c : list Z) {struct c} : option bool :=
  match c with
  | [] => Some false
  | y :: c' =>
      match rem with
      | [] =>
          (* the window continues with the terminator byte and then unknown bytes *)
          if forallb (fun b => b =? 0) c then Some false
          else if forallb (fun tau => tau <? y) tl then Some true
          else if forallb (fun tau => y <? tau) tl then Some false
          else None
      | x :: r' => if x <? y then Some true else if x =? y then symlt r' c' else Some false
      end
  end.
Fixpoint sympre (rem p : list Z) {struct p} : option bool :=
  match p with
  | [] => Some true
  | y :: p' =>
      match rem with
      | [] => if is_ident y then Some false else None
      | x :: r' => if x =? y then sympre r' p' else Some false
      end
  end.
Fixpoint sym (t : btrie) (rem : list Z) : option sres :=
  match t with
  | BUnmatched => Some SUnm
  | BGoto l => Some (SJump l)
  | BIfLt c t1 t2 =>
      if Nat.eqb (length c) 8 then
        match symlt rem c with Some true => sym t1 rem | Some false => sym t2 rem | None => None end
      else None
  | BIfPre p t1 t2 =>
      if (length p <=? 8)%nat then
        match sympre rem p with Some true => sym t1 rem | Some false => sym t2 rem | None => None end
      else None
  | BMatch n h tf =>
      if (n <? length rem)%nat then (if is_ident (nth n rem 0) then sym tf rem else None)
      else if Nat.eqb n (length rem) then Some (SMatched h) else None
  | BAdvance sub =>
      if (8 <=? length rem)%nat then
        match sym sub (skipn 8 rem) with
        | Some (SJump _) => None          (* a jump never leaves a descend level *)
        | r => r
        end
      else None
  | BGuard l tp tr =>
      match sym tp rem with
      | Some (SJump l') => if l' =? l then sym tr rem else Some (SJump l')
      | r => r
      end
  end.
End Sym.
Definition sres_is (r : option sres) (h : Z) : bool :=
  match r with Some (SMatched h') => h' =? h | _ => false end.

(* [tl]: the terminator bytes of the mode(s) the result is to hold for *)
Definition check (tl : list Z) (t : trie) (ns : names) : bool :=
  forallb (fun b => negb (is_ident b)) tl &&
  match conv t with
  | Some bt =>
      scoped [] bt && snd_ok ns [] [] bt && forallb (fun e => sres_is (sym tl bt (fst e)) (snd e)) ns
  | None => false
  end.

(* terminator byte sets of the runtime's tests (the tm_ functions of TrieEval) *)
Definition zrange (lo : Z) (n : nat) : list Z := map (fun i => lo + Z.of_nat i) (seq 0 n).
Definition tl_symbol_quoted : list Z := [34].
Definition tl_symbol_unquoted : list Z := zrange 0 33 ++ [58].
Definition tl_symbol_unquoted_c : list Z := zrange 0 33 ++ [58] ++ zrange 128 128.     (* char is signed *)
Definition tl_scope : list Z := [46].
Definition tl_constant_quoted : list Z := [32; 34].
Definition tl_constant_unquoted : list Z := zrange 0 33 ++ [44; 93; 125].
Definition tl_constant_quoted_c : list Z := [32; 34; 92].
Definition tl_constant_unquoted_c : list Z := zrange 0 33 ++ [44; 93; 125] ++ zrange 128 128.
