(* C10: abstract syntax of the decision code that src/compiler/codegen_c_json_parser.c (gen_trie,
   gen_prefix_trie) emits into <schema>_json_parser.h for one table / struct / enum / scope dictionary.
   One constructor per emitted C statement shape; translators/trie_h_to_coq.py produces these terms
   from the generated header text without interpreting them.  No proofs in this file. *)
From Flatcc.Common Require Export Wrap.
Local Open Scope Z_scope.

Inductive trie : Type :=
| TUnmatched                                   (* buf = flatcc_json_parser_unmatched_symbol(ctx, buf, end);  |  return unmatched; *)
| TGoto (l : Z)                                (* goto pfguard<l>; *)
| TIfLt (c : Z) (t1 t2 : trie)                 (* if (w < 0x<c>) { t1 } else { t2 } *)
| TIfEq (c : Z) (t1 t2 : trie)                 (* if (w == 0x<c>) { t1 } else { t2 } *)
| TIfMask (m tag : Z) (t1 t2 : trie)           (* if ((w & 0x<m>) == 0x<tag>) { t1 } else { t2 } *)
| TMatch (n : nat) (h : Z) (tfail : trie)      (* buf = flatcc_json_parser_match_<kind>(ctx, (mark = buf), end, <n>[, aggregate]);
                                                  if (mark != buf) { handler <h> } else { tfail } *)
| TAdvance (sub : trie)                        (* buf += 8; w = flatcc_json_parser_symbol_part(buf, end); sub *)
| TGuard (l : Z) (tp tr : trie).               (* tp  goto endpfguard<l>;  pfguard<l>: tr  endpfguard<l>: (void)0; *)

(* result of running the decision code on the bytes between buf and end *)
Inductive res : Type :=
| RMatched (h : Z)                 (* handler h entered *)
| RUnmatched                       (* the unmatched action *)
| RJump (l : Z) (s : list Z)       (* control at label pfguard<l> with buf such that [s] remains *)
| ROverrun.                        (* buf += 8 executed with fewer than 8 bytes before end *)

(* observable outcome of a complete dispatch *)
Inductive outcome : Type :=
| Matched (h : Z)
| Unmatched
| Stuck.                           (* jump to a label that is not in scope, or pointer past end: never equal to a spec result *)

(* a declared name (bytes) with the key of the handler it must reach *)
Definition names := list (list Z * Z).
