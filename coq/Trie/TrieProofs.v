(* C10: soundness of the certified checker, exactness of the specification, terminator instances. *)
From Flatcc.Trie Require Import TrieCheck TrieBytes.
From Coq Require Import ZifyBool.
Local Open Scope Z_scope.

(* the only fact about a terminator test the generic argument needs: it accepts only inputs that start with a byte
   that cannot be part of an identifier *)
Definition tm_head (tm : list Z -> bool) : Prop :=
  forall rest, bytes rest -> tm rest = true -> exists b r, rest = b :: r /\ is_ident b = false.

Lemma tm_head_of_in tl tm : forallb (fun b => negb (is_ident b)) tl = true -> tm_head_in tl tm -> tm_head tm.
Proof.
  intros Hn H rest Hb Ht. destruct (H rest Hb Ht) as [b [r [-> Hin]]]. exists b, r. split. reflexivity.
  rewrite forallb_forall in Hn. specialize (Hn b Hin). apply negb_true_iff in Hn. exact Hn.
Qed.

(* ------------------------------------------------------------------ conv preserves the semantics *)
Lemma evalB_jump_bytes tm t : forall s l s', bytes s -> evalB tm t s = RJump l s' -> bytes s'.
Proof.
  induction t; intros s l' s' Hs H; cbn [evalB] in H.
  - discriminate.
  - injection H as _ <-. exact Hs.
  - destruct (lexlt _ _); eauto.
  - destruct (list_eqb _ _); eauto.
  - destruct (tm _). discriminate. eauto.
  - destruct (length s <? 8)%nat. discriminate. eapply IHt; [|exact H]. apply bytes_skipn; auto.
  - destruct (evalB tm t1 s) eqn:E1; try discriminate.
    destruct (l0 =? l) eqn:El.
    + eapply IHt2; [|exact H]. eapply IHt1; eauto.
    + injection H as _ <-. eapply IHt1; eauto.
Qed.

Lemma conv_eval tm t : forall bt s, conv t = Some bt -> bytes s -> eval win tm t s = evalB tm bt s.
Proof.
  induction t; intros bt s Hc Hs; cbn [conv] in Hc.
  - injection Hc as <-. reflexivity.
  - injection Hc as <-. reflexivity.
  - destruct (conv t1) as [b1|]; [|discriminate]. destruct (conv t2) as [b2|]; [|discriminate].
    destruct (in_w64 c) eqn:Ec; [|discriminate]. injection Hc as <-.
    cbn [eval evalB]. rewrite (win_lt s c Hs Ec). rewrite (IHt1 b1 s eq_refl Hs), (IHt2 b2 s eq_refl Hs). reflexivity.
  - destruct (conv t1) as [b1|]; [|discriminate]. destruct (conv t2) as [b2|]; [|discriminate].
    destruct (in_w64 c) eqn:Ec; [|discriminate]. injection Hc as <-.
    cbn [eval evalB]. rewrite (win_eq s c Hs Ec). rewrite (IHt1 b1 s eq_refl Hs), (IHt2 b2 s eq_refl Hs). reflexivity.
  - destruct (conv t1) as [b1|]; [|discriminate]. destruct (conv t2) as [b2|]; [|discriminate].
    destruct (find_mask m) as [n|] eqn:Em; [|discriminate].
    destruct (in_w64 tag && (tag =? bev (firstn n (unbe 8 tag)) * 256 ^ Z.of_nat (8 - n))) eqn:Ec; [|discriminate].
    injection Hc as <-. apply andb_true_iff in Ec. destruct Ec as [Ec1 Ec2]. apply Z.eqb_eq in Ec2.
    cbn [eval evalB]. rewrite (win_mask s m tag n Hs Em Ec1 Ec2).
    rewrite (IHt1 b1 s eq_refl Hs), (IHt2 b2 s eq_refl Hs). reflexivity.
  - destruct (conv t) as [b|]; [|discriminate]. injection Hc as <-.
    cbn [eval evalB]. rewrite (IHt b s eq_refl Hs). reflexivity.
  - destruct (conv t) as [b|]; [|discriminate]. injection Hc as <-.
    cbn [eval evalB]. rewrite (IHt b (skipn 8 s) eq_refl (bytes_skipn 8 s Hs)). reflexivity.
  - destruct (conv t1) as [b1|]; [|discriminate]. destruct (conv t2) as [b2|]; [|discriminate].
    injection Hc as <-. cbn [eval evalB]. rewrite (IHt1 b1 s eq_refl Hs).
    destruct (evalB tm b1 s) eqn:E1; try reflexivity.
    destruct (l0 =? l); [|reflexivity]. apply IHt2. reflexivity. eapply evalB_jump_bytes; eauto.
Qed.

(* ------------------------------------------------------------------ (1) jumps stay in scope and keep buf *)
Lemma scoped_jump tm t : forall ls s l s', scoped ls t = true -> evalB tm t s = RJump l s' ->
  existsb (Z.eqb l) ls = true /\ s' = s.
Proof.
  induction t; intros ls s l' s' Hsc H; cbn [evalB] in H; cbn [scoped] in Hsc.
  - discriminate.
  - injection H as <- <-. auto.
  - apply andb_true_iff in Hsc. destruct Hsc. destruct (lexlt _ _); eauto.
  - apply andb_true_iff in Hsc. destruct Hsc. destruct (list_eqb _ _); eauto.
  - destruct (tm _). discriminate. eauto.
  - destruct (length s <? 8)%nat. discriminate.
    destruct (IHt [] _ _ _ Hsc H) as [Hx _]. discriminate.
  - apply andb_true_iff in Hsc. destruct Hsc as [H1 H2].
    destruct (evalB tm t1 s) eqn:E1; try discriminate.
    destruct (IHt1 _ _ _ _ H1 E1) as [Hin ->].
    destruct (l0 =? l) eqn:El.
    + eauto.
    + injection H as <- <-. split; [|reflexivity]. cbn [existsb] in Hin. rewrite El in Hin. exact Hin.
Qed.

(* ------------------------------------------------------------------ window bytes vs. input bytes *)
Lemma wb_firstn k : forall n s, (n <= k)%nat -> (n <= length s)%nat -> firstn n (wb k s) = firstn n s.
Proof.
  induction k; intros n s Hk Hl.
  - assert (n = 0)%nat by lia. subst. reflexivity.
  - destruct n. reflexivity. destruct s as [|b r]. cbn in Hl. lia.
    cbn [wb firstn]. f_equal. apply IHk. lia. cbn in Hl. lia.
Qed.

Lemma wb_short_zero k : forall s, (length s < k)%nat -> In 0 (wb k s).
Proof.
  induction k; intros s H. lia.
  destruct s as [|b r]; cbn [wb]. left. reflexivity.
  right. apply IHk. cbn in H. lia.
Qed.

Lemma firstn_firstn_le {A} (l : list A) n m : (n <= m)%nat -> firstn n (firstn m l) = firstn n l.
Proof. intros H. rewrite firstn_firstn. rewrite Nat.min_l by lia. reflexivity. Qed.

Lemma is_prefix_app p : forall r, is_prefix p (p ++ r) = true.
Proof. induction p; intros r; cbn [is_prefix app]. reflexivity. rewrite Z.eqb_refl. apply IHp. Qed.

Lemma is_prefix_split p : forall s, is_prefix p s = true -> s = p ++ skipn (length p) s.
Proof.
  induction p as [|a p IH]; intros s H. reflexivity.
  destruct s as [|b s]. discriminate. cbn [is_prefix] in H. apply andb_true_iff in H. destruct H as [H1 H2].
  apply Z.eqb_eq in H1. subst b. cbn [length skipn app]. f_equal. apply IH. exact H2.
Qed.

Lemma skipn_app_exact {A} (p r : list A) : skipn (length p) (p ++ r) = r.
Proof. induction p; cbn [length skipn app]; auto. Qed.

Lemma name_matches_app tm nm r : tm r = true -> name_matches tm nm (nm ++ r) = true.
Proof. intros H. unfold name_matches. rewrite is_prefix_app, skipn_app_exact, H. reflexivity. Qed.

(* ------------------------------------------------------------------ (2) soundness walk *)
Definition inv (done cur s0 s : list Z) : Prop :=
  s0 = done ++ s /\ firstn (length cur) (wb 8 s) = cur /\ (length cur <= 8)%nat.

Lemma tm_head_length tm n s : tm_head tm -> bytes s -> tm (skipn n s) = true -> (n < length s)%nat.
Proof.
  intros Htm Hs H. destruct (Htm _ (bytes_skipn n s Hs) H) as [b [r [Hr _]]].
  destruct (le_lt_dec (length s) n) as [Hle|]; [|assumption].
  rewrite skipn_all2 in Hr by exact Hle. discriminate.
Qed.

Lemma forallb_nonzero_notin cur : forallb (fun b => negb (b =? 0)) cur = true -> ~ In 0 cur.
Proof.
  intros H Hin. rewrite forallb_forall in H. specialize (H 0 Hin). discriminate.
Qed.

Lemma snd_sound tm ns t : tm_head tm -> forall ls done cur s0 s,
  scoped ls t = true -> snd_ok ns done cur t = true -> inv done cur s0 s -> bytes s ->
  match evalB tm t s with
  | RMatched h => exists nm, In (nm, h) ns /\ name_matches tm nm s0 = true
  | ROverrun => False
  | _ => True
  end.
Proof.
  intros Htm.
  induction t; intros ls done cur s0 s Hsc Hok Hinv Hbs; cbn [evalB]; cbn [snd_ok] in Hok; cbn [scoped] in Hsc.
  - exact I.
  - exact I.
  - apply andb_true_iff in Hok. destruct Hok. apply andb_true_iff in Hsc. destruct Hsc.
    destruct (lexlt _ _); [eapply IHt1 | eapply IHt2]; eassumption.
  - apply andb_true_iff in Hok. destruct Hok as [Hok H2]. apply andb_true_iff in Hok. destruct Hok as [Hp H1].
    apply andb_true_iff in Hsc. destruct Hsc.
    destruct (list_eqb _ _) eqn:E.
    + apply list_eqb_eq in E. eapply IHt1; [eassumption|eassumption| |assumption]. destruct Hinv as [Ha _]. split. exact Ha. split. exact E.
      apply Nat.leb_le. exact Hp.
    + eapply IHt2; eassumption.
  - apply andb_true_iff in Hok. destruct Hok as [Hok H3]. apply andb_true_iff in Hok. destruct Hok as [Hn Hex].
    apply Nat.leb_le in Hn.
    destruct (tm (skipn n s)) eqn:Etm.
    + apply existsb_exists in Hex. destruct Hex as [[nm h'] [Hin Hx]]. cbn [fst snd] in Hx.
      apply andb_true_iff in Hx. destruct Hx as [Hnm Hh]. apply list_eqb_eq in Hnm. apply Z.eqb_eq in Hh. subst h'.
      exists nm. split. exact Hin.
      destruct Hinv as [Hs0 [Hcur Hlen]].
      pose proof (tm_head_length tm n s Htm Hbs Etm) as Hlen_s.
      assert (Hfn : firstn n s = firstn n cur).
      { rewrite <- Hcur. rewrite firstn_firstn_le by lia. symmetry. apply wb_firstn; lia. }
      assert (Hs0' : s0 = nm ++ skipn n s).
      { rewrite Hs0, Hnm, <- Hfn, <- app_assoc, firstn_skipn. reflexivity. }
      rewrite Hs0'. apply name_matches_app. exact Etm.
    + eapply IHt; eassumption.
  - apply andb_true_iff in Hok. destruct Hok as [Hok H3]. apply andb_true_iff in Hok. destruct Hok as [Hl Hnz].
    apply Nat.eqb_eq in Hl. apply forallb_nonzero_notin in Hnz.
    destruct Hinv as [Hs0 [Hcur Hlen]]. rewrite Hl in Hcur.
    rewrite (firstn_all_len (wb 8 s) 8 (wb_length 8 s)) in Hcur.
    assert (Hs8 : (8 <= length s)%nat).
    { destruct (le_lt_dec 8 (length s)); auto. exfalso. apply Hnz. rewrite <- Hcur. apply wb_short_zero. assumption. }
    destruct (length s <? 8)%nat eqn:E8. { apply Nat.ltb_lt in E8. lia. }
    eapply IHt; [eassumption|eassumption| |apply bytes_skipn; assumption]. split; [|split].
    + rewrite Hs0, <- app_assoc. f_equal. rewrite <- Hcur.
      rewrite <- (firstn_all_len (wb 8 s) 8 (wb_length 8 s)). rewrite wb_firstn by lia. rewrite firstn_skipn. reflexivity.
    + reflexivity.
    + cbn. lia.
  - apply andb_true_iff in Hok. destruct Hok as [H1 H2]. apply andb_true_iff in Hsc. destruct Hsc as [S1 S2].
    pose proof (IHt1 _ _ _ _ _ S1 H1 Hinv Hbs) as R1.
    destruct (evalB tm t1 s) eqn:E1; try exact R1.
    destruct (scoped_jump tm t1 _ _ _ _ S1 E1) as [_ ->].
    destruct (l0 =? l). eapply IHt2; eassumption. exact I.
Qed.

(* ------------------------------------------------------------------ (3) completeness: the symbolic run is right *)
Lemma lexlt_zeros a : forall c, Forall (fun x => 0 <= x) a -> forallb (fun b => b =? 0) c = true -> lexlt a c = false.
Proof.
  induction a as [|x a IH]; intros [|y c] Ha Hc; try reflexivity.
  cbn [forallb] in Hc. apply andb_true_iff in Hc. destruct Hc as [Hy Hc]. apply Z.eqb_eq in Hy. subst y.
  inversion Ha; subst. cbn [lexlt].
  destruct (x <? 0) eqn:E1. { apply Z.ltb_lt in E1. lia. }
  destruct (x =? 0); [|reflexivity]. apply IH; assumption.
Qed.

Lemma bytes_nonneg l : bytes l -> Forall (fun x => 0 <= x) l.
Proof. unfold bytes. apply Forall_impl. intros; lia. Qed.

Lemma symlt_spec tl c : forall rem tau rest k b, symlt tl rem c = Some b -> length c = k -> In tau tl ->
  bytes (rem ++ tau :: rest) -> lexlt (wb k (rem ++ tau :: rest)) c = b.
Proof.
  induction c as [|y c IH]; intros rem tau rest k b H Hk Hin Hb.
  - cbn in Hk. subst k. cbn in H. injection H as <-. reflexivity.
  - cbn [length] in Hk. destruct k as [|k]; [discriminate|]. injection Hk as Hk.
    cbn [symlt] in H. destruct rem as [|x r].
    + destruct (forallb (fun b0 => b0 =? 0) (y :: c)) eqn:Ez.
      { injection H as <-. apply lexlt_zeros; [|exact Ez]. apply bytes_nonneg. apply wb_bytes. exact Hb. }
      cbn [app wb lexlt].
      destruct (forallb (fun t => t <? y) tl) eqn:E1.
      { injection H as <-. rewrite forallb_forall in E1. rewrite (E1 _ Hin). reflexivity. }
      destruct (forallb (fun t => y <? t) tl) eqn:E2; [|discriminate].
      injection H as <-. rewrite forallb_forall in E2. specialize (E2 _ Hin). apply Z.ltb_lt in E2.
      destruct (tau <? y) eqn:E3. { apply Z.ltb_lt in E3. lia. }
      destruct (tau =? y) eqn:E4. { apply Z.eqb_eq in E4. lia. }
      reflexivity.
    + cbn [app wb lexlt]. cbn [app] in Hb. apply bytes_cons in Hb. destruct Hb as [_ Hb].
      destruct (x <? y). { injection H as <-. reflexivity. }
      destruct (x =? y). { apply IH; assumption. }
      injection H as <-. reflexivity.
Qed.

Lemma ident_neq x y : is_ident x = false -> is_ident y = true -> (x =? y) = false.
Proof. intros Hx Hy. apply Z.eqb_neq. intros ->. rewrite Hx in Hy. discriminate. Qed.

Lemma sympre_spec p : forall rem k b tau rest, sympre rem p = Some b -> (length p <= k)%nat -> is_ident tau = false ->
  list_eqb (firstn (length p) (wb k (rem ++ tau :: rest))) p = b.
Proof.
  induction p as [|y p IH]; intros rem k b tau rest H Hk Ht.
  - cbn in H. injection H as <-. reflexivity.
  - cbn [length] in Hk. destruct k as [|k]; [lia|].
    cbn [sympre] in H. destruct rem as [|x r].
    + destruct (is_ident y) eqn:Ey; [|discriminate]. injection H as <-.
      cbn [app wb length firstn list_eqb]. rewrite (ident_neq tau y Ht Ey). reflexivity.
    + cbn [app wb length firstn list_eqb].
      destruct (x =? y). { cbn [andb]. apply IH; try assumption. lia. }
      injection H as <-. reflexivity.
Qed.

Lemma skipn_nth {A} (d : A) : forall n (l : list A), (n < length l)%nat -> skipn n l = nth n l d :: skipn (S n) l.
Proof.
  induction n; intros [|a l] H; cbn [length] in H; try lia.
  - reflexivity.
  - cbn [skipn nth]. rewrite IHn by lia. reflexivity.
Qed.

Definition concretize (r : sres) (s : list Z) : res :=
  match r with SMatched h => RMatched h | SUnm => RUnmatched | SJump l => RJump l s end.

Lemma sym_complete tl tm : tm_head tm -> forall t rem tau rest r,
  sym tl t rem = Some r -> In tau tl -> is_ident tau = false -> tm (tau :: rest) = true -> bytes (rem ++ tau :: rest) ->
  evalB tm t (rem ++ tau :: rest) = concretize r (rem ++ tau :: rest).
Proof.
  intros Htm. induction t; intros rem tau rest r H Hin Ht Htm1 Hb; cbn [sym] in H; cbn [evalB].
  - injection H as <-. reflexivity.
  - injection H as <-. reflexivity.
  - destruct (Nat.eqb (length c) 8) eqn:El; [|discriminate]. apply Nat.eqb_eq in El.
    destruct (symlt tl rem c) as [[|]|] eqn:E; try discriminate;
      rewrite (symlt_spec tl c rem tau rest 8 _ E El Hin Hb); [apply IHt1 | apply IHt2]; assumption.
  - destruct (length p <=? 8)%nat eqn:El; [|discriminate]. apply Nat.leb_le in El.
    destruct (sympre rem p) as [[|]|] eqn:E; try discriminate;
      rewrite (sympre_spec p rem 8 _ tau rest E El Ht); [apply IHt1 | apply IHt2]; assumption.
  - destruct (n <? length rem)%nat eqn:E1.
    + apply Nat.ltb_lt in E1. destruct (is_ident (nth n rem 0)) eqn:Ei; [|discriminate].
      assert (Hf : tm (skipn n (rem ++ tau :: rest)) = false).
      { destruct (tm (skipn n (rem ++ tau :: rest))) eqn:E; [|reflexivity].
        destruct (Htm _ (bytes_skipn n _ Hb) E) as [b [r' [Hr Hbi]]].
        rewrite skipn_app in Hr. rewrite (skipn_nth 0 n rem E1) in Hr. cbn [app] in Hr.
        injection Hr as Hr _. subst b. rewrite Ei in Hbi. discriminate. }
      rewrite Hf. apply IHt; assumption.
    + destruct (Nat.eqb n (length rem)) eqn:E2; [|discriminate]. apply Nat.eqb_eq in E2. subst n.
      injection H as <-. rewrite skipn_app_exact, Htm1. reflexivity.
  - destruct (8 <=? length rem)%nat eqn:E8; [|discriminate]. apply Nat.leb_le in E8.
    destruct (length (rem ++ tau :: rest) <? 8)%nat eqn:E. { apply Nat.ltb_lt in E. rewrite app_length in E. lia. }
    assert (Hsk : skipn 8 (rem ++ tau :: rest) = skipn 8 rem ++ tau :: rest).
    { rewrite skipn_app. replace (8 - length rem)%nat with 0%nat by lia. reflexivity. }
    rewrite Hsk.
    assert (Hb' : bytes (skipn 8 rem ++ tau :: rest)) by (rewrite <- Hsk; apply bytes_skipn; exact Hb).
    destruct (sym tl t (skipn 8 rem)) as [r1|] eqn:E1; [|discriminate].
    rewrite (IHt _ _ _ _ E1 Hin Ht Htm1 Hb').
    destruct r1; try discriminate; injection H as <-; reflexivity.
  - destruct (sym tl t1 rem) as [r1|] eqn:E1; [|discriminate].
    rewrite (IHt1 _ _ _ _ E1 Hin Ht Htm1 Hb).
    destruct r1 as [h| |l0]; cbn [concretize].
    + injection H as <-. reflexivity.
    + injection H as <-. reflexivity.
    + destruct (l0 =? l). { apply IHt2; assumption. } injection H as <-. reflexivity.
Qed.

(* ------------------------------------------------------------------ the specification, case by case *)
Lemma lookup_cases tm ns s :
  (exists nm h, In (nm, h) ns /\ name_matches tm nm s = true /\ lookup tm ns s = Matched h) \/
  (lookup tm ns s = Unmatched /\ forall nm h, In (nm, h) ns -> name_matches tm nm s = false).
Proof.
  induction ns as [|[nm h] ns IH]; cbn [lookup].
  - right. split. reflexivity. intros ? ? [].
  - destruct (name_matches tm nm s) eqn:E.
    + left. exists nm, h. split. left. reflexivity. auto.
    + destruct IH as [[nm' [h' [Hin [Hm Hl]]]] | [Hl Hall]].
      * left. exists nm', h'. split. right. exact Hin. auto.
      * right. split. exact Hl. intros nm' h' [Heq | Hin]. injection Heq as <- <-. exact E. eapply Hall; eauto.
Qed.

Lemma name_matches_split tm nm s : tm_head tm -> bytes s -> name_matches tm nm s = true ->
  exists tau rest, s = nm ++ tau :: rest /\ is_ident tau = false /\ tm (tau :: rest) = true.
Proof.
  intros Htm Hs H. unfold name_matches in H. apply andb_true_iff in H. destruct H as [Hp Ht].
  destruct (Htm _ (bytes_skipn _ s Hs) Ht) as [b [r [Hr Hb]]]. exists b, r. split.
  - rewrite <- Hr. apply is_prefix_split. exact Hp.
  - split. exact Hb. rewrite <- Hr. exact Ht.
Qed.

(* ------------------------------------------------------------------ the checker is sound *)
Theorem check_sound tl t ns : check tl t ns = true ->
  forall tm, tm_head_in tl tm -> forall s, bytes s -> run win tm t s = lookup tm ns s.
Proof.
  unfold check. intros H tm Hin s Hs. apply andb_true_iff in H. destruct H as [Htl H].
  pose proof (tm_head_of_in tl tm Htl Hin) as Htm.
  destruct (conv t) as [bt|] eqn:Ec; [|discriminate].
  apply andb_true_iff in H. destruct H as [H Hcomp]. apply andb_true_iff in H. destruct H as [Hsc Hsnd].
  unfold run. rewrite (conv_eval tm t bt s Ec Hs).
  destruct (lookup_cases tm ns s) as [[nm [h [Hinn [Hm Hl]]]] | [Hl Hall]]; rewrite Hl.
  - rewrite forallb_forall in Hcomp. specialize (Hcomp _ Hinn). cbn [fst snd] in Hcomp.
    unfold sres_is in Hcomp. destruct (sym tl bt nm) as [[h'| |]|] eqn:Es; try discriminate.
    apply Z.eqb_eq in Hcomp. subst h'.
    destruct (name_matches_split tm nm s Htm Hs Hm) as [tau [rest [-> [Ht Htm1]]]].
    assert (Htau : In tau tl).
    { apply bytes_app in Hs. destruct Hs as [_ Hs]. destruct (Hin _ Hs Htm1) as [b [r [Hr Hb]]]. injection Hr as -> _. exact Hb. }
    rewrite (sym_complete tl tm Htm bt nm tau rest _ Es Htau Ht Htm1 Hs). reflexivity.
  - assert (Hinv : inv [] [] s s). { split. reflexivity. split. reflexivity. cbn. lia. }
    pose proof (snd_sound tm ns bt Htm [] [] [] s s Hsc Hsnd Hinv Hs) as R.
    destruct (evalB tm bt s) eqn:E.
    + destruct R as [nm [Hinn Hm]]. rewrite (Hall _ _ Hinn) in Hm. discriminate.
    + reflexivity.
    + destruct (scoped_jump tm bt _ _ _ _ Hsc E) as [Hx _]. discriminate.
    + contradiction.
Qed.

(* a descend (buf += 8) is only executed with at least 8 bytes before end, on every input *)
Theorem check_no_overrun tl t ns : check tl t ns = true ->
  forall tm, tm_head_in tl tm -> forall s, bytes s -> eval win tm t s <> ROverrun.
Proof.
  intros H tm Htm s Hs E. pose proof (check_sound tl t ns H tm Htm s Hs) as R. unfold run in R. rewrite E in R.
  destruct (lookup_cases tm ns s) as [[nm [h [_ [_ Hl]]]] | [Hl _]]; rewrite Hl in R; discriminate.
Qed.

Theorem check_all_sound tl (l : list (trie * names)) : forallb (fun e => check tl (fst e) (snd e)) l = true ->
  forall t ns, In (t, ns) l -> forall tm, tm_head_in tl tm -> forall s, bytes s -> run win tm t s = lookup tm ns s.
Proof.
  intros H t ns Hin. rewrite forallb_forall in H. specialize (H _ Hin). apply check_sound. exact H.
Qed.

(* ------------------------------------------------------------------ exactness of the specification *)
Lemma forallb_ident_cons a l : forallb is_ident (a :: l) = true -> is_ident a = true /\ forallb is_ident l = true.
Proof. cbn [forallb]. apply andb_true_iff. Qed.

Lemma match_unique tm : tm_head tm -> forall n1 n2 r1 r2,
  forallb is_ident n1 = true -> forallb is_ident n2 = true -> bytes r1 -> bytes r2 ->
  n1 ++ r1 = n2 ++ r2 -> tm r1 = true -> tm r2 = true -> n1 = n2.
Proof.
  intros Htm. induction n1 as [|a n1 IH]; intros [|b n2] r1 r2 H1 H2 B1 B2 He T1 T2.
  - reflexivity.
  - cbn [app] in He. subst r1. destruct (Htm _ B1 T1) as [x [r [Hr Hx]]]. injection Hr as <- _.
    apply forallb_ident_cons in H2. destruct H2 as [H2 _]. rewrite H2 in Hx. discriminate.
  - cbn [app] in He. subst r2. destruct (Htm _ B2 T2) as [x [r [Hr Hx]]]. injection Hr as <- _.
    apply forallb_ident_cons in H1. destruct H1 as [H1 _]. rewrite H1 in Hx. discriminate.
  - cbn [app] in He. injection He as -> He. f_equal.
    apply forallb_ident_cons in H1. apply forallb_ident_cons in H2.
    eapply IH; [tauto|tauto|exact B1|exact B2|exact He|exact T1|exact T2].
Qed.

Lemma names_distinct_fun ns : names_distinct ns = true -> forall nm h1 h2, In (nm, h1) ns -> In (nm, h2) ns -> h1 = h2.
Proof.
  induction ns as [|[nm0 h0] ns IH]; intros Hd nm h1 h2 I1 I2. destruct I1.
  cbn [names_distinct] in Hd. apply andb_true_iff in Hd. destruct Hd as [Hn Hd].
  apply negb_true_iff in Hn.
  assert (Hnot : forall h, ~ In (nm0, h) ns).
  { intros h Hin. assert (existsb (fun e => if list_eq_dec Z.eq_dec nm0 (fst e) then true else false) ns = true).
    { apply existsb_exists. exists (nm0, h). split. exact Hin. cbn [fst]. destruct (list_eq_dec Z.eq_dec nm0 nm0); congruence. }
    congruence. }
  destruct I1 as [E1 | I1]; destruct I2 as [E2 | I2].
  - congruence.
  - injection E1 as <- <-. exfalso. eapply Hnot; eauto.
  - injection E2 as <- <-. exfalso. eapply Hnot; eauto.
  - eapply IH; eauto.
Qed.

Lemma names_ident_in ns nm h : names_ident ns = true -> In (nm, h) ns -> forallb is_ident nm = true.
Proof.
  unfold names_ident. intros H Hin. apply andb_true_iff in H. destruct H as [H _].
  rewrite forallb_forall in H. apply (H (nm, h) Hin).
Qed.

(* with identifier names the name found is THE declared name followed by a terminator: no other declared name matches *)
Theorem lookup_exact tl tm ns : names_ident ns = true -> forallb (fun b => negb (is_ident b)) tl = true ->
  tm_head_in tl tm -> forall s h, bytes s ->
  (lookup tm ns s = Matched h <-> exists nm, In (nm, h) ns /\ name_matches tm nm s = true).
Proof.
  intros Hn Htl Hin s h Hs. pose proof (tm_head_of_in tl tm Htl Hin) as Htm. split.
  - intros Hl. destruct (lookup_cases tm ns s) as [[nm [h' [Hin' [Hm Hl']]]] | [Hl' _]]; rewrite Hl' in Hl.
    + injection Hl as <-. eauto.
    + discriminate.
  - intros [nm [Hinn Hm]].
    destruct (lookup_cases tm ns s) as [[nm' [h' [Hin' [Hm' Hl']]]] | [_ Hall]].
    + rewrite Hl'. f_equal.
      destruct (name_matches_split tm nm s Htm Hs Hm) as [t1 [r1 [E1 [_ T1]]]].
      destruct (name_matches_split tm nm' s Htm Hs Hm') as [t2 [r2 [E2 [_ T2]]]].
      assert (nm' = nm).
      { assert (B1 : bytes (t1 :: r1)) by (rewrite E1 in Hs; apply bytes_app in Hs; tauto).
        assert (B2 : bytes (t2 :: r2)) by (rewrite E2 in Hs; apply bytes_app in Hs; tauto).
        eapply (match_unique tm Htm nm' nm (t2 :: r2) (t1 :: r1)); eauto using names_ident_in. congruence. }
      subst nm'. unfold names_ident in Hn. apply andb_true_iff in Hn. destruct Hn as [_ Hd].
      eapply names_distinct_fun; eauto.
    + rewrite (Hall _ _ Hinn) in Hm. discriminate.
Qed.

Theorem lookup_unmatched tm ns s :
  lookup tm ns s = Unmatched <-> forall nm h, In (nm, h) ns -> name_matches tm nm s = false.
Proof.
  split.
  - intros Hl. destruct (lookup_cases tm ns s) as [[nm [h [_ [_ Hl']]]] | [_ Hall]]. congruence. exact Hall.
  - intros Hall. destruct (lookup_cases tm ns s) as [[nm [h [Hin [Hm _]]]] | [Hl _]].
    rewrite (Hall _ _ Hin) in Hm. discriminate. exact Hl.
Qed.

(* ------------------------------------------------------------------ the runtime's terminator tests and their byte sets *)
Lemma in_zrange lo n b : lo <= b < lo + Z.of_nat n -> In b (zrange lo n).
Proof.
  intros H. unfold zrange. apply in_map_iff. exists (Z.to_nat (b - lo)). split. lia. apply in_seq. lia.
Qed.

Lemma byte_head b r : bytes (b :: r) -> 0 <= b < 256.
Proof. intros H. apply bytes_cons in H. tauto. Qed.

Lemma tm_symbol_quoted_in : tm_head_in tl_symbol_quoted (tm_symbol false).
Proof.
  intros [|b r] Hb H; cbn [tm_symbol] in H. discriminate. exists b, r. split. reflexivity.
  apply Z.eqb_eq in H. subst. left. reflexivity.
Qed.

Lemma tm_symbol_unquoted_in : tm_head_in tl_symbol_unquoted (tm_symbol true).
Proof.
  intros [|b r] Hb H; cbn [tm_symbol] in H. discriminate. exists b, r. split. reflexivity.
  apply byte_head in Hb. unfold tl_symbol_unquoted. apply in_or_app.
  destruct (b <=? 32) eqn:E.
  - left. apply in_zrange. lia.
  - right. left. lia.
Qed.

Lemma tm_symbol_unquoted_c_in : tm_head_in tl_symbol_unquoted_c (tm_symbol_c true).
Proof.
  intros [|b r] Hb H; cbn [tm_symbol_c] in H. discriminate. exists b, r. split. reflexivity.
  apply byte_head in Hb. unfold tl_symbol_unquoted_c. unfold sx8 in H.
  destruct (b <? 128) eqn:E128.
  - apply in_or_app. destruct (b <=? 32) eqn:E.
    + left. apply in_zrange. lia.
    + right. left. lia.
  - apply in_or_app. right. apply in_or_app. right. apply in_zrange. lia.
Qed.

Lemma tm_scope_in : tm_head_in tl_scope tm_scope.
Proof.
  intros [|b r] Hb H; cbn [tm_scope] in H. discriminate. exists b, r. split. reflexivity.
  apply Z.eqb_eq in H. subst. left. reflexivity.
Qed.

Lemma tm_constant_quoted_in : tm_head_in tl_constant_quoted (tm_constant false).
Proof.
  intros [|b r] Hb H. discriminate. exists b, r. split. reflexivity.
  unfold tm_constant in H. cbn [tm_constant_gen andb] in H. unfold tl_constant_quoted. cbn [In]. lia.
Qed.

Lemma tm_constant_quoted_c_in : tm_head_in tl_constant_quoted_c (tm_constant_c false).
Proof.
  intros [|b r] Hb H. discriminate. exists b, r. split. reflexivity.
  unfold tm_constant_c in H. cbn [tm_constant_gen andb] in H. unfold tl_constant_quoted_c. cbn [In]. lia.
Qed.

Lemma tm_constant_unquoted_in : tm_head_in tl_constant_unquoted (tm_constant true).
Proof.
  intros [|b r] Hb H. discriminate. exists b, r. split. reflexivity.
  apply byte_head in Hb. unfold tl_constant_unquoted.
  assert (Hgoal : b <= 32 \/ b = 44 \/ b = 93 \/ b = 125).
  { unfold tm_constant, tm_constant_gen in H. cbn [space_skip] in H.
    destruct ((b =? 32) || (b =? 9) || (b =? 10) || (b =? 13)) eqn:Esp. { lia. }
    destruct (b <=? 32) eqn:E32. { lia. }
    rewrite Nat.eqb_refl in H. cbn [negb andb] in H. lia. }
  destruct Hgoal as [H1 | [H1 | [H1 | H1]]].
  - apply in_or_app. left. apply in_zrange. lia.
  - apply in_or_app. right. cbn [In]. lia.
  - apply in_or_app. right. cbn [In]. lia.
  - apply in_or_app. right. cbn [In]. lia.
Qed.

Lemma tm_constant_unquoted_c_in : tm_head_in tl_constant_unquoted_c (tm_constant_c true).
Proof.
  intros [|b r] Hb H. discriminate. exists b, r. split. reflexivity.
  apply byte_head in Hb. unfold tl_constant_unquoted_c.
  assert (Hgoal : b <= 32 \/ b = 44 \/ b = 93 \/ b = 125 \/ 128 <= b).
  { unfold tm_constant_c, tm_constant_gen in H. cbn [space_skip] in H.
    destruct ((b =? 32) || (b =? 9) || (b =? 10) || (b =? 13)) eqn:Esp. { lia. }
    unfold sx8 in H. destruct (b <? 128) eqn:E128.
    + destruct (b <=? 32) eqn:E32. { lia. }
      rewrite Nat.eqb_refl in H. cbn [negb andb] in H. lia.
    + lia. }
  destruct Hgoal as [H1 | [H1 | [H1 | [H1 | H1]]]].
  - apply in_or_app. left. apply in_zrange. lia.
  - apply in_or_app. right. apply in_or_app. left. cbn [In]. lia.
  - apply in_or_app. right. apply in_or_app. left. cbn [In]. lia.
  - apply in_or_app. right. apply in_or_app. left. cbn [In]. lia.
  - apply in_or_app. right. apply in_or_app. right. apply in_zrange. lia.
Qed.

(* ------------------------------------------------------------------ the sign-extending window of the pinned code *)
(* table with the single field "a"; unquoted input  a:"\xc3\xa9"}  (7 bytes before end) *)
Definition t_a : trie := TIfMask 18374686479671623680 6989586621679009792 (TMatch 1 0 TUnmatched) TUnmatched.
Definition ns_a : names := [([97], 0)].
Definition s_a : list Z := [97; 58; 34; 195; 169; 34; 125].

Lemma sign_extended_window_misdispatches :
  check tl_symbol_unquoted t_a ns_a = true /\ bytes s_a /\
  lookup (tm_symbol true) ns_a s_a = Matched 0 /\
  run win (tm_symbol true) t_a s_a = Matched 0 /\
  run win_c (tm_symbol true) t_a s_a = Unmatched.
Proof.
  split. vm_compute; reflexivity. split.
  - unfold bytes, s_a. repeat (constructor; [lia|]). constructor.
  - vm_compute. auto.
Qed.
