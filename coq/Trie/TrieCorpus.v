(* C10: the certified checker run, inside the kernel, on every trie the current flatcc generates for gen/c10_schemas
   (coq/Generated/Tries_C10.v is rewritten by checks/c10.py from fresh flatcc output on every run, so a change of the
   code generator that alters a trie re-opens these computations). *)
From Flatcc.Trie Require Import TrieCheck TrieBytes TrieProofs.
From Flatcc.Generated Require Import Tries_C10.
Local Open Scope Z_scope.

Notation all_checked tl l := (forallb (fun e => check tl (fst e) (snd e)) l).

Lemma fields_checked_quoted : all_checked tl_symbol_quoted tries_fields = true.
Proof. vm_cast_no_check (eq_refl true). Qed.
Lemma fields_checked_unquoted : all_checked tl_symbol_unquoted tries_fields = true.
Proof. vm_cast_no_check (eq_refl true). Qed.
Lemma enums_checked_quoted : all_checked tl_constant_quoted tries_enums = true.
Proof. vm_cast_no_check (eq_refl true). Qed.
Lemma enums_checked_unquoted : all_checked tl_constant_unquoted tries_enums = true.
Proof. vm_cast_no_check (eq_refl true). Qed.
Lemma scopes_checked : all_checked tl_scope (tries_scopes_local ++ tries_scopes_global) = true.
Proof. vm_cast_no_check (eq_refl true). Qed.
Lemma corpus_names_ident :
  forallb (fun e => names_ident (snd e)) (tries_fields ++ tries_enums ++ tries_scopes_local) = true.
Proof. vm_cast_no_check (eq_refl true). Qed.
Lemma corpus_nonempty : (length tries_fields >= 8 /\ length tries_enums >= 8 /\ length tries_scopes_local >= 4)%nat.
Proof. vm_compute. lia. Qed.

Lemma corpus_fields : forall t ns, In (t, ns) tries_fields -> forall unquoted s, bytes s ->
  run win (tm_symbol unquoted) t s = lookup (tm_symbol unquoted) ns s.
Proof.
  intros t ns Hin [|] s Hs.
  - exact (check_all_sound _ _ fields_checked_unquoted t ns Hin _ tm_symbol_unquoted_in s Hs).
  - exact (check_all_sound _ _ fields_checked_quoted t ns Hin _ tm_symbol_quoted_in s Hs).
Qed.

Lemma corpus_enums : forall t ns, In (t, ns) tries_enums -> forall unquoted s, bytes s ->
  run win (tm_constant unquoted) t s = lookup (tm_constant unquoted) ns s.
Proof.
  intros t ns Hin [|] s Hs.
  - exact (check_all_sound _ _ enums_checked_unquoted t ns Hin _ tm_constant_unquoted_in s Hs).
  - exact (check_all_sound _ _ enums_checked_quoted t ns Hin _ tm_constant_quoted_in s Hs).
Qed.

Lemma corpus_scopes : forall t ns, In (t, ns) (tries_scopes_local ++ tries_scopes_global) -> forall s, bytes s ->
  run win tm_scope t s = lookup tm_scope ns s.
Proof.
  intros t ns Hin s Hs. exact (check_all_sound _ _ scopes_checked t ns Hin _ tm_scope_in s Hs).
Qed.

Lemma terminators_classified :
  tm_head_in tl_symbol_quoted (tm_symbol false) /\ tm_head_in tl_symbol_unquoted (tm_symbol true) /\
  tm_head_in tl_symbol_unquoted_c (tm_symbol_c true) /\ tm_head_in tl_scope tm_scope /\
  tm_head_in tl_constant_quoted (tm_constant false) /\ tm_head_in tl_constant_unquoted (tm_constant true) /\
  tm_head_in tl_constant_quoted_c (tm_constant_c false) /\ tm_head_in tl_constant_unquoted_c (tm_constant_c true).
Proof.
  repeat split; [apply tm_symbol_quoted_in | apply tm_symbol_unquoted_in | apply tm_symbol_unquoted_c_in | apply tm_scope_in
                | apply tm_constant_quoted_in | apply tm_constant_unquoted_in
                | apply tm_constant_quoted_c_in | apply tm_constant_unquoted_c_in].
Qed.
