(* C10: semantics of the emitted decision code on an arbitrary input (the bytes from `buf` to `end`).
   Transcribes include/flatcc/flatcc_json_parser.h: flatcc_json_parser_symbol_part(_ext) (the window),
   flatcc_json_parser_match_symbol / match_scope and src/runtime/json_parser.c flatcc_json_parser_match_constant
   (the terminator tests performed after a tentative match).  No proofs in this file. *)
From Flatcc.Trie Require Export TrieAst.
Local Open Scope Z_scope.

(* ---- the 8-byte big-endian, zero-padded window: w |= ((uint64_t)buf[i]) << ((7 - i) * 8) for i < min(8, end - buf),
        with every byte read as a value 0..255 (what be64toh of an unaligned load yields, and what _ext yields for
        bytes below 0x80) *)
Fixpoint be (k : nat) (s : list Z) : Z :=
  match k with
  | O => 0
  | S k' => match s with
            | [] => 0
            | b :: r => b * 256 ^ Z.of_nat k' + be k' r
            end
  end.
Definition win (s : list Z) : Z := be 8 s.

(* the window as the pinned code computes it on a platform where `char` is signed:
   end - buf >= 8: be64toh of the 8 bytes at buf; otherwise _ext ORs in (uint64_t)buf[i] << ..., and the conversion of a
   negative char sign-extends.  (On a platform without unaligned access the _ext path is taken for every window.) *)
Definition sx8 (b : Z) : Z := if b <? 128 then b else b - 256.
Fixpoint ext_c (k : nat) (s : list Z) : Z :=
  match k, s with
  | S k', b :: r => Z.lor (u64 (sx8 b * 256 ^ Z.of_nat k')) (ext_c k' r)
  | _, _ => 0
  end.
Definition win_c (s : list Z) : Z := if (8 <=? length s)%nat then be 8 s else ext_c 8 s.

Section Eval.
  Variable wf : list Z -> Z.        (* window function: [win] *)
  Variable tm : list Z -> bool.     (* terminator test on the input that follows a tentatively matched name *)

  Fixpoint eval (t : trie) (s : list Z) : res :=
    match t with
    | TUnmatched => RUnmatched
    | TGoto l => RJump l s
    | TIfLt c t1 t2 => if wf s <? c then eval t1 s else eval t2 s
    | TIfEq c t1 t2 => if wf s =? c then eval t1 s else eval t2 s
    | TIfMask m tag t1 t2 => if Z.land (wf s) m =? tag then eval t1 s else eval t2 s
    | TMatch n h tf => if tm (skipn n s) then RMatched h else eval tf s
    | TAdvance sub => if (length s <? 8)%nat then ROverrun else eval sub (skipn 8 s)
    | TGuard l tp tr =>
        match eval tp s with
        | RJump l' s' => if l' =? l then eval tr s' else RJump l' s'
        | r => r
        end
    end.

  Definition run (t : trie) (s : list Z) : outcome :=
    match eval t s with
    | RMatched h => Matched h
    | RUnmatched => Unmatched
    | _ => Stuck
    end.
End Eval.

(* ---- terminator tests.  Each takes the input that starts `pos` bytes after buf ([] when end - buf <= pos). *)

(* flatcc_json_parser_match_symbol: quoted: buf[pos] == 0x22 (double quote);  unquoted: !(buf[pos] > 0x20 && buf[pos] != ':') *)
Definition tm_symbol (unquoted : bool) (rest : list Z) : bool :=
  match rest with
  | [] => false
  | b :: _ => if unquoted then (b <=? 32) || (b =? 58) else b =? 34
  end.
(* the same test as compiled where `char` is signed: bytes 0x80..0xff compare as negative *)
Definition tm_symbol_c (unquoted : bool) (rest : list Z) : bool :=
  match rest with
  | [] => false
  | b :: _ => if unquoted then (sx8 b <=? 32) || (b =? 58) else b =? 34
  end.

(* flatcc_json_parser_match_scope: buf[pos] == '.' *)
Definition tm_scope (rest : list Z) : bool :=
  match rest with
  | [] => false
  | b :: _ => b =? 46
  end.

(* flatcc_json_parser_space(_ext) as used by match_constant: skips blanks, tabs, CR, LF; any other byte <= 0x20 raises
   unexpected_character and returns `end` (modelled as []).  The word-at-a-time fast paths of _ext compute the same
   function.  [sgn] selects the comparison as compiled with a signed char (bytes >= 0x80 compare below 0x20). *)
Fixpoint space_skip (sgn : bool) (s : list Z) : list Z :=
  match s with
  | [] => []
  | b :: r => if (b =? 32) || (b =? 9) || (b =? 10) || (b =? 13) then space_skip sgn r
              else if (if sgn then sx8 b else b) <=? 32 then [] else s
  end.
Definition ident_start (c : Z) : bool :=
  (c =? 95) || (128 <=? c) || ((97 <=? Z.lor c 32) && (Z.lor c 32 <=? 122)).

(* flatcc_json_parser_match_constant: "matched" is `buf != mark` on return.
   [tm_constant]: the test on the paths that can lead to an accepted value.  [tm_constant_c]: additionally the paths of the
   pinned code on which it returns `end` after raising an error (a backslash after a quoted symbol: invalid_escape; with a
   signed char, a byte >= 0x80 after an unquoted symbol: unexpected_character) - `end` differs from mark, so the handler
   is entered, but the input is rejected whichever way the trie dispatches it. *)
Definition tm_constant_gen (sgn : bool) (unquoted : bool) (rest : list Z) : bool :=
  match rest with
  | [] => false
  | b :: r =>
      if unquoted then
        match space_skip sgn rest with
        | [] => true
        | c :: _ =>
            (* buf != k (space was seen) and an identifier start follows: more = 1 *)
            if negb (Nat.eqb (length (space_skip sgn rest)) (length rest)) && ident_start c then true
            else (c =? 44) || (c =? 125) || (c =? 93)
        end
      else (b =? 32) || (b =? 34) || (sgn && (b =? 92))
  end.
Definition tm_constant := tm_constant_gen false.
Definition tm_constant_c := tm_constant_gen true.
