(* C10: the exact-dispatch specification.  [lookup tm names s] is the handler of the declared name that is a prefix of
   the input [s] and is followed by a terminator, and Unmatched when there is none.  No proofs in this file. *)
From Flatcc.Trie Require Export TrieAst.
Local Open Scope Z_scope.

Fixpoint is_prefix (p s : list Z) : bool :=
  match p, s with
  | [], _ => true
  | a :: p', b :: s' => (a =? b) && is_prefix p' s'
  | _ :: _, [] => false
  end.

Definition name_matches (tm : list Z -> bool) (nm s : list Z) : bool :=
  is_prefix nm s && tm (skipn (length nm) s).

Fixpoint lookup (tm : list Z -> bool) (ns : names) (s : list Z) : outcome :=
  match ns with
  | [] => Unmatched
  | (nm, h) :: r => if name_matches tm nm s then Matched h else lookup tm r s
  end.

(* schema identifier bytes: [A-Za-z0-9_] *)
Definition is_ident (b : Z) : bool :=
  ((48 <=? b) && (b <=? 57)) || ((65 <=? b) && (b <=? 90)) || (b =? 95) || ((97 <=? b) && (b <=? 122)).

Definition bytes (s : list Z) : Prop := Forall (fun b => 0 <= b < 256) s.

(* what every terminator test of the runtime guarantees: it inspects at least one byte, and that byte is one of a fixed
   set [tl] of terminator bytes (none of which can be part of an identifier) *)
Definition tm_head_in (tl : list Z) (tm : list Z -> bool) : Prop :=
  forall rest, bytes rest -> tm rest = true -> exists b r, rest = b :: r /\ In b tl.

(* all names are identifiers and pairwise different (every dictionary except the global scope one, whose names contain
   dots between namespace components) *)
Fixpoint names_distinct (ns : names) : bool :=
  match ns with
  | [] => true
  | (nm, _) :: r => negb (existsb (fun e => if list_eq_dec Z.eq_dec nm (fst e) then true else false) r) && names_distinct r
  end.
Definition names_ident (ns : names) : bool :=
  forallb (fun e => forallb is_ident (fst e)) ns && names_distinct ns.
