(* C01 leaves (T5): check_header, verify_struct, read_vt_entry, get_offset_field, verify_string, as TRANSLATED from the current src/runtime/verifier.c by translators/cleaf_to_coq.py
   (Flatcc.Generated.Leaf_verifier), equal the hand-written model functions of VerifierModel.v for all arguments in the
   ranges of the C parameter types, under the reading conventions of LeafConv.v.  Proofs: unfold, then the generic
   tactic [leaf_auto] of LeafTac.v (no step names a particular check, so a semantics-preserving rewrite of a leaf
   re-proves; a changed comparison, a dropped check, a different width of an intermediate does not).
   verify_field is in LeafEquivField.v, verify_vector in LeafEquivVector.v (separate files so that make runs them in parallel). *)
From Flatcc.Verifier Require Import VerifierModel LeafTac LeafConv.
From Flatcc.Generated Require Import Leaf_verifier.
From Coq Require Import ZifyBool.
Local Open Scope Z_scope.
Ltac Zify.zify_post_hook ::= Z.div_mod_to_equations.

Lemma c_check_header_eq e base offset : in_u32 e -> in_u32 base -> in_u32 offset ->
  c_check_header e base offset = Z.b2z (check_header e base offset).
Proof.
  unfold in_u32. intros He Hb Ho. unfold c_check_header, check_header, u64, u32.
  leaf_auto.
Qed.

Lemma c_verify_struct_eq e base offset size align : in_u32 e -> in_u32 base -> in_u32 offset -> in_u32 size -> pow2_16 align ->
  vres_of (Some (c_verify_struct e base offset size align)) = verify_struct e base offset size align.
Proof.
  unfold in_u32. intros He Hb Ho Hs Ha. unfold c_verify_struct, verify_struct, u64, u32.
  leaf_auto.
Qed.

Lemma c_read_vt_entry_eq b addr d id : id_ok id -> td_inv d ->
  c_read_vt_entry (td_of b addr d) id = read_vt_entry b d id.
Proof.
  intros Hi Hd.
  unfold c_read_vt_entry, read_vt_entry, td_of, ptr_of, r16, s32, u64, u32, u16.
  cbn [td_vsize td_vtable p_rd16].
  leaf_auto.
Qed.

Lemma c_get_offset_field_eq b addr d id required out0 :
  id_ok id -> in_s32 required -> td_inv d -> wf_buf b ->
  match c_get_offset_field (td_of b addr d) id required out0 with
  | None => fst (get_offset_field b d id (negb (required =? 0))) = VOob
  | Some (r, o) =>
      vres_of (Some r) = fst (get_offset_field b d id (negb (required =? 0))) /\
      (r = 0 -> o = snd (get_offset_field b d id (negb (required =? 0))))
  end.
Proof.
  unfold in_s32. intros Hi Hr Hd Hwf.
  unfold c_get_offset_field, get_offset_field, c_read_vt_entry, read_vt_entry, td_of, ptr_of, r16, s32, u64, u32, u16.
  cbn [td_vsize td_vtable td_buf td_table td_tsize p_rd16 p_addr].
  leaf_auto.
Qed.

Lemma c_verify_string_eq b addr o e base offset :
  in_u32 e -> in_u32 base -> in_u32 offset -> wf_buf b ->
  vres_of (c_verify_string (ptr_of b addr o) e base offset) = verify_string b o e base offset.
Proof.
  intros He Hb Ho Hwf.
  unfold c_verify_string, verify_string, c_check_header, check_header, ptr_of, r32, r8, s32, u64, u32.
  cbn [p_rd32 p_rd8].
  leaf_auto.
Qed.

Lemma leaf_example :
  pow2_16 8 /\ wf_buf (of_list [4; 0; 0; 0; 3; 0; 0; 0; 97; 98; 99; 0]) /\
  td_inv {| t_o := 0; t_end := 20; t_ttl := 99; t_vtable := 0; t_table := 8; t_tsize := 12; t_vsize := 8 |} /\ id_ok 3 /\
  c_check_header 12 0 4 = 1 /\ c_check_header 7 0 4 = 0 /\
  c_verify_string (ptr_of (of_list [4; 0; 0; 0; 3; 0; 0; 0; 97; 98; 99; 0]) 0 0) 12 0 4 = Some 0 /\
  c_verify_string (ptr_of (of_list [4; 0; 0; 0; 4; 0; 0; 0; 97; 98; 99; 0]) 0 0) 12 0 4 = Some E_string_out_of_range.
Proof.
  split; [unfold pow2_16; cbn [In]; tauto|].
  split; [apply of_list_wf|].
  split; [reflexivity|]. split; [reflexivity|].
  repeat split; vm_compute; reflexivity.
Qed.
