(* C01 leaves (T5): every loop-free leaf of src/runtime/verifier.c, as TRANSLATED from the current source by
   translators/cleaf_to_coq.py (Flatcc.Generated.Leaf_verifier), equals the hand-written model function of
   VerifierModel.v for all arguments in the ranges of the C parameter types, under the reading conventions of
   LeafConv.v.  The proofs are one generic tactic ([leaf_auto]): wrap removal by lia, mask -> mod for closed masks
   (and for align - 1 with [pow2_16 align]; any other mask by the 16 cases of align), then case analysis that follows
   the head of both sides (outermost condition / read first), pruning contradictory branches with lia.  Nothing in the
   proofs names a particular check, so a semantics-preserving rewrite of a leaf re-proves; a changed comparison, a
   dropped check, a different width of an intermediate does not. *)
From Flatcc.Verifier Require Import VerifierModel LeafConv.
From Flatcc.Generated Require Import Leaf_verifier.
From Coq Require Import ZifyBool.
Local Open Scope Z_scope.
Ltac Zify.zify_post_hook ::= Z.div_mod_to_equations.

Lemma land_lit x m : (0 <=? m) && (m + 1 =? 2 ^ Z.log2 (m + 1)) = true -> Z.land x m = x mod (m + 1).
Proof.
  intros H. apply andb_true_iff in H. destruct H as [H0 H1]. apply Z.leb_le in H0. apply Z.eqb_eq in H1.
  rewrite H1. rewrite <- Z.land_ones by apply Z.log2_nonneg. f_equal. rewrite Z.ones_equiv. lia.
Qed.

Ltac has_var t := match t with context [?v] => is_var v end.
Ltac no_var t := tryif has_var t then fail else idtac.

Ltac land_step :=
  match goal with
  | |- context [Z.land ?x ?m] =>
      no_var m;
      rewrite (land_lit x m) by (vm_compute; reflexivity);
      let v := eval vm_compute in (m + 1) in change (m + 1) with v
  | H : context [Z.land ?x ?m] |- _ =>
      no_var m;
      rewrite (land_lit x m) in H by (vm_compute; reflexivity);
      let v := eval vm_compute in (m + 1) in change (m + 1) with v in H
  end.

Ltac inner_cond c :=
  match c with
  | context [if ?c2 then _ else _] =>
      lazymatch c2 with context [if _ then _ else _] => fail | _ => constr:(c2) end
  | _ => constr:(c)
  end.

(* the term whose value blocks the reduction of t at its head *)
Ltac blocker t :=
  lazymatch t with
  | vres_of ?x => blocker x
  | fst ?x => blocker x
  | snd ?x => blocker x
  | Some ?x => blocker x
  | (?a, ?b) => match a with _ => blocker a | _ => blocker b end
  | ?a = ?b => match a with _ => blocker a | _ => blocker b end
  | ?a /\ ?b => match a with _ => blocker a | _ => blocker b end
  | _ -> ?b => blocker b
  | match ?x with _ => _ end =>
      lazymatch x with
      | match _ with _ => _ end => blocker x
      | _ => lazymatch type of x with bool => inner_cond x | _ => constr:(x) end
      end
  end.

Ltac unify_reads rd b X :=
  repeat match goal with
  | |- context [rd b ?Y] => lazymatch Y with X => fail | _ => idtac end; replace Y with X by lia
  end.

Ltac destruct_blocker x :=
  lazymatch type of x with
  | bool => destruct x eqn:?
  | _ =>
    let v := fresh "v" in let E := fresh "E" in
    lazymatch x with
    | rd32 ?b ?X => unify_reads rd32 b X; destruct (rd32 b X) as [v|] eqn:E;
        [ try match goal with Hwf : wf_buf b |- _ => pose proof (rd32_range b X v Hwf E) end | ]
    | rd16 ?b ?X => unify_reads rd16 b X; destruct (rd16 b X) as [v|] eqn:E;
        [ try match goal with Hwf : wf_buf b |- _ => pose proof (rd16_range b X v Hwf E) end | ]
    | rd8 ?b ?X => unify_reads rd8 b X; destruct (rd8 b X) as [v|] eqn:E;
        [ try match goal with Hwf : wf_buf b |- _ => pose proof (rd8_range b X v Hwf E) end | ]
    end
  end.

Ltac step_side t :=
  let x := blocker t in
  tryif has_var x then (destruct_blocker x; try (exfalso; lia))
  else (let v := eval vm_compute in x in change x with v).

Ltac step := match goal with |- ?G => step_side G end.

Ltac unfold_Z_consts :=
  repeat match goal with
  | |- context [?c] => is_const c; lazymatch type of c with Z => idtac end;
        let v := eval cbv delta [c] in c in
        lazymatch v with Z0 => idtac | Zpos _ => idtac | Zneg _ => idtac end; change c with v
  end.

Ltac finish_pre := repeat match goal with |- _ /\ _ => split | |- _ -> _ => intro end.

Ltac finish0 :=
  finish_pre;
  first [ reflexivity | lazymatch goal with |- @eq Z _ _ => lia end | exfalso; lia ].

Ltac finish :=
  finish_pre;
  first [ reflexivity
        | lazymatch goal with |- @eq Z _ _ => lia end
        | match goal with H : pow2_16 ?a |- _ =>
            unfold pow2_16 in H; cbn [In] in H;
            repeat (destruct H as [H|H]; [subst a; repeat land_step; finish0 |]); contradiction
          end
        | exfalso; lia ].

Lemma pow2_16_bound a : pow2_16 a -> 1 <= a <= 32768.
Proof. unfold pow2_16. cbn [In]. intros H. repeat (destruct H as [H|H]; [subst a; lia|]). contradiction. Qed.

Lemma land_pow2 x a : pow2_16 a -> Z.land x (a - 1) = x mod a.
Proof.
  unfold pow2_16. cbn [In]. intros H.
  repeat (destruct H as [H|H]; [subst a; rewrite land_lit by (vm_compute; reflexivity); reflexivity|]). contradiction.
Qed.

(* wrap removal: x mod M -> x where lia shows 0 <= x < M (innermost first); the wraps that stay are
   parked as [kmod] (with their bounds) so that they are tried once only, and restored at the end *)
Definition kmod := Z.modulo.
Lemma kmod_bound x M : 0 < M -> 0 <= kmod x M < M.
Proof. intros. apply Z.mod_pos_bound. assumption. Qed.

Ltac is_Zlit m := lazymatch m with Zpos ?p => no_var p end.

Ltac unwrap_step :=
  match goal with
  | |- context [?x mod ?M] =>
      is_Zlit M;
      lazymatch x with context [_ mod _] => fail | _ => idtac end;
      first [ rewrite (Z.mod_small x M) by lia
            | change (x mod M) with (kmod x M);
              lazymatch goal with
              | _ : 0 <= kmod x M < M |- _ => idtac
              | _ => pose proof (kmod_bound x M eq_refl)
              end ]
  end.

Ltac unwrap := repeat unwrap_step; unfold kmod in *.

Ltac leaf_auto :=
  repeat match goal with H : _ /\ _ |- _ => destruct H end;
  unfold in_u8, in_u16, in_u32, in_u64 in *;
  try match goal with H : pow2_16 ?a |- _ => pose proof (pow2_16_bound a H) end;
  unfold_Z_consts; cbv beta iota zeta; unwrap;
  repeat match goal with H : pow2_16 ?a |- context [Z.land ?x (?a - 1)] => rewrite (land_pow2 x a H) end;
  unwrap;
  repeat first [ progress cbv beta iota zeta | progress cbn [fst snd] | land_step | step ];
  finish.



Lemma c_check_header_eq e base offset : in_u32 e -> in_u32 base -> in_u32 offset ->
  c_check_header e base offset = Z.b2z (check_header e base offset).
Proof.
  unfold in_u32. intros He Hb Ho. unfold c_check_header, check_header, u64, u32.
  leaf_auto.
Qed.

Lemma c_verify_struct_eq e base offset size align : in_u32 e -> in_u32 base -> in_u32 offset -> in_u32 size -> pow2_16 align ->
  vres_of (Some (c_verify_struct e base offset size align)) = verify_struct e base offset size align.
Proof.
  unfold in_u32. intros He Hb Ho Hs Ha. unfold c_verify_struct, verify_struct, u64, u32.
  leaf_auto.
Qed.

Lemma c_read_vt_entry_eq b addr d id : in_u16 id -> td_range d ->
  c_read_vt_entry (td_of b addr d) id = read_vt_entry b d id.
Proof.
  unfold in_u16, td_range, in_u32. intros Hi Hd.
  unfold c_read_vt_entry, read_vt_entry, td_of, ptr_of, r16, s32, u64, u32, u16.
  cbn [td_vsize td_vtable p_rd16].
  leaf_auto.
Qed.

Lemma c_verify_field_eq b addr d id required size align :
  in_u16 id -> in_s32 required -> in_u32 size -> pow2_16 align -> td_range d -> wf_buf b ->
  vres_of (c_verify_field (td_of b addr d) id required size align) = verify_field b addr d id (negb (required =? 0)) size align.
Proof.
  unfold td_range, in_s32. intros Hi Hr Hs Ha Hd Hwf.
  unfold c_verify_field, verify_field, c_read_vt_entry, read_vt_entry, td_of, ptr_of, r16, s32, u64, u32, u16.
  cbn [td_vsize td_vtable td_buf td_table td_tsize p_rd16 p_addr].
  leaf_auto.
Qed.

Lemma c_get_offset_field_eq b addr d id required out0 :
  in_u16 id -> in_s32 required -> td_range d -> wf_buf b ->
  match c_get_offset_field (td_of b addr d) id required out0 with
  | None => fst (get_offset_field b d id (negb (required =? 0))) = VOob
  | Some (r, o) =>
      vres_of (Some r) = fst (get_offset_field b d id (negb (required =? 0))) /\
      (r = 0 -> o = snd (get_offset_field b d id (negb (required =? 0))))
  end.
Proof.
  unfold td_range, in_s32. intros Hi Hr Hd Hwf.
  unfold c_get_offset_field, get_offset_field, c_read_vt_entry, read_vt_entry, td_of, ptr_of, r16, s32, u64, u32, u16.
  cbn [td_vsize td_vtable td_buf td_table td_tsize p_rd16 p_addr].
  leaf_auto.
Qed.

Lemma c_verify_string_eq b addr o e base offset :
  in_u32 e -> in_u32 base -> in_u32 offset -> wf_buf b ->
  vres_of (c_verify_string (ptr_of b addr o) e base offset) = verify_string b o e base offset.
Proof.
  intros He Hb Ho Hwf.
  unfold c_verify_string, verify_string, c_check_header, check_header, ptr_of, r32, r8, s32, u64, u32.
  cbn [p_rd32 p_rd8].
  leaf_auto.
Qed.

Lemma c_verify_vector_eq b addr o e base offset esize align maxcount :
  in_u32 e -> in_u32 base -> in_u32 offset -> in_u32 esize -> in_u32 maxcount -> pow2_16 align -> wf_buf b ->
  vres_of (c_verify_vector (ptr_of b addr o) e base offset esize align maxcount) = verify_vector b o e base offset esize align maxcount.
Proof.
  intros He Hb Ho Hes Hm Ha Hwf.
  unfold c_verify_vector, verify_vector, c_check_header, check_header, ptr_of, r32, r8, s32, u64, u32, u16.
  cbn [p_rd32 p_rd8].
  leaf_auto.
Qed.

Lemma leaf_example :
  pow2_16 8 /\ wf_buf (of_list [4; 0; 0; 0; 3; 0; 0; 0; 97; 98; 99; 0]) /\
  td_range {| t_o := 0; t_end := 20; t_ttl := 99; t_vtable := 0; t_table := 8; t_tsize := 12; t_vsize := 8 |} /\
  c_check_header 12 0 4 = 1 /\ c_check_header 7 0 4 = 0 /\
  c_verify_string (ptr_of (of_list [4; 0; 0; 0; 3; 0; 0; 0; 97; 98; 99; 0]) 0 0) 12 0 4 = Some 0 /\
  c_verify_string (ptr_of (of_list [4; 0; 0; 0; 4; 0; 0; 0; 97; 98; 99; 0]) 0 0) 12 0 4 = Some E_string_out_of_range.
Proof.
  split; [unfold pow2_16; cbn [In]; tauto|].
  split; [apply of_list_wf|].
  split; [unfold td_range, in_u32, in_u16; cbn; lia|].
  repeat split; vm_compute; reflexivity.
Qed.
