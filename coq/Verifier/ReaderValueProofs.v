(* C03: the value tree assembled through the generated reader's accessors (ReaderValue.v) is the value the independent
   format decoder Format/Spec.v returns, whenever that decoder accepts the buffer.
   Structure: one lemma per decoder function, "decoder = Some v (in memory m seen from origin o) implies the accessor
   chain = Some v (in any memory m' that contains m, at the absolute pointer o' + offset)"; induction on the depth
   bound.  Containment ([SpecProofs.mle]) is what makes the nested-buffer case go through: the decoder works in the
   memory restricted to the nested vector, the reader in the whole buffer. *)
From Flatcc.Format Require Import Schema Spec SpecProofs.
From Flatcc.Verifier Require Import ReaderValue.
From Coq Require Import ZifyBool.
Local Open Scope Z_scope.
Ltac Zify.zify_post_hook ::= Z.div_mod_to_equations.

(* the recursive table decoder and the recursive table reader agree *)
Definition rrel (r : tdec) (rt : mem -> nat -> Z -> option value) : Prop :=
  forall m o m' o' ds t p a v, mle m o m' o' -> a = o' + p -> r m o ds t p = Some v -> rt m' t a = Some v.

Lemma ids_ok_fields Sc t flds : ids_ok Sc = true -> table_fields Sc t = Some flds -> forallb id_ok flds = true.
Proof.
  unfold ids_ok, table_fields. intros Hi Ht. rewrite forallb_forall in Hi. apply Hi. eapply nth_error_In; eauto.
Qed.

Section Leaves.
Variables (m : mem) (o : Z) (m' : mem) (o' : Z).
Hypothesis H : mle m o m' o'.

Lemma ld8_at a a' b : a' - o' = a - o -> m a = Some b -> ld8 m' a' = Some b.
Proof. apply (rd_at _ _ _ _ H). Qed.

Lemma ld16_at a a' x : a' - o' = a - o -> mrd16 m a = Some x -> ld16 m' a' = Some x.
Proof. apply (mrd16_at _ _ _ _ H). Qed.

Lemma ld32_at a a' x : a' - o' = a - o -> mrd32 m a = Some x -> ld32 m' a' = Some x.
Proof. apply (mrd32_at _ _ _ _ H). Qed.

Lemma ldbytes_at n : forall a a' l, a' - o' = a - o -> mrdbytes m a n = Some l -> ldbytes m' a' n = Some l.
Proof.
  induction n; intros a a' l Ha E; cbn [mrdbytes ldbytes] in *; [exact E|].
  bd E. bd E. rewrite (rd_at _ _ _ _ H a a' _ Ha E0). cbn [bind].
  rewrite (IHn (a + 1) (a' + 1) _ ltac:(lia) E1). exact E.
Qed.

(* a string: the decoder is given the offset of the length word, the reader the pointer past it *)
Lemma read_string_spec ds t a v : a = o' + t + 4 -> dec_string m o ds t = Some v -> read_string m' a = Some v.
Proof.
  intros -> E. unfold dec_string in E. bd E. bd E. bd E. bd E. bd E.
  unfold read_string, vec_len.
  rewrite (ld32_at (o + t) (o' + t + 4 - 4) _ ltac:(lia) E1). cbn [bind].
  rewrite (ldbytes_at _ (o + t + 4) (o' + t + 4) _ ltac:(lia) E2). exact E.
Qed.

Lemma read_struct_spec ds size al t a v : a = o' + t -> dec_struct m o ds size al t = Some v -> read_struct m' a size = Some v.
Proof.
  intros -> E. unfold dec_struct in E. bd E. bd E. unfold read_struct.
  rewrite (ldbytes_at _ (o + t) (o' + t) _ ltac:(lia) E1). exact E.
Qed.

(* elements of width 0 (only for a negative or zero element size): no byte is read on either side *)
Lemma rd_elems_zero n : forall a l, rd_elems m a 0 n = Some l -> forall vec es i, Z.to_nat es = 0%nat ->
  read_elems m' vec es i n = Some l.
Proof.
  induction n; intros a l E vec es i Hes; cbn [rd_elems read_elems] in *; [exact E|].
  bd E. bd E. unfold scalar_vec_at. rewrite Hes. cbn [ldbytes bind]. cbn [mrdbytes] in E0.
  some_inj E0. subst l0.
  rewrite (IHn _ _ E1 vec es (i + 1) Hes). exact E.
Qed.

Lemma read_elems_spec es n : 0 <= es -> forall a vec i l, vec + i * es - o' = a - o ->
  rd_elems m a (Z.to_nat es) n = Some l -> read_elems m' vec es i n = Some l.
Proof.
  intros Hes. induction n; intros a vec i l Ha E; cbn [rd_elems read_elems] in *; [exact E|].
  bd E. bd E. unfold scalar_vec_at.
  rewrite (ldbytes_at _ a (vec + i * es) _ Ha E0). cbn [bind].
  rewrite (IHn (a + Z.of_nat (Z.to_nat es)) vec (i + 1) _ ltac:(lia) E1). exact E.
Qed.

Lemma read_vector_spec ds es al mc t a v : a = o' + t + 4 -> dec_vector m o ds es al mc t = Some v -> read_vector m' a es = Some v.
Proof.
  intros -> E. unfold dec_vector in E. bd E. bd E. bd E. bd E.
  unfold read_vector, vec_len.
  rewrite (ld32_at (o + t) (o' + t + 4 - 4) _ ltac:(lia) E1). cbn [bind].
  destruct (Z_lt_le_dec es 0) as [Hn|Hp].
  - assert (Hz : Z.to_nat es = 0%nat) by lia. rewrite Hz in E3.
    rewrite (rd_elems_zero _ _ _ E3 (o' + t + 4) es 0 Hz). exact E.
  - rewrite (read_elems_spec es _ Hp (o + t + 4) (o' + t + 4) 0 _ ltac:(lia) E3). exact E.
Qed.

(* offset vectors: slot i of the vector at pointer vec *)
Lemma read_offs_spec (f f' : Z -> option value) adjust :
  (forall t a v, a = o' + t + adjust -> f t = Some v -> f' a = Some v) ->
  forall n p vec i l, o' + p = vec + 4 * i -> dec_offs f m o p n = Some l -> read_offs m' f' vec adjust i n = Some l.
Proof.
  intros Hf. induction n; intros p vec i l Hp E; cbn [dec_offs read_offs] in *; [exact E|].
  bd E. bd E. bd E. unfold follow in E0. bd E0. bd E0. some_inj E0. subst z.
  unfold offset_vec_at.
  rewrite (ld32_at (o + p) (vec + 4 * i) _ ltac:(lia) E3). cbn [bind].
  rewrite (Hf (p + z0) (vec + 4 * i + z0 + adjust) _ ltac:(lia) E1). cbn [bind].
  rewrite (IHn (p + 4) vec (i + 1) _ ltac:(lia) E2). exact E.
Qed.

Lemma read_offvec_spec (f f' : Z -> option value) adjust ds t a v :
  (forall t a v, a = o' + t + adjust -> f t = Some v -> f' a = Some v) ->
  a = o' + t + 4 -> dec_offvec f m o ds t = Some v -> read_offvec m' f' a adjust = Some v.
Proof.
  intros Hf -> E. unfold dec_offvec in E. bd E. bd E. bd E. bd E.
  unfold read_offvec, vec_len.
  rewrite (ld32_at (o + t) (o' + t + 4 - 4) _ ltac:(lia) E1). cbn [bind].
  rewrite (read_offs_spec f f' adjust Hf _ (t + 4) (o' + t + 4) 0 _ ltac:(lia) E3). exact E.
Qed.
End Leaves.

Section Rec.
Variables (r : tdec) (Sc : schema) (dflt : defaults) (rt : mem -> nat -> Z -> option value).
Hypothesis Hr : rrel r rt.
Variables (m : mem) (o : Z) (m' : mem) (o' : Z).
Hypothesis H : mle m o m' o'.

Lemma read_member_spec ds u c t a v : a = o' + t ->
  dec_member r Sc m o ds u c t = Some v -> read_member m' Sc (rt m') u c a = Some v.
Proof.
  intros Ha. unfold dec_member, read_member. destruct (union_member Sc u c) as [[tt|size al|]|]; intros E.
  - eapply Hr; eauto.
  - eapply read_struct_spec; eauto.
  - eapply read_string_spec; [exact H | | exact E]. unfold string_cast_from_generic. lia.
  - exact E.
Qed.

Lemma read_uelems_spec ds u n : forall tp vp tv vv i l,
  o' + tp = tv + i -> o' + vp = vv + 4 * i ->
  dec_uelems r Sc m o ds u tp vp n = Some l ->
  read_uelems m' Sc (rt m') u (Some tv, Some vv) i n = Some l.
Proof.
  induction n; intros tp vp tv vv i l Ht Hv E; cbn [dec_uelems read_uelems] in *; [exact E|].
  bd E. bd E. bd E. bd E.
  unfold union_vec_at. cbn [fst snd].
  rewrite (ld8_at _ _ _ _ H (o + tp) (tv + i) _ ltac:(lia) E0). cbn [bind].
  destruct (z =? 0) eqn:Ez.
  - destruct (z0 =? 0); [|discriminate E2]. some_inj E2. subst o0. cbn [bind].
    rewrite (IHn (tp + 1) (vp + 4) tv vv (i + 1) _ ltac:(lia) ltac:(lia) E3). cbn [bind].
    assert (z = 0) by lia. subst z. exact E.
  - destruct (z0 =? 0) eqn:Ez0; [discriminate E2|]. bd E2. some_inj E2. subst o0.
    unfold offset_vec_at.
    rewrite (ld32_at _ _ _ _ H (o + vp) (vv + 4 * i) _ ltac:(lia) E1). cbn [bind].
    rewrite (read_member_spec ds u z (vp + z0) (vv + 4 * i + z0 + 0) _ ltac:(lia) E4). cbn [bind].
    rewrite (IHn (tp + 1) (vp + 4) tv vv (i + 1) _ ltac:(lia) ltac:(lia) E3). exact E.
Qed.

Lemma read_buffer_spec ds R hp a v : a = o' + hp ->
  dec_buffer r m o ds R hp = Some v -> read_buffer m' (rt m') R a = Some v.
Proof.
  intros -> E. unfold dec_buffer in E. bd E. bd E. unfold follow in E1. bd E1. bd E1. some_inj E1. subst z.
  unfold read_buffer, read_root_ptr.
  rewrite (ld32_at _ _ _ _ H (o + hp) (o' + hp) _ ltac:(lia) E2). cbn [bind].
  destruct R as [t|size al].
  - eapply Hr; [exact H | | exact E]. lia.
  - eapply read_struct_spec; [exact H | | exact E]. lia.
Qed.
End Rec.

(* the nested buffer: decoded in the restricted memory, read in place *)
Lemma mle_restrict_in m o m' o' lo hi lo' : mle m o m' o' -> lo' - o' = lo - o -> mle (restrict m lo hi) lo m' lo'.
Proof.
  intros H Hl i b. unfold restrict. destruct ((lo <=? lo + i) && (lo + i <? hi)); [|discriminate].
  apply (mle_at _ _ _ _ H). lia.
Qed.

Section Rec2.
Variables (r : tdec) (Sc : schema) (dflt : defaults) (rt : mem -> nat -> Z -> option value).
Hypothesis Hr : rrel r rt.
Variables (m : mem) (o : Z) (m' : mem) (o' : Z).
Hypothesis H : mle m o m' o'.

Lemma read_nested_spec ds R al t a v : a = o' + t + 4 ->
  dec_nested r m o ds R al t = Some v ->
  (x <- read_buffer m' (rt m') R a;; Some (VNested x)) = Some v.
Proof.
  intros -> E. unfold dec_nested in E. bd E. bd E. bd E. bd E.
  pose proof (mle_restrict_in m o m' o' (o + (t + 4)) (o + (t + 4) + z) (o' + t + 4) H ltac:(lia)) as Hm.
  rewrite (read_buffer_spec r rt Hr _ _ _ _ Hm _ _ 0 (o' + t + 4) _ ltac:(lia) E3). exact E.
Qed.

Section OneTable.
Variables (ds : list Z) (vt vsize tp tsize so : Z) (tix : nat).
Hypothesis Hso : mrd32 m (o + tp) = Some so.
Hypothesis Hvt : vt = tp - s32 so.
Hypothesis Hvs : mrd16 m (o + vt) = Some vsize.
Let T := o' + tp.

(* __flatbuffers_read_vt returns the decoder's vtable entry *)
Lemma read_vt_spec id e : 0 <= id < 65536 -> vt_entry m o vt vsize id = Some e -> read_vt m' T id = Some e.
Proof.
  intros Hid E. unfold vt_entry in E. unfold read_vt, lds32, T.
  rewrite (ld32_at _ _ _ _ H (o + tp) (o' + tp) _ ltac:(lia) Hso). cbn [bind].
  rewrite (ld16_at _ _ _ _ H (o + vt) (o' + tp - s32 so) _ ltac:(lia) Hvs). cbn [bind].
  assert (Hu : u16 id = id) by (apply u16_id; unfold in_u16; lia). rewrite Hu.
  destruct (2 * (id + 3) <=? vsize) eqn:Ec.
  - replace ((0 <=? id) && (4 + 2 * id + 2 <=? vsize)) with true in E by lia.
    apply (ld16_at _ _ _ _ H (o + vt + 4 + 2 * id)); [lia | exact E].
  - replace ((0 <=? id) && (4 + 2 * id + 2 <=? vsize)) with false in E by lia. exact E.
Qed.

Lemma field_pos_absent id fs fa : 0 <= id < 65536 ->
  field_pos m o ds vt vsize tp tsize id fs fa = Some None -> read_vt m' T id = Some 0.
Proof.
  intros Hid E. unfold field_pos in E. bd E. rewrite (read_vt_spec id z Hid E0).
  destruct (z =? 0) eqn:Ez; [f_equal; lia|]. bd E. discriminate E.
Qed.

Lemma field_pos_present id fs fa p : 0 <= id < 65536 ->
  field_pos m o ds vt vsize tp tsize id fs fa = Some (Some p) ->
  exists e, read_vt m' T id = Some e /\ (e =? 0) = false /\ p = tp + e.
Proof.
  intros Hid E. unfold field_pos in E. bd E. exists z. rewrite (read_vt_spec id z Hid E0).
  destruct (z =? 0) eqn:Ez; [discriminate E|]. bd E. some_inj E. some_inj E. auto.
Qed.

(* an offset field: __flatbuffers_offset_field against the decoder's with_off *)
Lemma offset_field_spec id req adjust (k k' : Z -> option value) x : 0 <= id < 65536 ->
  (forall t a v, a = o' + t + adjust -> k t = Some v -> k' a = Some v) ->
  (x = None -> req = false) ->
  with_off m o ds vt vsize tp tsize id k = Some x ->
  with_ptr (offset_field m' T id req adjust) k' = Some x.
Proof.
  intros Hid Hk Hreq E. unfold with_off in E. bd E. unfold with_ptr, offset_field.
  destruct o0 as [p|].
  - destruct (field_pos_present _ _ _ _ Hid E0) as (e & Hv & He & Hp). rewrite Hv. cbn [bind]. rewrite He.
    bd E. bd E. unfold follow in E1. bd E1. bd E1. some_inj E1. subst z.
    rewrite (ld32_at _ _ _ _ H (o + p) (T + e) _ ltac:(unfold T; lia) E3). cbn [bind].
    rewrite (Hk (p + z0) (T + e + adjust + z0) _ ltac:(unfold T; lia) E2). exact E.
  - rewrite (field_pos_absent _ _ _ Hid E0). cbn [bind]. some_inj E. subst x.
    rewrite (Hreq eq_refl). reflexivity.
Qed.

Lemma offset_field_present id req adjust p : 0 <= id < 65536 ->
  field_pos m o ds vt vsize tp tsize id 4 4 = Some (Some p) ->
  forall t, follow m o p = Some t -> offset_field m' T id req adjust = Some (Some (o' + t + adjust)).
Proof.
  intros Hid E t Ef. unfold offset_field.
  destruct (field_pos_present _ _ _ _ Hid E) as (e & Hv & He & Hp). rewrite Hv. cbn [bind]. rewrite He.
  unfold follow in Ef. bd Ef. bd Ef. some_inj Ef. subst t.
  rewrite (ld32_at _ _ _ _ H (o + p) (T + e) _ ltac:(unfold T; lia) E0). cbn [bind].
  do 2 f_equal. unfold T. lia.
Qed.

Lemma read_kind_spec id req k x :
  ((if kind_is_union k then 1 else 0) <= id < 65536) ->
  (x = None -> req = false) ->
  dec_kind r Sc m o ds vt vsize tp tsize id k = Some x ->
  read_kind m' Sc dflt (rt m') tix T id req k = Some x.
Proof.
  intros Hid Hreq.
  assert (Hid0 : 0 <= id < 65536) by (destruct (kind_is_union k); lia).
  destruct k as [size al| |esize al mc| |t'|t'|u|u|al t'|size al]; cbn [dec_kind read_kind kind_is_union] in *; intros E.
  - (* scalar / inline struct *)
    bd E. unfold field_present, scalar_get. destruct o0 as [p|].
    + destruct (field_pos_present _ _ _ _ Hid0 E0) as (e & Hv & He & Hp). rewrite Hv. cbn [bind].
      rewrite He. cbn [negb]. bd E.
      rewrite (ldbytes_at _ _ _ _ H _ (o + p) (T + e) _ ltac:(unfold T; lia) E1). exact E.
    + rewrite (field_pos_absent _ _ _ Hid0 E0). cbn [bind].
      replace (0 =? 0) with true by reflexivity. cbn [negb]. some_inj E. subst x. rewrite (Hreq eq_refl). reflexivity.
  - eapply offset_field_spec; [exact Hid0 | | exact Hreq | exact E]. intros; eapply read_string_spec; eauto.
  - eapply offset_field_spec; [exact Hid0 | | exact Hreq | exact E]. intros; eapply read_vector_spec; eauto.
  - eapply offset_field_spec; [exact Hid0 | | exact Hreq | exact E]. intros t0 a0 v0 Ha0 E0.
    eapply read_offvec_spec; [exact H | | exact Ha0 | exact E0].
    intros; eapply read_string_spec; eauto.
  - eapply offset_field_spec; [exact Hid0 | | exact Hreq | exact E]. intros t0 a0 v0 Ha0 E0.
    eapply Hr; [exact H | | exact E0]. lia.
  - eapply offset_field_spec; [exact Hid0 | | exact Hreq | exact E]. intros t0 a0 v0 Ha0 E0.
    eapply read_offvec_spec; [exact H | | exact Ha0 | exact E0].
    intros t1 a1 v1 Ha1 E1. eapply Hr; [exact H | | exact E1]. lia.
  - (* union *)
    assert (Hid1 : 0 <= id - 1 < 65536) by lia.
    bd E. bd E. bd E.
    unfold union_field, union_type_field.
    assert (Hty : (o1 <- read_vt m' T (id - 1);; (if o1 =? 0 then Some 0 else ld8 m' (T + o1))) = Some z).
    { destruct o0 as [p|].
      - destruct (field_pos_present _ _ _ _ Hid1 E0) as (e & Hv & He & Hp). rewrite Hv. cbn [bind]. rewrite He.
        apply (ld8_at _ _ _ _ H (o + p)); [unfold T; lia | exact E1].
      - rewrite (field_pos_absent _ _ _ Hid1 E0). cbn [bind]. exact E1. }
    rewrite Hty. cbn [bind].
    destruct (z =? 0) eqn:Ez.
    + destruct o1 as [p|]; [discriminate E|]. exact E.
    + destruct o1 as [p|]; [|discriminate E]. bd E. bd E.
      rewrite (offset_field_present id req 0 p Hid0 E2 _ E3). cbn [bind].
      rewrite (read_member_spec r Sc rt Hr _ _ _ _ H ds u z z0 (o' + z0 + 0) _ ltac:(lia) E4). exact E.
  - (* union vector *)
    assert (Hid1 : 0 <= id - 1 < 65536) by lia.
    bd E. bd E. unfold field_present.
    destruct o0 as [pt|], o1 as [pv|]; try discriminate E.
    + destruct (field_pos_present _ _ _ _ Hid0 E1) as (e & Hv & He & Hp). rewrite Hv. cbn [bind].
      rewrite He. cbn [negb].
      bd E. bd E. bd E. unfold union_vec_field.
      rewrite (offset_field_present (id - 1) req 4 pt Hid1 E0 _ E2). cbn [bind].
      rewrite (offset_field_present id req 4 pv Hid0 E1 _ E3). cbn [bind].
      unfold dec_uvec in E4. bd E4. bd E4. bd E4. bd E4. bd E4.
      unfold union_vec_len, vec_len. cbn [fst].
      rewrite (ld32_at _ _ _ _ H (o + z) (o' + z + 4 - 4) _ ltac:(lia) E6). cbn [bind].
      assert (z1 = z2) by lia. subst z2.
      rewrite (read_uelems_spec r Sc rt Hr _ _ _ _ H ds u _ (z + 4) (z0 + 4) (o' + z + 4) (o' + z0 + 4) 0 _
                 ltac:(lia) ltac:(lia) E9).
      cbn [bind]. some_inj E4. subst v. exact E.
    + rewrite (field_pos_absent _ _ _ Hid0 E1). cbn [bind].
      replace (0 =? 0) with true by reflexivity. cbn [negb]. some_inj E. subst x. rewrite (Hreq eq_refl). reflexivity.
  - eapply offset_field_spec; [exact Hid0 | | exact Hreq | exact E]. intros t0 a0 v0 Ha0 E0.
    eapply read_nested_spec; [exact Ha0 | exact E0].
  - eapply offset_field_spec; [exact Hid0 | | exact Hreq | exact E]. intros t0 a0 v0 Ha0 E0.
    eapply read_nested_spec; [exact Ha0 | exact E0].
Qed.

Lemma read_fields_spec fl : forall l, forallb id_ok fl = true ->
  dec_fields r Sc m o ds vt vsize tp tsize fl = Some l ->
  read_fields m' Sc dflt (rt m') tix T fl = Some l.
Proof.
  induction fl as [|f fl IH]; intros l Hok E; [exact E|].
  cbn [forallb] in Hok. apply andb_true_iff in Hok. destruct Hok as [Hf Hok].
  cbn [dec_fields] in E. cbn [read_fields].
  destruct (dec_field r Sc m o ds vt vsize tp tsize f) as [ov|] eqn:E0; [cbn [bind] in E | discriminate E].
  destruct (dec_fields r Sc m o ds vt vsize tp tsize fl) as [rest|] eqn:E1; [cbn [bind] in E | discriminate E].
  unfold dec_field in E0.
  destruct (dec_kind r Sc m o ds vt vsize tp tsize (fid f) (fk f)) as [x|] eqn:E2; [cbn [bind] in E0 | discriminate E0].
  assert (Hk : read_kind m' Sc dflt (rt m') tix T (fid f) (frequired f) (fk f) = Some ov).
  { unfold id_ok in Hf. eapply read_kind_spec; [destruct (kind_is_union (fk f)); lia | | ].
    - intros ->. destruct x; [discriminate E0|]. destruct (frequired f); [discriminate E0 | reflexivity].
    - destruct x as [v|].
      + some_inj E0. subst ov. exact E2.
      + destruct (frequired f); [discriminate E0|]. some_inj E0. subst ov. exact E2. }
  rewrite Hk. cbn [bind]. rewrite (IH _ Hok eq_refl). exact E.
Qed.
End OneTable.

Lemma read_table_body_spec ds t p a v : ids_ok Sc = true -> a = o' + p ->
  dec_table_body r Sc m o ds t p = Some v -> read_table_body m' Sc dflt (rt m') t a = Some v.
Proof.
  intros Hids -> E. unfold dec_table_body in E. bd E. bd E. bd E. bd E. bd E. bd E. bd E. bd E. bd E. bd E.
  unfold read_table_body. rewrite E0. cbn [bind].
  rewrite (read_fields_spec ds (p - s32 z) z0 p z1 z t E2 eq_refl E4 l _ (ids_ok_fields _ _ _ Hids E0) E9).
  exact E.
Qed.
End Rec2.

Lemma read_table_rrel Sc dflt : ids_ok Sc = true -> forall n, rrel (dec_table n Sc) (read_table n Sc dflt).
Proof.
  intros Hids. induction n; intros m o m' o' ds t p a v H Ha E; [discriminate E|].
  cbn [dec_table read_table] in *.
  eapply (read_table_body_spec (dec_table n Sc) Sc dflt (read_table n Sc dflt) IHn); eauto.
Qed.

(* ------------------------------------------------------------------ whole buffers *)
Lemma mle_restrict0 (m : mem) hi : mle (restrict m 0 hi) 0 m 0.
Proof. apply (mle_restrict_in m 0 m 0 0 hi 0 (mle_refl m 0)). reflexivity. Qed.

Theorem read_root_decodes n Sc dflt R ws ds0 m len v : ids_ok Sc = true ->
  decode_mem n Sc R ws ds0 m len = Some v -> read_root n Sc dflt R ws m = Some v.
Proof.
  intros Hids E. unfold decode_mem in E. unfold read_root, read_size_prefix. destruct ws.
  - bd E. bd E.
    eapply (read_buffer_spec (dec_table n Sc) (read_table n Sc dflt) (read_table_rrel Sc dflt Hids n)
              _ _ _ _ (mle_restrict0 m (4 + z))); [|exact E]. reflexivity.
  - eapply (read_buffer_spec (dec_table n Sc) (read_table n Sc dflt) (read_table_rrel Sc dflt Hids n)
              _ _ _ _ (mle_restrict0 m len)); [|exact E]. reflexivity.
Qed.

Theorem reader_agrees_with_decode n Sc dflt R ws l : ids_ok Sc = true ->
  wf n Sc R ws l = true -> read_root_list n Sc dflt R ws l = decode_root n Sc R ws l.
Proof.
  intros Hids Hw. unfold wf in Hw. destruct (decode_root n Sc R ws l) as [v|] eqn:E; [|discriminate Hw].
  unfold read_root_list. eapply read_root_decodes; eauto.
Qed.

Theorem reader_agrees_with_decode_aligned n Sc dflt R ws A l : ids_ok Sc = true ->
  wf_aligned n Sc R ws A l = true ->
  Some (read_root_list n Sc dflt R ws l) = Some (decode_mem n Sc R ws [A] (mem_of_list l) (Z.of_nat (length l))).
Proof.
  intros Hids Hw. unfold wf_aligned in Hw.
  destruct (decode_mem n Sc R ws [A] (mem_of_list l) (Z.of_nat (length l))) as [v|] eqn:E; [|discriminate Hw].
  f_equal. unfold read_root_list. eapply read_root_decodes; eauto.
Qed.

(* ------------------------------------------------------------------ scalar accessors: default / is_present / option *)
(* the decoded field list, looked up by field id, is the decoder's verdict on that field (ids distinct) *)
Lemma assocZ_notin {A} k (l : list (Z * A)) : (forall v, ~ In (k, v) l) -> assocZ k l = None.
Proof.
  induction l as [|[k' a] l IH]; intros Hn; cbn [assocZ]; [reflexivity|].
  destruct (k =? k') eqn:E.
  - exfalso. apply (Hn a). left. f_equal. lia.
  - apply IH. intros v Hv. apply (Hn v). right. exact Hv.
Qed.

Section Assoc.
Variables (r : tdec) (Sc : schema) (m : mem) (o : Z) (ds : list Z) (vt vsize tp tsize : Z).

Lemma dec_fields_keys fl : forall l, dec_fields r Sc m o ds vt vsize tp tsize fl = Some l ->
  forall k v, In (k, v) l -> In k (map fid fl).
Proof.
  induction fl as [|g fl IH]; intros l E k v Hin; cbn [dec_fields] in E.
  - some_inj E. subst l. destruct Hin.
  - destruct (dec_field r Sc m o ds vt vsize tp tsize g) as [og|]; [cbn [bind] in E | discriminate E].
    destruct (dec_fields r Sc m o ds vt vsize tp tsize fl) as [rest|]; [cbn [bind] in E | discriminate E].
    some_inj E. subst l. cbn [map]. destruct og as [w|].
    + destruct Hin as [Hh|Ht]; [left; congruence | right; eapply IH; eauto].
    + right; eapply IH; eauto.
Qed.

Lemma dec_fields_assoc fl : forall l, dec_fields r Sc m o ds vt vsize tp tsize fl = Some l ->
  NoDup (map fid fl) -> forall f, In f fl ->
  dec_field r Sc m o ds vt vsize tp tsize f = Some (assocZ (fid f) l).
Proof.
  induction fl as [|g fl IH]; intros l E Hnd f Hin; [destruct Hin|].
  cbn [dec_fields] in E. cbn [map] in Hnd. inversion Hnd as [|? ? Hg Hnd']; subst.
  destruct (dec_field r Sc m o ds vt vsize tp tsize g) as [og|] eqn:Eg; [cbn [bind] in E | discriminate E].
  destruct (dec_fields r Sc m o ds vt vsize tp tsize fl) as [rest|] eqn:Er; [cbn [bind] in E | discriminate E].
  some_inj E. subst l.
  assert (Hnone : assocZ (fid g) rest = None).
  { apply assocZ_notin. intros v Hv. apply Hg. eapply dec_fields_keys; eauto. }
  destruct Hin as [->|Hin].
  - rewrite Eg. f_equal. destruct og as [w|]; cbn [assocZ].
    + rewrite Z.eqb_refl. reflexivity.
    + symmetry. exact Hnone.
  - assert (Hne : fid f <> fid g). { intros Heq. apply Hg. rewrite <- Heq. apply in_map. exact Hin. }
    rewrite (IH _ eq_refl Hnd' f Hin). f_equal. destruct og as [w|]; cbn [assocZ]; [|reflexivity].
    replace (fid f =? fid g) with false by lia. reflexivity.
Qed.
End Assoc.

(* what the scalar accessors of field id return at table pointer T, given the decoded field list:
   not listed  -> T_f_get = the schema default d, T_f_is_present = 0, T_f_option = { is_null = 1, d }, T_f_get_ptr = NULL;
   listed as v -> v = VBytes bs of the field's size, T_f_get = bs (the stored bytes, whatever they are: a force-added
                  default is present), T_f_is_present = 1, T_f_option = { is_null = 0, bs }, T_f_get_ptr points at bs *)
Definition scalar_accessors_spec (m : mem) (T id : Z) (size : nat) (d : list Z) (ov : option value) : Prop :=
  match ov with
  | None =>
    scalar_get m T id size d = Some d /\ field_present m T id = Some false /\
    scalar_option m T id size d = Some (true, d) /\ scalar_get_ptr m T id = Some None
  | Some v =>
    exists bs, v = VBytes bs /\ length bs = size /\
    scalar_get m T id size d = Some bs /\ field_present m T id = Some true /\
    scalar_option m T id size d = Some (false, bs) /\
    exists p, scalar_get_ptr m T id = Some (Some p) /\ ldbytes m p size = Some bs
  end.

Lemma ldbytes_length m n : forall a l, ldbytes m a n = Some l -> length l = n.
Proof.
  induction n; intros a l E; cbn [ldbytes] in E.
  - some_inj E. subst l. reflexivity.
  - bd E. bd E. some_inj E. subst l. cbn [length]. f_equal. eapply IHn; eauto.
Qed.

Theorem table_scalar_accessors n Sc m o m' o' ds t tp T fs flds f size al d :
  ids_ok Sc = true -> mle m o m' o' -> T = o' + tp ->
  dec_table n Sc m o ds t tp = Some (VTable fs) ->
  table_fields Sc t = Some flds -> NoDup (map fid flds) -> In f flds -> fk f = FScalar size al ->
  scalar_accessors_spec m' T (fid f) (Z.to_nat size) d (assocZ (fid f) fs).
Proof.
  intros Hids H -> E Hfl Hnd Hin Hk. destruct n; [discriminate E|]. cbn [dec_table] in E.
  unfold dec_table_body in E. rewrite Hfl in E. cbn [bind] in E.
  bd E. bd E. bd E. bd E. bd E. bd E. bd E. bd E. bd E. some_inj E. injection E as ->.
  pose proof (dec_fields_assoc _ _ _ _ _ _ _ _ _ _ _ E8 Hnd f Hin) as Hf.
  pose proof (ids_ok_fields _ _ _ Hids Hfl) as Hok. rewrite forallb_forall in Hok. specialize (Hok f Hin).
  unfold id_ok in Hok. rewrite Hk in Hok. cbn [kind_is_union] in Hok.
  assert (Hid : 0 <= fid f < 65536) by lia.
  unfold dec_field in Hf. rewrite Hk in Hf. cbn [dec_kind] in Hf.
  destruct (field_pos m o ds (tp - s32 z) z0 tp z1 (fid f) size al) as [[p|]|] eqn:Ep; cbn [bind] in Hf; [| |discriminate Hf].
  - destruct (field_pos_present m o m' o' H ds (tp - s32 z) z0 tp z1 z E1 eq_refl E3 _ _ _ _ Hid Ep) as (e & Hv & He & Hp).
    destruct (mrdbytes m (o + p) (Z.to_nat size)) as [bs|] eqn:Eb; cbn [bind] in Hf; [|discriminate Hf].
    some_inj Hf. rewrite <- Hf. cbn [scalar_accessors_spec].
    pose proof (ldbytes_at _ _ _ _ H _ (o + p) (o' + tp + e) _ ltac:(lia) Eb) as Hb.
    exists bs. unfold scalar_get, field_present, scalar_option, scalar_get_ptr. rewrite Hv. cbn [bind]. rewrite He, Hb.
    cbn [bind negb]. repeat split; try reflexivity.
    + eapply ldbytes_length; eauto.
    + exists (o' + tp + e). split; [reflexivity | exact Hb].
  - pose proof (field_pos_absent m o m' o' H ds (tp - s32 z) z0 tp z1 z E1 eq_refl E3 _ _ _ Hid Ep) as Hv.
    destruct (frequired f); [discriminate Hf|]. some_inj Hf. rewrite <- Hf. cbn [scalar_accessors_spec].
    unfold scalar_get, field_present, scalar_option, scalar_get_ptr. rewrite Hv. cbn [bind].
    replace (0 =? 0) with true by reflexivity. cbn [bind negb]. repeat split; reflexivity.
Qed.

(* at the root: T_as_root (after read_size_prefix when size-prefixed) then the scalar accessors *)
Theorem root_scalar_accessors n Sc t ws ds0 m len fs flds f size al d :
  ids_ok Sc = true ->
  decode_mem n Sc (RTable t) ws ds0 m len = Some (VTable fs) ->
  table_fields Sc t = Some flds -> NoDup (map fid flds) -> In f flds -> fk f = FScalar size al ->
  exists T, root_ptr m ws = Some T /\
            scalar_accessors_spec m T (fid f) (Z.to_nat size) d (assocZ (fid f) fs).
Proof.
  intros Hids E Hfl Hnd Hin Hk. unfold decode_mem in E. unfold root_ptr, read_root_ptr, read_size_prefix.
  destruct ws.
  - bd E. bd E. unfold dec_buffer in E. bd E. bd E. unfold follow in E3. bd E3. bd E3. some_inj E3. subst z0.
    rewrite (ld32_at _ _ _ _ (mle_restrict0 m (4 + z)) (0 + 4) (0 + 4) _ eq_refl E4). cbn [bind].
    eexists; split; [reflexivity|].
    eapply (table_scalar_accessors n Sc _ 0 m 0 _ t (4 + z1)); eauto using mle_restrict0; lia.
  - unfold dec_buffer in E. bd E. bd E. unfold follow in E1. bd E1. bd E1. some_inj E1. subst z.
    rewrite (ld32_at _ _ _ _ (mle_restrict0 m len) (0 + 0) 0 _ eq_refl E2). cbn [bind].
    eexists; split; [reflexivity|].
    eapply (table_scalar_accessors n Sc _ 0 m 0 _ t (0 + z0)); eauto using mle_restrict0; lia.
Qed.

(* ------------------------------------------------------------------ the hypothesis on ids is needed *)
(* [id__tmp = ID] is a voffset_t: a field id of 65536 would be looked up as field 0.  (The schema compiler refuses
   such ids; the hypothesis [ids_ok] states it.)  Buffer: root table with one int field (id 0) = 42. *)
Definition wrap_schema : schema :=
  {| tables := [ [ {| fid := 65536; frequired := false; fk := FScalar 4 4 |} ] ]; unions := [] |}.
Definition wrap_bytes : list Z :=
  [12;0;0;0; 0;0; 6;0; 8;0; 4;0;   6;0;0;0; 42;0;0;0].

Lemma ids_ok_needed :
  ids_ok wrap_schema = false /\
  decode_root 1 wrap_schema (RTable 0) false wrap_bytes = Some (VTable []) /\
  read_root_list 1 wrap_schema (fun _ _ => [0;0;0;0]) (RTable 0) false wrap_bytes = Some (VTable [(65536, VBytes [42;0;0;0])]).
Proof. vm_compute. repeat split. Qed.
