(* C02 (completeness direction), part 4: composition with the builder theorem (every well-typed create-level script
   finishes bytes the format specification accepts) and with the verifier's soundness theorem C01. *)
From Coq Require Import ZifyBool Znumtheory.
From Flatcc.Format Require Schema Spec SpecProofs.
From Flatcc.Builder Require EmitModel VMem Script ScriptProofs Example.
From Flatcc.Verifier Require Import Schema VerifierModel VerifierProofsBase VerifierProofsTop CompleteBase CompleteTable Complete.
Local Open Scope Z_scope.
Ltac Zify.zify_post_hook ::= Z.div_mod_to_equations.

Module EM := Flatcc.Builder.EmitModel.
Module BS := Flatcc.Builder.Script.

Lemma root_ok_wf R : root_ok R -> root_wf (to_vroot R).
Proof. destruct R as [t|size al]; cbn; [auto|]. intros [Hs Ha]. apply pow2_le_spec in Ha. lia. Qed.

(* every well-typed build is accepted by the verifier generated for the schema, at every address aligned to the
   alignment the builder reports *)
Theorem build_verifies : forall Sc sc R v ws n regs ems st addr fuel,
  BS.wt_script Sc sc R v ws n -> EM.run EM.init_state [] sc = Some (regs, ems, st) -> VMem.small st ->
  schema_wf (to_vschema Sc) = true -> schema_in_fragment Sc = true -> members_nonempty Sc = true -> root_ok R ->
  byte_list (EM.buffer_bytes st) = true ->
  levels_needed Sc n <= VERIFIER_MAX_LEVELS -> (n <= fuel)%nat ->
  header_room R ws (EM.lenZ (EM.buffer_bytes st)) ->
  addr mod EM.buffer_alignment st = 0 ->
  verify_root (of_list (EM.buffer_bytes st)) addr (to_vschema Sc) fuel (to_vroot R) (to_variant ws) = VOk.
Proof.
  intros Sc sc R v ws n regs ems st addr fuel Hwt Hrun Hsm Hwf Hfrag Hne HR Hbytes Hlev Hfuel Hroom Haddr.
  destruct (ScriptProofs.build_wf Sc sc R v ws n regs ems st Hwt Hrun Hsm) as (_ & Hwa & _ & HA4).
  apply (verify_complete_partial n Sc R ws (EM.buffer_bytes st) (EM.buffer_alignment st) addr fuel
           Hwf Hfrag Hne HR Hbytes Hwa Hlev Hfuel Hroom); [|lia|exact Haddr].
  unfold VMem.small, EM.lenZ in Hsm. unfold EM.buffer_bytes. rewrite app_length. lia.
Qed.

(* ... and every read of the generated reader over it is in bounds and aligned (C01 composed) *)
Theorem build_reads_safely : forall Sc sc R v ws n regs ems st addr fuel ra,
  BS.wt_script Sc sc R v ws n -> EM.run EM.init_state [] sc = Some (regs, ems, st) -> VMem.small st ->
  schema_wf (to_vschema Sc) = true -> schema_in_fragment Sc = true -> members_nonempty Sc = true -> root_ok R ->
  byte_list (EM.buffer_bytes st) = true ->
  levels_needed Sc n <= VERIFIER_MAX_LEVELS -> (n <= fuel)%nat ->
  header_room R ws (EM.lenZ (EM.buffer_bytes st)) ->
  addr mod EM.buffer_alignment st = 0 ->
  ra_ok (to_vschema Sc) ra = true -> root_aligned ra addr (to_vroot R) ->
  walk_root (of_list (EM.buffer_bytes st)) addr (to_vschema Sc) fuel (to_vroot R) ws = WOk.
Proof.
  intros Sc sc R v ws n regs ems st addr fuel ra Hwt Hrun Hsm Hwf Hfrag Hne HR Hbytes Hlev Hfuel Hroom Haddr Hra Hral.
  pose proof (build_verifies Sc sc R v ws n regs ems st addr fuel Hwt Hrun Hsm Hwf Hfrag Hne HR Hbytes Hlev Hfuel Hroom Haddr) as Hv.
  pose proof (verify_sound (of_list (EM.buffer_bytes st)) addr (to_vschema Sc) ra fuel (to_vroot R) (to_variant ws)
                (of_list_wf _) Hwf Hra) as Hs.
  assert (Hws : match to_variant ws with WithSize => true | Plain => false end = ws) by (destruct ws; reflexivity).
  rewrite Hws in Hs. apply Hs; [| apply root_ok_wf; exact HR | exact Hral | exact Hv].
  cbn [blen of_list]. unfold SOUND_MAX_SIZE. unfold VMem.small, EM.lenZ in Hsm. unfold EM.buffer_bytes. rewrite app_length. lia.
Qed.

