(* C01 proofs, part 2: one pass over the verifier model.  Every function gets a post-condition lemma
   [post T (f args) P]: the result is VOk and P holds (P collects the bounds/alignment facts or, for composite
   functions, "SND -> the reader walk of the same object is WOk"), or it is a non-OK result tolerated by T.
   Out-of-bounds reads (VOob) are shown impossible on the way, so T never has to tolerate VOob; VFuel only
   arises from the recursive callback.  Instantiating T gives soundness, no-OOB and within-levels
   (VerifierProofsTop.v).  SND is the "soundness mode" switch: the size bound and the alignment certificate
   are only available (and only needed) under SND. *)
From Flatcc.Verifier Require Import VerifierProofsBase.
From Coq Require Import ZifyBool Znumtheory.
Local Open Scope Z_scope.
Ltac Zify.zify_post_hook ::= Z.div_mod_to_equations.

Section Main.
Variable b : buf.
Variable addr : Z.
Variable S : schema.
Variable T : vres -> Prop.
Variable SND : Prop.
Variable ra : nat -> Z.
Hypothesis Hwf : wf_buf b.
Hypothesis HS : schema_wf S = true.
Hypothesis T_err : forall c, T (VErr c).
Hypothesis Hsz : SND -> blen b <= SOUND_MAX_SIZE.
Hypothesis Hra : SND -> ra_ok S ra = true.

Local Notation post := (post T).

Ltac pif H := apply (post_if T T_err); intros H.
Ltac pifn H := apply (post_if_neg T T_err); intros H.
Ltac pok := apply (post_ok T).
Ltac perr := apply (post_err T T_err).
Ltac pbind := eapply (post_bind T).
Ltac pweak := eapply (post_weaken T).
Ltac triv := first [assumption | reflexivity | lia].

(* a (possibly nested) buffer [o, o+e) inside b whose start is 4-aligned in memory *)
Definition region (o e : Z) : Prop :=
  0 <= o /\ 0 <= e /\ o + e <= blen b /\ e < 4294967296 /\ (addr + o) mod 4 = 0.

(* what verify_table has established about a table descriptor before the generated verifier runs *)
Definition td_inv (d : td) : Prop :=
  region (t_o d) (t_end d) /\
  0 <= t_table d /\ t_table d + 4 <= t_end d /\ t_table d mod 4 = 0 /\
  0 <= t_vtable d /\ t_vtable d mod 2 = 0 /\ t_vtable d + t_vsize d <= t_end d /\
  rd16 b (t_o d + t_vtable d) = Some (t_vsize d) /\ t_vsize d mod 2 = 0 /\ 4 <= t_vsize d /\ t_vsize d < 65536 /\
  0 <= t_tsize d /\ t_table d + t_tsize d <= t_end d /\
  (SND -> exists so, rd32 b (t_o d + t_table d) = Some so /\ t_table d - s32 so = t_vtable d).

Ltac dinv Hd :=
  let Hd' := fresh "Hd" in
  pose proof Hd as Hd'; unfold td_inv, region in Hd';
  destruct Hd' as ((Ho0 & He0 & Hoe & He & Hao) & Ht0 & Ht4 & Htm & Hv0 & Hvm & Hve & Rvs & Hvsm & Hvs4 & Hvs & Hts0 & Hts & Hso).

(* the recursive callback: table verifier [vt] and table walker [wt] *)
Definition cb_ok (vt : Z -> Z -> Z -> Z -> Z -> nat -> vres) (wt : Z -> nat -> wres) (lim : Z) : Prop :=
  forall o e base off ttl t, region o e -> 0 <= base -> in_u32 off -> ttl <= lim ->
    (SND -> (ra t | addr + o)) ->
    post (vt o e base off ttl t) (SND -> wt (o + base + off) t = WOk).

(* ---- verify_table up to the generated code *)
Lemma verify_table_with_post tvf o e base off ttl P :
  region o e -> 0 <= base -> in_u32 off ->
  (forall d, td_inv d -> t_o d = o -> t_end d = e -> t_table d = base + off -> t_ttl d = ttl - 1 -> 0 < ttl - 1 ->
             post (tvf d) P) ->
  post (verify_table_with b tvf o e base off ttl) P.
Proof.
  intros Hr Hb Ho Hk. unfold verify_table_with.
  pif Httl. apply Z.ltb_lt in Httl.
  pif Hch. apply check_header_spec in Hch; [|assumption..]. destruct Hch as (Eu & Hoff & Hin & Hal).
  rewrite Eu. set (table := base + off) in *. cbv zeta.
  unfold r32, r16.
  pose proof Hr as (Ho0 & He0 & Hoe & He & Hao).
  destruct (rd32_in b (o + table) Hwf) as [so [Rso Hso]]; [lia|lia|]. rewrite Rso.
  set (vbase := u32 (table - so)).
  assert (Hvb: 0 <= vbase < 4294967296) by apply u32_range.
  pif H1. apply andb_true_iff in H1. destruct H1 as [H1 H2]. apply Z.ltb_lt in H1. apply Z.eqb_eq in H2.
  pif H3. apply Z.leb_le in H3.
  destruct (rd16_in b (o + vbase) Hwf) as [vsize [Rvs Hvs]]; [lia|lia|]. rewrite Rvs.
  rewrite (u32_add_nowrap vbase vsize) by lia.
  pif H4. apply andb_true_iff in H4. destruct H4 as [H4 H5]. apply Z.leb_le in H4. apply Z.eqb_eq in H5.
  pif H6. apply Z.leb_le in H6.
  destruct (rd16_in b (o + (vbase + 2)) Hwf) as [tsize [Rts Hts]]; [lia|lia|]. rewrite Rts.
  pif H7. apply Z.leb_le in H7. rewrite (u32_id (e - table)) in H7 by (unfold in_u32; lia).
  apply Hk; cbn [t_o t_end t_ttl t_vtable t_table t_tsize t_vsize]; try reflexivity; try assumption.
  unfold td_inv. cbn [t_o t_end t_ttl t_vtable t_table t_tsize t_vsize].
  split; [exact Hr|].
  repeat (split; [first [assumption | lia] |]).
  intros Hs. exists so. split; [assumption|]. apply s32_vbase; [|assumption|exact H1].
  specialize (Hsz Hs). unfold SOUND_MAX_SIZE in Hsz. lia.
Qed.

(* ---- vtable entries *)
Lemma read_vt_entry_spec d id : td_inv d -> 0 <= id < 32764 ->
  (t_vsize d <= (id + 2) * 2 /\ read_vt_entry b d id = Some 0) \/
  ((id + 3) * 2 <= t_vsize d /\ exists vte, read_vt_entry b d id = Some vte /\
      rd16 b (t_o d + t_vtable d + (id + 2) * 2) = Some vte /\ 0 <= vte < 65536).
Proof.
  intros Hd Hid. dinv Hd. unfold read_vt_entry.
  rewrite (u16_id ((id + 2) * 2)) by (unfold in_u16; lia).
  destruct (t_vsize d <=? (id + 2) * 2) eqn:E.
  - left. apply Z.leb_le in E. auto.
  - right. apply Z.leb_gt in E. split; [lia|].
    unfold r16. destruct (rd16_in b (t_o d + (t_vtable d + (id + 2) * 2)) Hwf) as [vte [R Hv]]; [lia|lia|].
    exists vte. rewrite R.
    replace (t_o d + t_vtable d + (id + 2) * 2) with (t_o d + (t_vtable d + (id + 2) * 2)) by lia. auto.
Qed.

Lemma read_vt_entry_ex d id : td_inv d -> 0 <= id < 32764 ->
  exists vte, read_vt_entry b d id = Some vte /\ 0 <= vte < 65536.
Proof.
  intros Hd Hid. destruct (read_vt_entry_spec d id Hd Hid) as [[_ H]|[_ [vte [H [_ Hv]]]]].
  - exists 0. split; [assumption|lia].
  - exists vte. auto.
Qed.

Lemma with_vte_spec d id vte k : td_inv d -> SND -> 0 <= id < 32764 ->
  read_vt_entry b d id = Some vte -> with_vte b addr (t_o d + t_table d) id k = k vte.
Proof.
  intros Hd Hs Hid Hr. pose proof (read_vt_entry_spec d id Hd Hid) as Hspec. dinv Hd.
  destruct (Hso Hs) as [so [Rso Eso]].
  unfold with_vte. cbv zeta.
  rewrite need_ok_intro by lia.
  rewrite (g32_eq _ _ _ Rso).
  replace (t_o d + t_table d - s32 so) with (t_o d + t_vtable d) by lia.
  rewrite need_ok_intro by lia.
  rewrite (g16_eq _ _ _ Rvs).
  destruct Hspec as [[Hle Hr0] | [Hle [vte' [Hr' [R' Hv']]]]].
  - rewrite Hr0 in Hr. some_inj Hr. subst vte.
    destruct ((id + 3) * 2 <=? t_vsize d) eqn:E; [apply Z.leb_le in E; lia | reflexivity].
  - rewrite Hr' in Hr. some_inj Hr. subst vte'.
    assert (E: ((id + 3) * 2 <=? t_vsize d) = true) by (apply Z.leb_le; lia). rewrite E.
    rewrite need_ok_intro by lia. rewrite (g16_eq _ _ _ R'). reflexivity.
Qed.

(* ---- verify_field *)
Lemma verify_field_post d id req size align :
  td_inv d -> 0 <= id < 32764 -> 0 <= size < 65536 -> pow2_le align 32768 = true ->
  post (verify_field b addr d id req size align)
    (exists vte, read_vt_entry b d id = Some vte /\ 0 <= vte /\
       (vte = 0 \/ (vte <> 0 /\ vte + size <= t_tsize d /\ (addr + (t_o d + t_table d + vte)) mod align = 0))).
Proof.
  intros Hd Hid Hsize Hal. destruct (read_vt_entry_ex d id Hd Hid) as [vte [Hr Hv]].
  apply pow2_le_spec in Hal. destruct Hal as [Hal0 Hald]. dinv Hd.
  unfold verify_field. rewrite Hr.
  destruct (vte =? 0) eqn:E0.
  - apply Z.eqb_eq in E0. destruct req; [perr|]. pok. exists vte. split; [triv|]. split; [lia|]. left. assumption.
  - apply Z.eqb_neq in E0. cbv zeta. rewrite (u32_add_nowrap vte size) by lia.
    pif H1. apply Z.leb_le in H1.
    pif H2. apply Z.eqb_eq in H2. rewrite u32_mod in H2 by assumption.
    pok. exists vte. split; [triv|]. split; [lia|]. right. split; [assumption|]. split; [assumption|].
    rewrite mod_u32_inner in H2 by assumption.
    replace (addr + (t_o d + t_table d + vte)) with (vte + t_table d + (addr + t_o d)) by lia. exact H2.
Qed.

(* ---- offset fields *)
Lemma with_field_post d id req k (Pk : Z -> Prop) :
  td_inv d -> 0 <= id < 32764 ->
  (forall vte, read_vt_entry b d id = Some vte -> 0 < vte -> vte + 4 <= t_tsize d -> (t_table d + vte) mod 4 = 0 ->
     post (k (t_table d + vte)) (Pk vte)) ->
  post (with_field b d id req k)
    (exists vte, read_vt_entry b d id = Some vte /\
       ((vte = 0 /\ req = false) \/ (0 < vte /\ vte + 4 <= t_tsize d /\ (t_table d + vte) mod 4 = 0 /\ Pk vte))).
Proof.
  intros Hd Hid Hk. destruct (read_vt_entry_ex d id Hd Hid) as [vte [Hr Hv]]. dinv Hd.
  unfold with_field, get_offset_field. rewrite Hr.
  destruct (vte =? 0) eqn:E0.
  - apply Z.eqb_eq in E0. destruct req; [perr|]. cbn [Z.eqb]. pok. exists vte. split; [triv|]. left. auto.
  - apply Z.eqb_neq in E0. cbv zeta. rewrite (u32_add_nowrap vte 4) by lia.
    destruct (vte + 4 <=? t_tsize d) eqn:E1; cbn [negb]; [|perr]. apply Z.leb_le in E1.
    rewrite (u32_add_nowrap vte (t_table d)) by lia.
    destruct ((vte + t_table d) mod 4 =? 0) eqn:E2; cbn [negb]; [|perr]. apply Z.eqb_eq in E2.
    destruct (vte + t_table d =? 0) eqn:E3; [apply Z.eqb_eq in E3; lia|].
    replace (vte + t_table d) with (t_table d + vte) in * by lia.
    pweak. { apply (Hk vte); [assumption|lia|lia|assumption]. }
    intros HP. exists vte. split; [triv|]. right. repeat split; first [assumption|lia].
Qed.

(* the common shape: read the uoffset stored in the field and hand (base, offset) on *)
Lemma with_field_rd_facts d id req F (PF : Z -> Z -> Prop) :
  td_inv d -> 0 <= id < 32764 ->
  (forall base off, 0 < base -> base + 4 <= t_end d -> base mod 4 = 0 -> in_u32 off ->
     rd32 b (t_o d + base) = Some off -> post (F base off) (PF base off)) ->
  post (with_field b d id req (fun base => match r32 b (t_o d) base with None => VOob | Some off => F base off end))
    (exists vte, read_vt_entry b d id = Some vte /\
       ((vte = 0 /\ req = false) \/
        (0 < vte /\ vte + 4 <= t_tsize d /\ (t_table d + vte) mod 4 = 0 /\
         exists off, rd32 b (t_o d + (t_table d + vte)) = Some off /\ in_u32 off /\ PF (t_table d + vte) off))).
Proof.
  intros Hd Hid HF. apply with_field_post; [assumption|assumption|].
  intros vte Hr H0 H4 Hm. dinv Hd. unfold r32.
  destruct (rd32_in b (t_o d + (t_table d + vte)) Hwf) as [off [R Hoff]]; [lia|lia|]. rewrite R.
  pweak. { apply HF; [lia|lia|assumption|assumption|assumption]. }
  intros HP. exists off. auto.
Qed.

Lemma with_offset_field_absent d id kw : td_inv d -> SND -> 0 <= id < 32764 ->
  read_vt_entry b d id = Some 0 -> with_offset_field b addr (t_o d + t_table d) id kw = WOk.
Proof.
  intros Hd Hs Hid Hr. unfold with_offset_field. rewrite (with_vte_spec d id 0 _ Hd Hs Hid Hr). reflexivity.
Qed.

Lemma with_offset_field_present d id vte off kw : td_inv d -> SND -> 0 <= id < 32764 ->
  read_vt_entry b d id = Some vte -> 0 < vte -> vte + 4 <= t_tsize d -> (t_table d + vte) mod 4 = 0 ->
  rd32 b (t_o d + (t_table d + vte)) = Some off ->
  with_offset_field b addr (t_o d + t_table d) id kw = kw (t_o d + (t_table d + vte) + off).
Proof.
  intros Hd Hs Hid Hr H0 H4 Hm R. dinv Hd.
  unfold with_offset_field. rewrite (with_vte_spec d id vte _ Hd Hs Hid Hr).
  destruct (vte =? 0) eqn:E0; [apply Z.eqb_eq in E0; lia|].
  replace (t_o d + t_table d + vte) with (t_o d + (t_table d + vte)) by lia.
  rewrite need_ok_intro by lia. unfold follow. rewrite (g32_eq _ _ _ R). reflexivity.
Qed.

Lemma with_field_rd_post d id req F kw :
  td_inv d -> 0 <= id < 32764 ->
  (forall base off, 0 < base -> base + 4 <= t_end d -> base mod 4 = 0 -> in_u32 off ->
     rd32 b (t_o d + base) = Some off -> post (F base off) (SND -> kw (t_o d + base + off) = WOk)) ->
  post (with_field b d id req (fun base => match r32 b (t_o d) base with None => VOob | Some off => F base off end))
       (SND -> with_offset_field b addr (t_o d + t_table d) id kw = WOk).
Proof.
  intros Hd Hid HF. pweak.
  { apply (with_field_rd_facts d id req F (fun base off => SND -> kw (t_o d + base + off) = WOk)); assumption. }
  intros [vte [Hr [[-> _] | (H0 & H4 & Hm & off & R & Hoff & HP)]]] Hs.
  - apply with_offset_field_absent; assumption.
  - rewrite (with_offset_field_present d id vte off kw); auto.
Qed.

(* ---- strings and vectors *)
Lemma verify_string_post o e base off :
  region o e -> 0 <= base -> in_u32 off ->
  post (verify_string b o e base off) (walk_string b addr (o + base + off) = WOk).
Proof.
  intros (Ho0 & He0 & Hoe & He & Hao) Hb Ho. unfold verify_string.
  pif Hch. apply check_header_spec in Hch; [|assumption..]. destruct Hch as (Eu & Hoff & Hin & Hal).
  rewrite Eu. cbv zeta. unfold r32, r8.
  destruct (rd32_in b (o + (base + off)) Hwf) as [n [Rn Hn]]; [lia|lia|]. rewrite Rn.
  rewrite (u32_add_nowrap (base + off) 4) by lia.
  rewrite (u32_id (e - (base + off + 4))) by (unfold in_u32; lia).
  unfold in_u32 in Hn.
  pif H1. apply Z.ltb_lt in H1.
  destruct (rd8_in b (o + (base + off + 4 + n)) Hwf) as [c [Rc Hc]]; [lia|lia|]. rewrite Rc.
  pif H2. pok.
  apply walk_string_ok with (n := n); [|lia|lia|lia|].
  - replace (o + base + off) with (o + (base + off)) by lia. exact Rn.
  - replace (addr + (o + base + off)) with (addr + o + (base + off)) by lia. lia.
Qed.

Lemma count_max_4 : 0 <= COUNT_MAX 4 /\ COUNT_MAX 4 * 4 <= U32_MAX.
Proof. unfold COUNT_MAX, U32_MAX. lia. Qed.
Lemma count_max_1 : 0 <= COUNT_MAX 1 /\ COUNT_MAX 1 * 1 <= U32_MAX.
Proof. unfold COUNT_MAX, U32_MAX. lia. Qed.

Definition vec_facts (o e base off esize align maxc : Z) : Prop :=
  0 < off /\ base + off + 4 <= e /\ (base + off) mod 4 = 0 /\
  exists n, rd32 b (o + (base + off)) = Some n /\ 0 <= n <= maxc /\ base + off + 4 + n * esize <= e /\
            (n <> 0 -> (base + off + 4) mod align = 0).

Lemma verify_vector_post o e base off esize align maxc :
  region o e -> 0 <= base -> in_u32 off -> 0 < esize -> 0 <= maxc -> maxc * esize <= U32_MAX ->
  post (verify_vector b o e base off esize align maxc) (vec_facts o e base off esize align maxc).
Proof.
  intros (Ho0 & He0 & Hoe & He & Hao) Hb Ho Hes Hmc Hmul. unfold verify_vector.
  pif Hch. apply check_header_spec in Hch; [|assumption..]. destruct Hch as (Eu & Hoff & Hin & Hal).
  rewrite Eu. cbv zeta. unfold r32.
  destruct (rd32_in b (o + (base + off)) Hwf) as [n [Rn Hn]]; [lia|lia|]. rewrite Rn.
  rewrite (u32_add_nowrap (base + off) 4) by lia.
  rewrite (u32_id (e - (base + off + 4))) by (unfold in_u32; lia).
  unfold in_u32 in Hn.
  pif H1. apply andb_true_iff in H1. destruct H1 as [H1 _]. apply Z.eqb_eq in H1.
  pif H2. apply Z.leb_le in H2.
  assert (Hne: 0 <= n * esize <= U32_MAX) by nia.
  rewrite (u32_id (n * esize)) by (unfold in_u32, U32_MAX in *; lia).
  pif H3. apply Z.leb_le in H3. pok.
  unfold vec_facts. repeat (split; [first [assumption|lia]|]).
  exists n. repeat (split; [first [assumption|lia]|]).
  intros Hn0. destruct ((ENFORCE_ALIGNED_EMPTY_VECTORS =? 0) && (n =? 0)) eqn:EA; [|exact H1].
  apply andb_true_iff in EA. destruct EA as [_ EA]. apply Z.eqb_eq in EA. contradiction.
Qed.

(* vector of uoffsets (strings, tables): verify_vector followed by the per-slot loop *)
Lemma offset_vector_post (elem : Z -> Z -> vres) (welem : Z -> wres) o e base off :
  region o e -> 0 <= base -> in_u32 off ->
  (forall bi off', 0 <= bi -> bi + 4 <= e -> bi mod 4 = 0 -> in_u32 off' -> rd32 b (o + bi) = Some off' ->
     post (elem bi off') (SND -> welem (o + bi + off') = WOk)) ->
  post (vbind (verify_vector b o e base off 4 4 (COUNT_MAX 4))
         (let base1 := u32 (base + off) in
          match r32 b o base1 with
          | None => VOob
          | Some n => vloop (Z.to_nat n) (u32 (base1 + 4))
                        (fun bi => match r32 b o bi with None => VOob | Some off' => elem bi off' end)
          end))
       (SND -> (let q := o + base + off in
                if need_ok b addr q 4 4 then
                  wloop (Z.to_nat (g32 b q)) (q + 4)
                    (fun slot => if need_ok b addr slot 4 4 then welem (follow b slot) else WBad slot 4 4)
                else WBad q 4 4) = WOk).
Proof.
  intros Hr Hb Ho Helem. pose proof Hr as (Ho0 & He0 & Hoe & He & Hao).
  pbind. { apply verify_vector_post; try assumption; [lia|apply count_max_4|apply count_max_4]. }
  intros (Hoff & Hin & Hal & n & Rn & Hn & Hne & _). cbv zeta.
  rewrite (u32_add_nowrap base off) by (unfold in_u32 in *; lia).
  unfold r32 at 1. rewrite Rn.
  rewrite (u32_add_nowrap (base + off) 4) by lia.
  pweak.
  { apply (vloop_post T T_err (fun bi => SND ->
        (if need_ok b addr (o + bi) 4 4 then welem (follow b (o + bi)) else WBad (o + bi) 4 4) = WOk)) with (lim := e).
    - assumption.
    - intros bi Hb0 Hb4 Hbm. unfold r32.
      destruct (rd32_in b (o + bi) Hwf) as [off' [R Hoff']]; [lia|lia|]. rewrite R.
      pweak. { apply (Helem bi off'); assumption. }
      intros HP Hs. rewrite need_ok_intro by lia. unfold follow. rewrite (g32_eq _ _ _ R). auto.
    - lia.
    - lia.
    - rewrite Z2Nat.id by lia. lia. }
  intros Hall Hs.
  replace (o + base + off) with (o + (base + off)) by lia.
  rewrite need_ok_intro by lia. rewrite (g32_eq _ _ _ Rn).
  apply wloop_ok. intros i Hi.
  replace (o + (base + off) + 4 + 4 * i) with (o + (base + off + 4 + 4 * i)) by lia.
  apply Hall; assumption.
Qed.

Lemma verify_string_vector_post o e base off :
  region o e -> 0 <= base -> in_u32 off ->
  post (verify_string_vector b o e base off) (SND -> walk_string_vector b addr (o + base + off) = WOk).
Proof.
  intros Hr Hb Ho. unfold verify_string_vector, walk_string_vector.
  apply (offset_vector_post (verify_string b o e) (walk_string b addr)); try assumption.
  intros bi off' H0 H4 Hm Hoff' R. pweak. { apply verify_string_post; assumption. } auto.
Qed.

Lemma verify_table_vector_post vt wt lim t o e base off ttl :
  cb_ok vt wt lim -> ttl - 1 <= lim -> region o e -> 0 <= base -> in_u32 off ->
  (SND -> (ra t | addr + o)) ->
  post (verify_table_vector b (fun bs of tl => vt o e bs of tl t) o e base off ttl)
       (SND -> (let q := o + base + off in
                if need_ok b addr q 4 4 then
                  wloop (Z.to_nat (g32 b q)) (q + 4)
                    (fun slot => if need_ok b addr slot 4 4 then wt (follow b slot) t else WBad slot 4 4)
                else WBad q 4 4) = WOk).
Proof.
  intros Hcb Hlim Hr Hb Ho Hal. unfold verify_table_vector.
  pif Httl.
  apply (offset_vector_post (fun bi off' => vt o e bi off' (ttl - 1) t) (fun q => wt q t)); try assumption.
  intros bi off' H0 H4 Hm Hoff' R. apply Hcb; assumption.
Qed.


(* ---- structs (union members, struct roots) *)
Lemma verify_struct_post e base off size align :
  0 <= base -> in_u32 off -> e < 4294967296 ->
  post (verify_struct e base off size align)
       (0 <= size < 4294967296 -> 0 < off /\ base + off + size <= e /\ (base + off) mod align = 0).
Proof.
  intros Hb Ho He. unfold verify_struct. unfold in_u32 in Ho.
  pifn H0. apply orb_false_iff in H0. destruct H0 as [H0 H2]. apply orb_false_iff in H0. destruct H0 as [H0 H1].
  apply Z.eqb_neq in H0. apply Z.ltb_ge in H1. apply Z.ltb_ge in H2.
  assert (Eu: u32 (base + off) = base + off) by (unfold u32 in *; lia).
  cbv zeta. rewrite Eu in *.
  pif H3. apply Z.leb_le in H3.
  pif H4. apply Z.leb_le in H4. pif H5. apply Z.eqb_eq in H5. pok. intros Hsize.
  assert (Eu2: u32 (base + off + size) = base + off + size) by (unfold u32 in *; lia).
  rewrite Eu2 in *. repeat split; triv.
Qed.

Lemma verify_buffer_header_noid_post o len :
  post (verify_buffer_header_noid addr o len) ((addr + o) mod 4 = 0 /\ 8 <= len <= U32_MAX - 8).
Proof.
  unfold verify_buffer_header_noid.
  pif H1. apply Z.eqb_eq in H1. rewrite u32_mod in H1 by (try lia; exists 1073741824; reflexivity).
  pif H2. apply Z.leb_le in H2. pif H3. apply Z.leb_le in H3. pok. repeat split; triv.
Qed.

(* ---- per-kind field lemmas *)
Lemma scalar_field_post d id size align :
  td_inv d -> 0 <= id < 32764 -> 0 <= size < 65536 -> pow2_le align 32768 = true ->
  post (verify_field b addr d id false size align)
    (SND -> with_vte b addr (t_o d + t_table d) id
       (fun vte => if vte =? 0 then WOk else
                   if (size =? 0) || need_ok b addr (t_o d + t_table d + vte) size align then WOk
                   else WBad (t_o d + t_table d + vte) size align) = WOk).
Proof.
  intros Hd Hid Hsize Hal. pweak. { apply verify_field_post; eassumption. }
  dinv Hd.
  intros [vte [Hr [Hv [->|(Hn & Hle & Hm)]]]] Hs; rewrite (with_vte_spec d id _ _ Hd Hs Hid Hr).
  - reflexivity.
  - destruct (vte =? 0) eqn:E0; [apply Z.eqb_eq in E0; lia|].
    rewrite need_ok_intro; [rewrite orb_true_r; reflexivity|lia|lia|assumption].
Qed.

Lemma td_region d : td_inv d -> region (t_o d) (t_end d).
Proof. intros H. apply H. Qed.

Lemma vector_field_facts d id req esize align maxc :
  td_inv d -> 0 <= id < 32764 -> 0 < esize -> 0 <= maxc -> maxc * esize <= U32_MAX ->
  post (verify_vector_field b d id req esize align maxc)
    (exists vte, read_vt_entry b d id = Some vte /\
       ((vte = 0 /\ req = false) \/
        (0 < vte /\ vte + 4 <= t_tsize d /\ (t_table d + vte) mod 4 = 0 /\
         exists off, rd32 b (t_o d + (t_table d + vte)) = Some off /\ in_u32 off /\
                     vec_facts (t_o d) (t_end d) (t_table d + vte) off esize align maxc))).
Proof.
  intros Hd Hid Hes Hmc Hmul. unfold verify_vector_field.
  apply (with_field_rd_facts d id req (fun base off => verify_vector b (t_o d) (t_end d) base off esize align maxc)
          (fun base off => vec_facts (t_o d) (t_end d) base off esize align maxc)); [assumption|assumption|].
  intros base off H0 H4 Hm Hoff R. apply verify_vector_post; try assumption; [apply td_region; assumption|lia].
Qed.

Lemma vector_field_post d id req esize align maxc A :
  td_inv d -> 0 <= id < 32764 -> 0 < esize -> 0 <= maxc -> maxc * esize <= U32_MAX ->
  (SND -> divides_b align A = true) -> (SND -> (A | addr + t_o d)) ->
  post (verify_vector_field b d id req esize align maxc)
       (SND -> with_offset_field b addr (t_o d + t_table d) id (fun q => walk_vector b addr q esize align) = WOk).
Proof.
  intros Hd Hid Hes Hmc Hmul HA HAo. unfold verify_vector_field.
  apply (with_field_rd_post d id req (fun base off => verify_vector b (t_o d) (t_end d) base off esize align maxc)
          (fun q => walk_vector b addr q esize align)); [assumption|assumption|].
  intros base off H0 H4 Hm Hoff R. pweak. { apply verify_vector_post; try assumption; [apply td_region; assumption|lia]. }
  dinv Hd.
  intros (Hoff0 & Hin & Hal & n & Rn & Hn & Hne & Haln) Hs.
  apply walk_vector_ok with (n := n).
  - replace (t_o d + base + off) with (t_o d + (base + off)) by lia. exact Rn.
  - lia.
  - nia.
  - lia.
  - replace (addr + (t_o d + base + off)) with (addr + t_o d + (base + off)) by lia. lia.
  - intros Hne0. assert (Hn0 : n <> 0) by (intros ->; lia).
    destruct (divides_b_spec _ _ (HA Hs)) as [Hal0 Hdiv].
    replace (addr + (t_o d + base + off + 4)) with (addr + t_o d + (base + off + 4)) by lia.
    apply abs_aligned with (A := A); auto.
Qed.

Lemma string_field_post d id req :
  td_inv d -> 0 <= id < 32764 ->
  post (verify_string_field b d id req)
       (SND -> with_offset_field b addr (t_o d + t_table d) id (walk_string b addr) = WOk).
Proof.
  intros Hd Hid. unfold verify_string_field.
  apply (with_field_rd_post d id req (verify_string b (t_o d) (t_end d)) (walk_string b addr)); [assumption|assumption|].
  intros base off H0 H4 Hm Hoff R. pweak. { apply verify_string_post; [apply td_region; assumption|lia|assumption]. } auto.
Qed.

Lemma string_vector_field_post d id req :
  td_inv d -> 0 <= id < 32764 ->
  post (verify_string_vector_field b d id req)
       (SND -> with_offset_field b addr (t_o d + t_table d) id (walk_string_vector b addr) = WOk).
Proof.
  intros Hd Hid. unfold verify_string_vector_field.
  apply (with_field_rd_post d id req (verify_string_vector b (t_o d) (t_end d)) (walk_string_vector b addr)); [assumption|assumption|].
  intros base off H0 H4 Hm Hoff R. apply verify_string_vector_post; [apply td_region; assumption|lia|assumption].
Qed.

Lemma table_field_post vt wt d id req t :
  td_inv d -> 0 <= id < 32764 -> cb_ok vt wt (t_ttl d) -> (SND -> (ra t | addr + t_o d)) ->
  post (verify_table_field b (fun o e bs of tl => vt o e bs of tl t) d id req)
       (SND -> with_offset_field b addr (t_o d + t_table d) id (fun q => wt q t) = WOk).
Proof.
  intros Hd Hid Hcb Hal. unfold verify_table_field.
  apply (with_field_rd_post d id req (fun base off => vt (t_o d) (t_end d) base off (t_ttl d) t) (fun q => wt q t));
    [assumption|assumption|].
  intros base off H0 H4 Hm Hoff R. apply Hcb; try assumption; [apply td_region; assumption|lia|lia].
Qed.

Lemma table_vector_field_post vt wt d id req t :
  td_inv d -> 0 <= id < 32764 -> cb_ok vt wt (t_ttl d) -> (SND -> (ra t | addr + t_o d)) ->
  post (verify_table_vector_field b (fun o e bs of tl => vt o e bs of tl t) d id req)
       (SND -> with_offset_field b addr (t_o d + t_table d) id
          (fun q => if need_ok b addr q 4 4 then
                      wloop (Z.to_nat (g32 b q)) (q + 4)
                        (fun slot => if need_ok b addr slot 4 4 then wt (follow b slot) t else WBad slot 4 4)
                    else WBad q 4 4) = WOk).
Proof.
  intros Hd Hid Hcb Hal. unfold verify_table_vector_field.
  apply (with_field_rd_post d id req
          (fun base off => verify_table_vector b (fun bs of tl => vt (t_o d) (t_end d) bs of tl t) (t_o d) (t_end d) base off (t_ttl d))
          (fun q => if need_ok b addr q 4 4 then
                      wloop (Z.to_nat (g32 b q)) (q + 4)
                        (fun slot => if need_ok b addr slot 4 4 then wt (follow b slot) t else WBad slot 4 4)
                    else WBad q 4 4)); [assumption|assumption|].
  intros base off H0 H4 Hm Hoff R.
  apply (verify_table_vector_post vt wt (t_ttl d) t (t_o d) (t_end d) base off (t_ttl d)); try assumption;
    [lia|apply td_region; assumption|lia].
Qed.

(* ---- unions *)
Lemma union_verifier_post vt wt lim u o e ty base off ttl A :
  cb_ok vt wt lim -> ttl <= lim -> region o e -> 0 <= base -> in_u32 off ->
  (SND -> forallb (member_ra_ok ra A) (union_members S u) = true) -> (SND -> (A | addr + o)) ->
  post (union_verifier b S vt u o e ty base off ttl)
       (SND -> walk_union_member b addr S wt u ty (o + base + off) = WOk).
Proof.
  intros Hcb Hl Hr Hb Ho HA HAo. unfold union_verifier, walk_union_member.
  destruct (find_member (union_members S u) ty) as [m|] eqn:F; [|pok; auto].
  pose proof (schema_wf_member S u ty m HS F) as Hm.
  assert (Hra' : SND -> member_ra_ok ra A (ty, m) = true).
  { intros Hs. specialize (HA Hs). rewrite forallb_forall in HA. apply HA. apply find_member_In. exact F. }
  pose proof Hr as (Ho0 & He0 & Hoe & He & Hao).
  destruct m as [t|size align|].
  - apply Hcb; try assumption. intros Hs. specialize (Hra' Hs). unfold member_ra_ok in Hra'. cbn [snd] in Hra'.
    apply divides_b_spec in Hra'. destruct Hra' as [_ Hdiv]. eapply Z.divide_trans; [exact Hdiv|auto].
  - cbn [umember_wf] in Hm. apply andb_true_iff in Hm. destruct Hm as [Hm Hp]. apply andb_true_iff in Hm.
    destruct Hm as [Hs0 Hs1]. apply Z.leb_le in Hs0. apply Z.ltb_lt in Hs1.
    pweak. { apply verify_struct_post; try assumption; lia. }
    intros HP Hs. destruct HP as (H0 & Hle & Hmod); [lia|].
    specialize (Hra' Hs). unfold member_ra_ok in Hra'. cbn [snd] in Hra'.
    apply divides_b_spec in Hra'. destruct Hra' as [Hal0 Hdiv].
    rewrite need_ok_intro; [rewrite orb_true_r; reflexivity|lia|lia|].
    replace (addr + (o + base + off)) with (addr + o + (base + off)) by lia.
    apply abs_aligned with (A := A); auto.
  - pweak. { apply verify_string_post; assumption. } auto.
Qed.

Lemma union_field_post vt wt d f u A :
  fk f = FUnion u -> td_inv d -> 1 <= fid f < 32764 -> cb_ok vt wt (t_ttl d) ->
  (SND -> forallb (member_ra_ok ra A) (union_members S u) = true) -> (SND -> (A | addr + t_o d)) ->
  post (verify_union_field b addr (union_verifier b S vt u) d (fid f) (freq f))
       (SND -> walk_field b addr S wt (t_o d + t_table d) f = WOk).
Proof.
  intros K Hd Hid Hcb HA HAo.
  assert (Hid1: 0 <= fid f - 1 < 32764) by lia. assert (Hid0 : 0 <= fid f < 32764) by lia.
  destruct (read_vt_entry_ex d (fid f - 1) Hd Hid1) as [vty [Rty Hvty]].
  destruct (read_vt_entry_ex d (fid f) Hd Hid0) as [vtab [Rtab Hvtab]].
  dinv Hd.
  unfold verify_union_field. rewrite Rty.
  destruct (vty =? 0) eqn:E0.
  - apply Z.eqb_eq in E0. subst vty. rewrite Rtab. pif H1. pif H2. pok. intros Hs.
    unfold walk_field. rewrite K.
    rewrite (with_vte_spec d (fid f - 1) 0 _ Hd Hs Hid1 Rty). reflexivity.
  - pbind. { apply (verify_field_post d (fid f - 1) false 1 1); [assumption|lia|lia|reflexivity]. }
    intros [vte' [Rty' [_ Hcase]]]. rewrite Rty in Rty'. some_inj Rty'. subst vte'.
    destruct Hcase as [Hz|(_ & Hle & _)]; [apply Z.eqb_neq in E0; contradiction|].
    rewrite Rtab. unfold r8.
    destruct (rd8_in b (t_o d + (t_table d + vty)) Hwf) as [ty [Rt Hty]]; [lia|lia|]. rewrite Rt.
    pif H1.
    assert (Hreader : forall W, SND ->
       (if ty =? 0 then WOk else with_offset_field b addr (t_o d + t_table d) (fid f)
                                  (fun target => walk_union_member b addr S wt u ty target)) = W ->
       walk_field b addr S wt (t_o d + t_table d) f = W).
    { intros W Hs HW. unfold walk_field. rewrite K.
      rewrite (with_vte_spec d (fid f - 1) vty _ Hd Hs Hid1 Rty). rewrite E0.
      replace (t_o d + t_table d + vty) with (t_o d + (t_table d + vty)) by lia.
      rewrite need_ok_intro; [|lia|lia|apply mod1].
      rewrite (g8_eq _ _ _ Rt). exact HW. }
    destruct (ty =? 0) eqn:Ety.
    + pok. intros Hs. apply Hreader; auto.
    + pweak.
      { apply (with_field_rd_post d (fid f) (freq f)
                 (fun base off => union_verifier b S vt u (t_o d) (t_end d) ty base off (t_ttl d))
                 (fun target => walk_union_member b addr S wt u ty target)); [assumption|lia|].
        intros base off H0 H4 Hm Hoff R.
        apply union_verifier_post with (lim := t_ttl d) (A := A); try assumption; [lia|apply td_region; assumption|lia]. }
      intros HP Hs. apply Hreader; auto.
Qed.

Lemma uloop_post vt wt lim u o e ttl A :
  cb_ok vt wt lim -> ttl <= lim -> region o e ->
  (SND -> forallb (member_ra_ok ra A) (union_members S u) = true) -> (SND -> (A | addr + o)) ->
  forall n base types, 0 <= base -> base mod 4 = 0 -> base + 4 * Z.of_nat n <= e ->
    0 <= types -> types + Z.of_nat n <= e ->
  post (uloop b n o base types ttl (union_verifier b S vt u o e))
       (SND -> wuloop b addr S wt u n (o + types) (o + base) = WOk).
Proof.
  intros Hcb Hl Hr HA HAo. pose proof Hr as (Ho0 & He0 & Hoe & He & Hao).
  induction n; intros base types Hb Hbm Hbn Ht Htn.
  - pok. intros _. reflexivity.
  - cbn [uloop]. unfold r32, r8.
    destruct (rd32_in b (o + base) Hwf) as [elem [Re Helem]]; [lia|lia|].
    destruct (rd8_in b (o + types) Hwf) as [ty [Rt Hty]]; [lia|lia|]. rewrite Re, Rt.
    apply (post_bind T) with (P1 := SND ->
       (if need_ok b addr (o + types) 1 1 then
          (if g8 b (o + types) =? 0 then WOk
           else if need_ok b addr (o + base) 4 4
                then walk_union_member b addr S wt u (g8 b (o + types)) (follow b (o + base))
                else WBad (o + base) 4 4)
        else WBad (o + types) 1 1) = WOk).
    + destruct (elem =? 0) eqn:Ee.
      * pif H1. apply Z.eqb_eq in H1. pok. intros Hs.
        rewrite need_ok_intro; [|lia|lia|apply mod1]. rewrite (g8_eq _ _ _ Rt). subst ty. reflexivity.
      * pif H1. apply negb_true_iff in H1.
        pweak. { apply union_verifier_post with (wt := wt) (lim := lim) (A := A); try assumption. }
        intros HP Hs.
        rewrite need_ok_intro; [|lia|lia|apply mod1]. rewrite (g8_eq _ _ _ Rt). rewrite H1.
        rewrite need_ok_intro by lia. unfold follow. rewrite (g32_eq _ _ _ Re). exact (HP Hs).
    + intros Hhead. rewrite u32_add_nowrap by lia.
      pweak. { apply (IHn (base + 4) (types + 1)); lia. }
      intros Htail Hs. cbn [wuloop]. rewrite (Hhead Hs).
      replace (o + types + 1) with (o + (types + 1)) by lia.
      replace (o + base + 4) with (o + (base + 4)) by lia. exact (Htail Hs).
Qed.

Lemma verify_union_vector_post vt wt lim u o e base off count types ttl A :
  cb_ok vt wt lim -> ttl - 1 <= lim -> region o e -> 0 <= base -> in_u32 off ->
  (SND -> forallb (member_ra_ok ra A) (union_members S u) = true) -> (SND -> (A | addr + o)) ->
  0 <= types -> types + count <= e ->
  post (verify_union_vector b o e base off count types ttl (union_verifier b S vt u o e))
    (0 < off /\ base + off + 4 <= e /\ (base + off) mod 4 = 0 /\ rd32 b (o + (base + off)) = Some count /\
     (SND -> wuloop b addr S wt u (Z.to_nat count) (o + types) (o + (base + off + 4)) = WOk)).
Proof.
  intros Hcb Hl Hr Hb Ho HA HAo Ht Htc. pose proof Hr as (Ho0 & He0 & Hoe & He & Hao).
  unfold verify_union_vector. pif Httl.
  pbind. { apply verify_vector_post; try assumption; [lia|apply count_max_4|apply count_max_4]. }
  intros (Hoff & Hin & Hal & n & Rn & Hn & Hne & _). cbv zeta.
  rewrite (u32_add_nowrap base off) by (unfold in_u32 in *; lia).
  unfold r32. rewrite Rn. pif Hc. apply Z.eqb_eq in Hc. subst n.
  rewrite (u32_add_nowrap (base + off) 4) by lia.
  pweak. { apply (uloop_post vt wt lim u o e (ttl - 1) A Hcb Hl Hr HA HAo (Z.to_nat count) (base + off + 4) types);
           rewrite ?Z2Nat.id by lia; lia. }
  intros HP. repeat split; triv.
Qed.

Lemma union_vector_field_post vt wt d f u A :
  fk f = FUnionVec u -> td_inv d -> 1 <= fid f < 32764 -> cb_ok vt wt (t_ttl d) ->
  (SND -> forallb (member_ra_ok ra A) (union_members S u) = true) -> (SND -> (A | addr + t_o d)) ->
  post (verify_union_vector_field b (union_verifier b S vt u) d (fid f) (freq f))
       (SND -> walk_field b addr S wt (t_o d + t_table d) f = WOk).
Proof.
  intros K Hd Hid Hcb HA HAo.
  assert (Hid1: 0 <= fid f - 1 < 32764) by lia. assert (Hid0 : 0 <= fid f < 32764) by lia.
  destruct (read_vt_entry_ex d (fid f - 1) Hd Hid1) as [vty [Rty Hvty]].
  destruct (read_vt_entry_ex d (fid f) Hd Hid0) as [vtab [Rtab Hvtab]].
  dinv Hd.
  unfold verify_union_vector_field, verify_union_vector_field_gen. rewrite Rty, Rtab.
  apply (post_bind T) with (P1 := True).
  { destruct ((vty =? 0) && (vtab =? 0)); [pif H; pok; exact I | pok; exact I]. }
  intros _.
  apply (post_bind T) with (P1 := True).
  { cbn [andb]. destruct ((vty =? 0) && negb (vtab =? 0)); [perr | pok; exact I]. }
  intros _.
  pbind. { apply (vector_field_facts d (fid f - 1) (freq f) 1 1 (COUNT_MAX 1)); try assumption; [lia|apply count_max_1|apply count_max_1]. }
  intros [vte [Rty' Hcase]]. rewrite Rty in Rty'. some_inj Rty'. subst vte.
  destruct Hcase as [[-> _] | (H0 & H4 & Hm & toff & Rtoff & Htoff & (Hoff & Hin & Hal & count & Rcount & Hcnt & Hcb' & _))].
  - cbn [Z.eqb]. pok. intros Hs. unfold walk_field. rewrite K. apply with_offset_field_absent; assumption.
  - destruct (vty =? 0) eqn:E0; [apply Z.eqb_eq in E0; lia|].
    unfold r32 at 1. rewrite Rtoff. cbv zeta. unfold r32 at 1. rewrite Rcount.
    pweak.
    { apply (with_field_rd_facts d (fid f) true
               (fun base off => verify_union_vector b (t_o d) (t_end d) base off count (t_table d + vty + toff + 4)
                                  (t_ttl d) (union_verifier b S vt u (t_o d) (t_end d)))
               (fun base off => 0 < off /\ base + off + 4 <= t_end d /\ (base + off) mod 4 = 0 /\
                   rd32 b (t_o d + (base + off)) = Some count /\
                   (SND -> wuloop b addr S wt u (Z.to_nat count) (t_o d + (t_table d + vty + toff + 4))
                             (t_o d + (base + off + 4)) = WOk))); [assumption|lia|].
      intros base off Hb0 Hb4 Hbm Hoff' R.
      apply verify_union_vector_post with (lim := t_ttl d) (A := A); try assumption; try lia.
      apply td_region; assumption. }
    intros [vte [Rtab' [[_ Hfalse]|(H0' & H4' & Hm' & voff & Rvoff & Hvoff & (Hvoff0 & Hvin & Hval & Rvc & HW))]]] Hs;
      [discriminate|].
    rewrite Rtab in Rtab'. some_inj Rtab'. subst vte.
    unfold walk_field. rewrite K.
    rewrite (with_offset_field_present d (fid f - 1) vty toff _ Hd Hs Hid1 Rty H0 H4 Hm Rtoff).
    replace (t_o d + (t_table d + vty) + toff) with (t_o d + (t_table d + vty + toff)) by lia.
    rewrite need_ok_intro by lia. rewrite (g32_eq _ _ _ Rcount).
    destruct (count =? 0) eqn:Ec; [reflexivity|]. apply Z.eqb_neq in Ec.
    rewrite need_ok_intro; [|lia|lia|apply mod1]. cbn [orb].
    rewrite (with_vte_spec d (fid f) vtab _ Hd Hs Hid0 Rtab).
    destruct (vtab =? 0) eqn:E1; [apply Z.eqb_eq in E1; lia|].
    replace (t_o d + t_table d + vtab) with (t_o d + (t_table d + vtab)) by lia.
    rewrite need_ok_intro by lia. cbv zeta. unfold follow. rewrite (g32_eq _ _ _ Rvoff).
    replace (t_o d + (t_table d + vtab) + voff) with (t_o d + (t_table d + vtab + voff)) by lia.
    rewrite need_ok_intro by lia.
    replace (t_o d + (t_table d + vty + toff) + 4) with (t_o d + (t_table d + vty + toff + 4)) by lia.
    replace (t_o d + (t_table d + vtab + voff) + 4) with (t_o d + (t_table d + vtab + voff + 4)) by lia.
    exact (HW Hs).
Qed.


(* ---- nested roots *)
Lemma nested_table_post vt wt d f al t A :
  fk f = FNestedTable al t -> td_inv d -> 0 <= fid f < 32764 -> cb_ok vt wt (t_ttl d) ->
  (SND -> divides_b (ra t) 4 || (divides_b al A && divides_b (ra t) al) = true) -> (SND -> (A | addr + t_o d)) ->
  post (verify_table_as_nested_root b addr (fun o e bs of tl => vt o e bs of tl t) d (fid f) (freq f) al)
       (SND -> walk_field b addr S wt (t_o d + t_table d) f = WOk).
Proof.
  intros K Hd Hid Hcb HA HAo. dinv Hd.
  unfold verify_table_as_nested_root.
  pbind. { apply (vector_field_facts d (fid f) (freq f) 1 al (COUNT_MAX 1)); try assumption; [lia|apply count_max_1|apply count_max_1]. }
  intros [vte [Rv Hcase]]. unfold get_field_pos. rewrite Rv.
  destruct Hcase as [[-> _] | (H0 & H4 & Hm & off & Roff & Hoff & (Hoff0 & Hin & Hal & n & Rn & Hn & Hne & Haln))].
  - cbn [Z.eqb]. pok. intros Hs. unfold walk_field. rewrite K. apply with_offset_field_absent; assumption.
  - destruct (vte =? 0) eqn:E0; [apply Z.eqb_eq in E0; lia|].
    destruct (t_table d + vte =? 0) eqn:E1; [apply Z.eqb_eq in E1; lia|].
    unfold r32 at 1. rewrite Roff. cbv zeta. unfold r32 at 1. rewrite Rn.
    set (o' := t_o d + (t_table d + vte + off) + 4).
    pbind. { apply verify_buffer_header_noid_post. }
    intros (Hao' & Hn8 & HnM). unfold U32_MAX in HnM.
    unfold r32. destruct (rd32_in b (o' + 0) Hwf) as [roff [Rr Hroff]]; [lia|lia|]. rewrite Rr.
    assert (Hreg' : region o' n) by (unfold region; repeat split; lia).
    pweak.
    { apply (Hcb o' n 0 roff (t_ttl d) t Hreg'); [lia|assumption|lia|]. intros Hs.
      specialize (HA Hs). apply orb_true_iff in HA. destruct HA as [H4d | HA].
      - apply divides_b_spec in H4d. destruct H4d as [_ H4d]. eapply Z.divide_trans; [exact H4d|].
        apply mod0_divide; [lia|assumption].
      - apply andb_true_iff in HA. destruct HA as [HA1 HA2].
        apply divides_b_spec in HA1. destruct HA1 as [Hal0 HalA].
        apply divides_b_spec in HA2. destruct HA2 as [_ Hraal].
        eapply Z.divide_trans; [exact Hraal|].
        replace (addr + o') with (addr + t_o d + (t_table d + vte + off + 4)) by lia.
        apply Z.divide_add_r.
        + eapply Z.divide_trans; [exact HalA|auto].
        + apply mod0_divide; [assumption|]. apply Haln. lia. }
    intros HP Hs. unfold walk_field. rewrite K.
    rewrite (with_offset_field_present d (fid f) vte off _ Hd Hs Hid Rv H0 H4 Hm Roff).
    replace (t_o d + (t_table d + vte) + off) with (t_o d + (t_table d + vte + off)) by lia.
    rewrite need_ok_intro by lia. rewrite (g32_eq _ _ _ Rn).
    rewrite need_ok_intro; [|lia|lia|apply mod1]. rewrite orb_true_r.
    unfold walk_root_table. fold o'.
    rewrite need_ok_intro by lia. unfold follow.
    replace o' with (o' + 0) at 2 by lia. rewrite (g32_eq _ _ _ Rr).
    specialize (HP Hs). rewrite <- HP. f_equal. lia.
Qed.

Lemma nested_struct_post wt d f size al A :
  fk f = FNestedStruct size al -> td_inv d -> 0 <= fid f < 32764 -> 0 <= size < 65536 ->
  (SND -> divides_b al A = true) -> (SND -> (A | addr + t_o d)) ->
  post (verify_struct_as_nested_root b addr d (fid f) (freq f) size al)
       (SND -> walk_field b addr S wt (t_o d + t_table d) f = WOk).
Proof.
  intros K Hd Hid Hsize HA HAo. dinv Hd.
  unfold verify_struct_as_nested_root.
  pbind. { apply (vector_field_facts d (fid f) (freq f) 1 al (COUNT_MAX 1)); try assumption; [lia|apply count_max_1|apply count_max_1]. }
  intros [vte [Rv Hcase]]. unfold get_field_pos. rewrite Rv.
  destruct Hcase as [[-> _] | (H0 & H4 & Hm & off & Roff & Hoff & (Hoff0 & Hin & Hal & n & Rn & Hn & Hne & Haln))].
  - cbn [Z.eqb]. pok. intros Hs. unfold walk_field. rewrite K. apply with_offset_field_absent; assumption.
  - destruct (vte =? 0) eqn:E0; [apply Z.eqb_eq in E0; lia|].
    destruct (t_table d + vte =? 0) eqn:E1; [apply Z.eqb_eq in E1; lia|].
    unfold r32 at 1. rewrite Roff. cbv zeta. unfold r32 at 1. rewrite Rn.
    set (o' := t_o d + (t_table d + vte + off) + 4).
    unfold verify_struct_as_root_at.
    pbind. { apply verify_buffer_header_noid_post. }
    intros (Hao' & Hn8 & HnM). unfold U32_MAX in HnM.
    unfold r32. destruct (rd32_in b (o' + 0) Hwf) as [roff [Rr Hroff]]; [lia|lia|]. rewrite Rr.
    pweak. { apply verify_struct_post; [lia|assumption|lia]. }
    intros HP Hs. destruct HP as (Hr0 & Hrle & Hrm); [lia|]. unfold walk_field. rewrite K.
    rewrite (with_offset_field_present d (fid f) vte off _ Hd Hs Hid Rv H0 H4 Hm Roff).
    replace (t_o d + (t_table d + vte) + off) with (t_o d + (t_table d + vte + off)) by lia.
    rewrite need_ok_intro by lia. rewrite (g32_eq _ _ _ Rn).
    rewrite need_ok_intro; [|lia|lia|apply mod1]. rewrite orb_true_r.
    unfold walk_root_struct. fold o'.
    rewrite need_ok_intro by lia. unfold follow.
    replace o' with (o' + 0) at 2 by lia. rewrite (g32_eq _ _ _ Rr).
    destruct (divides_b_spec _ _ (HA Hs)) as [Hal0 HalA].
    rewrite need_ok_intro; [rewrite orb_true_r; reflexivity|lia|lia|].
    replace (addr + (o' + roff)) with (addr + t_o d + (t_table d + vte + off + 4 + (0 + roff))) by lia.
    apply abs_aligned with (A := A); auto.
    apply divide_mod0; [assumption|]. apply Z.divide_add_r; apply mod0_divide; auto. apply Haln. lia.
Qed.

(* ---- the generated table verifier *)
Lemma field_wf_spec f : field_wf f = true ->
  0 <= fid f < 32764 /\ fkind_wf (fk f) = true /\
  match fk f with FUnion _ | FUnionVec _ => 1 <= fid f | _ => True end.
Proof.
  unfold field_wf. intros H. apply andb_true_iff in H. destruct H as [H H4]. apply andb_true_iff in H.
  destruct H as [H H3]. apply andb_true_iff in H. destruct H as [H1 H2].
  apply Z.leb_le in H1. apply Z.ltb_lt in H2. split; [lia|]. split; [assumption|].
  destruct (fk f); try exact I; apply Z.leb_le in H4; assumption.
Qed.

Lemma verify_one_post vt wt d f A :
  td_inv d -> field_wf f = true -> cb_ok vt wt (t_ttl d) ->
  (SND -> field_ra_ok S ra A f = true) -> (SND -> (A | addr + t_o d)) ->
  post (verify_one b addr S vt d f) (SND -> walk_field b addr S wt (t_o d + t_table d) f = WOk).
Proof.
  intros Hd Hf Hcb HA HAo. apply field_wf_spec in Hf. destruct Hf as (Hid & Hk & Hu).
  unfold verify_one. cbv zeta. unfold field_ra_ok in HA.
  destruct (fk f) as [size align| |esize align maxc| |t|t|u|u|align t|size align] eqn:K; cbn [fkind_wf] in Hk.
  - (* FScalar *)
    apply andb_true_iff in Hk. destruct Hk as [Hk _]. apply andb_true_iff in Hk. destruct Hk as [Hk Hp].
    apply andb_true_iff in Hk. destruct Hk as [Hs0 Hs1]. apply Z.leb_le in Hs0. apply Z.ltb_lt in Hs1.
    pweak. { apply scalar_field_post; try eassumption. lia. }
    intros HP Hs. unfold walk_field. rewrite K. auto.
  - (* FString *)
    pweak. { apply string_field_post; assumption. }
    intros HP Hs. unfold walk_field. rewrite K. auto.
  - (* FVector *)
    apply andb_true_iff in Hk. destruct Hk as [Hk Hmul]. apply andb_true_iff in Hk. destruct Hk as [Hk Hmc].
    apply andb_true_iff in Hk. destruct Hk as [Hk _]. apply andb_true_iff in Hk. destruct Hk as [Hk Hp].
    apply andb_true_iff in Hk. destruct Hk as [Hs0 Hs1].
    apply Z.ltb_lt in Hs0. apply Z.leb_le in Hmc. apply Z.leb_le in Hmul.
    pweak. { apply (vector_field_post d (fid f) (freq f) esize align maxc A); assumption. }
    intros HP Hs. unfold walk_field. rewrite K. auto.
  - (* FStringVec *)
    pweak. { apply string_vector_field_post; assumption. }
    intros HP Hs. unfold walk_field. rewrite K. auto.
  - (* FTable *)
    pweak. { apply (table_field_post vt wt d (fid f) (freq f) t); try assumption.
             intros Hs. destruct (divides_b_spec _ _ (HA Hs)) as [_ Hdv]. eapply Z.divide_trans; [exact Hdv|auto]. }
    intros HP Hs. unfold walk_field. rewrite K. auto.
  - (* FTableVec *)
    pweak. { apply (table_vector_field_post vt wt d (fid f) (freq f) t); try assumption.
             intros Hs. destruct (divides_b_spec _ _ (HA Hs)) as [_ Hdv]. eapply Z.divide_trans; [exact Hdv|auto]. }
    intros HP Hs. unfold walk_field. rewrite K. auto.
  - (* FUnion *)
    apply (union_field_post vt wt d f u A); try assumption. lia.
  - (* FUnionVec *)
    apply (union_vector_field_post vt wt d f u A); try assumption. lia.
  - (* FNestedTable *)
    apply (nested_table_post vt wt d f align t A); assumption.
  - (* FNestedStruct *)
    apply andb_true_iff in Hk. destruct Hk as [Hk Hp]. apply andb_true_iff in Hk. destruct Hk as [Hs0 Hs1].
    apply Z.leb_le in Hs0. apply Z.ltb_lt in Hs1.
    apply (nested_struct_post wt d f size align A); try assumption. lia.
Qed.

Lemma verify_fields_post vt wt d A : td_inv d -> cb_ok vt wt (t_ttl d) -> (SND -> (A | addr + t_o d)) ->
  forall fs, (forall f, In f fs -> field_wf f = true /\ (SND -> field_ra_ok S ra A f = true)) ->
  post (verify_fields b addr S vt d fs) (SND -> walk_fields b addr S wt (t_o d + t_table d) fs = WOk).
Proof.
  intros Hd Hcb HAo. induction fs as [|f r IH]; intros Hall.
  - pok. intros _. reflexivity.
  - cbn [verify_fields]. pbind.
    { apply (verify_one_post vt wt d f A); try assumption; apply Hall; left; reflexivity. }
    intros H1. pweak. { apply IH. intros f' Hin. apply Hall. right. assumption. }
    intros H2 Hs. cbn [walk_fields]. rewrite (H1 Hs). exact (H2 Hs).
Qed.

(* ---- the recursion: fuel is never the reason for a verdict when ttl <= fuel *)
Lemma verify_table_post : forall fuel o e base off ttl t,
  region o e -> 0 <= base -> in_u32 off ->
  (T VFuel \/ (ttl <= Z.of_nat fuel /\ (1 <= fuel)%nat)) ->
  (SND -> (ra t | addr + o)) ->
  post (verify_table b addr S fuel o e base off ttl t)
       (SND -> walk_table b addr S fuel (o + base + off) t = WOk).
Proof.
  induction fuel as [|fuel IH]; intros o e base off ttl t Hr Hb Ho Hfuel Hal.
  - cbn [verify_table]. right. split; [discriminate|]. destruct Hfuel as [H|[_ H]]; [assumption|lia].
  - cbn [verify_table]. apply verify_table_with_post; try assumption.
    intros d Hd Eo Ee Et Ettl Httl.
    assert (Hcb : cb_ok (verify_table b addr S fuel) (walk_table b addr S fuel) (t_ttl d)).
    { intros o1 e1 base1 off1 ttl1 t1 Hr1 Hb1 Ho1 Hl1 Hal1. apply IH; try assumption.
      destruct Hfuel as [H|[H1 H2]]; [left; assumption|right; lia]. }
    pweak.
    { apply (verify_fields_post (verify_table b addr S fuel) (walk_table b addr S fuel) d (ra t) Hd Hcb).
      - rewrite Eo. assumption.
      - intros f Hin. split.
        + eapply schema_wf_field; eassumption.
        + intros Hs. apply ra_ok_field; auto. }
    intros HP Hs. cbn [walk_table]. dinv Hd.
    replace (o + base + off) with (t_o d + t_table d) by lia.
    rewrite need_ok_intro by lia. exact (HP Hs).
Qed.

(* ---- roots *)
Definition ws (v : variant) : bool := match v with WithSize => true | Plain => false end.

Lemma verify_root_post fuel r v :
  (SND -> root_wf r) ->
  (T VFuel \/ (VERIFIER_MAX_LEVELS <= Z.of_nat fuel /\ (1 <= fuel)%nat)) ->
  (SND -> root_aligned ra addr r) ->
  post (verify_root b addr S fuel r v) (SND -> walk_root b addr S fuel r (ws v) = WOk).
Proof.
  intros Hrw Hfuel Hal. destruct Hwf as [Hlen _].
  unfold verify_root, walk_root. destruct r as [t|size align]; cbn [root_wf root_aligned] in *.
  - unfold verify_table_as_root. destruct v; cbn [ws].
    + pbind. { apply verify_buffer_header_noid_post. }
      intros (Hao & H8 & HM). unfold U32_MAX in HM. unfold r32.
      destruct (rd32_in b (0 + 0) Hwf) as [off [R Hoff]]; [lia|lia|]. rewrite R.
      assert (Hreg : region 0 (blen b)) by (unfold region; repeat split; lia).
      pweak. { apply (verify_table_post fuel 0 (blen b) 0 off VERIFIER_MAX_LEVELS t Hreg); try assumption; [lia|].
               intros Hs. replace (addr + 0) with addr by lia. auto. }
      intros HP Hs. unfold walk_root_table.
      rewrite need_ok_intro by lia. unfold follow. replace 0 with (0 + 0) at 2 by lia. rewrite (g32_eq _ _ _ R).
      exact (HP Hs).
    + pif H1. apply Z.eqb_eq in H1. rewrite u32_mod in H1 by (try lia; exists 1073741824; reflexivity).
      pif H2. apply Z.leb_le in H2. unfold U32_MAX in H2. pif H3. apply Z.leb_le in H3. unfold r32.
      destruct (rd32_in b (0 + 0) Hwf) as [sf [Rsf Hsf]]; [lia|lia|]. rewrite Rsf. unfold in_u32 in Hsf.
      pif H4. apply Z.leb_le in H4.
      destruct (rd32_in b (0 + 4) Hwf) as [off [R Hoff]]; [lia|lia|]. rewrite R.
      assert (Hreg : region 0 (sf + 4)) by (unfold region; repeat split; lia).
      pweak. { apply (verify_table_post fuel 0 (sf + 4) 4 off VERIFIER_MAX_LEVELS t Hreg); try assumption; [lia|].
               intros Hs. replace (addr + 0) with addr by lia. auto. }
      intros HP Hs. rewrite need_ok_intro by lia. unfold walk_root_table.
      rewrite need_ok_intro by lia. unfold follow. assert (R' : rd32 b 4 = Some off) by exact R. rewrite (g32_eq _ _ _ R').
      specialize (HP Hs). rewrite <- HP. f_equal.
  - unfold verify_struct_as_root. destruct v; cbn [ws].
    + unfold verify_struct_as_root_at.
      pbind. { apply verify_buffer_header_noid_post. }
      intros (Hao & H8 & HM). unfold U32_MAX in HM. unfold r32.
      destruct (rd32_in b (0 + 0) Hwf) as [off [R Hoff]]; [lia|lia|]. rewrite R.
      pweak. { apply verify_struct_post; [lia|assumption|lia]. }
      intros HP Hs. destruct (Hrw Hs) as [Hsize Hal0]. destruct (HP Hsize) as (H0 & Hle & Hm). unfold walk_root_struct.
      rewrite need_ok_intro by lia. unfold follow. assert (R' : rd32 b 0 = Some off) by exact R. rewrite (g32_eq _ _ _ R').
      rewrite need_ok_intro; [rewrite orb_true_r; reflexivity|lia|lia|].
      
      apply abs_aligned with (A := align); auto. apply Z.divide_refl.
    + pif H1. apply Z.eqb_eq in H1. rewrite u32_mod in H1 by (try lia; exists 1073741824; reflexivity).
      pif H2. apply Z.leb_le in H2. unfold U32_MAX in H2. pif H3. apply Z.leb_le in H3. unfold r32.
      destruct (rd32_in b (0 + 0) Hwf) as [sf [Rsf Hsf]]; [lia|lia|]. rewrite Rsf. unfold in_u32 in Hsf.
      pif H4. apply Z.leb_le in H4.
      destruct (rd32_in b (0 + 4) Hwf) as [off [R Hoff]]; [lia|lia|]. rewrite R.
      pweak. { apply verify_struct_post; [lia|assumption|lia]. }
      intros HP Hs. destruct (Hrw Hs) as [Hsize Hal0]. destruct (HP Hsize) as (H0 & Hle & Hm).
      rewrite need_ok_intro by lia. unfold walk_root_struct.
      rewrite need_ok_intro by lia. unfold follow. assert (R' : rd32 b 4 = Some off) by exact R. rewrite (g32_eq _ _ _ R').
      rewrite need_ok_intro; [rewrite orb_true_r; reflexivity|lia|lia|].
      
      apply abs_aligned with (A := align); auto. apply Z.divide_refl.
Qed.

End Main.
