(* C09, builder side, part 1: the evolution relation on the FORMAT-side schema type (Format/Schema.v) and monotonicity
   of script typing (Builder/Script.v) under it.

   [extends A B] (decidable): every table of A is a table of B at the same index whose field list contains A's fields
   as an order-preserving sub-list with identical descriptors (id, required flag, kind), every field B adds is NOT
   required; every union of A is a union of B at the same index in which every code A lists means the same member;
   B may have more tables, unions, fields and members.

   Typing of a build script over A carries over to B with the SAME value (Spec.value does not mention the schema; the
   fields B adds are absent) provided the script adds no vtable slot that is one of B's new ids in that table.
   [wt_script] alone does not give that: it lets a table carry add calls whose id is not a field of the schema (they are
   harmless for one schema, they are what an even newer writer produces).  [tight A]: every add call of a table of type t
   names an id of A's table t (a union's type slot included) - that is what code generated from A can do. *)
From Flatcc.Format Require Import Schema Spec.
From Flatcc.Builder Require Import EmitModel VMem Objects Leaves OffVec TableLayout Table Buffer Script.
Local Open Scope Z_scope.

(* ------------------------------------------------------------------ boolean equalities (format side) *)
Definition fkind_eqb (a b : fkind) : bool :=
  match a, b with
  | FScalar s1 a1, FScalar s2 a2 => (s1 =? s2) && (a1 =? a2)
  | FString, FString => true
  | FVector e1 a1 m1, FVector e2 a2 m2 => (e1 =? e2) && (a1 =? a2) && (m1 =? m2)
  | FStringVec, FStringVec => true
  | FTable t1, FTable t2 => Nat.eqb t1 t2
  | FTableVec t1, FTableVec t2 => Nat.eqb t1 t2
  | FUnion u1, FUnion u2 => Nat.eqb u1 u2
  | FUnionVec u1, FUnionVec u2 => Nat.eqb u1 u2
  | FNestedTable a1 t1, FNestedTable a2 t2 => (a1 =? a2) && Nat.eqb t1 t2
  | FNestedStruct s1 a1, FNestedStruct s2 a2 => (s1 =? s2) && (a1 =? a2)
  | _, _ => false
  end.

Definition field_eqb (f g : field) : bool :=
  (fid f =? fid g) && Bool.eqb (frequired f) (frequired g) && fkind_eqb (fk f) (fk g).

Definition umember_eqb (a b : umember) : bool :=
  match a, b with
  | UTable t1, UTable t2 => Nat.eqb t1 t2
  | UStruct s1 a1, UStruct s2 a2 => (s1 =? s2) && (a1 =? a2)
  | UString, UString => true
  | _, _ => false
  end.

(* ------------------------------------------------------------------ the relation *)
(* A's fields are an order-preserving sub-list of B's; what B adds is not required *)
Fixpoint fields_ext (fa fb : list field) : bool :=
  match fb with
  | [] => match fa with [] => true | _ :: _ => false end
  | g :: rb =>
    match fa with
    | f :: ra => if field_eqb f g then fields_ext ra rb else negb (frequired g) && fields_ext fa rb
    | [] => negb (frequired g) && fields_ext [] rb
    end
  end.

(* the fields B adds *)
Fixpoint new_fields (fa fb : list field) : list field :=
  match fb with
  | [] => []
  | g :: rb =>
    match fa with
    | f :: ra => if field_eqb f g then new_fields ra rb else g :: new_fields fa rb
    | [] => g :: new_fields [] rb
    end
  end.

(* every code the old union lists means the same member in the new union *)
Definition members_ext (ma mb : list (Z * umember)) : bool :=
  forallb (fun cm => match assocZ (fst cm) ma, assocZ (fst cm) mb with
                     | Some x, Some y => umember_eqb x y
                     | _, _ => false
                     end) ma.

Fixpoint alli {X} (p : nat -> X -> bool) (i : nat) (l : list X) : bool :=
  match l with [] => true | x :: r => p i x && alli p (Datatypes.S i) r end.

Definition ext_table (B : schema) (i : nat) (fa : list field) : bool :=
  match nth_error (tables B) i with Some fb => fields_ext fa fb | None => false end.
Definition ext_union (B : schema) (i : nat) (ma : list (Z * umember)) : bool :=
  match nth_error (unions B) i with Some mb => members_ext ma mb | None => false end.

Definition extends (A B : schema) : bool :=
  alli (ext_table B) 0 (tables A) && alli (ext_union B) 0 (unions A).

(* ------------------------------------------------------------------ soundness of the booleans *)
Lemma fkind_eqb_eq a b : fkind_eqb a b = true -> a = b.
Proof.
  destruct a, b; simpl; try discriminate; intros H;
    repeat match goal with
           | H : _ && _ = true |- _ => apply andb_true_iff in H; destruct H
           | H : (_ =? _) = true |- _ => apply Z.eqb_eq in H; subst
           | H : Nat.eqb _ _ = true |- _ => apply Nat.eqb_eq in H; subst
           end; reflexivity.
Qed.

Lemma field_eqb_eq f g : field_eqb f g = true -> f = g.
Proof.
  unfold field_eqb. intros H. apply andb_true_iff in H. destruct H as [H Hk].
  apply andb_true_iff in H. destruct H as [Hi Hr].
  apply Z.eqb_eq in Hi. apply Bool.eqb_prop in Hr. apply fkind_eqb_eq in Hk.
  destruct f, g; simpl in *; subst; reflexivity.
Qed.

Lemma umember_eqb_eq a b : umember_eqb a b = true -> a = b.
Proof.
  destruct a, b; simpl; try discriminate; intros H;
    repeat match goal with
           | H : _ && _ = true |- _ => apply andb_true_iff in H; destruct H
           | H : (_ =? _) = true |- _ => apply Z.eqb_eq in H; subst
           | H : Nat.eqb _ _ = true |- _ => apply Nat.eqb_eq in H; subst
           end; reflexivity.
Qed.

(* [fsub fa fb nw]: fb is fa with the non-required fields nw inserted *)
Inductive fsub : list field -> list field -> list field -> Prop :=
| FS_nil : fsub [] [] []
| FS_keep f ra rb nw : fsub ra rb nw -> fsub (f :: ra) (f :: rb) nw
| FS_skip g fa rb nw : frequired g = false -> fsub fa rb nw -> fsub fa (g :: rb) (g :: nw).

Lemma fields_ext_fsub : forall fb fa, fields_ext fa fb = true -> fsub fa fb (new_fields fa fb).
Proof.
  induction fb as [|g rb IH]; intros fa H.
  - destruct fa; [constructor | discriminate].
  - cbn [fields_ext new_fields] in *. destruct fa as [|f ra].
    + apply andb_true_iff in H. destruct H as [Hg Hr]. apply negb_true_iff in Hg.
      apply FS_skip; [exact Hg | apply IH; exact Hr].
    + destruct (field_eqb f g) eqn:E.
      * apply field_eqb_eq in E. subst g. apply FS_keep. apply IH. exact H.
      * apply andb_true_iff in H. destruct H as [Hg Hr]. apply negb_true_iff in Hg.
        apply FS_skip; [exact Hg | apply IH; exact Hr].
Qed.

Lemma fsub_in fa fb nw f : fsub fa fb nw -> In f fa -> In f fb.
Proof.
  induction 1 as [|f' ra rb nw H IH|g fa rb nw Hg H IH]; intros Hin.
  - exact Hin.
  - destruct Hin as [->|Hin]; [left; reflexivity | right; apply IH; exact Hin].
  - right. apply IH. exact Hin.
Qed.

Lemma fsub_new_in fa fb nw g : fsub fa fb nw -> In g nw -> In g fb.
Proof.
  induction 1 as [|f' ra rb nw H IH|g' fa rb nw Hg H IH]; intros Hin.
  - exact Hin.
  - right. apply IH. exact Hin.
  - destruct Hin as [->|Hin]; [left; reflexivity | right; apply IH; exact Hin].
Qed.

Lemma fsub_new_optional fa fb nw g : fsub fa fb nw -> In g nw -> frequired g = false.
Proof.
  induction 1 as [|f' ra rb nw H IH|g' fa rb nw Hg H IH]; intros Hin.
  - destruct Hin.
  - apply IH. exact Hin.
  - destruct Hin as [->|Hin]; [exact Hg | apply IH; exact Hin].
Qed.

Lemma assocZ_in {X} c (ms : list (Z * X)) a : assocZ c ms = Some a -> In (c, a) ms.
Proof.
  induction ms as [|[k x] r IH]; cbn [assocZ]; [discriminate|].
  destruct (c =? k) eqn:E.
  - apply Z.eqb_eq in E. intros H. injection H as <-. left. congruence.
  - intros H. right. apply IH. exact H.
Qed.

Lemma members_ext_find ma mb c m : members_ext ma mb = true -> assocZ c ma = Some m -> assocZ c mb = Some m.
Proof.
  unfold members_ext. intros H Hf. rewrite forallb_forall in H.
  specialize (H (c, m) (assocZ_in _ _ _ Hf)). cbn [fst] in H. rewrite Hf in H.
  destruct (assocZ c mb) as [y|]; [|discriminate]. apply umember_eqb_eq in H. subst. reflexivity.
Qed.

Lemma alli_spec {X} (p : nat -> X -> bool) : forall l i, alli p i l = true ->
  forall k x, nth_error l k = Some x -> p (i + k)%nat x = true.
Proof.
  induction l as [|y r IH]; intros i H k x Hk.
  - destruct k; discriminate.
  - cbn [alli] in H. apply andb_true_iff in H. destruct H as [Hy Hr]. destruct k as [|k].
    + cbn in Hk. injection Hk as <-. replace (i + 0)%nat with i by lia. exact Hy.
    + cbn in Hk. replace (i + Datatypes.S k)%nat with (Datatypes.S i + k)%nat by lia. apply (IH _ Hr _ _ Hk).
Qed.

Lemma extends_table A B t fa : extends A B = true -> table_fields A t = Some fa ->
  exists fb, table_fields B t = Some fb /\ fsub fa fb (new_fields fa fb).
Proof.
  intros H Ht. unfold extends in H. apply andb_true_iff in H. destruct H as [H _].
  unfold table_fields in *. pose proof (alli_spec _ _ _ H _ _ Ht) as Hp. cbn in Hp. unfold ext_table in Hp.
  destruct (nth_error (tables B) t) as [fb|]; [|discriminate].
  exists fb. split; [reflexivity | apply fields_ext_fsub; exact Hp].
Qed.

Lemma extends_member A B u c m : extends A B = true -> union_member A u c = Some m -> union_member B u c = Some m.
Proof.
  intros H Hm. unfold extends in H. apply andb_true_iff in H. destruct H as [_ H].
  unfold union_member in *. destruct (nth_error (unions A) u) as [ma|] eqn:Eu; [|discriminate].
  pose proof (alli_spec _ _ _ H _ _ Eu) as Hp. cbn in Hp. unfold ext_union in Hp.
  destruct (nth_error (unions B) u) as [mb|]; [|discriminate].
  eapply members_ext_find; eassumption.
Qed.

(* ------------------------------------------------------------------ which vtable slots a table of the schema owns *)
Definition field_ids (f : field) : list Z :=
  match fk f with FUnion _ | FUnionVec _ => [fid f - 1; fid f] | _ => [fid f] end.
Definition ids_of (fl : list field) : list Z := flat_map field_ids fl.

Fixpoint nodupb (l : list Z) : bool :=
  match l with [] => true | x :: r => negb (existsb (Z.eqb x) r) && nodupb r end.

(* no two fields of a table share a vtable slot (a union owns two) *)
Definition ids_distinct (Sc : schema) : bool := forallb (fun fl => nodupb (ids_of fl)) (tables Sc).
(* weaker: no two fields of a table have the same id *)
Definition fids_distinct (Sc : schema) : bool := forallb (fun fl => nodupb (map fid fl)) (tables Sc).

Lemma nodupb_NoDup l : nodupb l = true -> NoDup l.
Proof.
  induction l as [|x r IH]; intros H; [constructor|].
  cbn [nodupb] in H. apply andb_true_iff in H. destruct H as [Hx Hr]. constructor; [|apply IH; exact Hr].
  intros Hin. apply negb_true_iff in Hx. assert (E : existsb (Z.eqb x) r = true).
  { apply existsb_exists. exists x. split; [exact Hin | apply Z.eqb_refl]. }
  congruence.
Qed.

(* the script adds no slot that belongs to field g *)
Definition fresh_for (adds : list targ) (g : field) : Prop :=
  (forall a, In a adds -> targ_id a <> fid g) /\
  match fk g with FUnion _ | FUnionVec _ => forall a, In a adds -> targ_id a <> fid g - 1 | _ => True end.

Lemma fresh_for_ids adds g : (forall a, In a adds -> ~ In (targ_id a) (field_ids g)) -> fresh_for adds g.
Proof.
  intros H. unfold fresh_for, field_ids in *. split.
  - intros a Ha E. apply (H a Ha). rewrite E. destruct (fk g); cbn; tauto.
  - destruct (fk g); try exact I; intros a Ha E; apply (H a Ha); rewrite E; cbn; tauto.
Qed.

(* a table of type t adds none of the slots B introduces in table t *)
Definition avoids (A B : schema) (t : nat) (adds : list targ) : Prop :=
  forall fa fb, table_fields A t = Some fa -> table_fields B t = Some fb ->
  forall g, In g (new_fields fa fb) -> fresh_for adds g.

(* a table of type t adds only slots of A's table t: what code generated from A does *)
Definition tight (A : schema) (t : nat) (adds : list targ) : Prop :=
  forall fa, table_fields A t = Some fa -> forall a, In a adds -> In (targ_id a) (ids_of fa).

Lemma fsub_ids_disjoint fa fb nw : fsub fa fb nw -> NoDup (ids_of fb) ->
  forall g, In g nw -> forall x, In x (field_ids g) -> ~ In x (ids_of fa).
Proof.
  induction 1 as [|f ra rb nw H IH|g' fa rb nw Hg H IH]; intros Hnd g Hin x Hx.
  - destruct Hin.
  - unfold ids_of in *. cbn [flat_map] in *. intros Hxa. apply in_app_or in Hxa.
    assert (Hxb : In x (flat_map field_ids rb)).
    { apply in_flat_map. exists g. split; [eapply fsub_new_in; eassumption | exact Hx]. }
    destruct Hxa as [Hxf|Hxr].
    + (* x in f's slots and in rb's slots *)
      clear IH. revert Hnd Hxf Hxb. generalize (flat_map field_ids rb) as L. generalize (field_ids f) as K.
      induction K as [|k K IHK]; intros L Hnd Hxf Hxb; [destruct Hxf|].
      cbn in Hnd. inversion Hnd as [|? ? Hn1 Hn2]; subst. destruct Hxf as [->|Hxf].
      * apply Hn1. apply in_or_app. right. exact Hxb.
      * apply (IHK L Hn2 Hxf Hxb).
    + refine (IH _ g Hin x Hx Hxr).
      clear - Hnd. revert Hnd. generalize (flat_map field_ids rb) as L. generalize (field_ids f) as K.
      induction K as [|k K IHK]; intros L Hnd; [exact Hnd|]. cbn in Hnd. inversion Hnd; subst. apply IHK. assumption.
  - unfold ids_of in Hnd. cbn [flat_map] in Hnd.
    assert (Hnd' : NoDup (ids_of rb)).
    { clear - Hnd. revert Hnd. unfold ids_of. generalize (flat_map field_ids rb) as L. generalize (field_ids g') as K.
      induction K as [|k K IHK]; intros L Hnd; [exact Hnd|]. cbn in Hnd. inversion Hnd; subst. apply IHK. assumption. }
    destruct Hin as [->|Hin]; [|exact (IH Hnd' g Hin x Hx)].
    (* g is the head of fb: its slots are not among rb's, and fa's slots are among rb's *)
    intros Hxa.
    assert (Hxb : In x (flat_map field_ids rb)).
    { apply in_flat_map in Hxa. destruct Hxa as [f [Hf Hxf]]. apply in_flat_map. exists f.
      split; [eapply fsub_in; eassumption | exact Hxf]. }
    clear - Hnd Hx Hxb. revert Hnd Hx Hxb. generalize (flat_map field_ids rb) as L. generalize (field_ids g) as K.
    induction K as [|k K IHK]; intros L Hnd Hx Hxb; [destruct Hx|].
    cbn in Hnd. inversion Hnd as [|? ? Hn1 Hn2]; subst. destruct Hx as [->|Hx].
    + apply Hn1. apply in_or_app. right. exact Hxb.
    + apply (IHK L Hn2 Hx Hxb).
Qed.

Lemma tight_avoids A B : extends A B = true -> ids_distinct B = true ->
  forall t adds, tight A t adds -> avoids A B t adds.
Proof.
  intros He Hd t adds Ht fa fb Hfa Hfb g Hg.
  destruct (extends_table A B t fa He Hfa) as (fb' & Hfb' & Hsub). rewrite Hfb in Hfb'. injection Hfb' as <-.
  assert (Hnd : NoDup (ids_of fb)).
  { apply nodupb_NoDup. unfold ids_distinct in Hd. rewrite forallb_forall in Hd. apply Hd.
    unfold table_fields in Hfb. eapply nth_error_In; eassumption. }
  apply fresh_for_ids. intros a Ha Hx.
  exact (fsub_ids_disjoint _ _ _ Hsub Hnd g Hg _ Hx (Ht fa Hfa a Ha)).
Qed.

(* ------------------------------------------------------------------ typing with a side condition on every table *)
Definition last_table (G : env) : option nat :=
  match last G None with
  | Some e => match en_ty e with OTable t => Some t | _ => None end
  | None => None
  end.

(* the condition P is asked of every CTable command, at the table type the typing derivation gave it *)
Definition cmd_ok (P : nat -> list targ -> Prop) (c : cmd) (G1 : env) : Prop :=
  match c with CTable adds => forall t, last_table G1 = Some t -> P t adds | _ => True end.

Inductive wt_cmds_p (P : nat -> list targ -> Prop) (Sc : schema) : env -> list cmd -> env -> Prop :=
| WTP_nil G : wt_cmds_p P Sc G [] G
| WTP_cons G c G1 r G2 :
    wt_cmd Sc G c G1 -> cmd_ok P c G1 -> wt_cmds_p P Sc G1 r G2 -> wt_cmds_p P Sc G (c :: r) G2.

Inductive wt_script_p (P : nat -> list targ -> Prop) (Sc : schema) : list cmd -> root -> value -> bool -> nat -> Prop :=
| WTP_top cl ba0 id0 pre id ba fl body r R v n G1 G2 :
    balign_ok ba0 -> wt_cmds_p P Sc [] pre G1 -> wt_cmds_p P Sc G1 body G2 ->
    lookup G2 r = Some {| en_ty := root_oty R; en_val := v; en_depth := n |} ->
    balign_ok ba -> in_u32 id -> 0 <= fl < 65536 ->
    wt_script_p P Sc (CSettings cl ba0 id0 :: pre ++ CStartBuffer id ba fl :: body ++ [CEndBuffer r]) R v (negb (Z.land fl 2 =? 0)) n.

(* code generated from schema Sc: well typed, and every table adds only fields of its own type *)
Definition wt_script_tight (Sc : schema) := wt_script_p (tight Sc) Sc.

Lemma wt_cmds_p_forget P Sc G cs G' : wt_cmds_p P Sc G cs G' -> wt_cmds Sc G cs G'.
Proof. induction 1; econstructor; eassumption. Qed.

Lemma wt_script_p_forget P Sc sc R v ws n : wt_script_p P Sc sc R v ws n -> wt_script Sc sc R v ws n.
Proof.
  intros H. destruct H. eapply WT_top; try eassumption; eapply wt_cmds_p_forget; eassumption.
Qed.

Lemma wt_cmds_p_weaken (P Q : nat -> list targ -> Prop) Sc G cs G' :
  (forall t adds, P t adds -> Q t adds) -> wt_cmds_p P Sc G cs G' -> wt_cmds_p Q Sc G cs G'.
Proof.
  intros HPQ. induction 1 as [|G c G1 r G2 Hc Hok Hr IH]; [constructor|].
  econstructor; [eassumption| |exact IH].
  destruct c; cbn [cmd_ok] in *; auto.
Qed.

Lemma wt_script_p_weaken (P Q : nat -> list targ -> Prop) Sc sc R v ws n :
  (forall t adds, P t adds -> Q t adds) -> wt_script_p P Sc sc R v ws n -> wt_script_p Q Sc sc R v ws n.
Proof.
  intros HPQ H. destruct H. eapply WTP_top; try eassumption; eapply wt_cmds_p_weaken; eassumption.
Qed.

Lemma wt_cmds_p_true Sc G cs G' : wt_cmds Sc G cs G' -> wt_cmds_p (fun _ _ => True) Sc G cs G'.
Proof.
  induction 1 as [|G c G1 r G2 Hc Hr IH]; [constructor|]. econstructor; [eassumption| |exact IH].
  destruct c; cbn [cmd_ok]; auto.
Qed.

(* ------------------------------------------------------------------ monotonicity *)
Section Mono.
Variables A B : schema.
Hypothesis HE : extends A B = true.

Lemma wt_field_mono G n adds f ov : wt_field A G n adds f ov -> wt_field B G n adds f ov.
Proof.
  intros W. destruct W.
  - apply WF_absent; assumption.
  - eapply WF_scalar; eassumption.
  - eapply WF_string; eassumption.
  - eapply WF_vector; eassumption.
  - eapply WF_strvec; eassumption.
  - eapply WF_table; eassumption.
  - eapply WF_tabvec; eassumption.
  - eapply WF_union; try eassumption. apply (extends_member A B); assumption.
  - eapply WF_union_none; eassumption.
Qed.

Lemma wt_fields_mono G n adds fa fb nw : fsub fa fb nw -> (forall g, In g nw -> fresh_for adds g) ->
  forall fs, wt_fields A G n adds fa fs -> wt_fields B G n adds fb fs.
Proof.
  induction 1 as [|f ra rb nw H IH|g fa rb nw Hg H IH]; intros Hfresh fs W.
  - inversion W; subst. constructor.
  - inversion W; subst.
    + apply WFS_absent; [apply wt_field_mono; assumption | apply IH; assumption].
    + apply WFS_present; [apply wt_field_mono; assumption | apply IH; assumption].
  - apply WFS_absent.
    + destruct (Hfresh g (or_introl eq_refl)) as [H1 H2]. apply WF_absent; assumption.
    + apply IH; [|exact W]. intros g' Hg'. apply Hfresh. right. exact Hg'.
Qed.

Lemma last_table_snoc G t v n : last_table (G ++ [mk (OTable t) v n]) = Some t.
Proof. unfold last_table. rewrite last_last. reflexivity. Qed.

Lemma wt_cmd_mono G c G1 : wt_cmd A G c G1 -> cmd_ok (avoids A B) c G1 -> wt_cmd B G c G1.
Proof.
  intros W Hok. destruct W.
  - apply WT_string.
  - apply WT_vector; assumption.
  - apply WT_struct; assumption.
  - eapply WT_offvec; eassumption.
  - cbn [cmd_ok] in Hok. specialize (Hok t (last_table_snoc _ _ _ _)).
    match goal with Ht : table_fields A t = Some ?fa |- _ =>
      destruct (extends_table A B t fa HE Ht) as (fb & Hfb & Hsub);
      eapply (WT_table B G adds t fb); try eassumption;
      eapply wt_fields_mono; [exact Hsub | exact (Hok fa fb Ht Hfb) | eassumption]
    end.
Qed.

Lemma wt_cmds_mono G cs G' : wt_cmds_p (avoids A B) A G cs G' -> wt_cmds B G cs G'.
Proof.
  induction 1 as [|G c G1 r G2 Hc Hok Hr IH]; [constructor|].
  econstructor; [apply wt_cmd_mono; eassumption | exact IH].
Qed.

(* Typing over the old schema is typing over the new schema, with the same root, value, size-prefix flag and depth. *)
Theorem wt_script_mono sc R v ws n : wt_script_p (avoids A B) A sc R v ws n -> wt_script B sc R v ws n.
Proof.
  intros H. destruct H. eapply WT_top; try eassumption; eapply wt_cmds_mono; eassumption.
Qed.

Theorem wt_script_tight_mono sc R v ws n : ids_distinct B = true ->
  wt_script_tight A sc R v ws n -> wt_script B sc R v ws n.
Proof.
  intros Hd H. apply wt_script_mono. eapply wt_script_p_weaken; [|exact H].
  apply tight_avoids; assumption.
Qed.

End Mono.
