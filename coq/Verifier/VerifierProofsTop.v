(* C01 proofs, part 3: the three instantiations of the generic pass (soundness, no out-of-bounds read by the
   verifier, recursion depth within the documented limit). *)
From Flatcc.Verifier Require Import VerifierProofsBase VerifierProofsMain.
Local Open Scope Z_scope.

(* 1. acceptance implies a safe walk with the same fuel (nesting budget) *)
Theorem verify_sound : forall b addr S ra fuel r v,
  wf_buf b -> schema_wf S = true -> ra_ok S ra = true ->
  blen b <= SOUND_MAX_SIZE ->
  root_wf r -> root_aligned ra addr r ->
  verify_root b addr S fuel r v = VOk ->
  walk_root b addr S fuel r (match v with WithSize => true | Plain => false end) = WOk.
Proof.
  intros b addr S ra fuel r v Hwf HS Hra Hsz Hrw Hal Hv.
  destruct (verify_root_post b addr S (fun _ => True) True ra Hwf HS (fun _ => I) (fun _ => Hsz) (fun _ => Hra)
              fuel r v (fun _ => Hrw) (or_introl I) (fun _ => Hal)) as [[_ HP]|[Hn _]].
  - exact (HP I).
  - contradiction.
Qed.

(* 2. the verifier itself never reads outside the bytes it was given, whatever they are *)
Theorem verify_no_oob : forall b addr S fuel r v,
  wf_buf b -> schema_wf S = true -> verify_root b addr S fuel r v <> VOob.
Proof.
  intros b addr S fuel r v Hwf HS.
  assert (Herr : forall c, VErr c <> VOob) by discriminate.
  assert (Hfuel : VFuel <> VOob) by discriminate.
  destruct (verify_root_post b addr S (fun x => x <> VOob) False (fun _ => 1) Hwf HS Herr
              (fun f : False => match f with end) (fun f : False => match f with end)
              fuel r v (fun f : False => match f with end) (or_introl Hfuel) (fun f : False => match f with end))
    as [[E _]|[_ HT]].
  - rewrite E. discriminate.
  - exact HT.
Qed.

(* 3. with fuel for VERIFIER_MAX_LEVELS levels the verdict never depends on fuel: ttl decreases at every level
      and must stay positive *)
Theorem verify_within_levels : forall b addr S fuel r v,
  wf_buf b -> schema_wf S = true -> (Z.to_nat VERIFIER_MAX_LEVELS <= fuel)%nat ->
  verify_root b addr S fuel r v <> VFuel.
Proof.
  intros b addr S fuel r v Hwf HS Hfuel.
  assert (Herr : forall c, VErr c <> VFuel) by discriminate.
  assert (Hf : VERIFIER_MAX_LEVELS <= Z.of_nat fuel /\ (1 <= fuel)%nat) by (unfold VERIFIER_MAX_LEVELS in *; lia).
  destruct (verify_root_post b addr S (fun x => x <> VFuel) False (fun _ => 1) Hwf HS Herr
              (fun f : False => match f with end) (fun f : False => match f with end)
              fuel r v (fun f : False => match f with end) (or_intror Hf) (fun f : False => match f with end))
    as [[E _]|[_ HT]].
  - rewrite E. discriminate.
  - exact HT.
Qed.

(* 1 + 3: an accepted buffer is walked to the end within the documented nesting limit *)
Corollary accepted_walk_within_levels : forall b addr S ra r v,
  wf_buf b -> schema_wf S = true -> ra_ok S ra = true ->
  blen b <= SOUND_MAX_SIZE -> root_wf r -> root_aligned ra addr r ->
  verify_root b addr S (Z.to_nat VERIFIER_MAX_LEVELS) r v = VOk ->
  walk_root b addr S (Z.to_nat VERIFIER_MAX_LEVELS) r (match v with WithSize => true | Plain => false end) = WOk.
Proof. intros. eapply verify_sound; eassumption. Qed.

(* the simplest instance: no nested table roots (or no relative alignment above 4), buffer placed at an address
   aligned to the largest alignment the verifier checks relative to the buffer start *)
From Flatcc.Verifier Require Import VerifierProofsAlign.

Theorem verify_sound_max_align : forall b addr S fuel r v,
  wf_buf b -> schema_wf S = true ->
  (has_nested_table S = false \/ max_align S <= 4) ->
  blen b <= SOUND_MAX_SIZE ->
  root_wf r -> root_aligned (fun _ => max_align S) addr r ->
  verify_root b addr S fuel r v = VOk ->
  walk_root b addr S fuel r (match v with WithSize => true | Plain => false end) = WOk.
Proof.
  intros b addr S fuel r v Hwf HS Hn Hsz Hrw Hal Hv.
  apply (verify_sound b addr S (fun _ => max_align S) fuel r v); try assumption.
  apply max_align_certificate; assumption.
Qed.
