(* C01 (printer half): the READS that src/runtime/json_printer.c makes on a buffer when driven by the generated
   *_json_printer.h of a schema (src/compiler/codegen_c_json_printer.c calls one runtime printer per field, in
   field order).  The printer does not use the generated reader accessors: it has its own vtable lookup
   (get_field_ptr), its own nesting budget (ttl, FLATCC_JSON_PRINT_MAX_LEVELS) and its own string scan.

   Conventions (same as ReaderModel.v): positions are absolute in [b]; pointer arithmetic is unbounded;
   [need_ok p w al] = "bytes [p, p+w) are inside the buffer and address addr + p is aligned to al".
   Outcome:
     POk          every read was in bounds and aligned and the printer raised no error of its own
     PErr e       every read was fine, but the printer raised its own error e (flatcc_json_printer_set_error keeps
                  the FIRST error; the traversal goes on exactly where the C goes on: an object that is too deep
                  or a nested buffer with a short header is skipped, its siblings are still printed)
     PBad p w al  the first read that is out of bounds or misaligned
     PFuel        the Coq recursion budget ran out (never happens with fuel >= JSON_PRINT_MAX_LEVELS: PrinterProofs)
   Only reads are modelled: output buffering, number formatting, enum symbol lookup do not touch the input.
   No proofs in this file. *)
From Flatcc.Verifier Require Export Schema ReaderModel.
From Flatcc.Generated Require Export Consts.
Local Open Scope Z_scope.

Inductive pres := POk | PErr (e : Z) | PBad (pos w al : Z) | PFuel.

(* enum flatcc_json_printer_error_no (include/flatcc/flatcc_json_printer.h): ok, bad_input, deep_recursion, overflow *)
Definition PE_bad_input : Z := 1.
Definition PE_deep_recursion : Z := 2.

(* sequencing: after an own error the printer carries on; a later bad read still is a bad read.
   Notations, not functions: the continuation must stay lazy after extraction to strict OCaml. *)
Notation "'pbind' r k" :=
  (match r with
   | POk => k
   | PErr e_ => match k with POk => PErr e_ | PErr _ => PErr e_ | PBad p_ w_ a_ => PBad p_ w_ a_ | PFuel => PFuel end
   | PBad p_ w_ a_ => PBad p_ w_ a_
   | PFuel => PFuel
   end) (at level 10, r at level 9, k at level 9).

(* flatcc_json_printer_table_descriptor_t: table, vtable, vsize, ttl (count only steers commas) *)
Record ptd := { p_table : Z; p_vtable : Z; p_vsize : Z; p_ttl : Z }.

Section PrintWalk.
Variable b : buf.
Variable addr : Z.
Variable S : schema.

Notation "'pneed' p w al k" := (if need_ok b addr p w al then k else PBad p w al)
  (at level 10, p at level 9, w at level 9, al at level 9, k at level 9).
(* [len] bytes of objects aligned to [al], read member by member / element by element; nothing when empty *)
Notation "'pneed_run' p len al k" := (if (len =? 0) || need_ok b addr p len al then k else PBad p len al)
  (at level 10, p at level 9, len at level 9, al at level 9, k at level 9).

Local Notation g8 := (g8 b).
Local Notation g16 := (g16 b).
Local Notation g32 := (g32 b).
Local Notation follow := (follow b).          (* read_uoffset_ptr(p) = p + *(uoffset_t * )p *)

(* get_field_ptr(td, id): vo = (id + 2) * sizeof(voffset_t) (uoffset_t arithmetic, ids are < 2^15);
   if (vo >= td->vsize) return 0; vo = read_voffset(td->vtable, vo); if (vo == 0) return 0; return table + vo.
   Note the size test: the generated READER tests (id + 3) * 2 <= vsize; the two agree for even vsize only. *)
Definition get_field_ptr (d : ptd) (id : Z) (absent : pres) (present : Z -> pres) : pres :=
  let vo := (id + 2) * 2 in
  if p_vsize d <=? vo then absent else
  pneed (p_vtable d + vo) 2 2
  (let v := g16 (p_vtable d + vo) in if v =? 0 then absent else present (p_table d + v)).

(* print_string_object + print_string(s, n): the length word, then a scan  c = *p; while (c is none of: below 0x20,
   double quote, backslash) c = *++p;  that only pauses at such a stop character and only terminates at one that
   is exactly n bytes in.  So bytes s[0..n] are always read, INCLUDING the terminator position s[n]; when s[n] is
   not a stop character the scan runs on (n -= k wraps around) until it leaves the buffer: the first bad read is
   then the byte at blen b. *)
Definition stopc (c : Z) : bool := (c <? 32) || (c =? 34) || (c =? 92).
Definition print_string_object (q : Z) : pres :=
  pneed q 4 4
  (let n := g32 q in
   pneed (q + 4) (n + 1) 1 (if stopc (g8 (q + 4 + n)) then POk else PBad (blen b) 1 1)).

(* scalar vectors (T_vector_field, T_enum_vector_field, uint8_vector_base64_field) and struct vectors
   (struct_vector_field + the generated struct printer): count, then count elements of esize bytes one after the
   other starting right after the count *)
Definition print_vector_object (q esize align : Z) : pres :=
  pneed q 4 4 (pneed_run (q + 4) (g32 q * esize) align POk).

(* for (count times) body(slot), slot += 4.  The iteration count is capped by the buffer length: every iteration
   reads at least one byte at a strictly increasing position, so iteration number blen b (if reached) has already
   failed; the cap keeps the extracted code from building a 2^32-element unary number on a hostile count. *)
Definition loop_count (n : Z) : nat := Z.to_nat (Z.min n (blen b)).

Fixpoint ploop (n : nat) (slot : Z) (body : Z -> pres) : pres :=
  match n with
  | O => POk
  | Datatypes.S n' => pbind (body slot) (ploop n' (slot + 4) body)
  end.

(* print_table_object(p, ttl, pf): if (!--ttl) { error deep_recursion; return; }  td.ttl = ttl; td.table = p;
   td.vtable = p - soffset(p); td.vsize = voffset(td.vtable); pf(ctx, &td) *)
Definition print_table_object (pf : ptd -> pres) (p ttl : Z) : pres :=
  if ttl - 1 =? 0 then PErr PE_deep_recursion else
  pneed p 4 4
  (let vt := p - s32 (g32 p) in
   pneed vt 2 2 (pf {| p_table := p; p_vtable := vt; p_vsize := g16 vt; p_ttl := ttl - 1 |})).

(* the recursive callback: print the table of type t at p with incoming budget ttl *)
Definition ptf := Z -> Z -> nat -> pres.

(* generated T_print_json_union: switch (ud->type) { case: flatcc_json_printer_union_table / _struct / _string;
   default: break }.  [member] is the position of the uoffset slot (ud->member); it is only read for a known type. *)
Definition print_union_member (pt : ptf) (u : nat) (ty member ttl : Z) : pres :=
  match find_member (union_members S u) ty with
  | None => POk
  | Some (UTable t) => pneed member 4 4 (pt (follow member) ttl t)
  | Some (UStruct size align) => pneed member 4 4 (pneed_run (follow member) size align POk)
  | Some UString => pneed member 4 4 (print_string_object (follow member))
  end.

(* loop of flatcc_json_printer_union_vector_field: type = types[i]; if (type != 0) pf(member = &p[i]) else null *)
Fixpoint puloop (pt : ptf) (u : nat) (ttl : Z) (n : nat) (types slot : Z) : pres :=
  match n with
  | O => POk
  | Datatypes.S n' =>
    pbind (pneed types 1 1 (if g8 types =? 0 then POk else print_union_member pt u (g8 types) slot ttl))
          (puloop pt u ttl n' (types + 1) (slot + 4))
  end.

(* accept_header(buf, bufsiz, fid) for nested roots: the generated code always passes fid = 0 *)
Definition header_ok (bufsiz : Z) : bool := 8 <=? bufsiz.

(* one generated call per field *)
Definition print_field (pt : ptf) (d : ptd) (f : field) : pres :=
  let id := fid f in
  match fk f with
  | FScalar size align =>
    (* <T>_field / _optional_field / _enum_field: one aligned read of the scalar; struct_field: the generated
       struct printer reads every member inside [p, p + size) at its natural alignment *)
    get_field_ptr d id POk (fun fp => pneed_run fp size align POk)
  | FString =>
    get_field_ptr d id POk (fun fp => pneed fp 4 4 (print_string_object (follow fp)))
  | FVector esize align _ =>
    get_field_ptr d id POk (fun fp => pneed fp 4 4 (print_vector_object (follow fp) esize align))
  | FStringVec =>
    get_field_ptr d id POk (fun fp =>
      pneed fp 4 4
      (let q := follow fp in
       pneed q 4 4 (ploop (loop_count (g32 q)) (q + 4) (fun slot => pneed slot 4 4 (print_string_object (follow slot))))))
  | FTable t =>
    get_field_ptr d id POk (fun fp => pneed fp 4 4 (pt (follow fp) (p_ttl d) t))
  | FTableVec t =>
    (* no budget is spent on the vector itself (the verifier spends one level here) *)
    get_field_ptr d id POk (fun fp =>
      pneed fp 4 4
      (let q := follow fp in
       pneed q 4 4 (ploop (loop_count (g32 q)) (q + 4) (fun slot => pneed slot 4 4 (pt (follow slot) (p_ttl d) t)))))
  | FUnion u =>
    (* flatcc_json_printer_union_field: both vtable entries first; nothing unless both are present; then the type
       byte; the value only for a non-NONE type *)
    get_field_ptr d (id - 1) (get_field_ptr d id POk (fun _ => POk)) (fun tp =>
      get_field_ptr d id POk (fun vp =>
        pneed tp 1 1
        (if g8 tp =? 0 then POk else print_union_member pt u (g8 tp) vp (p_ttl d))))
  | FUnionVec u =>
    (* flatcc_json_printer_union_vector_field: both entries; nothing unless both present; the type vector is
       printed as a utype vector (field looked up again); then count is taken from the VALUE vector and
       types[i] is read for every i < count *)
    get_field_ptr d (id - 1) (get_field_ptr d id POk (fun _ => POk)) (fun tp =>
      get_field_ptr d id POk (fun vp =>
        pbind (get_field_ptr d (id - 1) POk (fun tp' => pneed tp' 4 4 (print_vector_object (follow tp') 1 1)))
        (pneed vp 4 4
         (pneed tp 4 4
          (let vq := follow vp in
           let tq := follow tp in
           pneed vq 4 4 (puloop pt u (p_ttl d) (loop_count (g32 vq)) (tq + 4) (vq + 4)))))))
  | FNestedTable _ t =>
    (* table_as_nested_root: the [ubyte] vector's length is the nested buffer size; accept_header; then the root *)
    get_field_ptr d id POk (fun fp =>
      pneed fp 4 4
      (let q := follow fp in
       pneed q 4 4
       (if header_ok (g32 q) then pneed (q + 4) 4 4 (pt (follow (q + 4)) (p_ttl d) t)
        else PErr PE_bad_input)))
  | FNestedStruct size align =>
    get_field_ptr d id POk (fun fp =>
      pneed fp 4 4
      (let q := follow fp in
       pneed q 4 4
       (if header_ok (g32 q) then pneed (q + 4) 4 4 (pneed_run (follow (q + 4)) size align POk)
        else PErr PE_bad_input)))
  end.

Fixpoint print_fields (pt : ptf) (d : ptd) (fs : list field) : pres :=
  match fs with
  | [] => POk
  | f :: r => pbind (print_field pt d f) (print_fields pt d r)
  end.

Fixpoint print_table (fuel : nat) (p ttl : Z) (t : nat) : pres :=
  match fuel with
  | O => PFuel
  | Datatypes.S fuel' => print_table_object (fun d => print_fields (print_table fuel') d (table_fields S t)) p ttl
  end.

(* <T>_print_json_as_root(ctx, buf, bufsiz, fid) = flatcc_json_printer_table_as_root / _struct_as_root.
   [start]: where the caller points the printer (0, or 4 to skip a size prefix: there is no with_size printer
   entry point; the caller passes the remaining size).  [ident]: None = fid is a null pointer; Some h = the type
   hash of the fid string: accept_header then reads the 4-byte identifier after the root offset.
   [maxlev] = FLATCC_JSON_PRINT_MAX_LEVELS. *)
Definition print_walk_gen (maxlev : Z) (fuel : nat) (r : root) (with_size : bool) (ident : option Z) : pres :=
  let start := if with_size then 4 else 0 in
  let bufsiz := blen b - start in
  if negb (header_ok bufsiz) then PErr PE_bad_input else
  let go :=
    pneed start 4 4
    (match r with
     | RTable t => print_table fuel (follow start) maxlev t
     | RStruct size align => pneed_run (follow start) size align POk
     end) in
  match ident with
  | None => go
  | Some h =>
    pneed (start + 4) 4 4
    (if (h =? 0) || (g32 (start + 4) =? h) then go else PErr PE_bad_input)
  end.

Definition print_walk := print_walk_gen JSON_PRINT_MAX_LEVELS.

End PrintWalk.
