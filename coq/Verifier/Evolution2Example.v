(* C09, builder side, part 4b: every hypothesis of the evolution theorems is satisfiable - the two-version schema pair and
   the scripts of Evolution2Scripts.v, through the theorems and, independently, by computation on the emitted bytes;
   and the tightness hypothesis is needed. *)
From Coq Require Import ZifyBool.
From Flatcc.Format Require Schema Spec.
From Flatcc.Builder Require EmitModel VMem Script ScriptProofs Example.
From Flatcc.Verifier Require Import Schema VerifierModel VerifierProofsBase VerifierProofsTop
  CompleteBase CompleteTable Complete CompleteBuild CompleteBytes Evolution Evolution2Build.
From Flatcc.Verifier Require Evolution2 Evolution2Dec Evolution2Scripts.
Local Open Scope Z_scope.

Module X := Flatcc.Verifier.Evolution2Scripts.

Example ev_restricts : restricts (to_vschema X.evA) (to_vschema X.evB) = true.
Proof. apply extends_restricts. exact X.ev_extends. Qed.

(* a build by version-1 code, seen by version 2 *)
Example ev_old_build_under_new : exists regs ems st,
  EM.run EM.init_state [] Example.ex_script = Some (regs, ems, st) /\ VMem.small st /\
  E2.extends X.evA X.evB = true /\ E2.ids_distinct X.evB = true /\
  E2.wt_script_tight X.evA Example.ex_script (FS.RTable 1) Example.ex_value true 2 /\
  schema_wf (to_vschema X.evB) = true /\ schema_in_fragment X.evB = true /\ members_nonempty X.evB = true /\
  script_bytes Example.ex_script = true /\ levels_needed X.evB 2 = 3 /\ EM.buffer_alignment st = 16 /\
  ra_ok (to_vschema X.evB) (fun _ => 16) = true /\
  verify_root (of_list (EM.buffer_bytes st)) 0 (to_vschema X.evB) 2 (RTable 1) WithSize = VOk /\
  walk_root (of_list (EM.buffer_bytes st)) 0 (to_vschema X.evB) 2 (RTable 1) true = WOk /\
  Sp.decode_root 2 X.evB (FS.RTable 1) true (EM.buffer_bytes st) = Some Example.ex_value /\
  Sp.decode_root 2 X.evA (FS.RTable 1) true (EM.buffer_bytes st) = Some Example.ex_value.
Proof.
  destruct (EM.run EM.init_state [] Example.ex_script) as [[[regs ems] st]|] eqn:E; [|vm_compute in E; discriminate].
  exists regs, ems, st.
  assert (Hsmall : VMem.small st) by (vm_compute in E; injection E as <- <- <-; vm_compute; reflexivity).
  assert (Hal : EM.buffer_alignment st = 16) by (vm_compute in E; injection E as <- <- <-; reflexivity).
  assert (Hby : script_bytes Example.ex_script = true) by reflexivity.
  assert (Hwf : schema_wf (to_vschema X.evB) = true) by (vm_compute; reflexivity).
  assert (Hfr : schema_in_fragment X.evB = true) by reflexivity.
  assert (Hne : members_nonempty X.evB = true) by reflexivity.
  assert (Hra : ra_ok (to_vschema X.evB) (fun _ => 16) = true) by (vm_compute; reflexivity).
  assert (Hlev : levels_needed X.evB 2 = 3) by reflexivity.
  assert (Haddr : 0 mod EM.buffer_alignment st = 0) by (rewrite Hal; reflexivity).
  destruct (old_build_decodes_under_new X.evA X.evB X.ev_extends Example.ex_script (FS.RTable 1) Example.ex_value true 2 regs ems st
              X.ev_ids_distinct X.ev_old_tight E Hsmall) as [HdB HdA].
  repeat split; try assumption; try reflexivity.
  - exact X.ev_old_tight.
  - apply (new_verifier_accepts_old_builds X.evA X.evB X.ev_extends Example.ex_script (FS.RTable 1) Example.ex_value true 2
             regs ems st 0 2%nat X.ev_ids_distinct X.ev_old_tight E Hsmall Hwf Hfr Hne I Hby);
      [rewrite Hlev; unfold VERIFIER_MAX_LEVELS; lia | lia | exact I | exact Haddr].
  - apply (new_reader_safe_on_old_builds X.evA X.evB X.ev_extends Example.ex_script (FS.RTable 1) Example.ex_value true 2
             regs ems st 0 2%nat (fun _ => 16) X.ev_ids_distinct X.ev_old_tight E Hsmall Hwf Hfr Hne I Hby);
      [rewrite Hlev; unfold VERIFIER_MAX_LEVELS; lia | lia | exact I | exact Haddr | exact Hra |].
    cbn. exists 0. reflexivity.
Qed.

(* a build by version-2 code that uses every addition, seen by version 1 *)
Example ev_new_build_under_old : exists regs ems st,
  EM.run EM.init_state [] X.ev_new_script = Some (regs, ems, st) /\ VMem.small st /\
  E2.extends X.evA X.evB = true /\ E2D.tables_closed X.evA = true /\ E2.fids_distinct X.evB = true /\
  BS.wt_script X.evB X.ev_new_script (FS.RTable 1) X.ev_new_value false 2 /\
  schema_wf (to_vschema X.evB) = true /\ schema_in_fragment X.evB = true /\ members_nonempty X.evB = true /\
  script_bytes X.ev_new_script = true /\ levels_needed X.evB 2 = 3 /\ EM.buffer_alignment st = 8 /\
  schema_wf (to_vschema X.evA) = true /\ ra_ok (to_vschema X.evA) (fun _ => 8) = true /\
  verify_root (of_list (EM.buffer_bytes st)) 0 (to_vschema X.evA) 2 (RTable 1) Plain = VOk /\
  walk_root (of_list (EM.buffer_bytes st)) 0 (to_vschema X.evA) 2 (RTable 1) false = WOk /\
  Sp.decode_root 2 X.evB (FS.RTable 1) false (EM.buffer_bytes st) = Some X.ev_new_value /\
  Sp.decode_root 2 X.evA (FS.RTable 1) false (EM.buffer_bytes st) = Some X.ev_new_value_restricted.
Proof.
  destruct X.ev_new_runs as (regs & ems & st & E & Hsmall & Hal & _).
  exists regs, ems, st.
  assert (Hby : script_bytes X.ev_new_script = true) by reflexivity.
  assert (Hwf : schema_wf (to_vschema X.evB) = true) by (vm_compute; reflexivity).
  assert (HwfA : schema_wf (to_vschema X.evA) = true) by (vm_compute; reflexivity).
  assert (Hfr : schema_in_fragment X.evB = true) by reflexivity.
  assert (Hne : members_nonempty X.evB = true) by reflexivity.
  assert (Hra : ra_ok (to_vschema X.evA) (fun _ => 8) = true) by (vm_compute; reflexivity).
  assert (Hlev : levels_needed X.evB 2 = 3) by reflexivity.
  assert (Haddr : 0 mod EM.buffer_alignment st = 0) by (rewrite Hal; reflexivity).
  repeat split; try assumption; try reflexivity.
  - exact X.ev_new_wt.
  - apply (old_verifier_accepts_new_builds X.evA X.evB X.ev_extends X.ev_new_script (FS.RTable 1) X.ev_new_value false 2
             regs ems st 0 2%nat X.ev_new_wt E Hsmall Hwf Hfr Hne I Hby);
      [rewrite Hlev; unfold VERIFIER_MAX_LEVELS; lia | lia | exact I | exact Haddr].
  - apply (old_reader_safe_on_new_builds X.evA X.evB X.ev_extends X.ev_new_script (FS.RTable 1) X.ev_new_value false 2
             regs ems st 0 2%nat (fun _ => 8) X.ev_new_wt E Hsmall Hwf Hfr Hne I Hby);
      [rewrite Hlev; unfold VERIFIER_MAX_LEVELS; lia | lia | exact I | exact Haddr | exact HwfA | exact Hra |].
    cbn. exists 0. reflexivity.
  - exact (ScriptProofs.build_decode X.evB X.ev_new_script (FS.RTable 1) X.ev_new_value false 2 regs ems st X.ev_new_wt E Hsmall).
  - rewrite <- X.ev_restriction_computed.
    apply (new_build_decodes_under_old X.evA X.evB X.ev_extends X.ev_new_script (FS.RTable 1) X.ev_new_value false 2 regs ems st
             X.ev_closed X.ev_fids_distinct); [cbn; lia | exact X.ev_new_wt | exact E | exact Hsmall].
Qed.

(* the same facts computed on the emitted bytes, independently of the theorems *)
Example ev_computed :
  EM.lenZ X.ev_old_bytes = 112 /\ EM.lenZ X.ev_new_bytes = 112 /\
  verify_root (of_list X.ev_old_bytes) 0 (to_vschema X.evB) (Z.to_nat VERIFIER_MAX_LEVELS) (RTable 1) WithSize = VOk /\
  verify_root (of_list X.ev_new_bytes) 0 (to_vschema X.evA) (Z.to_nat VERIFIER_MAX_LEVELS) (RTable 1) Plain = VOk /\
  Sp.decode_root 2 X.evB (FS.RTable 1) true X.ev_old_bytes = Some Example.ex_value /\
  Sp.decode_root 2 X.evA (FS.RTable 1) false X.ev_new_bytes = Some X.ev_new_value_restricted.
Proof. vm_compute. repeat split; reflexivity. Qed.

(* Without tightness the first direction is false: a script that is well typed over A (it adds vtable slot 1, which is
   no field of A), finishes a buffer A's decoder and verifier accept, and B - which extends A by a string field in slot
   1 - refuses: verifier error string_header_out_of_range_or_unaligned, decoder None. *)
Example tightness_needed : exists A B sc v regs ems st,
  E2.extends A B = true /\ E2.ids_distinct B = true /\
  BS.wt_script A sc (FS.RTable 0) v false 1 /\
  EM.run EM.init_state [] sc = Some (regs, ems, st) /\ VMem.small st /\
  schema_wf (to_vschema B) = true /\ schema_in_fragment B = true /\ members_nonempty B = true /\ script_bytes sc = true /\
  verify_root (of_list (EM.buffer_bytes st)) 0 (to_vschema A) 100 (RTable 0) Plain = VOk /\
  verify_root (of_list (EM.buffer_bytes st)) 0 (to_vschema B) 100 (RTable 0) Plain = VErr E_string_header_out_of_range_or_unaligned /\
  Sp.decode_root 1 B (FS.RTable 0) false (EM.buffer_bytes st) = None.
Proof.
  destruct X.nt_decodes as (regs & ems & st & E & Hsm & Hb & _ & HdB).
  exists X.ntA, X.ntB, X.nt_script, (Sp.VTable [(0, Sp.VBytes [1; 0; 0; 0])]), regs, ems, st.
  rewrite Hb.
  repeat split; try assumption; try (vm_compute; reflexivity).
  exact X.nt_wt.
Qed.

(* deprecation: a build by version-1 code (which writes T0.s) seen by version 2', which has deprecated T0.s and added
   fields; the common extension is version 2 *)
Example ev_old_build_under_deprecating : exists regs ems st,
  EM.run EM.init_state [] Example.ex_script = Some (regs, ems, st) /\ VMem.small st /\
  E2.extends X.evA X.evB = true /\ E2.extends X.evD X.evB = true /\ E2.extends X.evA X.evD = false /\
  E2D.tables_closed X.evD = true /\
  verify_root (of_list (EM.buffer_bytes st)) 0 (to_vschema X.evD) 2 (RTable 1) WithSize = VOk /\
  Sp.decode_root 2 X.evD (FS.RTable 1) true (EM.buffer_bytes st) = Some X.ev_old_value_deprecated.
Proof.
  destruct (EM.run EM.init_state [] Example.ex_script) as [[[regs ems] st]|] eqn:E; [|vm_compute in E; discriminate].
  exists regs, ems, st.
  assert (Hsmall : VMem.small st) by (vm_compute in E; injection E as <- <- <-; vm_compute; reflexivity).
  assert (Hal : EM.buffer_alignment st = 16) by (vm_compute in E; injection E as <- <- <-; reflexivity).
  assert (Hby : script_bytes Example.ex_script = true) by reflexivity.
  assert (Hwf : schema_wf (to_vschema X.evB) = true) by (vm_compute; reflexivity).
  assert (Hfr : schema_in_fragment X.evB = true) by reflexivity.
  assert (Hne : members_nonempty X.evB = true) by reflexivity.
  assert (Hlev : levels_needed X.evB 2 = 3) by reflexivity.
  assert (Haddr : 0 mod EM.buffer_alignment st = 0) by (rewrite Hal; reflexivity).
  destruct X.ev_dep_extends as (HDB & HAD & _ & HCD).
  split; [reflexivity|]. split; [exact Hsmall|]. split; [exact X.ev_extends|]. split; [exact HDB|].
  split; [exact HAD|]. split; [exact HCD|]. split.
  - apply (verifier_accepts_builds_via_common_extension X.evA X.evD X.evB X.ev_extends HDB
             Example.ex_script (FS.RTable 1) Example.ex_value true 2 regs ems st 0 2%nat
             X.ev_ids_distinct X.ev_old_tight E Hsmall Hwf Hfr Hne I Hby);
      [rewrite Hlev; unfold VERIFIER_MAX_LEVELS; lia | lia | exact I | exact Haddr].
  - rewrite <- X.ev_dep_restriction_computed.
    apply (build_decodes_via_common_extension X.evA X.evD X.evB X.ev_extends HDB
             Example.ex_script (FS.RTable 1) Example.ex_value true 2 regs ems st
             X.ev_ids_distinct X.ev_fids_distinct HCD); [cbn; lia | exact X.ev_old_tight | exact E | exact Hsmall].
Qed.
