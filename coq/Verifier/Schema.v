(* The verifier/reader view of a schema: what the generated *_verify_table functions pass to the
   runtime verifier (recovered from the generated *_verifier.h by translator T2 on every run). *)
From Flatcc.Common Require Export Bytes.
Local Open Scope Z_scope.

Inductive fkind :=
| FScalar (size align : Z)                    (* scalars, enums, structs stored inline in the table *)
| FString
| FVector (esize align maxcount : Z)          (* scalar / enum / struct vectors *)
| FStringVec
| FTable (t : nat)
| FTableVec (t : nat)
| FUnion (u : nat)                            (* value field at fid, type field at fid - 1 *)
| FUnionVec (u : nat)                         (* value vector at fid, type vector at fid - 1 *)
| FNestedTable (align : Z) (t : nat)          (* [ubyte] (nested_flatbuffer: T), T a table *)
| FNestedStruct (size align : Z).             (* [ubyte] (nested_flatbuffer: S), S a struct *)

Record field := { fid : Z; freq : bool; fk : fkind }.

Inductive umember := UTable (t : nat) | UStruct (size align : Z) | UString.

Record schema := { tables : list (list field); unions : list (list (Z * umember)) }.

Inductive root := RTable (t : nat) | RStruct (size align : Z).

Definition table_fields (S : schema) (t : nat) : list field := nth t (tables S) [].
Definition union_members (S : schema) (u : nat) : list (Z * umember) := nth u (unions S) [].

Fixpoint find_member (ms : list (Z * umember)) (code : Z) : option umember :=
  match ms with
  | [] => None
  | (c, m) :: r => if c =? code then Some m else find_member r code
  end.

Definition pow2_le (a bound : Z) : bool :=
  existsb (fun p => a =? p) (filter (fun p => p <=? bound) [1;2;4;8;16;32;64;128;256;512;1024;2048;4096;8192;16384;32768]).

(* well-formedness facts the compiler guarantees and the soundness theorem uses *)
Definition fkind_wf (k : fkind) : bool :=
  match k with
  | FScalar size align => (0 <=? size) && (size <? 65536) && pow2_le align 32768 && (size mod align =? 0)
  | FVector esize align maxc => (0 <? esize) && (esize <? 65536) && pow2_le align 32768 && (esize mod align =? 0)
                                && (0 <=? maxc) && (maxc * esize <=? U32_MAX)
  | FNestedTable align _ => pow2_le align 32768
  | FNestedStruct size align => (0 <=? size) && (size <? 65536) && pow2_le align 32768
  | _ => true
  end.
Definition umember_wf (m : umember) : bool :=
  match m with
  | UStruct size align => (0 <=? size) && (size <? 65536) && pow2_le align 32768
  | _ => true
  end.
Definition field_wf (f : field) : bool :=
  (0 <=? fid f) && (fid f <? 32764) && fkind_wf (fk f)
  && match fk f with FUnion _ | FUnionVec _ => 1 <=? fid f | _ => true end.
Definition schema_wf (S : schema) : bool :=
  forallb (forallb field_wf) (tables S)
  && forallb (forallb (fun cm => (0 <? fst cm) && (fst cm <? 256) && umember_wf (snd cm))) (unions S).
