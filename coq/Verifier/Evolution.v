(* C09: schema evolution. [restricts A B]: schema A is what remains of B when appended fields, appended union
   members and appended tables are forgotten (equivalently: B extends A by the permitted evolutions, and fields that B
   deprecates simply are not in B's descriptor).  Main theorem: the verifier is monotone under restriction. *)
From Flatcc.Verifier Require Import VerifierModel.
Local Open Scope Z_scope.

Definition fkind_eqb (a b : fkind) : bool :=
  match a, b with
  | FScalar s1 a1, FScalar s2 a2 => (s1 =? s2) && (a1 =? a2)
  | FString, FString => true
  | FVector e1 a1 m1, FVector e2 a2 m2 => (e1 =? e2) && (a1 =? a2) && (m1 =? m2)
  | FStringVec, FStringVec => true
  | FTable t1, FTable t2 => Nat.eqb t1 t2
  | FTableVec t1, FTableVec t2 => Nat.eqb t1 t2
  | FUnion u1, FUnion u2 => Nat.eqb u1 u2
  | FUnionVec u1, FUnionVec u2 => Nat.eqb u1 u2
  | FNestedTable a1 t1, FNestedTable a2 t2 => (a1 =? a2) && Nat.eqb t1 t2
  | FNestedStruct s1 a1, FNestedStruct s2 a2 => (s1 =? s2) && (a1 =? a2)
  | _, _ => false
  end.

Definition field_eqb (f g : field) : bool :=
  (fid f =? fid g) && Bool.eqb (freq f) (freq g) && fkind_eqb (fk f) (fk g).

Definition umember_eqb (a b : umember) : bool :=
  match a, b with
  | UTable t1, UTable t2 => Nat.eqb t1 t2
  | UStruct s1 a1, UStruct s2 a2 => (s1 =? s2) && (a1 =? a2)
  | UString, UString => true
  | _, _ => false
  end.

Definition fields_sub (fa fb : list field) : bool :=
  forallb (fun f => existsb (field_eqb f) fb) fa.

(* every code the old union knows means the same member in the new union *)
Definition members_sub (ma mb : list (Z * umember)) : bool :=
  forallb (fun cm => match find_member ma (fst cm), find_member mb (fst cm) with
                     | Some x, Some y => umember_eqb x y
                     | _, _ => false
                     end) ma.

Fixpoint all_nth {A} (p : nat -> A -> bool) (i : nat) (l : list A) : bool :=
  match l with [] => true | x :: r => p i x && all_nth p (Datatypes.S i) r end.

Definition restricts (A B : schema) : bool :=
  all_nth (fun i fa => fields_sub fa (table_fields B i)) 0 (tables A)
  && all_nth (fun i ma => members_sub ma (union_members B i)) 0 (unions A).

(* ------------------------------------------------------------------ soundness of the boolean equalities *)
Lemma fkind_eqb_eq a b : fkind_eqb a b = true -> a = b.
Proof.
  destruct a, b; simpl; try discriminate; intros H;
    repeat match goal with
           | H : _ && _ = true |- _ => apply andb_true_iff in H; destruct H
           | H : (_ =? _) = true |- _ => apply Z.eqb_eq in H; subst
           | H : Nat.eqb _ _ = true |- _ => apply Nat.eqb_eq in H; subst
           end; reflexivity.
Qed.

Lemma field_eqb_eq f g : field_eqb f g = true -> f = g.
Proof.
  unfold field_eqb. intros H. apply andb_true_iff in H. destruct H as [H Hk].
  apply andb_true_iff in H. destruct H as [Hi Hr].
  apply Z.eqb_eq in Hi. apply Bool.eqb_prop in Hr. apply fkind_eqb_eq in Hk.
  destruct f, g; simpl in *; subst; reflexivity.
Qed.

Lemma umember_eqb_eq a b : umember_eqb a b = true -> a = b.
Proof.
  destruct a, b; simpl; try discriminate; intros H;
    repeat match goal with
           | H : _ && _ = true |- _ => apply andb_true_iff in H; destruct H
           | H : (_ =? _) = true |- _ => apply Z.eqb_eq in H; subst
           | H : Nat.eqb _ _ = true |- _ => apply Nat.eqb_eq in H; subst
           end; reflexivity.
Qed.

Lemma fields_sub_in fa fb f : fields_sub fa fb = true -> In f fa -> In f fb.
Proof.
  unfold fields_sub. intros H Hin. rewrite forallb_forall in H. specialize (H f Hin).
  apply existsb_exists in H. destruct H as [g [Hg He]]. apply field_eqb_eq in He. subst. assumption.
Qed.

Lemma find_member_in ms c m : find_member ms c = Some m -> In (c, m) ms.
Proof.
  induction ms as [|[c' m'] r IH]; simpl; [discriminate|].
  destruct (c' =? c) eqn:E.
  - intros H. injection H as <-. apply Z.eqb_eq in E. subst. left; reflexivity.
  - intros H. right. apply IH; assumption.
Qed.

Lemma members_sub_find ma mb c m : members_sub ma mb = true -> find_member ma c = Some m -> find_member mb c = Some m.
Proof.
  unfold members_sub. intros H Hf. rewrite forallb_forall in H.
  specialize (H (c, m) (find_member_in _ _ _ Hf)). cbn [fst] in H. rewrite Hf in H.
  destruct (find_member mb c) as [y|]; [|discriminate]. apply umember_eqb_eq in H. subst. reflexivity.
Qed.

Lemma all_nth_spec {A} (p : nat -> A -> bool) i l d :
  all_nth p i l = true -> forall k, (k < length l)%nat -> p (i + k)%nat (nth k l d) = true.
Proof.
  revert i. induction l as [|x r IH]; intros i H k Hk; simpl in *; [lia|].
  apply andb_true_iff in H. destruct H as [Hx Hr].
  destruct k as [|k].
  - replace (i + 0)%nat with i by lia. assumption.
  - replace (i + Datatypes.S k)%nat with (Datatypes.S i + k)%nat by lia. apply IH; [assumption|lia].
Qed.

Lemma restricts_fields A B t : restricts A B = true -> forall f, In f (table_fields A t) -> In f (table_fields B t).
Proof.
  intros H f Hin. unfold restricts in H. apply andb_true_iff in H. destruct H as [Ht _].
  unfold table_fields in *. destruct (Nat.lt_ge_cases t (length (tables A))) as [Hlt|Hge].
  - pose proof (all_nth_spec _ 0%nat (tables A) [] Ht t Hlt) as Hs. cbn in Hs.
    eapply fields_sub_in; eassumption.
  - rewrite nth_overflow in Hin by assumption. destruct Hin.
Qed.

Lemma restricts_members A B u c m : restricts A B = true ->
  find_member (union_members A u) c = Some m -> find_member (union_members B u) c = Some m.
Proof.
  intros H Hf. unfold restricts in H. apply andb_true_iff in H. destruct H as [_ Hu].
  unfold union_members in *. destruct (Nat.lt_ge_cases u (length (unions A))) as [Hlt|Hge].
  - pose proof (all_nth_spec _ 0%nat (unions A) [] Hu u Hlt) as Hs. cbn in Hs.
    eapply members_sub_find; eassumption.
  - rewrite nth_overflow in Hf by assumption. discriminate.
Qed.

(* ------------------------------------------------------------------ monotonicity of the combinators *)
Section Mono.
Variable b : buf.
Variable addr : Z.

Lemma with_field_mono d id req (kB kA : Z -> vres) :
  (forall base, kB base = VOk -> kA base = VOk) ->
  with_field b d id req kB = VOk -> with_field b d id req kA = VOk.
Proof.
  intros Hk. unfold with_field. destruct (get_offset_field b d id req) as [r base].
  destruct r; auto. destruct (base =? 0); auto.
Qed.

Lemma vloop_mono n : forall base (fB fA : Z -> vres),
  (forall x, fB x = VOk -> fA x = VOk) -> vloop n base fB = VOk -> vloop n base fA = VOk.
Proof.
  induction n as [|n IH]; intros base fB fA Hf; simpl; [auto|].
  destruct (fB base) eqn:E; try discriminate. intros H. rewrite (Hf _ E). eapply IH; eassumption.
Qed.

Lemma uloop_mono n : forall o base types ttl (fB fA : uvf),
  (forall ty bs el tt, fB ty bs el tt = VOk -> fA ty bs el tt = VOk) ->
  uloop b n o base types ttl fB = VOk -> uloop b n o base types ttl fA = VOk.
Proof.
  induction n as [|n IH]; intros o base types ttl fB fA Hf; simpl; [auto|].
  destruct (r32 b o base) as [elem|]; [|discriminate].
  destruct (r8 b o types) as [ty|]; [|discriminate].
  destruct (elem =? 0).
  - destruct (ty =? 0); [|discriminate]. eapply IH; eassumption.
  - destruct (negb (ty =? 0)); [|discriminate].
    destruct (fB ty base elem ttl) eqn:E; try discriminate. rewrite (Hf _ _ _ _ E). eapply IH; eassumption.
Qed.

Lemma verify_table_vector_mono (vB vA : Z -> Z -> Z -> vres) o e base off ttl :
  (forall x y z, vB x y z = VOk -> vA x y z = VOk) ->
  verify_table_vector b vB o e base off ttl = VOk -> verify_table_vector b vA o e base off ttl = VOk.
Proof.
  intros Hv. unfold verify_table_vector. destruct (0 <? ttl); [|discriminate].
  destruct (verify_vector b o e base off 4 4 (COUNT_MAX 4)); try discriminate.
  destruct (r32 b o (u32 (base + off))) as [n|]; [|discriminate].
  apply vloop_mono. intros x. destruct (r32 b o x); [|discriminate]. apply Hv.
Qed.

Lemma verify_union_vector_mono o e base off count types ttl (fB fA : uvf) :
  (forall ty bs el tt, fB ty bs el tt = VOk -> fA ty bs el tt = VOk) ->
  verify_union_vector b o e base off count types ttl fB = VOk ->
  verify_union_vector b o e base off count types ttl fA = VOk.
Proof.
  intros Hf. unfold verify_union_vector. destruct (0 <? ttl); [|discriminate].
  destruct (verify_vector b o e base off 4 4 (COUNT_MAX 4)); try discriminate.
  destruct (r32 b o (u32 (base + off))) as [n|]; [|discriminate].
  destruct (n =? count); [|discriminate]. apply uloop_mono; assumption.
Qed.

Lemma verify_union_field_mono (fB fA : Z -> Z -> uvf) d id req :
  (forall o e ty bs el tt, fB o e ty bs el tt = VOk -> fA o e ty bs el tt = VOk) ->
  verify_union_field b addr fB d id req = VOk -> verify_union_field b addr fA d id req = VOk.
Proof.
  intros Hf. unfold verify_union_field.
  destruct (read_vt_entry b d (id - 1)) as [vte_type|]; [|discriminate].
  destruct (vte_type =? 0); [auto|].
  destruct (verify_field b addr d (id - 1) false 1 1); try discriminate.
  destruct (read_vt_entry b d id) as [vte_table|]; [|discriminate].
  destruct (r8 b (t_o d) (t_table d + vte_type)) as [ty|]; [|discriminate].
  destruct (negb (ty =? 0) || (vte_table =? 0)); [|discriminate].
  destruct (ty =? 0); [auto|].
  apply with_field_mono. intros base. destruct (r32 b (t_o d) base); [|discriminate]. apply Hf.
Qed.

Lemma verify_union_vector_field_mono fixed (fB fA : Z -> Z -> uvf) d id req :
  (forall o e ty bs el tt, fB o e ty bs el tt = VOk -> fA o e ty bs el tt = VOk) ->
  verify_union_vector_field_gen b fixed fB d id req = VOk -> verify_union_vector_field_gen b fixed fA d id req = VOk.
Proof.
  intros Hf. unfold verify_union_vector_field_gen.
  destruct (read_vt_entry b d (id - 1)) as [vte_type|]; [|discriminate].
  destruct (read_vt_entry b d id) as [vte_table|]; [|discriminate].
  destruct (if (vte_type =? 0) && (vte_table =? 0) then if negb req then VOk else VErr E_type_field_absent_from_required_union_vector_field else VOk); try discriminate.
  destruct (if fixed && (vte_type =? 0) && negb (vte_table =? 0) then VErr E_union_cannot_have_a_table_without_a_type else VOk); try discriminate.
  destruct (verify_vector_field b d (id - 1) req 1 1 (COUNT_MAX 1)); try discriminate.
  destruct (vte_type =? 0); [auto|].
  destruct (r32 b (t_o d) (t_table d + vte_type)) as [toff|]; [|discriminate].
  destruct (r32 b (t_o d) (t_table d + vte_type + toff)) as [count|]; [|discriminate].
  apply with_field_mono. intros base. destruct (r32 b (t_o d) base); [|discriminate].
  apply verify_union_vector_mono. apply Hf.
Qed.

Lemma nested_table_mono (vB vA : Z -> Z -> Z -> Z -> Z -> vres) d id req align :
  (forall o e bs off tt, vB o e bs off tt = VOk -> vA o e bs off tt = VOk) ->
  verify_table_as_nested_root b addr vB d id req align = VOk ->
  verify_table_as_nested_root b addr vA d id req align = VOk.
Proof.
  intros Hv. unfold verify_table_as_nested_root.
  destruct (verify_vector_field b d id req 1 align (COUNT_MAX 1)); try discriminate.
  destruct (get_field_pos b d id) as [p|]; [|discriminate].
  destruct (p =? 0); [auto|].
  destruct (r32 b (t_o d) p) as [off|]; [|discriminate].
  destruct (r32 b (t_o d) (p + off)) as [bufsiz|]; [|discriminate].
  destruct (verify_buffer_header_noid addr (t_o d + (p + off) + 4) bufsiz); try discriminate.
  destruct (r32 b (t_o d + (p + off) + 4) 0); [|discriminate]. apply Hv.
Qed.

End Mono.

(* ------------------------------------------------------------------ the theorem *)
Section Evolves.
Variable b : buf.
Variable addr : Z.
Variables A B : schema.
Hypothesis HR : restricts A B = true.

Definition tvmono (vB vA : Z -> Z -> Z -> Z -> Z -> nat -> vres) : Prop :=
  forall o e bs off tt t, vB o e bs off tt t = VOk -> vA o e bs off tt t = VOk.

Lemma union_verifier_mono vB vA u : tvmono vB vA ->
  forall o e ty bs el tt, union_verifier b B vB u o e ty bs el tt = VOk -> union_verifier b A vA u o e ty bs el tt = VOk.
Proof.
  intros Hv o e ty bs el tt. unfold union_verifier.
  destruct (find_member (union_members A u) ty) as [m|] eqn:EA; [|auto].
  rewrite (restricts_members A B u ty m HR EA). destruct m; auto.
Qed.

Lemma verify_one_mono vB vA d f : tvmono vB vA ->
  verify_one b addr B vB d f = VOk -> verify_one b addr A vA d f = VOk.
Proof.
  intros Hv. unfold verify_one. destruct (fk f) as [s a| |es a m| |t|t|u|u|a t|s a]; auto.
  - unfold verify_table_field. apply with_field_mono. intros base. destruct (r32 b (t_o d) base); [|discriminate]. apply Hv.
  - unfold verify_table_vector_field. apply with_field_mono. intros base. destruct (r32 b (t_o d) base); [|discriminate].
    apply verify_table_vector_mono. intros x1 y1 z1. apply Hv.
  - apply verify_union_field_mono. apply union_verifier_mono; assumption.
  - unfold verify_union_vector_field. apply verify_union_vector_field_mono. apply union_verifier_mono; assumption.
  - apply nested_table_mono. intros o e bs off tt. apply Hv.
Qed.

Lemma verify_fields_all vt d fs : verify_fields b addr A vt d fs = VOk <-> forall f, In f fs -> verify_one b addr A vt d f = VOk.
Proof.
  induction fs as [|f r IH]; simpl.
  - split; [intros _ f []|reflexivity].
  - split.
    + intros H g [<-|Hin]; destruct (verify_one b addr A vt d f) eqn:E; try discriminate; [reflexivity|].
      apply IH; assumption.
    + intros H. rewrite (H f (or_introl eq_refl)). apply IH. intros g Hg. apply H. right; assumption.
Qed.

Lemma verify_fields_allB vt d fs : verify_fields b addr B vt d fs = VOk -> forall f, In f fs -> verify_one b addr B vt d f = VOk.
Proof.
  induction fs as [|f r IH]; simpl; [intros _ f []|].
  destruct (verify_one b addr B vt d f) eqn:E; try discriminate.
  intros H g [<-|Hin]; [assumption|]. apply IH; assumption.
Qed.

Lemma verify_table_mono : forall fuel, tvmono (verify_table b addr B fuel) (verify_table b addr A fuel).
Proof.
  induction fuel as [|fuel IH]; intros o e bs off tt t; simpl; [discriminate|].
  unfold verify_table_with.
  destruct (0 <? tt - 1); [|discriminate].
  destruct (check_header e bs off); [|discriminate].
  destruct (r32 b o (u32 (bs + off))) as [so|]; [|discriminate].
  destruct ((u32 (u32 (bs + off) - so) <? 2147483648) && (u32 (u32 (bs + off) - so) mod 2 =? 0)); [|discriminate].
  destruct (u32 (u32 (bs + off) - so) + 2 <=? e); [|discriminate].
  destruct (r16 b o (u32 (u32 (bs + off) - so))) as [vsize|]; [|discriminate].
  destruct ((u32 (u32 (u32 (bs + off) - so) + vsize) <=? e) && (vsize mod 2 =? 0)); [|discriminate].
  destruct (4 <=? vsize); [|discriminate].
  destruct (r16 b o (u32 (u32 (bs + off) - so) + 2)) as [tsize|]; [|discriminate].
  destruct (tsize <=? u32 (e - u32 (bs + off))); [|discriminate].
  intros H. apply verify_fields_all. intros f Hin.
  apply (verify_one_mono _ _ _ _ IH).
  eapply verify_fields_allB; [exact H|]. eapply restricts_fields; eassumption.
Qed.

(* Every buffer the NEW schema's verifier accepts is accepted by the OLD schema's verifier, for every root table,
   plain and size-prefixed. *)
Theorem verify_root_mono fuel t v :
  verify_root b addr B fuel (RTable t) v = VOk -> verify_root b addr A fuel (RTable t) v = VOk.
Proof.
  unfold verify_root, verify_table_as_root. destruct v.
  - destruct (verify_buffer_header_noid addr 0 (blen b)); try discriminate.
    destruct (r32 b 0 0); [|discriminate]. apply verify_table_mono.
  - destruct (u32 addr mod 4 =? 0); [|discriminate]. destruct (blen b <=? U32_MAX - 8); [|discriminate].
    destruct (12 <=? blen b); [|discriminate]. destruct (r32 b 0 0) as [sf|]; [|discriminate].
    destruct (sf <=? blen b - 4); [|discriminate]. destruct (r32 b 0 4); [|discriminate]. apply verify_table_mono.
Qed.

End Evolves.

(* non-vacuity: a concrete evolution *)
Example restricts_example :
  restricts {| tables := [[ {| fid := 0; freq := false; fk := FScalar 4 4 |} ]]; unions := [[(1, UString)]] |}
            {| tables := [[ {| fid := 0; freq := false; fk := FScalar 4 4 |}; {| fid := 1; freq := false; fk := FString |} ]; []];
               unions := [[(1, UString); (2, UTable 1)]] |} = true.
Proof. vm_compute. reflexivity. Qed.
